import LunaVerif.Lemmas.C33Fairness
/-!
# C33 — why the fairness bound must be conditional

Without idle opportunities (`can_send_skip = 0` throughout — e.g. while the link layer transmits
training sets, its arbiter is never idle) no SKP word is ever inserted and the 3-bit debt counter is
simply the number of 354-byte boundaries crossed MODULO 8: after 708 words (2832 bytes) eight owed
ordered sets have been forgotten.  And the window bound `W ≤ 177` of `ctc_bounded_fairness` cannot be
relaxed: with one opportunity per 178 words the unpaid bytes grow by 4 per window, for ever.
-/
namespace LunaVerif.CtcInserter
open LunaVerif.Ss

/-- One step without permission: nothing is sent, the counter is incremented modulo 8. -/
theorem step_no_idle (s : State) (i : In) (hc : i.canSend = false) (he : s.elapsed < 354) (hk : s.skips < 8) :
    sending s i = false ∧
    (next s i).skips = (s.skips + (s.elapsed + 4 * (if xfer s i then 1 else 0)) / 354) % 8 ∧
    (next s i).elapsed = (s.elapsed + 4 * (if xfer s i then 1 else 0)) % 354 := by
  unfold next skipNeeded sending
  simp only [SKIP_BYTE_LIMIT]
  cases hx : xfer s i <;> by_cases hl : s.elapsed + 4 ≥ 354 <;> simp [hc, hl] <;> omega

/-- **Without idle opportunities** (any stream with `can_send_skip = 0` throughout, from any legal
state): no SKP word is sent and `skips_to_send` = (owed sets) mod 8, the remainder being kept. -/
theorem no_idle_counter_is_mod_8 (s : State) (ins : List In) (hc : ∀ i ∈ ins, i.canSend = false)
    (he : s.elapsed < 354) (hk : s.skips < 8) :
    sentWords s ins = 0 ∧
    (final s ins).skips = (s.skips + (s.elapsed + 4 * transfers s ins) / 354) % 8 ∧
    (final s ins).elapsed = (s.elapsed + 4 * transfers s ins) % 354 := by
  induction ins generalizing s with
  | nil =>
    refine ⟨rfl, ?_, ?_⟩
    · show s.skips = (s.skips + (s.elapsed + 4 * 0) / 354) % 8
      omega
    · show s.elapsed = (s.elapsed + 4 * 0) % 354
      omega
  | cons i is ih =>
    obtain ⟨h1, h2, h3⟩ := step_no_idle s i (hc i (List.mem_cons_self ..)) he hk
    obtain ⟨g1, g2, g3⟩ := ih (next s i) (fun j hj => hc j (List.mem_cons_of_mem _ hj))
      (by rw [h3]; omega) (by rw [h2]; omega)
    rw [h2, h3] at g2
    rw [h3] at g3
    simp only [sentWords, final, transfers, h1, g1, Bool.false_eq_true, if_false]
    refine ⟨trivial, ?_, ?_⟩
    · rw [g2]
      cases xfer s i <;> simp only [if_true, if_false, Bool.false_eq_true] <;> omega
    · rw [g3]
      cases xfer s i <;> simp only [if_true, if_false, Bool.false_eq_true] <;> omega

/-- A stream of words that are all taken (valid, downstream ready) transfers one word per cycle. -/
theorem transfers_all_taken (s : State) (ins : List In) (hr : s.sinkReady = true)
    (hv : ∀ i ∈ ins, i.sink.valid = true ∧ i.srcReady = true ∧ i.canSend = false) :
    transfers s ins = ins.length := by
  induction ins generalizing s with
  | nil => rfl
  | cons i is ih =>
    obtain ⟨a, b, c⟩ := hv i (List.mem_cons_self ..)
    have hx : xfer s i = true := by simp [xfer, a, hr]
    have hn : (next s i).sinkReady = true := by simp [next, sending, c, b]
    simp only [transfers, hx, if_true, List.length_cons, ih (next s i) hn
      (fun j hj => hv j (List.mem_cons_of_mem _ hj))]
    omega

/-- **The negative fact, witness family.**  EVERY stream of 708 words offered back to back without an
idle opportunity (`can_send_skip = 0`, all words taken), started with nothing owed: the counter reads
0 again although 8 ordered sets are owed and none was sent; the accounting identity of
`debt_from_reset` fails and `NoWrap` is false.  (Training sets are such a stream.) -/
theorem no_idle_debt_counter_wraps (s : State) (ins : List In) (hr : s.sinkReady = true)
    (h0 : s.skips = 0) (he : s.elapsed = 0) (hlen : ins.length = 708)
    (hv : ∀ i ∈ ins, i.sink.valid = true ∧ i.srcReady = true ∧ i.canSend = false) :
    sentWords s ins = 0 ∧ (final s ins).skips = 0 ∧ 4 * transfers s ins / 354 = 8 ∧ ¬ NoWrap s ins := by
  have ht := transfers_all_taken s ins hr hv
  obtain ⟨a, b, _⟩ := no_idle_counter_is_mod_8 s ins (fun i hi => (hv i hi).2.2) (by omega) (by omega)
  rw [ht, hlen, h0, he] at b
  refine ⟨a, by rw [b], by rw [ht, hlen], ?_⟩
  intro hnw
  obtain ⟨c, _, d⟩ := skp_debt_accounting s ins (by omega) (by omega) hnw
  rw [a, ht, hlen, h0, he] at c
  omega

/-- … and from reset: one cycle in which `sink.ready` rises, then any 708 such words. -/
theorem no_idle_debt_counter_wraps_from_reset (i0 : In) (ins : List In) (h0 : i0.srcReady = true)
    (hc0 : i0.canSend = false) (hlen : ins.length = 708)
    (hv : ∀ i ∈ ins, i.sink.valid = true ∧ i.srcReady = true ∧ i.canSend = false) :
    sentWords init (i0 :: ins) = 0 ∧ (final init (i0 :: ins)).skips = 0 ∧
      4 * transfers init (i0 :: ins) / 354 = 8 := by
  have hs : sending init i0 = false := by simp [sending, hc0]
  have hx : xfer init i0 = false := by simp [xfer, init]
  have hr : (next init i0).sinkReady = true := by simp [next, hs, h0]
  have hk : (next init i0).skips = 0 := by
    simp only [next, skipNeeded, hx, hs]
    simp [init]
  have he : (next init i0).elapsed = 0 := by
    simp only [next, hx]
    simp [init]
  obtain ⟨a, b, c, _⟩ := no_idle_debt_counter_wraps (next init i0) ins hr hk he hlen hv
  simp only [sentWords, final, transfers, hs, hx, a, b, Bool.false_eq_true, if_false]
  exact ⟨trivial, trivial, by omega⟩

example : (final init (busyCycle 0 :: List.replicate 708 (busyCycle 0xBC))).skips = 0 := by decide +kernel

/-! ## One opportunity per 178 words is not enough -/

theorem final_append (s : State) (a b : List In) : final s (a ++ b) = final (final s a) b := by
  induction a generalizing s with
  | nil => rfl
  | cons i is ih => exact ih (next s i)

theorem noWrap_append (s : State) (a b : List In) :
    NoWrap s (a ++ b) ↔ NoWrap s a ∧ NoWrap (final s a) b := by
  induction a generalizing s with
  | nil => exact ⟨fun h => ⟨trivial, h⟩, fun h => h.2⟩
  | cons i is ih =>
    constructor
    · intro h
      obtain ⟨h1, h2⟩ := h
      obtain ⟨g1, g2⟩ := (ih (next s i)).1 h2
      exact ⟨⟨h1, g1⟩, g2⟩
    · intro h
      obtain ⟨⟨h1, h2⟩, h3⟩ := h
      exact ⟨h1, (ih (next s i)).2 ⟨h2, h3⟩⟩

theorem sinkReady_all_taken (s : State) (ins : List In) (hr : s.sinkReady = true)
    (hv : ∀ i ∈ ins, i.sink.valid = true ∧ i.srcReady = true ∧ i.canSend = false) :
    (final s ins).sinkReady = true := by
  induction ins generalizing s with
  | nil => exact hr
  | cons i is ih =>
    obtain ⟨_, b, c⟩ := hv i (List.mem_cons_self ..)
    exact ih (next s i) (by simp [next, sending, c, b]) (fun j hj => hv j (List.mem_cons_of_mem _ hj))

theorem idleEvery_busy_run (W c n : Nat) (d : Nat) (rest : List In) (h : c + n < W)
    (hr : IdleEvery W (c + n) rest) : IdleEvery W c (List.replicate n (busyCycle d) ++ rest) := by
  induction n generalizing c with
  | zero => simpa using hr
  | succ n ih =>
    rw [List.replicate_succ, List.cons_append]
    unfold IdleEvery
    have e : c + 1 + n = c + (n + 1) := by omega
    simp only [busyCycle, Bool.false_eq_true, if_false, if_true]
    exact ⟨by omega, ih (c + 1) (by omega) (by rw [e]; exact hr)⟩

/-- 177 packet words, then one idle word: an idle opportunity in every window of 178 words. -/
def period178 : List In := List.replicate 177 (busyCycle 0) ++ [idleCycle]

def stream178 : Nat → List In
  | 0 => []
  | k + 1 => period178 ++ stream178 k

theorem idleEvery_stream178 (k : Nat) : IdleEvery 178 0 (stream178 k) := by
  induction k with
  | zero => trivial
  | succ k ih =>
    unfold stream178 period178
    rw [List.append_assoc]
    apply idleEvery_busy_run 178 0 177 0 _ (by omega)
    show IdleEvery 178 (0 + 177) (idleCycle :: stream178 k)
    unfold IdleEvery
    simpa [idleCycle] using ih

theorem busy_all_taken (n d : Nat) :
    ∀ i ∈ List.replicate n (busyCycle d), i.sink.valid = true ∧ i.srcReady = true ∧ i.canSend = false := by
  intro i hi
  rw [List.mem_replicate] at hi
  rw [hi.2]
  simp [busyCycle]

/-- One period from a state with `p` unpaid bytes, `p + 708 < 2832`: the burst raises the debt to
`(p + 708)/354 ≥ 2`, the idle word is replaced by a SKP word — and `p + 4` bytes remain unpaid. -/
theorem period178_step (s : State) (hr : s.sinkReady = true) (he : s.elapsed < 354)
    (hp : 354 * s.skips + s.elapsed + 708 < 2832) :
    (final s period178).sinkReady = true ∧ (final s period178).elapsed < 354 ∧
    354 * (final s period178).skips + (final s period178).elapsed = 354 * s.skips + s.elapsed + 4 ∧
    NoWrap s period178 := by
  have hk : s.skips < 8 := by omega
  have hv := busy_all_taken 177 0
  have ht := transfers_all_taken s _ hr hv
  rw [List.length_replicate] at ht
  obtain ⟨_, b2, b3⟩ := no_idle_counter_is_mod_8 s _ (fun i hi => (hv i hi).2.2) he hk
  rw [ht] at b2 b3
  have hr' := sinkReady_all_taken s _ hr hv
  have hnw1 : NoWrap s (List.replicate 177 (busyCycle 0)) :=
    no_wrap_below_2832_bytes s _ he hk (by rw [ht]; omega)
  unfold period178
  rw [final_append, noWrap_append]
  generalize final s (List.replicate 177 (busyCycle 0)) = t at b2 b3 hr'
  have he' : t.elapsed < 354 := by omega
  have hk' : t.skips < 8 := by omega
  have h2 : 2 ≤ t.skips := by omega
  have hs : sending t idleCycle = true := by simp [sending, idleCycle, h2]
  have hx : xfer t idleCycle = true := by simp [xfer, idleCycle, hr']
  have hnw : skipNeeded t idleCycle = true → sending t idleCycle = false → t.skips < 7 := by
    intro _ h; rw [hs] at h; exact absurd h (by decide)
  obtain ⟨a1, a2, a3⟩ := step_accounting t idleCycle he' hk' hnw
  rw [hs, hx] at a1
  simp only [if_true] at a1
  show (next t idleCycle).sinkReady = true ∧ (next t idleCycle).elapsed < 354 ∧
    354 * (next t idleCycle).skips + (next t idleCycle).elapsed = 354 * s.skips + s.elapsed + 4 ∧
    NoWrap s (List.replicate 177 (busyCycle 0)) ∧ NoWrap t [idleCycle]
  refine ⟨by simp [next, hs, hr'], a2, by omega, hnw1, hnw, trivial⟩

theorem stream178_succ' (k : Nat) : stream178 (k + 1) = stream178 k ++ period178 := by
  induction k with
  | zero => simp [stream178]
  | succ k ih =>
    show period178 ++ stream178 (k + 1) = (period178 ++ stream178 k) ++ period178
    rw [ih, List.append_assoc]

/-- `k` periods from a state with `p` unpaid bytes: `p + 4k` remain, as long as the counter holds. -/
theorem stream178_run (k : Nat) (s : State) (hr : s.sinkReady = true) (he : s.elapsed < 354)
    (hp : k = 0 ∨ 354 * s.skips + s.elapsed + 4 * k + 704 < 2832) :
    (final s (stream178 k)).sinkReady = true ∧ (final s (stream178 k)).elapsed < 354 ∧
    354 * (final s (stream178 k)).skips + (final s (stream178 k)).elapsed = 354 * s.skips + s.elapsed + 4 * k ∧
    NoWrap s (stream178 k) := by
  induction k generalizing s with
  | zero => exact ⟨hr, he, by simp [stream178, final], trivial⟩
  | succ k ih =>
    obtain ⟨a1, a2, a3, a4⟩ := period178_step s hr he (by omega)
    obtain ⟨b1, b2, b3, b4⟩ := ih (final s period178) a1 a2 (by omega)
    show (final s (period178 ++ stream178 k)).sinkReady = true ∧ (final s (period178 ++ stream178 k)).elapsed < 354 ∧
      354 * (final s (period178 ++ stream178 k)).skips + (final s (period178 ++ stream178 k)).elapsed =
        354 * s.skips + s.elapsed + 4 * (k + 1) ∧ NoWrap s (period178 ++ stream178 k)
    rw [final_append, noWrap_append]
    exact ⟨b1, b2, by omega, a4, b4⟩

/-- **The window bound `W ≤ 177` cannot be relaxed.**  The streams `idle, (177 packet words, idle)^k`
offer an idle opportunity in every window of 178 words, for every `k`; every opportunity from the
second on IS used for a SKP word, yet the unpaid bytes grow by 4 per window: after `k ≤ 531` windows
`skips_to_send = ⌊4k/354⌋` (6 at `k = 531`, beyond the bound 3 of `ctc_bounded_fairness`), and in the
532nd window the counter wraps. -/
theorem idle_every_178_not_enough :
    (∀ k, IdleEvery 178 0 (idleCycle :: stream178 k)) ∧
    (∀ k, k ≤ 531 → NoWrap init (idleCycle :: stream178 k) ∧
      (final init (idleCycle :: stream178 k)).skips = 4 * k / 354 ∧
      (final init (idleCycle :: stream178 k)).elapsed = 4 * k % 354) ∧
    ¬ NoWrap init (idleCycle :: stream178 532) := by
  have hr0 : (next init idleCycle).sinkReady = true := by decide
  have he0 : (next init idleCycle).elapsed = 0 := by decide
  have hk0 : (next init idleCycle).skips = 0 := by decide
  have hn0 : skipNeeded init idleCycle = false := by decide
  refine ⟨?_, ?_, ?_⟩
  · intro k
    unfold IdleEvery
    simpa [idleCycle] using idleEvery_stream178 k
  · intro k hk
    obtain ⟨_, b2, b3, b4⟩ := stream178_run k (next init idleCycle) hr0 (by omega) (by omega)
    rw [he0, hk0] at b3
    refine ⟨⟨fun h => by rw [hn0] at h; exact absurd h (by decide), b4⟩, ?_, ?_⟩
    · show (final (next init idleCycle) (stream178 k)).skips = _
      omega
    · show (final (next init idleCycle) (stream178 k)).elapsed = _
      omega
  · intro h
    obtain ⟨_, h⟩ := h
    rw [stream178_succ', noWrap_append] at h
    obtain ⟨_, h⟩ := h
    unfold period178 at h
    rw [noWrap_append] at h
    obtain ⟨h, _⟩ := h
    obtain ⟨b1, b2, b3, _⟩ := stream178_run 531 (next init idleCycle) hr0 (by omega) (by omega)
    rw [he0, hk0] at b3
    generalize final (next init idleCycle) (stream178 531) = t at h b1 b2 b3
    have hv := busy_all_taken 177 0
    have ht := transfers_all_taken t _ b1 hv
    rw [List.length_replicate] at ht
    obtain ⟨c1, _, _⟩ := no_idle_counter_is_mod_8 t _ (fun i hi => (hv i hi).2.2) b2 (by omega)
    obtain ⟨d1, d2, d3⟩ := skp_debt_accounting t _ b2 (by omega) h
    rw [c1, ht] at d1
    omega

/-- the closed form on a short instance, by evaluation: two windows leave 8 bytes unpaid, two SKP words sent -/
example : (final init (idleCycle :: stream178 2)).elapsed = 8 ∧ (final init (idleCycle :: stream178 2)).skips = 0 ∧
    sentWords init (idleCycle :: stream178 2) = 2 := by decide +kernel

end LunaVerif.CtcInserter
