import LunaVerif.Lemmas.C24Coh
import LunaVerif.Lemmas.C24RankDefs
/-!
# C24 — one cycle lowers the rank (liveness step lemmas)

For every state satisfying `Coh` and `Live K` and every cycle satisfying the bounded-fairness
hypotheses `liveCycle K T`: the monitor facts `Live K` are preserved and — once the start-up timer
has expired — the rank behaves as `RankStep` says (a DIR-low cycle lowers it, a DIR-high cycle raises
it by at most `2K+4`, 0 is absorbing), where the rank is taken with respect to the control inputs
of that very cycle.  One lemma per state of the register window / transmit translator.
-/
set_option linter.unusedSimpArgs false
namespace LunaVerif.Ulpi

theorem or64_div' (n : Nat) (h : n < 16) : (64 ||| n) / 64 = 1 := by
  revert n; decide

/-- The conclusion of the step lemmas. -/
def StepGoal (cfg : Config) (K T : Nat) (x : World) (i : UtmiIn) : Prop :=
  Live K (x.step cfg i) ∧
  (x.u.phyReady = true →
    RankStep K i.phy.dir (rank K T (functionControl i.ctrl) (otgControl i.ctrl) x)
      (rank K T (functionControl i.ctrl) (otgControl i.ctrl) (x.step cfg i)))

theorem rank_step_startWrite (cfg : Config) (K T : Nat) (x : World) (i : UtmiIn) (h : Coh x) (hl : Live K x)
    (hw : x.u.win.st = .startWrite)
    (hs : liveCycle K T x.p.bus x.e i (x.u.step cfg i).2 = true) : StepGoal cfg K T x i := by
  obtain ⟨⟨win, ctl, tx, rx, rdy, cnt⟩, ⟨pb, r4, rA, po, pw⟩, ⟨pd, wt, tl, mh, dn, a4, aA⟩⟩ := x
  obtain ⟨wst, ca, cw, d, oq, sp, wdn, rd⟩ := win
  obtain ⟨tst, treq⟩ := tx
  obtain ⟨c4, cA, cb⟩ := ctl
  obtain ⟨⟨dir, nxt, din⟩, txd, txv, ctrl⟩ := i
  simp only at hw
  subst hw
  simp only [Coh, BusyCommon, Latched] at h
  obtain ⟨h1, h2, ⟨hb, ht, ha, hd, hr4, hrA⟩, hpb, hsp, hpd⟩ := h
  subst h1 hb hd hr4 hrA hpb hsp
  cases ht
  obtain ⟨l2, l3, l4⟩ := hl
  simp only at l2 l3 l4
  simp only [liveCycle, safeCycle, Utmi.step, Utmi.txBusIdle, Utmi.ctlOut, Utmi.ctlBusIdle, presented] at hs
  simp only [StepGoal, World.step, Utmi.step, Utmi.txBusIdle, Utmi.ctlOut, Utmi.ctlBusIdle]
  generalize functionControl ctrl = v4 at *
  generalize otgControl ctrl = vA at *
  cases dir <;> cases nxt <;> cases rdy <;> simp_all [StepGoal, Live, Latched, RankStep, rank, pendAfter, pendNow, txRank, wcost, World.step, Utmi.step, Window.step, Ctl.step, Ctl.comb, Tx.step,
    PhyRegs.step, PhyRegs.commit, Env.step, Utmi.ctlOut, Utmi.ctlBusIdle, Utmi.txBusIdle, Tx.busy, Window.busy, presented, PhyBus.isTx, PhyBus.isIdle,
    COMMAND_REG_WRITE, ADDR_FUNCTION_CONTROL, ADDR_OTG_CONTROL, TRANSMIT_COMMAND]
  all_goals grind

theorem rank_step_sendWriteAddress (cfg : Config) (K T : Nat) (x : World) (i : UtmiIn) (h : Coh x) (hl : Live K x)
    (hw : x.u.win.st = .sendWriteAddress)
    (hs : liveCycle K T x.p.bus x.e i (x.u.step cfg i).2 = true) : StepGoal cfg K T x i := by
  obtain ⟨⟨win, ctl, tx, rx, rdy, cnt⟩, ⟨pb, r4, rA, po, pw⟩, ⟨pd, wt, tl, mh, dn, a4, aA⟩⟩ := x
  obtain ⟨wst, ca, cw, d, oq, sp, wdn, rd⟩ := win
  obtain ⟨tst, treq⟩ := tx
  obtain ⟨c4, cA, cb⟩ := ctl
  obtain ⟨⟨dir, nxt, din⟩, txd, txv, ctrl⟩ := i
  simp only at hw
  subst hw
  simp only [Coh, BusyCommon, Latched] at h
  obtain ⟨h1, h2, ⟨hb, ht, ha, hd, hr4, hrA⟩, hpb, hsp, hdo, hpd⟩ := h
  subst h1 hb hd hr4 hrA hpb hsp hdo hpd
  cases ht
  obtain ⟨l2, l3, l4⟩ := hl
  simp only at l2 l3 l4
  simp only [liveCycle, safeCycle, Utmi.step, Utmi.txBusIdle, Utmi.ctlOut, Utmi.ctlBusIdle, presented] at hs
  simp only [StepGoal, World.step, Utmi.step, Utmi.txBusIdle, Utmi.ctlOut, Utmi.ctlBusIdle]
  generalize functionControl ctrl = v4 at *
  generalize otgControl ctrl = vA at *
  rcases ha with ⟨ha, hv⟩ | ⟨ha, hv⟩ <;> subst ha hv <;>
  cases dir <;> cases nxt <;> cases rdy <;> simp_all [StepGoal, Live, Latched, RankStep, rank, pendAfter, pendNow, txRank, wcost, World.step, Utmi.step, Window.step, Ctl.step, Ctl.comb, Tx.step,
    PhyRegs.step, PhyRegs.commit, Env.step, Utmi.ctlOut, Utmi.ctlBusIdle, Utmi.txBusIdle, Tx.busy, Window.busy, presented, PhyBus.isTx, PhyBus.isIdle,
    COMMAND_REG_WRITE, ADDR_FUNCTION_CONTROL, ADDR_OTG_CONTROL, TRANSMIT_COMMAND]
  all_goals grind

theorem rank_step_holdWrite (cfg : Config) (K T : Nat) (x : World) (i : UtmiIn) (h : Coh x) (hl : Live K x)
    (hw : x.u.win.st = .holdWrite)
    (hs : liveCycle K T x.p.bus x.e i (x.u.step cfg i).2 = true) : StepGoal cfg K T x i := by
  obtain ⟨⟨win, ctl, tx, rx, rdy, cnt⟩, ⟨pb, r4, rA, po, pw⟩, ⟨pd, wt, tl, mh, dn, a4, aA⟩⟩ := x
  obtain ⟨wst, ca, cw, d, oq, sp, wdn, rd⟩ := win
  obtain ⟨tst, treq⟩ := tx
  obtain ⟨c4, cA, cb⟩ := ctl
  obtain ⟨⟨dir, nxt, din⟩, txd, txv, ctrl⟩ := i
  simp only at hw
  subst hw
  simp only [Coh, BusyCommon, Latched] at h
  obtain ⟨h1, h2, ⟨hb, ht, ha, hd, hr4, hrA⟩, hpb, hsp, hdo, hpd⟩ := h
  subst h1 hb hd hr4 hrA hpb hsp hdo hpd
  cases ht
  obtain ⟨l2, l3, l4⟩ := hl
  simp only at l2 l3 l4
  simp only [liveCycle, safeCycle, Utmi.step, Utmi.txBusIdle, Utmi.ctlOut, Utmi.ctlBusIdle, presented] at hs
  simp only [StepGoal, World.step, Utmi.step, Utmi.txBusIdle, Utmi.ctlOut, Utmi.ctlBusIdle]
  generalize functionControl ctrl = v4 at *
  generalize otgControl ctrl = vA at *
  cases dir <;> cases nxt <;> cases rdy <;> simp_all [StepGoal, Live, Latched, RankStep, rank, pendAfter, pendNow, txRank, wcost, World.step, Utmi.step, Window.step, Ctl.step, Ctl.comb, Tx.step,
    PhyRegs.step, PhyRegs.commit, Env.step, Utmi.ctlOut, Utmi.ctlBusIdle, Utmi.txBusIdle, Tx.busy, Window.busy, presented, PhyBus.isTx, PhyBus.isIdle,
    COMMAND_REG_WRITE, ADDR_FUNCTION_CONTROL, ADDR_OTG_CONTROL, TRANSMIT_COMMAND]
  all_goals grind

theorem rank_step_stopping (cfg : Config) (K T : Nat) (x : World) (i : UtmiIn) (h : Coh x) (hl : Live K x)
    (hw : x.u.win.st = .stopping)
    (hs : liveCycle K T x.p.bus x.e i (x.u.step cfg i).2 = true) : StepGoal cfg K T x i := by
  obtain ⟨⟨win, ctl, tx, rx, rdy, cnt⟩, ⟨pb, r4, rA, po, pw⟩, ⟨pd, wt, tl, mh, dn, a4, aA⟩⟩ := x
  obtain ⟨wst, ca, cw, d, oq, sp, wdn, rd⟩ := win
  obtain ⟨tst, treq⟩ := tx
  obtain ⟨c4, cA, cb⟩ := ctl
  obtain ⟨⟨dir, nxt, din⟩, txd, txv, ctrl⟩ := i
  simp only at hw
  subst hw
  simp only [Coh, BusyCommon, Latched] at h
  obtain ⟨h1, h2, ⟨hb, ht, ha, hd, hr4, hrA⟩, hpb, hsp, hdo⟩ := h
  subst h1 hb hd hr4 hrA hpb hsp hdo
  cases ht
  obtain ⟨l2, l3, l4⟩ := hl
  simp only at l2 l3 l4
  simp only [liveCycle, safeCycle, Utmi.step, Utmi.txBusIdle, Utmi.ctlOut, Utmi.ctlBusIdle, presented] at hs
  simp only [StepGoal, World.step, Utmi.step, Utmi.txBusIdle, Utmi.ctlOut, Utmi.ctlBusIdle]
  generalize functionControl ctrl = v4 at *
  generalize otgControl ctrl = vA at *
  rcases ha with ⟨ha, hv⟩ | ⟨ha, hv⟩ <;> subst ha hv <;>
  cases dir <;> cases nxt <;> cases rdy <;> simp_all [StepGoal, Live, Latched, RankStep, rank, pendAfter, pendNow, txRank, wcost, World.step, Utmi.step, Window.step, Ctl.step, Ctl.comb, Tx.step,
    PhyRegs.step, PhyRegs.commit, Env.step, Utmi.ctlOut, Utmi.ctlBusIdle, Utmi.txBusIdle, Tx.busy, Window.busy, presented, PhyBus.isTx, PhyBus.isIdle,
    COMMAND_REG_WRITE, ADDR_FUNCTION_CONTROL, ADDR_OTG_CONTROL, TRANSMIT_COMMAND]
  all_goals grind

theorem rank_step_idle_done (cfg : Config) (K T : Nat) (x : World) (i : UtmiIn) (h : Coh x) (hl : Live K x)
    (hw : x.u.win.st = .idle) (hdn : x.u.win.done = true)
    (hs : liveCycle K T x.p.bus x.e i (x.u.step cfg i).2 = true) : StepGoal cfg K T x i := by
  obtain ⟨⟨win, ctl, tx, rx, rdy, cnt⟩, ⟨pb, r4, rA, po, pw⟩, ⟨pd, wt, tl, mh, dn, a4, aA⟩⟩ := x
  obtain ⟨wst, ca, cw, d, oq, sp, wdn, rd⟩ := win
  obtain ⟨tst, treq⟩ := tx
  obtain ⟨c4, cA, cb⟩ := ctl
  obtain ⟨⟨dir, nxt, din⟩, txd, txv, ctrl⟩ := i
  simp only at hw hdn
  subst hw hdn
  simp only [Coh, BusyCommon, Latched] at h
  obtain ⟨h1, h2, hdo, hsp, h3⟩ := h
  subst h1 hdo hsp
  obtain ⟨l2, l3, l4⟩ := hl
  simp only at l2 l3 l4
  simp only [liveCycle, safeCycle, Utmi.step, Utmi.txBusIdle, Utmi.ctlOut, Utmi.ctlBusIdle, presented] at hs
  simp only [StepGoal, World.step, Utmi.step, Utmi.txBusIdle, Utmi.ctlOut, Utmi.ctlBusIdle]
  generalize functionControl ctrl = v4 at *
  generalize otgControl ctrl = vA at *
  rcases h3 with ⟨hd, hb, ht, hpb, ha, hr4, hrA⟩ | ⟨hd, hb, hr4, hrA, h4⟩
  · subst hb hpb hr4 hrA
    cases ht
    rcases ha with ⟨ha, hv⟩ | ⟨ha, hv⟩ <;> subst ha hv <;>
    by_cases g4 : c4 = v4 <;> by_cases gA : cA = vA <;>
    cases dir <;> cases nxt <;> cases rdy <;> simp_all [StepGoal, Live, Latched, RankStep, rank, pendAfter, pendNow, txRank,  World.step, Utmi.step, Window.step, Ctl.step, Ctl.comb, Tx.step,
    PhyRegs.step, PhyRegs.commit, Env.step, Utmi.ctlOut, Utmi.ctlBusIdle, Utmi.txBusIdle, Tx.busy, Window.busy, presented, PhyBus.isTx, PhyBus.isIdle,
    COMMAND_REG_WRITE, ADDR_FUNCTION_CONTROL, ADDR_OTG_CONTROL, TRANSMIT_COMMAND]
    all_goals grind
  · simp at hd

theorem rank_step_idle_free (cfg : Config) (K T : Nat) (x : World) (i : UtmiIn) (h : Coh x) (hl : Live K x)
    (hw : x.u.win.st = .idle) (hdn : x.u.win.done = false) (htx : x.u.tx = ⟨.idle, false⟩)
    (hs : liveCycle K T x.p.bus x.e i (x.u.step cfg i).2 = true) : StepGoal cfg K T x i := by
  obtain ⟨⟨win, ctl, tx, rx, rdy, cnt⟩, ⟨pb, r4, rA, po, pw⟩, ⟨pd, wt, tl, mh, dn, a4, aA⟩⟩ := x
  obtain ⟨wst, ca, cw, d, oq, sp, wdn, rd⟩ := win
  obtain ⟨c4, cA, cb⟩ := ctl
  obtain ⟨⟨dir, nxt, din⟩, txd, txv, ctrl⟩ := i
  simp only at hw hdn htx
  subst hw hdn htx
  simp only [Coh, BusyCommon, Latched] at h
  obtain ⟨h1, h2, hdo, hsp, h3⟩ := h
  subst h1 hdo hsp
  obtain ⟨l2, l3, l4⟩ := hl
  simp only at l2 l3 l4
  have hn := or64_div' (txd % 16) (Nat.mod_lt _ (by decide))
  simp only [liveCycle, safeCycle, Utmi.step, Utmi.txBusIdle, Utmi.ctlOut, Utmi.ctlBusIdle, presented] at hs
  simp only [StepGoal, World.step, Utmi.step, Utmi.txBusIdle, Utmi.ctlOut, Utmi.ctlBusIdle]
  generalize functionControl ctrl = v4 at *
  generalize otgControl ctrl = vA at *
  rcases h3 with ⟨hd, _⟩ | ⟨hd, hb, hr4, hrA, h4⟩
  · simp at hd
  · subst hb hr4 hrA
    have hpb : pb = .idle := by
      rcases h4 with ⟨ht, hpb⟩ | ⟨ht, hpb⟩ | ⟨ht, hpb⟩ <;> first | exact hpb | (exact absurd ht (by decide))
    subst hpb
    by_cases g4 : r4 = v4 <;> by_cases gA : rA = vA <;>
      cases dir <;> cases nxt <;> cases txv <;> cases rdy <;>
      by_cases gn : ctrl.opMode % 4 = OP_MODE_NO_BIT_STUFFING <;>
      simp_all [StepGoal, Live, Latched, RankStep, rank, pendAfter, pendNow, txRank, wcost, World.step, Utmi.step, Window.step, Ctl.step, Ctl.comb, Tx.step,
    PhyRegs.step, PhyRegs.commit, Env.step, Utmi.ctlOut, Utmi.ctlBusIdle, Utmi.txBusIdle, Tx.busy, Window.busy, presented, PhyBus.isTx, PhyBus.isIdle,
    COMMAND_REG_WRITE, ADDR_FUNCTION_CONTROL, ADDR_OTG_CONTROL, TRANSMIT_COMMAND]
    all_goals grind

theorem rank_step_idle_claimed (cfg : Config) (K T : Nat) (x : World) (i : UtmiIn) (h : Coh x) (hl : Live K x)
    (hw : x.u.win.st = .idle) (hdn : x.u.win.done = false) (htx : x.u.tx = ⟨.idle, true⟩)
    (hs : liveCycle K T x.p.bus x.e i (x.u.step cfg i).2 = true) : StepGoal cfg K T x i := by
  obtain ⟨⟨win, ctl, tx, rx, rdy, cnt⟩, ⟨pb, r4, rA, po, pw⟩, ⟨pd, wt, tl, mh, dn, a4, aA⟩⟩ := x
  obtain ⟨wst, ca, cw, d, oq, sp, wdn, rd⟩ := win
  obtain ⟨c4, cA, cb⟩ := ctl
  obtain ⟨⟨dir, nxt, din⟩, txd, txv, ctrl⟩ := i
  simp only at hw hdn htx
  subst hw hdn htx
  simp only [Coh, BusyCommon, Latched] at h
  obtain ⟨h1, h2, hdo, hsp, h3⟩ := h
  subst h1 hdo hsp
  obtain ⟨l2, l3, l4⟩ := hl
  simp only at l2 l3 l4
  have hn := or64_div' (txd % 16) (Nat.mod_lt _ (by decide))
  simp only [liveCycle, safeCycle, Utmi.step, Utmi.txBusIdle, Utmi.ctlOut, Utmi.ctlBusIdle, presented] at hs
  simp only [StepGoal, World.step, Utmi.step, Utmi.txBusIdle, Utmi.ctlOut, Utmi.ctlBusIdle]
  generalize functionControl ctrl = v4 at *
  generalize otgControl ctrl = vA at *
  rcases h3 with ⟨hd, _⟩ | ⟨hd, hb, hr4, hrA, h4⟩
  · simp at hd
  · subst hb hr4 hrA
    have hpb : pb = .idle := by
      rcases h4 with ⟨ht, hpb⟩ | ⟨ht, hpb⟩ | ⟨ht, hpb⟩ <;> first | exact hpb | (exact absurd ht (by decide))
    subst hpb
    by_cases g4 : r4 = v4 <;> by_cases gA : rA = vA <;>
      cases dir <;> cases nxt <;> cases txv <;> cases rdy <;>
      by_cases gn : ctrl.opMode % 4 = OP_MODE_NO_BIT_STUFFING <;>
      simp_all [StepGoal, Live, Latched, RankStep, rank, pendAfter, pendNow, txRank, wcost, World.step, Utmi.step, Window.step, Ctl.step, Ctl.comb, Tx.step,
    PhyRegs.step, PhyRegs.commit, Env.step, Utmi.ctlOut, Utmi.ctlBusIdle, Utmi.txBusIdle, Tx.busy, Window.busy, presented, PhyBus.isTx, PhyBus.isIdle,
    COMMAND_REG_WRITE, ADDR_FUNCTION_CONTROL, ADDR_OTG_CONTROL, TRANSMIT_COMMAND]
    all_goals grind

theorem rank_step_idle_transmit (cfg : Config) (K T : Nat) (x : World) (i : UtmiIn) (h : Coh x) (hl : Live K x)
    (hw : x.u.win.st = .idle) (hdn : x.u.win.done = false) (htx : x.u.tx = ⟨.transmit, true⟩)
    (hs : liveCycle K T x.p.bus x.e i (x.u.step cfg i).2 = true) : StepGoal cfg K T x i := by
  obtain ⟨⟨win, ctl, tx, rx, rdy, cnt⟩, ⟨pb, r4, rA, po, pw⟩, ⟨pd, wt, tl, mh, dn, a4, aA⟩⟩ := x
  obtain ⟨wst, ca, cw, d, oq, sp, wdn, rd⟩ := win
  obtain ⟨c4, cA, cb⟩ := ctl
  obtain ⟨⟨dir, nxt, din⟩, txd, txv, ctrl⟩ := i
  simp only at hw hdn htx
  subst hw hdn htx
  simp only [Coh, BusyCommon, Latched] at h
  obtain ⟨h1, h2, hdo, hsp, h3⟩ := h
  subst h1 hdo hsp
  obtain ⟨l2, l3, l4⟩ := hl
  simp only at l2 l3 l4
  have hn := or64_div' (txd % 16) (Nat.mod_lt _ (by decide))
  simp only [liveCycle, safeCycle, Utmi.step, Utmi.txBusIdle, Utmi.ctlOut, Utmi.ctlBusIdle, presented] at hs
  simp only [StepGoal, World.step, Utmi.step, Utmi.txBusIdle, Utmi.ctlOut, Utmi.ctlBusIdle]
  generalize functionControl ctrl = v4 at *
  generalize otgControl ctrl = vA at *
  rcases h3 with ⟨hd, _⟩ | ⟨hd, hb, hr4, hrA, h4⟩
  · simp at hd
  · subst hb hr4 hrA
    have hpb : pb = .transmitting := by
      rcases h4 with ⟨ht, hpb⟩ | ⟨ht, hpb⟩ | ⟨ht, hpb⟩ <;> first | exact hpb | (exact absurd ht (by decide))
    subst hpb
    by_cases g4 : r4 = v4 <;> by_cases gA : rA = vA <;>
      cases dir <;> cases nxt <;> cases txv <;> cases rdy <;>
      by_cases gn : ctrl.opMode % 4 = OP_MODE_NO_BIT_STUFFING <;>
      simp_all [StepGoal, Live, Latched, RankStep, rank, pendAfter, pendNow, txRank, wcost, World.step, Utmi.step, Window.step, Ctl.step, Ctl.comb, Tx.step,
    PhyRegs.step, PhyRegs.commit, Env.step, Utmi.ctlOut, Utmi.ctlBusIdle, Utmi.txBusIdle, Tx.busy, Window.busy, presented, PhyBus.isTx, PhyBus.isIdle,
    COMMAND_REG_WRITE, ADDR_FUNCTION_CONTROL, ADDR_OTG_CONTROL, TRANSMIT_COMMAND]
    all_goals grind

/-- **One cycle.**  Coherence and the monitor facts are preserved, and the rank with respect to the
control inputs of the cycle obeys `RankStep`. -/
theorem rank_step (cfg : Config) (K T : Nat) (x : World) (i : UtmiIn) (h : Coh x) (hl : Live K x)
    (hs : liveCycle K T x.p.bus x.e i (x.u.step cfg i).2 = true) : StepGoal cfg K T x i := by
  have h3 := h.2.2
  cases hw : x.u.win.st <;> simp only [hw] at h3
  case idle =>
    cases hd : x.u.win.done
    · obtain ⟨_, _, h4⟩ := h3
      rcases h4 with ⟨g, _⟩ | ⟨_, _, _, _, g⟩
      · simp [hd] at g
      · rcases g with ⟨g, _⟩ | ⟨g, _⟩ | ⟨g, _⟩
        · exact rank_step_idle_free cfg K T x i h hl hw hd g hs
        · exact rank_step_idle_claimed cfg K T x i h hl hw hd g hs
        · exact rank_step_idle_transmit cfg K T x i h hl hw hd g hs
    · exact rank_step_idle_done cfg K T x i h hl hw hd hs
  case startWrite => exact rank_step_startWrite cfg K T x i h hl hw hs
  case sendWriteAddress => exact rank_step_sendWriteAddress cfg K T x i h hl hw hs
  case holdWrite => exact rank_step_holdWrite cfg K T x i h hl hw hs
  case stopping => exact rank_step_stopping cfg K T x i h hl hw hs

end LunaVerif.Ulpi
