import LunaVerif.Core.Crc
/-!
Width bounds of the reference CRCs (`Core/Crc.lean`): the check field of a `w`-bit register is a
`w`-bit number, whatever was fed.  Needed by C36 (`tx_emits_frame`, `rx_of_tx`): the CRC fields are
packed into words next to other fields, and read back by slicing.
-/
namespace LunaVerif.Crc

theorem ofLsbBits_lt (l : List Bool) : ofLsbBits l < 2 ^ l.length := by
  induction l with
  | nil => simp [ofLsbBits]
  | cons b bs ih =>
    simp only [ofLsbBits, List.length_cons, Nat.pow_succ]
    cases b <;> simp <;> omega

theorem length_serialStep' (poly reg : List Bool) (d : Bool) (h : reg.length = poly.length)
    (hp : 0 < poly.length) : (serialStep poly reg d).length = poly.length := by
  simp only [serialStep, List.length_zipWith, List.length_cons, List.length_dropLast]
  omega

theorem length_serial' (poly reg bits : List Bool) (h : reg.length = poly.length)
    (hp : 0 < poly.length) : (serial poly reg bits).length = poly.length := by
  induction bits generalizing reg with
  | nil => simpa [serial] using h
  | cons b bs ih =>
    simp only [serial, List.foldl_cons]
    exact ih _ (length_serialStep' poly reg b h hp)

theorem field_lt (reg : List Bool) : field reg < 2 ^ reg.length := by
  have := ofLsbBits_lt (reg.reverse.map (!·))
  simpa [field] using this

theorem length_lsbBits' (v n : Nat) : (lsbBits v n).length = n := by simp [lsbBits]

theorem usb3Crc32_lt (bytes : List Nat) : usb3Crc32 bytes < 2 ^ 32 := by
  have h := field_lt (serial (lsbBits 0x04C11DB7 32) (ones 32) (bytesBits bytes))
  rw [length_serial' _ _ _ (by simp [length_lsbBits', ones]) (by simp [length_lsbBits']),
    length_lsbBits'] at h
  exact h

theorem usb3Crc16_lt (bytes : List Nat) : usb3Crc16 bytes < 2 ^ 16 := by
  have h := field_lt (serial (lsbBits 0x100B 16) (ones 16) (bytesBits bytes))
  rw [length_serial' _ _ _ (by simp [length_lsbBits', ones]) (by simp [length_lsbBits']),
    length_lsbBits'] at h
  exact h

theorem usb3Crc5_lt (d : Nat) : usb3Crc5 d < 2 ^ 5 := by
  have h := field_lt (serial (lsbBits 0x05 5) (ones 5) (lsbBits d 11))
  rw [length_serial' _ _ _ (by simp [length_lsbBits', ones]) (by simp [length_lsbBits']),
    length_lsbBits'] at h
  exact h

end LunaVerif.Crc
