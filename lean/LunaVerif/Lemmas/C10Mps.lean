import LunaVerif.Lemmas.DeviceStepsM
import LunaVerif.Props.C10
/-!
# C10 — the property theorems for EVERY control `max_packet_size`
(Props/C10.lean over `coreM` / `stepM` / `finalM` of Model/Device/ControlM.lean)

`drv_dev` steps with `stepM` (`start_position += c.maxPacket`) and the event-level co-simulation builds the real
`USBDevice` with control max packet sizes 8 / 16 / 32 / 64; here the C10 theorems are stated of that model with NO
hypothesis on `c.maxPacket`.  `Handling` reads the latched SETUP packet, the setup decoder's state and the handler
state only, and from the same state `stepM` and `Device.step` agree on those, on the registers and on the response
(`stepM_ctl`), so `handling_step` transfers event by event; the history theorem is the same induction over `finalM`.
`handling_request`, `unsupported_first_request_stalled` and `dispatch_unimplemented` (Props/C10.lean) are about
`Device.request` / `Device.dispatch`, which both models share: they need no second form.
-/
namespace LunaVerif.Device

/-- Accepting the SETUP packet of an unsupported request (from ANY state) establishes `Handling`, every max packet
size (a SETUP transaction contains no host handshake). -/
theorem unsupported_setup_establishes_handling_mps (c : DevConfig) (s : DevState) (bytes : List Nat) (f₁ f₂ : Resp)
    (hlen : bytes.length = 8) (hu : Unsupported c (parseSetup bytes)) :
    Handling (parseSetup bytes)
      (finalM c s [⟨.token PID_SETUP s.address 0, f₁⟩, ⟨.data PID_DATA0 bytes true, f₂⟩]) := by
  have hf : finalM c s [⟨.token PID_SETUP s.address 0, f₁⟩, ⟨.data PID_DATA0 bytes true, f₂⟩] =
      final c s [⟨.token PID_SETUP s.address 0, f₁⟩, ⟨.data PID_DATA0 bytes true, f₂⟩] := by
    simp only [finalM, final]
    rw [stepM_eq_step_of c s _ (fun pid h => by cases h), stepM_eq_step_of c _ _ (fun pid h => by cases h)]
  rw [hf]
  exact unsupported_setup_establishes_handling c s bytes f₁ f₂ hlen hu

/-- One event under `Handling` (not a SETUP / PING token), every max packet size: the control endpoint answers with
nothing or STALL -- never DATA, never ACK --, the registers change only by a bus reset, and `Handling` persists. -/
theorem handling_step_mps (c : DevConfig) (su : Setup) (s : DevState) (x : Stim)
    (hu : Unsupported c su) (hh : Handling su s) (hx : isSetupOrPing x.ev = false) :
    ((coreM c s x.ev).2 = .none ∨ (coreM c s x.ev).2 = .hs PID_STALL) ∧
    (x.ev ≠ .busReset → (stepM c s x).1.address = s.address ∧ (stepM c s x).1.config = s.config) ∧
    Handling su (stepM c s x).1 := by
  obtain ⟨h1, h2, _, _, h5, h6, _, h8, _, _, _⟩ := stepM_ctl c s x
  obtain ⟨a, b, d⟩ := handling_step c su s x hu hh hx
  refine ⟨?_, ?_, ?_⟩
  · rw [(coreM_ctl c s x.ev).2.2.2.2.2.2.2.2.2.2]; exact a
  · rw [h1, h2]; exact b
  · exact ⟨by rw [h6]; exact d.latched, by rw [h5]; exact d.noWait, fun g => by rw [h8]; exact d.handler g⟩

/-- `Handling` persists along every continuation without SETUP / PING token. -/
theorem handling_finalM (c : DevConfig) (su : Setup) (hu : Unsupported c su) (k : List Stim) :
    ∀ s, Handling su s → (∀ y ∈ k, isSetupOrPing y.ev = false) → Handling su (finalM c s k) := by
  induction k with
  | nil => intro s h _; exact h
  | cons y ys ih =>
    intro s h hall
    exact ih _ (handling_step_mps c su s y hu h (hall y (by simp))).2.2 (fun z hz => hall z (by simp [hz]))

/-- **C10, every max packet size.**  For EVERY SETUP packet `su` outside the supported set, from the moment it has been
accepted and for an arbitrarily long continuation `k` of host events that contains no new SETUP token (and no PING):
at every event `x` of `k` the control endpoint transmits nothing or a STALL handshake -- never a DATA packet, never an
ACK --, and neither the address nor the configuration changes except by a bus reset. -/
theorem unsupported_never_answered_mps (c : DevConfig) (su : Setup) (s : DevState) (k : List Stim)
    (hu : Unsupported c su) (hh : Handling su s) (hk : ∀ x ∈ k, isSetupOrPing x.ev = false) :
    ∀ k₁ x k₂, k = k₁ ++ x :: k₂ →
      ((coreM c (finalM c s k₁) x.ev).2 = .none ∨ (coreM c (finalM c s k₁) x.ev).2 = .hs PID_STALL) ∧
      (x.ev ≠ .busReset → (finalM c s (k₁ ++ [x])).address = (finalM c s k₁).address ∧
                           (finalM c s (k₁ ++ [x])).config = (finalM c s k₁).config) := by
  intro k₁ x k₂ hk'
  subst hk'
  have h1 := handling_finalM c su hu k₁ s hh (fun y hy => hk y (by simp [hy]))
  have hs := handling_step_mps c su (finalM c s k₁) x hu h1 (hk x (by simp))
  rw [finalM_snoc]
  exact ⟨hs.1, hs.2.1⟩

/-! ### Non-vacuity: `max_packet_size = 8` -/

/-- An unsupported standard request (0x80, 30) with a 10-byte IN data stage, a vendor request, and between them a
two-packet GET_DESCRIPTOR read at max packet size 8 whose second packet the 64 model would not produce. -/
def unsupportedHistory8 : List Stim :=
  [⟨.token PID_SETUP 0 0, .none⟩, ⟨.data PID_DATA0 [0x80, 30, 0, 0, 0, 0, 10, 0] true, .none⟩,
   ⟨.token PID_IN 0 0, .none⟩, ⟨.token PID_IN 0 0, .none⟩,
   ⟨.token PID_SETUP 0 0, .none⟩, ⟨.data PID_DATA0 [0x80, 6, 0, 1, 0, 0, 10, 0] true, .none⟩,
   ⟨.token PID_IN 0 0, .none⟩, ⟨.handshake PID_ACK, .none⟩, ⟨.token PID_IN 0 0, .none⟩, ⟨.handshake PID_ACK, .none⟩,
   ⟨.token PID_OUT 0 0, .none⟩, ⟨.data PID_DATA1 [] true, .none⟩,
   ⟨.token PID_SETUP 0 0, .none⟩, ⟨.data PID_DATA0 [0xC0, 3, 0, 0, 0, 0, 4, 0] true, .none⟩,
   ⟨.token PID_IN 0 0, .none⟩, ⟨.token PID_OUT 0 0, .none⟩, ⟨.data PID_DATA1 [] true, .none⟩]

def cfg8' : DevConfig :=
  { descriptors := [(1, 0, [18, 1, 0, 2, 0, 0, 0, 8, 9, 18, 1, 0, 0, 1, 1, 2, 3, 1])], maxPacket := 8, posBits := 5 }

example : LegalHostM cfg8' unsupportedHistory8 = true := by decide +kernel
example : respsM cfg8' init unsupportedHistory8 =
    [.none, .hs PID_ACK, .hs PID_STALL, .none,
     .none, .hs PID_ACK, .data PID_DATA1 [18, 1, 0, 2, 0, 0, 0, 8], .none, .data PID_DATA0 [9, 18], .none, .none, .hs PID_ACK,
     .none, .hs PID_ACK, .hs PID_STALL, .none, .hs PID_STALL] := by decide +kernel
example : Handling (parseSetup [0x80, 30, 0, 0, 0, 0, 10, 0]) (finalM cfg8' init (unsupportedHistory8.take 2)) :=
  unsupported_setup_establishes_handling_mps cfg8' init _ .none .none rfl (Or.inl (by decide))

end LunaVerif.Device
