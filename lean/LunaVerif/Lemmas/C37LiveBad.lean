import LunaVerif.Lemmas.C37LiveBase
/-!
# C37 — liveness: every noticed corrupted header gets its LBAD

`rankB T` bounds the number of ready cycles until `T` LBADs have completed on the wire, for every
`T ≤ lbads + [lbad_pending]`.  While the LBAD is pending the receiver ignores packets, so no header is
accepted; ahead of the LBAD are the LGOODs still owed (`acks_to_send`), one LCRD for every credit to issue and
every buffer still to be freed (`credits_to_issue + buffers_filled`, possibly one ISSUE_CREDITS session each)
and one LRTY per retry request (*bad* cycles, cost 4).
-/
set_option linter.unusedSimpArgs false
set_option linter.unusedVariables false
namespace LunaVerif.HeaderRx

def rankB (T : Nat) (x : World) : Nat :=
  if T - x.g.lbads = 0 then 0 else
  match x.s.fsm with
  | .sendLbad => ph x.s.gen
  | .dispatch => 1 + lr x.s + 4 * x.s.acks + 4 * (x.s.cti + x.s.bf) + 3
  | .sendAcks => ph x.s.gen + 4 * (x.s.acks - 1) + 1 + lr x.s + 4 * (x.s.cti + x.s.bf) + 3
  | .issueCredits => ph x.s.gen + 4 * (x.s.cti + x.s.bf - 1) + 1 + lr x.s + 4 * x.s.acks + 3
  | .sendLrty => ph x.s.gen + 1 + 4 * x.s.acks + 4 * (x.s.cti + x.s.bf) + 3
  | _ => ph x.s.gen + 1 + lr x.s + 4 * x.s.acks + 4 * (x.s.cti + x.s.bf) + 3

def InvB (c : Config) (T : Nat) (x : World) : Prop := Inv c x.s x.g ∧ T ≤ x.g.lbads + b2 x.s.lbad

def badB (_ : World) (i : In) : Bool := i.retryRequired

set_option hygiene false in
local macro "rank_go" hf:ident h0:ident h1:ident : tactic =>
  `(tactic| (
    have hlr : lr s = if s.lrty then 4 else 0 := rfl
    cases hg : s.gen <;> cases hr : i.srcReady <;> cases hl : s.lrty <;> cases hq : i.retryRequired <;>
      simp [$hf:ident, $h0:ident, $h1:ident, hlb, hacc, hg, hr, hl, hq, fsm_beq, gen_beq, fsmNext, genNext, done,
        lgoodDone, lcrdDone, dispatchNext, generate, ph, nf, nr, na, en, step_fsm, step_gen]
        at fa fc fb flb lgA lcC fA fC g0 lrD lrN hlr hT hz ⊢ <;>
      (repeat' split) <;> (try simp only [ph] at *) <;> omega))

set_option hygiene false in
local macro "rank_pre" : tactic =>
  `(tactic| (
    obtain ⟨fa, fc, fb, flg, flc, fac, a4, a3, bc, bc3, cr, hk, hc, pb, lgA, lcC, fA, fC, g0, en, nf, nr, accA,
      bcA, popB, aL, pL, lrN, lrD, lbI⟩ := facts_of (c := c) hI e
    have na := no_abort (c := c) hI e
    have flb := (facts2_of (c := c) hI e).lb
    simp only [World.next, rankB] at hz ⊢
    simp only [flb]
    have hlb : s.lbad = true := by
      cases hx : s.lbad
      · exfalso; rw [hx] at hT; simp only [b2_false] at hT; split at hz <;> omega
      · rfl
    have hacc : accept s = false := lbI hlb))

section
variable {c : Config} {T : Nat} {s : State} {g : Ghost} {n : Cnt} {i : In}

theorem rankB_step_dispatch00 (hI : Inv c s g) (hT : T ≤ g.lbads + b2 s.lbad) (e : EnvStep s g i)
    (hf : s.fsm = .dispatch) (h0 : s.acks = 0) (h1 : s.cti = 0) (hz : rankB T ⟨s, g, n⟩ ≠ 0) :
    rankB T (World.next c ⟨s, g, n⟩ i) + (if i.srcReady then 1 else 0) ≤
      rankB T ⟨s, g, n⟩ + (if i.retryRequired then 4 else 0) := by
  rank_pre
  have hgi := g0 hf
  rank_go hf h0 h1

theorem rankB_step_dispatch0N (hI : Inv c s g) (hT : T ≤ g.lbads + b2 s.lbad) (e : EnvStep s g i)
    (hf : s.fsm = .dispatch) (h0 : s.acks = 0) (h1 : ¬ s.cti = 0) (hz : rankB T ⟨s, g, n⟩ ≠ 0) :
    rankB T (World.next c ⟨s, g, n⟩ i) + (if i.srcReady then 1 else 0) ≤
      rankB T ⟨s, g, n⟩ + (if i.retryRequired then 4 else 0) := by
  rank_pre
  have hgi := g0 hf
  rank_go hf h0 h1

theorem rankB_step_dispatchN0 (hI : Inv c s g) (hT : T ≤ g.lbads + b2 s.lbad) (e : EnvStep s g i)
    (hf : s.fsm = .dispatch) (h0 : ¬ s.acks = 0) (h1 : s.cti = 0) (hz : rankB T ⟨s, g, n⟩ ≠ 0) :
    rankB T (World.next c ⟨s, g, n⟩ i) + (if i.srcReady then 1 else 0) ≤
      rankB T ⟨s, g, n⟩ + (if i.retryRequired then 4 else 0) := by
  rank_pre
  have hgi := g0 hf
  rank_go hf h0 h1

theorem rankB_step_dispatchNN (hI : Inv c s g) (hT : T ≤ g.lbads + b2 s.lbad) (e : EnvStep s g i)
    (hf : s.fsm = .dispatch) (h0 : ¬ s.acks = 0) (h1 : ¬ s.cti = 0) (hz : rankB T ⟨s, g, n⟩ ≠ 0) :
    rankB T (World.next c ⟨s, g, n⟩ i) + (if i.srcReady then 1 else 0) ≤
      rankB T ⟨s, g, n⟩ + (if i.retryRequired then 4 else 0) := by
  rank_pre
  have hgi := g0 hf
  rank_go hf h0 h1

theorem rankB_step_sendAcks1 (hI : Inv c s g) (hT : T ≤ g.lbads + b2 s.lbad) (e : EnvStep s g i)
    (hf : s.fsm = .sendAcks) (h0 : s.acks = 1) (hz : rankB T ⟨s, g, n⟩ ≠ 0) :
    rankB T (World.next c ⟨s, g, n⟩ i) + (if i.srcReady then 1 else 0) ≤
      rankB T ⟨s, g, n⟩ + (if i.retryRequired then 4 else 0) := by
  rank_pre
  rank_go hf h0 h0

theorem rankB_step_sendAcksN (hI : Inv c s g) (hT : T ≤ g.lbads + b2 s.lbad) (e : EnvStep s g i)
    (hf : s.fsm = .sendAcks) (h0 : ¬ s.acks = 1) (hz : rankB T ⟨s, g, n⟩ ≠ 0) :
    rankB T (World.next c ⟨s, g, n⟩ i) + (if i.srcReady then 1 else 0) ≤
      rankB T ⟨s, g, n⟩ + (if i.retryRequired then 4 else 0) := by
  rank_pre
  rank_go hf h0 h0

theorem rankB_step_issueCredits1 (hI : Inv c s g) (hT : T ≤ g.lbads + b2 s.lbad) (e : EnvStep s g i)
    (hf : s.fsm = .issueCredits) (h0 : s.cti = 1) (hz : rankB T ⟨s, g, n⟩ ≠ 0) :
    rankB T (World.next c ⟨s, g, n⟩ i) + (if i.srcReady then 1 else 0) ≤
      rankB T ⟨s, g, n⟩ + (if i.retryRequired then 4 else 0) := by
  rank_pre
  rank_go hf h0 h0

theorem rankB_step_issueCreditsN (hI : Inv c s g) (hT : T ≤ g.lbads + b2 s.lbad) (e : EnvStep s g i)
    (hf : s.fsm = .issueCredits) (h0 : ¬ s.cti = 1) (hz : rankB T ⟨s, g, n⟩ ≠ 0) :
    rankB T (World.next c ⟨s, g, n⟩ i) + (if i.srcReady then 1 else 0) ≤
      rankB T ⟨s, g, n⟩ + (if i.retryRequired then 4 else 0) := by
  rank_pre
  rank_go hf h0 h0

theorem rankB_step_sendLbad (hI : Inv c s g) (hT : T ≤ g.lbads + b2 s.lbad) (e : EnvStep s g i)
    (hf : s.fsm = .sendLbad) (hz : rankB T ⟨s, g, n⟩ ≠ 0) :
    rankB T (World.next c ⟨s, g, n⟩ i) + (if i.srcReady then 1 else 0) ≤
      rankB T ⟨s, g, n⟩ + (if i.retryRequired then 4 else 0) := by
  rank_pre
  rank_go hf hf hf

theorem rankB_step_sendLrty (hI : Inv c s g) (hT : T ≤ g.lbads + b2 s.lbad) (e : EnvStep s g i)
    (hf : s.fsm = .sendLrty) (hz : rankB T ⟨s, g, n⟩ ≠ 0) :
    rankB T (World.next c ⟨s, g, n⟩ i) + (if i.srcReady then 1 else 0) ≤
      rankB T ⟨s, g, n⟩ + (if i.retryRequired then 4 else 0) := by
  rank_pre
  rank_go hf hf hf

theorem rankB_step_sendKeepalive (hI : Inv c s g) (hT : T ≤ g.lbads + b2 s.lbad) (e : EnvStep s g i)
    (hf : s.fsm = .sendKeepalive) (hz : rankB T ⟨s, g, n⟩ ≠ 0) :
    rankB T (World.next c ⟨s, g, n⟩ i) + (if i.srcReady then 1 else 0) ≤
      rankB T ⟨s, g, n⟩ + (if i.retryRequired then 4 else 0) := by
  rank_pre
  rank_go hf hf hf

theorem rankB_step_sendLxu (hI : Inv c s g) (hT : T ≤ g.lbads + b2 s.lbad) (e : EnvStep s g i)
    (hf : s.fsm = .sendLxu) (hz : rankB T ⟨s, g, n⟩ ≠ 0) :
    rankB T (World.next c ⟨s, g, n⟩ i) + (if i.srcReady then 1 else 0) ≤
      rankB T ⟨s, g, n⟩ + (if i.retryRequired then 4 else 0) := by
  rank_pre
  rank_go hf hf hf

theorem rankB_zero {T : Nat} {x : World} (hz : rankB T x = 0) : T ≤ x.g.lbads := by
  simp only [rankB] at hz
  split at hz
  · omega
  · exfalso; revert hz; cases x.s.fsm <;> cases x.s.gen <;> simp [ph]

/-- **One cycle, LBAD rank.** -/
theorem rankB_step (c : Config) (T : Nat) :
    StepOk (World.next c) WOk (InvB c T) (rankB T) rdyW badB 4 := by
  intro x i hI e
  obtain ⟨s, g, n⟩ := x
  obtain ⟨hI, hT⟩ := hI
  simp only [WOk] at hI hT e
  have F2 := facts2_of (c := c) hI e
  refine ⟨⟨inv_step hI e, ?_⟩, ?_, ?_⟩
  · have h1 := F2.lb; have h2 := F2.lbK
    simp only [World.next, h1]
    cases hd : (s.fsm == Fsm.sendLbad && done s i)
    · cases hl : s.lbad
      · rw [hl] at hT; simp only [b2_false] at hT ⊢; omega
      · rw [h2 hl hd]; rw [hl] at hT; simpa using hT
    · have := b2_le s.lbad; simp only [b2_true]; omega
  · intro hz
    have h2 := F2.lb
    have := rankB_zero hz
    simp only [rankB, World.next, h2]
    rw [if_pos (by simp only at this; omega)]
  · intro hz
    simp only [rdyW, badB]
    cases hf : s.fsm
    · by_cases h0 : s.acks = 0 <;> by_cases h1 : s.cti = 0
      · exact rankB_step_dispatch00 hI hT e hf h0 h1 hz
      · exact rankB_step_dispatch0N hI hT e hf h0 h1 hz
      · exact rankB_step_dispatchN0 hI hT e hf h0 h1 hz
      · exact rankB_step_dispatchNN hI hT e hf h0 h1 hz
    · by_cases h0 : s.acks = 1
      · exact rankB_step_sendAcks1 hI hT e hf h0 hz
      · exact rankB_step_sendAcksN hI hT e hf h0 hz
    · by_cases h0 : s.cti = 1
      · exact rankB_step_issueCredits1 hI hT e hf h0 hz
      · exact rankB_step_issueCreditsN hI hT e hf h0 hz
    · exact rankB_step_sendLbad hI hT e hf hz
    · exact rankB_step_sendLrty hI hT e hf hz
    · exact rankB_step_sendKeepalive hI hT e hf hz
    · exact rankB_step_sendLxu hI hT e hf hz

theorem rankB_le (c : Config) (T : Nat) (x : World) (h : InvB c T x) : rankB T x ≤ 44 := by
  obtain ⟨s, g, n⟩ := x
  obtain ⟨hI, hT⟩ := h
  simp only at hI hT
  have h1 := hI.hbf; have h2 := hI.hcti; have h3 := hI.hcred; have h4 := hI.hacks4
  have hlr : lr s ≤ 4 := by simp only [lr]; split <;> omega
  simp only [rankB]
  split
  · omega
  · cases s.fsm <;> cases s.gen <;> simp only [ph] <;> omega

end

/-- **LBAD liveness, from any reachable state.**  If `T ≤ LBADs sent + [lbad_pending]` (the `T`-th LBAD is
owed) then it has completed on the wire once the history contains `44 + 4·(retry requests)` ready cycles. -/
theorem lbad_live (c : Config) (T : Nat) (s : State) (g : Ghost) (h : Inv c s g)
    (hT : T ≤ g.lbads + b2 s.lbad) (is : List In) (ho : EnvOk c s g is)
    (hn : 44 + 4 * countIn (·.retryRequired) is ≤ readyCount is) :
    T ≤ (runG c s g is).2.lbads := by
  have hx : InvB c T ⟨s, g, Cnt.init⟩ := ⟨h, hT⟩
  have hle := rankB_le c T _ hx
  have hz := converge (World.next c) WOk (InvB c T) (rankB T) rdyW badB 4 (rankB_step c T) is ⟨s, g, Cnt.init⟩ hx
    ((okW_iff c is _).2 ho) (by
      rw [cnt_rdyW]
      have : cntS (World.next c) badB ⟨s, g, Cnt.init⟩ is = countIn (·.retryRequired) is :=
        cntS_in c (·.retryRequired) is _
      rw [this]; omega)
  have := rankB_zero hz
  have hsg := runW_sg c is ⟨s, g, Cnt.init⟩
  have : (runW c ⟨s, g, Cnt.init⟩ is).g = (runG c s g is).2 := by rw [← hsg]
  rw [← this]; assumption

end LunaVerif.HeaderRx
