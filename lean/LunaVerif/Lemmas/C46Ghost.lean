import LunaVerif.Lemmas.C46View
import LunaVerif.Lemmas.C46Buf
/-!
# C46 — observers (host, producer), environment and the invariant of `ss_in_exactly_once`

`Ghost` is computed from the interface signals only (`gnext : In → Out → …`).  `Inv` is the inductive invariant
over the toggle-free view of the endpoint (`Lemmas/C46View.lean`) and the observers; its last field `data` is the
statement of the theorem.  `write_side` is the buffer-abstraction step for one accepted stream word.
-/
namespace LunaVerif.SSStreamIn

/-! ## The observers: host and producer (ghost state, computed from the interface signals only) -/

structure Ghost where
  hseq     : Nat          -- sequence number the host expects next
  deliv    : List Nat     -- bytes of the data packets the host has accepted, in order
  inPkt    : Bool         -- a data packet is on the wire (its header has been latched)
  curSeq   : Nat          -- ... its sequence number
  curBytes : List Nat     -- ... its bytes so far
  prod     : List Nat     -- bytes the endpoint has accepted from the producer stream, in order

def Ghost.init : Ghost := ⟨0, [], false, 0, [], []⟩

/-- The host receives a complete packet: it accepts it iff it carries the expected sequence number
(and was not lost on the link: `drop`), and then expects the next number. -/
def receive (g : Ghost) (drop : Bool) (q : Nat) (b : List Nat) : Ghost :=
  if !drop && q == g.hseq then { g with hseq := (g.hseq + 1) % 32, deliv := g.deliv ++ b } else g

/-- bytes the producer hands over in this cycle -/
def prodBytes (i : In) (o : Out) : List Nat :=
  if i.sValid != 0 && o.sReady then bytesOf (validBytes i.sValid) i.sData else []

def gProd (i : In) (o : Out) (g : Ghost) : Ghost := { g with prod := g.prod ++ prodBytes i o }

/-- the host's receiver on the tx data stream: the header (sequence number) is latched when a word is
offered and no packet is in progress, words are taken when `tx.ready`, the packet ends with `last` -/
def gTx (i : In) (o : Out) (drop : Bool) (g : Ghost) : Ghost :=
  if o.txValid != 0 then
    let q := if g.inPkt then g.curSeq else o.txSeq
    if i.txReady then
      let b := g.curBytes ++ bytesOf (validBytes o.txValid) o.txData
      if o.txLast then receive { g with inPkt := false, curBytes := [] } drop q b
      else { g with inPkt := true, curSeq := q, curBytes := b }
    else { g with inPkt := true, curSeq := q }
  else g

/-- a ZLP strobe is a complete (empty) packet announced with `tx_sequence_number` -/
def gZlp (o : Out) (drop : Bool) (g : Ghost) : Ghost := if o.txZlp then receive g drop o.txSeq [] else g

/-- One cycle of the observers. -/
def gnext (i : In) (o : Out) (drop : Bool) (g : Ghost) : Ghost := gZlp o drop (gTx i o drop (gProd i o g))

def CfgOK (c : Config) : Prop := c.mps % 4 = 0 ∧ 8 ≤ c.mps ∧ c.mps / 4 ≤ 2 ^ c.aw

def ProdOK (i : In) : Prop :=
  i.sValid = 0 ∨ i.sValid = 15 ∨ ((i.sValid = 1 ∨ i.sValid = 3 ∨ i.sValid = 7) ∧ i.sLast = true)

def HostOK (c : Config) (g : Ghost) (i : In) (o : Out) : Prop :=
  i.ack = true → i.hsEp = c.ep → o.txValid = 0 ∧ i.nextSeq = g.hseq

def EnvOK (c : Config) (g : Ghost) (i : In) (o : Out) : Prop :=
  i.epReset = false ∧ ProdOK i ∧ HostOK c g i o

structure Inv (c : Config) (v : View) (g : Ghost) : Prop where
  seqlt : v.seq < 32
  lenW : v.memW.length = c.mps / 4
  lenR : v.memR.length = c.mps / 4
  fillW_le : v.fillW ≤ c.mps
  fillW_al : v.endedW = false → v.fillW % 4 = 0
  endW : v.endedW = true → 1 ≤ v.fillW
  fillR_le : v.fillR ≤ c.mps
  wd : v.fsm = .waitData → v.fillR = 0
  idle : v.fsm = .waitData ∨ v.fsm = .reqIn ∨ v.fsm = .waitSend →
    v.sendPos = 0 ∧ v.txValid = 0 ∧ g.hseq = v.seq
  snd : v.fsm = .send → v.lpz = false ∧ v.sendPos * 4 < v.fillR ∧ v.rdR = v.memR.getD v.sendPos 0 ∧
    (v.txValid = 0 → v.sendPos = 0) ∧
    (v.txValid ≠ 0 → 1 ≤ v.sendPos ∧ v.txValid = 15 ∧ v.txLast = false ∧
      v.txData = v.memR.getD (v.sendPos - 1) 0 ∧ g.curBytes = wordsBytes (v.memR.take (v.sendPos - 1)))
  wa : v.fsm = .waitAck → (v.lpz = true → v.fillR = 0 ∧ v.txValid = 0) ∧ (v.lpz = false → 1 ≤ v.fillR) ∧
    (v.txValid ≠ 0 → v.txLast = true ∧ v.txValid = lastMask v.fillR ∧
      v.txData = v.memR.getD ((v.fillR - 1) / 4) 0 ∧
      g.curBytes = wordsBytes (v.memR.take ((v.fillR - 1) / 4)))
  hs : g.hseq = v.seq ∨ g.hseq = (v.seq + 1) % 32
  cur0 : v.txValid = 0 → g.inPkt = false ∧ g.curBytes = []
  curq : g.inPkt = true → g.curSeq = v.seq
  data : g.deliv ++ (if g.hseq = v.seq then bufBytes v.memR v.fillR else []) ++ bufBytes v.memW v.fillW
    = g.prod

/-! ### the write side -/

theorem validBytes_prod (i : In) (h : ProdOK i) :
    validBytes i.sValid ≤ 4 ∧ (validBytes i.sValid ≠ 4 → i.sValid ≠ 0 → i.sLast = true) ∧
      (i.sValid ≠ 0 → 1 ≤ validBytes i.sValid) := by
  rcases h with h | h | ⟨h | h | h, hl⟩ <;> simp_all [validBytes]

theorem write_side (c : Config) (v : View) (i : In) (hc : CfgOK c) (lenW : v.memW.length = c.mps / 4)
    (hle : v.fillW ≤ c.mps) (hal : v.endedW = false → v.fillW % 4 = 0) (hen : v.endedW = true → 1 ≤ v.fillW)
    (hp : ProdOK i) :
    (wMem c v i).length = c.mps / 4 ∧ wFill c v i ≤ c.mps ∧
      (wEnded c v i = false → wFill c v i % 4 = 0) ∧ (wEnded c v i = true → 1 ≤ wFill c v i) ∧
      (wen c v i = true → 1 ≤ wFill c v i) ∧
      bufBytes (wMem c v i) (wFill c v i) = bufBytes v.memW v.fillW ++
        (if wen c v i then bytesOf (validBytes i.sValid) i.sData else []) := by
  obtain ⟨hv4, hvl, hv1⟩ := validBytes_prod i hp
  obtain ⟨hm4, hm8, _⟩ := hc
  cases hw : wen c v i
  · simp [wMem, wFill, wEnded, hw, lenW, hle]; exact ⟨hal, hen⟩
  · have hw' := hw
    simp only [wen, vinReady, Bool.and_eq_true, bne_iff_ne, ne_eq, decide_eq_true_eq,
      Bool.not_eq_true'] at hw'
    obtain ⟨hnz, hroom, hne⟩ := hw'
    have h4 := hal hne
    have h1 := hv1 hnz
    refine ⟨by simp [wMem, hw, lenW], by simp only [wFill, hw, if_true]; omega, ?_,
      fun _ => by simp only [wFill, hw, if_true]; omega, fun _ => by simp only [wFill, hw, if_true]; omega, ?_⟩
    · simp only [wEnded, wFill, hw, Bool.and_true, if_true]
      intro he
      have : i.sLast = false := by cases hl : i.sLast <;> simp_all
      have : validBytes i.sValid = 4 := by
        by_cases h : validBytes i.sValid = 4
        · exact h
        · have := hvl h hnz; simp_all
      omega
    · simp only [wMem, wFill, hw, if_true]
      exact bufBytes_write _ _ _ _ h4 (by omega) hv4

end LunaVerif.SSStreamIn
