import LunaVerif.Lemmas.C07StreamCycles
/-!
# `cycle_refines_event` for the streaming handler states — part 3: cycle sequences and the stream window
(see Lemmas/C07Stream.lean for the set-up).
-/
namespace LunaVerif.CtrlCyc
open LunaVerif.Device

/-! ### Cycle sequences with the bus observer -/

/-- Running the cycles `is` from any cycle-level state related to `d` ends in a state related to `d'`, takes the
bus observer from `ob` to `ob'`, and drives device.py's address / configuration registers from `d`'s to `d'`'s
values. -/
def SimO (cyc : Cfg) (d d' : DevState) (is : List CycIn) (ob ob' : Obs) : Prop :=
  ∀ cs, Rel d cs →
    Rel d' (final cyc cs is) ∧ obsRun cyc ob cs is = ob' ∧
    regsAfter (d.address, d.config) (outs cyc cs is) = (d'.address, d'.config)

/-- … and the bus carries exactly `r`. -/
def SimS (cyc : Cfg) (d d' : DevState) (is : List CycIn) (r : Resp) : Prop := SimO cyc d d' is .idle (obsOf r)

theorem SimO.relabel {cyc : Cfg} {d d' : DevState} (ob : Obs) (h1 : d'.stage = d.stage) (h2 : d'.hstate = d.hstate)
    (h3 : d'.expectingAck = d.expectingAck) (h4 : d'.startPos = d.startPos) (h5 : d'.txPid = d.txPid)
    (h6 : d'.address = d.address) (h7 : d'.config = d.config) : SimO cyc d d' [] ob ob := by
  intro cs hr
  exact ⟨⟨by rw [h1]; exact hr.stage, hr.h.congr h2 h3 h4 h5⟩, rfl, by simp [outs, run, regsAfter, h6, h7]⟩

theorem SimO.append {cyc : Cfg} {d d1 d2 : DevState} {a b : List CycIn} {o0 o1 o2 : Obs}
    (h1 : SimO cyc d d1 a o0 o1) (h2 : SimO cyc d1 d2 b o1 o2) : SimO cyc d d2 (a ++ b) o0 o2 := by
  intro cs hr
  obtain ⟨a1, a2, a3⟩ := h1 cs hr
  obtain ⟨b1, b2, b3⟩ := h2 _ a1
  refine ⟨by rw [final_append]; exact b1, ?_, ?_⟩
  · rw [obsRun_append, a2, b2]
  · rw [outs_append, regsAfter_append, a3, b3]

/-- Once the answer is complete the observer ignores the rest. -/
theorem SimO.done {cyc : Cfg} {d d' : DevState} {is : List CycIn} {o0 o1 : Obs} (h : SimO cyc d d' is o0 o1)
    (r : Resp) : SimO cyc d d' is (.done r) (.done r) := by
  intro cs hr
  obtain ⟨a1, _, a3⟩ := h cs hr
  exact ⟨a1, obsRun_done _ _ _ _, a3⟩

theorem SimO.cons {cyc : Cfg} {d d1 d2 : DevState} {i : CycIn} {is : List CycIn} {o0 o1 o2 : Obs}
    (h1 : SimO cyc d d1 [i] o0 o1) (h2 : SimO cyc d1 d2 is o1 o2) : SimO cyc d d2 (i :: is) o0 o2 :=
  h1.append h2

theorem SimS.single {cyc : Cfg} {d d' : DevState} {i : CycIn} {r : Resp} (h : Sim1S cyc d d' i r) :
    SimS cyc d d' [i] r := by
  intro cs hr
  obtain ⟨a, b, nf, e, f⟩ := h cs hr
  refine ⟨a, ?_, ?_⟩
  · simp only [obsRun, obsStep, seen, b, nf]
    cases r <;> simp [Resp.isNone, obsOf]
  · simp only [outs, run, List.map_cons, List.map_nil, regsAfter, e, f]

/-- Prepending a silent segment. -/
theorem SimS.none_append {cyc : Cfg} {d d1 d2 : DevState} {a b : List CycIn} {r : Resp}
    (h1 : SimS cyc d d1 a .none) (h2 : SimS cyc d1 d2 b r) : SimS cyc d d2 (a ++ b) r :=
  SimO.append h1 h2

/-- Appending a silent segment. -/
theorem SimS.append_none {cyc : Cfg} {d d1 d2 : DevState} {a b : List CycIn} {r : Resp}
    (h1 : SimS cyc d d1 a r) (h2 : SimS cyc d1 d2 b .none) : SimS cyc d d2 (a ++ b) r := by
  cases r with
  | none => exact SimO.append h1 h2
  | hs p => exact SimO.append h1 (h2.done _)
  | data p b => exact SimO.append h1 (h2.done _)

theorem SimS.relabel {cyc : Cfg} {d d' : DevState} (h1 : d'.stage = d.stage) (h2 : d'.hstate = d.hstate)
    (h3 : d'.expectingAck = d.expectingAck) (h4 : d'.startPos = d.startPos) (h5 : d'.txPid = d.txPid)
    (h6 : d'.address = d.address) (h7 : d'.config = d.config) : SimS cyc d d' [] .none :=
  SimO.relabel _ h1 h2 h3 h4 h5 h6 h7

/-- The bus response of a `SimS` segment. -/
theorem SimS.busResp {cyc : Cfg} {d d' : DevState} {is : List CycIn} {r : Resp} (h : SimS cyc d d' is r)
    (cs : CycState) (hr : Rel d cs) : busResp cyc cs is = r := by
  unfold CtrlCyc.busResp
  rw [(h cs hr).2.1, obsOf_resp]

/-! ### Idle cycles under the stream contract -/

/-- Idle cycles (arbitrary free inputs `ns`, streamers silent). -/
def idleS (d : DevState) (ns : List CycIn) : List CycIn := ns.map (fun n => envIn d (calm d n))

theorem idleS_noStream {d : DevState} (h : NoStream d) (ns : List CycIn) : idleS d ns = idle d ns := by
  unfold idleS idle
  apply List.map_congr_left
  intro n _
  rw [calm_of_noStream h]

theorem sim_idleS (c : DevConfig) (d : DevState) (ns : List CycIn) : SimS (cfgOf c) d d (idleS d ns) .none := by
  induction ns with
  | nil => exact SimS.relabel rfl rfl rfl rfl rfl rfl rfl
  | cons n ns ih =>
    have := (SimS.single (sim_quiet_s c d (calm d n) (calmH_calm d n))).none_append ih
    simpa [idleS] using this

/-! ### The stream window -/

/-- The cycles in which the streamer `fd` presents the beats `bs` (one per cycle; free inputs `ns`). -/
def streamSeg (d : DevState) (fd : Bool) : List Desc.Beat → List CycIn → List CycIn
  | b :: bs, n :: ns => envIn d (beatIn fd b n) :: streamSeg d fd bs ns
  | _, _ => []

theorem envIn_congr {d d' : DevState} (h1 : d'.tokEp = d.tokEp) (h2 : d'.tokPid = d.tokPid) (h3 : d'.config = d.config)
    (h4 : d'.setup = d.setup) (n : CycIn) : envIn d' n = envIn d n := by
  simp [envIn, h1, h2, h3, h4]

theorem streamSeg_congr {d d' : DevState} (h1 : d'.tokEp = d.tokEp) (h2 : d'.tokPid = d.tokPid)
    (h3 : d'.config = d.config) (h4 : d'.setup = d.setup) (fd : Bool) (bs : List Desc.Beat) (ns : List CycIn) :
    streamSeg d' fd bs ns = streamSeg d fd bs ns := by
  induction bs generalizing ns with
  | nil => cases ns <;> rfl
  | cons b bs ih =>
    cases ns with
    | nil => rfl
    | cons n ns => simp only [streamSeg, ih, envIn_congr h1 h2 h3 h4]

/-- Silent beats are idle cycles. -/
theorem sim_seg_quiet (c : DevConfig) (d : DevState) (fd : Bool)
    (hcalm : ∀ n, CalmH d.hstate (noiseH (beatIn fd Desc.Beat.quiet n))) (bs : List Desc.Beat) (ns : List CycIn)
    (hq : ∀ b ∈ bs, b = Desc.Beat.quiet) : SimS (cfgOf c) d d (streamSeg d fd bs ns) .none := by
  induction bs generalizing ns with
  | nil => cases ns <;> exact SimS.relabel rfl rfl rfl rfl rfl rfl rfl
  | cons b bs ih =>
    cases ns with
    | nil => exact SimS.relabel rfl rfl rfl rfl rfl rfl rfl
    | cons n ns =>
      have hb : b = Desc.Beat.quiet := hq b (List.mem_cons_self ..)
      subst hb
      exact (SimS.single (sim_quiet_s c d _ (hcalm n))).none_append
        (ih ns (fun b hb => hq b (List.mem_cons_of_mem _ hb)))

theorem calm_stream {d : DevState} {fd : Bool} (hs : StreamState d fd) (n : CycIn) :
    CalmH d.hstate (noiseH (beatIn fd Desc.Beat.quiet n)) := by
  rw [noiseH_beatIn]; exact calmH_quiet_beat hs _

theorem calm_idle {d : DevState} (hi : d.hstate = .idle) (fd : Bool) (n : CycIn) :
    CalmH d.hstate (noiseH (beatIn fd Desc.Beat.quiet n)) := by
  rw [hi]; trivial

/-- A cycle in which the streamer presents a beat: what the bus observer sees. -/
theorem beat_cycle (c : DevConfig) (d : DevState) (fd : Bool) (b : Desc.Beat) (n : CycIn) (hs : StreamState d fd)
    (hb : b.stall = false) (cs : CycState) (hr : Rel d cs) :
    Rel d (step (cfgOf c) cs (envIn d (beatIn fd b n))).1 ∧
    seen (step (cfgOf c) cs (envIn d (beatIn fd b n))).2 =
      ⟨if b.valid && b.last && !b.first then .data (dataPid d) [] else .none, b.valid, b.first, b.last, b.payload,
       dataPid d⟩ ∧
    (step (cfgOf c) cs (envIn d (beatIn fd b n))).2.addressChanged = false ∧
    (step (cfgOf c) cs (envIn d (beatIn fd b n))).2.configChanged = false := by
  have hc : ctrlComb (cfgOf c) cs.stage (envIn d (beatIn fd b n)) = ⟨false, false, false, false⟩ := by
    simp [ctrlComb, envIn]
  have hn : ctrlNext (cfgOf c) cs.stage (envIn d (beatIn fd b n)) = cs.stage := by
    cases hs : cs.stage <;> simp [ctrlNext, envIn]
  have hi : handlerIn (envIn d (beatIn fd b n)) ⟨false, false, false, false⟩ =
      hin d (beatH fd b (noiseH n)) false false false := by
    cases fd <;> rfl
  obtain ⟨q1, q2, q3, q4, q5, q6, q7, q8, q9⟩ := hs_beat (cfgOf c) d cs.h (noiseH n) fd b hr.h hs hb
  refine ⟨⟨by rw [step_stage, hn]; exact hr.stage, by rw [step_h, hc, hi]; exact q1⟩, ?_, ?_, ?_⟩
  · simp only [seen]
    rw [step_outResp, step_txValid, step_txFirst, step_txLast, step_txPayload, step_txPidToggle, hc, hi, q4, q5, q6, q7,
      q8]
    have hsd : (envIn d (beatIn fd b n)).sdAck = false := rfl
    simp only [hsd, hResp, q2, q3, q4, q5, q6, q8, dataPid]
    cases d.txPid <;> simp
  · rw [step_addressChanged, hc, hi]; exact q9.1
  · rw [step_configChanged, hc, hi]; exact q9.2

theorem sendTrace_over (bytes : List Nat) (k : Nat) (hk : ¬ k < bytes.length) (rs : List Bool) :
    ∀ b ∈ Desc.sendTrace bytes k rs, b = Desc.Beat.quiet := by
  induction rs with
  | nil => intro b hb; simp [Desc.sendTrace] at hb
  | cons r rs ih =>
    intro b hb
    simp only [Desc.sendTrace, hk, if_false, List.mem_cons] at hb
    rcases hb with hb | hb
    · exact hb
    · exact ih b hb

theorem take_snoc_getD (bytes : List Nat) (k : Nat) (hk : k < bytes.length) :
    bytes.take k ++ [bytes.getD k 0] = bytes.take (k + 1) := by
  rw [List.take_add_one]
  simp [List.getD, hk]

theorem take_snoc_getD' (bytes : List Nat) (k : Nat) (hk : k < bytes.length) :
    bytes.take k ++ [bytes[k]?.getD 0] = bytes.take (k + 1) := by
  rw [List.take_add_one]
  simp [hk]

theorem SimO.of_step {cyc : Cfg} {d d1 : DevState} {i : CycIn} {o0 o1 : Obs}
    (h : ∀ cs, Rel d cs → Rel d1 (step cyc cs i).1 ∧ obsStep o0 i.txReady (seen (step cyc cs i).2) = o1 ∧
      (if (step cyc cs i).2.addressChanged then (step cyc cs i).2.newAddress else d.address) = d1.address ∧
      (if (step cyc cs i).2.configChanged then (step cyc cs i).2.newConfig else d.config) = d1.config) :
    SimO cyc d d1 [i] o0 o1 := by
  intro cs hr
  obtain ⟨a, b, e, f⟩ := h cs hr
  exact ⟨a, by simp only [obsRun, b], by simp only [outs, run, List.map_cons, List.map_nil, regsAfter, e, f]⟩

/-- The payload bytes from byte `k` on: whatever the `tx.ready` pattern, as long as it accepts the remaining
bytes, the observer ends with the complete packet. -/
theorem sim_send (c : DevConfig) (d : DevState) (fd : Bool) (hs : StreamState d fd) (bytes : List Nat) :
    ∀ (ns : List CycIn) (k : Nat) (ob : Obs), k < bytes.length →
      bytes.length - k ≤ (ns.map (·.txReady)).count true →
      (ob = .coll (dataPid d) (bytes.take k) ∨ (k = 0 ∧ ob = .idle)) →
      SimO (cfgOf c) d d (streamSeg d fd (Desc.sendTrace bytes k (ns.map (·.txReady))) ns) ob
        (.done (.data (dataPid d) bytes)) := by
  intro ns
  induction ns with
  | nil => intro k ob hk hcnt _; simp at hcnt; omega
  | cons n ns ih =>
    intro k ob hk hcnt hob
    simp only [List.map_cons, Desc.sendTrace, hk, if_true, streamSeg]
    -- the observer after this cycle
    have hstep : ∀ cs, Rel d cs →
        Rel d (step (cfgOf c) cs (envIn d (beatIn fd ⟨true, k == 0, k + 1 == bytes.length, bytes.getD k 0, false⟩ n))).1 ∧
        obsStep ob (envIn d (beatIn fd ⟨true, k == 0, k + 1 == bytes.length, bytes.getD k 0, false⟩ n)).txReady
          (seen (step (cfgOf c) cs (envIn d (beatIn fd ⟨true, k == 0, k + 1 == bytes.length, bytes.getD k 0, false⟩ n))).2)
          = (if n.txReady then
              (if k + 1 = bytes.length then Obs.done (.data (dataPid d) bytes)
               else .coll (dataPid d) (bytes.take (k + 1)))
             else .coll (dataPid d) (bytes.take k)) ∧
        (if (step (cfgOf c) cs (envIn d (beatIn fd ⟨true, k == 0, k + 1 == bytes.length, bytes.getD k 0, false⟩ n))).2.addressChanged
          then (step (cfgOf c) cs (envIn d (beatIn fd ⟨true, k == 0, k + 1 == bytes.length, bytes.getD k 0, false⟩ n))).2.newAddress
          else d.address) = d.address ∧
        (if (step (cfgOf c) cs (envIn d (beatIn fd ⟨true, k == 0, k + 1 == bytes.length, bytes.getD k 0, false⟩ n))).2.configChanged
          then (step (cfgOf c) cs (envIn d (beatIn fd ⟨true, k == 0, k + 1 == bytes.length, bytes.getD k 0, false⟩ n))).2.newConfig
          else d.config) = d.config := by
      intro cs hr
      obtain ⟨q1, q2, q3, q4⟩ := beat_cycle c d fd ⟨true, k == 0, k + 1 == bytes.length, bytes.getD k 0, false⟩ n hs rfl cs hr
      refine ⟨q1, ?_, by rw [q3]; rfl, by rw [q4]; rfl⟩
      have hrdy : (envIn d (beatIn fd ⟨true, k == 0, k + 1 == bytes.length, bytes.getD k 0, false⟩ n)).txReady = n.txReady := by
        cases fd <;> rfl
      rw [q2, hrdy]
      have hfull : k + 1 = bytes.length → bytes.take k ++ [bytes[k]?.getD 0] = bytes := by
        intro h; rw [take_snoc_getD' bytes k hk, h, List.take_length]
      rcases hob with hob | ⟨hk0, hob⟩
      · subst hob
        by_cases hl : k + 1 = bytes.length <;> cases n.txReady <;>
          simp [obsStep, obsTake, hl, hfull, take_snoc_getD' bytes k hk]
      · subst hob hk0
        by_cases hl : 0 + 1 = bytes.length <;> cases n.txReady <;>
          simp [obsStep, obsTake, hl, Resp.isNone] <;>
          first | (have := hfull hl; simpa using this) | (have := take_snoc_getD' bytes 0 hk; simpa using this)
    cases hrd : n.txReady with
    | false =>
      simp only [hrd, Bool.false_eq_true, if_false] at hstep ⊢
      refine SimO.cons (SimO.of_step hstep) (ih k _ hk ?_ (Or.inl rfl))
      simpa [hrd] using hcnt
    | true =>
      simp only [hrd, if_true] at hstep ⊢
      by_cases hl : k + 1 = bytes.length
      · simp only [if_pos hl] at hstep
        refine SimO.cons (SimO.of_step hstep) ?_
        exact (sim_seg_quiet c d fd (fun n => calm_stream hs n) _ ns
          (sendTrace_over bytes (k + 1) (by omega) _)).done _
      · simp only [if_neg hl] at hstep
        refine SimO.cons (SimO.of_step hstep) (ih (k + 1) _ (by omega) ?_ (Or.inl rfl))
        simp [hrd] at hcnt
        omega

end LunaVerif.CtrlCyc
