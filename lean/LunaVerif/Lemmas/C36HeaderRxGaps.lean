import LunaVerif.Lemmas.C36RoundTrip
/-!
# C36 — `rx_of_tx`, header receiver half, with invalid words interleaved

For every history of receiver inputs whose VALID words are `frame hdr payload` (invalid words of any
content anywhere), followed by one more cycle that is not a header start: the raw header receiver, from
reset, strobes `new_packet` exactly once, with the header sent on `packet`, and never `bad_packet` /
`bad_sequence`.
-/
namespace LunaVerif.RoundTrip

open LunaVerif.RawPacketTransmitter (Header frame dppFrame headerFrame specDw3)
open LunaVerif.HeaderRx (RawRx.State RawRx.In RawRx.step RawRx.init RawRx.isHpStart RawRx.badPacket
  RawRx.badSequence)

/-- states after each input cycle -/
def hrxStatesI (s : RawRx.State) (e : Nat) : List RawRx.In → List RawRx.State
  | [] => []
  | i :: is => RawRx.step s i e :: hrxStatesI (RawRx.step s i e) e is

def hrxFinalI (s : RawRx.State) (e : Nat) : List RawRx.In → RawRx.State
  | [] => s
  | i :: is => hrxFinalI (RawRx.step s i e) e is

theorem hrxStatesI_append (s : RawRx.State) (e : Nat) (a b : List RawRx.In) :
    hrxStatesI s e (a ++ b) = hrxStatesI s e a ++ hrxStatesI (hrxFinalI s e a) e b := by
  induction a generalizing s with
  | nil => rfl
  | cons w ws ih => simp [hrxStatesI, hrxFinalI, ih]

theorem hrxFinalI_append (s : RawRx.State) (e : Nat) (a b : List RawRx.In) :
    hrxFinalI s e (a ++ b) = hrxFinalI (hrxFinalI s e a) e b := by
  induction a generalizing s with
  | nil => rfl
  | cons w ws ih => simp [hrxFinalI, ih]

/-- a silent state: not in CHECK_PACKET, strobe low -/
def Silent (s : RawRx.State) : Prop := s.st ≠ .check ∧ s.newPkt = false

/-- invalid words leave a silent state exactly as it is -/
theorem hrx_gap (e : Nat) (gap : List RawRx.In) (hg : ∀ i ∈ gap, i.valid = false) (s : RawRx.State)
    (hs : Silent s) : hrxFinalI s e gap = s ∧ ∀ t ∈ hrxStatesI s e gap, t = s := by
  induction gap with
  | nil => exact ⟨rfl, by simp [hrxStatesI]⟩
  | cons i is ih =>
    have hv := hg i (by simp)
    have h1 : RawRx.step s i e = s := by
      obtain ⟨st, pkt, np, op⟩ := s
      obtain ⟨h1, h2⟩ := hs
      simp only at h1 h2; subst h2
      cases st <;> simp_all [RawRx.step, RawRx.isHpStart]
    obtain ⟨r1, r2⟩ := ih (fun j hj => hg j (List.mem_cons_of_mem _ hj))
    refine ⟨by simp only [hrxFinalI, h1]; exact r1, ?_⟩
    intro t ht
    simp only [hrxStatesI, List.mem_cons, h1] at ht
    rcases ht with ht | ht
    · exact ht
    · exact r2 t ht

/-- a gap, then one valid word, from a silent state: only the last state is new -/
theorem hrx_gap_word (e : Nat) (gap : List RawRx.In) (hg : ∀ i ∈ gap, i.valid = false) (s : RawRx.State)
    (hs : Silent s) (w : RawRx.In) :
    hrxFinalI s e (gap ++ [w]) = RawRx.step s w e ∧
    ∀ t ∈ hrxStatesI s e (gap ++ [w]), t = s ∨ t = RawRx.step s w e := by
  obtain ⟨r1, r2⟩ := hrx_gap e gap hg s hs
  refine ⟨by rw [hrxFinalI_append, r1]; rfl, ?_⟩
  intro t ht
  rw [hrxStatesI_append, r1] at ht
  rcases List.mem_append.mp ht with h | h
  · exact Or.inl (r2 t h)
  · simp only [hrxStatesI, List.mem_cons, List.not_mem_nil, or_false] at h; exact Or.inr h

/-- In WAIT_FOR_HPSTART, cycles that are not a header start (invalid, or valid non-HPSTART words) leave the
receiver there, silent, with its `packet` output untouched. -/
theorem hrx_wait_quietI (e : Nat) (l : List RawRx.In) (hl : ∀ i ∈ l, RawRx.isHpStart i = false)
    (s : RawRx.State) (hs : s.st = .wait) :
    ∀ t ∈ hrxStatesI s e l, t.newPkt = false ∧ t.st = .wait ∧ t.outPkt = s.outPkt := by
  induction l generalizing s with
  | nil => simp [hrxStatesI]
  | cons w ws ih =>
    have h1 : RawRx.step s w e = { s with st := .wait, newPkt := false } := by
      simp [RawRx.step, hs, hl w (by simp)]
    intro t ht
    simp only [hrxStatesI, List.mem_cons] at ht
    rcases ht with ht | ht
    · rw [ht, h1]; exact ⟨rfl, rfl, rfl⟩
    · have := ih (fun x hx => hl x (List.mem_cons_of_mem _ hx)) _ (by rw [h1]) t ht
      rw [h1] at this
      exact this

/-- **Header receiver half of `rx_of_tx`, with invalid words anywhere.** -/
theorem hrx_of_frame_gaps (hdr : Header) (payload : List Nat) (hw : hdr.wf) (hb : ∀ x ∈ payload, x < 256)
    (h : List RawRx.In) (hv : h.filter (·.valid) = (frame hdr payload).map hrxIn)
    (x : RawRx.In) (hx : RawRx.isHpStart x = false) :
    let sts := hrxStatesI RawRx.init (hdr.lcw % 8) (h ++ [x])
    (sts.filter (·.newPkt)).map (·.outPkt) = [hrxHdr hdr] ∧
    (∀ t ∈ RawRx.init :: sts, RawRx.badPacket t = false ∧ RawRx.badSequence t (hdr.lcw % 8) = false) := by
  obtain ⟨hok, hseq⟩ := hrxHdr_ok hdr hw
  have hfr : (frame hdr payload).map hrxIn = hrxIn (RawPacketTransmitter.HPSTART, 0xF) :: hrxIn (hdr.dw0, 0) ::
      hrxIn (hdr.dw1, 0) :: hrxIn (hdr.dw2, 0) :: hrxIn (dw3Of hdr, 0) :: (dppFrame hdr payload).map hrxIn := by
    rw [RawPacketTransmitter.frame_eq]; simp [headerFrame, dw3Of]
  rw [hfr] at hv
  obtain ⟨g0, r0, rfl, hg0, _, hv⟩ := List.filter_eq_cons_iff.mp hv
  obtain ⟨g1, r1, rfl, hg1, _, hv⟩ := List.filter_eq_cons_iff.mp hv
  obtain ⟨g2, r2, rfl, hg2, _, hv⟩ := List.filter_eq_cons_iff.mp hv
  obtain ⟨g3, r3, rfl, hg3, _, hv⟩ := List.filter_eq_cons_iff.mp hv
  obtain ⟨g4, r4, rfl, hg4, _, hv⟩ := List.filter_eq_cons_iff.mp hv
  have inv : ∀ g : List RawRx.In, (∀ x ∈ g, ¬ x.valid = true) → ∀ i ∈ g, i.valid = false := by
    intro g hg i hi; simpa using hg i hi
  let e := hdr.lcw % 8
  let S0 : RawRx.State := RawRx.init
  let S1 : RawRx.State := ⟨.dw0, .zero, false, .zero⟩
  let S2 : RawRx.State := ⟨.dw1, ⟨hdr.dw0, 0, 0, 0⟩, false, .zero⟩
  let S3 : RawRx.State := ⟨.dw2, ⟨hdr.dw0, hdr.dw1, 0, 0⟩, false, .zero⟩
  let S4 : RawRx.State := ⟨.dw3, ⟨hdr.dw0, hdr.dw1, hdr.dw2, 0⟩, false, .zero⟩
  let S5 : RawRx.State := ⟨.check, hrxHdr hdr, false, .zero⟩
  let sN : RawRx.State := ⟨.wait, hrxHdr hdr, true, hrxHdr hdr⟩
  have t0 : RawRx.step S0 (hrxIn (RawPacketTransmitter.HPSTART, 0xF)) e = S1 := by
    simp [RawRx.step, S0, S1, RawRx.init, RawRx.isHpStart, hrxIn, RawPacketTransmitter.HPSTART, HeaderRx.hpStart]
  have t1 : RawRx.step S1 (hrxIn (hdr.dw0, 0)) e = S2 := by
    simp [RawRx.step, S1, S2, hrxIn, HeaderRx.Hdr.zero]
  have t2 : RawRx.step S2 (hrxIn (hdr.dw1, 0)) e = S3 := by simp [RawRx.step, S2, S3, hrxIn]
  have t3 : RawRx.step S3 (hrxIn (hdr.dw2, 0)) e = S4 := by simp [RawRx.step, S3, S4, hrxIn]
  have t4 : RawRx.step S4 (hrxIn (dw3Of hdr, 0)) e = S5 := by simp [RawRx.step, S4, S5, hrxIn, hrxHdr]
  obtain ⟨c0f, c0s⟩ := hrx_gap_word e g0 (inv g0 hg0) S0 ⟨by simp [S0, RawRx.init], rfl⟩ (hrxIn (RawPacketTransmitter.HPSTART, 0xF))
  obtain ⟨c1f, c1s⟩ := hrx_gap_word e g1 (inv g1 hg1) S1 ⟨by simp [S1], rfl⟩ (hrxIn (hdr.dw0, 0))
  obtain ⟨c2f, c2s⟩ := hrx_gap_word e g2 (inv g2 hg2) S2 ⟨by simp [S2], rfl⟩ (hrxIn (hdr.dw1, 0))
  obtain ⟨c3f, c3s⟩ := hrx_gap_word e g3 (inv g3 hg3) S3 ⟨by simp [S3], rfl⟩ (hrxIn (hdr.dw2, 0))
  obtain ⟨c4f, c4s⟩ := hrx_gap_word e g4 (inv g4 hg4) S4 ⟨by simp [S4], rfl⟩ (hrxIn (dw3Of hdr, 0))
  rw [t0] at c0f c0s; rw [t1] at c1f c1s; rw [t2] at c2f c2s; rw [t3] at c3f c3s; rw [t4] at c4f c4s
  -- the rest: at least one cycle; none of them is a header start
  have hrest : ∀ i ∈ r4 ++ [x], RawRx.isHpStart i = false := by
    intro i hi
    rcases List.mem_append.mp hi with h1 | h1
    · cases hval : i.valid
      · simp [RawRx.isHpStart, hval]
      · have : i ∈ r4.filter (·.valid) := by simp [h1, hval]
        rw [hv] at this
        obtain ⟨w, hw', rfl⟩ := List.mem_map.mp this
        exact dppFrame_no_hpstart hdr payload hb w hw'
    · simp only [List.mem_cons, List.not_mem_nil, or_false] at h1; subst h1; exact hx
  obtain ⟨l0, ls, hl⟩ : ∃ l0 ls, r4 ++ [x] = l0 :: ls := by
    cases hd : r4 ++ [x] with
    | nil => simp at hd
    | cons a b => exact ⟨a, b, rfl⟩
  have hls : ∀ i ∈ ls, RawRx.isHpStart i = false := fun i hi => hrest i (by rw [hl]; exact List.mem_cons_of_mem _ hi)
  have t5 : RawRx.step S5 l0 e = sN := by
    simp only [RawRx.step, S5, sN]
    simp [HeaderRx.RawRx.good, hok, hseq, e]
  have hq := hrx_wait_quietI e ls hls sN rfl
  -- put the history together
  have hh : (g0 ++ hrxIn (RawPacketTransmitter.HPSTART, 0xF) :: (g1 ++ hrxIn (hdr.dw0, 0) :: (g2 ++ hrxIn (hdr.dw1, 0) ::
      (g3 ++ hrxIn (hdr.dw2, 0) :: (g4 ++ hrxIn (dw3Of hdr, 0) :: r4))))) ++ [x] =
      (g0 ++ [hrxIn (RawPacketTransmitter.HPSTART, 0xF)]) ++ ((g1 ++ [hrxIn (hdr.dw0, 0)]) ++ ((g2 ++ [hrxIn (hdr.dw1, 0)]) ++
      ((g3 ++ [hrxIn (hdr.dw2, 0)]) ++ ((g4 ++ [hrxIn (dw3Of hdr, 0)]) ++ (l0 :: ls))))) := by
    rw [← hl]; simp
  intro sts
  have hsts : sts = hrxStatesI S0 e (g0 ++ [hrxIn (RawPacketTransmitter.HPSTART, 0xF)]) ++
      (hrxStatesI S1 e (g1 ++ [hrxIn (hdr.dw0, 0)]) ++ (hrxStatesI S2 e (g2 ++ [hrxIn (hdr.dw1, 0)]) ++
      (hrxStatesI S3 e (g3 ++ [hrxIn (hdr.dw2, 0)]) ++ (hrxStatesI S4 e (g4 ++ [hrxIn (dw3Of hdr, 0)]) ++
      (sN :: hrxStatesI sN e ls))))) := by
    show hrxStatesI RawRx.init (hdr.lcw % 8) _ = _
    rw [hh, hrxStatesI_append S0 e (g0 ++ [hrxIn (RawPacketTransmitter.HPSTART, 0xF)]), c0f,
      hrxStatesI_append S1 e (g1 ++ [hrxIn (hdr.dw0, 0)]), c1f,
      hrxStatesI_append S2 e (g2 ++ [hrxIn (hdr.dw1, 0)]), c2f,
      hrxStatesI_append S3 e (g3 ++ [hrxIn (hdr.dw2, 0)]), c3f,
      hrxStatesI_append S4 e (g4 ++ [hrxIn (dw3Of hdr, 0)]), c4f]
    simp only [hrxStatesI, t5]
  -- classification of all states
  have hcls : ∀ t ∈ sts, (t = S0 ∨ t = S1 ∨ t = S2 ∨ t = S3 ∨ t = S4 ∨ t = S5) ∨ t = sN ∨
      (t.newPkt = false ∧ t.st = .wait) := by
    intro t ht
    rw [hsts] at ht
    simp only [List.mem_append, List.mem_cons] at ht
    rcases ht with ht | ht | ht | ht | ht | ht | ht
    · rcases c0s t ht with h | h <;> simp [h]
    · rcases c1s t ht with h | h <;> simp [h]
    · rcases c2s t ht with h | h <;> simp [h]
    · rcases c3s t ht with h | h <;> simp [h]
    · rcases c4s t ht with h | h <;> simp [h]
    · exact Or.inr (Or.inl ht)
    · exact Or.inr (Or.inr ⟨(hq t ht).1, (hq t ht).2.1⟩)
  refine ⟨?_, ?_⟩
  · have hpre : ∀ (S : RawRx.State) (l : List RawRx.In) (a b : RawRx.State), a.newPkt = false → b.newPkt = false →
        (∀ t ∈ hrxStatesI S e l, t = a ∨ t = b) → (hrxStatesI S e l).filter (·.newPkt) = [] := by
      intro S l a b ha hb' hall
      rw [List.filter_eq_nil_iff]
      intro t ht
      rcases hall t ht with h | h <;> simp [h, ha, hb']
    have hfil : (hrxStatesI sN e ls).filter (·.newPkt) = [] := by
      rw [List.filter_eq_nil_iff]; intro t ht; simp [(hq t ht).1]
    rw [hsts]
    simp only [List.filter_append, List.filter_cons,
      hpre S0 _ S0 S1 rfl rfl c0s, hpre S1 _ S1 S2 rfl rfl c1s, hpre S2 _ S2 S3 rfl rfl c2s,
      hpre S3 _ S3 S4 rfl rfl c3s, hpre S4 _ S4 S5 rfl rfl c4s, hfil]
    simp [sN]
  · intro t ht
    rcases List.mem_cons.mp ht with h0 | h0
    · subst h0; simp [RawRx.badPacket, RawRx.badSequence, RawRx.init]
    · rcases hcls t h0 with (h | h | h | h | h | h) | h | h
      · subst h; simp [RawRx.badPacket, RawRx.badSequence, S0, RawRx.init]
      · subst h; simp [RawRx.badPacket, RawRx.badSequence, S1]
      · subst h; simp [RawRx.badPacket, RawRx.badSequence, S2]
      · subst h; simp [RawRx.badPacket, RawRx.badSequence, S3]
      · subst h; simp [RawRx.badPacket, RawRx.badSequence, S4]
      · subst h; simp [RawRx.badPacket, RawRx.badSequence, S5, hok, hseq]
      · subst h; simp [RawRx.badPacket, RawRx.badSequence, sN]
      · simp [RawRx.badPacket, RawRx.badSequence, h.2]

-- non-vacuity of `hv`: the frame's words with invalid words before, inside and after
example (f g : List (Nat × Nat)) :
    (⟨false, 7, 7⟩ :: (f.map hrxIn ++ ⟨false, 0xF7FBFBFB, 15⟩ :: (g.map hrxIn ++ [⟨false, 1, 2⟩]))).filter (·.valid)
      = (f ++ g).map hrxIn := by
  have hf : ∀ l : List (Nat × Nat), (List.map hrxIn l).filter (fun x => x.valid) = List.map hrxIn l := by
    intro l; induction l with
    | nil => rfl
    | cons w ws ih => simp [hrxIn, ih]
  simp [List.filter_append, hf]

end LunaVerif.RoundTrip
