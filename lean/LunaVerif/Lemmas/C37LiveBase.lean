import LunaVerif.Props.C37
/-!
# C37 — liveness of the header receiver: infrastructure

*Ready cycles* are the cycles in which the sink of the link-command generator accepts a word
(`source.ready = 1`).  Every owed link command gets a *rank* (an upper bound on the number of ready cycles
still needed before it has completed on the wire), which

* never increases in a cycle that brings no new higher-priority work,
* drops by at least one in every ready cycle,
* is raised by at most a constant `C` by a cycle that brings new higher-priority work (a *bad* cycle), and
* is 0 exactly when the command has completed (0 is absorbing).

`converge` turns such a one-cycle statement into: a history that contains `rank + C · #bad` ready cycles — in
any arrangement, with arbitrary stalls in between — has sent the command.  `fair_ready` converts bounded
fairness ("never `K` consecutive cycles without `source.ready`") into a number of ready cycles, which gives
the explicit bounds `K · (R + C · #bad)`.

This file: the generic convergence lemma, the fairness counting lemma, the extended observer record and
the one-cycle facts (`Facts`) about the counters that all ranks use.
-/
set_option linter.unusedSimpArgs false
set_option linter.unusedSectionVars false
set_option linter.unusedVariables false
namespace LunaVerif.HeaderRx

/-! ## generic convergence -/
section generic
variable {σ ι : Type} (nxt : σ → ι → σ) (Ok : σ → ι → Prop) (I : σ → Prop) (rk : σ → Nat)
  (rdy bad : σ → ι → Bool) (C : Nat)

def runS : σ → List ι → σ
  | x, [] => x
  | x, i :: is => runS (nxt x i) is

def okS : σ → List ι → Prop
  | _, [] => True
  | x, i :: is => Ok x i ∧ okS (nxt x i) is

def cntS (f : σ → ι → Bool) : σ → List ι → Nat
  | _, [] => 0
  | x, i :: is => (if f x i then 1 else 0) + cntS f (nxt x i) is

/-- the one-cycle statement -/
def StepOk : Prop := ∀ x i, I x → Ok x i →
  I (nxt x i) ∧ (rk x = 0 → rk (nxt x i) = 0) ∧
  (rk x ≠ 0 → rk (nxt x i) + (if rdy x i then 1 else 0) ≤ rk x + (if bad x i then C else 0))

theorem inv_runS (hs : StepOk nxt Ok I rk rdy bad C) (is : List ι) : ∀ x, I x → okS nxt Ok x is →
    I (runS nxt x is) := by
  induction is with
  | nil => intro x h _; exact h
  | cons i is ih => intro x h ho; exact ih _ (hs x i h ho.1).1 ho.2

theorem zero_runS (hs : StepOk nxt Ok I rk rdy bad C) (is : List ι) : ∀ x, I x → okS nxt Ok x is →
    rk x = 0 → rk (runS nxt x is) = 0 := by
  induction is with
  | nil => intro x _ _ h; exact h
  | cons i is ih => intro x h ho hz; exact ih _ (hs x i h ho.1).1 ho.2 ((hs x i h ho.1).2.1 hz)

theorem bound_runS (hs : StepOk nxt Ok I rk rdy bad C) (is : List ι) : ∀ x, I x → okS nxt Ok x is →
    rk (runS nxt x is) = 0 ∨
    rk (runS nxt x is) + cntS nxt rdy x is ≤ rk x + C * cntS nxt bad x is := by
  induction is with
  | nil => intro x _ _; right; simp [runS, cntS]
  | cons i is ih =>
    intro x h ho
    by_cases hz : rk x = 0
    · left; exact zero_runS nxt Ok I rk rdy bad C hs (i :: is) x h ho hz
    · obtain ⟨h1, _, h3⟩ := hs x i h ho.1
      rcases ih _ h1 ho.2 with g | g
      · left; exact g
      · right
        have h3 := h3 hz
        simp only [runS, cntS]
        have hm : C * ((if bad x i then 1 else 0) + cntS nxt bad (nxt x i) is) =
            (if bad x i then C else 0) + C * cntS nxt bad (nxt x i) is := by
          rw [Nat.mul_add]; split <;> simp
        rw [hm]; omega

/-- **Convergence.**  Once the history contains `rank + C · #bad` ready cycles the rank is 0. -/
theorem converge (hs : StepOk nxt Ok I rk rdy bad C) (is : List ι) (x : σ) (h : I x) (ho : okS nxt Ok x is)
    (hn : rk x + C * cntS nxt bad x is ≤ cntS nxt rdy x is) : rk (runS nxt x is) = 0 := by
  rcases bound_runS nxt Ok I rk rdy bad C hs is x h ho with g | g
  · exact g
  · omega
end generic

/-! ## bounded fairness → number of ready cycles -/

/-- Bounded fairness of the generator's sink: never `K` consecutive cycles without `source.ready`
(`w` = number of cycles without `source.ready` immediately before the history). -/
def FairOk (K : Nat) : Nat → List In → Prop
  | _, [] => True
  | w, i :: is => (i.srcReady = true ∨ w + 1 < K) ∧ FairOk K (if i.srcReady then 0 else w + 1) is

def readyCount : List In → Nat
  | [] => 0
  | i :: is => (if i.srcReady then 1 else 0) + readyCount is

/-- a fair history of length `n` contains at least `n / K` ready cycles -/
theorem fair_ready (K : Nat) (is : List In) : ∀ w, w < K → FairOk K w is →
    is.length + w < K * (readyCount is + 1) := by
  induction is with
  | nil => intro w hw _; simp [readyCount]; exact hw
  | cons i is ih =>
    intro w hw hf
    obtain ⟨h1, h2⟩ := hf
    cases hr : i.srcReady
    · simp only [hr, Bool.false_eq_true, if_false] at h1 h2
      have h1 : w + 1 < K := by simpa using h1
      have := ih (w + 1) h1 h2
      simp only [readyCount, hr, List.length_cons, Bool.false_eq_true, if_false, Nat.zero_add]
      omega
    · simp only [hr, if_true] at h2
      have := ih 0 (by omega) h2
      simp only [readyCount, hr, List.length_cons, if_true]
      have hm : K * (1 + readyCount is + 1) = K + K * (readyCount is + 1) := by
        rw [show 1 + readyCount is + 1 = 1 + (readyCount is + 1) by omega, Nat.mul_add, Nat.mul_one]
      rw [hm]; omega

theorem fair_ready_ge (K R : Nat) (is : List In) (hf : FairOk K 0 is) (hK : 0 < K) (hl : K * R ≤ is.length) :
    R ≤ readyCount is := by
  have h := fair_ready K is 0 hK hf
  have : K * R < K * (readyCount is + 1) := by omega
  have := Nat.lt_of_mul_lt_mul_left this
  omega

/-! ## the world: model state, observer's record, counts of the other commands -/

/-- completed LRTY / LXU / keepalive commands (the `Ghost` of the safety proof does not count them) -/
structure Cnt where
  lrtys : Nat
  lxus  : Nat
  kas   : Nat
deriving Repr

def Cnt.init : Cnt := ⟨0, 0, 0⟩

def cntStep (s : State) (i : In) (n : Cnt) : Cnt :=
  { lrtys := if s.fsm == .sendLrty && done s i then n.lrtys + 1 else n.lrtys
    lxus  := if s.fsm == .sendLxu && done s i then n.lxus + 1 else n.lxus
    kas   := if s.fsm == .sendKeepalive && done s i then n.kas + 1 else n.kas }

structure World where
  s : State
  g : Ghost
  n : Cnt

def World.start : World := ⟨HeaderRx.init, Ghost.init, Cnt.init⟩

def World.next (c : Config) (x : World) (i : In) : World :=
  ⟨(HeaderRx.step c x.s i).1, ghostStep x.s i x.g, cntStep x.s i x.n⟩

def WOk (x : World) (i : In) : Prop := EnvStep x.s x.g i

abbrev runW (c : Config) := runS (World.next c)
abbrev okW (c : Config) := okS (World.next c) WOk

theorem runW_sg (c : Config) (is : List In) : ∀ x : World,
    ((runW c x is).s, (runW c x is).g) = runG c x.s x.g is := by
  induction is with
  | nil => intro x; rfl
  | cons i is ih => intro x; simp only [runW, runS, runG]; exact ih (World.next c x i)

theorem okW_iff (c : Config) (is : List In) : ∀ x : World, okW c x is ↔ EnvOk c x.s x.g is := by
  induction is with
  | nil => intro x; simp [okW, okS, EnvOk]
  | cons i is ih => intro x; exact and_congr Iff.rfl (ih (World.next c x i))

def rdyW (_ : World) (i : In) : Bool := i.srcReady

theorem cnt_rdyW (c : Config) (is : List In) : ∀ x : World, cntS (World.next c) rdyW x is = readyCount is := by
  induction is with
  | nil => intro x; rfl
  | cons i is ih =>
    intro x
    have := ih (World.next c x i)
    unfold cntS readyCount
    rw [this]
    rfl

/-- number of cycles of the history whose inputs satisfy `f` -/
def countIn (f : In → Bool) : List In → Nat
  | [] => 0
  | i :: is => (if f i then 1 else 0) + countIn f is

theorem cntS_in (c : Config) (f : In → Bool) (is : List In) :
    ∀ x : World, cntS (World.next c) (fun _ i => f i) x is = countIn f is := by
  induction is with
  | nil => intro x; rfl
  | cons i is ih =>
    intro x
    have := ih (World.next c x i)
    unfold cntS countIn
    rw [this]

theorem runG_append (c : Config) (a b : List In) : ∀ (s : State) (g : Ghost),
    runG c s g (a ++ b) = runG c (runG c s g a).1 (runG c s g a).2 b := by
  induction a with
  | nil => intro s g; rfl
  | cons i is ih => intro s g; simp only [List.cons_append, runG]; exact ih _ _

theorem envOk_append (c : Config) (a b : List In) : ∀ (s : State) (g : Ghost), EnvOk c s g (a ++ b) →
    EnvOk c s g a ∧ EnvOk c (runG c s g a).1 (runG c s g a).2 b := by
  induction a with
  | nil => intro s g h; exact ⟨trivial, h⟩
  | cons i is ih =>
    intro s g h
    simp only [List.cons_append, EnvOk] at h
    obtain ⟨h1, h2⟩ := ih _ _ h.2
    exact ⟨⟨h.1, h1⟩, h2⟩

/-- a completed command of kind `cmd` under the invariant: the dispatch FSM is in the matching state -/
theorem wire_of_fsm {c : Config} {s : State} {g : Ghost} (i : In) (h : Inv c s g) (hd : done s i = true) :
    s.gCmd = genCmd c s := by
  simp only [done, Bool.and_eq_true, beq_iff_eq] at hd
  exact (h.hgen1 (by simp [hd.1])).1

/-! ## one-cycle facts about the counters -/

def b2 (b : Bool) : Nat := if b then 1 else 0

theorem b2_le (b : Bool) : b2 b ≤ 1 := by cases b <;> simp [b2]
@[simp] theorem b2_true : b2 true = 1 := rfl
@[simp] theorem b2_false : b2 false = 0 := rfl

/-- ready cycles still needed by the generator for the command in progress -/
def ph : Gen → Nat
  | .idle => 3 | .header => 2 | .command => 1

/-- cost of a pending LRTY that is dispatched first -/
def lr (s : State) : Nat := if s.lrty then 4 else 0


structure Facts (c : Config) (s : State) (g : Ghost) (i : In) : Prop where
  acks : (step c s i).1.acks + b2 (lgoodDone s i) = s.acks + b2 (accept s)
  cti  : (step c s i).1.cti + b2 (lcrdDone s i) = s.cti + b2 (pop s i)
  bf   : (step c s i).1.bf + b2 (pop s i) = s.bf + b2 (accept s)
  lg   : (ghostStep s i g).lgoods.length = g.lgoods.length + b2 (lgoodDone s i)
  lc   : (ghostStep s i g).lcrds.length = g.lcrds.length + b2 (lcrdDone s i)
  ac   : (ghostStep s i g).accepted.length = g.accepted.length + b2 (accept s)
  acks4 : s.acks ≤ 4
  acks3 : accept s = true → s.acks ≤ 3
  bfcti : s.bf + s.cti ≤ 4
  bfcti3 : accept s = true → s.bf + s.cti ≤ 3
  cred : g.accepted.length + b2 (accept s) ≤ g.lcrds.length
  hack : g.lgoods.length + s.acks = g.accepted.length + 1
  hcti : s.cti + g.lcrds.length + s.bf = 4 + g.accepted.length
  popbf : pop s i = true → 1 ≤ s.bf
  lgA : lgoodDone s i = true → 1 ≤ s.acks
  lcC : lcrdDone s i = true → 1 ≤ s.cti
  fA : s.fsm = .sendAcks → 1 ≤ s.acks
  fC : s.fsm = .issueCredits → 1 ≤ s.cti
  g0 : s.fsm = .dispatch → s.gen = .idle
  en : i.enable = true
  nf : (c.fix && resetCond s i) = false
  nr : resetNow c s i = false
  accA : s.acks + b2 (accept s) ≤ 4
  bcA : s.bf + s.cti + b2 (accept s) ≤ 4
  popB : b2 (pop s i) ≤ s.bf
  aL : b2 (accept s) ≤ 1
  pL : b2 (pop s i) ≤ 1
  lrN : lr (step c s i).1 ≤ lr s + (if i.retryRequired then 4 else 0)
  lrD : s.fsm = .sendLrty → done s i = true → lr (step c s i).1 = 0
  lbI : s.lbad = true → accept s = false

theorem facts_of {c : Config} {s : State} {g : Ghost} {i : In} (h : Inv c s g) (e : EnvStep s g i) :
    Facts c s g i := by
  obtain ⟨f1, f2, f3, f4, f5⟩ := facts h e
  have h1 := h.hbf; have h2 := h.hcti; have h3 := h.hcred; have h4 := h.hack; have h5 := h.hacks4
  have e3 := e.unack; have e2 := e.cred
  have nr := no_reset (c := c) e
  refine ⟨?_, ?_, ?_, ?_, ?_, ?_, h5, ?_, f1, f2, ?_, h4, by omega, f3, f4, f5, h.hfsmA, h.hfsmC, h.hgen0, e.en,
    no_fixreset h e, nr, ?_, ?_, ?_, b2_le _, b2_le _, ?_, ?_, ?_⟩
  · rw [step_acks, nr]; simp only [Bool.false_eq_true, if_false, updown, b2]
    cases ha : accept s <;> cases hg : lgoodDone s i <;> simp_all <;> omega
  · rw [step_cti, nr]; simp only [Bool.false_eq_true, if_false, updown, b2]
    cases ha : pop s i <;> cases hg : lcrdDone s i <;> simp_all <;> omega
  · rw [step_bf, nr]; simp only [Bool.false_eq_true, if_false, updown, b2]
    cases ha : accept s <;> cases hg : pop s i <;> simp_all <;> omega
  · rw [len_lgoods h e]; rfl
  · rw [len_lcrds h e]; rfl
  · rw [len_accepted h e]; rfl
  · intro a; have := e3 a; omega
  · simp only [b2]; cases ha : accept s
    · simp; exact h3
    · have := e2 ha; simp; omega
  · simp only [b2]; cases ha : accept s
    · simp; exact h5
    · have := e3 ha; simp; omega
  · simp only [b2]; cases ha : accept s
    · simp; omega
    · have := f2 ha; simp; omega
  · simp only [b2]; cases ha : pop s i
    · simp
    · have := f3 ha; simp; omega
  · simp only [lr, step_lrty, nr]
    cases s.lrty <;> cases i.retryRequired <;> cases (s.fsm == Fsm.sendLrty && done s i) <;> simp
  · intro hf hd; simp [lr, step_lrty, nr, hf, hd]
  · intro hl; have := h.hlb1 hl; simp [accept, this]

theorem fsm_beq (a b : Fsm) : (a == b) = decide (a = b) := by cases a <;> cases b <;> rfl
theorem gen_beq (a b : Gen) : (a == b) = decide (a = b) := by cases a <;> cases b <;> rfl

/-- cost of a pending LBAD / LXU -/
def lbc (s : State) : Nat := if s.lbad then 4 else 0
def lxc (s : State) : Nat := if s.lxu then 4 else 0

theorem step_lxu (c : Config) (s : State) (i : In) : (step c s i).1.lxu =
    if s.fsm == .sendLxu && done s i then false else if i.rejectPower then true else s.lxu := rfl

/-- one-cycle facts about the pending flags and the counts of LBAD / LRTY / LXU / keepalive -/
structure Facts2 (c : Config) (s : State) (g : Ghost) (i : In) : Prop where
  lb   : (ghostStep s i g).lbads = g.lbads + b2 (s.fsm == .sendLbad && done s i)
  lbK  : s.lbad = true → (s.fsm == .sendLbad && done s i) = false → (step c s i).1.lbad = true
  lbN  : lbc (step c s i).1 ≤ lbc s + 4 * b2 (badEv s)
  lbD  : s.fsm = .sendLbad → done s i = true → lbc (step c s i).1 = 0
  lbS  : s.fsm = .sendLbad → lbc s = 4
  lrK  : s.lrty = true → (s.fsm == .sendLrty && done s i) = false → (step c s i).1.lrty = true
  lrN4 : lr (step c s i).1 ≤ lr s + 4 * b2 i.retryRequired
  lxK  : s.lxu = true → (s.fsm == .sendLxu && done s i) = false → (step c s i).1.lxu = true
  lxN  : lxc (step c s i).1 ≤ lxc s + 4 * b2 i.rejectPower
  lxD  : s.fsm = .sendLxu → done s i = true → lxc (step c s i).1 = 0
  kaK  : s.keepalive = true → (s.fsm == .sendKeepalive && done s i) = false → (step c s i).1.keepalive = true

theorem facts2_of {c : Config} {s : State} {g : Ghost} {i : In} (h : Inv c s g) (e : EnvStep s g i) :
    Facts2 c s g i := by
  have nr := no_reset (c := c) e
  refine ⟨?_, ?_, ?_, ?_, ?_, ?_, ?_, ?_, ?_, ?_, ?_⟩
  · simp only [ghostStep, wire_lbad h]; cases (s.fsm == Fsm.sendLbad && done s i) <;> simp
  · intro hl hd; simp [step_lbad, nr, hd, hl]
  · simp only [lbc, step_lbad, nr]
    cases s.lbad <;> cases badEv s <;> cases (s.fsm == Fsm.sendLbad && done s i) <;> simp
  · intro hf hd; simp [lbc, step_lbad, nr, hf, hd]
  · intro hf; simp [lbc, h.hlb2 hf]
  · intro hl hd; simp [step_lrty, nr, hd, hl]
  · simp only [lr, step_lrty, nr]
    cases s.lrty <;> cases i.retryRequired <;> cases (s.fsm == Fsm.sendLrty && done s i) <;> simp
  · intro hl hd; simp [step_lxu, hd, hl]
  · simp only [lxc, step_lxu]
    rcases Bool.eq_false_or_eq_true s.lxu with h1 | h1 <;>
      rcases Bool.eq_false_or_eq_true i.rejectPower with h2 | h2 <;>
      rcases Bool.eq_false_or_eq_true (s.fsm == Fsm.sendLxu && done s i) with h3 | h3 <;> simp [h1, h2, h3]
  · intro hf hd; simp [lxc, step_lxu, hf, hd]
  · intro hl hd; simp [step_keepalive, nr, hd, hl]

end LunaVerif.HeaderRx
