import LunaVerif.Lemmas.C20Control
import LunaVerif.Model.Usb2.ControlCycSys
import LunaVerif.Model.Device.SlotContract
/-!
# C20 — the control endpoint keeps the slot contract: the parts, one cycle each

The wires of the closed loop `sys2Step` (Model/Usb2/ControlCycSys.lean) towards its two streamers (`wires_blk`,
`wires_ser`), what the control endpoint drives as a function of the handler state (`ctl_sig` / `sigF`), the block
descriptor handler and the serializer state by state (`blk_*`, `ser_*`), and the exclusion facts about the control
FSM's strobes under an exclusive PID decode (`strobe_facts`).
-/
namespace LunaVerif.CtrlCyc
open LunaVerif.Device LunaVerif.StreamGen LunaVerif.C20Ctr
open LunaVerif.Desc

/-- the handler is in GET_DESCRIPTOR and `setup.type == STANDARD` -/
def gd (cs : CycState) (i : CycIn) : Bool := decide (i.su.type = TYPE_STANDARD) && cs.h.hstate == .getDescriptor
def gs (cs : CycState) (i : CycIn) : Bool :=
  decide (i.su.type = TYPE_STANDARD) && (cs.h.hstate == .getStatus || cs.h.hstate == .getConfiguration)

theorem hin_su (i : CycIn) (cc : CtrlComb) : (handlerIn i cc).su = i.su := rfl

theorem wires_blk (c : Cfg) (cs : CycState) (i : CycIn) :
    blkInOf cs i (step c cs i).2.h =
      ⟨i.su.value, i.su.length, cs.h.startPos, gd cs i && (ctrlComb c cs.stage i).dataRequested, gd cs i && i.txReady⟩ := by
  simp only [blkInOf, step, stdStep, gd, hin_su]
  by_cases h : i.su.type = TYPE_STANDARD
  · simp only [stdComb, h, decide_true, Bool.true_and, if_true]
    cases cs.h.hstate <;> simp [simpleDataOut, regWriteZlp, handlerIn]
  · simp [h]

theorem wires_ser (c : Cfg) (cs : CycState) (i : CycIn) :
    (serInOf (step c cs i).2.h).start = (gs cs i && (ctrlComb c cs.stage i).dataRequested) ∧
    (serInOf (step c cs i).2.h).ready = (gs cs i && i.txReady) ∧
    (serInOf (step c cs i).2.h).startPosition = 0 ∧
    (gs cs i = true → (serInOf (step c cs i).2.h).maxLength = 1 ∨ (serInOf (step c cs i).2.h).maxLength = 2) := by
  simp only [serInOf, step, stdStep, gs, hin_su]
  by_cases h : i.su.type = TYPE_STANDARD
  · simp only [stdComb, h, decide_true, Bool.true_and, if_true]
    cases cs.h.hstate <;> simp [simpleDataOut, regWriteZlp, handlerIn]
  · simp [h]

def ctlSig (o : CycOut) : Sig :=
  { hs := o.ack || o.nak || o.stall, valid := o.txValid, first := o.txFirst, last := o.txLast, tstart := false }


/-- What the control endpoint drives, by handler state. -/
def sigF (h : HState) (std : Bool) (cc : CtrlComb) (sd stl tv tf tl dv df dl ds : Bool) : Sig :=
  if std then
    match h with
    | .idle => ⟨sd || cc.pingAck, false, false, false, false⟩
    | .getStatus | .getConfiguration => ⟨sd || cc.statusRequested || cc.pingAck, tv, tf, tl, false⟩
    | .clearFeature =>
      ⟨sd || cc.pingAck || (cc.statusRequested && stl), cc.statusRequested && !stl, false, cc.statusRequested && !stl, false⟩
    | .setAddress | .setConfiguration => ⟨sd || cc.pingAck, cc.statusRequested, false, cc.statusRequested, false⟩
    | .getDescriptor => ⟨sd || cc.statusRequested || cc.pingAck || ds, dv, df, dl, false⟩
    | .unhandled => ⟨sd || cc.pingAck || (cc.dataRequested || cc.statusRequested), false, false, false, false⟩
  else ⟨sd || cc.pingAck || (cc.dataRequested || cc.statusRequested), false, false, false, false⟩

theorem ctl_sig (c : Cfg) (cs : CycState) (i : CycIn) :
    ctlSig (step c cs i).2 = sigF cs.h.hstate (decide (i.su.type = TYPE_STANDARD)) (ctrlComb c cs.stage i) i.sdAck
      (clearFeatureStalls i.su) i.tValid i.tFirst i.tLast i.dValid i.dFirst i.dLast i.dStall := by
  simp only [ctlSig, step, stdStep, hin_su, sigF]
  by_cases h : i.su.type = TYPE_STANDARD
  · simp only [h, if_true, decide_true, stdComb]
    cases cs.h.hstate <;> simp [simpleDataOut, regWriteZlp, muxOut, handlerIn]
  · simp [h, muxOut, fallbackOut, handlerIn]

/-! ### The block descriptor handler, state by state -/
theorem blk_idle' (bc : Block.Config) (b : Block.State) (w : Block.In) (hb : b.fsm = .idle) :
    (Block.step bc b w).2 = Beat.quiet ∧ (Block.step bc b w).1.fsm = (if w.start then .start else .idle) := by
  simp [Block.step, hb, Block.quiet]

theorem blk_start (bc : Block.Config) (b : Block.State) (w : Block.In) (hb : b.fsm = .start) :
    ((Block.step bc b w).2 = Beat.quiet ∧ (Block.step bc b w).1.fsm = .lookupType ∧
        (Block.step bc b w).1.pos = w.startPos % 2 ^ bc.img.posW) ∨
    ((Block.step bc b w).2 = { Beat.quiet with stall := true } ∧ (Block.step bc b w).1.fsm = .idle) := by
  simp only [Block.step, hb, Block.quiet]
  split <;> simp

theorem blk_lookupType (bc : Block.Config) (b : Block.State) (w : Block.In) (hb : b.fsm = .lookupType) :
    ((Block.step bc b w).2 = Beat.quiet ∧ (Block.step bc b w).1.pos = b.pos ∧
        ((Block.step bc b w).1.fsm = .lookupDescriptor ∨ (Block.step bc b w).1.fsm = .sendZlp)) ∨
    ((Block.step bc b w).2 = { Beat.quiet with stall := true } ∧ (Block.step bc b w).1.fsm = .idle) := by
  simp only [Block.step, hb, Block.quiet]
  split <;> split <;> (try split) <;> simp

theorem blk_lookupDescriptor (bc : Block.Config) (b : Block.State) (w : Block.In) (hb : b.fsm = .lookupDescriptor) :
    (Block.step bc b w).2 = Beat.quiet ∧ (Block.step bc b w).1.pos = b.pos ∧
        ((Block.step bc b w).1.fsm = .sendDescriptor ∨ (Block.step bc b w).1.fsm = .sendZlp) := by
  simp only [Block.step, hb, Block.quiet, true_and]
  split <;> simp

theorem blk_sendZlp (bc : Block.Config) (b : Block.State) (w : Block.In) (hb : b.fsm = .sendZlp) :
    (Block.step bc b w).2 = ⟨true, false, true, 0, false⟩ ∧ (Block.step bc b w).1.fsm = .idle := by
  simp [Block.step, hb]

theorem blk_send (bc : Block.Config) (b : Block.State) (w : Block.In) (hb : b.fsm = .sendDescriptor) :
    (Block.step bc b w).2.valid = true ∧ (Block.step bc b w).2.stall = false ∧
    (Block.step bc b w).2.first = (b.pos == w.startPos) ∧
    (Block.step bc b w).1.fsm = (if w.ready && (Block.step bc b w).2.last then .idle else .sendDescriptor) := by
  simp only [Block.step, hb]
  cases w.ready <;> cases Block.onLast b <;> simp [hb]

/-! ### The serializer -/
theorem ser_idle (σ : SerState) (w : SerIn) (hq : σ.fsm = .idle) (h0 : w.startPosition = 0) :
    (serStep txCfg σ w).2.valid = false ∧ (serStep txCfg σ w).2.first = false ∧ (serStep txCfg σ w).2.last = false ∧
    (((serStep txCfg σ w).1.fsm = .idle) ∨
      (w.start = true ∧ (serStep txCfg σ w).1.fsm = .streaming ∧ (serStep txCfg σ w).1.pos = 0)) := by
  simp only [serStep, hq, h0, txCfg]
  cases w.start <;> by_cases h : w.maxLength > 0 <;> simp [h]

theorem ser_done (σ : SerState) (w : SerIn) (hq : σ.fsm = .done) :
    (serStep txCfg σ w).2.valid = false ∧ (serStep txCfg σ w).2.first = false ∧ (serStep txCfg σ w).2.last = false ∧
    (serStep txCfg σ w).1.fsm = .idle := by
  simp [serStep, hq]

theorem ser_stream (σ : SerState) (w : SerIn) (hq : σ.fsm = .streaming) (h0 : w.startPosition = 0) :
    (serStep txCfg σ w).2.valid = true ∧ (serStep txCfg σ w).2.first = (σ.pos == 0) ∧
    (serStep txCfg σ w).1.fsm = (if w.ready && (serStep txCfg σ w).2.last then .done else .streaming) := by
  simp only [serStep, hq, h0]
  simp

/-- The tokenizer's PID decode shows at most one of IN / OUT / SETUP / PING. -/
def pidExcl (i : CycIn) : Bool :=
  !(i.isIn && i.isOut) && !(i.isIn && i.isSetup) && !(i.isIn && i.isPing) && !(i.isOut && i.isSetup) &&
  !(i.isOut && i.isPing) && !(i.isSetup && i.isPing)

def drB (st : Stage) (tg rfr isIn : Bool) : Bool := st == .dataIn && (rfr && tg && isIn)
def srB (st : Stage) (tg rfr isIn rxr isOut : Bool) : Bool :=
  (st == .statusIn && (rfr && tg && isIn)) || (st == .statusOut && (rxr && tg && isOut))
def paB (st : Stage) (tg rfr isPing : Bool) : Bool := (st == .dataOut || st == .statusOut) && (tg && rfr && isPing)

theorem strobe_bool (st : Stage) : ∀ (tg rfr isIn isOut isSetup isPing rxr sd rc pul : Bool),
    ((tg && ((rfr && (isIn || isPing)) || (rxr && isOut))) = true → pul = true) →
    (sd = true → pul = true ∧ isSetup = true) → (rc = true → isSetup = true) →
    (!(isIn && isOut) && !(isIn && isSetup) && !(isIn && isPing) && !(isOut && isSetup) &&
      !(isOut && isPing) && !(isSetup && isPing)) = true →
    (pul = false → drB st tg rfr isIn = false ∧ srB st tg rfr isIn rxr isOut = false ∧ paB st tg rfr isPing = false ∧
        sd = false) ∧
    (drB st tg rfr isIn = true → srB st tg rfr isIn rxr isOut = false ∧ paB st tg rfr isPing = false ∧ sd = false ∧
        rc = false) ∧
    (srB st tg rfr isIn rxr isOut = true → paB st tg rfr isPing = false ∧ sd = false) ∧
    (sd = true → paB st tg rfr isPing = false) := by
  intro tg rfr isIn isOut isSetup isPing rxr sd rc pul h1 h2 h3 h4
  cases st <;> simp [drB, srB, paB] at * <;> grind

theorem strobe_facts (c : Cfg) (st : Stage) (i : CycIn) (pul : Bool)
    (e1 : ctlPulse c i = true → pul = true) (e2 : i.sdAck = true → pul = true ∧ i.isSetup = true)
    (e3 : i.received = true → i.isSetup = true) (e4 : pidExcl i = true) :
    (pul = false → (ctrlComb c st i).dataRequested = false ∧ (ctrlComb c st i).statusRequested = false ∧
        (ctrlComb c st i).pingAck = false ∧ i.sdAck = false) ∧
    ((ctrlComb c st i).dataRequested = true → (ctrlComb c st i).statusRequested = false ∧
        (ctrlComb c st i).pingAck = false ∧ i.sdAck = false ∧ i.received = false) ∧
    ((ctrlComb c st i).statusRequested = true → (ctrlComb c st i).pingAck = false ∧ i.sdAck = false) ∧
    (i.sdAck = true → (ctrlComb c st i).pingAck = false) :=
  strobe_bool st (targeted c i) i.readyForResponse i.isIn i.isOut i.isSetup i.isPing i.rxReady i.sdAck i.received pul
    e1 e2 e3 e4
end LunaVerif.CtrlCyc
