import LunaVerif.Lemmas.C39Wire
/-!
# C39 — the retry round completes (bounded liveness under a fair source / `lrty_pending`)

A *progress cycle* is one with `source.ready = 1` and `lrty_pending = 0`.  Potential of a state with `n`
headers of the round still to be latched: `20·n + 2·rank(raw transmitter) + offset(FSM state)` (0 when
`n = 0`).  It never increases and drops by at least one in every progress cycle (`pot_step`, from the
control-level `Ctl.phase_step`, one case per FSM state).  Hence a history after an LBAD without further
LBAD that contains `20·m + 20` progress cycles — in any arrangement, with arbitrary stalls in between — has
latched all `m` unacknowledged headers (`round_completes`).
-/
set_option linter.unusedSimpArgs false
namespace LunaVerif.PacketTx
open LunaVerif.HeaderRx (Hdr Bufs bufQ)

namespace Ctl

def off : Fsm → Nat
  | .dispatch => 1 | .waitSend => 3 | .waitRetry => 0 | .flush => 3
def phase (k : Ctl) (r : Nat) : Nat := 2 * r + off k.fsm

/-- how the rank of the raw transmitter (words still to go, 0 = idle) moves in a cycle -/
structure RankOk (k : Ctl) (v : Ev) (sr : Bool) (r r' : Nat) : Prop where
  idle0 : k.idle = true → r = 0
  busy1 : k.idle = false → 1 ≤ r
  le8 : r ≤ 8
  dnSr : v.dn = true → sr = true
  busyGo : k.idle = false → sr = true → r' < r
  busyStay : k.idle = false → sr = false → r' = r
  latch8 : latch k v = true → r' = 8
  idleStay : k.idle = true → latch k v = false → r' = 0
  dn0 : v.dn = true → r' = 0

/-- the statement of `phase_step` -/
def PhaseStep (k : Ctl) (v : Ev) (sr : Bool) (r r' : Nat) : Prop :=
  (latch k v = true → phase (k.step v) r' ≤ 16) ∧
  (latch k v = false → phase (k.step v) r' + (if sr && !v.lrty then 1 else 0) ≤ phase k r)

local macro "phase_go" k:ident v:ident h:ident o:ident q:ident hL:ident hp:ident hn:ident hb:ident hf:ident
    sr:ident : tactic =>
  `(tactic| (
    obtain ⟨fsm, idle, rpend, pts, paa, rp, ap⟩ := $k:ident
    obtain ⟨L, e, rt, dn, lrty, bring⟩ := $v:ident
    obtain ⟨h1, h2, h3, h4, h5, h6, h7⟩ := $h:ident
    obtain ⟨o1, o2, o3, o4, o5⟩ := $o:ident
    obtain ⟨q1, q2, q3, q4, q5, q6, q7, q8, q9⟩ := $q:ident
    simp only at $hf:ident $hL:ident $hp:ident $hb:ident
    subst $hf:ident $hL:ident $hp:ident $hb:ident
    simp only [PhaseStep, active, cur, nCur, latch, gen, toLatch] at *
    cases idle <;> cases e <;> cases rt <;> cases dn <;> cases lrty <;> cases $sr:ident <;>
      simp at h1 h2 h3 h4 h5 o1 o2 o4 o5 q1 q2 q4 q5 q6 q7 q8 q9 $hn:ident ⊢ <;>
      (simp [step, gen, deq, active, cur, nCur, toLatch, latch, phase] <;> (repeat' split) <;>
        (try simp only [off] at *) <;> (first | omega | (simp_all <;> omega)))))

theorem phase_step_dispatch {k : Ctl} {v : Ev} {sr : Bool} {r r' : Nat} (h : Inv k) (o : EvOk k v)
    (q : RankOk k v sr r r') (hL : v.L = false) (hp : k.rpend = true) (hn : 1 ≤ toLatch k) (hb : v.bring = true)
    (hf : k.fsm = .dispatch) : PhaseStep k v sr r r' := by
  phase_go k v h o q hL hp hn hb hf sr

theorem phase_step_waitSend {k : Ctl} {v : Ev} {sr : Bool} {r r' : Nat} (h : Inv k) (o : EvOk k v)
    (q : RankOk k v sr r r') (hL : v.L = false) (hp : k.rpend = true) (hn : 1 ≤ toLatch k) (hb : v.bring = true)
    (hf : k.fsm = .waitSend) : PhaseStep k v sr r r' := by
  phase_go k v h o q hL hp hn hb hf sr

theorem phase_step_waitRetry {k : Ctl} {v : Ev} {sr : Bool} {r r' : Nat} (h : Inv k) (o : EvOk k v)
    (q : RankOk k v sr r r') (hL : v.L = false) (hp : k.rpend = true) (hn : 1 ≤ toLatch k) (hb : v.bring = true)
    (hf : k.fsm = .waitRetry) : PhaseStep k v sr r r' := by
  phase_go k v h o q hL hp hn hb hf sr

theorem phase_step_flush {k : Ctl} {v : Ev} {sr : Bool} {r r' : Nat} (h : Inv k) (o : EvOk k v)
    (q : RankOk k v sr r r') (hL : v.L = false) (hp : k.rpend = true) (hn : 1 ≤ toLatch k) (hb : v.bring = true)
    (hf : k.fsm = .flush) : PhaseStep k v sr r r' := by
  phase_go k v h o q hL hp hn hb hf sr

/-- With a retry pending and a header still to be latched: a latch leaves phase ≤ 16; without a latch the
phase does not grow and shrinks in a progress cycle. -/
theorem phase_step {k : Ctl} {v : Ev} {sr : Bool} {r r' : Nat} (h : Inv k) (o : EvOk k v) (q : RankOk k v sr r r')
    (hL : v.L = false) (hp : k.rpend = true) (hn : 1 ≤ toLatch k) (hb : v.bring = true) :
    PhaseStep k v sr r r' := by
  cases hf : k.fsm
  · exact phase_step_dispatch h o q hL hp hn hb hf
  · exact phase_step_waitSend h o q hL hp hn hb hf
  · exact phase_step_waitRetry h o q hL hp hn hb hf
  · exact phase_step_flush h o q hL hp hn hb hf

end Ctl

def rawRank : Raw → Nat
  | .idle => 0 | .abortDpp => 1 | .finishDpp => 1 | .sendCrc => 2 | .startDpp => 3 | .dw3 => 4
  | .dw2 => 5 | .dw1 => 6 | .dw0 => 7 | .hpstart => 8

theorem rankOk (c : Config) (s : State) (i : In) :
    Ctl.RankOk (ctlOf s) (evOf s i) i.srcReady (rawRank s.raw) (rawRank (step c s i).1.raw) := by
  have hl := latch_eq s i
  constructor <;> (try rw [← hl]) <;>
    cases hr : s.raw <;> cases hs : i.srcReady <;> cases hg : generate s i <;> cases hd : s.rHdr.isData <;>
      cases hdl : s.rHdr.delayed <;>
      simp [ctlOf, evOf, step_raw, rawNext, rawDone, latch, rawRank, hr, hs, hg, hd, hdl]

/-- potential: 0 when the round is empty -/
def pot (s : State) (n : Nat) : Nat := if n = 0 then 0 else 20 * n + (ctlOf s).phase (rawRank s.raw)
def prog (i : In) : Nat := if i.srcReady && !i.lrtyPending then 1 else 0
/-- number of progress cycles (`source.ready` and no `lrty_pending`) of a history -/
def progress : List In → Nat
  | [] => 0
  | i :: is => prog i + progress is

theorem pot_le (s : State) (n : Nat) : pot s n ≤ 20 * n + 19 := by
  unfold pot Ctl.phase
  have : rawRank s.raw ≤ 8 := by cases s.raw <;> simp [rawRank]
  have : Ctl.off (ctlOf s).fsm ≤ 3 := by cases (ctlOf s).fsm <;> simp [Ctl.off]
  split <;> omega

theorem pot_step {c : Config} {s : State} {g : Ghost} {i : In} {pend : List Hdr} (hi : InvR s g)
    (e : EnvStepR s g i) (r : Round s g pend) (hL : retryRequired s = false) (hne : pend ≠ []) :
    pot (step c s i).1 (if latch s i then pend.tail else pend).length + prog i ≤ pot s pend.length := by
  have o := evOk_of hi.inv e
  have hlen := toLatchList_length hi
  obtain ⟨new, hs⟩ := r.split
  have hpos : 1 ≤ pend.length := by cases pend with
    | nil => exact absurd rfl hne
    | cons => simp
  have hn : 1 ≤ (ctlOf s).toLatch := by
    rw [← hlen, hs, List.length_append]; omega
  have hb : s.bringup = true := by
    rcases Bool.eq_false_or_eq_true s.bringup with hb | hb
    · exact hb
    · have := (hi.inv.hnob hb).1
      have h2 := toLatch_le hi
      rw [this] at h2; simp at h2; omega
  obtain ⟨p1, p2⟩ := Ctl.phase_step hi.ctl o (rankOk c s i) hL (r.rpend hne) hn hb
  rw [← ctlOf_step c s i e.env.en, ← latch_eq] at p1 p2
  have hlr : (evOf s i).lrty = i.lrtyPending := rfl
  rw [hlr] at p2
  have hpl := pot_le s pend.length
  rcases Bool.eq_false_or_eq_true (latch s i) with hl | hl
  · have p := p1 hl
    simp only [hl, if_true, List.length_tail]
    unfold pot prog
    split <;> split <;> split <;> omega
  · have p := p2 hl
    simp only [hl, Bool.false_eq_true, if_false]
    unfold pot prog
    split <;> split <;> simp_all <;> omega

/-- no LBAD in any cycle of the history -/
def NoLbad (c : Config) : State → List In → Prop
  | _, [] => True
  | s, i :: is => retryRequired s = false ∧ NoLbad c (step c s i).1 is

/-- **the round completes**: enough progress cycles latch the whole round -/
theorem live_run (c : Config) (ins : List In) : ∀ (s : State) (g : Ghost) (pend : List Hdr),
    InvR s g → Round s g pend → RoundEnv c s g ins → NoLbad c s ins →
    pot s pend.length ≤ progress ins → pend.length ≤ (latches c s ins).length := by
  induction ins with
  | nil =>
    intro s g pend _ _ _ _ hp
    simp only [progress] at hp
    unfold pot at hp
    simp only [latches, List.length_nil]
    split at hp <;> omega
  | cons i is ih =>
    intro s g pend hi r ⟨e, _, henv⟩ ⟨hL, hnl⟩ hp
    by_cases hne : pend = []
    · simp [hne]
    · have hstep := pot_step (c := c) hi e r hL hne
      have hr' := round_step (c := c) hi e r hL
      have := ih _ _ _ (invR_step hi e) hr' henv hnl (by simp only [progress] at hp; omega)
      simp only [latches, List.length_append]
      rcases Bool.eq_false_or_eq_true (latch s i) with hl | hl
      · simp only [hl, if_true, List.length_tail, List.length_singleton] at this ⊢; omega
      · simp only [hl, Bool.false_eq_true, if_false, List.length_nil] at this ⊢; omega

def decNoLbad (c : Config) : (s : State) → (ins : List In) → Decidable (NoLbad c s ins)
  | _, [] => isTrue trivial
  | s, i :: is =>
    match (inferInstance : Decidable (retryRequired s = false)), decNoLbad c (step c s i).1 is with
    | isTrue a, isTrue b => isTrue ⟨a, b⟩
    | isFalse a, _ => isFalse (fun h => a h.1)
    | _, isFalse b => isFalse (fun h => b h.2)
instance (c : Config) (s : State) (ins : List In) : Decidable (NoLbad c s ins) := decNoLbad c s ins

/-- **C39 (4), completion**: if, after the LBAD, no further LBAD arrives and the history contains at least
`20·m + 20` progress cycles (cycles with `source.ready` and without `lrty_pending`, spread arbitrarily), then
the first m headers handed to the raw transmitter after the LBAD cycle are exactly the m unacknowledged
headers, in order, each with the delayed bit. -/
theorem lbad_round_completes (c : Config) (pre : List In) (i0 : In) (post : List In)
    (henv : EnvOkR c init Ghost.init (pre ++ [i0]))
    (hL : retryRequired (runG c init Ghost.init pre).1 = true) :
    let r0 := runG c init Ghost.init pre
    let s1 := (step c r0.1 i0).1
    let g1 := ghostStep r0.1 i0 r0.2
    let unacked := g1.taken.drop g1.retired
    RoundEnv c s1 g1 post → NoLbad c s1 post → 20 * unacked.length + 20 ≤ progress post →
    (latches c s1 post).take unacked.length = unacked.map dl := by
  intro r0 s1 g1 unacked hpost hnl hprog
  obtain ⟨e1, e2⟩ := EnvOkR.append henv
  have hi : InvR r0.1 r0.2 := invR_run c pre _ _ invR_init e1
  have hi1 : InvR s1 g1 := invR_step hi e2.1
  have hr : Round s1 g1 unacked := round_start hi e2.1 hL
  have hlen := live_run c post s1 g1 unacked hi1 hr hpost hnl (by have := pot_le s1 unacked.length; omega)
  have hpre := round_run c post s1 g1 unacked hi1 hr hpost
  exact hpre.eq_of_length (by simp [List.length_take]; omega)

example : let r0 := runG ⟨201, 256⟩ init Ghost.init retryPre
    NoLbad ⟨201, 256⟩ (step ⟨201, 256⟩ r0.1 idleIn).1 (retryPost ++ List.replicate 30 idleIn) ∧
    20 * 2 + 20 ≤ progress (retryPost ++ List.replicate 30 idleIn) := by
  decide +kernel

end LunaVerif.PacketTx
