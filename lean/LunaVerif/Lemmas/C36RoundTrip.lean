import LunaVerif.Lemmas.C36Frame
import LunaVerif.Model.Usb3.HeaderRx
import LunaVerif.Props.C40
/-!
# C36 — `rx_of_tx`: the frame, received by the link-layer receiver models

The words of `frame hdr payload` (`Lemmas/C36Frame.lean`; `tx_emits_frame` proves that these are the
words the transmitter puts on the wire) are fed to

* `HeaderRx.RawRx` — the model of `RawHeaderPacketReceiver` (C37), and
* `DataPacketReceiver` — the model of `DataPacketReceiver` (C40, after its repairs),

both starting from reset.  Result: the header receiver delivers exactly the header that was sent
(`new_packet`, `packet` = DWORD 0..3), the data receiver publishes the same header, delivers exactly
the payload bytes, and raises `packet_good` once and `packet_bad` never.
-/
namespace LunaVerif.RoundTrip

open LunaVerif.RawPacketTransmitter (Header frame dppFrame dppTail closing specDw3 headerFrame le4
  sinkWords dppSyms pack)


/-- DWORD 3 as sent. -/
def dw3Of (h : Header) : Nat := specDw3 h.dw0 h.dw1 h.dw2 h.lcw

/-! ## DWORD 3 field arithmetic -/

theorem crc16_lt (ws : List Nat) : RawPacketTransmitter.crc16Of ws < 2 ^ 16 := Crc.usb3Crc16_lt _
theorem crc5_lt (d : Nat) : RawPacketTransmitter.crc5Of d < 2 ^ 5 := Crc.usb3Crc5_lt _

theorem dw3_fields (h : Header) (hl : h.lcw < 2 ^ 11) :
    dw3Of h < 2 ^ 32 ∧ dw3Of h % 2 ^ 16 = RawPacketTransmitter.crc16Of [h.dw0, h.dw1, h.dw2] ∧
    dw3Of h / 2 ^ 16 % 2 ^ 11 = h.lcw ∧ dw3Of h / 2 ^ 27 = RawPacketTransmitter.crc5Of h.lcw ∧
    dw3Of h / 2 ^ 27 % 32 = RawPacketTransmitter.crc5Of h.lcw ∧ dw3Of h / 2 ^ 16 % 8 = h.lcw % 8 := by
  have h16 := crc16_lt [h.dw0, h.dw1, h.dw2]
  have h5 := crc5_lt h.lcw
  simp only [dw3Of, specDw3]
  generalize RawPacketTransmitter.crc16Of [h.dw0, h.dw1, h.dw2] = c16 at h16
  generalize RawPacketTransmitter.crc5Of h.lcw = c5 at h5
  omega

/-! ## the data receiver over the payload part -/

def rxIn (w : Nat × Nat) : DataPacketReceiver.In := ⟨true, w.1, w.2⟩
def rxIns (ws : List (Nat × Nat)) : List DataPacketReceiver.In := ws.map rxIn

/-- What the data receiver is to do with the rest of a packet: deliver exactly `bytes`, raise exactly
one verdict, never `bad`, and be back in WAIT_FOR_HPSTART with the published header untouched. -/
def Delivers (s : DataPacketReceiver.State) (ins : List DataPacketReceiver.In) (bytes : List Nat) : Prop :=
  DataPacketReceiver.allLaneBytes (DataPacketReceiver.run s ins) = bytes ∧ DataPacketReceiver.countVerdicts (DataPacketReceiver.run s ins) = 1 ∧
  (∀ o ∈ DataPacketReceiver.run s ins, o.bad = false) ∧ (DataPacketReceiver.final s ins).fsm = .waitHp ∧
  (DataPacketReceiver.final s ins).outHdr = s.outHdr

theorem delivers_cons (s : DataPacketReceiver.State) (i : DataPacketReceiver.In) (ins : List DataPacketReceiver.In) (b1 b2 : List Nat)
    (h1 : DataPacketReceiver.laneBytes (DataPacketReceiver.step s i).2 = b1) (h2 : DataPacketReceiver.verdict (DataPacketReceiver.step s i).2 = false)
    (h3 : (DataPacketReceiver.step s i).1.outHdr = s.outHdr) (hn : Delivers (DataPacketReceiver.step s i).1 ins b2) :
    Delivers s (i :: ins) (b1 ++ b2) := by
  obtain ⟨n1, n2, n3, n4, n5⟩ := hn
  have hb : (DataPacketReceiver.step s i).2.bad = false := by
    simp only [DataPacketReceiver.verdict, Bool.or_eq_false_iff] at h2; exact h2.2
  refine ⟨?_, ?_, ?_, ?_, ?_⟩
  · simp [DataPacketReceiver.run, DataPacketReceiver.allLaneBytes, h1, n1]
  · simp [DataPacketReceiver.run, DataPacketReceiver.countVerdicts, h2, n2, DataPacketReceiver.b2n]
  · intro o ho
    simp only [DataPacketReceiver.run, List.mem_cons] at ho
    rcases ho with ho | ho
    · rw [ho]; exact hb
    · exact n3 o ho
  · simpa [DataPacketReceiver.final] using n4
  · simp only [DataPacketReceiver.final]; rw [n5, h3]

/-- The CRC word and the closing word, received in CHECK_CRC32: `good` iff the field matches; the
closing word (whatever it is, as long as it is not a header start) is ignored. -/
theorem delivers_check (s : DataPacketReceiver.State) (hs : s.fsm = .checkCrc) (cw cc fw fc : Nat)
    (hok : DataPacketReceiver.dataToCheck s.prevValid s.prevWord (cw % 2 ^ 32) = DataPacketReceiver.crc32Of s.crc32In)
    (hf : ¬ (fw % 2 ^ 32 = DataPacketReceiver.HPSTART ∧ fc % 16 = 0xF)) :
    Delivers s [⟨true, cw, cc⟩, ⟨true, fw, fc⟩] [] := by
  obtain ⟨f, hh, e, r, pw, pv, c16, c32, oh, nh, fi⟩ := s
  simp only at hs hok; subst hs
  have hf' : (fw % 2 ^ 32 == DataPacketReceiver.HPSTART && fc % 16 == 0xF) = false := by
    cases h1 : (fw % 2 ^ 32 == DataPacketReceiver.HPSTART) <;> cases h2 : (fc % 16 == 0xF) <;> simp_all
  refine ⟨?_, ?_, ?_, ?_, ?_⟩
  · simp [DataPacketReceiver.run, DataPacketReceiver.step, DataPacketReceiver.quiet, DataPacketReceiver.allLaneBytes, DataPacketReceiver.laneBytes]
  · simp [DataPacketReceiver.run, DataPacketReceiver.step, DataPacketReceiver.quiet, DataPacketReceiver.countVerdicts, DataPacketReceiver.verdict, hok, DataPacketReceiver.b2n]
  · simp [DataPacketReceiver.run, DataPacketReceiver.step, DataPacketReceiver.quiet, hok]
  · simp [DataPacketReceiver.final, DataPacketReceiver.step, hf']
  · simp [DataPacketReceiver.final, DataPacketReceiver.step]

theorem payload_keeps_hdr (s : DataPacketReceiver.State) (hs : s.fsm = .payload) (i : DataPacketReceiver.In) :
    (DataPacketReceiver.step s i).1.outHdr = s.outHdr := by
  obtain ⟨f, hh, e, r, pw, pv, c16, c32, oh, nh, fi⟩ := s
  simp only at hs; subst hs
  obtain ⟨v, d, c⟩ := i
  cases v <;> simp [DataPacketReceiver.step]

/-- The last payload word (`k` = 1..4 payload bytes, then the beginning of the CRC), the CRC word and
the closing word, received with `k` bytes remaining. -/
theorem delivers_closing (k pv pw crc : Nat) (bytes : List Nat) (s : DataPacketReceiver.State)
    (hs : s.fsm = .payload) (hr : s.remaining = k) (hk1 : 1 ≤ k) (hk4 : k ≤ 4)
    (hd : RawPacketTransmitter.lastWordData pv pw crc < 2 ^ 32)
    (hbytes : (DataPacketReceiver.wordBytes (RawPacketTransmitter.lastWordData pv pw crc)).take k = bytes)
    (hcrc : DataPacketReceiver.crc32Of (s.crc32In ++ bytes) = crc)
    (hchk : DataPacketReceiver.dataToCheck (2 ^ k - 1) (RawPacketTransmitter.lastWordData pv pw crc)
      ((RawPacketTransmitter.crcWord pv crc).1 % 2 ^ 32) = crc)
    (hfin : ¬ ((RawPacketTransmitter.finishWord pv).1 % 2 ^ 32 = DataPacketReceiver.HPSTART ∧
      (RawPacketTransmitter.finishWord pv).2 % 16 = 0xF)) :
    Delivers s (rxIns (closing pv pw crc)) bytes := by
  have hmin : min s.remaining 4 = k := by omega
  have hclean : 0 % 16 % 2 ^ (min s.remaining 4) = 0 := by simp
  obtain ⟨p1, p2, _, p4, p5, p6, _, p8⟩ :=
    DataPacketReceiver.payload_word s hs (RawPacketTransmitter.lastWordData pv pw crc) 0 hd (by omega) hclean
  rw [hmin] at p1 p4 p6
  have hn := delivers_check (DataPacketReceiver.step s ⟨true, RawPacketTransmitter.lastWordData pv pw crc, 0⟩).1
    (p8 (by omega)) (RawPacketTransmitter.crcWord pv crc).1 (RawPacketTransmitter.crcWord pv crc).2
    (RawPacketTransmitter.finishWord pv).1 (RawPacketTransmitter.finishWord pv).2
    (by rw [p5, p6, p4, hbytes, hcrc]; exact hchk) hfin
  have := delivers_cons s ⟨true, RawPacketTransmitter.lastWordData pv pw crc, 0⟩ _ bytes []
    (by rw [p1, hbytes]) p2 (payload_keeps_hdr s hs _) hn
  simpa [rxIns, rxIn, closing] using this

theorem crc32Of_eq (bytes : List Nat) : DataPacketReceiver.crc32Of bytes = RawPacketTransmitter.crc32Of bytes := rfl

/-- **The data receiver over the payload part, every length**: from RECEIVE_PAYLOAD with
`remaining = rest.length ≥ 1` and the CRC unit holding `acc`, the words `dppTail acc rest` deliver
exactly `rest`, one verdict, never `bad`. -/
theorem delivers_tail (acc rest : List Nat) (hne : rest ≠ []) (hb : ∀ x ∈ rest, x < 256)
    (s : DataPacketReceiver.State) (hs : s.fsm = .payload) (hr : s.remaining = rest.length)
    (hc : s.crc32In = acc) : Delivers s (rxIns (dppTail acc rest)) rest := by
  fun_induction dppTail acc rest generalizing s with
  | case1 => exact absurd rfl hne
  | case2 acc a =>
    have h1 := hb a (by simp)
    have hcl := RawPacketTransmitter.crc32Of_lt (acc ++ [a])
    refine delivers_closing 1 1 a _ [a] s hs hr (by omega) (by omega) ?_ ?_ (by rw [hc]; rfl) ?_ (by decide)
    all_goals generalize RawPacketTransmitter.crc32Of (acc ++ [a]) = crc at hcl
    · simp [RawPacketTransmitter.lastWordData]; omega
    · simp [RawPacketTransmitter.lastWordData, DataPacketReceiver.wordBytes]; omega
    · simp [RawPacketTransmitter.lastWordData, RawPacketTransmitter.crcWord, DataPacketReceiver.dataToCheck,
        RawPacketTransmitter.END]; omega
  | case3 acc a b =>
    have h1 := hb a (by simp); have h2 := hb b (by simp)
    have hcl := RawPacketTransmitter.crc32Of_lt (acc ++ [a, b])
    refine delivers_closing 2 3 (a + 256 * b) _ [a, b] s hs hr (by omega) (by omega) ?_ ?_ (by rw [hc]; rfl) ?_
      (by decide)
    all_goals generalize RawPacketTransmitter.crc32Of (acc ++ [a, b]) = crc at hcl
    · simp [RawPacketTransmitter.lastWordData]; omega
    · simp [RawPacketTransmitter.lastWordData, DataPacketReceiver.wordBytes]; omega
    · simp [RawPacketTransmitter.lastWordData, RawPacketTransmitter.crcWord, DataPacketReceiver.dataToCheck,
        RawPacketTransmitter.END]; omega
  | case4 acc a b c =>
    have h1 := hb a (by simp); have h2 := hb b (by simp); have h3 := hb c (by simp)
    have hcl := RawPacketTransmitter.crc32Of_lt (acc ++ [a, b, c])
    refine delivers_closing 3 7 (a + 256 * b + 65536 * c) _ [a, b, c] s hs hr (by omega) (by omega) ?_ ?_
      (by rw [hc]; rfl) ?_ (by decide)
    all_goals generalize RawPacketTransmitter.crc32Of (acc ++ [a, b, c]) = crc at hcl
    · simp [RawPacketTransmitter.lastWordData]; omega
    · simp [RawPacketTransmitter.lastWordData, DataPacketReceiver.wordBytes]; omega
    · simp [RawPacketTransmitter.lastWordData, RawPacketTransmitter.crcWord, DataPacketReceiver.dataToCheck,
        RawPacketTransmitter.END]; omega
  | case5 acc a b c d =>
    have h1 := hb a (by simp); have h2 := hb b (by simp); have h3 := hb c (by simp); have h4 := hb d (by simp)
    have hcl := RawPacketTransmitter.crc32Of_lt (acc ++ [a, b, c, d])
    refine delivers_closing 4 15 (le4 a b c d) _ [a, b, c, d] s hs hr (by omega) (by omega) ?_ ?_
      (by rw [hc]; rfl) ?_ (by decide)
    all_goals generalize RawPacketTransmitter.crc32Of (acc ++ [a, b, c, d]) = crc at hcl
    · simp [RawPacketTransmitter.lastWordData, le4]; omega
    · simp [RawPacketTransmitter.lastWordData, DataPacketReceiver.wordBytes, le4]; omega
    · simp [RawPacketTransmitter.crcWord, DataPacketReceiver.dataToCheck]; omega
  | case6 acc a b c d e rest ih =>
    have h1 := hb a (by simp); have h2 := hb b (by simp); have h3 := hb c (by simp); have h4 := hb d (by simp)
    have hd : le4 a b c d < 2 ^ 32 := by simp only [le4]; omega
    have hrem : s.remaining = (e :: rest).length + 4 := by simpa using hr
    have hmin : min s.remaining 4 = 4 := by omega
    have hclean : 0 % 16 % 2 ^ (min s.remaining 4) = 0 := by simp
    obtain ⟨p1, p2, _, p4, _, _, p7, _⟩ := DataPacketReceiver.payload_word s hs (le4 a b c d) 0 hd (by omega) hclean
    rw [hmin] at p1 p4
    have hbig : 4 < s.remaining := by rw [hrem]; simp
    obtain ⟨q1, q2⟩ := p7 hbig
    have hwb : (DataPacketReceiver.wordBytes (le4 a b c d)).take 4 = [a, b, c, d] := by
      have := RawPacketTransmitter.wordBytes_le4 a b c d h1 h2 h3 h4
      simp only [RawPacketTransmitter.wordBytes] at this
      simp [DataPacketReceiver.wordBytes, this]
    have hn := ih (by simp)
      (fun x hx => hb x (List.mem_cons_of_mem _ (List.mem_cons_of_mem _ (List.mem_cons_of_mem _ (List.mem_cons_of_mem _ hx)))))
      (DataPacketReceiver.step s ⟨true, le4 a b c d, 0⟩).1 q1 (by rw [q2, hrem]; simp) (by rw [p4, hwb, hc])
    have := delivers_cons s ⟨true, le4 a b c d, 0⟩ _ [a, b, c, d] (e :: rest) (by rw [p1, hwb]) p2
      (payload_keeps_hdr s hs _) hn
    simpa [rxIns, rxIn] using this

/-! ## the data receiver over the header part -/

theorem dpr_run_append (s : DataPacketReceiver.State) (a b : List DataPacketReceiver.In) :
    DataPacketReceiver.run s (a ++ b) = DataPacketReceiver.run s a ++ DataPacketReceiver.run (DataPacketReceiver.final s a) b := by
  induction a generalizing s with
  | nil => rfl
  | cons i is ih => simp [DataPacketReceiver.run, DataPacketReceiver.final, ih]

theorem dpr_final_append (s : DataPacketReceiver.State) (a b : List DataPacketReceiver.In) :
    DataPacketReceiver.final s (a ++ b) = DataPacketReceiver.final (DataPacketReceiver.final s a) b := by
  induction a generalizing s with
  | nil => rfl
  | cons i is ih => simp [DataPacketReceiver.final, ih]

theorem allLaneBytes_append (a b : List DataPacketReceiver.Out) :
    DataPacketReceiver.allLaneBytes (a ++ b) = DataPacketReceiver.allLaneBytes a ++ DataPacketReceiver.allLaneBytes b := by
  induction a with
  | nil => rfl
  | cons o os ih => simp [DataPacketReceiver.allLaneBytes, ih]

theorem countVerdicts_append (a b : List DataPacketReceiver.Out) :
    DataPacketReceiver.countVerdicts (a ++ b) = DataPacketReceiver.countVerdicts a + DataPacketReceiver.countVerdicts b := by
  induction a with
  | nil => simp [DataPacketReceiver.countVerdicts]
  | cons o os ih => simp [DataPacketReceiver.countVerdicts, ih]; omega

/-- The header as the receivers publish it. -/
def dprHdr (h : Header) : DataPacketReceiver.Hdr := ⟨h.dw0, h.dw1, h.dw2, dw3Of h⟩

/-- The state of the data receiver after HPSTART, DWORD 0..3 and DPPSTART of a DATA header, from reset. -/
def afterDppStart (h : Header) : DataPacketReceiver.State :=
  let len := h.dw1 / 2 ^ 16 % 2 ^ 11
  ⟨if len == 0 then .checkCrc else .payload, dprHdr h, RawPacketTransmitter.crc5Of h.lcw, len, 0,
   if len == 0 then 15 else 0, [h.dw0, h.dw1, h.dw2], [], dprHdr h, true, true⟩

def hdrIns (h : Header) : List DataPacketReceiver.In :=
  rxIns (headerFrame h.dw0 h.dw1 h.dw2 h.lcw ++ [(RawPacketTransmitter.DPPSTART, 0xF)])

/-- **Header phase of the data receiver**: the six words are consumed silently, both header CRCs are
found valid, the header is published and the byte counter loaded with the length field. -/
theorem dpr_header (h : Header) (hw : h.wf) (hty : h.dw0 % 32 = 8) :
    DataPacketReceiver.final DataPacketReceiver.init (hdrIns h) = afterDppStart h ∧
    DataPacketReceiver.allLaneBytes (DataPacketReceiver.run DataPacketReceiver.init (hdrIns h)) = [] ∧
    DataPacketReceiver.countVerdicts (DataPacketReceiver.run DataPacketReceiver.init (hdrIns h)) = 0 ∧
    (∀ o ∈ DataPacketReceiver.run DataPacketReceiver.init (hdrIns h), o.bad = false) := by
  obtain ⟨w0, w1, w2, w3⟩ := hw
  obtain ⟨f0, f1, f2, f3, _, _⟩ := dw3_fields h w3
  have m0 : h.dw0 % 2 ^ 32 = h.dw0 := Nat.mod_eq_of_lt w0
  have m1 : h.dw1 % 2 ^ 32 = h.dw1 := Nat.mod_eq_of_lt w1
  have m2 : h.dw2 % 2 ^ 32 = h.dw2 := Nat.mod_eq_of_lt w2
  have m3 : dw3Of h % 2 ^ 32 = dw3Of h := Nat.mod_eq_of_lt f0
  have e16 : DataPacketReceiver.crc16Of [h.dw0, h.dw1, h.dw2] = RawPacketTransmitter.crc16Of [h.dw0, h.dw1, h.dw2] := rfl
  have e5 : ∀ x, DataPacketReceiver.crc5Of x = RawPacketTransmitter.crc5Of x := fun _ => rfl
  have t0 : (h.dw0 % 32 != DataPacketReceiver.TYPE_DATA) = false := by simp [hty, DataPacketReceiver.TYPE_DATA]
  have hd3 : specDw3 h.dw0 h.dw1 h.dw2 h.lcw = dw3Of h := rfl
  refine ⟨?_, ?_, ?_, ?_⟩
  · simp only [hdrIns, rxIns, rxIn, headerFrame, List.map_cons, List.map_nil, List.cons_append, List.nil_append,
      DataPacketReceiver.final, DataPacketReceiver.init, afterDppStart, dprHdr, hd3]
    simp [DataPacketReceiver.step, DataPacketReceiver.HPSTART, RawPacketTransmitter.HPSTART,
      RawPacketTransmitter.DPPSTART, DataPacketReceiver.DPPSTART, m0, m1, m2, m3, t0, f1, f2, f3, e16, e5]
    split <;> simp_all
  · simp only [hdrIns, rxIns, rxIn, headerFrame, List.map_cons, List.map_nil, List.cons_append, List.nil_append,
      DataPacketReceiver.run, DataPacketReceiver.init, hd3]
    simp [DataPacketReceiver.step, DataPacketReceiver.HPSTART, RawPacketTransmitter.HPSTART,
      RawPacketTransmitter.DPPSTART, DataPacketReceiver.DPPSTART, m0, m1, m2, m3, t0, f1, f2, f3, e16, e5,
      DataPacketReceiver.allLaneBytes, DataPacketReceiver.laneBytes, DataPacketReceiver.quiet]
    split <;> simp [DataPacketReceiver.wordBytes]
  · simp only [hdrIns, rxIns, rxIn, headerFrame, List.map_cons, List.map_nil, List.cons_append, List.nil_append,
      DataPacketReceiver.run, DataPacketReceiver.init, hd3]
    simp [DataPacketReceiver.step, DataPacketReceiver.HPSTART, RawPacketTransmitter.HPSTART,
      RawPacketTransmitter.DPPSTART, DataPacketReceiver.DPPSTART, m0, m1, m2, m3, t0, f1, f2, f3, e16, e5,
      DataPacketReceiver.countVerdicts, DataPacketReceiver.verdict, DataPacketReceiver.quiet, DataPacketReceiver.b2n]
    split <;> simp
  · simp only [hdrIns, rxIns, rxIn, headerFrame, List.map_cons, List.map_nil, List.cons_append, List.nil_append,
      DataPacketReceiver.run, DataPacketReceiver.init, hd3]
    simp [DataPacketReceiver.step, DataPacketReceiver.HPSTART, RawPacketTransmitter.HPSTART,
      RawPacketTransmitter.DPPSTART, DataPacketReceiver.DPPSTART, m0, m1, m2, m3, t0, f1, f2, f3, e16, e5,
      DataPacketReceiver.quiet]
    split <;> simp

theorem rxIns_append (a b : List (Nat × Nat)) : rxIns (a ++ b) = rxIns a ++ rxIns b := by simp [rxIns]

/-- The data receiver over the part after DPPSTART (payload words, CRC, closing word). -/
theorem delivers_payload_part (h : Header) (payload : List Nat) (hb : ∀ x ∈ payload, x < 256)
    (hlen : payload.length = h.dw1 / 2 ^ 16 % 2 ^ 11) :
    Delivers (afterDppStart h) (rxIns (pack (dppSyms payload))) payload := by
  by_cases hemp : payload = []
  · subst hemp
    have hl0 : h.dw1 / 2 ^ 16 % 2 ^ 11 = 0 := by simpa using hlen.symm
    rw [RawPacketTransmitter.pack_dppSyms_nil]
    have hc := RawPacketTransmitter.crc32Of_lt []
    have := delivers_check (afterDppStart h) (by simp [afterDppStart, hl0]) (RawPacketTransmitter.crc32Of []) 0
      RawPacketTransmitter.DPPEND 0xF
      (by simp [afterDppStart, hl0, DataPacketReceiver.dataToCheck, crc32Of_eq]; omega) (by decide)
    simpa [rxIns, rxIn] using this
  · have hl0 : h.dw1 / 2 ^ 16 % 2 ^ 11 ≠ 0 := by
      rw [← hlen]; intro hz; exact hemp (List.length_eq_zero_iff.mp hz)
    have hl0' : (h.dw1 / 2 ^ 16 % 2 ^ 11 == 0) = false := by simpa using hl0
    have hp : pack (dppSyms payload) = dppTail [] payload := by
      rw [RawPacketTransmitter.dppTail_eq_pack [] payload hemp hb]; rfl
    rw [hp]
    exact delivers_tail [] payload hemp hb (afterDppStart h) (by simp [afterDppStart, hl0'])
      (by simp [afterDppStart, hlen]) (by simp [afterDppStart])

/-- **The data receiver over the whole frame, from reset** (DATA header, not delayed, length field =
number of payload bytes): exactly the payload bytes are delivered, exactly one verdict is raised and it
is not `bad` (so it is `good`), the published header is the header sent, the receiver is back in
WAIT_FOR_HPSTART. -/
theorem dpr_of_frame (h : Header) (payload : List Nat) (hw : h.wf) (hb : ∀ x ∈ payload, x < 256)
    (hty : h.dw0 % 32 = 8) (hnd : h.lcw / 2 ^ 9 % 2 = 0) (hlen : payload.length = h.dw1 / 2 ^ 16 % 2 ^ 11) :
    DataPacketReceiver.allLaneBytes (DataPacketReceiver.run DataPacketReceiver.init (rxIns (frame h payload))) = payload ∧
    DataPacketReceiver.countVerdicts (DataPacketReceiver.run DataPacketReceiver.init (rxIns (frame h payload))) = 1 ∧
    (∀ o ∈ DataPacketReceiver.run DataPacketReceiver.init (rxIns (frame h payload)), o.bad = false) ∧
    (DataPacketReceiver.final DataPacketReceiver.init (rxIns (frame h payload))).outHdr = dprHdr h ∧
    (DataPacketReceiver.final DataPacketReceiver.init (rxIns (frame h payload))).fsm = .waitHp := by
  have hdat : h.isData = true := by simp [Header.isData]; omega
  have hdel : h.delayed = false := by simp [Header.delayed]; omega
  have hfr : frame h payload = (headerFrame h.dw0 h.dw1 h.dw2 h.lcw ++ [(RawPacketTransmitter.DPPSTART, 0xF)]) ++
      pack (dppSyms payload) := by
    simp [frame, hdat, hdel]
  obtain ⟨a1, a2, a3, a4⟩ := dpr_header h hw hty
  have hD := delivers_payload_part h payload hb hlen
  obtain ⟨d1, d2, d3, d4, d5⟩ := hD
  have hI : rxIns (frame h payload) = hdrIns h ++ rxIns (pack (dppSyms payload)) := by
    rw [hfr, rxIns_append]; rfl
  rw [hI, dpr_run_append, dpr_final_append, a1]
  refine ⟨?_, ?_, ?_, ?_, d4⟩
  · rw [allLaneBytes_append, a2, d1]; rfl
  · rw [countVerdicts_append, a3, d2]
  · intro o ho
    rcases List.mem_append.mp ho with ho | ho
    · exact a4 o ho
    · exact d3 o ho
  · rw [d5]; rfl

/-! ## the header receiver -/

def hrxHdr (h : Header) : HeaderRx.Hdr := ⟨h.dw0, h.dw1, h.dw2, dw3Of h⟩

def hrxIn (w : Nat × Nat) : HeaderRx.RawRx.In := ⟨true, w.1, w.2⟩

/-- The raw header receiver over a word list, with a constant `expected_sequence` input; the list of
states after each word. -/
def hrxStates (s : HeaderRx.RawRx.State) (e : Nat) : List (Nat × Nat) → List HeaderRx.RawRx.State
  | [] => []
  | w :: ws => HeaderRx.RawRx.step s (hrxIn w) e :: hrxStates (HeaderRx.RawRx.step s (hrxIn w) e) e ws

theorem hrxHdr_ok (h : Header) (hw : h.wf) :
    (hrxHdr h).crcOk = true ∧ (hrxHdr h).seq = h.lcw % 8 := by
  obtain ⟨w0, w1, w2, w3⟩ := hw
  obtain ⟨f0, f1, f2, f3, f4, f5⟩ := dw3_fields h w3
  have e16 : HeaderRx.hdrCrc16 (hrxHdr h) = RawPacketTransmitter.crc16Of [h.dw0, h.dw1, h.dw2] := by
    simp [HeaderRx.hdrCrc16, hrxHdr, RawPacketTransmitter.crc16Of, HeaderRx.wordBytes, RawPacketTransmitter.wordBytes]
  have f2' : dw3Of h / 65536 % 2048 = h.lcw := f2
  have f4' : dw3Of h / 134217728 % 32 = RawPacketTransmitter.crc5Of h.lcw := f4
  have f1' : dw3Of h % 65536 = RawPacketTransmitter.crc16Of [h.dw0, h.dw1, h.dw2] := f1
  have f5' : dw3Of h / 65536 % 8 = h.lcw % 8 := f5
  refine ⟨?_, ?_⟩
  · simp only [HeaderRx.Hdr.crcOk, HeaderRx.Hdr.crc5Ok, HeaderRx.Hdr.crc16Ok, e16, HeaderRx.Hdr.lcw,
      HeaderRx.Hdr.crc5, HeaderRx.Hdr.crc16]
    simp only [hrxHdr, f2', f4', f1']
    simp [RawPacketTransmitter.crc5Of]
  · simp only [HeaderRx.Hdr.seq, hrxHdr, f5']

/-- words of the data packet part never look like a header start -/
theorem dppTail_no_hpstart (acc rest : List Nat) :
    ∀ w ∈ dppTail acc rest, HeaderRx.RawRx.isHpStart (hrxIn w) = false := by
  fun_induction dppTail acc rest with
  | case1 => simp
  | case2 acc a =>
    intro w hw
    simp only [closing, List.mem_cons, List.not_mem_nil, or_false] at hw
    rcases hw with h | h | h <;> subst h <;>
      simp [HeaderRx.RawRx.isHpStart, hrxIn, RawPacketTransmitter.crcWord, RawPacketTransmitter.finishWord]
  | case3 acc a b =>
    intro w hw
    simp only [closing, List.mem_cons, List.not_mem_nil, or_false] at hw
    rcases hw with h | h | h <;> subst h <;>
      simp [HeaderRx.RawRx.isHpStart, hrxIn, RawPacketTransmitter.crcWord, RawPacketTransmitter.finishWord]
  | case4 acc a b c =>
    intro w hw
    simp only [closing, List.mem_cons, List.not_mem_nil, or_false] at hw
    rcases hw with h | h | h <;> subst h <;>
      simp [HeaderRx.RawRx.isHpStart, hrxIn, RawPacketTransmitter.crcWord, RawPacketTransmitter.finishWord]
  | case5 acc a b c d =>
    intro w hw
    simp only [closing, List.mem_cons, List.not_mem_nil, or_false] at hw
    rcases hw with h | h | h <;> subst h <;>
      simp [HeaderRx.RawRx.isHpStart, hrxIn, RawPacketTransmitter.crcWord, RawPacketTransmitter.finishWord,
        RawPacketTransmitter.DPPEND, HeaderRx.hpStart]
  | case6 acc a b c d e rest ih =>
    intro w hw
    rcases List.mem_cons.mp hw with h | h
    · subst h; simp [HeaderRx.RawRx.isHpStart, hrxIn]
    · exact ih w h

def hrxFinal (s : HeaderRx.RawRx.State) (e : Nat) : List (Nat × Nat) → HeaderRx.RawRx.State
  | [] => s
  | w :: ws => hrxFinal (HeaderRx.RawRx.step s (hrxIn w) e) e ws

theorem hrxStates_append (s : HeaderRx.RawRx.State) (e : Nat) (a b : List (Nat × Nat)) :
    hrxStates s e (a ++ b) = hrxStates s e a ++ hrxStates (hrxFinal s e a) e b := by
  induction a generalizing s with
  | nil => rfl
  | cons w ws ih => simp [hrxStates, hrxFinal, ih]

/-- In WAIT_FOR_HPSTART, words that are not a header start leave the receiver there, silent, with its
`packet` output untouched. -/
theorem hrx_wait_quiet (e : Nat) (ws : List (Nat × Nat))
    (hws : ∀ w ∈ ws, HeaderRx.RawRx.isHpStart (hrxIn w) = false) (s : HeaderRx.RawRx.State) (hs : s.st = .wait) :
    ∀ t ∈ hrxStates s e ws, t.newPkt = false ∧ t.st = .wait ∧ t.outPkt = s.outPkt := by
  induction ws generalizing s with
  | nil => simp [hrxStates]
  | cons w ws ih =>
    have h1 : HeaderRx.RawRx.step s (hrxIn w) e = { s with st := .wait, newPkt := false } := by
      simp [HeaderRx.RawRx.step, hs, hws w (by simp)]
    intro t ht
    simp only [hrxStates, List.mem_cons] at ht
    rcases ht with ht | ht
    · rw [ht, h1]; exact ⟨rfl, rfl, rfl⟩
    · have := ih (fun x hx => hws x (List.mem_cons_of_mem _ hx)) _ (by rw [h1]) t ht
      rw [h1] at this
      exact this

theorem dppFrame_no_hpstart (h : Header) (payload : List Nat) (hb : ∀ x ∈ payload, x < 256) :
    ∀ w ∈ dppFrame h payload, HeaderRx.RawRx.isHpStart (hrxIn w) = false := by
  intro w hw
  simp only [dppFrame] at hw
  split at hw
  · rcases List.mem_cons.mp hw with h1 | h1
    · subst h1; decide
    · split at h1
      · simp only [List.mem_cons, List.not_mem_nil, or_false] at h1; subst h1; decide
      · by_cases hemp : payload = []
        · subst hemp
          rw [RawPacketTransmitter.pack_dppSyms_nil] at h1
          simp only [List.mem_cons, List.not_mem_nil, or_false] at h1
          rcases h1 with h1 | h1 <;> subst h1 <;> simp [HeaderRx.RawRx.isHpStart, hrxIn,
            RawPacketTransmitter.DPPEND, HeaderRx.hpStart]
        · have hp : pack (dppSyms payload) = dppTail [] payload := by
            rw [RawPacketTransmitter.dppTail_eq_pack [] payload hemp hb]; rfl
          rw [hp] at h1
          exact dppTail_no_hpstart [] payload w h1
  · simp at hw

/-- **The header receiver over the whole frame, from reset**, followed by one more word that is not a
header start, with `expected_sequence` = the header's sequence number: `new_packet` is strobed
exactly once, with the header sent on `packet`; `bad_packet` / `bad_sequence` never. -/
theorem hrx_of_frame (h : Header) (payload : List Nat) (hw : h.wf) (hb : ∀ x ∈ payload, x < 256)
    (x : Nat × Nat) (hx : HeaderRx.RawRx.isHpStart (hrxIn x) = false) :
    let sts := hrxStates HeaderRx.RawRx.init (h.lcw % 8) (frame h payload ++ [x])
    (sts.filter (·.newPkt)).map (·.outPkt) = [hrxHdr h] ∧
    (∀ t ∈ HeaderRx.RawRx.init :: sts,
      HeaderRx.RawRx.badPacket t = false ∧ HeaderRx.RawRx.badSequence t (h.lcw % 8) = false) := by
  obtain ⟨hok, hseq⟩ := hrxHdr_ok h hw
  -- the part after the header: at least one word
  have hrest : ∃ r0 rs, dppFrame h payload ++ [x] = r0 :: rs ∧
      ∀ w ∈ rs, HeaderRx.RawRx.isHpStart (hrxIn w) = false := by
    have hall : ∀ w ∈ dppFrame h payload ++ [x], HeaderRx.RawRx.isHpStart (hrxIn w) = false := by
      intro w hw'
      rcases List.mem_append.mp hw' with h1 | h1
      · exact dppFrame_no_hpstart h payload hb w h1
      · simp only [List.mem_cons, List.not_mem_nil, or_false] at h1; subst h1; exact hx
    cases hd : dppFrame h payload ++ [x] with
    | nil => simp at hd
    | cons r0 rs => exact ⟨r0, rs, rfl, fun w hw' => hall w (by rw [hd]; exact List.mem_cons_of_mem _ hw')⟩
  obtain ⟨r0, rs, hr, hrs⟩ := hrest
  have hfr : frame h payload ++ [x] = headerFrame h.dw0 h.dw1 h.dw2 h.lcw ++ (r0 :: rs) := by
    rw [RawPacketTransmitter.frame_eq, List.append_assoc, hr]
  -- the five header words
  let sC : HeaderRx.RawRx.State := ⟨.check, hrxHdr h, false, .zero⟩
  have h5 : hrxStates HeaderRx.RawRx.init (h.lcw % 8) (headerFrame h.dw0 h.dw1 h.dw2 h.lcw) =
      [⟨.dw0, .zero, false, .zero⟩, ⟨.dw1, ⟨h.dw0, 0, 0, 0⟩, false, .zero⟩, ⟨.dw2, ⟨h.dw0, h.dw1, 0, 0⟩, false, .zero⟩,
       ⟨.dw3, ⟨h.dw0, h.dw1, h.dw2, 0⟩, false, .zero⟩, sC] := by
    simp [hrxStates, headerFrame, HeaderRx.RawRx.step, HeaderRx.RawRx.init, HeaderRx.RawRx.isHpStart, hrxIn,
      RawPacketTransmitter.HPSTART, HeaderRx.hpStart, HeaderRx.Hdr.zero, sC, hrxHdr, dw3Of]
  have f5 : hrxFinal HeaderRx.RawRx.init (h.lcw % 8) (headerFrame h.dw0 h.dw1 h.dw2 h.lcw) = sC := by
    simp [hrxFinal, headerFrame, HeaderRx.RawRx.step, HeaderRx.RawRx.init, HeaderRx.RawRx.isHpStart, hrxIn,
      RawPacketTransmitter.HPSTART, HeaderRx.hpStart, HeaderRx.Hdr.zero, sC, hrxHdr, dw3Of]
  have hgood : HeaderRx.RawRx.good sC (h.lcw % 8) = true := by
    simp [HeaderRx.RawRx.good, sC, hok, hseq]
  let sN : HeaderRx.RawRx.State := ⟨.wait, hrxHdr h, true, hrxHdr h⟩
  have h6 : HeaderRx.RawRx.step sC (hrxIn r0) (h.lcw % 8) = sN := by
    simp only [HeaderRx.RawRx.step, sC, sN]
    simp [HeaderRx.RawRx.good, hok, hseq]
  have hq := hrx_wait_quiet (h.lcw % 8) rs hrs sN rfl
  intro sts
  have hsts : sts = [⟨.dw0, .zero, false, .zero⟩, ⟨.dw1, ⟨h.dw0, 0, 0, 0⟩, false, .zero⟩,
      ⟨.dw2, ⟨h.dw0, h.dw1, 0, 0⟩, false, .zero⟩, ⟨.dw3, ⟨h.dw0, h.dw1, h.dw2, 0⟩, false, .zero⟩, sC] ++
      (sN :: hrxStates sN (h.lcw % 8) rs) := by
    show hrxStates HeaderRx.RawRx.init (h.lcw % 8) (frame h payload ++ [x]) = _
    rw [hfr, hrxStates_append, h5, f5]
    simp only [hrxStates, h6]
  have hfil : (hrxStates sN (h.lcw % 8) rs).filter (·.newPkt) = [] := by
    rw [List.filter_eq_nil_iff]
    intro t ht
    simp [(hq t ht).1]
  refine ⟨?_, ?_⟩
  · rw [hsts, List.filter_append, List.filter_cons, List.filter_cons, List.filter_cons, List.filter_cons,
      List.filter_cons, List.filter_cons, hfil]
    simp [sC, sN]
  · intro t ht
    rw [hsts] at ht
    simp only [List.mem_cons, List.mem_append, List.not_mem_nil, or_false] at ht
    rcases ht with ht | ((ht | ht | ht | ht | ht) | ht | ht)
    · subst ht; simp [HeaderRx.RawRx.badPacket, HeaderRx.RawRx.badSequence, HeaderRx.RawRx.init]
    · subst ht; simp [HeaderRx.RawRx.badPacket, HeaderRx.RawRx.badSequence]
    · subst ht; simp [HeaderRx.RawRx.badPacket, HeaderRx.RawRx.badSequence]
    · subst ht; simp [HeaderRx.RawRx.badPacket, HeaderRx.RawRx.badSequence]
    · subst ht; simp [HeaderRx.RawRx.badPacket, HeaderRx.RawRx.badSequence]
    · subst ht; simp [HeaderRx.RawRx.badPacket, HeaderRx.RawRx.badSequence, sC, hok, hseq]
    · subst ht; simp [HeaderRx.RawRx.badPacket, HeaderRx.RawRx.badSequence, sN]
    · have := (hq t ht).2.1
      simp [HeaderRx.RawRx.badPacket, HeaderRx.RawRx.badSequence, this]

/-! ## the round trip -/

/-- **C36 `rx_of_tx`.**  For every DATA header (type 0b01000, not delayed, well-formed fields) and every
payload whose length is the header's length field (0..1024 and beyond — up to the 11-bit counter of the
receiver —, every residue mod 4): the words `frame hdr payload` — which by `tx_emits_frame` are exactly
what the transmitter puts on the wire — received from reset

* by the header receiver (`expected_sequence` = the header's sequence number; one more non-header word
  following): `new_packet` exactly once with `packet` = the header sent (DWORD 0..2 and DWORD 3 =
  CRC-16 | link control word | CRC-5); `bad_packet`, `bad_sequence` never;
* by the data receiver: exactly the payload bytes on `source`, exactly one verdict, never
  `packet_bad` (hence `packet_good` once), `header` = the header sent, back in WAIT_FOR_HPSTART. -/
theorem rx_of_tx (hdr : Header) (payload : List Nat) (hw : hdr.wf) (hb : ∀ x ∈ payload, x < 256)
    (hty : hdr.dw0 % 32 = 8) (hnd : hdr.lcw / 2 ^ 9 % 2 = 0)
    (hlen : payload.length = hdr.dw1 / 2 ^ 16 % 2 ^ 11)
    (x : Nat × Nat) (hx : HeaderRx.RawRx.isHpStart (hrxIn x) = false) :
    -- header receiver
    (let sts := hrxStates HeaderRx.RawRx.init (hdr.lcw % 8) (frame hdr payload ++ [x])
     (sts.filter (·.newPkt)).map (·.outPkt) = [hrxHdr hdr] ∧
     (∀ t ∈ HeaderRx.RawRx.init :: sts,
       HeaderRx.RawRx.badPacket t = false ∧ HeaderRx.RawRx.badSequence t (hdr.lcw % 8) = false)) ∧
    -- data receiver
    (let outs := DataPacketReceiver.run DataPacketReceiver.init (rxIns (frame hdr payload))
     DataPacketReceiver.allLaneBytes outs = payload ∧
     DataPacketReceiver.countVerdicts outs = 1 ∧ (∀ o ∈ outs, o.bad = false) ∧
     (DataPacketReceiver.final DataPacketReceiver.init (rxIns (frame hdr payload))).outHdr = dprHdr hdr ∧
     (DataPacketReceiver.final DataPacketReceiver.init (rxIns (frame hdr payload))).fsm = .waitHp) :=
  ⟨hrx_of_frame hdr payload hw hb x hx, dpr_of_frame hdr payload hw hb hty hnd hlen⟩

/-- exactly one verdict that is not `bad` is `good` -/
theorem one_verdict_not_bad_is_good (outs : List DataPacketReceiver.Out)
    (h1 : DataPacketReceiver.countVerdicts outs = 1) (h2 : ∀ o ∈ outs, o.bad = false) :
    (outs.filter (·.good)).length = 1 := by
  induction outs with
  | nil => simp [DataPacketReceiver.countVerdicts] at h1
  | cons o os ih =>
    have hb := h2 o (by simp)
    simp only [DataPacketReceiver.countVerdicts, DataPacketReceiver.verdict, hb, Bool.or_false] at h1
    cases hg : o.good
    · simp only [hg, DataPacketReceiver.b2n, Bool.false_eq_true, if_false, Nat.zero_add] at h1
      simpa [hg] using ih h1 (fun o' ho' => h2 o' (List.mem_cons_of_mem _ ho'))
    · simp only [hg, DataPacketReceiver.b2n, if_true] at h1
      have h0 : DataPacketReceiver.countVerdicts os = 0 := by omega
      have : os.filter (·.good) = [] := by
        rw [List.filter_eq_nil_iff]
        intro o' ho'
        clear ih h1
        induction os with
        | nil => simp at ho'
        | cons p ps ihp =>
          simp only [DataPacketReceiver.countVerdicts] at h0
          have hp0 : DataPacketReceiver.b2n (DataPacketReceiver.verdict p) = 0 := by omega
          have hps : DataPacketReceiver.countVerdicts ps = 0 := by omega
          rcases List.mem_cons.mp ho' with e | e
          · subst e
            cases hgp : o'.good <;> simp_all [DataPacketReceiver.verdict, DataPacketReceiver.b2n]
          · exact ihp (fun q hq => h2 q (by simp at hq ⊢; rcases hq with hq | hq <;> simp [hq])) hps e
      simp [hg, this]

-- non-vacuity: a DATA header announcing 5 bytes, and a zero-length one
example : (⟨8 + 32 * 5, 5 * 65536, 0x1234, 3⟩ : Header).wf ∧ (8 + 32 * 5) % 32 = 8 ∧ 3 / 2 ^ 9 % 2 = 0 ∧
    [1, 2, 3, 4, 5].length = 5 * 65536 / 2 ^ 16 % 2 ^ 11 := by decide
example : (⟨8, 0, 0, 0x47⟩ : Header).wf ∧ 8 % 32 = 8 ∧ 0x47 / 2 ^ 9 % 2 = 0 ∧
    ([] : List Nat).length = 0 / 2 ^ 16 % 2 ^ 11 := by decide
example : HeaderRx.RawRx.isHpStart (hrxIn (0, 0)) = false := by decide

end LunaVerif.RoundTrip
