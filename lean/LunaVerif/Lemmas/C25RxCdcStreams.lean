import LunaVerif.Lemmas.C25RxCdc
import LunaVerif.Lemmas.C25RxFifoSpaced
/-!
# C25: write streams of a run of bit times; delayed pairing

`evS_bits` (flags paired with the payload stream one bit time late still give the write-side events in order),
`run_wave_outs` (the receive chain's outputs over a nominal-rate waveform: a quiet prefix of `k + 7` cycles, then the
bit times of `Lemmas/C25RxBack`), `outs_streams` (their payload / flags write streams), error samples at the `usb` edges.
-/
set_option linter.unusedSimpArgs false
namespace LunaVerif.FsRxCdc
open LunaVerif.FsRx LunaVerif.FsCodec

def optByte : Option Nat → List EvU | some v => [.byte v] | none => []

/-- pairing with the payload stream one bit time late (`q` = the payload write of the previous bit time) -/
theorem evS_bits (bits : List (Bool × Bool)) : ∀ (a : BB) (q : Option Nat), (q.isSome → a.det = 6) →
    usbEvN (a.det == 6) (q :: bitPays a bits) (bitFlgs a bits ++ [none]) = optByte q ++ (bitEvs a bits).map toU := by
  induction bits with
  | nil =>
    intro a q hq
    cases q with
    | none => simp [bitPays, bitFlgs, usbEvN, optByte, bitEvs, oStart, oEnd]
    | some v => simp [bitPays, bitFlgs, usbEvN, optByte, bitEvs, oStart, oEnd, hq rfl]
  | cons b bs ih =>
    intro a q hq
    have hpay : (bitPay a b).isSome → (bitStep a b).det = 6 := fun h => (pay_active a b h).2
    simp only [bitPays, bitFlgs, List.cons_append, usbEvN, det_inv, ih _ _ hpay, bitEvs, List.map_append,
      oStart_bitFlg, oEnd_bitFlg]
    rw [← bit_events_U a b]
    cases q with
    | none => 
      simp only [optByte, List.nil_append, List.append_assoc]
      cases hp : bitPay a b with
      | none => simp [optByte]
      | some v =>
        have := (pay_active a b (by rw [hp]; rfl)).1
        have hz : b.2 = false := by
          have h2 := pay_active a b (by rw [hp]; rfl)
          obtain ⟨d, z⟩ := b
          cases z
          · rfl
          · simp [bitStep, detStep, this] at h2
        simp [optByte, this, hz]
    | some v =>
      have h6 := hq rfl
      have e5 : (a.det == 5) = false := by simp [h6]
      simp only [optByte, h6, e5, Bool.false_and, if_false, Bool.false_eq_true, List.nil_append, beq_self_eq_true,
        if_true, List.append_assoc, List.cons_append, Bool.true_and]
      cases hp : bitPay a b with
      | none => simp [optByte]
      | some w =>
        have hz : b.2 = false := by
          have h2 := pay_active a b (by rw [hp]; rfl)
          obtain ⟨d, z⟩ := b
          cases z
          · rfl
          · simp [bitStep, detStep, h6] at h2
        simp [optByte, hz]

/-! ### the outputs of the receive chain over a packet, cycle by cycle -/

theorem run_length (ins : List FsRx.In) : ∀ s : FsRx.St, (FsRx.run s ins).2.length = ins.length := by
  induction ins with
  | nil => intro s; rfl
  | cons i is ih => intro s; simp only [FsRx.run, List.length_cons, ih]

theorem quiet_of_events (os : List FsRx.Out) (h : events os = []) : ∀ o ∈ os, payW o = none ∧ flgW o = none := by
  induction os with
  | nil => intro o ho; simp at ho
  | cons x xs ih =>
    intro o ho
    simp only [events, List.append_eq_nil_iff] at h
    rcases List.mem_cons.mp ho with rfl | ho
    · have h1 := h.1
      simp only [evOf, List.append_eq_nil_iff] at h1
      have a1 : o.pktStart = false := by cases hh : o.pktStart <;> simp_all
      have a2 : o.pktEnd = false := by cases hh : o.pktEnd <;> simp_all
      have a3 : o.put = false := by cases hh : o.put <;> simp_all
      simp [payW, flgW, a1, a2, a3]
    · exact ih h.2 o ho

/-- the quiet outputs before the periodic regime -/
def Quiet (e : Bool) (os : List FsRx.Out) : Prop := ∀ o ∈ os, payW o = none ∧ flgW o = none ∧ o.rxErr = e

theorem run_wave_outs (c : Nat) (e : Bool) (hc : c ≤ 6) (k : Nat) (w : List Sym) :
    ∃ c0 pre, c0 ≤ 6 ∧ pre.length = k + 7 ∧ Quiet e pre ∧
    (FsRx.run (idleSt c e) (jn k ++ wave (.K :: .J :: (w ++ [.J, .J])) ++ jn 3)).2 =
      pre ++ outsB (conc ⟨0, c0, srInit, e⟩ true) (bitBlocks (symBits .J (.K :: .J :: (w ++ [.J, .J]))).dropLast) := by
  obtain ⟨⟨c1, hc1, q1⟩, q2, q3⟩ := idle_run (k / 4) c e hc
  obtain ⟨l1, l2, l3⟩ := lock' (k % 4) (Nat.mod_lt _ (by omega)) c1 e hc1
  have hin : jn k ++ wave (.K :: .J :: (w ++ [.J, .J])) ++ jn 3 =
      jn (4 * (k / 4)) ++ ((jn (k % 4) ++ [symIn .K, symIn .K, symIn .K, symIn .K, symIn .J, symIn .J, symIn .J]) ++
        blocks .J (w ++ [.J, .J])) := by
    have hk : jn k = jn (4 * (k / 4)) ++ jn (k % 4) := by
      simp only [jn, List.replicate_append_replicate]; congr 1; omega
    have hw := wave_cons_blocks .K (.J :: (w ++ [.J, .J]))
    have hb : blocks .K (.J :: (w ++ [.J, .J])) =
        symIn .K :: symIn .J :: symIn .J :: symIn .J :: blocks .J (w ++ [.J, .J]) := rfl
    have h3 : jn 3 = [symIn .J, symIn .J, symIn .J] := rfl
    rw [List.append_assoc, h3, hw, hb, hk]
    simp only [List.append_assoc, List.cons_append, List.nil_append]
  obtain ⟨f1, f2⟩ := front_blocks (w ++ [.J, .J]) false .K .J
  have hbits : (false, se0Of .K) :: (symBits .K (.J :: (w ++ [.J, .J]))).dropLast =
      (symBits .J (.K :: .J :: (w ++ [.J, .J]))).dropLast := by
    simp [symBits, bitOf, dkOf, se0Of, List.dropLast]
  rw [hbits] at f2
  refine ⟨bsStep (bsStep c1 true) true,
    (FsRx.run (idleSt c e) (jn (4 * (k / 4)))).2 ++ (FsRx.run (idleSt c1 e)
      (jn (k % 4) ++ [symIn .K, symIn .K, symIn .K, symIn .K, symIn .J, symIn .J, symIn .J])).2,
    bsStep_le _ _ (bsStep_le _ _ hc1), ?_, ?_, ?_⟩
  · simp only [List.length_append, run_length, jn, List.length_replicate, List.length_cons, List.length_nil]
    omega
  · intro o ho
    rcases List.mem_append.mp ho with ho | ho
    · have := q3 o ho
      simp only [seOf, Prod.mk.injEq] at this
      exact ⟨(quiet_of_events _ q2 o ho).1, (quiet_of_events _ q2 o ho).2, this.2⟩
    · have := l3 o ho
      simp only [seOf, Prod.mk.injEq] at this
      exact ⟨(quiet_of_events _ l2 o ho).1, (quiet_of_events _ l2 o ho).2, this.2⟩
  · rw [hin, FsRx.run_append, q1, FsRx.run_append, l1, run_split]
    simp only [f2, List.append_assoc]

/-! ### write streams and error samples of a run of bit times -/

theorem outs_streams (bits : List (Bool × Bool)) : ∀ (a : BB) (bd : Bool),
    (outsB (conc a bd) (bitBlocks bits)).map payW = flat 2 (bitPays a bits) ∧
    (outsB (conc a bd) (bitBlocks bits)).map flgW = flat 0 (bitFlgs a bits) := by
  induction bits with
  | nil => intro a bd; exact ⟨rfl, rfl⟩
  | cons b bs ih =>
    intro a bd
    obtain ⟨h1, _, _, _⟩ := back_block a bd b
    obtain ⟨w1, w2⟩ := back_block_writes a bd b
    obtain ⟨i1, i2⟩ := ih (bitStep a b) b.1
    simp only [bitBlocks, outsB_append, List.map_append, h1, w1, w2, i1, i2, bitPays, bitFlgs, flat, blockAt]
    exact ⟨rfl, rfl⟩

theorem bitPays_append (x y : List (Bool × Bool)) : ∀ a, bitPays a (x ++ y) = bitPays a x ++ bitPays (bitRun a x) y := by
  induction x with
  | nil => intro a; rfl
  | cons b bs ih => intro a; simp only [List.cons_append, bitPays, bitRun, ih]

theorem bitFlgs_append (x y : List (Bool × Bool)) : ∀ a, bitFlgs a (x ++ y) = bitFlgs a x ++ bitFlgs (bitRun a x) y := by
  induction x with
  | nil => intro a; rfl
  | cons b bs ih => intro a; simp only [List.cons_append, bitFlgs, bitRun, ih]

theorem bitPays_length (x : List (Bool × Bool)) : ∀ a, (bitPays a x).length = x.length := by
  induction x with
  | nil => intro a; rfl
  | cons b bs ih => intro a; simp only [bitPays, List.length_cons, ih]

theorem bitFlgs_length (x : List (Bool × Bool)) : ∀ a, (bitFlgs a x).length = x.length := by
  induction x with
  | nil => intro a; rfl
  | cons b bs ih => intro a; simp only [bitFlgs, List.length_cons, ih]

theorem errSamples_append (φ : Nat) (x y : List FsRx.Out) : ∀ c, c < 4 →
    errSamples φ c (x ++ y) = errSamples φ c x ++ errSamples φ ((c + x.length) % 4) y := by
  induction x with
  | nil => intro c hc; simp [errSamples, Nat.mod_eq_of_lt hc]
  | cons o os ih =>
    intro c hc
    have hcc : ((c + 1) % 4 + os.length) % 4 = (c + (os.length + 1)) % 4 := by omega
    simp only [List.cons_append, errSamples, ih _ (Nat.mod_lt _ (by omega : 4 > 0)), List.length_cons, hcc,
      List.append_assoc]

theorem errSamples_length (φ : Nat) (os : List FsRx.Out) : ∀ c, (errSamples φ c os).length = edges φ c os.length := by
  induction os with
  | nil => intro c; rfl
  | cons o os ih => intro c; simp only [errSamples, List.length_append, ih, List.length_cons, edges]; split <;> simp

theorem errSamples_false (φ : Nat) (os : List FsRx.Out) (h : ∀ o ∈ os, o.rxErr = false) :
    ∀ c, ∀ x ∈ errSamples φ c os, x = false := by
  induction os with
  | nil => intro c x hx; simp [errSamples] at hx
  | cons o os ih =>
    intro c x hx
    simp only [errSamples] at hx
    rcases List.mem_append.mp hx with hx | hx
    · split at hx
      · simp at hx; rw [hx]; exact h o (by simp)
      · simp at hx
    · exact ih (fun o' ho' => h o' (by simp [ho'])) _ x hx

theorem edges_blocks (φ : Nat) (hφ : φ < 4) (n : Nat) : ∀ c, c < 4 → edges φ c (4 * n) = n := by
  induction n with
  | zero => intro c _; rfl
  | succ n ih =>
    intro c hc
    have h4 : 4 * (n + 1) = (4 * n) + 1 + 1 + 1 + 1 := by omega
    rw [h4]
    simp only [edges]
    have hcc : ((((c + 1) % 4 + 1) % 4 + 1) % 4 + 1) % 4 = c := by omega
    rw [hcc, ih c hc]
    have hcs : c = 0 ∨ c = 1 ∨ c = 2 ∨ c = 3 := by omega
    have hps : φ = 0 ∨ φ = 1 ∨ φ = 2 ∨ φ = 3 := by omega
    rcases hcs with h | h | h | h <;> subst h <;>
      rcases hps with h' | h' | h' | h' <;> subst h' <;> simp <;> omega

theorem outsB_length (xs : List Vdz) : ∀ s, (outsB s xs).length = xs.length := by
  induction xs with
  | nil => intro s; rfl
  | cons x xs ih => intro s; obtain ⟨v, d, z⟩ := x; simp only [outsB, List.length_cons, ih]

theorem bitBlocks_length (bits : List (Bool × Bool)) : (bitBlocks bits).length = 4 * bits.length := by
  induction bits with
  | nil => rfl
  | cons b bs ih => simp only [bitBlocks, List.length_append, ih, List.length_cons, bitBlock, List.length_nil]; omega

end LunaVerif.FsRxCdc
