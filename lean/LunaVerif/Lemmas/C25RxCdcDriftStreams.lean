import LunaVerif.Lemmas.C25RxCdcDriftFifo
import LunaVerif.Props.C25RxUsb
import LunaVerif.Props.C25RxDrift
/-!
# C25: what the receive chain writes into its two FIFOs, cycle by cycle, under clock drift

`vblock_writes` (a strobe followed by `n - 1 ≥ 2` hold cycles: the flags write is in cycle 0, the payload write in cycle 2,
nothing afterwards -- from `back_block_writes` and `quiet_run`), `outs_vstreams` (a run of such blocks: `flatV` of the
per-bit writes `bitPay` / `bitFlg` of the nominal-rate analysis), `run_packetD_outs` (the outputs of the receive chain over a
trackable cell stream: a quiet prefix of `k + 7` cycles, then the blocks of `Lemmas/C25RxDriftBack`).
-/
set_option linter.unusedSimpArgs false
namespace LunaVerif.FsRxCdc
open LunaVerif.FsRx LunaVerif.FsCodec

theorem vblock_split (n : Nat) (hn : 3 ≤ n) (b : Bool × Bool) :
    vblock n b = [(true, b.1, b.2), (false, b.1, b.2), (false, b.1, b.2)] ++ List.replicate (n - 3) (false, b.1, b.2) := by
  obtain ⟨m, rfl⟩ : ∃ m, n = m + 3 := ⟨n - 3, by omega⟩
  simp only [vblock, Nat.add_sub_cancel, show m + 3 - 1 = m + 2 by omega, List.replicate_succ,
    List.cons_append, List.nil_append]

theorem vblock_writes (a : BB) (bd : Bool) (b : Bool × Bool) (n : Nat) (hn : 3 ≤ n) :
    (outsB (conc a bd) (vblock n b)).map payW = vblk 2 n (bitPay a b) ∧
    (outsB (conc a bd) (vblock n b)).map flgW = vblk 0 n (bitFlg a b) := by
  obtain ⟨w1, w2⟩ := back_block_writes a bd b
  obtain ⟨h1, _, _⟩ := back_block3 a bd b
  obtain ⟨_, q2, _⟩ := quiet_run (bitStep a b) b.1 b.2 (n - 3)
  have hq := quiet_of_events _ q2
  have hb : bitBlock b = [(true, b.1, b.2), (false, b.1, b.2), (false, b.1, b.2)] ++ [(false, b.1, b.2)] := rfl
  rw [hb, outsB_append, List.map_append] at w1 w2
  have hl3 : (outsB (conc a bd) [(true, b.1, b.2), (false, b.1, b.2), (false, b.1, b.2)]).length = 3 := by
    rw [outsB_length]; rfl
  have e1 : (outsB (conc a bd) [(true, b.1, b.2), (false, b.1, b.2), (false, b.1, b.2)]).map payW =
      [none, none, bitPay a b] := by
    have : [none, none, bitPay a b, none] = [none, none, bitPay a b] ++ [none] := rfl
    rw [this] at w1
    exact (List.append_inj w1 (by simp [hl3])).1
  have e2 : (outsB (conc a bd) [(true, b.1, b.2), (false, b.1, b.2), (false, b.1, b.2)]).map flgW =
      [bitFlg a b, none, none] := by
    have : [bitFlg a b, none, none, none] = [bitFlg a b, none, none] ++ [none] := rfl
    rw [this] at w2
    exact (List.append_inj w2 (by simp [hl3])).1
  have p1 : (outsB (conc (bitStep a b) b.1) (List.replicate (n - 3) (false, b.1, b.2))).map payW =
      List.replicate (n - 3) none := by
    apply List.eq_replicate_iff.mpr
    refine ⟨by simp [outsB_length], ?_⟩
    intro x hx
    obtain ⟨o, ho, rfl⟩ := List.mem_map.mp hx
    exact (hq o ho).1
  have p2 : (outsB (conc (bitStep a b) b.1) (List.replicate (n - 3) (false, b.1, b.2))).map flgW =
      List.replicate (n - 3) none := by
    apply List.eq_replicate_iff.mpr
    refine ⟨by simp [outsB_length], ?_⟩
    intro x hx
    obtain ⟨o, ho, rfl⟩ := List.mem_map.mp hx
    exact (hq o ho).2
  rw [vblock_split n hn b, outsB_append, List.map_append, List.map_append, h1, e1, e2, p1, p2]
  constructor
  · simp [vblk]
  · obtain ⟨m, rfl⟩ : ∃ m, n = m + 3 := ⟨n - 3, by omega⟩
    simp [vblk, List.replicate_succ]

/-- per block: (cycles, payload write) / (cycles, flags write) -/
def blkP : BB → List (Nat × (Bool × Bool)) → List (Nat × Option Nat)
  | _, [] => []
  | a, (n, b) :: l => (n, bitPay a b) :: blkP (bitStep a b) l

def blkF : BB → List (Nat × (Bool × Bool)) → List (Nat × Option Nat)
  | _, [] => []
  | a, (n, b) :: l => (n, bitFlg a b) :: blkF (bitStep a b) l

theorem blkP_snd (l : List (Nat × (Bool × Bool))) : ∀ a, (blkP a l).map (·.2) = bitPays a (l.map (·.2)) := by
  induction l with
  | nil => intro a; rfl
  | cons x l ih => intro a; obtain ⟨n, b⟩ := x; simp only [blkP, List.map, bitPays, ih]

theorem blkF_snd (l : List (Nat × (Bool × Bool))) : ∀ a, (blkF a l).map (·.2) = bitFlgs a (l.map (·.2)) := by
  induction l with
  | nil => intro a; rfl
  | cons x l ih => intro a; obtain ⟨n, b⟩ := x; simp only [blkF, List.map, bitFlgs, ih]

theorem blkP_fst (l : List (Nat × (Bool × Bool))) : ∀ a, (blkP a l).map (·.1) = l.map (·.1) := by
  induction l with
  | nil => intro a; rfl
  | cons x l ih => intro a; obtain ⟨n, b⟩ := x; simp only [blkP, List.map, ih]

theorem blkF_fst (l : List (Nat × (Bool × Bool))) : ∀ a, (blkF a l).map (·.1) = l.map (·.1) := by
  induction l with
  | nil => intro a; rfl
  | cons x l ih => intro a; obtain ⟨n, b⟩ := x; simp only [blkF, List.map, ih]

theorem blkP_append (x y : List (Nat × (Bool × Bool))) : ∀ a,
    blkP a (x ++ y) = blkP a x ++ blkP (bitRun a (x.map (·.2))) y := by
  induction x with
  | nil => intro a; rfl
  | cons p x ih => intro a; obtain ⟨n, b⟩ := p; simp only [List.cons_append, blkP, List.map, bitRun, ih]

theorem blkF_append (x y : List (Nat × (Bool × Bool))) : ∀ a,
    blkF a (x ++ y) = blkF a x ++ blkF (bitRun a (x.map (·.2))) y := by
  induction x with
  | nil => intro a; rfl
  | cons p x ih => intro a; obtain ⟨n, b⟩ := p; simp only [List.cons_append, blkF, List.map, bitRun, ih]

/-- **the write streams under drift** -/
theorem outs_vstreams (l : List (Nat × (Bool × Bool))) (hl : ∀ p ∈ l, 3 ≤ p.1) : ∀ (a : BB) (bd : Bool),
    (outsB (conc a bd) (vblocks l)).map payW = flatV 2 (blkP a l) ∧
    (outsB (conc a bd) (vblocks l)).map flgW = flatV 0 (blkF a l) := by
  induction l with
  | nil => intro a bd; exact ⟨rfl, rfl⟩
  | cons p l ih =>
    intro a bd
    obtain ⟨n, b⟩ := p
    have hn : 3 ≤ n := hl (n, b) (by simp)
    obtain ⟨h1, _, _⟩ := back_vblock a bd b n hn
    obtain ⟨w1, w2⟩ := vblock_writes a bd b n hn
    obtain ⟨i1, i2⟩ := ih (fun p hp => hl p (by simp [hp])) (bitStep a b) b.1
    simp only [vblocks, outsB_append, List.map_append, h1, w1, w2, i1, i2, blkP, blkF, flatV]
    exact ⟨trivial, trivial⟩

/-- `o_receive_error` cycle by cycle -/
theorem outs_verrs (l : List (Nat × (Bool × Bool))) (hl : ∀ p ∈ l, 3 ≤ p.1) (a : BB) (bd : Bool) :
    (outsB (conc a bd) (vblocks l)).map (·.rxErr) = (bitSEsD a l).map (·.2) := by
  obtain ⟨_, _, h3⟩ := back_vblocks l hl a bd
  rw [← h3, List.map_map]
  rfl

/-! ### the outputs of the receive chain over a drifting packet -/

theorem run_packetD_outs (c : Nat) (e : Bool) (hc : c ≤ 6) (k : Nat) (bits : List Bool) (m : Nat)
    (cells : List Cell)
    (hs : cells.map (·.1) = (nrzi true (syncBits ++ bits)).map lvl ++ [.SE0, .SE0])
    (ht : trackable (packetCells cells m) = true) :
    ∃ c0 pre l, c0 ≤ 6 ∧ pre.length = k + 7 ∧ Quiet e pre ∧ (∀ p ∈ l, 3 ≤ p.1) ∧
      l.map (·.2) = packetBits bits m ∧
      (FsRx.run (idleSt c e) (rxInputD k cells m)).2 =
        pre ++ outsB (conc ⟨0, c0, srInit, e⟩ true) (vblocks l) := by
  have hsyms : (packetCells cells m).map (·.1) = packetWave bits m := by
    simp only [packetCells, List.map_append, hs, List.map_replicate, packetWave, List.append_assoc]
    congr 1
  obtain ⟨hshape, hbits⟩ := packet_shape bits m
  rw [hshape] at hsyms
  match hpc : packetCells cells m, hsyms with
  | (d0, n0, g0) :: (d1, n1, g1) :: W, hsyms =>
    simp only [List.map, List.cons.injEq] at hsyms
    obtain ⟨hd0, hd1, hW⟩ := hsyms
    subst hd0 hd1
    rw [hpc] at ht
    simp only [trackable, track, Bool.and_eq_true] at ht
    obtain ⟨⟨hk0, _⟩, ht1⟩ := ht
    obtain ⟨_, _, hn3, hn5, _, _, _⟩ := (okCell_iff 3 .J .K n0).mp hk0
    have hnk : nextK 3 .J .K n0 = 7 - n0 := by simp [nextK]
    rw [hnk] at ht1
    obtain ⟨⟨c1, hc1, q1⟩, q2, q3⟩ := idle_run (k / 4) c e hc
    obtain ⟨l1, l2, l3⟩ := lockD g0 g1 ⟨k % 4, Nat.mod_lt _ (by omega)⟩ ⟨n0, by omega⟩ c1 e hc1 hn3
    simp only at l1 l2 l3
    have hin : rxInputD k cells m =
        jn (4 * (k / 4)) ++ ((jn (k % 4) ++ (cellIn .K n0 g0 ++ cellIn .J (7 - n0) g1)) ++ dblocks (7 - n0) .K .J n1 W) := by
      have hk : jn k = jn (4 * (k / 4)) ++ jn (k % 4) := by
        simp only [jn, List.replicate_append_replicate]; congr 1; omega
      have hw := dwave_dblocks W (7 - n0) .K .J n1 g1 ht1
      have hd : dwave ((.K, n0, g0) :: (.J, n1, g1) :: W) = cellIn .K n0 g0 ++ dwave ((.J, n1, g1) :: W) := rfl
      simp only [rxInputD, hpc]
      rw [hd, hk, ← rep_J 3]
      simp only [List.append_assoc]
      rw [← hw]
    obtain ⟨f1, f2⟩ := front_blocksD W false (7 - n0) .K .J n1 g1 ht1
    have hbits' : (dbits false (7 - n0) .K .J n1 W).map (·.2) = packetBits bits m := by
      rw [dbits_bits, hW, ← hbits, hshape]
      simp [symBits, bitOf, dkOf, se0Of, List.dropLast]
    have hlens : ∀ p ∈ dbits false (7 - n0) .K .J n1 W, 3 ≤ p.1 :=
      fun p hp => (dbits_lens W false (7 - n0) .K .J n1 g1 ht1 p hp).1
    refine ⟨bsStep (bsStep c1 true) true,
      (FsRx.run (idleSt c e) (jn (4 * (k / 4)))).2 ++ (FsRx.run (idleSt c1 e)
        (jn (k % 4) ++ (cellIn .K n0 g0 ++ cellIn .J (7 - n0) g1))).2,
      dbits false (7 - n0) .K .J n1 W,
      bsStep_le _ _ (bsStep_le _ _ hc1), ?_, ?_, hlens, hbits', ?_⟩
    · simp only [List.length_append, run_length, jn, List.length_replicate, cellIn, rep, List.length_cons]
      omega
    · intro o ho
      rcases List.mem_append.mp ho with ho | ho
      · have := q3 o ho
        simp only [seOf, Prod.mk.injEq] at this
        exact ⟨(quiet_of_events _ q2 o ho).1, (quiet_of_events _ q2 o ho).2, this.2⟩
      · have := l3 o ho
        simp only [seOf, Prod.mk.injEq] at this
        exact ⟨(quiet_of_events _ l2 o ho).1, (quiet_of_events _ l2 o ho).2, this.2⟩
    · rw [hin, FsRx.run_append, q1, FsRx.run_append, l1, run_split]
      simp only [f2, List.append_assoc]

end LunaVerif.FsRxCdc
