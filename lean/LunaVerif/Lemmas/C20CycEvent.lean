import LunaVerif.Lemmas.C20CycMain
import LunaVerif.Props.C20
/-!
# C20 — cycles refine events, handshake-response case

The event-level full-device model (`Model/Device/Full.lean`) answers an OUT/SETUP data packet (and a PING or a
NAKed/STALLed IN token) with `Resp.hs pid`; `C20.wire (.hs pid) = [pidByte pid]` is that response's wire image.
At the cycle level the endpoint that owns the transaction raises one of `handshakes_out.{ack,nak,stall}` in the
cycle of the `ready_for_response` pulse (environment of `DevCyc`).  `handshake_response_wire` shows that the
composition then puts exactly the wire image of the event-level response on the UTMI transmit port: nothing in the
request cycle, then `tx_valid` with `tx_data = pidByte pid` in every cycle up to and including the first cycle with
`tx_ready`, one accepted byte in total, after which both transmitters are idle again; `pid` is the requested handshake
(STALL over NAK over ACK as in `USBHandshakeGenerator`).  With `tx_never_during_rx` (the request cycle is a pulse
cycle, hence inside the response window) this is the cycle-level picture of one OUT-data -> ACK/NAK transaction.

What is NOT proved: that the endpoint requests the handshake the event model predicts (that needs the cycle-level
endpoint models of C11/C13/C17 composed in; the event-level model is tied to the real device by co-simulation).
-/
namespace LunaVerif.DevCyc
open LunaVerif LunaVerif.Device

/-- The handshake an endpoint requests in this cycle (later `If` wins in the generator: stall over nak over ack). -/
def hsOf (i : In) : Nat := if i.stall then PID_STALL else if i.nak then PID_NAK else PID_ACK

/-- Bytes accepted by the PHY: `tx_data` of the cycles with `tx_valid & tx_ready`. -/
def accepted : List Out → List In → List Nat
  | o :: os, i :: is => if o.txValid && i.txReady then o.txData :: accepted os is else accepted os is
  | _, _ => []

theorem hs_request_loads (c : Config) (s : State) (i : In) (h : s.hs.transmit = false) (hr : hsReq i = true) :
    (step c s i).1.hs = ⟨true, C20.pidByte (hsOf i)⟩ := by
  simp only [step, Handshake.Gen.step, hsIn, h, hsOf, hsReq] at hr ⊢
  by_cases hst : i.stall = true
  · simp [hst]; decide
  · by_cases hn : i.nak = true
    · simp [hst, hn]; decide
    · have ha : i.ack = true := by simp_all
      simp [hst, hn, ha]; decide

theorem idle_cycle_silent (c : Config) (s : State) (i : In) (h : s.hs.transmit = false) (hg : s.gen.fsm = .idle)
    (hrs : i.rsValid = false) : (step c s i).2.txValid = false := by
  rw [out_txValid]
  simp [Abs.aTxValid, skel, skelIn, h, hg, hrs, Abs.genValid]

theorem gen_stays_idle (c : Config) (s : State) (i : In) (hg : s.gen.fsm = .idle) (hs : sStart s i = false) :
    (step c s i).1.gen.fsm = .idle := by
  have h1 : (i.sValid && (i.sFirst || i.sLast)) = false := by simpa [sStart, hg] using hs
  have := gen_fsm s.gen i (skelIn c s i) rfl rfl rfl rfl rfl
  simp only [step] at this ⊢
  rw [this]
  simp [Abs.genNext, hg, skelIn, h1]

theorem hs_transmit_cycle (c : Config) (s : State) (i : In) (b : Nat) (h : s.hs = ⟨true, b⟩) (hg : s.gen.fsm = .idle)
    (hrs : i.rsValid = false) :
    (step c s i).2.txValid = true ∧ (step c s i).2.txData = b ∧
      (step c s i).1.hs = ⟨!i.txReady, b⟩ := by
  have hgv : (DataGenerator.fsmStep s.gen (genIn i)).2.1 = false := by
    rw [gen_valid s.gen i (skelIn c s i) rfl]; simp [Abs.genValid, hg]
  refine ⟨?_, ?_, ?_⟩
  · rw [out_txValid]; simp [Abs.aTxValid, skel, h]
  · simp only [step, TxMux.mux, hgv, hrs, Handshake.Gen.step, h]
    simp [TxMux.encode, TxMux.validIdx, TxMux.dataAt]
  · simp only [step, Handshake.Gen.step, hsIn, h]
    cases i.txReady <;> simp

/-- The waiting cycles: the PHY is not ready, nothing else is requested. -/
def WaitCycle (i : In) : Prop :=
  i.txReady = false ∧ i.rsValid = false ∧ (i.sValid && (i.sFirst || i.sLast)) = false

theorem hs_wait_run (c : Config) (b : Nat) (waits : List In) (hw : ∀ w ∈ waits, WaitCycle w) (iR : In)
    (hR : iR.txReady = true ∧ iR.rsValid = false ∧ (iR.sValid && (iR.sFirst || iR.sLast)) = false) (s : State)
    (h : s.hs = ⟨true, b⟩) (hg : s.gen.fsm = .idle) :
    accepted (run c s (waits ++ [iR])) (waits ++ [iR]) = [b] ∧
    (∀ o ∈ run c s (waits ++ [iR]), o.txValid = true ∧ o.txData = b) := by
  induction waits generalizing s with
  | nil =>
    obtain ⟨h1, h2, _⟩ := hs_transmit_cycle c s iR b h hg hR.2.1
    simp [run, accepted, h1, h2, hR.1]
  | cons w ws ih =>
    have hww := hw w (List.mem_cons_self ..)
    obtain ⟨h1, h2, h3⟩ := hs_transmit_cycle c s w b h hg hww.2.1
    have hg' : (step c s w).1.gen.fsm = .idle := gen_stays_idle c s w hg (by simp [sStart, hg, hww.2.2])
    have h3' : (step c s w).1.hs = ⟨true, b⟩ := by simpa [hww.1] using h3
    obtain ⟨ih1, ih2⟩ := ih (fun x hx => hw x (List.mem_cons_of_mem _ hx)) (step c s w).1 h3' hg'
    constructor
    · simp only [List.cons_append, run, accepted, h1, hww.1, Bool.and_false]
      exact ih1
    · intro o ho
      simp only [List.cons_append, run, List.mem_cons] at ho
      rcases ho with rfl | ho
      · exact ⟨h1, h2⟩
      · exact ih2 o ho

/-- **Cycles refine events, handshake response**: from a state with both transmitters idle, a handshake request in
cycle 0 makes the composition transmit exactly the wire image of the event-level response `Resp.hs (hsOf i0)`:
silent in the request cycle, then `tx_valid` with the PID byte until the PHY takes it, one byte in total. -/
theorem handshake_response_wire (c : Config) (s : State) (i0 : In) (waits : List In) (iR : In)
    (hidle : s.hs.transmit = false) (hgen : s.gen.fsm = .idle)
    (hreq : hsReq i0 = true) (h0 : i0.rsValid = false ∧ sStart s i0 = false)
    (hw : ∀ w ∈ waits, WaitCycle w)
    (hR : iR.txReady = true ∧ iR.rsValid = false ∧ (iR.sValid && (iR.sFirst || iR.sLast)) = false) :
    accepted (run c s (i0 :: (waits ++ [iR]))) (i0 :: (waits ++ [iR])) = C20.wire (.hs (hsOf i0)) ∧
    (step c s i0).2.txValid = false ∧
    (∀ o ∈ run c (step c s i0).1 (waits ++ [iR]), o.txValid = true ∧ o.txData = C20.pidByte (hsOf i0)) := by
  have hsil := idle_cycle_silent c s i0 hidle hgen h0.1
  have hload := hs_request_loads c s i0 hidle hreq
  have hg' := gen_stays_idle c s i0 hgen h0.2
  obtain ⟨r1, r2⟩ := hs_wait_run c (C20.pidByte (hsOf i0)) waits hw iR hR (step c s i0).1 hload hg'
  refine ⟨?_, hsil, r2⟩
  simp only [run, accepted, hsil, Bool.false_and]
  simpa [C20.wire] using r1

/-- The requested handshake is one of the three the event-level model can answer with (`C20.RespOk`). -/
theorem hsOf_ok (i : In) : C20.RespOk (.hs (hsOf i)) := by
  simp only [C20.RespOk, hsOf]
  cases i.stall <;> cases i.nak <;> simp

/-- Non-vacuity: the NAK example of `C20CycMain` (request at the pulse, PHY ready in the next cycle). -/
example : accepted (run exCfg init exNak) exNak = C20.wire (.hs PID_NAK) := by decide

end LunaVerif.DevCyc
