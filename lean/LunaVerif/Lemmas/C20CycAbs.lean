import LunaVerif.Model.Device.DevCyc
/-!
# C20 — control skeleton of the cycle-level device composition

`A` keeps of the composed state (`DevCyc.State`) only what the timing argument needs: the FSM states of the four
packet-layer units, the two inter-packet counters and whether the tokenizer's `pid` register is IN/PING.  `AI` is what
one cycle's inputs (and the data registers) decide, as booleans.  `astep` is the skeleton's clock cycle;
`Lemmas/C20CycRefine.lean` proves that the skeleton of `DevCyc.step` is `astep` of the skeleton, so the invariant proved
here (`Inv`, `inv_step`) is an invariant of the composition.
-/
namespace LunaVerif.DevCyc.Abs
open LunaVerif LunaVerif.DevCyc

abbrev TF := TokenDetector.Fsm
abbrev RF := DataReceiver.Fsm
abbrev GF := DataGenerator.Fsm

structure A where
  tf    : TF
  armed : Bool      -- the tokenizer's `pid` register is IN or PING
  ct    : Nat       -- token detector's private timer
  rf    : RF
  cs    : Nat       -- shared timer
  ht    : Bool      -- handshake generator is in TRANSMIT
  gf    : GF
deriving DecidableEq, Repr

structure AI where
  active     : Bool
  valid      : Bool
  isTok      : Bool     -- `isTokenPid rx_data`
  isData     : Bool     -- `isDataPid rx_data`
  crcOk      : Bool     -- token CRC5 check
  sof        : Bool     -- `current_pid == SOF`
  applicable : Bool     -- address filter passes
  cpidArm    : Bool     -- `current_pid` is IN or PING
  crcMatch   : Bool     -- receiver's CRC16 comparison
  hsReq      : Bool
  sRaw       : Bool     -- stream.valid & (first | last)
  sValid     : Bool
  sLast      : Bool
  txReady    : Bool
  isZlp      : Bool     -- generator's `is_zlp` register
  envStart   : Bool
  rsValid    : Bool
deriving DecidableEq, Repr

def tokNext (tf : TF) (active valid isTok crcOk : Bool) : TF :=
  match tf with
  | .idle => if active then .readPid else .idle
  | .readPid => if !active then .idle else if valid then (if isTok then .readToken0 else .irrelevant) else .readPid
  | .readToken0 => if !active then .idle else if valid then .readToken1 else .readToken0
  | .readToken1 => if !active then .idle else if valid then (if crcOk then .tokenComplete else .irrelevant) else .readToken1
  | .tokenComplete => if !active then .idle else if valid then .irrelevant else .tokenComplete
  | .irrelevant => if !active then .idle else .irrelevant

def rxNext (rf : RF) (active valid isData crcMatch allowed : Bool) : RF :=
  match rf with
  | .idle => if active then .readPid else .idle
  | .readPid => if !active then .idle else if valid then (if isData then .first else .irrelevant) else .readPid
  | .first => if !active then .idle else if valid then .second else .first
  | .second => if valid then .emit else if !active then .idle else .second
  | .emit => if !active then (if crcMatch then .delay else .idle) else .emit
  | .delay => if allowed then .idle else .delay
  | .irrelevant => if !active then .idle else .irrelevant

def genNext (gf : GF) (ai : AI) : GF :=
  match gf with
  | .idle => if ai.sRaw then .sendPid else .idle
  | .sendPid => if ai.txReady then (if ai.isZlp then .sendCrcFirst else .sendPayload) else .sendPid
  | .sendPayload => if ai.txReady && (ai.sLast || !ai.sValid) then .sendCrcFirst else .sendPayload
  | .sendCrcFirst => if ai.txReady then .sendCrcSecond else .sendCrcFirst
  | .sendCrcSecond => if ai.txReady then .idle else .sendCrcSecond

def genValid (gf : GF) (ai : AI) : Bool :=
  match gf with
  | .idle => false
  | .sendPayload => ai.sValid
  | _ => true

def cnt (mx c : Nat) (start : Bool) : Nat := if start then 0 else if c < mx + 1 then c + 1 else c

def tokDone (a : A) (ai : AI) : Bool := a.tf == .tokenComplete && !ai.active
def tokStart (a : A) (ai : AI) : Bool := tokDone a ai && !ai.sof && ai.applicable
def rxStart (a : A) (ai : AI) : Bool := a.rf == .emit && !ai.active && ai.crcMatch

def astep (d mx : Nat) (a : A) (ai : AI) : A :=
  { tf := tokNext a.tf ai.active ai.valid ai.isTok ai.crcOk
    armed := if tokDone a ai && !ai.sof then ai.applicable && ai.cpidArm else a.armed
    ct := cnt mx a.ct (tokStart a ai)
    rf := rxNext a.rf ai.active ai.valid ai.isData ai.crcMatch (a.cs == d)
    cs := cnt mx a.cs (rxStart a ai || ai.envStart)
    ht := if !a.ht then ai.hsReq else !ai.txReady
    gf := genNext a.gf ai }

def aSol (a : A) (ai : AI) : Bool := (tokStart a ai && ai.cpidArm) || rxStart a ai
def aTxValid (a : A) (ai : AI) : Bool := ai.rsValid || genValid a.gf ai || a.ht
def aPulse (d : Nat) (a : A) : Bool := (a.ct == d && a.armed) || (a.rf == .delay && a.cs == d)
def aSStart (a : A) (ai : AI) : Bool := a.gf == .idle && ai.sRaw

def aGhostNext (d : Nat) (p : Params) (g : Ghost) (a : A) (ai : AI) : Ghost :=
  { win := winNext p g.win (aSol a ai) (aTxValid a ai), a1 := ai.active, a2 := g.a1,
    pend := pendStep p g.pend (ai.hsReq || aSStart a ai) (aPulse d a) }

def aHostOk (g : Ghost) (ai : AI) : Bool := (g.win == .closed || !ai.active) && (!ai.valid || ai.active)

def aEnvOk (d : Nat) (g : Ghost) (a : A) (ai : AI) : Bool :=
  !ai.rsValid
  && (!(ai.hsReq || aSStart a ai) || aPulse d a || g.pend.isSome)
  && !(ai.hsReq && aSStart a ai)
  && (!(a.gf == .sendPayload) || ai.sValid)
  && (!ai.envStart || (!g.a1 && g.a2))

/-- A byte is not both a token PID and a data PID. -/
def aiOk (ai : AI) : Bool := !(ai.isTok && ai.isData)

/-! ## The invariant -/

/-- The token detector and the receiver parse the same packet in lock-step. -/
def lk : TF → RF → Bool
  | .idle, .idle => true
  | .idle, .delay => true
  | .readPid, .readPid => true
  | .readToken0, .irrelevant => true
  | .readToken1, .irrelevant => true
  | .tokenComplete, .irrelevant => true
  | .irrelevant, .first => true
  | .irrelevant, .second => true
  | .irrelevant, .emit => true
  | .irrelevant, .irrelevant => true
  | _, _ => false

def tokArmed (d : Nat) (a : A) : Prop := a.armed = true ∧ a.ct ≤ d

instance (d : Nat) (a : A) : Decidable (tokArmed d a) := by unfold tokArmed; infer_instance

def quietTx (a : A) : Prop := a.ht = false ∧ a.gf = .idle

/-- Exactly one of five situations holds. -/
def Mode (d : Nat) (p : Params) (a : A) (g : Ghost) : Prop :=
  -- M0 nothing owed
  (quietTx a ∧ ¬ tokArmed d a ∧ a.rf ≠ .delay ∧ g.pend = none) ∨
  -- M1 an IN/PING token has ended, its timer has not reached the delay yet
  (quietTx a ∧ tokArmed d a ∧ a.rf ≠ .delay ∧ g.pend = none ∧ g.win = .wait a.ct) ∨
  -- M2 a good data packet has ended, the receiver waits for the shared timer
  (quietTx a ∧ ¬ tokArmed d a ∧ a.rf = .delay ∧ g.pend = none ∧ a.cs ≤ d ∧
      ∃ k, g.win = .wait k ∧ (k = a.cs ∨ k = a.cs + 1) ∧ (1 ≤ k → g.a2 = false)) ∨
  -- M3 a pulse has been given and not been answered yet
  (quietTx a ∧ ¬ tokArmed d a ∧ a.rf ≠ .delay ∧ ∃ j k, g.pend = some j ∧ j ≤ p.L ∧ g.win = .wait k ∧ k ≤ d + 2 + j) ∨
  -- M4 exactly one transmitter is busy
  (((a.ht = true ∧ a.gf = .idle) ∨ (a.ht = false ∧ a.gf ≠ .idle)) ∧ ¬ tokArmed d a ∧ a.rf ≠ .delay ∧ g.pend = none ∧
      g.win ≠ .closed)

structure Inv (d : Nat) (p : Params) (a : A) (g : Ghost) : Prop where
  act  : g.a1 = true → g.win = .closed
  tokA : a.tf ≠ .idle → g.a1 = true
  rxA  : a.rf ≠ .idle → a.rf ≠ .delay → g.a1 = true
  lock : lk a.tf a.rf = true
  mode : Mode d p a g

def aInit : A := ⟨.idle, false, 0, .idle, 0, false, .idle⟩

theorem inv_init (d : Nat) (p : Params) : Inv d p aInit ghostInit := by
  refine ⟨by simp [ghostInit], by simp [aInit], by simp [aInit], by simp [aInit, lk], ?_⟩
  left
  simp [quietTx, tokArmed, aInit, ghostInit]

/-! ### Lock-step -/

theorem lk_step (tf : TF) (rf : RF) (active valid isTok isData crcOk crcMatch allowed : Bool)
    (h : lk tf rf = true) (hd : rf = .delay → active = false) (hv : valid = true → active = true)
    (hx : (isTok && isData) = false) :
    lk (tokNext tf active valid isTok crcOk) (rxNext rf active valid isData crcMatch allowed) = true := by
  cases tf <;> cases rf <;> simp [lk] at h <;>
    cases active <;> cases valid <;> simp_all [tokNext, rxNext, lk] <;>
    (try (cases isTok <;> cases isData <;> simp_all)) <;>
    (try (cases crcOk <;> simp_all)) <;>
    (try (cases crcMatch <;> simp_all)) <;>
    (try (cases allowed <;> simp_all))

theorem tokNext_active (tf : TF) (active valid isTok crcOk : Bool)
    (h : tokNext tf active valid isTok crcOk ≠ .idle) : active = true := by
  cases tf <;> cases active <;> simp_all [tokNext]

theorem rxNext_active (rf : RF) (active valid isData crcMatch allowed : Bool) (hv : valid = true → active = true)
    (h1 : rxNext rf active valid isData crcMatch allowed ≠ .idle)
    (h2 : rxNext rf active valid isData crcMatch allowed ≠ .delay) : active = true := by
  cases rf <;> cases active <;> cases valid <;> simp_all [rxNext] <;>
    (try (cases crcMatch <;> simp_all)) <;> (try (cases allowed <;> simp_all))

end LunaVerif.DevCyc.Abs
