import LunaVerif.Lemmas.C20Contract
/-!
# C20 — a device whose endpoint side keeps the slot contract satisfies `envOk`

`Link` ties the phase of the (merged) slot to the composed state: an armed slot is exactly the ghost's pending pulse,
a sending slot is exactly a data packet generator that is streaming payload.  With the invariant of the packet layer
(`Abs.Inv`) it gives `envOk` in the cycle and is preserved by the cycle (`slot_cycle`); along a history this discharges
`assumptionsHold` (`assumptions_of_slot`).
-/
namespace LunaVerif.DevCyc
open LunaVerif LunaVerif.DevCyc.Abs LunaVerif.C20Ctr

/-- What the endpoint side drives in a cycle, as a slot signal. -/
def sigOf (i : In) : Sig :=
  { hs := hsReq i, valid := i.sValid, first := i.sFirst, last := i.sLast, tstart := i.timerStart }

/-- `tx.ready` as the endpoints see it (= `transmitter.stream.ready`). -/
def rdyOf (s : State) (i : In) : Bool := s.gen.fsm == .sendPayload && i.txReady

theorem rdyOf_eq (c : Config) (s : State) (i : In) : (step c s i).2.streamReady = rdyOf s i := by
  simp only [step, rdyOf, DataGenerator.fsmStep, genIn]
  cases h : s.gen.fsm <;> simp
  split <;> (try split) <;> rfl

structure Link (s : State) (g : Ghost) (ph : Ph) : Prop where
  armed : ∀ j, ph = .armed j → g.pend = some j
  send  : ph = .sending ↔ ((s.gen.fsm = .sendPid ∧ s.gen.isZlp = false) ∨ s.gen.fsm = .sendPayload)

theorem link_init : Link init ghostInit .idle := by
  refine ⟨(by intro j h; cases h), ?_⟩
  simp [init, DataGenerator.init]

/-- What the five modes say about pulses, pending pulses and the generator. -/
theorem mode_facts {d : Nat} {p : Params} {a : A} {g : Ghost} (h : Mode d p a g) :
    (a.gf ≠ .idle → aPulse d a = false ∧ g.pend = none) ∧ (g.pend ≠ none → aPulse d a = false) ∧
    (aPulse d a = true → g.pend = none) := by
  rcases h with m | m | m | m | m
  · obtain ⟨⟨_, hg⟩, hna, hr, hp⟩ := m
    have := noPulse_of hna hr
    simp_all
  · obtain ⟨⟨_, hg⟩, _, _, hp, _⟩ := m
    simp_all
  · obtain ⟨⟨_, hg⟩, _, _, hp, _⟩ := m
    simp_all
  · obtain ⟨⟨_, hg⟩, hna, hr, _⟩ := m
    have := noPulse_of hna hr
    simp_all
  · obtain ⟨_, hna, hr, hp, _⟩ := m
    have := noPulse_of hna hr
    simp_all


/-- The generator is streaming payload (or about to): it looks at `stream.valid` / `stream.last`. -/
def busyB (g : DataGenerator.State) : Bool := (g.fsm == .sendPid && !g.isZlp) || g.fsm == .sendPayload

theorem busy_next (gs : DataGenerator.State) (gi : DataGenerator.In) :
    busyB (DataGenerator.fsmStep gs gi).1 =
      (match gs.fsm with
       | .idle => gi.first && gi.valid
       | .sendPid => !gs.isZlp
       | .sendPayload => !(gi.ready && (gi.last || !gi.valid))
       | _ => false) := by
  cases h : gs.fsm <;> simp only [DataGenerator.fsmStep, busyB, h] <;>
    cases gi.first <;> cases gi.valid <;> cases gi.last <;> cases gi.ready <;> cases gs.isZlp <;> simp

theorem link_send_iff {s : State} {g : Ghost} {ph : Ph} (hl : Link s g ph) : ph = .sending ↔ busyB s.gen = true := by
  rw [hl.send]
  simp [busyB]

theorem bcase (b : Bool) : b = true ∨ b = false := by cases b <;> simp

theorem busy_iff (g : DataGenerator.State) :
    (g.fsm = .sendPid ∧ g.isZlp = false ∨ g.fsm = .sendPayload) ↔ busyB g = true := by simp [busyB]

theorem link_send_iff_aux {ph : Ph} {b : Bool} : (ph = .sending ↔ b = true) ↔ ((ph == .sending) = b) := by
  cases b <;> simp

theorem slot_envOk (c : Config) (p : Params)
    {s : State} {g : Ghost} {ph : Ph} {i : In} {pul : Bool} (hl : Link s g ph)
    (hrs : i.rsValid = false) (hpul : pul = true → pulse (step c s i).2 = true)
    (hc : (cstep p.L ph pul (rdyOf s i) g.a1 g.a2 (sigOf i)).1 = true) :
    envOk g s i (step c s i).2 = true := by
  simp only [cstep, Bool.and_eq_true] at hc
  obtain ⟨hc, ht⟩ := hc
  have hsend := link_send_iff hl
  simp only [tOk, sigOf] at ht
  simp only [envOk, hrs, Bool.not_false, Bool.true_and, Bool.and_eq_true, ht, and_true]
  generalize pulse (step c s i).2 = P at *
  cases ph with
  | sending =>
    have hb := hsend.mp rfl
    simp only [cok, cokB, sigOf, if_true, Bool.and_eq_true, Bool.not_eq_eq_eq_not, Bool.not_true] at hc
    have hni : (s.gen.fsm == .idle) = false := by
      simp only [busyB, Bool.or_eq_true, Bool.and_eq_true, beq_iff_eq] at hb
      rcases hb with ⟨h1, _⟩ | h1 <;> simp [h1]
    simp [sStart, hni, hc.1, hc.2]
  | idle =>
    have hnb : busyB s.gen = false := by
      cases hb : busyB s.gen with
      | false => rfl
      | true => exact absurd (hsend.mpr hb) (by simp)
    have hnp : (s.gen.fsm == .sendPayload) = false := by
      simp only [busyB, Bool.or_eq_false_iff] at hnb; exact hnb.2
    simp only [cok, cokB, sigOf, bne_self_eq_false, Bool.or_false] at hc
    simp only [hnp, Bool.not_false, Bool.true_or, and_true, sStart]
    cases hh : hsReq i <;> cases hv : i.sValid <;> cases hf : i.sFirst <;> cases hla : i.sLast <;> cases hp : pul <;>
      simp_all
  | armed j =>
    have hnb : busyB s.gen = false := by
      cases hb : busyB s.gen with
      | false => rfl
      | true => exact absurd (hsend.mpr hb) (by simp)
    have hnp : (s.gen.fsm == .sendPayload) = false := by
      simp only [busyB, Bool.or_eq_false_iff] at hnb; exact hnb.2
    have hpe := hl.armed j rfl
    simp only [cok, cokB, sigOf] at hc
    simp only [hnp, Bool.not_false, Bool.true_or, and_true, sStart, hpe, Option.isSome_some, Bool.or_true]
    cases hh : hsReq i <;> cases hv : i.sValid <;> simp_all


theorem gen_next (c : Config) (s : State) (i : In) :
    busyB (step c s i).1.gen = busyB (DataGenerator.fsmStep s.gen (genIn i)).1 := rfl

/-- The link between the slot's phase and the composed state is preserved by a cycle in which the slot keeps the
contract. -/
theorem slot_link (c : Config) (p : Params) (hs : strobes c.tok.timer c.speed = true)
    {s : State} {g : Ghost} {ph : Ph} {i : In} {pul : Bool}
    (hinv : Inv (delayOf c.tok.timer c.speed) p (skel s) g) (hl : Link s g ph)
    (hpul : pul = true → pulse (step c s i).2 = true)
    (hc : (cstep p.L ph pul (rdyOf s i) g.a1 g.a2 (sigOf i)).1 = true) :
    Link (step c s i).1 (ghostNext p g s i (step c s i).2) (cstep p.L ph pul (rdyOf s i) g.a1 g.a2 (sigOf i)).2 := by
  simp only [cstep, Bool.and_eq_true] at hc
  obtain ⟨hc, _⟩ := hc
  have hsend := link_send_iff hl
  obtain ⟨m1, m2, m3⟩ := mode_facts hinv.mode
  rw [← pulse_eq c hs s i] at m1 m2 m3
  have hgf : (skel s).gf = s.gen.fsm := rfl
  rw [hgf] at m1
  generalize hP : pulse (step c s i).2 = P at *
  refine ⟨?_, ?_⟩
  · -- armed
    intro j' hj'
    simp only [cstep, cnext, cnextB, sigOf] at hj'
    simp only [ghostNext, pendNext, hP]
    cases ph with
    | sending => by_cases h : (rdyOf s i && i.sLast) = true <;> simp [h] at hj'
    | idle =>
      simp only [cok, cokB, sigOf, bne_self_eq_false, Bool.or_false] at hc
      cases hh : hsReq i <;> cases hv : i.sValid <;> cases hp : pul <;> cases hfi : i.sFirst <;>
        cases hr : rdyOf s i <;> cases hla : i.sLast <;> simp_all [sStart, pendStep, expire]
    | armed j =>
      have hpe := hl.armed j rfl
      have hPf : P = false := m2 (by simp [hpe])
      subst hPf
      have hpf : pul = false := by cases hp : pul with
        | false => rfl
        | true => simpa using hpul hp
      simp only [cok, cokB, sigOf] at hc
      cases hh : hsReq i <;> cases hv : i.sValid <;> cases hfi : i.sFirst <;>
        cases hr : rdyOf s i <;> cases hla : i.sLast <;> simp_all [sStart, pendStep, expire]
      all_goals (split at hj' <;> simp_all)
  · -- sending
    rw [busy_iff, link_send_iff_aux, gen_next, busy_next]
    simp only [cstep, cnext, cnextB, sigOf, genIn, rdyOf]
    have h5 : s.gen.fsm = .idle ∨ s.gen.fsm = .sendPid ∨ s.gen.fsm = .sendPayload ∨ s.gen.fsm = .sendCrcFirst ∨
        s.gen.fsm = .sendCrcSecond := by cases s.gen.fsm <;> simp
    -- a generator that is busy with something else than payload: the slot is idle, silent and stays idle
    have quiet : s.gen.fsm ≠ .idle → busyB s.gen = false →
        ph = .idle ∧ pul = false ∧ hsReq i = false ∧ i.sValid = false := by
      intro h1 h2
      obtain ⟨hPf, hpe⟩ := m1 h1
      have hpf : pul = false := by
        cases hp : pul with
        | false => rfl
        | true => have := hpul hp; simp [hPf] at this
      have hph : ph = .idle := by
        cases ph with
        | idle => rfl
        | sending => have := hsend.mp rfl; simp [h2] at this
        | armed j => have := hl.armed j rfl; simp [hpe] at this
      subst hph; subst hpf
      obtain ⟨q1, q2, _, _, _⟩ := idle_silent (L := p.L) (rdy := false) hc
      exact ⟨rfl, rfl, q1, q2⟩
    rcases h5 with hf | hf | hf | hf | hf <;> simp only [hf]
    · have hnb : ph ≠ .sending := by
        intro h; have := hsend.mp h; simp [busyB, hf] at this
      cases ph with
      | sending => exact absurd rfl hnb
      | idle =>
        simp only [cok, cokB, sigOf, bne_self_eq_false, Bool.or_false] at hc
        rcases bcase (hsReq i) with hh | hh <;> rcases bcase i.sValid with hv | hv <;>
          rcases bcase i.sFirst with hfi | hfi <;> rcases bcase pul with hp | hp <;> simp_all [expire]
      | armed j =>
        simp only [cok, cokB, sigOf] at hc
        rcases bcase (hsReq i) with hh | hh <;> rcases bcase i.sValid with hv | hv <;>
          rcases bcase i.sFirst with hfi | hfi <;> rcases bcase pul with hp | hp <;> simp_all [expire]
        all_goals (split <;> simp)
    · cases hz : s.gen.isZlp with
      | false =>
        have hph : ph = .sending := hsend.mpr (by simp [busyB, hf, hz])
        subst hph
        simp
      | true =>
        obtain ⟨q1, q2, q3, q4⟩ := quiet (by simp [hf]) (by simp [busyB, hf, hz])
        subst q1
        simp [q2, q3, q4, expire]
    · have hph : ph = .sending := hsend.mpr (by simp [busyB, hf])
      subst hph
      simp only [cok, cokB, sigOf, if_true, Bool.and_eq_true] at hc
      rcases bcase i.txReady with hr | hr <;> rcases bcase i.sLast with hla | hla <;> simp [hc.1, hr, hla]
    · obtain ⟨q1, q2, q3, q4⟩ := quiet (by simp [hf]) (by simp [busyB, hf])
      subst q1
      simp [q2, q3, q4, expire]
    · obtain ⟨q1, q2, q3, q4⟩ := quiet (by simp [hf]) (by simp [busyB, hf])
      subst q1
      simp [q2, q3, q4, expire]


/-! ## Along a history -/

/-- The host assumption alone, along the run. -/
def hostHolds (c : Config) (p : Params) : State → Ghost → List In → Bool
  | _, _, [] => true
  | s, g, i :: is => hostOk g i && hostHolds c p (step c s i).1 (ghostNext p g s i (step c s i).2) is

/-- The endpoint side, seen as ONE slot, keeps the contract along the run; every cycle comes with `pul` = "a pulse is
addressed to the slot" (which must be a real `ready_for_response` pulse), and the reset sequencer is silent. -/
def slotHolds (c : Config) (p : Params) : State → Ghost → Ph → List (In × Bool) → Bool
  | _, _, _, [] => true
  | s, g, ph, (i, pul) :: is =>
    let r := step c s i
    let k := cstep p.L ph pul r.2.streamReady g.a1 g.a2 (sigOf i)
    (!pul || pulse r.2) && !i.rsValid && k.1 && slotHolds c p r.1 (ghostNext p g s i r.2) k.2 is

/-- **`envOk` is a consequence of the slot contract**: if the host keeps `hostOk` and the endpoint side keeps the slot
contract, both assumptions of the cycle-level theorems hold along the run. -/
theorem assumptions_of_slot (c : Config) (p : Params) (hs : strobes c.tok.timer c.speed = true)
    (hT : delayOf c.tok.timer c.speed + p.L + 2 < p.T) (ins : List (In × Bool)) (s : State) (g : Ghost) (ph : Ph)
    (hinv : Inv (delayOf c.tok.timer c.speed) p (skel s) g) (hl : Link s g ph)
    (hh : hostHolds c p s g (ins.map (·.1)) = true) (hsl : slotHolds c p s g ph ins = true) :
    assumptionsHold c p s g (ins.map (·.1)) = true := by
  induction ins generalizing s g ph with
  | nil => rfl
  | cons ip is ih =>
    obtain ⟨i, pul⟩ := ip
    simp only [List.map_cons, hostHolds, slotHolds, Bool.and_eq_true, Bool.or_eq_true, Bool.not_eq_eq_eq_not,
      Bool.not_true] at hh hsl
    obtain ⟨hh1, hh2⟩ := hh
    obtain ⟨⟨⟨hp, hrs⟩, hk⟩, hrest⟩ := hsl
    rw [rdyOf_eq] at hk hrest
    have hpul : pul = true → pulse (step c s i).2 = true := by
      intro h; rcases hp with hp | hp
      · simp [h] at hp
      · exact hp
    have he := slot_envOk c p hl hrs hpul hk
    have hl' := slot_link c p hs hinv hl hpul hk
    simp only [List.map_cons, assumptionsHold, Bool.and_eq_true]
    refine ⟨⟨hh1, he⟩, ?_⟩
    apply ih _ _ _ _ hl' hh2 hrest
    rw [skel_step c hs, ghost_eq c hs]
    rw [hostOk_eq c g s i] at hh1
    rw [envOk_eq c hs] at he
    exact inv_step hinv (skelIn_ok c s i) hh1 he (delay_le_max _ _ hs) hT

/-! ### Non-vacuity -/

/-- Non-vacuity of `assumptions_of_slot`: the NAK history of `C20CycMain` with the pulse of cycle 7 addressed to the
slot (the handshake is requested one cycle later), and the one-byte data history with the pulse of cycle 7 answered
three cycles later (slot armed 0..2, then sending). -/
def withPulseAt (k : Nat) (ins : List In) : List (In × Bool) :=
  (List.zip ins (List.range ins.length)).map (fun (i, t) => (i, t == k))

example : hostHolds exCfg exPar init ghostInit exNak = true ∧
    slotHolds exCfg exPar init ghostInit .idle (withPulseAt 7 exNak) = true := by decide +kernel

example : hostHolds exCfg exPar init ghostInit exData = true ∧
    slotHolds exCfg exPar init ghostInit .idle (withPulseAt 7 exData) = true := by decide +kernel

/-- A request without a pulse addressed to the slot breaks the contract. -/
example : slotHolds exCfg exPar init ghostInit .idle (withPulseAt 99 exNak) = false := by decide +kernel

/-- Non-vacuity of `merge_ok`: an addressed slot that answers NAK next to an idle silent one. -/
example : (cstep 8 .idle true false false false { hs := true }).1 = true ∧
    (cstep 8 .idle false false false false {}).1 = true := by decide

end LunaVerif.DevCyc
