import LunaVerif.Props.C56Uart
/-!
# C56 — AsyncSerialILA: the duration of the UART read-out (ranking function)

The read-out of `AsyncSerialILA` has no back-pressure: the transmitter's `ready` is a function of its own state.  This file
gives the *exact* number of cycles the composite (StreamILA read-out FSM + word transmitter + byte transmitter) needs to become
quiescent, as a ranking function `rankOf` on its states that decreases by exactly one per clock cycle (`live_step`,
`rank_tstep`) and is zero exactly in the quiescent states (`rank_zero_iff`) — for every depth, byte width and divisor, by a
one-step argument, not by unrolling.

The timing view of a state is `TS`: `R` = words the wrapper still has to hand over (0 = wrapper idle), `dv` = `data_valid`,
`P` = bytes pending in the word transmitter's shift register, `L` = cycles still owed to the line by the byte transmitter
(C49's line schedule `Uart.abs`).  With `F = 10·divisor` (one 8N1 frame) and `B = P + w·R` the bytes still to be framed:

    rank = L                      if B = 0
    rank = a + F·B + 1            otherwise, `a` = cycles until the next byte is handed to the line:
                                  `L - 1` if a byte is pending, else `max (L-1) 1` / `max (L-1) 2` (`data_valid` high / low)
-/
namespace LunaVerif.IlaUart
open LunaVerif.Uart LunaVerif.Ila

structure TS where
  R : Nat
  dv : Bool
  P : Nat
  L : Nat
deriving DecidableEq, Repr

def TS.ready (t : TS) : Bool := decide (t.P = 0) || (decide (t.P = 1) && decide (t.L ≤ 1))
def TS.load (t : TS) : Bool := decide (1 ≤ t.P) && decide (t.L ≤ 1)
def TS.accept (t : TS) : Bool := decide (1 ≤ t.R) && t.dv && t.ready

def tstep (F w : Nat) (t : TS) : TS :=
  ⟨if t.accept then t.R - 1 else t.R,
   if decide (1 ≤ t.R) && t.ready then !t.dv else t.dv,
   (if t.load then t.P - 1 else t.P) + (if t.accept then w else 0),
   if t.load then F else t.L - 1⟩

def rank (F w : Nat) (t : TS) : Nat :=
  if t.P + w * t.R = 0 then t.L
  else (if 1 ≤ t.P then t.L - 1 else if t.dv then max (t.L - 1) 1 else max (t.L - 1) 2) + F * (t.P + w * t.R) + 1

theorem rank_tstep (F w : Nat) (hF : 3 ≤ F) (hw : 1 ≤ w) (t : TS) :
    rank F w (tstep F w t) = rank F w t - 1 := by
  obtain ⟨R, dv, P, L⟩ := t
  rcases R with _ | R
  · -- wrapper idle
    rcases P with _ | _ | P
    · simp [rank, tstep, TS.ready, TS.load, TS.accept]
    · by_cases hL : L ≤ 1 <;> simp [rank, tstep, TS.ready, TS.load, TS.accept, hL] <;> omega
    · by_cases hL : L ≤ 1 <;> simp [rank, tstep, TS.ready, TS.load, TS.accept, hL, Nat.mul_add] <;> omega
  · -- wrapper sending
    have hw0 : w ≠ 0 := by omega
    rcases P with _ | _ | P
    · cases dv <;> simp [rank, tstep, TS.ready, TS.load, TS.accept, hw0, hw, Nat.mul_succ, Nat.mul_add] <;> omega
    · by_cases hL : L ≤ 1 <;> cases dv <;>
        simp [rank, tstep, TS.ready, TS.load, TS.accept, hw0, hw, Nat.mul_succ, Nat.mul_add, hL] <;> omega
    · by_cases hL : L ≤ 1 <;> cases dv <;>
        simp [rank, tstep, TS.ready, TS.load, TS.accept, hw0, Nat.mul_succ, Nat.mul_add, hL] <;> omega

theorem bytesLE_length (k v : Nat) : (bytesLE k v).length = k := by
  induction k generalizing v with
  | zero => rfl
  | succ k ih => simp [bytesLE, ih]

theorem pend_length (s : MBState) :
    (pend s).length = (match s.fsm with | .idle => 0 | .transmit => s.bytes + 1) := by
  obtain ⟨f, shift, bytes, u⟩ := s
  cases f <;> simp [pend, bytesLE_length]

/-- byte transmitter, timing view: `ready` iff at most one cycle is owed; the schedule is reloaded with a whole frame
(`10·d` cycles) when a byte is accepted and shrinks by one cycle otherwise -/
theorem uart_timing (d : Nat) (hd : 1 ≤ d) (s : Uart.State) (x : Uart.In) (hs : Uart.Inv d s) :
    (Uart.step d s x).2.ready = decide ((Uart.abs d s).length ≤ 1) ∧
    (Uart.abs d (Uart.step d s x).1).length =
      (if x.valid = true ∧ (Uart.abs d s).length ≤ 1 then 10 * d else (Uart.abs d s).length - 1) ∧
    Uart.Inv d (Uart.step d s x).1 := by
  obtain ⟨ha, ho, hi⟩ := step_abs d hd s x hs
  refine ⟨by rw [ho, lineOut_ready], ?_, hi⟩
  rw [ha, lineNext]
  by_cases h : (Uart.abs d s).length ≤ 1 ∧ x.valid = true
  · rw [if_pos h, if_pos ⟨h.2, h.1⟩, expand_length, frame_length]; omega
  · rw [if_neg h, if_neg (fun h' => h ⟨h'.2, h'.1⟩), List.length_tail]

/-- word transmitter, timing view (`P` = bytes pending, `L` = cycles owed to the line) -/
theorem mb_timing (d w : Nat) (hd : 1 ≤ d) (hw : 1 ≤ w) (u : MBState) (x : Uart.In) (hu : Uart.Inv d u.uart)
    (P L : Nat) (hP : (pend u).length = P) (hL : (Uart.abs d u.uart).length = L) :
    (mbStep d w u x).2.ready = (decide (P = 0) || (decide (P = 1) && decide (L ≤ 1))) ∧
    (pend (mbStep d w u x).1).length = (if decide (1 ≤ P) && decide (L ≤ 1) then P - 1 else P) +
      (if x.valid && (decide (P = 0) || (decide (P = 1) && decide (L ≤ 1))) then w else 0) ∧
    (Uart.abs d (mbStep d w u x).1.uart).length = (if decide (1 ≤ P) && decide (L ≤ 1) then 10 * d else L - 1) ∧
    Uart.Inv d (mbStep d w u x).1.uart := by
  obtain ⟨f, shift, bytes, uu⟩ := u
  obtain ⟨hur, hul, hui⟩ := uart_timing d hd uu (innerIn ⟨f, shift, bytes, uu⟩) hu
  obtain ⟨hu1, _⟩ := mbStep_uart d w ⟨f, shift, bytes, uu⟩ x
  have hrdy := mbStep_ready d w ⟨f, shift, bytes, uu⟩ x
  simp only at hL hu1 hrdy
  rw [hur, hL] at hrdy
  rw [hL] at hul hur
  rw [pend_length] at hP
  rw [hu1, pend_length]
  refine ⟨?_, ?_, ?_, hui⟩
  · rw [hrdy]
    cases f <;> simp only at hP ⊢ <;> subst hP <;> simp [Bool.and_comm]
  · cases f <;> simp only at hP <;> subst hP
    · cases hv : x.valid <;> simp [mbStep, hv] <;> omega
    · simp only [mbStep, innerIn] at hur ⊢
      rw [hur]
      by_cases h1 : L ≤ 1
      · rcases bytes with _ | b
        · cases hv : x.valid <;> simp [h1] <;> omega
        · simp [h1]
      · simp [h1]
  · rw [hul]
    cases f <;> simp only at hP <;> subst hP <;> simp [innerIn]


theorem wrap_sending (c : Ila.Config) (s : IlaStream.State) (i : IlaStream.In) (h : s.fsm = .sending) :
    (IlaStream.step c s i).2.valid = s.dv ∧
    (IlaStream.step c s i).1.dv = (if i.ready then !s.dv else s.dv) ∧
    (IlaStream.step c s i).1.fsm = (if i.ready && s.dv && decide (s.csn = c.depth - 1) then .idle else .sending) ∧
    (IlaStream.step c s i).1.csn = (if i.ready && s.dv then (s.csn + 1) % 2 ^ rangeWidth c.depth else s.csn) := by
  obtain ⟨core, f, csn, fi, dv⟩ := s
  simp only at h; subst h
  cases hr : i.ready <;> cases dv <;> simp [IlaStream.step, hr]

theorem wrap_idle (c : Ila.Config) (s : IlaStream.State) (i : IlaStream.In) (h : s.fsm = .idle) (hi : i.trigger = false) :
    (IlaStream.step c s i).2.valid = false ∧ (IlaStream.step c s i).1.dv = s.dv ∧
    (IlaStream.step c s i).1.fsm = .idle ∧ (IlaStream.step c s i).1.csn = s.csn := by
  obtain ⟨core, f, csn, fi, dv⟩ := s
  simp only at h; subst h
  simp [IlaStream.step, hi]

def tsOf (c : Config) (s : State) : TS :=
  ⟨(match s.ila.fsm with | .sending => c.ila.depth - s.ila.csn | _ => 0), s.ila.dv,
   (pend s.uart).length, (Uart.abs c.d s.uart.uart).length⟩

def Live (c : Config) (s : State) : Prop :=
  s.ila.fsm ≠ .sampling ∧ (s.ila.fsm = .sending → s.ila.csn < c.ila.depth) ∧ Uart.Inv c.d s.uart.uart

theorem live_step (c : Config) (hd : 1 ≤ c.d) (hw : 1 ≤ c.w) (s : State) (hs : Live c s) (i : In)
    (hi : s.ila.fsm = .idle → i.trigger = false) :
    tsOf c (step c s i).1 = tstep (10 * c.d) c.w (tsOf c s) ∧ Live c (step c s i).1 := by
  obtain ⟨hns, hj, hu⟩ := hs
  obtain ⟨_, mP, mL, mI⟩ := mb_timing c.d c.w hd hw s.uart (uartIn c s i) hu _ _ rfl rfl
  obtain ⟨mR, _, _, _⟩ := mb_timing c.d c.w hd hw s.uart ⟨false, 0⟩ hu _ _ rfl rfl
  have hrdy : (ilaIn c s i).ready = _ := mR
  have hval : (uartIn c s i).valid = (IlaStream.step c.ila s.ila (ilaIn c s i)).2.valid := rfl
  have e1 : (step c s i).1.uart = (mbStep c.d c.w s.uart (uartIn c s i)).1 := rfl
  have e2 : (step c s i).1.ila = (IlaStream.step c.ila s.ila (ilaIn c s i)).1 := rfl
  have hP := le_two_pow_rangeWidth c.ila.depth
  cases hf : s.ila.fsm
  · -- wrapper idle
    obtain ⟨wv, wd, wf, wc⟩ := wrap_idle c.ila s.ila (ilaIn c s i) hf (hi hf)
    rw [hval, wv] at mP
    refine ⟨?_, ?_, ?_, ?_⟩
    · simp only [tsOf, tstep, TS.ready, TS.load, TS.accept, e1, e2, hf, wf, wd, mP, mL]
      simp
    · rw [e2, wf]; simp
    · rw [e2, wf]; simp
    · rw [e1]; exact mI
  · exact absurd hf hns
  · -- wrapper sending
    obtain ⟨wv, wd, wf, wc⟩ := wrap_sending c.ila s.ila (ilaIn c s i) hf
    have hj' := hj hf
    rw [hval, wv] at mP
    rw [hrdy] at wd wf wc
    generalize hr : (decide ((pend s.uart).length = 0) || decide ((pend s.uart).length = 1) &&
      decide ((Uart.abs c.d s.uart.uart).length ≤ 1)) = r at *
    have hR : decide (1 ≤ c.ila.depth - s.ila.csn) = true := by simp; omega
    by_cases hlast : s.ila.csn = c.ila.depth - 1
    · refine ⟨?_, ?_, ?_, ?_⟩
      · simp only [tsOf, tstep, TS.ready, TS.load, TS.accept, e1, e2, hf, wf, wd, wc, mP, mL, hr, hR]
        cases r <;> cases hdv : s.ila.dv <;> simp [hlast] <;> omega
      · rw [e2, wf]; split <;> simp
      · rw [e2, wf, wc]
        cases r <;> cases hdv : s.ila.dv <;> simp [hlast] <;> omega
      · rw [e1]; exact mI
    · have hmod : (s.ila.csn + 1) % 2 ^ rangeWidth c.ila.depth = s.ila.csn + 1 := Nat.mod_eq_of_lt (by omega)
      refine ⟨?_, ?_, ?_, ?_⟩
      · simp only [tsOf, tstep, TS.ready, TS.load, TS.accept, e1, e2, hf, wf, wd, wc, mP, mL, hr, hR, hmod]
        cases r <;> cases hdv : s.ila.dv <;> simp [hlast] <;> omega
      · rw [e2, wf]; split <;> simp
      · rw [e2, wf, wc, hmod]
        cases r <;> cases hdv : s.ila.dv <;> simp [hlast] <;> omega
      · rw [e1]; exact mI


/-- the rank of a state of the composite: the exact number of cycles until wrapper and transmitter are quiescent -/
def rankOf (c : Config) (s : State) : Nat := rank (10 * c.d) c.w (tsOf c s)

theorem rank_run (c : Config) (hd : 1 ≤ c.d) (hw : 1 ≤ c.w) (ys : List In) : ∀ s, Live c s → noRetrigger c s ys →
    rankOf c (runState c s ys) = rankOf c s - ys.length ∧ Live c (runState c s ys) := by
  induction ys with
  | nil => intro s hs _; exact ⟨rfl, hs⟩
  | cons y ys ih =>
    intro s hs hq
    obtain ⟨h1, h2⟩ := live_step c hd hw s hs y hq.1
    obtain ⟨i1, i2⟩ := ih _ h2 hq.2
    refine ⟨?_, i2⟩
    simp only [runState, List.length_cons]
    rw [i1, rankOf, h1, rank_tstep _ _ (by omega) hw]
    simp only [rankOf]; omega

theorem rank_zero_iff (c : Config) (hw : 1 ≤ c.w) (s : State) (hs : Live c s) :
    rankOf c s = 0 ↔ (s.ila.fsm = .idle ∧ UartQuiet s) := by
  obtain ⟨hns, hj, _⟩ := hs
  have hP := pend_length s.uart
  have hL : (Uart.abs c.d s.uart.uart).length = 0 ↔ s.uart.uart.fsm = .idle := by
    constructor
    · intro h
      cases hf : s.uart.uart.fsm
      · rfl
      · exact absurd (List.eq_nil_of_length_eq_zero h) (abs_transmit_ne _ _ hf)
    · intro h; rw [abs_idle _ _ h]; rfl
  simp only [rankOf, rank, tsOf, UartQuiet, hP]
  cases hf : s.ila.fsm
  · cases hm : s.uart.fsm
    · simp [hL]
    · simp
  · exact absurd hf hns
  · have := hj hf
    have hw0 : c.w ≠ 0 := by omega
    have hR : c.w * (c.ila.depth - s.ila.csn) ≠ 0 := Nat.mul_ne_zero hw0 (by omega)
    simp [hR]

end LunaVerif.IlaUart
