/-
C25, transmit chain, 48 MHz (`usb_io`) part: the two 3-stage synchronizers, `TxNRZIEncoder` stepped by the bit strobe
(`counter == 0`), its output flops.  Main result `io_packet`: fed with the per-`usb`-cycle stream (idle, bits with
`fit_oe`, five idle cycles), each value held for four `usb_io` cycles, the D+/D- outputs are undriven for a latency
that depends on the clock phase, then NRZI(bits) ++ SE0 SE0 J with four `usb_io` cycles per symbol, then undriven --
for each of the four possible phases between the `usb` clock and the bit-strobe counter.
-/
import LunaVerif.Model.Phy.FsCodec
import LunaVerif.Model.Phy.FsTx
set_option linter.unusedSimpArgs false
namespace LunaVerif.FsTx
open LunaVerif.FsCodec

/-- what is on the D+/D- pins in one `usb_io` cycle: not driven, or driven with (D+, D-) -/
inductive Line | z | d (p n : Bool)
deriving DecidableEq, Repr

def Sym.line : Sym → Line | .J => .d true false | .K => .d false true | .SE0 => .d false false

/-- the (flopped) outputs of TxNRZIEncoder as a line value -/
def Io.line (io : Io) : Line := if io.oOe then .d io.oP io.oN else .z
/-- the combinational outputs of an encoder state -/
def Nrzi.line (f : Nrzi) : Line := if f.oe then .d f.usbp f.usbn else .z

/-- the 48 MHz part on its own: one `usb_io` cycle per element (`fit_oe`, `fit_dat`) -/
def ioRun : Io → List (Bool × Bool) → List Line × Io
  | io, [] => ([], io)
  | io, x :: xs => ((io.line :: (ioRun (io.next x.2 x.1) xs).1), (ioRun (io.next x.2 x.1) xs).2)

theorem ioRun_append (io : Io) (a b : List (Bool × Bool)) :
    ioRun io (a ++ b) = ((ioRun io a).1 ++ (ioRun (ioRun io a).2 b).1, (ioRun (ioRun io a).2 b).2) := by
  induction a generalizing io with
  | nil => simp [ioRun]
  | cons x xs ih => simp [ioRun, ih]

@[simp] theorem Nrzi.next_novalid (f : Nrzi) (oe d : Bool) : f.next false oe d = f := by
  cases f <;> simp [Nrzi.next]

/-- the encoder states seen in the four `usb_io` cycles of a `usb` cycle in which the encoder goes from `f` to `f'`:
the bit strobe (counter = 0) is the `(3 - phase) % 4`-th of them -/
def fsmBlock (φ : Nat) (f f' : Nrzi) : List Nrzi :=
  List.replicate ((3 - φ) % 4 + 1) f ++ List.replicate (3 - (3 - φ) % 4) f'

/-- what the encoder samples at its bit strobe in a `usb` cycle: the current (`fit_oe`, `fit_dat`) if the strobe is
the last `usb_io` cycle (phase 0; three synchronizer stages), else the previous one -/
def sample (φ : Nat) (p x : Bool × Bool) : Bool × Bool := if φ = 0 then x else p

/-- the 48 MHz part at a `usb` cycle boundary: all synchronizer stages hold the previous (`fit_oe`, `fit_dat`) -/
def Shape (φ : Nat) (p : Bool × Bool) (io : Io) : Prop :=
  io.counter = (φ + 1) % 4 ∧ io.d0 = p.2 ∧ io.d1 = p.2 ∧ io.d2 = p.2 ∧ io.e0 = p.1 ∧ io.e1 = p.1 ∧ io.e2 = p.1

/-- the encoder state whose outputs are in the output flops at the end of the `usb` cycle -/
def fsmLast (φ : Nat) (f f' : Nrzi) : Nrzi := if φ = 0 then f else f'

theorem block (φ : Nat) (hφ : φ < 4) (p x : Bool × Bool) (io : Io) (h : Shape φ p io) :
    (ioRun io [x, x, x, x]).1 = io.line ::
      ((fsmBlock φ io.nrzi (io.nrzi.next true (sample φ p x).1 (sample φ p x).2)).take 3).map Nrzi.line ∧
    Shape φ x (ioRun io [x, x, x, x]).2 ∧
    (ioRun io [x, x, x, x]).2.nrzi = io.nrzi.next true (sample φ p x).1 (sample φ p x).2 ∧
    (ioRun io [x, x, x, x]).2.line =
      (fsmLast φ io.nrzi (io.nrzi.next true (sample φ p x).1 (sample φ p x).2)).line := by
  obtain ⟨hc, h0, h1, h2, h3, h4, h5⟩ := h
  have : φ = 0 ∨ φ = 1 ∨ φ = 2 ∨ φ = 3 := by omega
  rcases this with h | h | h | h <;> subst h <;>
    simp [ioRun, Io.next, hc, h0, h1, h2, h3, h4, h5, fsmBlock, fsmLast, sample, Io.line, Nrzi.line, Shape]

theorem fsmBlock_split (φ : Nat) (hφ : φ < 4) (f f' : Nrzi) :
    fsmBlock φ f f' = (fsmBlock φ f f').take 3 ++ [fsmLast φ f f'] := by
  have : φ = 0 ∨ φ = 1 ∨ φ = 2 ∨ φ = 3 := by omega
  rcases this with h | h | h | h <;> subst h <;> simp [fsmBlock, fsmLast, List.replicate]

/-- every (`fit_oe`, `fit_dat`) is held for the four `usb_io` cycles of its `usb` cycle -/
def held (xs : List (Bool × Bool)) : List (Bool × Bool) := xs.flatMap (fun x => [x, x, x, x])

/-- encoder state during every `usb_io` cycle -/
def blocks (φ : Nat) : Nrzi → Bool × Bool → List (Bool × Bool) → List Nrzi
  | _, _, [] => []
  | f, p, x :: xs =>
    fsmBlock φ f (f.next true (sample φ p x).1 (sample φ p x).2) ++
      blocks φ (f.next true (sample φ p x).1 (sample φ p x).2) x xs

/-- encoder state after each `usb` cycle -/
def trace (φ : Nat) : Nrzi → Bool × Bool → List (Bool × Bool) → List Nrzi
  | _, _, [] => []
  | f, p, x :: xs =>
    f.next true (sample φ p x).1 (sample φ p x).2 :: trace φ (f.next true (sample φ p x).1 (sample φ p x).2) x xs

def finalF (φ : Nat) : Nrzi → Bool × Bool → List (Bool × Bool) → Nrzi
  | f, _, [] => f
  | f, p, x :: xs => finalF φ (f.next true (sample φ p x).1 (sample φ p x).2) x xs

def finalP : Bool × Bool → List (Bool × Bool) → Bool × Bool
  | p, [] => p
  | _, x :: xs => finalP x xs

/-- the D+/D- outputs are the encoder's state one `usb_io` cycle earlier -/
theorem ioRun_held (φ : Nat) (hφ : φ < 4) (xs : List (Bool × Bool)) : ∀ (p : Bool × Bool) (io : Io), Shape φ p io →
    (ioRun io (held xs)).1 ++ [(ioRun io (held xs)).2.line] = io.line :: (blocks φ io.nrzi p xs).map Nrzi.line ∧
    Shape φ (finalP p xs) (ioRun io (held xs)).2 ∧
    (ioRun io (held xs)).2.nrzi = finalF φ io.nrzi p xs := by
  induction xs with
  | nil => intro p io h; simp [held, ioRun, blocks, finalP, finalF, h]
  | cons x xs ih =>
    intro p io h
    obtain ⟨b1, b2, b3, b4⟩ := block φ hφ p x io h
    obtain ⟨i1, i2, i3⟩ := ih x _ b2
    have hh : held (x :: xs) = [x, x, x, x] ++ held xs := by simp [held]
    rw [hh, ioRun_append]
    simp only [blocks, finalP, finalF]
    rw [b3] at i1 i3
    refine ⟨?_, i2, i3⟩
    rw [List.append_assoc, i1, b1, b4]
    conv => rhs; rw [fsmBlock_split φ hφ]
    simp

/-- staggering: the per-`usb_io`-cycle encoder states are the per-`usb`-cycle states, each four times, shifted -/
theorem blocks_trace (φ : Nat) (hφ : φ < 4) (xs : List (Bool × Bool)) : ∀ (f : Nrzi) (p : Bool × Bool),
    blocks φ f p xs ++ List.replicate ((3 - φ) % 4 + 1) (finalF φ f p xs) =
      List.replicate ((3 - φ) % 4 + 1) f ++ (trace φ f p xs).flatMap (List.replicate 4) := by
  induction xs with
  | nil => intro f p; simp [blocks, trace, finalF]
  | cons x xs ih =>
    intro f p
    simp only [blocks, trace, finalF, List.flatMap_cons, List.append_assoc]
    rw [ih]
    have : φ = 0 ∨ φ = 1 ∨ φ = 2 ∨ φ = 3 := by omega
    rcases this with h | h | h | h <;> subst h <;> simp [fsmBlock, List.replicate]

/-! ### the encoder on the bit stream of one packet -/

/-- plain run of the encoder over what it samples at its bit strobes -/
def traceS : Nrzi → List (Bool × Bool) → List Nrzi
  | _, [] => []
  | f, s :: ss => f.next true s.1 s.2 :: traceS (f.next true s.1 s.2) ss

def finalS : Nrzi → List (Bool × Bool) → Nrzi
  | f, [] => f
  | f, s :: ss => finalS (f.next true s.1 s.2) ss

/-- what the encoder samples: the `usb`-cycle values themselves (phase 0) or delayed by one `usb` cycle -/
def samples (φ : Nat) (p : Bool × Bool) (xs : List (Bool × Bool)) : List (Bool × Bool) :=
  if φ = 0 then xs else (p :: xs).dropLast

theorem trace_samples (φ : Nat) (xs : List (Bool × Bool)) : ∀ (f : Nrzi) (p : Bool × Bool),
    trace φ f p xs = traceS f (samples φ p xs) ∧ finalF φ f p xs = finalS f (samples φ p xs) := by
  induction xs with
  | nil => intro f p; by_cases h : φ = 0 <;> simp [trace, finalF, samples, traceS, finalS, h]
  | cons x xs ih =>
    intro f p
    by_cases h : φ = 0
    · have := ih (f.next true x.1 x.2) x
      simp [trace, finalF, samples, traceS, finalS, h, sample] at this ⊢
      exact this
    · have := ih (f.next true p.1 p.2) x
      simp [trace, finalF, samples, traceS, finalS, h, sample] at this ⊢
      exact this

theorem traceS_append (a b : List (Bool × Bool)) : ∀ f : Nrzi,
    traceS f (a ++ b) = traceS f a ++ traceS (finalS f a) b ∧ finalS f (a ++ b) = finalS (finalS f a) b := by
  induction a with
  | nil => intro f; simp [traceS, finalS]
  | cons x xs ih => intro f; simp [traceS, finalS, ih]

/-- not driving: `fit_oe` = 0 -/
def xI : Bool × Bool := (false, false)

def lvlSt (l : Bool) : Nrzi := if l then .dj else .dk

theorem traceS_idle (a : Nat) : traceS .idle (List.replicate a xI) = List.replicate a .idle ∧
    finalS .idle (List.replicate a xI) = .idle := by
  induction a with
  | zero => simp [traceS, finalS]
  | succ a ih => simp [List.replicate_succ, traceS, finalS, xI, Nrzi.next, ih] at ih ⊢; exact ih

def lastLvl : Bool → List Bool → Bool
  | l, [] => l
  | l, b :: bs => lastLvl (if b then l else !l) bs

theorem traceS_bits (bs : List Bool) : ∀ l : Bool,
    traceS (lvlSt l) (bs.map (fun b => (true, b))) = (nrzi l bs).map lvlSt ∧
    finalS (lvlSt l) (bs.map (fun b => (true, b))) = lvlSt (lastLvl l bs) := by
  induction bs with
  | nil => intro l; simp [traceS, finalS, nrzi, lastLvl]
  | cons b bs ih =>
    intro l
    have := ih (if b then l else !l)
    cases b <;> cases l <;> simp [traceS, finalS, nrzi, lastLvl, lvlSt, Nrzi.next] at this ⊢ <;> exact this

theorem traceS_eop (l : Bool) (k : Nat) :
    traceS (lvlSt l) (xI :: xI :: xI :: xI :: List.replicate k xI) =
      [.se0a, .se0b, .eopj, .idle] ++ List.replicate k .idle ∧
    finalS (lvlSt l) (xI :: xI :: xI :: xI :: List.replicate k xI) = .idle := by
  obtain ⟨h1, h2⟩ := traceS_idle k
  cases l <;> simp [traceS, finalS, lvlSt, xI, Nrzi.next] at h1 h2 ⊢ <;> exact ⟨h1, h2⟩

/-- the encoder's states over a packet's bit stream `false :: bs` (SYNC starts with a 0), `a` idle bit times
before and `4 + k` after -/
theorem traceS_packet (a k : Nat) (bs : List Bool) :
    traceS .idle (List.replicate a xI ++ ((false :: bs).map (fun b => (true, b)) ++
        (xI :: xI :: xI :: xI :: List.replicate k xI))) =
      List.replicate a .idle ++ ((nrzi true (false :: bs)).map lvlSt ++ [.se0a, .se0b, .eopj]) ++
        List.replicate (k + 1) .idle ∧
    finalS .idle (List.replicate a xI ++ ((false :: bs).map (fun b => (true, b)) ++
        (xI :: xI :: xI :: xI :: List.replicate k xI))) = .idle := by
  obtain ⟨i1, i2⟩ := traceS_idle a
  obtain ⟨b1, b2⟩ := traceS_bits bs false
  obtain ⟨e1, e2⟩ := traceS_eop (lastLvl false bs) k
  obtain ⟨a1, a2⟩ := traceS_append (List.replicate a xI) ((false :: bs).map (fun b => (true, b)) ++
        (xI :: xI :: xI :: xI :: List.replicate k xI)) .idle
  rw [a1, a2, i1, i2]
  have hdk : lvlSt false = .dk := rfl
  obtain ⟨c1, c2⟩ := traceS_append (bs.map (fun b => (true, b))) (xI :: xI :: xI :: xI :: List.replicate k xI) .dk
  rw [hdk] at b1 b2
  rw [b1, b2, e1] at c1
  rw [b2, e2] at c2
  simp only [List.map_cons, List.cons_append, traceS, finalS, Nrzi.next, Bool.and_self, if_true, nrzi,
    Bool.not_true, Bool.false_eq_true, if_false]
  rw [c1, c2]
  simp [hdk, List.replicate_succ]

theorem rep_add {α : Type} (n m : Nat) (a : α) :
    List.replicate (n + m) a = List.replicate n a ++ List.replicate m a :=
  List.replicate_append_replicate.symm

theorem flatMap_rep {α : Type} (a n : Nat) (x : α) :
    (List.replicate a x).flatMap (List.replicate n) = List.replicate (a * n) x := by
  induction a with
  | zero => simp
  | succ a ih => rw [List.replicate_succ, List.flatMap_cons, ih, List.replicate_append_replicate, Nat.succ_mul, Nat.add_comm]

theorem assemble (j a k : Nat) (hk : j ≤ 4 * k + 2) (outs : List Line) (l : Line) (blk mid : List Nrzi)
    (h1 : outs ++ [l] = Line.z :: blk.map Nrzi.line)
    (h2 : blk ++ List.replicate (j + 1) Nrzi.idle = List.replicate (j + 1) Nrzi.idle ++
      (List.replicate a Nrzi.idle ++ mid ++ List.replicate (k + 1) Nrzi.idle).flatMap (List.replicate 4)) :
    outs = List.replicate (2 + j + 4 * a) Line.z ++ (mid.flatMap (List.replicate 4)).map Nrzi.line ++
      List.replicate (4 * k + 2 - j) Line.z ∧ l = Line.z := by
  have hb : blk = List.replicate (j + 1 + a * 4) Nrzi.idle ++ mid.flatMap (List.replicate 4) ++
      List.replicate (4 * k + 3 - j) Nrzi.idle := by
    apply List.append_cancel_right (bs := List.replicate (j + 1) Nrzi.idle)
    rw [h2]
    simp only [List.flatMap_append, flatMap_rep, List.append_assoc]
    rw [show (k + 1) * 4 = (4 * k + 3 - j) + (j + 1) by omega, rep_add (4 * k + 3 - j) (j + 1), rep_add (j + 1) (a * 4)]
    simp only [List.append_assoc]
  have hz : Nrzi.idle.line = Line.z := rfl
  have h3 : outs ++ [l] = (List.replicate (2 + j + 4 * a) Line.z ++ (mid.flatMap (List.replicate 4)).map Nrzi.line ++
      List.replicate (4 * k + 2 - j) Line.z) ++ [Line.z] := by
    rw [h1, hb]
    simp only [List.map_append, List.map_replicate, hz, List.append_assoc]
    rw [show 2 + j + 4 * a = 1 + (j + 1 + a * 4) by omega, rep_add 1 (j + 1 + a * 4),
      show 4 * k + 3 - j = (4 * k + 2 - j) + 1 by omega, List.replicate_succ']
    simp
  obtain ⟨e1, e2⟩ := List.append_inj' h3 rfl
  exact ⟨e1, by simpa using e2⟩

/-- `usb_io` cycles from the `usb` cycle in which `tx_valid` is first seen to the first driven cycle -/
def lat (φ : Nat) : Nat := 9 + (4 - φ) % 4
/-- undriven `usb_io` cycles left of the five idle `usb` cycles after the packet's last bit -/
def tailZ (φ : Nat) : Nat := 3 - (4 - φ) % 4

/-- what the 12 MHz part hands over for a packet with bit stream `false :: bs`: one idle `usb` cycle, the bits with
`fit_oe`, five idle cycles -/
def fitStream (bs : List Bool) : List (Bool × Bool) :=
  xI :: ((false :: bs).map (fun b => (true, b)) ++ List.replicate 5 xI)

/-- NRZI + EOP of the bit stream, every symbol for four `usb_io` cycles -/
def wave (bs : List Bool) : List Line :=
  ((nrzi true (false :: bs)).map lvl ++ [Sym.SE0, Sym.SE0, Sym.J]).flatMap (fun s => List.replicate 4 (Sym.line s))

theorem lvlSt_line (l : Bool) : (lvlSt l).line = Sym.line (lvl l) := by cases l <;> rfl

theorem wave_eq (bs : List Bool) :
    (((nrzi true (false :: bs)).map lvlSt ++ [Nrzi.se0a, Nrzi.se0b, Nrzi.eopj]).flatMap (List.replicate 4)).map Nrzi.line
      = wave bs := by
  simp only [wave, List.flatMap_append, List.map_append, List.flatMap_map, List.map_flatMap, List.map_replicate,
    lvlSt_line]
  rfl

theorem finalP_rep (n : Nat) (x : Bool × Bool) (xs : List (Bool × Bool)) : ∀ p, finalP p (xs ++ List.replicate (n + 1) x) = x := by
  induction xs with
  | nil =>
    induction n with
    | zero => intro p; rfl
    | succ n ih => intro p; rw [List.replicate_succ]; exact ih x
  | cons y ys ih => intro p; exact ih y

theorem samples_fit (φ : Nat) (h : φ ≠ 0) (bs : List Bool) : samples φ xI (fitStream bs) =
    List.replicate 2 xI ++ ((false :: bs).map (fun b => (true, b)) ++ (xI :: xI :: xI :: xI :: List.replicate 0 xI)) := by
  have : xI :: fitStream bs = (xI :: xI :: ((false :: bs).map (fun b => (true, b)) ++ [xI, xI, xI, xI])) ++ [xI] := by
    simp [fitStream, List.replicate]
  simp only [samples, h, if_false]
  rw [this, List.dropLast_concat]
  simp [List.replicate]

/-- **the 48 MHz part sends one packet**, for each of the four clock phases -/
theorem io_packet (φ : Nat) (hφ : φ < 4) (bs : List Bool) (io : Io) (hs : Shape φ xI io) (hf : io.nrzi = .idle)
    (hl : io.line = .z) :
    (ioRun io (held (fitStream bs))).1 =
      List.replicate (lat φ) Line.z ++ wave bs ++ List.replicate (tailZ φ) Line.z ∧
    Shape φ xI (ioRun io (held (fitStream bs))).2 ∧ (ioRun io (held (fitStream bs))).2.nrzi = .idle ∧
    (ioRun io (held (fitStream bs))).2.line = .z := by
  obtain ⟨r1, r2, r3⟩ := ioRun_held φ hφ (fitStream bs) xI io hs
  have bt := blocks_trace φ hφ (fitStream bs) .idle xI
  obtain ⟨t1, t2⟩ := trace_samples φ (fitStream bs) .idle xI
  rw [hf] at r1 r3
  rw [hl] at r1
  have hP : finalP xI (fitStream bs) = xI := by
    have := finalP_rep 4 xI (xI :: (false :: bs).map (fun b => (true, b))) xI
    simpa [fitStream] using this
  rw [hP] at r2
  have key : ∀ a k, samples φ xI (fitStream bs) = List.replicate a xI ++ ((false :: bs).map (fun b => (true, b)) ++
        (xI :: xI :: xI :: xI :: List.replicate k xI)) → (3 - φ) % 4 ≤ 4 * k + 2 →
      2 + (3 - φ) % 4 + 4 * a = lat φ → 4 * k + 2 - (3 - φ) % 4 = tailZ φ →
      (ioRun io (held (fitStream bs))).1 =
        List.replicate (lat φ) Line.z ++ wave bs ++ List.replicate (tailZ φ) Line.z ∧
      (ioRun io (held (fitStream bs))).2.nrzi = .idle ∧ (ioRun io (held (fitStream bs))).2.line = .z := by
    intro a k hsm hk hlat htail
    obtain ⟨p1, p2⟩ := traceS_packet a k bs
    rw [hsm] at t1 t2
    rw [p1] at t1
    rw [p2] at t2
    rw [t1, t2] at bt
    rw [t2] at r3
    obtain ⟨e1, e2⟩ := assemble ((3 - φ) % 4) a k hk _ _ _ _ r1 bt
    rw [wave_eq, hlat, htail] at e1
    exact ⟨e1, r3, e2⟩
  have : φ = 0 ∨ φ = 1 ∨ φ = 2 ∨ φ = 3 := by omega
  rcases this with h | h | h | h <;> subst h
  · obtain ⟨k1, k2, k3⟩ := key 1 1 (by simp [samples, fitStream, List.replicate]) (by decide) (by decide) (by decide)
    exact ⟨k1, r2, k2, k3⟩
  · obtain ⟨k1, k2, k3⟩ := key 2 0 (samples_fit _ (by decide) bs) (by decide) (by decide) (by decide)
    exact ⟨k1, r2, k2, k3⟩
  · obtain ⟨k1, k2, k3⟩ := key 2 0 (samples_fit _ (by decide) bs) (by decide) (by decide) (by decide)
    exact ⟨k1, r2, k2, k3⟩
  · obtain ⟨k1, k2, k3⟩ := key 2 0 (samples_fit _ (by decide) bs) (by decide) (by decide) (by decide)
    exact ⟨k1, r2, k2, k3⟩

end LunaVerif.FsTx
