import LunaVerif.Lemmas.C07Refine
/-!
# `cycle_refines_event`, part 2: the strobe cycles, the expansion of an event, the theorem
(see Lemmas/C07Refine.lean for the set-up).
-/
namespace LunaVerif.CtrlCyc
open LunaVerif.Device

/-! ### Cycles that poll the handlers -/

/-- Event-level effect of a cycle in which the control endpoint raises `data_requested` (`dr`),
`status_requested` (`sr`) or acknowledges a PING (`ping`). -/
def reqResult (c : DevConfig) (d : DevState) (dr sr ping : Bool) : DevState × Resp :=
  if dr then request c d .data
  else if sr then request c d .status
  else if ping then (d, .hs PID_ACK) else (d, .none)

theorem request_stage (c : DevConfig) (d : DevState) (r : Req) : (request c d r).1.stage = d.stage :=
  (sameCtl_request c d r).stage

theorem sim_reqResult (c : DevConfig) (hx : c.extra = []) (d : DevState) (i : CycIn) (n : CycIn) (dr sr ping : Bool)
    (hns : NoStream d) (hsd : i.sdAck = false)
    (hc : ∀ cs, Rel d cs → ctrlComb (cfgOf c) cs.stage i = ⟨dr, sr, false, ping⟩)
    (hn : ∀ cs, Rel d cs → ctrlNext (cfgOf c) cs.stage i = d.stage)
    (hi : handlerIn i ⟨dr, sr, false, ping⟩ = hin d (noiseH n) dr sr false)
    (hexcl : (dr = true → sr = false ∧ ping = false) ∧ (sr = true → ping = false)) :
    Sim1 (cfgOf c) d (reqResult c d dr sr ping).1 i (reqResult c d dr sr ping).2 := by
  cases dr <;> cases sr <;> cases ping <;> simp at hexcl <;> simp only [reqResult, if_true, if_false, Bool.false_eq_true]
  · -- nothing
    refine sim1_of_handler _ d d i _ (noiseH n) false false false hsd hc hn hi (fun h hh => ?_) rfl rfl
    have := h_quiet (cfgOf c) d h (noiseH n) hh hns
    exact ⟨this.1, by simpa using this.2.1, this.2.2⟩
  · -- PING acknowledged
    refine sim1_of_handler _ d d i _ (noiseH n) false false true hsd hc hn hi (fun h hh => ?_) rfl rfl
    have := h_quiet (cfgOf c) d h (noiseH n) hh hns
    exact ⟨this.1, by simp, this.2.2⟩
  · -- status requested
    refine sim1_of_handler _ d _ i _ (noiseH n) false true false hsd hc
      (fun cs hr => by rw [hn cs hr, request_stage]) hi (fun h hh => ?_)
      (sameCtl_request c d .status).address (sameCtl_request c d .status).config
    have := h_req_status c hx (cfgOf c) d h (noiseH n) hh hns
    exact ⟨this.1, by simpa using this.2.1, this.2.2⟩
  · -- data requested
    refine sim1_of_handler _ d _ i _ (noiseH n) true false false hsd hc
      (fun cs hr => by rw [hn cs hr, request_stage]) hi (fun h hh => ?_)
      (sameCtl_request c d .data).address (sameCtl_request c d .data).config
    have := h_req_data c hx (cfgOf c) d h (noiseH n) hh hns
    exact ⟨this.1, by simpa using this.2.1, this.2.2⟩

/-! ### (K2) `ready_for_response` -/

def readyDr (d : DevState) : Bool := decide (d.tokEp = 0) && decide (d.stage = .dataIn) && decide (d.tokPid = PID_IN)
def readySr (d : DevState) : Bool := decide (d.tokEp = 0) && decide (d.stage = .statusIn) && decide (d.tokPid = PID_IN)
def readyPing (d : DevState) : Bool :=
  decide (d.tokEp = 0) && (decide (d.stage = .dataOut) || decide (d.stage = .statusOut)) && decide (d.tokPid = PID_PING)

theorem readyResult_eq (c : DevConfig) (d : DevState) :
    readyResult c d = reqResult c d (readyDr d) (readySr d) (readyPing d) := by
  unfold readyResult reqResult readyDr readySr readyPing
  by_cases h0 : d.tokEp = 0 <;> cases hs : d.stage <;> by_cases h1 : d.tokPid = PID_IN <;>
    by_cases h2 : d.tokPid = PID_PING <;> simp_all [PID_IN, PID_PING]

theorem sim_ready (c : DevConfig) (hx : c.extra = []) (d : DevState) (n : CycIn) (hns : NoStream d) :
    Sim1 (cfgOf c) d (readyResult c d).1 { envIn d n with readyForResponse := true } (readyResult c d).2 := by
  rw [readyResult_eq]
  refine sim_reqResult c hx d _ n _ _ _ hns rfl (fun cs hr => ?_) (fun cs hr => ?_) rfl ?_
  · rw [hr.stage]
    unfold readyDr readySr readyPing
    by_cases h0 : d.tokEp = 0 <;> cases hs : d.stage <;> by_cases h1 : d.tokPid = PID_IN <;>
      by_cases h2 : d.tokPid = PID_PING <;> by_cases h3 : d.tokPid = PID_OUT <;>
      simp_all [ctrlComb, envIn, targeted, cfgOf, PID_IN, PID_PING, PID_OUT]
  · rw [hr.stage]
    cases hs : d.stage <;> simp [ctrlNext, envIn]
  · unfold readyDr readySr readyPing
    cases hs : d.stage <;> by_cases h1 : d.tokPid = PID_IN <;> simp_all [PID_IN, PID_PING]

/-! ### (K5) `rx_ready_for_response` -/

def rxSr (d : DevState) : Bool := decide (d.tokEp = 0) && decide (d.stage = .statusOut) && decide (d.tokPid = PID_OUT)

theorem sim_rxReady (c : DevConfig) (hx : c.extra = []) (d : DevState) (n : CycIn) (hns : NoStream d) :
    Sim1 (cfgOf c) d (reqResult c d false (rxSr d) false).1 { envIn d n with rxReady := true }
      (reqResult c d false (rxSr d) false).2 := by
  refine sim_reqResult c hx d _ n _ _ _ hns rfl (fun cs hr => ?_) (fun cs hr => ?_) rfl ?_
  · rw [hr.stage]
    unfold rxSr
    by_cases h0 : d.tokEp = 0 <;> cases hs : d.stage <;> by_cases h3 : d.tokPid = PID_OUT <;>
      simp_all [ctrlComb, envIn, targeted, cfgOf, PID_IN, PID_PING, PID_OUT]
  · rw [hr.stage]
    cases hs : d.stage <;> simp [ctrlNext, envIn]
  · simp

/-! ### (K4) the setup decoder's `ack` -/

theorem sim_sdAck (c : DevConfig) (d : DevState) (n : CycIn) (hns : NoStream d) :
    Sim1 (cfgOf c) d d { envIn d n with sdAck := true } (.hs PID_ACK) := by
  intro cs hr
  have hc : ctrlComb (cfgOf c) cs.stage { envIn d n with sdAck := true } = ⟨false, false, false, false⟩ := by
    simp [ctrlComb, envIn]
  have hn : ctrlNext (cfgOf c) cs.stage { envIn d n with sdAck := true } = cs.stage := by
    cases hs : cs.stage <;> simp [ctrlNext, envIn]
  have hi : handlerIn { envIn d n with sdAck := true } ⟨false, false, false, false⟩ =
      hin d (noiseH n) false false false := rfl
  have hq := h_quiet (cfgOf c) d cs.h (noiseH n) hr.h hns
  rw [step_outResp, step_addressChanged, step_configChanged, hc, hi]
  refine ⟨⟨by rw [step_stage, hn]; exact hr.stage, by rw [step_h, hc, hi]; exact hq.1⟩, ?_, ?_, ?_⟩
  · simp
  · simp [hq.2.2.1]
  · simp [hq.2.2.2]

theorem HRel.congr {d d' : DevState} {h : StdState} (hr : HRel d h) (h1 : d'.hstate = d.hstate)
    (h2 : d'.expectingAck = d.expectingAck) (h3 : d'.startPos = d.startPos) (h4 : d'.txPid = d.txPid) : HRel d' h :=
  ⟨by rw [h1]; exact hr.1, by rw [h2]; exact hr.2, by rw [h1, h3, h4]; exact hr.3⟩

/-! ### (K3) the setup decoder reports a SETUP packet -/

def recvIn (hi : HIn) (su : Setup) : HIn :=
  { hi with su := su, received := true, dataRequested := false, statusRequested := false, hsAck := false }

theorem sim_received (c : DevConfig) (d : DevState) (p : List Nat) (n : CycIn) (hns : NoStream d) :
    Sim1 (cfgOf c) d (onSetupData d p).1 { envIn d n with received := true, su := parseSetup p } .none := by
  intro cs hr
  have hc : ctrlComb (cfgOf c) cs.stage { envIn d n with received := true, su := parseSetup p } =
      ⟨false, false, false, false⟩ := by
    simp [ctrlComb, envIn]
  have hn : ctrlNext (cfgOf c) cs.stage { envIn d n with received := true, su := parseSetup p } =
      (onSetupData d p).1.stage := by
    rw [hr.stage]
    by_cases hty : (parseSetup p).type = TYPE_STANDARD <;> by_cases h0 : d.tokEp = 0 <;>
      cases hs : d.stage <;> simp [ctrlNext, envIn, onSetupData, targeted, cfgOf, hty, h0, hs]
  have hq := h_recv (cfgOf c) d cs.h (hin d (noiseH n) false false false) (parseSetup p) hr.h hns
  have hi : handlerIn { envIn d n with received := true, su := parseSetup p } ⟨false, false, false, false⟩ =
      recvIn (hin d (noiseH n) false false false) (parseSetup p) := rfl
  change HRel _ (stdStep _ _ (recvIn _ _)).1 ∧ hResp (muxOut (stdStep _ _ (recvIn _ _)).2 (recvIn _ _)) = _ ∧
    HQuiet (muxOut (stdStep _ _ (recvIn _ _)).2 (recvIn _ _)) at hq
  rw [← hi] at hq
  have hH : HRel (onSetupData d p).1 (stdStep (cfgOf c) cs.h
      (handlerIn { envIn d n with received := true, su := parseSetup p } ⟨false, false, false, false⟩)).1 := by
    refine hq.1.congr ?_ ?_ ?_ ?_ <;>
      by_cases hty : (parseSetup p).type = TYPE_STANDARD <;> simp [onSetupData, recvState, hty]
  rw [step_outResp, step_addressChanged, step_configChanged, hc]
  refine ⟨⟨by rw [step_stage, hn], by rw [step_h, hc]; exact hH⟩, ?_, ?_, ?_⟩
  · rw [if_neg (by simp [envIn])]; exact hq.2.1
  · simp only [hq.2.2.1]
    by_cases hty : (parseSetup p).type = TYPE_STANDARD <;> simp [onSetupData, hty]
  · simp only [hq.2.2.2]
    by_cases hty : (parseSetup p).type = TYPE_STANDARD <;> simp [onSetupData, hty]

/-! ### (K6) a host ACK -/

theorem sim_hsAck (c : DevConfig) (d : DevState) (n : CycIn) (hns : NoStream d) :
    Sim1 (cfgOf c) d (onHandshake d PID_ACK) { envIn d n with hsAck := true } .none := by
  intro cs hr
  have hn : ctrlNext (cfgOf c) cs.stage { envIn d n with hsAck := true } = cs.stage := by
    cases hs : cs.stage <;> simp [ctrlNext, envIn]
  by_cases hfw : d.tokEp = 0 ∧ d.tokPid = PID_IN
  · -- forwarded to the handlers
    have hc : ctrlComb (cfgOf c) cs.stage { envIn d n with hsAck := true } = ⟨false, false, true, false⟩ := by
      simp [ctrlComb, envIn, targeted, cfgOf, hfw.1, hfw.2]
    have hi : handlerIn { envIn d n with hsAck := true } ⟨false, false, true, false⟩ =
        hin d (noiseH n) false false true := rfl
    have hq := h_ack (cfgOf c) d cs.h (noiseH n) hr.h hns
    have hd : (onHandshake d PID_ACK).stage = d.stage ∧ (onHandshake d PID_ACK).hstate = (ackState d).hstate ∧
        (onHandshake d PID_ACK).expectingAck = (ackState d).expectingAck ∧
        (onHandshake d PID_ACK).startPos = (ackState d).startPos ∧ (onHandshake d PID_ACK).txPid = (ackState d).txPid ∧
        (onHandshake d PID_ACK).address = (ackState d).address ∧ (onHandshake d PID_ACK).config = (ackState d).config := by
      unfold onHandshake ackState
      by_cases hty : d.setup.type = TYPE_STANDARD
      · simp only [hfw.1, hfw.2, hty, and_self, if_true]
        have hst : (stdAck d).stage = d.stage := by
          unfold stdAck; cases d.hstate <;> simp [toIdle] <;> split <;> rfl
        split <;> simp [hst]
      · simp [hty]
    rw [step_outResp, step_addressChanged, step_configChanged, step_newAddress, step_newConfig, hc, hi]
    refine ⟨⟨by rw [step_stage, hn, hd.1]; exact hr.stage, by rw [step_h, hc, hi]; exact hq.1.congr hd.2.1 hd.2.2.1 hd.2.2.2.1 hd.2.2.2.2.1⟩, ?_, ?_, ?_⟩
    · simp [envIn, hq.2.1]
    · rw [hd.2.2.2.2.2.1]; exact hq.2.2.1
    · rw [hd.2.2.2.2.2.2]; exact hq.2.2.2
  · -- not for this endpoint's IN transaction: invisible
    have hc : ctrlComb (cfgOf c) cs.stage { envIn d n with hsAck := true } = ⟨false, false, false, false⟩ := by
      simp only [ctrlComb, envIn, targeted, cfgOf]
      by_cases h0 : d.tokEp = 0 <;> by_cases h1 : d.tokPid = PID_IN <;> simp_all
    have hi : handlerIn { envIn d n with hsAck := true } ⟨false, false, false, false⟩ =
        hin d (noiseH n) false false false := rfl
    have hq := h_quiet (cfgOf c) d cs.h (noiseH n) hr.h hns
    have hd : onHandshake d PID_ACK = d := by
      unfold onHandshake
      rw [if_neg]
      intro g; exact hfw ⟨g.2.1, g.2.2.1⟩
    rw [hd, step_outResp, step_addressChanged, step_configChanged, hc, hi]
    refine ⟨⟨by rw [step_stage, hn]; exact hr.stage, by rw [step_h, hc, hi]; exact hq.1⟩, ?_, ?_, ?_⟩
    · simp [envIn, hq.2.1]
    · simp [hq.2.2.1]
    · simp [hq.2.2.2]

end LunaVerif.CtrlCyc
