import LunaVerif.Props.C39Retry
/-!
# C39 — from the headers handed to the raw transmitter to the headers on the wire

`wireHdrs c s ins`: the headers whose last word (DW3) is accepted by the PHY (`source.valid & source.ready`
in SEND_DW3) during the history — `packet_tx`'s latched header `rHdr` in those cycles; its words are on the
wire in SEND_DW0..3 (`tx_word_carries_header`) and the latch does not change while the raw transmitter is
busy.  `wire_latches`: they are, in order, the header that was in flight at the start (if any) followed by
the headers latched during the history, except a last one still in flight at the end.
-/
namespace LunaVerif.PacketTx
open LunaVerif.HeaderRx (Hdr Bufs bufQ)

/-- the last word of a header is accepted in this cycle -/
def wireDone (s : State) (i : In) : Bool := s.raw == .dw3 && i.srcReady

def wireHdrs (c : Config) : State → List In → List Hdr
  | _, [] => []
  | s, i :: is => (if wireDone s i then [s.rHdr] else []) ++ wireHdrs c (step c s i).1 is

/-- a header latched by the raw transmitter whose DW3 has not been accepted yet -/
def inflight (s : State) : List Hdr :=
  match s.raw with
  | .hpstart | .dw0 | .dw1 | .dw2 | .dw3 => [s.rHdr]
  | _ => []

def runS (c : Config) : State → List In → State
  | s, [] => s
  | s, i :: is => runS c (step c s i).1 is

theorem runG_fst (c : Config) (ins : List In) : ∀ (s : State) (g : Ghost), (runG c s g ins).1 = runS c s ins := by
  induction ins with
  | nil => intro s g; rfl
  | cons i is ih => intro s g; exact ih _ _

/-- one cycle of the raw transmitter, as seen on the wire -/
theorem wire_step (c : Config) (s : State) (i : In) :
    (if wireDone s i then [s.rHdr] else []) ++ inflight (step c s i).1 =
      inflight s ++ (if latch s i then [txHeader s] else []) := by
  cases hr : s.raw <;> cases hs : i.srcReady <;> cases hg : generate s i <;> cases hd : s.rHdr.isData <;>
    cases hl : s.rHdr.delayed <;>
    simp [inflight, wireDone, latch, step_raw, step_rHdr, rawNext, hr, hs, hg, hd, hl]

/-- **headers on the wire = header in flight at the start ++ headers latched, minus the one in flight at
the end** -/
theorem wire_latches (c : Config) (ins : List In) : ∀ s : State,
    wireHdrs c s ins ++ inflight (runS c s ins) = inflight s ++ latches c s ins := by
  induction ins with
  | nil => intro s; simp [wireHdrs, latches, runS]
  | cons i is ih =>
    intro s
    simp only [wireHdrs, latches, runS]
    rw [List.append_assoc, ih, ← List.append_assoc, wire_step, List.append_assoc]

theorem prefix_drop_left {α : Type} {w f l : List α} (h : w <+: f ++ l) : w.drop f.length <+: l := by
  obtain ⟨t, ht⟩ := h
  rcases Nat.lt_or_ge w.length f.length with hlt | hge
  · rw [List.drop_eq_nil_of_le (by omega)]; exact List.nil_prefix
  · have := congrArg (List.drop f.length) ht
    rw [List.drop_append_of_le_length hge, List.drop_left] at this
    exact ⟨t, this⟩

theorem prefix_take {α : Type} {a b : List α} (h : a <+: b) (n : Nat) : a.take n <+: b.take n := by
  obtain ⟨t, rfl⟩ := h
  rw [List.take_append]
  exact List.prefix_append _ _

/-- **C39 (4) on the wire**: after an LBAD, leaving aside the packet that was in flight (its header was
latched in the LBAD cycle or before), the next m headers completed on the wire are the m unacknowledged
headers, in order, each with the delayed bit — for all waiting times. -/
theorem lbad_retransmits_on_the_wire (c : Config) (pre : List In) (i0 : In) (post : List In)
    (henv : EnvOkR c init Ghost.init (pre ++ [i0]))
    (hL : retryRequired (runG c init Ghost.init pre).1 = true) :
    let r0 := runG c init Ghost.init pre
    let s1 := (step c r0.1 i0).1
    let g1 := ghostStep r0.1 i0 r0.2
    let unacked := g1.taken.drop g1.retired
    RoundEnv c s1 g1 post →
    (((wireHdrs c s1 post).drop (inflight s1).length).take unacked.length) <+: unacked.map dl := by
  intro r0 s1 g1 unacked hpost
  obtain ⟨_, _, h⟩ := lbad_retransmits_all_unacked_in_order_with_dl c pre i0 post henv hL hpost
  have hw : wireHdrs c s1 post <+: inflight s1 ++ latches c s1 post := ⟨_, wire_latches c post s1⟩
  exact (prefix_take (prefix_drop_left hw) _).trans h

/-- a second LBAD while the first retransmission is in SEND_DW1: the stale packet completes (FLUSH_PACKET),
then both unacknowledged headers are retransmitted from the start -/
def retryPre3 : List In := retryPre ++ [idleIn] ++ (List.replicate 2 idleIn ++ lcIn LBAD 0)
example : let r0 := runG ⟨201, 256⟩ init Ghost.init retryPre3
    let s1 := (step ⟨201, 256⟩ r0.1 idleIn).1
    let g1 := ghostStep r0.1 idleIn r0.2
    EnvOkR ⟨201, 256⟩ init Ghost.init (retryPre3 ++ [idleIn]) ∧ retryRequired r0.1 = true ∧
    RoundEnv ⟨201, 256⟩ s1 g1 (List.replicate 30 idleIn) ∧ s1.fsm = .flush ∧
    (inflight s1).map (fun h => (h.dw0, h.dw1, h.seq, h.delayed)) = [(4, 3, 7, true)] ∧
    (wireHdrs ⟨201, 256⟩ s1 (List.replicate 30 idleIn)).map (fun h => (h.dw0, h.dw1, h.seq, h.delayed)) =
      [(4, 3, 7, true), (4, 3, 7, true), (8, 5, 0, true)] := by
  decide +kernel

end LunaVerif.PacketTx
