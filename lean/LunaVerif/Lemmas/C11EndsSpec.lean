import LunaVerif.Lemmas.C11Ends
/-!
# C11 — what the boundary checker `endsOk` says, in ∀-form

`transfer_ends_short_or_zlp` states `endsOk mps marks pkts = true` for the host-kept packets `pkts` and the
producer's `last` marks `marks`.  The lemmas here unfold that verdict into statements about an arbitrary
packet `p` of the list (`pkts = A ++ p :: B`, so `p`'s bytes are the producer's bytes number
`|A.flatten| .. |A.flatten| + |p| - 1`).
-/
namespace LunaVerif.InXfer

theorem foldl_rem (mps : Nat) (A : List (List Nat)) (e : EndSt)
    (h : (A.foldl (endStep mps) e).ok = true) :
    (A.foldl (endStep mps) e).rem = e.rem.drop A.flatten.length ∧ A.flatten.length ≤ e.rem.length := by
  induction A generalizing e with
  | nil => simp
  | cons p A ih =>
    simp only [List.foldl_cons] at h ⊢
    obtain ⟨h1, h2⟩ := ih _ h
    obtain ⟨-, hle⟩ := endStep_ok_imp mps e p (foldl_ok_mono mps A _ h)
    have hr : (endStep mps e p).rem = e.rem.drop p.length := rfl
    rw [hr] at h1 h2
    simp only [List.length_drop] at h2
    refine ⟨?_, ?_⟩
    · rw [h1, List.drop_drop, List.flatten_cons, List.length_append]
    · rw [List.flatten_cons, List.length_append]; omega

/-- The facts the checker established when it processed packet `p` (after the packets `A`). -/
theorem endsOk_at (mps : Nat) (marks : List Bool) (A : List (List Nat)) (p : List Nat)
    (B : List (List Nat)) (h : endsOk mps marks (A ++ p :: B) = true) :
    (endStep mps (endFold mps marks A) p).ok = true ∧
    (endFold mps marks A).rem = marks.drop A.flatten.length ∧
    A.flatten.length ≤ marks.length := by
  unfold endsOk endFold at h
  rw [List.foldl_append, List.foldl_cons] at h
  have h1 := foldl_ok_mono mps B _ h
  have h2 := (endStep_ok_imp mps _ p h1).1
  exact ⟨h1, foldl_rem mps A _ h2⟩

/-- Every kept packet is at most `mps` bytes of the producer's stream, and none of its bytes except
the final one carries a `last` mark. -/
theorem endsOk_packet (mps : Nat) (marks : List Bool) (A : List (List Nat)) (p : List Nat)
    (B : List (List Nat)) (h : endsOk mps marks (A ++ p :: B) = true) :
    p.length ≤ mps ∧ A.flatten.length + p.length ≤ marks.length ∧
    (∀ k, k + 1 < p.length → marks[A.flatten.length + k]? = some false) := by
  obtain ⟨hok, hrem, hlen⟩ := endsOk_at mps marks A p B h
  simp only [endStep, hrem, Bool.and_eq_true, decide_eq_true_eq, List.length_drop,
    List.all_eq_true] at hok
  obtain ⟨⟨⟨⟨-, h1⟩, h2⟩, -⟩, h4⟩ := hok
  refine ⟨h2, by omega, ?_⟩
  intro k hk
  have hget : ((marks.drop A.flatten.length).take p.length).dropLast[k]?
      = marks[A.flatten.length + k]? := by
    rw [List.getElem?_dropLast, List.length_take, List.length_drop, List.getElem?_take,
      List.getElem?_drop]
    rw [if_pos (by omega), if_pos (by omega)]
  have hsome : ∃ v, marks[A.flatten.length + k]? = some v := by
    have : A.flatten.length + k < marks.length := by omega
    exact ⟨marks[A.flatten.length + k], List.getElem?_eq_getElem this⟩
  obtain ⟨v, hv⟩ := hsome
  rw [hv] at hget
  have := h4 v (List.mem_of_getElem? hget)
  rw [hv]
  cases v <;> simp_all

/-- **Short packet or ZLP before the next transfer's data.**  If a kept packet is a full `mps` bytes
and its final byte is `last`-marked, the next packet the host keeps is a zero-length packet. -/
theorem endsOk_zlp_follows (mps : Nat) (marks : List Bool) (A : List (List Nat)) (p q : List Nat)
    (B : List (List Nat)) (h : endsOk mps marks (A ++ p :: q :: B) = true) (hne : p ≠ [])
    (hfull : p.length = mps) (hlast : marks[A.flatten.length + p.length - 1]? = some true) :
    q = [] := by
  obtain ⟨hokp, hrem, hlen⟩ := endsOk_at mps marks A p (q :: B) h
  have hq : endsOk mps marks ((A ++ [p]) ++ q :: B) = true := by simpa using h
  obtain ⟨hokq, -, -⟩ := endsOk_at mps marks (A ++ [p]) q B hq
  have hfold : endFold mps marks (A ++ [p]) = endStep mps (endFold mps marks A) p := by
    simp [endFold]
  rw [hfold] at hokq
  have hple := (endStep_ok_imp mps _ p hokp).2
  rw [hrem, List.length_drop] at hple
  have hpos : 1 ≤ p.length := by
    cases p with
    | nil => exact absurd rfl hne
    | cons _ _ => simp
  have howed : (endStep mps (endFold mps marks A) p).owed = true := by
    simp only [endStep, hrem, hfull, beq_self_eq_true, Bool.true_and]
    rw [List.getLast?_eq_getElem?, List.length_take, List.length_drop, List.getElem?_take,
      List.getElem?_drop, ← hfull]
    rw [Nat.min_eq_left (by omega), if_pos (by omega)]
    have : A.flatten.length + (p.length - 1) = A.flatten.length + p.length - 1 := by omega
    rw [this, hlast]; rfl
  generalize endStep mps (endFold mps marks A) p = E' at howed hokq
  simp only [endStep, howed, Bool.and_eq_true, beq_iff_eq] at hokq
  have := hokq.1.2
  simpa [List.isEmpty_iff] using this.symm

/-- **A ZLP is kept only when it is due**: the packet before it is a full `mps` bytes ending on a
`last`-marked byte (in particular the first kept packet is never empty). -/
theorem endsOk_zlp_only_when_due (mps : Nat) (marks : List Bool) (A : List (List Nat))
    (B : List (List Nat)) (h : endsOk mps marks (A ++ [] :: B) = true) :
    ∃ A' p, A = A' ++ [p] ∧ p.length = mps ∧ p ≠ [] ∧
      marks[A'.flatten.length + p.length - 1]? = some true := by
  obtain ⟨hok, -, -⟩ := endsOk_at mps marks A [] B h
  have howed : (endFold mps marks A).owed = true := by
    simp [endStep] at hok
    exact hok.2
  rcases List.eq_nil_or_concat A with hA | ⟨A', p, hA⟩
  · rw [hA] at howed; simp [endFold] at howed
  · refine ⟨A', p, by simpa using hA, ?_⟩
    have h' : endsOk mps marks (A' ++ p :: ([] :: B)) = true := by
      rw [hA] at h; simpa using h
    obtain ⟨hokp, hrem, hlen⟩ := endsOk_at mps marks A' p ([] :: B) h'
    have hple := (endStep_ok_imp mps _ p hokp).2
    rw [hrem, List.length_drop] at hple
    have hfold : endFold mps marks A = endStep mps (endFold mps marks A') p := by
      rw [hA]; simp [endFold]
    rw [hfold] at howed
    simp only [endStep, hrem, Bool.and_eq_true, beq_iff_eq] at howed
    obtain ⟨hfull, hl⟩ := howed
    have hne : p ≠ [] := by
      intro hp; rw [hp] at hl; simp at hl
    have hpos : 1 ≤ p.length := by
      cases p with
      | nil => exact absurd rfl hne
      | cons _ _ => simp
    refine ⟨hfull, hne, ?_⟩
    rw [List.getLast?_eq_getElem?, List.length_take, List.length_drop, List.getElem?_take,
      List.getElem?_drop] at hl
    rw [Nat.min_eq_left (by omega), if_pos (by omega)] at hl
    have : A'.flatten.length + (p.length - 1) = A'.flatten.length + p.length - 1 := by omega
    rw [this] at hl
    exact hl


/-! ## The same, directly about the device -/

/-- On the device: whenever the host has kept a full-size packet whose final byte the producer marked
`last`, and has kept any packet after it, that next packet is a zero-length packet. -/
theorem host_sees_zlp_after_full_last_packet (c : Config) (hm : 1 ≤ c.mps) (ins : List In)
    (henv : LegalZlpEnv ins) (A : List (List Nat)) (p q : List Nat) (B : List (List Nat))
    (hp : hostPackets (trace c (init c) ins) = A ++ p :: q :: B) (hfull : p.length = c.mps)
    (hlast : ((produced (trace c (init c) ins)).map (·.2))[A.flatten.length + p.length - 1]? = some true) :
    q = [] := by
  have h := transfer_ends_short_or_zlp c hm ins henv
  rw [hp] at h
  have hne : p ≠ [] := by
    intro h0; rw [h0] at hfull; simp at hfull; omega
  exact endsOk_zlp_follows c.mps _ A p q B h hne hfull hlast

/-- On the device: a `last`-marked byte is always the final byte of the packet that carries it. -/
theorem last_byte_ends_its_packet (c : Config) (hm : 1 ≤ c.mps) (ins : List In)
    (henv : LegalZlpEnv ins) (A : List (List Nat)) (p : List Nat) (B : List (List Nat))
    (hp : hostPackets (trace c (init c) ins) = A ++ p :: B) (k : Nat) (hk : k + 1 < p.length) :
    ((produced (trace c (init c) ins)).map (·.2))[A.flatten.length + k]? = some false := by
  have h := transfer_ends_short_or_zlp c hm ins henv
  rw [hp] at h
  exact (endsOk_packet c.mps _ A p B h).2.2 k hk

/-- **`flush` sends a partial packet.**  In WAIT_FOR_DATA a `flush` request with a non-empty write buffer
stages that buffer (plus the byte arriving in the same cycle, if any) as the next packet at once. -/
theorem flush_sends_partial (c : Config) (s : State) (i : In) (hinv : Inv c s)
    (hfs : s.fsm = .waitData) (hd : i.discard = false) (hfl : i.flush = true) (hne : s.w.fill ≠ 0) :
    (step c s i).1.fsm = .waitSend ∧
    bufBytes (step c s i).1.r = bufBytes s.w ++ (if wen c s i then [i.sPayload % 256] else []) := by
  have hp : packetReady c s i = true := by simp [packetReady, hd, hfl, hne]
  have hwb := bufBytes_wNext c s i hd hinv.wlen hinv.wfill
  simp only [step, hfs, hp, if_true]
  exact ⟨trivial, hwb⟩

end LunaVerif.InXfer
