import LunaVerif.Lemmas.C09Block
/-!
Helper lemmas for C09: one complete request on the block-ROM handler model, from any idle state.
-/
namespace LunaVerif.Desc.Block

theorem run_peel' (c : Config) (s : State) (v l p n : Nat) (f : List Bool → List Beat)
    (hstep : ∀ r, (step c s ⟨v, l, p, false, r⟩).2 = Beat.quiet)
    (hrest : ∀ r rs, run c (step c s ⟨v, l, p, false, r⟩).1 (holdInputs v l p rs) = delayed n f rs) :
    ∀ rs, run c s (holdInputs v l p rs) = delayed (n + 1) f rs := by
  intro rs
  cases rs with
  | nil => rfl
  | cons r rs =>
    rw [holdInputs_cons]
    simp only [run, delayed]
    rw [hstep r, hrest r rs]

theorem nextLength_inorder (mps l p : Nat) (hp : p ≤ l) (hl : l < 65536) (hm : mps < 65536) :
    nextLength mps l p = min (l - p) mps := by
  unfold nextLength
  split <;> omega

theorem chunk_length (d : List Nat) (l mps p : Nat) :
    (((d.take l).drop p).take mps).length = min (min (l - p) mps) (d.length - p) := by
  simp only [List.length_take, List.length_drop]
  omega

theorem chunk_getD (d : List Nat) (l mps p j : Nat) (hj : j < (((d.take l).drop p).take mps).length) :
    (((d.take l).drop p).take mps).getD j 0 = d.getD (p + j) 0 := by
  have := chunk_length d l mps p
  simp only [List.getD_eq_getElem?_getD, List.getElem?_take, List.getElem?_drop]
  have h1 : j < mps := by omega
  have h2 : p + j < l := by omega
  simp [h1, h2]

theorem bytesAt_getD (img : Rom.Image) (base : Nat) (d : List Nat) (h : img.bytesAt base d.length = d)
    (j : Nat) (hj : j < d.length) : d.getD j 0 = img.byteAt base j := by
  have : (img.bytesAt base d.length).getD j 0 = img.byteAt base j := by
    unfold Rom.Image.bytesAt
    simp [List.getD_eq_getElem?_getD, hj]
  rw [h] at this
  exact this


/-- Everything the proofs need to know about a request for a descriptor that is present. -/
structure Present (c : Config) (ty idx : Nat) (d : List Nat) (w : Nat) : Prop where
  htype : ty ≤ c.img.maxType
  hidx  : ¬ c.img.descrIdx ty idx ≥ countOf (c.img.read (ty % 2 ^ c.img.addrW))
  hw    : w = c.img.read ((c.img.ptrOf (c.img.read (ty % 2 ^ c.img.addrW)) + c.img.descrIdx ty idx) % 2 ^ c.img.addrW)
  halign : w % 4 = 0
  hcount : countOf w = d.length
  hmax  : d.length ≤ c.img.maxLen
  hbytes : c.img.bytesAt (c.img.ptrOf w) d.length = d

theorem present_of_lookupOk (c : Config) (coll : Collection) (ty idx : Nat) (d : Descr)
    (hok : lookupOk c.img coll ty idx = true)
    (hfind : find? coll ty idx = some d) : ∃ w, Present c ty idx d.bytes w := by
  unfold lookupOk at hok
  rw [hfind] at hok
  cases hlk : c.img.lookup ty idx with
  | none => rw [hlk] at hok; simp at hok
  | some w =>
    rw [hlk] at hok
    simp only [Bool.and_eq_true, beq_iff_eq, decide_eq_true_eq] at hok
    obtain ⟨⟨⟨h1, h2⟩, h3⟩, h4⟩ := hok
    obtain ⟨a, b, e⟩ := lookup_some _ _ _ _ hlk
    exact ⟨w, a, b, e, h1, h2, h3, h4⟩

/-- LOOKUP_TYPE compares the index the ROM lookup uses. -/
theorem lookupIdx_eq (c : Config) (s : State) (v l p : Nat) (r : Bool) (ty idx : Nat)
    (hv : v % 256 = idx)
    (hs : ¬ c.img.indexMap.isEmpty → s.descrIdx = c.img.descrIdx ty idx) :
    lookupIdx c s ⟨v, l, p, false, r⟩ = c.img.descrIdx ty idx := by
  unfold lookupIdx
  by_cases he : c.img.indexMap.isEmpty
  · unfold Rom.Image.descrIdx; simp [he, hv]
  · simp only [he]
    exact hs he

/-- a request whose answer is a data packet: four quiet cycles, then the packet. -/
theorem block_data (c : Config) (s0 : State) (ty idx l p w : Nat) (d : List Nat)
    (hty : ty < 256) (hidx : idx < 256) (hpres : Present c ty idx d w)
    (h0 : s0.fsm = .idle) (hmps : 0 < c.mps) (hmps' : c.mps < 65536) (hl : l < 65536)
    (hpw : 2 ≤ c.img.posW) (hp : p < min l d.length) (rs : List Bool) :
    run c s0 (reqInputs (ty * 256 + idx) l p rs)
      = delayed 4 (sendTrace (((d.take l).drop p).take c.mps) 0) rs := by
  obtain ⟨hv1, hv2⟩ := value_split ty idx hidx hty
  have hL := nextLength_inorder c.mps l p (by omega) hl hmps'
  have hdl : d.length < 2 ^ c.img.posW := Nat.lt_of_le_of_lt hpres.hmax (lt_two_pow_bitsFor _)
  have hpp : p % 2 ^ c.img.posW = p := Nat.mod_eq_of_lt (by omega)
  apply run_request_first c s0 _ l p 3 _ h0
  intro r0 rs
  rw [step_idle c s0 _ h0]
  simp only [if_true]
  apply run_peel'
  · intro r; rw [step_start_ok _ _ _ rfl (by show _ ≤ _; simp only [hv1]; exact hpres.htype)]
  intro r1 rs
  rw [step_start_ok _ _ _ rfl (by show _ ≤ _; simp only [hv1]; exact hpres.htype)]
  simp only [hv1, hv2]
  apply run_peel'
  · intro r
    rw [step_lookupType_ok _ _ _ rfl (by
      rw [lookupIdx_eq c _ _ l p _ ty idx hv2 (by intro he; simp [he])]; exact hpres.hidx)]
  intro r2 rs
  rw [step_lookupType_ok _ _ _ rfl (by
      rw [lookupIdx_eq c _ _ l p _ ty idx hv2 (by intro he; simp [he])]; exact hpres.hidx)]
  rw [lookupIdx_eq c _ _ l p _ ty idx hv2 (by intro he; simp [he]), ← hpres.hw]
  have hLne : ¬ nextLength c.mps l p = 0 := by omega
  simp only [hLne, if_false]
  apply run_peel'
  · intro r; rw [step_lookupDescriptor _ _ _ rfl]
  intro r3 rs
  rw [step_lookupDescriptor _ _ _ rfl]
  simp only [hpp, hpres.hcount]
  have hlt : ¬ p ≥ d.length := by omega
  simp only [hlt, if_false]
  show run c _ (holdInputs _ l p rs) = sendTrace _ 0 rs
  apply send_loop c _ l p d.length (c.img.ptrOf w) _ hpw hdl (by omega)
      (by rw [chunk_length, hL]) _ rs 0 _ (by rw [chunk_length]; omega)
  · exact ⟨rfl, rfl, rfl, rfl, rfl, rfl, by
      show c.img.read _ = _
      rw [ptr_add _ _ _ hpres.halign, Nat.add_zero]⟩
  · intro j hj
    rw [chunk_getD _ _ _ _ _ hj]
    have := chunk_length d l c.mps p
    exact bytesAt_getD _ _ _ hpres.hbytes _ (by omega)


/-- a request at the end of the data (`start_position = min wLength |d|`): a single ZLP pulse. -/
theorem block_zlp (c : Config) (s0 : State) (ty idx l p w : Nat) (d : List Nat)
    (hty : ty < 256) (hidx : idx < 256) (hpres : Present c ty idx d w)
    (h0 : s0.fsm = .idle) (hmps' : c.mps < 65536) (hl : l < 65536)
    (hp : p ≤ min l d.length) (hp' : ¬ p < min l d.length) (rs : List Bool) :
    ∃ lat, 1 ≤ lat ∧ lat ≤ 4 ∧ run c s0 (reqInputs (ty * 256 + idx) l p rs) = delayed lat (pulseTrace zlpBeat) rs := by
  obtain ⟨hv1, hv2⟩ := value_split ty idx hidx hty
  have hL := nextLength_inorder c.mps l p (by omega) hl hmps'
  have hdl : d.length < 2 ^ c.img.posW := Nat.lt_of_le_of_lt hpres.hmax (lt_two_pow_bitsFor _)
  have hpp : p % 2 ^ c.img.posW = p := Nat.mod_eq_of_lt (by omega)
  by_cases hLz : nextLength c.mps l p = 0
  · refine ⟨3, by omega, by omega, ?_⟩
    apply run_request_first c s0 _ l p 2 _ h0
    intro r0 rs
    rw [step_idle c s0 _ h0]
    simp only [if_true]
    apply run_peel'
    · intro r; rw [step_start_ok _ _ _ rfl (by show _ ≤ _; simp only [hv1]; exact hpres.htype)]
    intro r1 rs
    rw [step_start_ok _ _ _ rfl (by show _ ≤ _; simp only [hv1]; exact hpres.htype)]
    simp only [hv1, hv2]
    apply run_peel'
    · intro r
      rw [step_lookupType_ok _ _ _ rfl (by
        rw [lookupIdx_eq c _ _ l p _ ty idx hv2 (by intro he; simp [he])]; exact hpres.hidx)]
    intro r2 rs
    rw [step_lookupType_ok _ _ _ rfl (by
        rw [lookupIdx_eq c _ _ l p _ ty idx hv2 (by intro he; simp [he])]; exact hpres.hidx)]
    simp only [hLz, if_true]
    show run c _ (holdInputs _ l p rs) = pulseTrace zlpBeat rs
    exact run_pulse c _ _ l p zlpBeat (fun r => step_zlp c _ _ rfl) rs
  · refine ⟨4, by omega, by omega, ?_⟩
    apply run_request_first c s0 _ l p 3 _ h0
    intro r0 rs
    rw [step_idle c s0 _ h0]
    simp only [if_true]
    apply run_peel'
    · intro r; rw [step_start_ok _ _ _ rfl (by show _ ≤ _; simp only [hv1]; exact hpres.htype)]
    intro r1 rs
    rw [step_start_ok _ _ _ rfl (by show _ ≤ _; simp only [hv1]; exact hpres.htype)]
    simp only [hv1, hv2]
    apply run_peel'
    · intro r
      rw [step_lookupType_ok _ _ _ rfl (by
        rw [lookupIdx_eq c _ _ l p _ ty idx hv2 (by intro he; simp [he])]; exact hpres.hidx)]
    intro r2 rs
    rw [step_lookupType_ok _ _ _ rfl (by
        rw [lookupIdx_eq c _ _ l p _ ty idx hv2 (by intro he; simp [he])]; exact hpres.hidx)]
    rw [lookupIdx_eq c _ _ l p _ ty idx hv2 (by intro he; simp [he]), ← hpres.hw]
    simp only [hLz, if_false]
    apply run_peel'
    · intro r; rw [step_lookupDescriptor _ _ _ rfl]
    intro r3 rs
    rw [step_lookupDescriptor _ _ _ rfl]
    simp only [hpp, hpres.hcount]
    have hge : p ≥ d.length := by omega
    simp only [hge, if_true]
    show run c _ (holdInputs _ l p rs) = pulseTrace zlpBeat rs
    exact run_pulse c _ _ l p zlpBeat (fun r => step_zlp c _ _ rfl) rs

/-- a request the ROM lookup refuses: a single STALL pulse, no `valid`. -/
theorem block_stall (c : Config) (s0 : State) (ty idx l p : Nat)
    (hty : ty < 256) (hidx : idx < 256) (hnone : c.img.lookup ty idx = none)
    (h0 : s0.fsm = .idle) (rs : List Bool) :
    ∃ lat, 1 ≤ lat ∧ lat ≤ 2 ∧ run c s0 (reqInputs (ty * 256 + idx) l p rs) = delayed lat (pulseTrace stallBeat) rs := by
  obtain ⟨hv1, hv2⟩ := value_split ty idx hidx hty
  rcases lookup_none _ _ _ hnone with hbig | ⟨hin, hcnt⟩
  · refine ⟨1, by omega, by omega, ?_⟩
    apply run_request_first c s0 _ l p 0 _ h0
    intro r0 rs
    rw [step_idle c s0 _ h0]
    simp only [if_true]
    show run c _ (holdInputs _ l p rs) = pulseTrace stallBeat rs
    exact run_pulse c _ _ l p stallBeat
      (fun r => step_start_stall c _ _ rfl (by show ¬ _ ≤ _; simp only [hv1]; exact hbig)) rs
  · refine ⟨2, by omega, by omega, ?_⟩
    apply run_request_first c s0 _ l p 1 _ h0
    intro r0 rs
    rw [step_idle c s0 _ h0]
    simp only [if_true]
    apply run_peel'
    · intro r; rw [step_start_ok _ _ _ rfl (by show _ ≤ _; simp only [hv1]; exact hin)]
    intro r1 rs
    rw [step_start_ok _ _ _ rfl (by show _ ≤ _; simp only [hv1]; exact hin)]
    simp only [hv1, hv2]
    show run c _ (holdInputs _ l p rs) = pulseTrace stallBeat rs
    exact run_pulse c _ _ l p stallBeat
      (fun r => step_lookupType_stall c _ _ rfl (by
        rw [lookupIdx_eq c _ _ l p _ ty idx hv2 (by intro he; simp [he])]; exact hcnt)) rs

end LunaVerif.Desc.Block
