import LunaVerif.Lemmas.C20CycAbs
/-!
# C20 — the invariant of the control skeleton is inductive (`inv_step`)
-/
namespace LunaVerif.DevCyc.Abs
open LunaVerif LunaVerif.DevCyc

variable {d mx : Nat} {p : Params} {a : A} {g : Ghost} {ai : AI}

/-- While the response window is open nothing is being received and both packet parsers are at rest. -/
theorem open_facts (h : Inv d p a g) (hh : aHostOk g ai = true) (hw : g.win ≠ .closed) :
    ai.active = false ∧ g.a1 = false ∧ a.tf = .idle ∧ (a.rf = .idle ∨ a.rf = .delay) := by
  have ha1 : g.a1 = false := by
    cases h1 : g.a1 with
    | false => rfl
    | true => exact absurd (h.act h1) hw
  have hact : ai.active = false := by
    simp [aHostOk] at hh
    rcases hh.1 with h' | h'
    · exact absurd h' hw
    · exact h'
  refine ⟨hact, ha1, ?_, ?_⟩
  · by_cases ht : a.tf = .idle
    · exact ht
    · have := h.tokA ht; simp [ha1] at this
  · by_cases hr : a.rf = .idle
    · exact Or.inl hr
    · by_cases hr2 : a.rf = .delay
      · exact Or.inr hr2
      · have := h.rxA hr hr2; simp [ha1] at this

theorem delay_open (h : Inv d p a g) (hr : a.rf = .delay) : g.win ≠ .closed := by
  rcases h.mode with m | m | m | m | m
  · exact absurd hr m.2.2.1
  · exact absurd hr m.2.2.1
  · obtain ⟨_, _, _, _, _, k, hk, _⟩ := m; simp [hk]
  · exact absurd hr m.2.2.1
  · exact absurd hr m.2.2.1

/-- The four structural clauses are preserved. -/
theorem inv_step_struct (h : Inv d p a g) (hh : aHostOk g ai = true) (hx : aiOk ai = true) :
    ((aGhostNext d p g a ai).a1 = true → (aGhostNext d p g a ai).win = .closed) ∧
    ((astep d mx a ai).tf ≠ .idle → (aGhostNext d p g a ai).a1 = true) ∧
    ((astep d mx a ai).rf ≠ .idle → (astep d mx a ai).rf ≠ .delay → (aGhostNext d p g a ai).a1 = true) ∧
    lk (astep d mx a ai).tf (astep d mx a ai).rf = true := by
  have hv : ai.valid = true → ai.active = true := by
    intro hv; simp [aHostOk, hv] at hh; exact hh.2
  refine ⟨?_, ?_, ?_, ?_⟩
  · intro hact
    simp only [aGhostNext] at hact ⊢
    have hw : g.win = .closed := by
      simp [aHostOk, hact] at hh; exact hh
    simp [winNext, aSol, tokStart, tokDone, rxStart, hact, hw]
  · intro ht
    exact tokNext_active _ _ _ _ _ ht
  · intro h1 h2
    exact rxNext_active _ _ _ _ _ _ hv h1 h2
  · apply lk_step _ _ _ _ _ _ _ _ _ h.lock
    · intro hr
      exact (open_facts h hh (delay_open h hr)).1
    · exact hv
    · simp [aiOk] at hx; cases h1 : ai.isTok <;> cases h2 : ai.isData <;> simp_all

/-- Unfolded environment discipline. -/
theorem envOk_facts (he : aEnvOk d g a ai = true) :
    ai.rsValid = false ∧
    ((ai.hsReq = true ∨ aSStart a ai = true) → aPulse d a = true ∨ g.pend.isSome = true) ∧
    (ai.hsReq = true → aSStart a ai = false) ∧
    (a.gf = .sendPayload → ai.sValid = true) ∧
    (ai.envStart = true → g.a1 = false ∧ g.a2 = true) := by
  simp only [aEnvOk, Bool.and_eq_true, Bool.or_eq_true, Bool.not_eq_eq_eq_not, Bool.not_true] at he
  obtain ⟨⟨⟨⟨h0, h1⟩, h2⟩, h3⟩, h4⟩ := he
  refine ⟨h0, ?_, ?_, ?_, ?_⟩
  · intro hr
    rcases h1 with (h1 | h1) | h1
    · rcases hr with hr | hr <;> simp_all
    · exact Or.inl h1
    · exact Or.inr h1
  · intro hr; cases hs : aSStart a ai <;> simp_all
  · intro hg; simpa [hg] using h3
  · intro hs; simpa [hs] using h4

/-- While the window is open no packet ends. -/
theorem open_no_start (h : Inv d p a g) (hh : aHostOk g ai = true) (hw : g.win ≠ .closed) :
    tokDone a ai = false ∧ tokStart a ai = false ∧ rxStart a ai = false ∧ aSol a ai = false := by
  obtain ⟨_, _, htf, hrf⟩ := open_facts h hh hw
  have h1 : tokDone a ai = false := by simp [tokDone, htf]
  have h2 : rxStart a ai = false := by rcases hrf with hr | hr <;> simp [rxStart, hr]
  simp [tokStart, aSol, h1, h2]

theorem m1_step (h : Inv d p a g) (hh : aHostOk g ai = true) (he : aEnvOk d g a ai = true)
    (hd : d ≤ mx) (hT : d + p.L + 2 < p.T)
    (m : quietTx a ∧ tokArmed d a ∧ a.rf ≠ .delay ∧ g.pend = none ∧ g.win = .wait a.ct) :
    Mode d p (astep d mx a ai) (aGhostNext d p g a ai) := by
  obtain ⟨⟨hht, hgf⟩, ⟨harm, hct⟩, hrd, hpend, hwin⟩ := m
  have hw : g.win ≠ .closed := by simp [hwin]
  obtain ⟨hact, ha1, htf, hrf⟩ := open_facts h hh hw
  obtain ⟨hdone, hts, hrs, hsol⟩ := open_no_start h hh hw
  obtain ⟨e0, e1, e2, _, _⟩ := envOk_facts he
  have hrf' : a.rf = .idle := by rcases hrf with hr | hr; exact hr; exact absurd hr hrd
  have hgv : genValid a.gf ai = false := by simp [hgf, genValid]
  have htx : aTxValid a ai = false := by simp [aTxValid, e0, hgv, hht]
  have hrfn : (astep d mx a ai).rf = .idle := by simp [astep, hrf', rxNext, hact]
  by_cases hlt : a.ct < d
  · -- the counter has not reached the delay: no pulse, no request
    have hp : aPulse d a = false := by
      have : a.ct ≠ d := by omega
      simp [aPulse, this, hrf']
    have hreq : ai.hsReq = false ∧ aSStart a ai = false := by
      constructor
      · cases hq : ai.hsReq with
        | false => rfl
        | true => have := e1 (Or.inl hq); simp [hp, hpend] at this
      · cases hq : aSStart a ai with
        | false => rfl
        | true => have := e1 (Or.inr hq); simp [hp, hpend] at this
    have hsr : ai.sRaw = false := by simpa [aSStart, hgf] using hreq.2
    right; left
    refine ⟨⟨?_, ?_⟩, ⟨?_, ?_⟩, ?_, ?_, ?_⟩
    · simp [astep, hht, hreq.1]
    · simp [astep, hgf, genNext, hsr]
    · simp [astep, hdone, harm]
    · have h1 : a.ct < mx + 1 := by omega
      simp only [astep, hts, cnt]; simp [h1]; omega
    · simp [hrfn]
    · simp [aGhostNext, pendStep, hreq.1, hreq.2, hp, hpend]
    · have h1 : a.ct < mx + 1 := by omega
      have h2 : a.ct < p.T := by omega
      simp [aGhostNext, astep, hts, cnt, winNext, hsol, htx, hwin, h1, h2]
  · -- the pulse
    have hceq : a.ct = d := by omega
    have hp : aPulse d a = true := by simp [aPulse, hceq, harm]
    have hna : ¬ tokArmed d (astep d mx a ai) := by
      have h1 : a.ct < mx + 1 := by omega
      simp only [tokArmed, astep, hts, cnt]; simp [h1]; omega
    have hwn : (aGhostNext d p g a ai).win = .wait (d + 1) := by
      have h2 : d < p.T := by omega
      simp [aGhostNext, winNext, hsol, htx, hwin, hceq, h2]
    cases hq : ai.hsReq with
    | true =>
      have hss := e2 hq
      have hsr : ai.sRaw = false := by simpa [aSStart, hgf] using hss
      right; right; right; right
      refine ⟨Or.inl ⟨?_, ?_⟩, hna, by simp [hrfn], ?_, by simp [hwn]⟩
      · simp [astep, hht, hq]
      · simp [astep, hgf, genNext, hsr]
      · simp [aGhostNext, pendStep, hq]
    | false =>
      cases hs : aSStart a ai with
      | true =>
        have hsr : ai.sRaw = true := by simpa [aSStart, hgf] using hs
        right; right; right; right
        refine ⟨Or.inr ⟨?_, ?_⟩, hna, by simp [hrfn], ?_, by simp [hwn]⟩
        · simp [astep, hht, hq]
        · simp [astep, hgf, genNext, hsr]
        · simp [aGhostNext, pendStep, hs]
      | false =>
        have hsr : ai.sRaw = false := by simpa [aSStart, hgf] using hs
        right; right; right; left
        refine ⟨⟨?_, ?_⟩, hna, by simp [hrfn], 0, d + 1, ?_, by omega, hwn, by omega⟩
        · simp [astep, hht, hq]
        · simp [astep, hgf, genNext, hsr]
        · simp [aGhostNext, pendStep, hq, hs, hp]

/-- A disarmed token timer stays disarmed unless a token ends. -/
theorem notArmed_keep (hdone : tokDone a ai = false) (hna : ¬ tokArmed d a) : ¬ tokArmed d (astep d mx a ai) := by
  have hts : tokStart a ai = false := by simp [tokStart, hdone]
  simp only [tokArmed, astep, hdone, hts, cnt] at hna ⊢
  simp only [Bool.false_and, Bool.false_eq_true, if_false]
  intro ⟨h1, h2⟩
  apply hna
  refine ⟨h1, ?_⟩
  split at h2 <;> omega

theorem noPulse_of (hna : ¬ tokArmed d a) (hr : a.rf ≠ .delay) : aPulse d a = false := by
  simp only [tokArmed] at hna
  cases harm : a.armed with
  | false => simp [aPulse, hr, harm]
  | true =>
    have : a.ct ≠ d := by
      intro hc; apply hna; exact ⟨harm, by omega⟩
    simp [aPulse, hr, this]

/-- Without a pulse and without a pending one nothing may be requested. -/
theorem noReq_of (he : aEnvOk d g a ai = true) (hp : aPulse d a = false) (hpend : g.pend = none) :
    ai.hsReq = false ∧ aSStart a ai = false := by
  obtain ⟨_, e1, _, _, _⟩ := envOk_facts he
  constructor
  · cases hq : ai.hsReq with
    | false => rfl
    | true => have := e1 (Or.inl hq); simp [hp, hpend] at this
  · cases hq : aSStart a ai with
    | false => rfl
    | true => have := e1 (Or.inr hq); simp [hp, hpend] at this

/-- The three possible reactions to "a request is allowed in this cycle" when both transmitters are idle and the
window shows `wait k`. -/
theorem react (hq : quietTx a) (he : aEnvOk d g a ai = true)
    (hna : ¬ tokArmed d (astep d mx a ai)) (hrn : (astep d mx a ai).rf ≠ .delay)
    {k : Nat} (hwn : (aGhostNext d p g a ai).win = .wait (k + 1))
    (hpn : ai.hsReq = false → aSStart a ai = false →
      ((aGhostNext d p g a ai).pend = none) ∨
      (∃ j, (aGhostNext d p g a ai).pend = some j ∧ j ≤ p.L ∧ k + 1 ≤ d + 2 + j)) :
    Mode d p (astep d mx a ai) (aGhostNext d p g a ai) := by
  obtain ⟨hht, hgf⟩ := hq
  obtain ⟨_, _, e2, _, _⟩ := envOk_facts he
  cases hq : ai.hsReq with
  | true =>
    have hss := e2 hq
    have hsr : ai.sRaw = false := by simpa [aSStart, hgf] using hss
    right; right; right; right
    refine ⟨Or.inl ⟨?_, ?_⟩, hna, hrn, ?_, by simp [hwn]⟩
    · simp [astep, hht, hq]
    · simp [astep, hgf, genNext, hsr]
    · simp [aGhostNext, pendStep, hq]
  | false =>
    cases hs : aSStart a ai with
    | true =>
      have hsr : ai.sRaw = true := by simpa [aSStart, hgf] using hs
      right; right; right; right
      refine ⟨Or.inr ⟨?_, ?_⟩, hna, hrn, ?_, by simp [hwn]⟩
      · simp [astep, hht, hq]
      · simp [astep, hgf, genNext, hsr]
      · simp [aGhostNext, pendStep, hs]
    | false =>
      have hsr : ai.sRaw = false := by simpa [aSStart, hgf] using hs
      have hq' : quietTx (astep d mx a ai) := by
        constructor
        · simp [astep, hht, hq]
        · simp [astep, hgf, genNext, hsr]
      rcases hpn hq hs with hn | ⟨j, hj, hjl, hk⟩
      · left; exact ⟨hq', hna, hrn, hn⟩
      · right; right; right; left
        exact ⟨hq', hna, hrn, j, k + 1, hj, hjl, hwn, hk⟩

theorem m2_step (h : Inv d p a g) (hh : aHostOk g ai = true) (he : aEnvOk d g a ai = true)
    (hd : d ≤ mx) (hT : d + p.L + 2 < p.T)
    (m : quietTx a ∧ ¬ tokArmed d a ∧ a.rf = .delay ∧ g.pend = none ∧ a.cs ≤ d ∧
      ∃ k, g.win = .wait k ∧ (k = a.cs ∨ k = a.cs + 1) ∧ (1 ≤ k → g.a2 = false)) :
    Mode d p (astep d mx a ai) (aGhostNext d p g a ai) := by
  obtain ⟨hq, hnarm, hrf, hpend, hcs, k, hwin, hk, hka2⟩ := m
  have hw : g.win ≠ .closed := by simp [hwin]
  obtain ⟨hact, ha1, htf, _⟩ := open_facts h hh hw
  obtain ⟨hdone, hts, hrs, hsol⟩ := open_no_start h hh hw
  obtain ⟨e0, e1, e2, _, e4⟩ := envOk_facts he
  have hgv : genValid a.gf ai = false := by simp [hq.2, genValid]
  have htx : aTxValid a ai = false := by simp [aTxValid, e0, hgv, hq.1]
  have hna := notArmed_keep (mx := mx) hdone hnarm
  have hkT : k < p.T := by omega
  have hwn : (aGhostNext d p g a ai).win = .wait (k + 1) := by
    simp [aGhostNext, winNext, hsol, htx, hwin, hkT]
  have htokp : (a.ct == d && a.armed) = false := by
    simp only [tokArmed] at hnarm
    cases harm : a.armed with
    | false => simp
    | true =>
      have : a.ct ≠ d := by intro hc; apply hnarm; exact ⟨harm, by omega⟩
      simp [this]
  by_cases hlt : a.cs < d
  · have hp : aPulse d a = false := by
      have : a.cs ≠ d := by omega
      simp [aPulse, htokp, this]
    obtain ⟨hnq, hns⟩ := noReq_of he hp hpend
    have hsr : ai.sRaw = false := by simpa [aSStart, hq.2] using hns
    have hne : a.cs ≠ d := by omega
    right; right; left
    refine ⟨⟨?_, ?_⟩, hna, ?_, ?_, ?_, k + 1, hwn, ?_, ?_⟩
    · simp [astep, hq.1, hnq]
    · simp [astep, hq.2, genNext, hsr]
    · simp [astep, hrf, rxNext, hne]
    · simp [aGhostNext, pendStep, hnq, hns, hp, hpend]
    · simp only [astep, cnt, hrs]; split
      · omega
      · split <;> omega
    · have h1 : a.cs < mx + 1 := by omega
      cases hes : ai.envStart with
      | true =>
        have ha2 := (e4 hes).2
        have hk0 : k = 0 := by
          rcases Nat.eq_zero_or_pos k with h0 | h0
          · exact h0
          · have := hka2 h0; simp [ha2] at this
        simp [astep, cnt, hrs, hes]; omega
      | false => simp [astep, cnt, hrs, hes, h1]; omega
    · intro _; simp [aGhostNext, ha1]
  · have hceq : a.cs = d := by omega
    have hp : aPulse d a = true := by simp [aPulse, hrf, hceq]
    have hrn : (astep d mx a ai).rf ≠ .delay := by simp [astep, hrf, rxNext, hceq]
    apply react hq he hna hrn hwn
    intro hnq hns
    right
    refine ⟨0, ?_, by omega, by omega⟩
    simp [aGhostNext, pendStep, hnq, hns, hp]

theorem m3_step (h : Inv d p a g) (hh : aHostOk g ai = true) (he : aEnvOk d g a ai = true)
    (hT : d + p.L + 2 < p.T)
    (m : quietTx a ∧ ¬ tokArmed d a ∧ a.rf ≠ .delay ∧
      ∃ j k, g.pend = some j ∧ j ≤ p.L ∧ g.win = .wait k ∧ k ≤ d + 2 + j) :
    Mode d p (astep d mx a ai) (aGhostNext d p g a ai) := by
  obtain ⟨hq, hnarm, hrd, j, k, hpend, hjl, hwin, hk⟩ := m
  have hw : g.win ≠ .closed := by simp [hwin]
  obtain ⟨hact, ha1, htf, hrf⟩ := open_facts h hh hw
  obtain ⟨hdone, hts, hrs, hsol⟩ := open_no_start h hh hw
  obtain ⟨e0, _, _, _, _⟩ := envOk_facts he
  have hrf' : a.rf = .idle := by rcases hrf with hr | hr; exact hr; exact absurd hr hrd
  have hgv : genValid a.gf ai = false := by simp [hq.2, genValid]
  have htx : aTxValid a ai = false := by simp [aTxValid, e0, hgv, hq.1]
  have hna := notArmed_keep (mx := mx) hdone hnarm
  have hkT : k < p.T := by omega
  have hwn : (aGhostNext d p g a ai).win = .wait (k + 1) := by
    simp [aGhostNext, winNext, hsol, htx, hwin, hkT]
  have hrn : (astep d mx a ai).rf ≠ .delay := by simp [astep, hrf', rxNext, hact]
  have hp := noPulse_of hnarm hrd
  apply react hq he hna hrn hwn
  intro hnq hns
  by_cases hj : j < p.L
  · right
    refine ⟨j + 1, ?_, by omega, by omega⟩
    simp [aGhostNext, pendStep, hnq, hns, hp, hpend, hj]
  · left
    simp [aGhostNext, pendStep, hnq, hns, hp, hpend, hj]

theorem m4_step (h : Inv d p a g) (hh : aHostOk g ai = true) (he : aEnvOk d g a ai = true)
    (m : ((a.ht = true ∧ a.gf = .idle) ∨ (a.ht = false ∧ a.gf ≠ .idle)) ∧ ¬ tokArmed d a ∧ a.rf ≠ .delay ∧
      g.pend = none ∧ g.win ≠ .closed) :
    Mode d p (astep d mx a ai) (aGhostNext d p g a ai) := by
  obtain ⟨hbusy, hnarm, hrd, hpend, hw⟩ := m
  obtain ⟨hact, ha1, htf, hrf⟩ := open_facts h hh hw
  obtain ⟨hdone, hts, hrs, hsol⟩ := open_no_start h hh hw
  obtain ⟨e0, _, _, e3, _⟩ := envOk_facts he
  have hrf' : a.rf = .idle := by rcases hrf with hr | hr; exact hr; exact absurd hr hrd
  have hna := notArmed_keep (mx := mx) hdone hnarm
  have hrn : (astep d mx a ai).rf ≠ .delay := by simp [astep, hrf', rxNext, hact]
  have hp := noPulse_of hnarm hrd
  obtain ⟨hnq, hns⟩ := noReq_of he hp hpend
  have hpn : (aGhostNext d p g a ai).pend = none := by simp [aGhostNext, pendStep, hnq, hns, hp, hpend]
  have htx : aTxValid a ai = true := by
    rcases hbusy with ⟨hht, _⟩ | ⟨_, hgf⟩
    · simp [aTxValid, hht]
    · have : genValid a.gf ai = true := by
        cases hg : a.gf with
        | idle => exact absurd hg hgf
        | sendPayload => simp [genValid, e3 hg]
        | sendPid => simp [genValid]
        | sendCrcFirst => simp [genValid]
        | sendCrcSecond => simp [genValid]
      simp [aTxValid, this]
  have hwn : (aGhostNext d p g a ai).win ≠ .closed := by
    cases hwc : g.win with
    | closed => exact absurd hwc hw
    | wait k => simp [aGhostNext, winNext, hsol, htx, hwc]
    | resp => simp [aGhostNext, winNext, hsol, htx, hwc]
  rcases hbusy with ⟨hht, hgf⟩ | ⟨hht, hgf⟩
  · have hsr : ai.sRaw = false := by simpa [aSStart, hgf] using hns
    have hgn : (astep d mx a ai).gf = .idle := by simp [astep, hgf, genNext, hsr]
    cases hr : ai.txReady with
    | true =>
      left
      refine ⟨⟨?_, hgn⟩, hna, hrn, hpn⟩
      simp [astep, hht, hr]
    | false =>
      right; right; right; right
      refine ⟨Or.inl ⟨?_, hgn⟩, hna, hrn, hpn, hwn⟩
      simp [astep, hht, hr]
  · have hhn : (astep d mx a ai).ht = false := by simp [astep, hht, hnq]
    by_cases hgn : (astep d mx a ai).gf = .idle
    · left; exact ⟨⟨hhn, hgn⟩, hna, hrn, hpn⟩
    · right; right; right; right
      exact ⟨Or.inr ⟨hhn, hgn⟩, hna, hrn, hpn, hwn⟩

theorem rxNext_delay (rf : RF) (active valid isData crcMatch allowed : Bool)
    (h : rxNext rf active valid isData crcMatch allowed = .delay) :
    (rf = .emit ∧ active = false ∧ crcMatch = true) ∨ (rf = .delay ∧ allowed = false) := by
  cases rf <;> cases active <;> cases valid <;> simp_all [rxNext] <;>
    (try (cases isData <;> simp_all)) <;> (try (cases crcMatch <;> simp_all)) <;> (try (cases allowed <;> simp_all))

theorem m0_step (h : Inv d p a g) (he : aEnvOk d g a ai = true)
    (m : quietTx a ∧ ¬ tokArmed d a ∧ a.rf ≠ .delay ∧ g.pend = none) :
    Mode d p (astep d mx a ai) (aGhostNext d p g a ai) := by
  obtain ⟨hq, hnarm, hrd, hpend⟩ := m
  obtain ⟨e0, _, _, _, _⟩ := envOk_facts he
  have hp := noPulse_of hnarm hrd
  obtain ⟨hnq, hns⟩ := noReq_of he hp hpend
  have hsr : ai.sRaw = false := by simpa [aSStart, hq.2] using hns
  have hq' : quietTx (astep d mx a ai) := by
    constructor
    · simp [astep, hq.1, hnq]
    · simp [astep, hq.2, genNext, hsr]
  have hpn : (aGhostNext d p g a ai).pend = none := by simp [aGhostNext, pendStep, hnq, hns, hp, hpend]
  have hgv : genValid a.gf ai = false := by simp [hq.2, genValid]
  have htx : aTxValid a ai = false := by simp [aTxValid, e0, hgv, hq.1]
  -- does a data packet end (with a good CRC) in this cycle?
  cases hrs : rxStart a ai with
  | true =>
    have hrs' := hrs
    simp only [rxStart, Bool.and_eq_true, beq_iff_eq, Bool.not_eq_true'] at hrs'
    obtain ⟨⟨hemit, hact⟩, hcm⟩ := hrs'
    have htf : a.tf = .irrelevant := by
      have := h.lock; rw [hemit] at this
      cases ht : a.tf <;> simp [ht, lk] at this ⊢
    have hdone : tokDone a ai = false := by simp [tokDone, htf]
    have hna := notArmed_keep (mx := mx) hdone hnarm
    right; right; left
    refine ⟨hq', hna, ?_, hpn, ?_, 0, ?_, ?_, ?_⟩
    · simp [astep, hemit, rxNext, hact, hcm]
    · simp [astep, cnt, hrs]
    · simp [aGhostNext, winNext, aSol, hrs]
    · simp [astep, cnt, hrs]
    · intro h0; omega
  | false =>
    have hrn : (astep d mx a ai).rf ≠ .delay := by
      intro hdl
      simp only [astep] at hdl
      rcases rxNext_delay _ _ _ _ _ _ hdl with ⟨h1, h2, h3⟩ | ⟨h1, _⟩
      · simp [rxStart, h1, h2, h3] at hrs
      · exact hrd h1
    cases hts : tokStart a ai with
    | false =>
      by_cases hdone : tokDone a ai = false
      · left; exact ⟨hq', notArmed_keep hdone hnarm, hrn, hpn⟩
      · -- a SOF or a foreign token ends: the pid register keeps its value (SOF) or is cleared
        have hdone' : tokDone a ai = true := by simpa using hdone
        left
        refine ⟨hq', ?_, hrn, hpn⟩
        simp only [tokStart, hdone', Bool.true_and, Bool.and_eq_false_iff, Bool.not_eq_false'] at hts
        simp only [tokArmed, astep, hdone', cnt, Bool.true_and]
        rcases hts with hsof | happ
        · simp only [hsof, Bool.not_true, Bool.false_eq_true, if_false, tokStart, hdone', Bool.true_and,
            Bool.false_and]
          intro ⟨h1, h2⟩
          apply hnarm
          refine ⟨h1, ?_⟩
          split at h2 <;> omega
        · cases hsof : ai.sof <;> simp [happ, hsof, tokStart, hdone']
          intro h1
          have : ¬ a.ct ≤ d := fun hc => hnarm ⟨h1, hc⟩
          split <;> omega
    | true =>
      have hts' := hts
      simp only [tokStart, Bool.and_eq_true, Bool.not_eq_true'] at hts'
      obtain ⟨⟨hdone, hsof⟩, happ⟩ := hts'
      cases harm : ai.cpidArm with
      | false =>
        left
        refine ⟨hq', ?_, hrn, hpn⟩
        simp [tokArmed, astep, hdone, hsof, happ, harm]
      | true =>
        right; left
        refine ⟨hq', ⟨?_, ?_⟩, hrn, hpn, ?_⟩
        · simp [astep, hdone, hsof, happ, harm]
        · simp [astep, cnt, hts]
        · simp [aGhostNext, winNext, aSol, hts, harm, astep, cnt]

/-- The invariant is inductive. -/
theorem inv_step (h : Inv d p a g) (hx : aiOk ai = true) (hh : aHostOk g ai = true) (he : aEnvOk d g a ai = true)
    (hd : d ≤ mx) (hT : d + p.L + 2 < p.T) :
    Inv d p (astep d mx a ai) (aGhostNext d p g a ai) := by
  obtain ⟨s1, s2, s3, s4⟩ := inv_step_struct (mx := mx) h hh hx
  refine ⟨s1, s2, s3, s4, ?_⟩
  rcases h.mode with m | m | m | m | m
  · exact m0_step h he m
  · exact m1_step h hh he hd hT m
  · exact m2_step h hh he hd hT m
  · exact m3_step h hh he hT m
  · exact m4_step h hh he m

/-- What the invariant is for: a transmitter is busy only while the response window is open, and then nothing is
being received; the two transmitters are never busy together. -/
theorem inv_safe (h : Inv d p a g) (hh : aHostOk g ai = true) (he : aEnvOk d g a ai = true)
    (htx : aTxValid a ai = true) : g.win ≠ .closed ∧ ai.active = false ∧ ¬ (a.ht = true ∧ genValid a.gf ai = true) := by
  obtain ⟨e0, _, _, _, _⟩ := envOk_facts he
  have hbusy : a.ht = true ∨ a.gf ≠ .idle := by
    simp only [aTxValid, e0, Bool.false_or, Bool.or_eq_true] at htx
    rcases htx with hg | hht
    · right; intro hgi; simp [hgi, genValid] at hg
    · left; exact hht
  have key : g.win ≠ .closed ∧ ¬ (a.ht = true ∧ a.gf ≠ .idle) := by
    rcases h.mode with m | m | m | m | m
    · exfalso; rcases hbusy with hb | hb; simp [m.1.1] at hb; exact hb m.1.2
    · exfalso; rcases hbusy with hb | hb; simp [m.1.1] at hb; exact hb m.1.2
    · exfalso; rcases hbusy with hb | hb; simp [m.1.1] at hb; exact hb m.1.2
    · exfalso; rcases hbusy with hb | hb; simp [m.1.1] at hb; exact hb m.1.2
    · refine ⟨m.2.2.2.2, ?_⟩
      rcases m.1 with ⟨_, hg⟩ | ⟨hht, _⟩
      · intro hc; exact hc.2 hg
      · intro hc; simp [hht] at hc
  refine ⟨key.1, (open_facts h hh key.1).1, ?_⟩
  intro ⟨h1, h2⟩
  apply key.2
  refine ⟨h1, ?_⟩
  intro hgi; simp [hgi, genValid] at h2

end LunaVerif.DevCyc.Abs
