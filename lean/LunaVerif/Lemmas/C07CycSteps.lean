import LunaVerif.Model.Usb2.ControlCyc
/-!
# C07 / C08 / C10 — one-step facts of the CYCLE-level model (Model/Usb2/ControlCyc.lean)

The cycle-level model of `USBControlEndpoint` + request multiplexer + `StandardRequestHandler` is tied to the real
gateware clock cycle by clock cycle (harness/props/c07_cyc.py).  The lemmas below are the one-cycle facts the
event-level theorems of Props/C07, C08, C10 rest on; they hold for EVERY state and EVERY value of the inputs
(token detector, setup decoder, descriptor handler, transmitter and the device core are unconstrained, except
where a hypothesis says otherwise).
-/
namespace LunaVerif.CtrlCyc
open LunaVerif.Device

/-! ### Projections of `step` -/
section
variable (c : Cfg) (s : CycState) (i : CycIn)
theorem step_stage : (step c s i).1.stage = ctrlNext c s.stage i := rfl
theorem step_h : (step c s i).1.h = (stdStep c s.h (handlerIn i (ctrlComb c s.stage i))).1 := rfl
theorem step_ctl : (step c s i).2.ctl = ctrlComb c s.stage i := rfl
theorem step_hout : (step c s i).2.h = (stdStep c s.h (handlerIn i (ctrlComb c s.stage i))).2 := rfl
end

/-- `step` reads its inputs only through `ctrlComb`, `ctrlNext`, `handlerIn` and `sdAck`. -/
theorem step_congr {c : Cfg} {s : CycState} {i j : CycIn}
    (h1 : ctrlComb c s.stage i = ctrlComb c s.stage j) (h2 : ctrlNext c s.stage i = ctrlNext c s.stage j)
    (h3 : handlerIn i (ctrlComb c s.stage i) = handlerIn j (ctrlComb c s.stage j)) (h4 : i.sdAck = j.sdAck) :
    step c s i = step c s j := by
  unfold step
  simp only []
  rw [h3, h2, h4, h1]

/-- The token detector decodes ONE PID: at most one of the four flags is set. -/
def FlagsExclusive (i : CycIn) : Prop :=
  (i.isSetup = true → i.isIn = false ∧ i.isOut = false ∧ i.isPing = false) ∧
  (i.isIn = true → i.isOut = false ∧ i.isPing = false) ∧
  (i.isOut = true → i.isPing = false)

instance (i : CycIn) : Decidable (FlagsExclusive i) := by unfold FlagsExclusive; infer_instance

/-! ### `ctrl_stage_restarts_on_setup` -/

/-- **Every SETUP token restarts the stage FSM.**  From every stage, a cycle in which the token detector
strobes `new_token` for a SETUP token leaves the control endpoint in its SETUP stage -- provided the setup
decoder does not report a packet in the very same cycle (it reports one only after the DATA0 packet that
follows the token; in the SETUP stage a simultaneous report would win). -/
theorem ctrl_stage_restarts_on_setup (c : Cfg) (s : CycState) (i : CycIn)
    (htok : i.newToken = true) (hsetup : i.isSetup = true) (hfl : FlagsExclusive i)
    (hrecv : i.received = false) :
    (step c s i).1.stage = .setup := by
  obtain ⟨h1, h2, h3⟩ := hfl.1 hsetup
  rw [step_stage]
  cases hs : s.stage <;> simp [ctrlNext, htok, hsetup, h1, h2, h3, hrecv]

/-- In the DATA_IN / STATUS_IN / STATUS_OUT / DATA_OUT stages the restart needs no assumption on the setup
decoder at all. -/
theorem ctrl_stage_restarts_on_setup_of_started (c : Cfg) (s : CycState) (i : CycIn)
    (htok : i.newToken = true) (hsetup : i.isSetup = true) (hfl : FlagsExclusive i)
    (hst : s.stage ≠ .setup) :
    (step c s i).1.stage = .setup := by
  obtain ⟨h1, h2, h3⟩ := hfl.1 hsetup
  rw [step_stage]
  cases hs : s.stage <;> simp_all [ctrlNext]

/-- **… and the SETUP stage is left only by a reported SETUP packet for this endpoint**, for the stage the
packet's direction and length call for. -/
theorem ctrl_setup_stage_next (c : Cfg) (s : CycState) (i : CycIn) (hst : s.stage = .setup) :
    (step c s i).1.stage =
      if i.received = true ∧ i.tokEp = c.epNum then stageAfterSetup i.su else .setup := by
  rw [step_stage, hst]
  simp [ctrlNext, targeted]

/-- **`handle_new_setup` from every handler state**: a reported standard SETUP packet puts the standard
handler into the state the request code selects, with `start_position = 0` and DATA1, whatever it was doing
and whatever else happens in that cycle. -/
theorem handler_restarts_on_setup (c : Cfg) (s : CycState) (i : CycIn)
    (hrecv : i.received = true) (hty : i.su.type = TYPE_STANDARD) :
    (step c s i).1.h.hstate = dispatch i.su.request ∧ (step c s i).1.h.startPos = 0 ∧
    (step c s i).1.h.txPid = true := by
  rw [step_h]
  simp [stdStep, handlerIn, hty, handleNewSetup, hrecv]

/-- A request of another type freezes the standard handler (its whole FSM sits under
`If(setup.type == STANDARD)`) and it does not claim the multiplexer. -/
theorem handler_frozen_when_not_standard (c : Cfg) (s : CycState) (i : CycIn) (hty : i.su.type ≠ TYPE_STANDARD) :
    (step c s i).1.h = s.h ∧ (step c s i).2.h.claim = false := by
  rw [step_h, step_hout]
  simp [stdStep, handlerIn, hty]

/-! ### `handshake_forwarded_only_for_own_in_token` -/

/-- **A host handshake reaches the request handlers exactly when the most recent token is an IN token for
this endpoint.** -/
theorem handshake_forwarded_only_for_own_in_token (c : Cfg) (s : CycState) (i : CycIn) :
    (step c s i).2.ctl.hsAck = true ↔ (i.hsAck = true ∧ i.tokEp = c.epNum ∧ i.isIn = true) := by
  rw [step_ctl]
  simp [ctrlComb, targeted]
  constructor
  · rintro ⟨⟨a, b⟩, d⟩; exact ⟨d, a, b⟩
  · rintro ⟨a, b, d⟩; exact ⟨⟨b, d⟩, a⟩

/-- … and otherwise the handshake is invisible to the whole control endpoint: the cycle is exactly the cycle
without the handshake (same next state, same outputs). -/
theorem foreign_handshake_is_invisible (c : Cfg) (s : CycState) (i : CycIn)
    (h : ¬ (i.tokEp = c.epNum ∧ i.isIn = true)) :
    step c s i = step c s { i with hsAck := false } := by
  have hc : ctrlComb c s.stage i = ctrlComb c s.stage { i with hsAck := false } := by
    simp only [ctrlComb, targeted]
    by_cases h1 : i.tokEp = c.epNum <;> by_cases h2 : i.isIn = true <;> simp_all
  apply step_congr
  · exact hc
  · rfl
  · rw [← hc]; rfl
  · rfl

/-! ### `address_strobe_only_on_gated_ack_in_set_address` -/

/-- **`address_changed` is strobed exactly in a cycle in which a host ACK arrives while the most recent token is
an IN token for this endpoint, the latched request is a standard one and the standard handler is in its
SET_ADDRESS state**; the value driven with it is `wValue[6:0]`. -/
theorem address_strobe_only_on_gated_ack_in_set_address (c : Cfg) (s : CycState) (i : CycIn) :
    ((step c s i).2.addressChanged = true ↔
      (i.hsAck = true ∧ i.tokEp = c.epNum ∧ i.isIn = true ∧ i.su.type = TYPE_STANDARD ∧
       s.h.hstate = .setAddress)) ∧
    ((step c s i).2.addressChanged = true → (step c s i).2.newAddress = i.su.value % 128) := by
  by_cases hty : i.su.type = TYPE_STANDARD
  · cases hs : s.h.hstate <;>
      simp [step, muxOut, stdStep, stdComb, simpleDataOut, regWriteZlp, handlerIn, ctrlComb, targeted, hty, hs]
    · grind
  · simp [step, muxOut, stdStep, fallbackOut, handlerIn, hty]

/-- The same for `config_changed` / `new_config` (= `wValue[7:0]`) and the SET_CONFIGURATION state. -/
theorem config_strobe_only_on_gated_ack_in_set_configuration (c : Cfg) (s : CycState) (i : CycIn) :
    ((step c s i).2.configChanged = true ↔
      (i.hsAck = true ∧ i.tokEp = c.epNum ∧ i.isIn = true ∧ i.su.type = TYPE_STANDARD ∧
       s.h.hstate = .setConfiguration)) ∧
    ((step c s i).2.configChanged = true → (step c s i).2.newConfig = i.su.value % 256) := by
  by_cases hty : i.su.type = TYPE_STANDARD
  · cases hs : s.h.hstate <;>
      simp [step, muxOut, stdStep, stdComb, simpleDataOut, regWriteZlp, handlerIn, ctrlComb, targeted, hty, hs]
    · grind
  · simp [step, muxOut, stdStep, fallbackOut, handlerIn, hty]

/-- The halt-clear strobe of CLEAR_FEATURE (`clear_endpoint_halt_out`) is gated in the same way; the endpoint it
names is `wIndex[3:0]`, direction `wIndex[7]`.  (It does not depend on the request's stall condition: F5 of
DESIGN section 7 -- unreachable for a legal host, which never ACKs after a STALL.) -/
theorem halt_clear_strobe_only_on_gated_ack_in_clear_feature (c : Cfg) (s : CycState) (i : CycIn) :
    ((step c s i).2.cehEnable = true ↔
      (i.hsAck = true ∧ i.tokEp = c.epNum ∧ i.isIn = true ∧ i.su.type = TYPE_STANDARD ∧
       s.h.hstate = .clearFeature)) ∧
    ((step c s i).2.cehEnable = true →
      (step c s i).2.cehNumber = i.su.index % 16 ∧
      ((step c s i).2.cehDirection = true ↔ i.su.index / 128 % 2 = 1)) := by
  by_cases hty : i.su.type = TYPE_STANDARD
  · cases hs : s.h.hstate <;>
      simp [step, muxOut, stdStep, stdComb, simpleDataOut, regWriteZlp, handlerIn, ctrlComb, targeted, hty, hs]
    · grind
  · simp [step, muxOut, stdStep, fallbackOut, handlerIn, hty]

/-- The strobing cycle is also the one in which the handler returns to IDLE (unless a new SETUP is reported
in the same cycle): the register is written exactly once per request. -/
theorem address_strobe_returns_to_idle (c : Cfg) (s : CycState) (i : CycIn)
    (h : (step c s i).2.addressChanged = true) (hrecv : i.received = false) :
    (step c s i).1.h.hstate = .idle := by
  obtain ⟨a, b, d, hty, hs⟩ := (address_strobe_only_on_gated_ack_in_set_address c s i).1.1 h
  rw [step_h]
  simp [stdStep, handlerIn, hty, handleNewSetup, hrecv, stdStateBody, hs, ctrlComb, targeted, a, b, d]

/-- No request handler drives a strobe in the IDLE state. -/
theorem idle_handler_drives_nothing (c : Cfg) (s : CycState) (i : CycIn) (hs : s.h.hstate = .idle)
    (hty : i.su.type = TYPE_STANDARD) :
    (step c s i).2.addressChanged = false ∧ (step c s i).2.configChanged = false ∧
    (step c s i).2.cehEnable = false ∧ (step c s i).2.stall = false ∧ (step c s i).2.txValid = false ∧
    (step c s i).2.ack = (i.sdAck || (step c s i).2.ctl.pingAck) := by
  simp [step, muxOut, stdStep, stdComb, handlerIn, hty, hs]

/-! ### `unhandled_stalls` -/

/-- **An unsupported standard request is STALLed at the first opportunity**: in the UNHANDLED state, the cycle in
which the control endpoint asks for the data or the status stage answers STALL, transmits nothing, strobes
nothing, acknowledges nothing of its own, and the handler returns to IDLE (or starts the next request, if a new
SETUP is reported in that very cycle). -/
theorem unhandled_stalls (c : Cfg) (s : CycState) (i : CycIn)
    (hs : s.h.hstate = .unhandled) (hty : i.su.type = TYPE_STANDARD)
    (hreq : (step c s i).2.ctl.dataRequested = true ∨ (step c s i).2.ctl.statusRequested = true) :
    (step c s i).2.stall = true ∧ (step c s i).2.txValid = false ∧
    (step c s i).2.ack = (i.sdAck || (step c s i).2.ctl.pingAck) ∧
    (step c s i).2.addressChanged = false ∧ (step c s i).2.configChanged = false ∧
    (step c s i).2.cehEnable = false ∧
    (step c s i).1.h.hstate = (if i.received then dispatch i.su.request else .idle) := by
  rw [step_ctl] at hreq
  have hreq' : ((ctrlComb c s.stage i).dataRequested || (ctrlComb c s.stage i).statusRequested) = true := by
    rcases hreq with h | h <;> simp [h]
  refine ⟨?_, ?_, ?_, ?_, ?_, ?_, ?_⟩ <;>
    simp [step, muxOut, stdStep, stdComb, handlerIn, hty, hs, hreq', handleNewSetup, stdStateBody]
  cases i.received <;> simp

/-- While it waits for that opportunity the UNHANDLED state drives nothing. -/
theorem unhandled_waits_silently (c : Cfg) (s : CycState) (i : CycIn)
    (hs : s.h.hstate = .unhandled) (hty : i.su.type = TYPE_STANDARD)
    (hreq : (step c s i).2.ctl.dataRequested = false ∧ (step c s i).2.ctl.statusRequested = false)
    (hrecv : i.received = false) :
    (step c s i).2.stall = false ∧ (step c s i).2.txValid = false ∧ (step c s i).2.addressChanged = false ∧
    (step c s i).2.configChanged = false ∧ (step c s i).1.h = s.h := by
  rw [step_ctl] at hreq
  obtain ⟨h1, h2⟩ := hreq
  refine ⟨?_, ?_, ?_, ?_, ?_⟩ <;>
    simp [step, muxOut, stdStep, stdComb, handlerIn, hty, hs, h1, h2, handleNewSetup, stdStateBody, hrecv]

/-- **A request that no handler claims is STALLed by the multiplexer's fallback handler** whenever the control
endpoint asks for a stage, and nothing else is driven. -/
theorem unclaimed_request_stalls (c : Cfg) (s : CycState) (i : CycIn) (hty : i.su.type ≠ TYPE_STANDARD) :
    (step c s i).2.stall = ((step c s i).2.ctl.dataRequested || (step c s i).2.ctl.statusRequested) ∧
    (step c s i).2.txValid = false ∧ (step c s i).2.addressChanged = false ∧
    (step c s i).2.configChanged = false ∧ (step c s i).2.cehEnable = false ∧
    (step c s i).2.ack = (i.sdAck || (step c s i).2.ctl.pingAck) := by
  simp [step, muxOut, stdStep, fallbackOut, handlerIn, hty]

/-! ### Where the requests to the handlers come from -/

/-- `data_requested` only in the DATA_IN stage, `status_requested` only in a status stage, both only for a
token naming this endpoint. -/
theorem requests_come_from_their_stage (c : Cfg) (s : CycState) (i : CycIn) :
    ((step c s i).2.ctl.dataRequested = true →
        s.stage = .dataIn ∧ i.tokEp = c.epNum ∧ i.isIn = true ∧ i.readyForResponse = true) ∧
    ((step c s i).2.ctl.statusRequested = true →
        i.tokEp = c.epNum ∧
        ((s.stage = .statusIn ∧ i.isIn = true ∧ i.readyForResponse = true) ∨
         (s.stage = .statusOut ∧ i.isOut = true ∧ i.rxReady = true))) := by
  rw [step_ctl]
  cases hs : s.stage <;> simp [ctrlComb, targeted] <;> intros <;> simp_all

/-- Tokens, strobes and handshakes that name another endpoint are stutter for the whole composition, except
that a SETUP token still returns the stage FSM to SETUP (the gateware's `_handle_setup_reset` has no endpoint
filter; hosts send SETUP only to control endpoints). -/
theorem other_endpoint_cycle_is_stutter (c : Cfg) (s : CycState) (i : CycIn)
    (hep : i.tokEp ≠ c.epNum) (hrecv : i.received = false) (hns : ¬ (i.newToken = true ∧ i.isSetup = true))
    (hidle : s.h.hstate ≠ .idle) (hgd : s.h.hstate ≠ .getDescriptor ∨ i.dStall = false) :
    (step c s i).1 = s := by
  have hc : ctrlComb c s.stage i = ⟨false, false, false, false⟩ := by
    simp [ctrlComb, targeted, hep]
  have hn : ctrlNext c s.stage i = s.stage := by
    have : (i.newToken && i.isSetup) = false := by
      cases h1 : i.newToken <;> cases h2 : i.isSetup <;> simp_all
    cases hs : s.stage <;> simp [ctrlNext, targeted, hep, this, hrecv]
  have hh : ∀ h : StdState, h.hstate ≠ .idle → (h.hstate ≠ .getDescriptor ∨ i.dStall = false) →
      (stdStep c h (handlerIn i ⟨false, false, false, false⟩)).1 = h := by
    intro h h1 h2
    obtain ⟨hst, sp, tp, ea⟩ := h
    by_cases hty : i.su.type = TYPE_STANDARD
    · cases hst <;> simp_all [stdStep, handlerIn, handleNewSetup, stdStateBody]
    · simp [stdStep, handlerIn, hty]
  have hh' := hh s.h hidle hgd
  rw [← hc] at hh'
  cases s with
  | mk st h => simp only [step, hn, hh'] at *

/-! ### Non-vacuity: concrete cycles satisfying the hypotheses above -/

/-- A SETUP token strobe as the token detector produces it. -/
def exSetupToken : CycIn := { newToken := true, isSetup := true }
/-- The response slot of an IN token for endpoint 0. -/
def exInReady : CycIn := { isIn := true, readyForResponse := true }
/-- A host ACK while the last token is an IN token for endpoint 0; latched request SET_ADDRESS(0x1234). -/
def exAck : CycIn := { isIn := true, hsAck := true, su := { request := REQ_SET_ADDRESS, value := 0x1234 } }

example : FlagsExclusive exSetupToken ∧ exSetupToken.received = false := by decide
example : (step {} { stage := .statusOut } exSetupToken).1.stage = .setup := by decide
example : (step {} { stage := .statusIn, h := { hstate := .unhandled } } exInReady).2.ctl.statusRequested = true ∧
    (step {} { stage := .statusIn, h := { hstate := .unhandled } } exInReady).2.stall = true := by decide
example : (step {} { stage := .statusIn, h := { hstate := .setAddress } } exAck).2.addressChanged = true ∧
    (step {} { stage := .statusIn, h := { hstate := .setAddress } } exAck).2.newAddress = 0x34 := by decide
-- the same ACK after an IN token for endpoint 1 (a bulk endpoint's transaction) does nothing (F3)
example : (step {} { stage := .statusIn, h := { hstate := .setAddress } } { exAck with tokEp := 1 }).2.addressChanged = false ∧
    (step {} { stage := .statusIn, h := { hstate := .setAddress } } { exAck with tokEp := 1 }).1 =
      { stage := .statusIn, h := { hstate := .setAddress } } := by decide
example : (step {} { stage := .dataIn, h := { hstate := .idle } }
    { exInReady with su := { type := 2 } }).2.stall = true := by decide

end LunaVerif.CtrlCyc
