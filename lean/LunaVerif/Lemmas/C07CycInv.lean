import LunaVerif.Lemmas.C07CycSteps
/-!
# C07 at cycle level, unbounded: the stage FSM always agrees with the latched SETUP packet

An invariant of the cycle-level model over ARBITRARY cycle histories (any number of cycles, any values on all
inputs) under the contract of the setup decoder, stated cycle by cycle (`EnvStep`):

  * the decoder reports a packet (`received`) only while it waits for the data packet of a SETUP token -- ghost
    bit `armed`: set by a `new_token` strobe of a SETUP token, cleared by any other token strobe and by the report
    itself -- and never in the cycle of a token strobe;
  * its packet registers change only in a cycle in which it reports;
  * the token detector's four flags decode one pid (`FlagsExclusive`).

`cyc_stage_follows_setup` is the cycle-level counterpart of `stage_follows_setup` (Props/C07.lean), and
`cyc_requests_follow_setup` of `data_in_only_after_in_setup` / the status-direction theorems: `data_requested` is
raised only for a device-to-host request with `wLength ≠ 0`, `status_requested` for an OUT status stage only after
such a request and for an IN status stage only otherwise.  No assumption on the host.
-/
namespace LunaVerif.CtrlCyc
open LunaVerif.Device

/-- Ghost: the setup decoder is waiting for the DATA0 packet of a SETUP token (its READ_DATA state). -/
def armedNext (a : Bool) (i : CycIn) : Bool :=
  if i.newToken then i.isSetup else if i.received then false else a

/-- The contract of one cycle: `a` = armed before the cycle, `p` = the previous cycle's inputs. -/
def EnvStep (a : Bool) (p i : CycIn) : Prop :=
  FlagsExclusive i ∧ (i.received = true → a = true ∧ i.newToken = false) ∧ (i.received = false → i.su = p.su)

def EnvOk : Bool → CycIn → List CycIn → Prop
  | _, _, [] => True
  | a, p, i :: is => EnvStep a p i ∧ EnvOk (armedNext a i) i is

/-- What a stage says about the latched SETUP packet. -/
def StageOk (st : Stage) (su : Setup) : Prop :=
  match st with
  | .setup => True
  | .dataIn => su.isIn = true ∧ su.length ≠ 0
  | .dataOut => su.isIn = false ∧ su.length ≠ 0
  | .statusOut => su.isIn = true ∧ su.length ≠ 0
  | .statusIn => ¬ (su.isIn = true ∧ su.length ≠ 0)

structure CInv (a : Bool) (su : Setup) (s : CycState) : Prop where
  armed : a = true → s.stage = .setup
  stage : StageOk s.stage su

theorem stageOk_after_setup (su : Setup) : StageOk (stageAfterSetup su) su := by
  unfold stageAfterSetup
  by_cases h1 : su.length = 0 <;> cases h2 : su.isIn <;> simp [StageOk, h1, h2]

theorem cinv_step (c : Cfg) (a : Bool) (p i : CycIn) (s : CycState) (hi : CInv a p.su s) (he : EnvStep a p i) :
    CInv (armedNext a i) i.su (step c s i).1 := by
  obtain ⟨hfl, hr, hsu⟩ := he
  cases hrec : i.received
  · -- no report: the packet registers are unchanged
    have hsu' := hsu hrec
    constructor
    · intro harm
      rw [step_stage]
      unfold armedNext at harm
      cases hnt : i.newToken
      · simp only [hnt, hrec, Bool.false_eq_true, if_false] at harm
        have := hi.armed harm
        simp [this, ctrlNext, hrec]
      · simp only [hnt, if_true] at harm
        obtain ⟨f1, f2, f3⟩ := hfl.1 harm
        cases hs : s.stage <;> simp [ctrlNext, hnt, harm, f1, f2, f3, hrec]
    · rw [step_stage, hsu']
      have := hi.stage
      cases hs : s.stage <;> simp only [hs, ctrlNext, hrec, Bool.false_and, Bool.false_eq_true, if_false] at this ⊢
      · exact this
      · split
        · exact this
        · split <;> first | trivial | exact this
      · split
        · simp only [StageOk] at this ⊢; simp [this.1]
        · split <;> first | trivial | exact this
      · split <;> first | trivial | exact this
      · split <;> first | trivial | exact this
  · -- a report: only while armed, i.e. in the SETUP stage
    obtain ⟨harm, hnt⟩ := hr hrec
    have hst := hi.armed harm
    constructor
    · intro h
      simp [armedNext, hnt, hrec] at h
    · rw [step_stage, hst]
      simp only [ctrlNext, hrec, Bool.true_and]
      split
      · exact stageOk_after_setup i.su
      · trivial

/-- The ghost bit / the previous cycle's inputs after a cycle sequence. -/
def armedAfter : Bool → List CycIn → Bool
  | a, [] => a
  | a, i :: is => armedAfter (armedNext a i) is

def lastIn : CycIn → List CycIn → CycIn
  | p, [] => p
  | _, i :: is => lastIn i is

theorem cinv_final (c : Cfg) (is : List CycIn) (a : Bool) (p : CycIn) (s : CycState)
    (hi : CInv a p.su s) (he : EnvOk a p is) :
    CInv (armedAfter a is) (lastIn p is).su (final c s is) := by
  induction is generalizing a p s with
  | nil => exact hi
  | cons i is ih => exact ih _ i _ (cinv_step c a p i s hi he.1) he.2

theorem envOk_snoc (is : List CycIn) (j : CycIn) (a : Bool) (p : CycIn) :
    EnvOk a p (is ++ [j]) ↔ (EnvOk a p is ∧ EnvStep (armedAfter a is) (lastIn p is) j) := by
  induction is generalizing a p with
  | nil => simp [EnvOk, armedAfter, lastIn]
  | cons i is ih =>
    simp only [List.cons_append, EnvOk, armedAfter, lastIn, ih]
    exact ⟨fun ⟨x, y, z⟩ => ⟨⟨x, y⟩, z⟩, fun ⟨⟨x, y⟩, z⟩ => ⟨x, y, z⟩⟩

theorem cinv_init (su : Setup) : CInv false su CtrlCyc.init := ⟨fun h => (by cases h), trivial⟩

/-- **The stage register always agrees with the packet the setup decoder shows**, after any number of cycles from
reset under the neighbours' contract. -/
theorem cyc_stage_follows_setup (c : Cfg) (is : List CycIn) (he : EnvOk false {} is) :
    StageOk (final c CtrlCyc.init is).stage (lastIn {} is).su :=
  (cinv_final c is false {} CtrlCyc.init (cinv_init _) he).stage

/-- **The handlers are asked for a data stage only after a device-to-host SETUP with `wLength ≠ 0`, for an OUT
status stage only after such a request, and for an IN status stage only otherwise** -- in every cycle of every
cycle history from reset that respects the neighbours' contract. -/
theorem cyc_requests_follow_setup (c : Cfg) (is : List CycIn) (i : CycIn) (he : EnvOk false {} (is ++ [i])) :
    ((step c (final c CtrlCyc.init is) i).2.ctl.dataRequested = true → i.su.isIn = true ∧ i.su.length ≠ 0) ∧
    ((step c (final c CtrlCyc.init is) i).2.ctl.statusRequested = true → i.isOut = true →
        i.su.isIn = true ∧ i.su.length ≠ 0) ∧
    ((step c (final c CtrlCyc.init is) i).2.ctl.statusRequested = true → i.isIn = true →
        ¬ (i.su.isIn = true ∧ i.su.length ≠ 0)) := by
  obtain ⟨h1, hfl, hr, hsu⟩ := (envOk_snoc is i false {}).1 he
  have hinv := cinv_final c is false {} CtrlCyc.init (cinv_init _) h1
  have hreq := requests_come_from_their_stage c (final c CtrlCyc.init is) i
  -- a report happens only in the SETUP stage, where nothing is requested
  have key : ∀ st, (final c CtrlCyc.init is).stage = st → st ≠ .setup →
      StageOk st i.su := by
    intro st hst hne
    cases hrec : i.received
    · rw [hsu hrec, ← hst]; exact hinv.stage
    · exact absurd ((hinv.armed (hr hrec).1).symm.trans hst).symm hne
  refine ⟨fun h => ?_, fun h ho => ?_, fun h hi => ?_⟩
  · exact key .dataIn (hreq.1 h).1 (by simp)
  · rcases (hreq.2 h).2 with ⟨_, hin, _⟩ | ⟨hst, _, _⟩
    · exact absurd ho (by simp [(hfl.2.1 hin).1])
    · exact key .statusOut hst (by simp)
  · rcases (hreq.2 h).2 with ⟨hst, _, _⟩ | ⟨_, hout, _⟩
    · exact key .statusIn hst (by simp)
    · exact absurd hout (by simp [(hfl.2.1 hi).1])

/-! ### Non-vacuity: SETUP token, GET_DESCRIPTOR packet reported, IN token, response slot -/

def exGetDescriptor : Setup := { isIn := true, request := REQ_GET_DESCRIPTOR, value := 0x100, length := 18 }

def exCycles : List CycIn :=
  [{}, { newToken := true, isSetup := true }, { isSetup := true },
   { isSetup := true, received := true, su := exGetDescriptor }, { isSetup := true, su := exGetDescriptor },
   { newToken := true, isIn := true, su := exGetDescriptor },
   { isIn := true, readyForResponse := true, su := exGetDescriptor }]

instance (a : Bool) (p i : CycIn) : Decidable (EnvStep a p i) := by unfold EnvStep; infer_instance

def EnvOk.dec : (a : Bool) → (p : CycIn) → (is : List CycIn) → Decidable (EnvOk a p is)
  | _, _, [] => isTrue trivial
  | a, p, i :: is =>
    have := EnvOk.dec (armedNext a i) i is
    inferInstanceAs (Decidable (EnvStep a p i ∧ EnvOk (armedNext a i) i is))

instance (a : Bool) (p : CycIn) (is : List CycIn) : Decidable (EnvOk a p is) := EnvOk.dec a p is

example : EnvOk false {} exCycles := by decide
example : (final {} CtrlCyc.init exCycles).stage = .dataIn := by decide
example : (step {} (final {} CtrlCyc.init (exCycles.take 6)) (exCycles.getD 6 {})).2.ctl.dataRequested = true := by
  decide

end LunaVerif.CtrlCyc
