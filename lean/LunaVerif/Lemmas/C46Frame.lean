import LunaVerif.Lemmas.C46StepAck
/-!
# C46 — framing observers: the reference packetizer on the producer side, the packets the host accepts

`Frame.exp` is what a reference packetizer makes of the words the endpoint takes from the producer: bytes are
collected into `part`; a word with `last` closes the packet (a short packet, or a full packet followed by a ZLP
`[]`), a packet that reaches `max_packet_size` without `last` is closed as a full packet.  `Frame.pkts` are the
packets the host observer of `Lemmas/C46Ghost.lean` accepts (same acceptance rule: expected sequence number,
not lost).  `InvF` relates them through the endpoint's state.
-/
namespace LunaVerif.SSStreamIn

structure Frame where
  pkts : List (List Nat)    -- packets accepted by the host, in order
  exp  : List (List Nat)    -- packets completed by the reference packetizer
  part : List Nat           -- bytes of the packetizer's current, incomplete packet

def Frame.init : Frame := ⟨[], [], []⟩

def fProd (mps : Nat) (i : In) (o : Out) (f : Frame) : Frame :=
  if i.sValid != 0 && o.sReady then
    let p := f.part ++ bytesOf (validBytes i.sValid) i.sData
    if i.sLast then { f with exp := f.exp ++ ([p] ++ (if p.length = mps then [[]] else [])), part := [] }
    else if p.length = mps then { f with exp := f.exp ++ [p], part := [] }
    else { f with part := p }
  else f

/-- the data packet the host accepts in this cycle (if any); mirrors `gTx` -/
def rxData (i : In) (o : Out) (d : Bool) (g : Ghost) : List (List Nat) :=
  if o.txValid != 0 then
    if i.txReady then
      if o.txLast then
        if !d && (if g.inPkt then g.curSeq else o.txSeq) == g.hseq then
          [g.curBytes ++ bytesOf (validBytes o.txValid) o.txData]
        else []
      else []
    else []
  else []

/-- the ZLP the host accepts in this cycle (if any); `g2` is the host after the data stream of this cycle -/
def rxZlp (o : Out) (d : Bool) (g2 : Ghost) : List (List Nat) :=
  if o.txZlp && !d && o.txSeq == g2.hseq then [[]] else []

def fnext (mps : Nat) (i : In) (o : Out) (d : Bool) (g : Ghost) (f : Frame) : Frame :=
  let f1 := fProd mps i o f
  { f1 with pkts := f1.pkts ++ (rxData i o d g ++ rxZlp o d (gTx i o d (gProd i o g))) }

theorem gTx_deliv (i : In) (o : Out) (d : Bool) (g : Ghost) :
    (gTx i o d g).deliv = g.deliv ++ (rxData i o d g).flatten := by
  unfold gTx rxData receive
  by_cases h1 : (o.txValid != 0) = true <;> by_cases h2 : i.txReady = true <;> by_cases h3 : o.txLast = true <;>
    by_cases h4 : (!d && (if g.inPkt then g.curSeq else o.txSeq) == g.hseq) = true <;> simp [h1, h2, h3, h4]

theorem gZlp_deliv (o : Out) (d : Bool) (g : Ghost) : (gZlp o d g).deliv = g.deliv := by
  unfold gZlp
  split <;> simp

/-- the observers agree: the bytes of the accepted packets are the accepted bytes -/
theorem gnext_deliv (i : In) (o : Out) (d : Bool) (g : Ghost) :
    (gnext i o d g).deliv = g.deliv ++ (rxData i o d g ++ rxZlp o d (gTx i o d (gProd i o g))).flatten := by
  have h : rxData i o d (gProd i o g) = rxData i o d g := rfl
  have hz : (rxZlp o d (gTx i o d (gProd i o g))).flatten = [] := by
    unfold rxZlp; split <;> simp
  rw [gnext, gZlp_deliv, gTx_deliv, h, List.flatten_append, hz, List.append_nil]
  rfl

/-! ### what the buffers contribute to the packet list -/

/-- the write buffer: once complete (ended, or full) it is a packet of `exp` (plus the ZLP it entails) -/
def wpart (mps fill : Nat) (ended : Bool) (mem : List Nat) : List (List Nat) :=
  if (ended || decide (mps ≤ fill)) then [bufBytes mem fill] ++ (if fill = mps ∧ ended = true then [[]] else [])
  else []

/-- ... before that it is the packetizer's partial packet -/
def ppart (mps fill : Nat) (ended : Bool) (mem : List Nat) : List Nat :=
  if (ended || decide (mps ≤ fill)) then [] else bufBytes mem fill

/-- the read buffer: a packet (or, with fill count 0, a ZLP) not yet accepted by the host -/
def rpart (v : View) (g : Ghost) : List (List Nat) :=
  if v.fsm = .waitData then [] else if g.hseq = v.seq then [bufBytes v.memR v.fillR] else []

/-- a full packet that ended its transfer is in the read buffer: a ZLP follows -/
def zowed (c : Config) (v : View) : List (List Nat) :=
  if v.fillR = c.mps ∧ v.endedR = true then [[]] else []

structure InvF (c : Config) (v : View) (g : Ghost) (f : Frame) : Prop where
  partEq : f.part = ppart c.mps v.fillW v.endedW v.memW
  pk : f.pkts ++ (rpart v g ++ (zowed c v ++ wpart c.mps v.fillW v.endedW v.memW)) = f.exp
  wdI : v.fsm = .waitData → v.endedW = true ∨ v.fillW + 4 ≤ c.mps

theorem length_bytesOf (n w : Nat) : (bytesOf n w).length = min n 4 := by
  simp [bytesOf, wordBytes]

theorem length_bufBytes (mem : List Nat) (fill : Nat) (h : fill ≤ 4 * mem.length) :
    (bufBytes mem fill).length = fill := by
  simp only [bufBytes, List.length_append, length_wordsBytes, List.length_take, length_bytesOf]
  omega

theorem wpart_zero (mps : Nat) (mem : List Nat) (h : 0 < mps) : wpart mps 0 false mem = [] := by
  simp [wpart]; omega

theorem ppart_zero (mps : Nat) (mem : List Nat) : ppart mps 0 false mem = [] := by
  simp [ppart]

/-- The write side of one cycle, seen by the packetizer. -/
theorem write_frame (c : Config) (v : View) (i : In) (f : Frame) (hc : CfgOK c)
    (lenW : v.memW.length = c.mps / 4) (hle : v.fillW ≤ c.mps) (hal : v.endedW = false → v.fillW % 4 = 0)
    (hen : v.endedW = true → 1 ≤ v.fillW) (hp : ProdOK i)
    (hpart : f.part = ppart c.mps v.fillW v.endedW v.memW) :
    ∃ dl, (fProd c.mps i (vout c v i) f).exp = f.exp ++ dl ∧
      wpart c.mps (wFill c v i) (wEnded c v i) (wMem c v i) = wpart c.mps v.fillW v.endedW v.memW ++ dl ∧
      (fProd c.mps i (vout c v i) f).part = ppart c.mps (wFill c v i) (wEnded c v i) (wMem c v i) ∧
      (fProd c.mps i (vout c v i) f).pkts = f.pkts := by
  obtain ⟨wl, wle, wal, wend, wen1, wdat⟩ := write_side c v i hc lenW hle hal hen hp
  obtain ⟨hv4, hvl, hv1⟩ := validBytes_prod i hp
  obtain ⟨hm4, hm8, _⟩ := hc
  have hsr : (i.sValid != 0 && (vout c v i).sReady) = wen c v i := rfl
  cases hw : wen c v i
  · refine ⟨[], ?_⟩
    simp [fProd, hsr, hw, wFill, wEnded, wMem, hpart]
  · have hw' := hw
    simp only [wen, vinReady, Bool.and_eq_true, bne_iff_ne, ne_eq, decide_eq_true_eq,
      Bool.not_eq_true'] at hw'
    obtain ⟨hnz, hroom, hne⟩ := hw'
    have hnc : ¬ c.mps ≤ v.fillW := by omega
    have hp0 : f.part = bufBytes v.memW v.fillW := by simp [hpart, ppart, hne, hnc]
    have hw0 : wpart c.mps v.fillW v.endedW v.memW = [] := by simp [wpart, hne, hnc]
    simp only [hw, if_true] at wdat
    have hpb : f.part ++ bytesOf (validBytes i.sValid) i.sData = bufBytes (wMem c v i) (wFill c v i) := by
      rw [hp0, wdat]
    have hlen : (bufBytes (wMem c v i) (wFill c v i)).length = wFill c v i :=
      length_bufBytes _ _ (by omega)
    have hwf : wFill c v i = v.fillW + validBytes i.sValid := by simp [wFill, hw]
    cases hl : i.sLast
    · have hwe : wEnded c v i = false := by simp [wEnded, hl, hne]
      have hn4 : validBytes i.sValid = 4 := by
        by_cases h : validBytes i.sValid = 4
        · exact h
        · have := hvl h hnz; simp_all
      by_cases hfull : wFill c v i = c.mps
      · refine ⟨[bufBytes (wMem c v i) (wFill c v i)], ?_⟩
        have hge : c.mps ≤ wFill c v i := by omega
        simp only [fProd, hsr, hw, hl, hpb, hlen, wpart, ppart, hwe, if_true, Bool.false_eq_true, if_false,
          Bool.false_or, decide_eq_true_eq, hge, and_false, List.append_nil]
        simp [hfull]
        all_goals exact ⟨hne, by omega⟩
      · have hnc' : ¬ c.mps ≤ wFill c v i := by omega
        refine ⟨[], ?_⟩
        simp only [fProd, hsr, hw, hl, hpb, hlen, wpart, ppart, hwe, if_true, Bool.false_eq_true, if_false,
          Bool.false_or, decide_eq_true_eq, hnc', and_false, List.append_nil]
        simp [hfull]
        all_goals exact ⟨hne, by omega⟩
    · have hwe : wEnded c v i = true := by simp [wEnded, hl, hw]
      refine ⟨[bufBytes (wMem c v i) (wFill c v i)] ++ (if wFill c v i = c.mps then [[]] else []), ?_⟩
      simp only [fProd, hsr, hw, hl, hpb, hlen, wpart, ppart, hwe, if_true, Bool.true_or, and_true]
      simp
      all_goals exact ⟨hne, by omega⟩

end LunaVerif.SSStreamIn
