import LunaVerif.Lemmas.C07RefineMain
import LunaVerif.Props.C09Spec
/-!
# `cycle_refines_event` for the streaming handler states — part 1: vocabulary and handler-level facts

`Lemmas/C07Refine*.lean` prove that the cycle-level composition (control endpoint + request multiplexer + standard
request handler) simulates the event-level model while the standard handler is outside GET_STATUS /
GET_CONFIGURATION / GET_DESCRIPTOR.  In those three states the answer to a data-stage IN token is not produced in
one cycle: the handler starts the `StreamSerializer` "transmitter" (`handle_simple_data_request`) or the descriptor
handler, which then stream the payload bytes over the `tx` stream, each byte held until `tx.ready`.

The two streamers stay INPUTS of the cycle-level model; the expansion of an event gives them their *stream
contract* (the one C27 proves of the serializer and C09 of the descriptor handlers, in C09's vocabulary
`Desc.respTrace`):

  * silent (`valid = 0`, `stall = 0`) unless started                                  (`calm`);
  * started in cycle `t` (the cycle of `data_requested`), they are silent for `lat ≥ 1` cycles and then present
    the bytes of the answer one after the other, `first` on byte 0, `last` on the final byte, each byte until a
    cycle with `tx.ready`; a zero-length answer is one cycle `valid ∧ last ∧ ¬first`; a missing descriptor one
    cycle `stall`                                                                      (`streamSeg`).

The response on the bus is observed the way `USBDataPacketGenerator` (C03 `prodIn`) reads the `tx` stream: a
packet starts with a `valid ∧ first` cycle (the data PID is sampled there), its payload is the bytes of the
`valid ∧ ready` cycles up to and including the one marked `last`                         (`obsStep`).
-/
namespace LunaVerif.CtrlCyc
open LunaVerif.Device

/-! ### Observing the bus -/

/-- What the handshake generator and the data packet generator see of one cycle. -/
structure Seen where
  resp    : Resp        -- handshake / zero-length packet requested in this cycle (`outResp`)
  valid   : Bool
  first   : Bool
  last    : Bool
  payload : Nat
  pid     : Nat         -- the DATA pid selected by `tx_pid_toggle`
deriving Repr, DecidableEq

def seen (o : CycOut) : Seen :=
  ⟨outResp o, o.txValid, o.txFirst, o.txLast, o.txPayload, if o.txPidToggle = 1 then PID_DATA1 else PID_DATA0⟩

/-- The observer: nothing yet / inside a data packet (pid, bytes taken so far) / the answer. -/
inductive Obs
  | idle
  | coll (pid : Nat) (acc : List Nat)
  | done (r : Resp)
deriving Repr, DecidableEq

/-- One cycle inside a packet: a byte is taken when `valid ∧ ready`; `last` ends the packet. -/
def obsTake (pid : Nat) (acc : List Nat) (rdy : Bool) (v : Seen) : Obs :=
  if v.valid && rdy then
    if v.last then .done (.data pid (acc ++ [v.payload])) else .coll pid (acc ++ [v.payload])
  else .coll pid acc

def obsStep (ob : Obs) (rdy : Bool) (v : Seen) : Obs :=
  match ob with
  | .idle =>
      if v.resp.isNone then
        if v.valid && v.first then obsTake v.pid [] rdy v else .idle
      else .done v.resp
  | .coll pid acc => obsTake pid acc rdy v
  | .done r => .done r

def Obs.resp : Obs → Resp
  | .done r => r
  | _ => .none

/-- The observer along a cycle sequence (`tx.ready` is an input of the cycle). -/
def obsRun (cyc : Cfg) : Obs → CycState → List CycIn → Obs
  | ob, _, [] => ob
  | ob, cs, i :: is => obsRun cyc (obsStep ob i.txReady (seen (step cyc cs i).2)) (step cyc cs i).1 is

/-- What the device puts on the bus during a cycle sequence. -/
def busResp (cyc : Cfg) (cs : CycState) (is : List CycIn) : Resp := (obsRun cyc .idle cs is).resp

theorem obsRun_append (cyc : Cfg) (ob : Obs) (cs : CycState) (a b : List CycIn) :
    obsRun cyc ob cs (a ++ b) = obsRun cyc (obsRun cyc ob cs a) (final cyc cs a) b := by
  induction a generalizing ob cs with
  | nil => rfl
  | cons i is ih => exact ih _ _

theorem obsRun_done (cyc : Cfg) (r : Resp) (cs : CycState) (is : List CycIn) :
    obsRun cyc (.done r) cs is = .done r := by
  induction is generalizing cs with
  | nil => rfl
  | cons i is ih => exact ih _

/-- The observer state that corresponds to an event-level response. -/
def obsOf (r : Resp) : Obs := if r.isNone then .idle else .done r

theorem obsOf_resp (r : Resp) : (obsOf r).resp = r := by
  cases r <;> simp [obsOf, Obs.resp, Resp.isNone]

/-! ### The stream contract: silent unless started -/

/-- An idle cycle's free inputs with the contract "a streamer that has not been started is silent" applied to
the streamer the handler state listens to. -/
def calm (d : DevState) (n : CycIn) : CycIn :=
  match d.hstate with
  | .getStatus | .getConfiguration => { n with tValid := false }
  | .getDescriptor => { n with dValid := false, dStall := false }
  | _ => n

/-- The same as a predicate on the handler's inputs. -/
def CalmH (hs : HState) (n : HIn) : Prop :=
  match hs with
  | .getStatus | .getConfiguration => n.tValid = false
  | .getDescriptor => n.dValid = false ∧ n.dStall = false
  | _ => True

theorem calmH_calm (d : DevState) (n : CycIn) : CalmH d.hstate (noiseH (calm d n)) := by
  unfold calm CalmH
  cases d.hstate <;> simp [noiseH]

theorem calm_of_noStream {d : DevState} (h : NoStream d) (n : CycIn) : calm d n = n := by
  obtain ⟨h1, h2, h3⟩ := h
  unfold calm
  cases hd : d.hstate <;> simp_all

/-- The handler offers no first byte. -/
def NoFirst (o : HOut) : Prop := (o.txValid && o.txFirst) = false

/-! ### Handler level, every handler state -/

/-- Idle cycle of the handler. -/
theorem hs_quiet (cyc : Cfg) (d : DevState) (h : StdState) (n : HIn) (hr : HRel d h) (hc : CalmH d.hstate n) :
    HRel d (stdStep cyc h (hin d n false false false)).1 ∧
    hResp (muxOut (stdStep cyc h (hin d n false false false)).2 (hin d n false false false)) = .none ∧
    HQuiet (muxOut (stdStep cyc h (hin d n false false false)).2 (hin d n false false false)) ∧
    NoFirst (muxOut (stdStep cyc h (hin d n false false false)).2 (hin d n false false false)) := by
  obtain ⟨h1, h2, h3⟩ := hr
  obtain ⟨hst, sp, tp, ea⟩ := h
  simp only at h1 h2 h3
  subst h1 h2
  by_cases hty : d.setup.type = TYPE_STANDARD
  · cases hd : d.hstate <;>
      simp_all [stdStep, hin, stdComb, simpleDataOut, regWriteZlp, handleNewSetup, stdStateBody, muxOut, hResp, HQuiet,
        NoFirst, CalmH] <;>
      constructor <;> simp_all
  · simp_all [stdStep, hin, muxOut, fallbackOut, hResp, HQuiet, NoFirst]
    constructor <;> simp_all

/-- What the cycle of `data_requested` / `status_requested` itself shows: in the three streaming states the
answer to a data request follows as a stream (GET_DESCRIPTOR arms `expecting_ack`). -/
def reqNow (c : DevConfig) (d : DevState) (r : Req) : DevState × Resp :=
  if d.setup.type = TYPE_STANDARD ∧ r = .data then
    match d.hstate with
    | .getStatus | .getConfiguration => (d, .none)
    | .getDescriptor => ({ d with expectingAck := true }, .none)
    | _ => request c d r
  else request c d r

theorem reqNow_noStream (c : DevConfig) (d : DevState) (r : Req) (h : NoStream d) : reqNow c d r = request c d r := by
  obtain ⟨h1, h2, h3⟩ := h
  unfold reqNow
  split
  · cases hd : d.hstate <;> simp_all
  · rfl

/-- The cycle in which the control endpoint asks for the data stage (`r = .data`) or the status stage. -/
theorem hs_req (c : DevConfig) (hx : c.extra = []) (cyc : Cfg) (d : DevState) (h : StdState) (n : HIn) (r : Req)
    (hr : HRel d h) (hc : CalmH d.hstate n) :
    HRel (reqNow c d r).1 (stdStep cyc h (hin d n (r == .data) (r == .status) false)).1 ∧
    hResp (muxOut (stdStep cyc h (hin d n (r == .data) (r == .status) false)).2
      (hin d n (r == .data) (r == .status) false)) = (reqNow c d r).2 ∧
    HQuiet (muxOut (stdStep cyc h (hin d n (r == .data) (r == .status) false)).2
      (hin d n (r == .data) (r == .status) false)) ∧
    NoFirst (muxOut (stdStep cyc h (hin d n (r == .data) (r == .status) false)).2
      (hin d n (r == .data) (r == .status) false)) := by
  obtain ⟨h1, h2, h3⟩ := hr
  obtain ⟨hst, sp, tp, ea⟩ := h
  simp only at h1 h2 h3
  subst h1 h2
  unfold reqNow
  rw [request_noextra c hx]
  by_cases hty : d.setup.type = TYPE_STANDARD
  · cases hd : d.hstate <;> cases r <;>
      simp_all [stdStep, hin, stdComb, simpleDataOut, regWriteZlp, handleNewSetup, stdStateBody, muxOut, hResp, HQuiet,
        NoFirst, CalmH, stdRequest, toIdle, dataPid] <;>
      (try constructor) <;> simp_all
  · cases r <;>
      simp_all [stdStep, hin, muxOut, fallbackOut, hResp, HQuiet, NoFirst] <;>
      constructor <;> simp_all

/-- The cycle in which a host ACK is forwarded to the handler (`max_packet_size = 64`, as in the event-level model's
`start_position` advance). -/
theorem hs_ack (cyc : Cfg) (hmp : cyc.maxPacket = 64) (d : DevState) (h : StdState) (n : HIn) (hr : HRel d h)
    (hc : CalmH d.hstate n) :
    HRel (ackState d) (stdStep cyc h (hin d n false false true)).1 ∧
    hResp (muxOut (stdStep cyc h (hin d n false false true)).2 (hin d n false false true)) = .none ∧
    NoFirst (muxOut (stdStep cyc h (hin d n false false true)).2 (hin d n false false true)) ∧
    (let o := muxOut (stdStep cyc h (hin d n false false true)).2 (hin d n false false true)
     (if o.addressChanged then o.newAddress else d.address) = (ackState d).address ∧
     (if o.configChanged then o.newConfig else d.config) = (ackState d).config) := by
  obtain ⟨h1, h2, h3⟩ := hr
  obtain ⟨hst, sp, tp, ea⟩ := h
  simp only at h1 h2 h3
  subst h1 h2
  unfold ackState
  by_cases hty : d.setup.type = TYPE_STANDARD
  · cases hd : d.hstate <;> cases hea : d.expectingAck <;>
      simp_all [stdStep, hin, stdComb, simpleDataOut, regWriteZlp, handleNewSetup, stdStateBody, muxOut, hResp, NoFirst,
        CalmH, stdAck, toIdle] <;>
      (try constructor) <;> simp_all
  · simp_all [stdStep, hin, muxOut, fallbackOut, hResp, NoFirst]
    constructor <;> simp_all

/-- The cycle in which the setup decoder reports a new SETUP packet `su`. -/
theorem hs_recv (cyc : Cfg) (d : DevState) (h : StdState) (n : HIn) (su : Setup) (hr : HRel d h)
    (hc : CalmH d.hstate n) :
    let hi : HIn := { n with su := su, received := true, dataRequested := false, statusRequested := false, hsAck := false }
    HRel (recvState d su) (stdStep cyc h hi).1 ∧ hResp (muxOut (stdStep cyc h hi).2 hi) = .none ∧
    HQuiet (muxOut (stdStep cyc h hi).2 hi) ∧ NoFirst (muxOut (stdStep cyc h hi).2 hi) := by
  obtain ⟨h1, h2, h3⟩ := hr
  obtain ⟨hst, sp, tp, ea⟩ := h
  simp only at h1 h2 h3
  subst h1 h2
  unfold recvState
  by_cases hty : su.type = TYPE_STANDARD
  · cases hd : d.hstate <;>
      simp_all [stdStep, stdComb, simpleDataOut, regWriteZlp, handleNewSetup, stdStateBody, muxOut, hResp, HQuiet,
        NoFirst, CalmH] <;>
      (try constructor) <;> simp_all
  · simp_all [stdStep, muxOut, fallbackOut, hResp, HQuiet, NoFirst]
    constructor <;> simp_all

/-! ### A started streamer -/

/-- The streamer (`fd`: the descriptor handler, else the transmitter) presents the beat `b`. -/
def beatH (fd : Bool) (b : Desc.Beat) (n : HIn) : HIn :=
  if fd then { n with dValid := b.valid, dFirst := b.first, dLast := b.last, dPayload := b.payload, dStall := b.stall }
  else { n with tValid := b.valid, tFirst := b.first, tLast := b.last, tPayload := b.payload }

def beatIn (fd : Bool) (b : Desc.Beat) (n : CycIn) : CycIn :=
  if fd then { n with dValid := b.valid, dFirst := b.first, dLast := b.last, dPayload := b.payload, dStall := b.stall }
  else { n with tValid := b.valid, tFirst := b.first, tLast := b.last, tPayload := b.payload }

theorem noiseH_beatIn (fd : Bool) (b : Desc.Beat) (n : CycIn) : noiseH (beatIn fd b n) = beatH fd b (noiseH n) := by
  cases fd <;> rfl

theorem beatIn_txReady (fd : Bool) (b : Desc.Beat) (n : CycIn) : (beatIn fd b n).txReady = n.txReady := by
  cases fd <;> rfl

/-- The standard handler is in a streaming state and listens to the streamer `fd`. -/
def StreamState (d : DevState) (fd : Bool) : Prop :=
  d.setup.type = TYPE_STANDARD ∧
    (if fd then d.hstate = .getDescriptor else (d.hstate = .getStatus ∨ d.hstate = .getConfiguration))

theorem calmH_quiet_beat {d : DevState} {fd : Bool} (hs : StreamState d fd) (n : HIn) :
    CalmH d.hstate (beatH fd Desc.Beat.quiet n) := by
  obtain ⟨_, h2⟩ := hs
  cases fd
  · rcases h2 with h | h <;> simp_all [CalmH, beatH, Desc.Beat.quiet]
  · simp_all [CalmH, beatH, Desc.Beat.quiet]

/-- A cycle in which the streamer presents a beat (not a stall): the handler passes it to the `tx` stream under
its data PID and keeps its registers. -/
theorem hs_beat (cyc : Cfg) (d : DevState) (h : StdState) (n : HIn) (fd : Bool) (b : Desc.Beat) (hr : HRel d h)
    (hs : StreamState d fd) (hb : b.stall = false) :
    HRel d (stdStep cyc h (hin d (beatH fd b n) false false false)).1 ∧
    (let o := muxOut (stdStep cyc h (hin d (beatH fd b n) false false false)).2 (hin d (beatH fd b n) false false false)
     o.ack = false ∧ o.stall = false ∧ o.txValid = b.valid ∧ o.txFirst = b.first ∧ o.txLast = b.last ∧
     o.txPayload = b.payload ∧ o.txDataPid = d.txPid ∧ HQuiet o) := by
  obtain ⟨h1, h2, h3⟩ := hr
  obtain ⟨hst, sp, tp, ea⟩ := h
  obtain ⟨hty, hh⟩ := hs
  simp only at h1 h2 h3
  subst h1 h2
  cases fd
  · rcases hh with hh | hh <;>
      simp_all [stdStep, hin, beatH, stdComb, simpleDataOut, handleNewSetup, stdStateBody, muxOut, HQuiet] <;>
      constructor <;> simp_all
  · simp_all [stdStep, hin, beatH, stdComb, handleNewSetup, stdStateBody, muxOut, HQuiet]
    constructor <;> simp_all

/-- The cycle in which the descriptor handler reports a missing descriptor: STALL, back to IDLE. -/
theorem hs_stall (cyc : Cfg) (d : DevState) (h : StdState) (n : HIn) (hr : HRel d h)
    (hs : StreamState d true) :
    HRel (toIdle { d with expectingAck := false })
      (stdStep cyc h (hin d (beatH true Desc.stallBeat n) false false false)).1 ∧
    (let o := muxOut (stdStep cyc h (hin d (beatH true Desc.stallBeat n) false false false)).2
        (hin d (beatH true Desc.stallBeat n) false false false)
     hResp o = .hs PID_STALL ∧ HQuiet o ∧ NoFirst o) := by
  obtain ⟨h1, h2, h3⟩ := hr
  obtain ⟨hst, sp, tp, ea⟩ := h
  obtain ⟨hty, hh⟩ := hs
  simp only at h1 h2 h3
  subst h1 h2
  simp_all [stdStep, hin, beatH, Desc.stallBeat, stdComb, handleNewSetup, stdStateBody, muxOut, HQuiet, NoFirst, hResp,
    toIdle]
  constructor <;> simp_all

/-- The distributed descriptor handler reports a missing descriptor in the very cycle it is started
(`data_requested` and `stall` together): STALL, back to IDLE, `expecting_ack` stays clear. -/
theorem hs_req_stall (cyc : Cfg) (d : DevState) (h : StdState) (n : HIn) (hr : HRel d h)
    (hs : StreamState d true) :
    HRel (toIdle { d with expectingAck := false })
      (stdStep cyc h (hin d (beatH true Desc.stallBeat n) true false false)).1 ∧
    (let o := muxOut (stdStep cyc h (hin d (beatH true Desc.stallBeat n) true false false)).2
        (hin d (beatH true Desc.stallBeat n) true false false)
     hResp o = .hs PID_STALL ∧ HQuiet o ∧ NoFirst o) := by
  obtain ⟨h1, h2, h3⟩ := hr
  obtain ⟨hst, sp, tp, ea⟩ := h
  obtain ⟨hty, hh⟩ := hs
  simp only at h1 h2 h3
  subst h1 h2
  simp_all [stdStep, hin, beatH, Desc.stallBeat, stdComb, handleNewSetup, stdStateBody, muxOut, HQuiet, NoFirst, hResp,
    toIdle]
  constructor <;> simp_all

end LunaVerif.CtrlCyc
