import LunaVerif.Lemmas.C07Legal
import LunaVerif.Props.C07
/-!
# The C07 stage theorems, transferred to the cycle-level closed loop

`Props/C07.lean` proves the stage protocol of the EVENT-level model.  With `closed2_refines_legal_run` the bus
responses of the cycle-level closed loop (control endpoint FSM + request multiplexer + standard request handler +
serializer + block descriptor handler, clock cycle by clock cycle) are the event-level responses, so those theorems
hold of what the closed loop puts on the bus.  Two of them are stated here outright:
`closed2_data_only_after_in_setup` (C07's data-stage rule) and `closed2_in_answered_only_in_data_or_status_in`.
-/
namespace LunaVerif.CtrlCyc
open LunaVerif.Device

theorem coreResps_snoc (c : DevConfig) (hs : List Stim) (x : Stim) : ∀ d,
    coreResps c d (hs ++ [x]) = coreResps c d hs ++ [(core c (Device.final c d hs) x.ev).2] := by
  induction hs with
  | nil => intro d; rfl
  | cons y ys ih => intro d; simp only [List.cons_append, coreResps, Device.final, ih]

/-- **C07 (data stage) at cycle level.**  For every legal history that ends with the event `x`: if the closed loop of
the cycle-level models answers `x` on the bus with a DATA packet that carries payload bytes, then `x` is an IN token
for endpoint 0 at the device's current address and the latched SETUP packet is a device-to-host request with
`wLength ≠ 0` -- data is sent only in the data stage of a control read. -/
theorem closed2_data_only_after_in_setup (c : DevConfig) (hx : c.extra = []) (hmp : c.maxPacket = 64)
    (hwf : Desc.wellFormed (collOf c.descriptors) = true)
    (hpw : 2 ≤ (Desc.Rom.layout (collOf c.descriptors)).maxLen) (hfit : DescsFit c)
    (h : List (Stim × GapsS)) (x : Stim) (g : GapsS)
    (hl : LegalHost c ((h ++ [(x, g)]).map (·.1)) = true) (hw : WinFrom c Device.init (h ++ [(x, g)]) = true)
    (ht : ∀ xg ∈ h ++ [(x, g)], TDSil xg.2) :
    ∃ h', SameButLat (h ++ [(x, g)]) h' ∧ ∀ pid p,
      (sys2BusResps c (Desc.blockOf (collOf c.descriptors) c.maxPacket) Device.init sys2Init h').getLast? =
          some (.data pid p) → p ≠ [] →
        x.ev = .token PID_IN (Device.final c Device.init (h.map (·.1))).address 0 ∧
        (Device.final c Device.init (h.map (·.1))).setup.isIn = true ∧
        (Device.final c Device.init (h.map (·.1))).setup.length ≠ 0 := by
  obtain ⟨h', sb, _, hb, _⟩ := closed2_refines_legal_run c hx hmp hwf hpw hfit (h ++ [(x, g)]) hl hw ht
  refine ⟨h', sb, ?_⟩
  intro pid p hlast hp
  rw [hb, List.map_append, List.map_cons, List.map_nil, coreResps_snoc, List.getLast?_append] at hlast
  simp only [List.getLast?_singleton, Option.some_or, Option.some.injEq] at hlast
  obtain ⟨a, b, e, _⟩ := data_in_only_after_in_setup c (h.map (·.1)) x.ev pid p hlast hp
  exact ⟨a, b, e⟩

/-- **C07 (IN tokens) at cycle level**: the closed loop answers an IN token only if it is for endpoint 0 at the device's
address, in the data stage of a control read or in the status stage of a transfer without IN data stage. -/
theorem closed2_in_answered_only_in_data_or_status_in (c : DevConfig) (hx : c.extra = []) (hmp : c.maxPacket = 64)
    (hwf : Desc.wellFormed (collOf c.descriptors) = true)
    (hpw : 2 ≤ (Desc.Rom.layout (collOf c.descriptors)).maxLen) (hfit : DescsFit c)
    (h : List (Stim × GapsS)) (addr ep : Nat) (f : Resp) (g : GapsS)
    (hl : LegalHost c ((h ++ [(Stim.mk (.token PID_IN addr ep) f, g)]).map (·.1)) = true)
    (hw : WinFrom c Device.init (h ++ [(Stim.mk (.token PID_IN addr ep) f, g)]) = true)
    (ht : ∀ xg ∈ h ++ [(Stim.mk (.token PID_IN addr ep) f, g)], TDSil xg.2) :
    ∃ h', SameButLat (h ++ [(Stim.mk (.token PID_IN addr ep) f, g)]) h' ∧ ∀ r,
      (sys2BusResps c (Desc.blockOf (collOf c.descriptors) c.maxPacket) Device.init sys2Init h').getLast? = some r →
      r ≠ .none →
        addr = (Device.final c Device.init (h.map (·.1))).address ∧ ep = 0 ∧
        (((Device.final c Device.init (h.map (·.1))).setup.isIn = true ∧
            (Device.final c Device.init (h.map (·.1))).setup.length ≠ 0) ∨
         ¬ ((Device.final c Device.init (h.map (·.1))).setup.isIn = true ∧
            (Device.final c Device.init (h.map (·.1))).setup.length ≠ 0)) := by
  obtain ⟨h', sb, _, hb, _⟩ := closed2_refines_legal_run c hx hmp hwf hpw hfit (h ++ [(Stim.mk (.token PID_IN addr ep) f, g)]) hl hw ht
  refine ⟨h', sb, ?_⟩
  intro r hlast hr
  rw [hb, List.map_append, List.map_cons, List.map_nil, coreResps_snoc, List.getLast?_append] at hlast
  simp only [List.getLast?_singleton, Option.some_or, Option.some.injEq] at hlast
  have := in_token_answered_only_in_data_or_status_in c (h.map (·.1)) addr ep (by rw [hlast]; exact hr)
  obtain ⟨a, b, e⟩ := this
  refine ⟨a, b, ?_⟩
  rcases e with ⟨_, e⟩ | ⟨_, e⟩
  · exact Or.inl e
  · exact Or.inr e

end LunaVerif.CtrlCyc
