import LunaVerif.Props.C06
/-!
# C06 — packet-level lemmas about the three components of the SETUP decoder composition

* the token detector over one arbitrary packet (`tok_packet`): a token is seen iff the packet is exactly
  a token PID and two bytes with a correct CRC5 (`tokenOf`, `tokSpec`);
* the deserializer over one arbitrary data packet (`capture_general`): the end-of-packet CRC comparison
  registers (`Stale`, never cleared) after the packet are `captureRegs` of its first 10 bytes;
* the decoder between strobes (`Quiet`), with the line idle (`Rest`), and in the cycle a deserializer
  strobe is seen (`strobe_tail`), with cycle-indexed traces (`ttrace`).
-/
namespace LunaVerif.SetupDecoder
open LunaVerif.Utmi LunaVerif.DataCrc LunaVerif.Crc


/-! ## Token detector, packet level -/

/-- the token a packet delivers: exactly three bytes, a token PID, CRC5 correct -/
def tokenOf : List Nat → Option (Nat × Nat)
  | [tp, b1, b2] =>
    if isTokenPid tp && ((b2 / 8) % 32 == usb2Crc5 (b1 % 256 + 256 * (b2 % 8))) then
      some (tp % 16, b1 % 256 + 256 * (b2 % 8))
    else none
  | _ => none

/-- effect of a packet on the detector's `pid` output and its `new_token` strobe -/
def tokSpec (addr pid : Nat) (bs : List Nat) : Nat × Bool :=
  match tokenOf bs with
  | some (p4, d11) =>
    if p4 = SOF_PID then (pid, false) else if d11 % 128 = addr then (p4, true) else (0, false)
  | none => (pid, false)

theorem tok_active_keeps (c : Config) (s : State) (i : RxCycle) (ha : i.active = true) :
    (step c s i).1.tok.pid = s.tok.pid ∧ (step c s i).1.tok.newToken = false := by
  cases hf : s.tok.fsm <;> simp [step, tokStep, hf, ha] <;> (repeat' split) <;> simp

theorem tok_active_run_keeps (c : Config) (h : List RxCycle) (s : State) (ha : ∀ i ∈ h, i.active = true)
    (hn : s.tok.newToken = false) :
    (final c s h).tok.pid = s.tok.pid ∧ (final c s h).tok.newToken = false := by
  induction h generalizing s with
  | nil => exact ⟨rfl, hn⟩
  | cons i is ih =>
    obtain ⟨h1, h2⟩ := tok_active_keeps c s i (ha i (by simp))
    obtain ⟨h3, h4⟩ := ih _ (fun j hj => ha j (by simp [hj])) h2
    exact ⟨by simp only [final]; rw [h3, h1], by simp only [final]; exact h4⟩

/-- leaving any state but COMPLETE on the first idle cycle: IDLE, no strobe, `pid` kept -/
theorem tok_end_plain (c : Config) (s : State) (g : Nat) (h : s.tok.fsm ≠ .complete) :
    (step c s (idleC g)).1.tok.fsm = .idle ∧ (step c s (idleC g)).1.tok.pid = s.tok.pid ∧
    (step c s (idleC g)).1.tok.newToken = false := by
  cases hf : s.tok.fsm <;> simp_all [step, tokStep, idleC]

theorem slots_active (w : List Nat) (rest : List (Nat × List Nat)) :
    ∀ i ∈ w.map waitC ++ renderSlots rest, i.active = true := by
  intro i hi
  rcases List.mem_append.1 hi with h | h
  · obtain ⟨x, _, rfl⟩ := List.mem_map.1 h; rfl
  · exact renderSlots_active rest i h

/-- once IRRELEVANT, the rest of the packet and the first idle cycle: IDLE, `pid` kept, no strobe -/
theorem tok_irrelevant_end (c : Config) (h : List RxCycle) (s : State) (g : Nat)
    (ha : ∀ i ∈ h, i.active = true) (hs : s.tok.fsm = .irrelevant) :
    (final c s (h ++ [idleC g])).tok.fsm = .idle ∧ (final c s (h ++ [idleC g])).tok.pid = s.tok.pid ∧
    (final c s (h ++ [idleC g])).tok.newToken = false := by
  have h1 := tok_irrelevant_run c h s ha hs
  have h2 : (final c s h).tok.pid = s.tok.pid := by
    clear h1
    induction h generalizing s with
    | nil => rfl
    | cons i is ih =>
      have := (tok_active_keeps c s i (ha i (by simp))).1
      simp only [final]
      rw [ih _ (fun j hj => ha j (by simp [hj])) (by simp [step, tokStep, hs, ha i (by simp)]), this]
  obtain ⟨e1, e2, e3⟩ := tok_end_plain c (final c s h) g (by rw [h1]; simp)
  rw [final_append]
  simp only [final]
  exact ⟨e1, by rw [e2, h2], e3⟩

/-- **The token detector over one packet** (from IDLE, through the packet and the first idle cycle):
back in IDLE, and `pid` / `new_token` are exactly what the packet-level `tokSpec` says — a token is
seen iff the packet is exactly a token PID and two bytes with a correct CRC5. -/
theorem tok_packet (c : Config) (s : State) (d g : Nat) (ds : List Nat) (slots : List (Nat × List Nat))
    (hs : s.tok.fsm = .idle) :
    (final c s ((d :: ds).map waitC ++ (renderSlots slots ++ [idleC g]))).tok.fsm = .idle ∧
    ((final c s ((d :: ds).map waitC ++ (renderSlots slots ++ [idleC g]))).tok.pid,
     (final c s ((d :: ds).map waitC ++ (renderSlots slots ++ [idleC g]))).tok.newToken)
      = tokSpec c.addr s.tok.pid (slots.map (·.1)) := by
  rw [final_append]
  have h0 := tok_lead c d ds s hs
  have hp0 : (final c s ((d :: ds).map waitC)).tok.pid = s.tok.pid := by
    have h1 : (step c s (waitC d)).1.tok.fsm ≠ .idle := by simp [step, tokStep, hs, waitC]
    have h2 : (step c s (waitC d)).1.tok.pid = s.tok.pid := by simp [step, tokStep, hs, waitC]
    have := (tok_waits c ds _ h1).2.2.2
    simp only [List.map_cons, final]; rw [this, h2]
  generalize final c s ((d :: ds).map waitC) = s0 at h0 hp0
  rw [← hp0]
  clear hp0 hs s
  match slots with
  | [] =>
    obtain ⟨e1, e2, e3⟩ := tok_end_plain c s0 g (by rw [h0]; simp)
    simp [renderSlots, final, e1, e2, e3, tokSpec, tokenOf]
  | (tp, w0) :: rest =>
    by_cases htp : isTokenPid tp = true
    case neg =>
      have h1 : (step c s0 (byteC tp)).1.tok.fsm = .irrelevant := by
        simp [step, tokStep, h0, byteC, htp]
      have h1p : (step c s0 (byteC tp)).1.tok.pid = s0.tok.pid := by
        simp [step, tokStep, h0, byteC, htp]
      obtain ⟨e1, e2, e3⟩ := tok_irrelevant_end c (w0.map waitC ++ renderSlots rest) _ g (slots_active w0 rest) h1
      have hspec : tokSpec c.addr s0.tok.pid (((tp, w0) :: rest).map (·.1)) = (s0.tok.pid, false) := by
        simp only [tokSpec, List.map_cons]
        match rest with
        | [] => simp [tokenOf]
        | [_] => simp [tokenOf]
        | [_, _] => simp [tokenOf, htp]
        | _ :: _ :: _ :: _ => simp [tokenOf]
      simp only [renderSlots, List.cons_append, final, List.append_assoc] at e1 e2 e3 ⊢
      rw [hspec, e1, e2, e3, h1p]; simp
    case pos =>
      have a1 : (step c s0 (byteC tp)).1.tok.fsm = .tok0 := by simp [step, tokStep, h0, byteC, htp]
      have a2 : (step c s0 (byteC tp)).1.tok.currentPid = tp % 16 := by simp [step, tokStep, h0, byteC, htp]
      have a3 : (step c s0 (byteC tp)).1.tok.pid = s0.tok.pid := by simp [step, tokStep, h0, byteC, htp]
      obtain ⟨b1f, b1p, _, b1q⟩ := tok_waits c w0 _ (by rw [a1]; simp)
      rw [a1] at b1f; rw [a2] at b1p; rw [a3] at b1q
      simp only [renderSlots, List.cons_append, final, List.append_assoc, final_append]
      generalize final c (step c s0 (byteC tp)).1 (w0.map waitC) = sa at b1f b1p b1q
      rw [← b1q]
      match rest with
      | [] =>
        obtain ⟨e1, e2, e3⟩ := tok_end_plain c sa g (by rw [b1f]; simp)
        simp [renderSlots, final, e1, e2, e3, tokSpec, tokenOf]
      | (b1, w1) :: rest2 =>
        have c1 : (step c sa (byteC b1)).1.tok.fsm = .tok1 := by simp [step, tokStep, b1f, byteC]
        have c2 : (step c sa (byteC b1)).1.tok.currentPid = tp % 16 := by simp [step, tokStep, b1f, byteC, b1p]
        have c3 : (step c sa (byteC b1)).1.tok.tokenData = b1 % 256 := by simp [step, tokStep, b1f, byteC]
        have c4 : (step c sa (byteC b1)).1.tok.pid = sa.tok.pid := by simp [step, tokStep, b1f, byteC]
        obtain ⟨d1f, d1p, d1t, d1q⟩ := tok_waits c w1 _ (by rw [c1]; simp)
        rw [c1] at d1f; rw [c2] at d1p; rw [c3] at d1t; rw [c4] at d1q
        simp only [renderSlots, List.cons_append, final, List.append_assoc, final_append]
        generalize final c (step c sa (byteC b1)).1 (w1.map waitC) = sb at d1f d1p d1t d1q
        rw [← d1q]
        match rest2 with
        | [] =>
          obtain ⟨e1, e2, e3⟩ := tok_end_plain c sb g (by rw [d1f]; simp)
          simp [renderSlots, final, e1, e2, e3, tokSpec, tokenOf]
        | (b2, w2) :: rest3 =>
          by_cases hcrc : ((b2 / 8) % 32 == usb2Crc5 (b1 % 256 + 256 * (b2 % 8))) = true
          case neg =>
            have hcrc' : ((b2 / 8) % 32 == usb2Crc5 (sb.tok.tokenData % 256 + 256 * (b2 % 8))) = false := by
              rw [d1t]; simpa using hcrc
            have e1 : (step c sb (byteC b2)).1.tok.fsm = .irrelevant := by
              simp only [step, tokStep, d1f, byteC]; simp [hcrc']
            have e1p : (step c sb (byteC b2)).1.tok.pid = sb.tok.pid := by
              simp only [step, tokStep, d1f, byteC]; simp [hcrc']
            obtain ⟨f1, f2, f3⟩ := tok_irrelevant_end c (w2.map waitC ++ renderSlots rest3) _ g (slots_active w2 rest3) e1
            have hspec : tokSpec c.addr sb.tok.pid (((tp, w0) :: (b1, w1) :: (b2, w2) :: rest3).map (·.1))
                = (sb.tok.pid, false) := by
              simp only [tokSpec, List.map_cons]
              match rest3 with
              | [] => simp [tokenOf, hcrc]
              | _ :: _ => simp [tokenOf]
            simp only [renderSlots, List.cons_append, final, List.append_assoc, final_append] at f1 f2 f3 ⊢
            rw [hspec, f1, f2, f3, e1p]; simp
          case pos =>
            have hcrc' : ((b2 / 8) % 32 == usb2Crc5 (sb.tok.tokenData % 256 + 256 * (b2 % 8))) = true := by
              rw [d1t]; simpa using hcrc
            have hcrcp : b2 / 8 % 32 = usb2Crc5 (b1 % 256 + 256 * (b2 % 8)) := by simpa using hcrc
            have e1 : (step c sb (byteC b2)).1.tok.fsm = .complete := by
              simp only [step, tokStep, d1f, byteC]; simp [d1t, hcrcp]
            have e2 : (step c sb (byteC b2)).1.tok.currentPid = tp % 16 := by
              simp only [step, tokStep, d1f, byteC]; simp [d1t, hcrcp, d1p]
            have e3 : (step c sb (byteC b2)).1.tok.tokenData = b1 % 256 + 256 * (b2 % 8) := by
              simp only [step, tokStep, d1f, byteC]; simp [d1t, hcrcp]
            have e4 : (step c sb (byteC b2)).1.tok.pid = sb.tok.pid := by
              simp only [step, tokStep, d1f, byteC]; simp [d1t, hcrcp]
            obtain ⟨f1f, f1p, f1t, f1q⟩ := tok_waits c w2 _ (by rw [e1]; simp)
            rw [e1] at f1f; rw [e2] at f1p; rw [e3] at f1t; rw [e4] at f1q
            simp only [renderSlots, List.cons_append, final, List.append_assoc, final_append]
            generalize final c (step c sb (byteC b2)).1 (w2.map waitC) = sc at f1f f1p f1t f1q
            rw [← f1q]
            match rest3 with
            | [] =>
              simp only [renderSlots, List.nil_append, final, List.map_cons, List.map_nil, tokSpec, tokenOf,
                htp, hcrc, Bool.and_self, if_true]
              by_cases hsof : tp % 16 = SOF_PID
              · have : (sc.tok.currentPid == SOF_PID) = true := by rw [f1p]; simpa using hsof
                simp only [step, tokStep, f1f, idleC]; simp [this, hsof]
              · have hns : (sc.tok.currentPid == SOF_PID) = false := by rw [f1p]; simpa using hsof
                by_cases hadr : (b1 % 256 + 256 * (b2 % 8)) % 128 = c.addr
                · have : (sc.tok.tokenData % 128 == c.addr) = true := by rw [f1t]; simpa using hadr
                  simp only [step, tokStep, f1f, idleC]; simp [this, hns, hsof, hadr, f1p]
                · have : (sc.tok.tokenData % 128 == c.addr) = false := by rw [f1t]; simpa using hadr
                  simp only [step, tokStep, f1f, idleC]; simp [this, hns, hsof, hadr]
            | (b3, w3) :: rest4 =>
              have g1 : (step c sc (byteC b3)).1.tok.fsm = .irrelevant := by
                simp [step, tokStep, f1f, byteC]
              have g1p : (step c sc (byteC b3)).1.tok.pid = sc.tok.pid := by
                simp [step, tokStep, f1f, byteC]
              obtain ⟨k1, k2, k3⟩ := tok_irrelevant_end c (w3.map waitC ++ renderSlots rest4) _ g (slots_active w3 rest4) g1
              have hspec : tokSpec c.addr sc.tok.pid
                  (((tp, w0) :: (b1, w1) :: (b2, w2) :: (b3, w3) :: rest4).map (·.1)) = (sc.tok.pid, false) := by
                simp [tokSpec, tokenOf]
              simp only [renderSlots, List.cons_append, final, List.append_assoc, final_append] at k1 k2 k3 ⊢
              rw [hspec, k1, k2, k3, g1p]; simp



/-! ## Deserializer, packet level -/

/-- The three registers of the deserializer's end-of-packet CRC comparison.  They are NOT cleared at
the start of a packet, so for data packets with fewer than two bytes after the PID the comparison
is made on (partly) stale values. -/
structure Stale where
  lw  : Nat    -- last_word
  lwc : Nat    -- last_word_crc
  lbc : Nat    -- last_byte_crc
deriving Repr, DecidableEq

def staleOf (s : State) : Stale := ⟨s.ds.lastWord, s.ds.lastWordCrc, s.ds.lastByteCrc⟩

/-- capturing byte `b` after the bytes `pre` of the same packet -/
def capStep (st : Stale) (pre : List Nat) (b : Nat) : Stale :=
  ⟨(st.lw / 256) % 256 + 256 * b, st.lbc, usb2Crc16 pre⟩

/-- the registers after capturing the bytes `bs`, `pre` being the bytes captured before them -/
def captureRegs : Stale → List Nat → List Nat → Stale
  | st, _, [] => st
  | st, pre, b :: bs => captureRegs (capStep st pre b) (pre ++ [b]) bs

theorem captureRegs_snoc (st : Stale) (pre bs : List Nat) (b : Nat) :
    captureRegs st pre (bs ++ [b]) = capStep (captureRegs st pre bs) (pre ++ bs) b := by
  induction bs generalizing st pre with
  | nil => simp [captureRegs]
  | cons x xs ih => simp [captureRegs, ih]

/-- with at least two bytes captured nothing stale is left: last word = the last two bytes, the CRC
snapshots are those of the bytes before them -/
theorem captureRegs_fresh (st : Stale) (m : List Nat) (lo hi : Nat) (hlo : lo < 256) :
    captureRegs st [] (m ++ [lo, hi]) = ⟨lo + 256 * hi, usb2Crc16 m, usb2Crc16 (m ++ [lo])⟩ := by
  have e : m ++ [lo, hi] = (m ++ [lo]) ++ [hi] := by simp
  rw [e, captureRegs_snoc, captureRegs_snoc]
  simp only [capStep, List.nil_append, Stale.mk.injEq, and_true]
  omega

/-- CAPTURE_DATA after the bytes `pre` of the current packet -/
structure CapG (s : State) (pre : List Nat) : Prop where
  hfsm : s.ds.fsm = .capture
  hpos : s.ds.position = pre.length
  hbuf : s.ds.activePacket.take pre.length = pre
  hcrc : s.crc = usb2Crc16Reg pre
  hlen : s.ds.activePacket.length = 10

theorem capG_pid (c : Config) (s : State) (pid : Nat) (hs : s.ds.fsm = .readPid) (hp : isDataPid pid = true)
    (hl : s.ds.activePacket.length = 10) :
    CapG (step c s (byteC pid)).1 [] ∧ staleOf (step c s (byteC pid)).1 = staleOf s := by
  refine ⟨⟨?_, ?_, ?_, ?_, apLen_step c s _ hl⟩, ?_⟩ <;>
    simp [step, deserStep, hs, byteC, hp, DataCrc.next, reg_nil, staleOf]

theorem capG_wait (c : Config) (s : State) (pre : List Nat) (d : Nat) (h : CapG s pre) :
    CapG (step c s (waitC d)).1 pre ∧ staleOf (step c s (waitC d)).1 = staleOf s := by
  refine ⟨⟨?_, ?_, ?_, ?_, apLen_step c s _ h.hlen⟩, ?_⟩ <;>
    simp [step, deserStep, h.hfsm, waitC, h.hpos, h.hbuf, DataCrc.next, h.hcrc, staleOf]

theorem capG_waits (c : Config) (pre : List Nat) (ws : List Nat) (s : State) (h : CapG s pre) :
    CapG (final c s (ws.map waitC)) pre ∧ staleOf (final c s (ws.map waitC)) = staleOf s := by
  induction ws generalizing s with
  | nil => exact ⟨h, rfl⟩
  | cons d ds ih =>
    obtain ⟨h1, h2⟩ := capG_wait c s pre d h
    obtain ⟨h3, h4⟩ := ih _ h1
    exact ⟨h3, by simp only [List.map_cons, final]; rw [h4, h2]⟩

theorem capG_byte (c : Config) (s : State) (pre : List Nat) (b : Nat) (hb : b < 256) (hroom : pre.length < 10)
    (h : CapG s pre) :
    CapG (step c s (byteC b)).1 (pre ++ [b]) ∧
      staleOf (step c s (byteC b)).1 = capStep (staleOf s) pre b := by
  have hm : b % 256 = b := Nat.mod_eq_of_lt hb
  have hge : ¬ (10 ≤ pre.length) := by omega
  refine ⟨⟨?_, ?_, ?_, ?_, apLen_step c s _ h.hlen⟩, ?_⟩ <;>
    simp [step, deserStep, h.hfsm, byteC, h.hpos, hge, DataCrc.next, h.hcrc, output_reg, hm, staleOf, capStep]
  · omega
  · have := take_set_succ s.ds.activePacket pre.length b (by rw [h.hlen]; omega)
    rw [this, h.hbuf]
  · rw [← reg_snoc]

theorem capG_over (c : Config) (s : State) (pre : List Nat) (b : Nat) (hfull : pre.length = 10) (h : CapG s pre) :
    (step c s (byteC b)).1.ds.fsm = .irrelevant ∧ staleOf (step c s (byteC b)).1 = staleOf s := by
  constructor <;> simp [step, deserStep, h.hfsm, byteC, h.hpos, hfull, staleOf]

theorem ds_irrelevant_stale (c : Config) (h : List RxCycle) (s : State) (ha : ∀ i ∈ h, i.active = true)
    (hs : s.ds.fsm = .irrelevant) : staleOf (final c s h) = staleOf s := by
  induction h generalizing s with
  | nil => rfl
  | cons i is ih =>
    have h1 : (step c s i).1.ds.fsm = .irrelevant := by simp [step, deserStep, hs, ha i (by simp)]
    have h2 : staleOf (step c s i).1 = staleOf s := by simp [step, deserStep, hs, staleOf]
    simp only [final]
    rw [ih _ (fun j hj => ha j (by simp [hj])) h1, h2]

theorem renderSlots_append (a b : List (Nat × List Nat)) :
    renderSlots (a ++ b) = renderSlots a ++ renderSlots b := by
  induction a with
  | nil => rfl
  | cons x xs ih => obtain ⟨y, ws⟩ := x; simp [renderSlots, ih]

/-- bytes that fit into the 10-byte buffer -/
theorem capG_slots (c : Config) (sl : List (Nat × List Nat)) (s : State) (pre : List Nat) (h : CapG s pre)
    (hroom : pre.length + sl.length ≤ 10) (hb : ∀ x ∈ sl, x.1 < 256) :
    CapG (final c s (renderSlots sl)) (pre ++ sl.map (·.1)) ∧
      staleOf (final c s (renderSlots sl)) = captureRegs (staleOf s) pre (sl.map (·.1)) := by
  induction sl generalizing s pre with
  | nil => simpa [renderSlots, final, captureRegs] using h
  | cons x rest ih =>
    obtain ⟨b, ws⟩ := x
    obtain ⟨h1, e1⟩ := capG_byte c s pre b (hb (b, ws) (by simp)) (by simp at hroom; omega) h
    obtain ⟨h2, e2⟩ := capG_waits c (pre ++ [b]) ws _ h1
    obtain ⟨h3, e3⟩ := ih _ (pre ++ [b]) h2 (by simp at hroom ⊢; omega) (fun y hy => hb y (by simp [hy]))
    simp only [renderSlots, final, final_append, List.map_cons, captureRegs]
    rw [e3, e2, e1]
    exact ⟨by simpa using h3, rfl⟩

/-- the deserializer's state at the end of the `rx_active` phase of a data packet -/
theorem capture_general (c : Config) (dpid : Nat) (v0 : List Nat) (sl : List (Nat × List Nat)) (s : State)
    (hs : s.ds.fsm = .readPid) (hl : s.ds.activePacket.length = 10) (hp : isDataPid dpid = true)
    (hb : ∀ x ∈ sl, x.1 < 256) :
    staleOf (final c s (renderSlots ((dpid, v0) :: sl))) = captureRegs (staleOf s) [] ((sl.map (·.1)).take 10) ∧
    (sl.length ≤ 10 → CapG (final c s (renderSlots ((dpid, v0) :: sl))) (sl.map (·.1))) ∧
    (10 < sl.length → (final c s (renderSlots ((dpid, v0) :: sl))).ds.fsm = .irrelevant) := by
  obtain ⟨a1, a2⟩ := capG_pid c s dpid hs hp hl
  obtain ⟨b1, b2⟩ := capG_waits c [] v0 _ a1
  simp only [renderSlots, final, final_append]
  rw [← a2, ← b2]
  generalize final c (step c s (byteC dpid)).1 (v0.map waitC) = s1 at b1
  by_cases hfit : sl.length ≤ 10
  · obtain ⟨c1, c2⟩ := capG_slots c sl s1 [] b1 (by simpa using hfit) hb
    have ht : (sl.map (·.1)).take 10 = sl.map (·.1) := List.take_of_length_le (by simpa using hfit)
    rw [ht]
    exact ⟨c2, fun _ => by simpa using c1, fun h => by omega⟩
  · have hsplit : sl = sl.take 10 ++ sl.drop 10 := (List.take_append_drop 10 sl).symm
    have hlt : (sl.take 10).length = 10 := by simp; omega
    obtain ⟨c1, c2⟩ := capG_slots c (sl.take 10) s1 [] b1 (by simp; omega) (fun x hx => hb x (List.mem_of_mem_take hx))
    match hd : sl.drop 10 with
    | [] =>
      have := congrArg List.length hd
      simp at this; omega
    | (b, w) :: rest =>
      rw [hd] at hsplit
      have hr : renderSlots sl = renderSlots (sl.take 10) ++ (byteC b :: (w.map waitC ++ renderSlots rest)) := by
        conv => lhs; rw [hsplit]
        rw [renderSlots_append]; rfl
      rw [hr, final_append]
      simp only [final]
      have c1' : CapG (final c s1 (renderSlots (sl.take 10))) ((sl.take 10).map (·.1)) := by simpa using c1
      obtain ⟨d1, d2⟩ := capG_over c _ _ b (by simp; omega) c1'
      have d3 := ds_irrelevant_run c (w.map waitC ++ renderSlots rest) _ (slots_active' w rest) d1
      have d4 := ds_irrelevant_stale c (w.map waitC ++ renderSlots rest) _ (slots_active' w rest) d1
      refine ⟨?_, fun h => by omega, fun _ => d3⟩
      rw [d4, d2, c2, List.map_take]
where
  slots_active' (w : List Nat) (rest : List (Nat × List Nat)) :
      ∀ i ∈ w.map waitC ++ renderSlots rest, i.active = true := by
    intro i hi
    rcases List.mem_append.1 hi with h | h
    · obtain ⟨x, _, rfl⟩ := List.mem_map.1 h; rfl
    · exact renderSlots_active rest i h



/-! ## Timed traces -/

/-- `trace` with the index of the causing cycle (counted from `t`) attached to every event -/
def ttrace (c : Config) : State → List RxCycle → Nat → List (Nat × Event)
  | _, [], _ => []
  | s, i :: is, t => (stepEvents c s i).map (fun e => (t, e)) ++ ttrace c (step c s i).1 is (t + 1)

theorem ttrace_append (c : Config) (s : State) (h1 h2 : List RxCycle) (t : Nat) :
    ttrace c s (h1 ++ h2) t = ttrace c s h1 t ++ ttrace c (final c s h1) h2 (t + h1.length) := by
  induction h1 generalizing s t with
  | nil => rfl
  | cons i is ih => simp [ttrace, final, ih, Nat.add_assoc, Nat.add_comm 1]

theorem ttrace_snd (c : Config) (s : State) (h : List RxCycle) (t : Nat) :
    (ttrace c s h t).map (·.2) = trace c s h := by
  induction h generalizing s t with
  | nil => rfl
  | cons i is ih => simp [ttrace, trace, ih, Function.comp_def]

theorem ttrace_nil (c : Config) (s : State) (h : List RxCycle) (t : Nat) (h0 : trace c s h = []) :
    ttrace c s h t = [] := by
  have := ttrace_snd c s h t
  rw [h0] at this
  simpa using this

/-! ## The decoder between strobes -/

/-- `Boundary`-level notion of "a SETUP token of ours is the last token event and no deserializer
strobe came since": the detector's PID is SETUP and the decoder is in READ_DATA or about to enter it -/
def armedB (s : State) : Bool :=
  s.tok.pid == SETUP_PID && (s.dec.fsm == .readData || s.tok.newToken)

/-- no strobe of either kind pending, decoder not waiting for the timer -/
structure Quiet (s : State) : Prop where
  noTok : s.tok.newToken = false
  noPkt : s.ds.newPacket = false
  dec   : s.dec.fsm ≠ .delay

theorem Quiet.calm {s : State} (h : Quiet s) : Calm s := ⟨h.noPkt, h.dec⟩

theorem quiet_step (c : Config) (s : State) (i : RxCycle) (h : Quiet s) :
    (step c s i).1.dec.fsm = s.dec.fsm ∧ stepEvents c s i = [] ∧
    c.counterMax + 1 ≤ (step c s i).1.counter ∨ (step c s i).1.dec.fsm = s.dec.fsm ∧ stepEvents c s i = [] ∧
      (step c s i).1.counter = s.counter + 1 := by
  have e := calm_no_events c s i h.calm
  have hd : (step c s i).1.dec.fsm = s.dec.fsm := by
    have := h.dec
    cases hf : s.dec.fsm <;> simp_all [step, decStep, h.noTok, h.noPkt]
  by_cases hlt : s.counter < c.counterMax + 1
  · right; exact ⟨hd, e, by simp [step, counterNext, h.noPkt, hlt]⟩
  · left; refine ⟨hd, e, ?_⟩
    simp [step, counterNext, h.noPkt, hlt]; omega

theorem quiet_step' (c : Config) (s : State) (i : RxCycle) (h : Quiet s) :
    (step c s i).1.dec.fsm = s.dec.fsm ∧ stepEvents c s i = [] ∧
    min (s.counter + 1) (c.counterMax + 1) ≤ (step c s i).1.counter := by
  rcases quiet_step c s i h with ⟨a, b, d⟩ | ⟨a, b, d⟩
  · exact ⟨a, b, by omega⟩
  · exact ⟨a, b, by omega⟩

theorem quiet_active (c : Config) (s : State) (i : RxCycle) (ha : i.active = true) (h : Quiet s) :
    Quiet (step c s i).1 :=
  ⟨(tok_active_keeps c s i ha).2, (calm_active c s i ha h.calm).1, (calm_active c s i ha h.calm).2⟩

theorem quiet_active_run (c : Config) (h : List RxCycle) (s : State) (ha : ∀ i ∈ h, i.active = true)
    (hs : Quiet s) :
    trace c s h = [] ∧ Quiet (final c s h) ∧ (final c s h).dec.fsm = s.dec.fsm ∧
    (final c s h).tok.pid = s.tok.pid ∧
    min (s.counter + h.length) (c.counterMax + 1) ≤ (final c s h).counter := by
  induction h generalizing s with
  | nil => exact ⟨rfl, hs, rfl, rfl, by simp [final]; omega⟩
  | cons i is ih =>
    obtain ⟨a1, a2, a3⟩ := quiet_step' c s i hs
    have a4 := (tok_active_keeps c s i (ha i (by simp))).1
    obtain ⟨b1, b2, b3, b4, b5⟩ := ih _ (fun j hj => ha j (by simp [hj])) (quiet_active c s i (ha i (by simp)) hs)
    refine ⟨by simp [trace, a2, b1], b2, by simp only [final]; rw [b3, a1], by simp only [final]; rw [b4, a4], ?_⟩
    simp only [final, List.length_cons]
    omega

theorem stale_ds_idle (c : Config) (s : State) (i : RxCycle) (h : s.ds.fsm = .idle) :
    staleOf (step c s i).1 = staleOf s := by
  simp [step, deserStep, h, staleOf]

theorem stale_ds_readPid (c : Config) (s : State) (i : RxCycle) (h : s.ds.fsm = .readPid) :
    staleOf (step c s i).1 = staleOf s := by
  simp only [step, deserStep, h, staleOf]; (repeat' split) <;> rfl

theorem stale_ds_irrelevant (c : Config) (s : State) (i : RxCycle) (h : s.ds.fsm = .irrelevant) :
    staleOf (step c s i).1 = staleOf s := by
  simp [step, deserStep, h, staleOf]

/-- the first cycle of a packet's lead-in, from a packet boundary: a latched token strobe is
consumed, the decoder is then in READ_DATA with PID SETUP exactly if the boundary was armed -/
theorem lead_first (c : Config) (s : State) (d : Nat) (hs : Boundary s) :
    Quiet (step c s (waitC d)).1 ∧
    ((step c s (waitC d)).1.tok.pid == SETUP_PID && (step c s (waitC d)).1.dec.fsm == .readData) = armedB s ∧
    (step c s (waitC d)).1.tok.pid = s.tok.pid ∧ stepEvents c s (waitC d) = [] ∧
    staleOf (step c s (waitC d)).1 = staleOf s ∧
    min (s.counter + 1) (c.counterMax + 1) ≤ (step c s (waitC d)).1.counter := by
  have hp : (step c s (waitC d)).1.tok.pid = s.tok.pid := by simp [step, tokStep, hs.tok]
  have hcnt : min (s.counter + 1) (c.counterMax + 1) ≤ (step c s (waitC d)).1.counter := by
    have : (step c s (waitC d)).1.counter = if s.counter < c.counterMax + 1 then s.counter + 1 else s.counter := by
      simp [step, counterNext, hs.noPkt]
    rw [this]; split <;> omega
  refine ⟨⟨by simp [step, tokStep, hs.tok], by simp [step, deserStep, hs.ds], ?_⟩, ?_, hp,
    calm_no_events c s _ ⟨hs.noPkt, hs.dec⟩, stale_ds_idle c s _ hs.ds, hcnt⟩
  · have := hs.dec
    cases hf : s.dec.fsm <;> simp_all [step, decStep, hs.noPkt]
    · split <;> simp
    · split <;> simp
  · rw [hp]
    have := hs.dec
    cases hf : s.dec.fsm <;> cases hn : s.tok.newToken <;> cases hq : (s.tok.pid == SETUP_PID) <;>
      simp_all [step, decStep, hs.noPkt, armedB]

/-! ## With the line idle -/

/-- line idle, detector and deserializer idle, nothing pending -/
structure Rest (s : State) : Prop where
  tok   : s.tok.fsm = .idle
  ds    : s.ds.fsm = .idle
  noPkt : s.ds.newPacket = false
  noTok : s.tok.newToken = false
  apLen : s.ds.activePacket.length = 10

theorem rest_step (c : Config) (s : State) (g : Nat) (h : Rest s) :
    Rest (step c s (idleC g)).1 ∧ staleOf (step c s (idleC g)).1 = staleOf s ∧
    (step c s (idleC g)).1.tok.pid = s.tok.pid := by
  refine ⟨⟨?_, ?_, ?_, ?_, apLen_step c s _ h.apLen⟩, stale_ds_idle c s _ h.ds, ?_⟩
  · simp [step, tokStep, h.tok, idleC]
  · simp [step, deserStep, h.ds, idleC]
  · simp [step, deserStep, h.ds, idleC]
  · simp [step, tokStep, h.tok, idleC]
  · simp [step, tokStep, h.tok, idleC]

/-- decoder idle and nothing pending: idle cycles change nothing and cause nothing -/
theorem rest_idles (c : Config) (gs : List Nat) (s : State) (h : Rest s) (hd : s.dec.fsm = .idle) (t : Nat) :
    ttrace c s (gs.map idleC) t = [] ∧ Rest (final c s (gs.map idleC)) ∧
    (final c s (gs.map idleC)).dec.fsm = .idle ∧ staleOf (final c s (gs.map idleC)) = staleOf s := by
  induction gs generalizing s t with
  | nil => exact ⟨rfl, h, hd, rfl⟩
  | cons g gs ih =>
    obtain ⟨r1, r2, _⟩ := rest_step c s g h
    have q : Quiet s := ⟨h.noTok, h.noPkt, by rw [hd]; simp⟩
    obtain ⟨q1, q2, _⟩ := quiet_step' c s (idleC g) q
    obtain ⟨i1, i2, i3, i4⟩ := ih _ r1 (by rw [q1, hd]) (t + 1)
    simp only [List.map_cons, ttrace, final, q2, List.map_nil, List.nil_append]
    exact ⟨i1, i2, i3, by rw [i4, r2]⟩

theorem rest_boundary {s : State} (h : Rest s) (hd : s.dec.fsm = .idle) : Boundary s :=
  ⟨h.tok, h.ds, h.noPkt, by rw [hd]; simp, h.apLen⟩

theorem rest_unarmed {s : State} (h : Rest s) (hd : s.dec.fsm = .idle) : armedB s = false := by
  simp [armedB, hd, h.noTok]

/-- the timer brings a decoder waiting in INTERPACKET_DELAY to its ACK, `delay - counter` cycles on -/
theorem delay_timed (c : Config) (hc : c.delay ≤ c.counterMax + 1) (gs : List Nat) (s : State) (h : Rest s)
    (hdec : s.dec.fsm = .delay) (hk : s.counter ≤ c.delay) (hg : c.delay - s.counter + 1 ≤ gs.length) (t : Nat) :
    ttrace c s (gs.map idleC) t = [(t + (c.delay - s.counter), .ack)] ∧ Rest (final c s (gs.map idleC)) ∧
    (final c s (gs.map idleC)).dec.fsm = .idle ∧ staleOf (final c s (gs.map idleC)) = staleOf s := by
  induction gs generalizing s t with
  | nil => simp at hg
  | cons g gs ih =>
    obtain ⟨r1, r2, _⟩ := rest_step c s g h
    by_cases he : s.counter = c.delay
    · have h5 : (step c s (idleC g)).1.dec.fsm = .idle := by simp [step, decStep, hdec, he]
      have h6 : stepEvents c s (idleC g) = [.ack] := by simp [stepEvents, step, decStep, hdec, he, latched]
      obtain ⟨i1, i2, i3, i4⟩ := rest_idles c gs _ r1 h5 (t + 1)
      simp only [List.map_cons, ttrace, final, h6, i1]
      exact ⟨by simp [he], i2, i3, by rw [i4, r2]⟩
    · have h5 : (step c s (idleC g)).1.dec.fsm = .delay := by simp [step, decStep, hdec, he]
      have h6 : stepEvents c s (idleC g) = [] := by simp [stepEvents, step, decStep, hdec, he, latched]
      have hlt : s.counter < c.counterMax + 1 := by omega
      have h7 : (step c s (idleC g)).1.counter = s.counter + 1 := by simp [step, counterNext, h.noPkt, hlt]
      obtain ⟨i1, i2, i3, i4⟩ := ih _ r1 h5 (by rw [h7]; omega) (by rw [h7]; simp at hg; omega) (t + 1)
      simp only [List.map_cons, ttrace, final, h6, i1, h7]
      refine ⟨?_, i2, i3, by rw [i4, r2]⟩
      simp; omega

/-- the report a decoder makes of the deserializer's `packet` registers -/
def report (p : List Nat) : Event :=
  .received (pk p 0) (pk p 1) (pk p 2 + 256 * pk p 3) (pk p 4 + 256 * pk p 5) (pk p 6 + 256 * pk p 7)

/-- **The cycle in which a deserializer strobe is seen, and the idle gap after it.**  The decoder
reports (and ACKs: in this very cycle at high speed or when the timer reads `delay`, otherwise
exactly `delay + 1` cycles later) iff it is in READ_DATA, the length is 8 and the PID is SETUP; in
every case it ends up in IDLE at a packet boundary, not armed.  Only when it reports must the line
stay idle long enough for the ACK (`hlong`). -/
theorem strobe_tail (c : Config) (hc : c.delay ≤ c.counterMax + 1) (s : State) (g2 : Nat) (gs : List Nat)
    (ht : s.tok.fsm = .idle) (hd : s.ds.fsm = .idle) (hn : s.ds.newPacket = true) (hnt : s.tok.newToken = false)
    (hdec : s.dec.fsm ≠ .delay) (hl : s.ds.activePacket.length = 10)
    (hlong : (s.dec.fsm == .readData && (s.ds.length == 8 && s.tok.pid == SETUP_PID)) = true → c.delay + 1 ≤ gs.length)
    (t : Nat) :
    Boundary (final c s (idleC g2 :: gs.map idleC)) ∧ armedB (final c s (idleC g2 :: gs.map idleC)) = false ∧
    staleOf (final c s (idleC g2 :: gs.map idleC)) = staleOf s ∧
    ttrace c s (idleC g2 :: gs.map idleC) t =
      if s.dec.fsm == .readData && (s.ds.length == 8 && s.tok.pid == SETUP_PID) then
        (if s.counter == c.delay || c.hs then [(t, .ack), (t, report s.ds.packet)]
         else [(t, report s.ds.packet), (t + c.delay + 1, .ack)])
      else [] := by
  have r : Rest (step c s (idleC g2)).1 :=
    ⟨by simp [step, tokStep, ht, idleC], by simp [step, deserStep, hd, idleC], by simp [step, deserStep, hd, idleC],
     by simp [step, tokStep, ht, idleC], apLen_step c s _ hl⟩
  have rs := stale_ds_idle c s (idleC g2) hd
  have r5 : (step c s (idleC g2)).1.counter = 0 := by simp [step, counterNext, hn]
  cases hcond : (s.dec.fsm == .readData && (s.ds.length == 8 && s.tok.pid == SETUP_PID)) with
  | false =>
    have q2 : (step c s (idleC g2)).1.dec.fsm = .idle := by
      cases hf : s.dec.fsm with
      | delay => exact absurd hf hdec
      | idle => simp [step, decStep, hf, hnt]
      | readData =>
        have : (s.ds.length == 8 && s.tok.pid == SETUP_PID) = false := by simpa [hf] using hcond
        simp [step, decStep, hf, hnt, hn, this]
    have q1 : stepEvents c s (idleC g2) = [] := by
      cases hf : s.dec.fsm with
      | delay => exact absurd hf hdec
      | idle => simp [stepEvents, step, decStep, hf, hnt, latched]
      | readData =>
        have : (s.ds.length == 8 && s.tok.pid == SETUP_PID) = false := by simpa [hf] using hcond
        simp [stepEvents, step, decStep, hf, hnt, hn, this, latched]
    obtain ⟨i1, i2, i3, i4⟩ := rest_idles c gs _ r q2 (t + 1)
    simp only [ttrace, final, q1, i1]
    exact ⟨rest_boundary i2 i3, rest_unarmed i2 i3, by rw [i4, rs], by simp⟩
  | true =>
    have hlong := hlong hcond
    simp only [Bool.and_eq_true, beq_iff_eq] at hcond
    obtain ⟨k1, n2, k3⟩ := hcond
    have r6 : latched (step c s (idleC g2)).1 = [report s.ds.packet] := by
      cases hi : (s.counter == c.delay || c.hs) <;>
        simp [latched, step, decStep, k1, hnt, hn, n2, k3, hi, report]
    cases hi : (s.counter == c.delay || c.hs) with
    | true =>
      have q1 : (step c s (idleC g2)).2.ack = true := by simp [step, decStep, k1, hnt, hn, n2, k3, hi]
      have q2 : (step c s (idleC g2)).1.dec.fsm = .idle := by simp [step, decStep, k1, hnt, hn, n2, k3, hi]
      obtain ⟨i1, i2, i3, i4⟩ := rest_idles c gs _ r q2 (t + 1)
      simp only [ttrace, final, i1]
      exact ⟨rest_boundary i2 i3, rest_unarmed i2 i3, by rw [i4, rs], by simp [stepEvents, q1, r6]⟩
    | false =>
      have q1 : (step c s (idleC g2)).2.ack = false := by simp [step, decStep, k1, hnt, hn, n2, k3, hi]
      have q2 : (step c s (idleC g2)).1.dec.fsm = .delay := by simp [step, decStep, k1, hnt, hn, n2, k3, hi]
      obtain ⟨i1, i2, i3, i4⟩ := delay_timed c hc gs _ r q2 (by rw [r5]; omega) (by rw [r5]; omega) (t + 1)
      simp only [ttrace, final, i1, r5]
      refine ⟨rest_boundary i2 i3, rest_unarmed i2 i3, by rw [i4, rs], ?_⟩
      simp [stepEvents, q1, r6]; omega


end LunaVerif.SetupDecoder
