import LunaVerif.Lemmas.C20CtrlContract
/-!
# C20 — `ctrl_keeps_contract`: non-vacuity and necessity of its assumptions (kernel-evaluated runs of `sys2Step`)
-/
namespace LunaVerif.CtrlCyc
open LunaVerif.Device LunaVerif.StreamGen LunaVerif.C20Ctr
open LunaVerif.Desc

/-! ### Non-vacuity -/

/-- One device descriptor (18 bytes) and one 4-byte string descriptor. -/
def exColl : Collection := [⟨1, 0, [18, 1, 0, 2, 0, 0, 0, 64, 0x50, 0x1d, 0x5c, 0x61, 0, 0, 1, 2, 3, 1]⟩, ⟨3, 0, [4, 3, 9, 4]⟩]
def exBc : Block.Config := ⟨Rom.layout exColl, 64⟩

def suGD : Setup := { isIn := true, type := 0, recipient := 0, request := 6, value := 0x0100, index := 0, length := 18 }
def suGS : Setup := { isIn := true, type := 0, recipient := 0, request := 0, value := 0, index := 0, length := 2 }

/-- SETUP stage of a request (`received`, then the decoder's ACK at the receiver's pulse), then the IN token of the data
stage (`new_token`, later the tokenizer's pulse), then `n` cycles in which the generator takes a byte every other
cycle. -/
def exXfer (su : Setup) (n : Nat) : List (CycIn × Bool) :=
  let q : CycIn := { su := su, isSetup := true }
  let d : CycIn := { su := su, isIn := true }
  [({ q with received := true }, false), (q, false), ({ q with sdAck := true, rxReady := true }, true), (q, false),
   ({ d with newToken := true }, false), (d, false), ({ d with readyForResponse := true }, true)] ++
  (List.range n).map (fun k => ({ d with txReady := k % 2 == 1 }, false))

def exHist : List (CycIn × Bool) := exXfer suGD 50 ++ exXfer suGS 12

def outsOf (c : Cfg) (bc : Block.Config) : Sys2State → List (CycIn × Bool) → List CycOut
  | _, [] => []
  | S, (i, _) :: xs => (sys2Step c bc S i).2 :: outsOf c bc (sys2Step c bc S i).1 xs

def phsOf (c : Cfg) (bc : Block.Config) (L : Nat) : Sys2State → CG → List (CycIn × Bool) → List Ph
  | _, _, [] => []
  | S, g, (i, pul) :: xs => g.ph :: phsOf c bc L (sys2Step c bc S i).1 (cgNext L g i pul (sys2Step c bc S i).2) xs

/-- The hypothesis of `ctrl_keeps_contract_run` holds along a GET_DESCRIPTOR and a GET_STATUS transfer ... -/
example : ctlEnvHolds {} exBc 8 sys2Init cg0 exHist = true := by decide +kernel

/-- ... in which the control endpoint really answers: ACK of the SETUP stages, the 18 descriptor bytes (first byte 4
cycles after the pulse, each byte held until taken, `last` on the 18th), the two GET_STATUS bytes; the slot's phase runs
idle / armed 0..3 / sending / idle. -/
example : ((outsOf {} exBc sys2Init exHist).filter (·.ack)).length = 2 ∧
    ((outsOf {} exBc sys2Init (exXfer suGD 50)).filter (·.txValid)).map (·.txPayload) =
      [18, 1, 1, 0, 0, 2, 2, 0, 0, 0, 0, 0, 0, 64, 64, 0x50, 0x50, 0x1d, 0x1d, 0x5c, 0x5c, 0x61, 0x61, 0, 0, 0, 0, 1, 1,
       2, 2, 3, 3, 1, 1] ∧
    (phsOf {} exBc 8 sys2Init cg0 exHist).take 13 =
      [.idle, .idle, .idle, .idle, .idle, .idle, .idle, .armed 0, .armed 1, .armed 2, .armed 3, .sending, .sending] ∧
    ctlKeeps {} exBc 8 sys2Init cg0 exHist = true := by decide +kernel

/-- The busy-phase assumption is necessary: a new SETUP packet (`received`) while the descriptor is being streamed
switches the handler, `tx.valid` is cut in mid-packet, and the contract is broken. -/
def exCut : List (CycIn × Bool) :=
  exXfer suGD 10 ++ [({ su := suGS, isSetup := true, received := true }, false), ({ su := suGS, isSetup := true }, false)]

example : ctlEnvHolds {} exBc 8 sys2Init cg0 exCut = false ∧ ctlKeeps {} exBc 8 sys2Init cg0 exCut = false := by
  decide +kernel

/-- The `start_position` assumption is necessary: GET_DESCRIPTOR with wLength 200 for the 18-byte descriptor; the host
ACKs the (short) packet and nevertheless sends another IN token.  `start_position` is now 64, `position_in_stream` (5
bits) restarts at 0, and the handler presents the descriptor again WITHOUT `first` (the data packet generator does not
start, `tx.valid` stays high). -/
def exBeyond : List (CycIn × Bool) :=
  let su : Setup := { suGD with length := 200 }
  let d : CycIn := { su := su, isIn := true }
  exXfer su 50 ++ [({ d with hsAck := true }, false), (d, false), ({ d with newToken := true }, false), (d, false),
    ({ d with readyForResponse := true }, true), (d, false), (d, false), (d, false), (d, false), (d, false)]

example : ctlEnvHolds {} exBc 8 sys2Init cg0 exBeyond = false ∧ ctlKeeps {} exBc 8 sys2Init cg0 exBeyond = false ∧
    ((outsOf {} exBc sys2Init exBeyond).getLast?.map (fun o => (o.txValid, o.txFirst, o.txLast))) =
      some (true, false, false) := by decide +kernel

end LunaVerif.CtrlCyc
