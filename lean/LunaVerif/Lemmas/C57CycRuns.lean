import LunaVerif.Lemmas.C57CycBridge
/-!
# C57 — cycle-level endpoints along whole-device histories

The cycle-level machines of C11 (`InXfer.step`, `USBInTransferManager` under `USBStreamInEndpoint`'s wiring) and C13
(`StreamOutEndpoint.step`: boundary detector + transactional FIFO + glue), run over the clock-cycle expansions of the
events of a history of the WHOLE serial-device model (`Full.step`, the model `rx_in_order` / `tx_in_order` are proved
on), put out — decoded event by event — exactly what the whole-device model's endpoints put out.

The expansion of an event is C12's (`C12In.expand`, `C12Out.expand`: arbitrary idle-cycle counts, stall patterns, free
input values, any acceptor-legal cycle sequence per data packet); the token registers and the halt-clear strobe are
those of the whole-device model's control endpoint (`s.ctl`, `EpDev.sharedOf c.dev s.ctl ev`).
-/
set_option linter.unusedSimpArgs false
set_option linter.unusedVariables false

namespace LunaVerif.C57Cyc
open LunaVerif LunaVerif.Device

/-- The event-level outputs (answer, delivery) of the endpoint `fc` whose state inside the device is `π s`, along a
history of the whole device. -/
def epOuts (c : Full.FullConfig) (fc : Full.EpCfg) (π : Full.FullState → Full.EpState) :
    Full.FullState → List HostEvent → List (Resp × Full.Delivery)
  | _, [] => []
  | s, ev :: es => (Full.epStep fc (π s) (Full.ctxOf s.ctl ev) ev).2 :: epOuts c fc π (Full.step c s ev).1 es

theorem step_tk (c : Full.FullConfig) (s : Full.FullState) (ev : HostEvent) :
    (Full.step c s ev).1.ctl.tokPid = (core c.dev s.ctl ev).1.tokPid ∧
    (Full.step c s ev).1.ctl.tokEp = (core c.dev s.ctl ev).1.tokEp := ⟨rfl, rfl⟩

/-! ## Stream IN endpoints -/

/-- The clock cycles a stream IN endpoint sees along a history of the whole device (`e` = the C12 event-level state,
which decides how many beats a transmission has and which producer bytes are taken). -/
def inCycles (c : Full.FullConfig) (ec : EpDev.EpCfg) :
    Full.FullState → EpDev.InState → List (HostEvent × C12In.Gaps) → List InXfer.In
  | _, _, [] => []
  | s, e, (ev, g) :: rest =>
    C12In.expand ec ⟨s.ctl.tokPid, s.ctl.tokEp⟩ (EpDev.sharedOf c.dev s.ctl ev) e ev g ++
      inCycles c ec (Full.step c s ev).1 (C12In.inEv ec (EpDev.sharedOf c.dev s.ctl ev) e ev).1 rest

/-- … and the cycle-level endpoint's decoded outputs, event by event. -/
def inWires (c : Full.FullConfig) (ec : EpDev.EpCfg) :
    Full.FullState → EpDev.InState → InXfer.State → List (HostEvent × C12In.Gaps) → List (List C12In.Wire)
  | _, _, _, [] => []
  | s, e, x, (ev, g) :: rest =>
    let is := C12In.expand ec ⟨s.ctl.tokPid, s.ctl.tokEp⟩ (EpDev.sharedOf c.dev s.ctl ev) e ev g
    (C12In.wires false (InXfer.trace (C12In.cfgOf ec) x is)).1 ::
      inWires c ec (Full.step c s ev).1 (C12In.inEv ec (EpDev.sharedOf c.dev s.ctl ev) e ev).1
        (InXfer.runState (C12In.cfgOf ec) x is) rest

/-- What an event-level output of a stream IN endpoint looks like on the wires: the producer bytes accepted, then NAK /
the beats of a DATA packet / a zero-length packet. -/
def inWiresOf (r : Resp × Full.Delivery) : List C12In.Wire := C12In.wiresOf { resp := r.1, app := [r.2.count] }

theorem wiresOf_appCount (o : EpDev.EpOut) : C12In.wiresOf o = C12In.wiresOf { resp := o.resp, app := [appCount o.app] } := by
  obtain ⟨r, app⟩ := o
  cases app with
  | nil => simp [C12In.wiresOf, appCount]
  | cons k t => cases t <;> simp [C12In.wiresOf, appCount]

/-- **Cycles refine events, stream IN endpoint inside the whole device.**  `π` selects the endpoint's state in the
whole-device state; `Ok` is any invariant under which the device updates it by `Full.epStep fc`. -/
theorem in_cycles_refine (c : Full.FullConfig) (hs : StdOwned c.dev) (fc : Full.EpCfg) (hn : 0 < fc.num) (hm : 0 < fc.mps)
    (π : Full.FullState → Full.InEp) (Ok : Full.FullState → Prop)
    (hok : ∀ s ev, Ok s → Ok (Full.step c s ev).1)
    (hπ : ∀ s ev, Ok s → (Full.epStep fc (.sIn (π s)) (Full.ctxOf s.ctl ev) ev).1 = .sIn (π (Full.step c s ev).1))
    (h : List (HostEvent × C12In.Gaps)) (hev : ∀ x ∈ h, C12In.EvOk x.1) :
    ∀ (s : Full.FullState) (e : EpDev.InState) (x : InXfer.State), Ok s → RIn fc.mps (π s) e →
      C12In.Rel (C12In.cfgOf (inCfg fc)) e x →
      ∃ e', RIn fc.mps (π (Full.final c s (h.map (·.1)))) e' ∧
        C12In.Rel (C12In.cfgOf (inCfg fc)) e'
          (InXfer.runState (C12In.cfgOf (inCfg fc)) x (inCycles c (inCfg fc) s e h)) ∧
        inWires c (inCfg fc) s e x h = (epOuts c fc (fun s => .sIn (π s)) s (h.map (·.1))).map inWiresOf := by
  induction h with
  | nil => intro s e x _ hr hx; exact ⟨e, hr, hx, rfl⟩
  | cons y rest ih =>
    obtain ⟨ev, g⟩ := y
    intro s e x hs0 hr hx
    obtain ⟨a', b1, b2, b3, b4, b5⟩ := in_bridge c.dev hs fc hn hm s.ctl (π s) e ev hr
    obtain ⟨a1, a2⟩ := C12In.in_cycle_refines_event (inCfg fc) hm ⟨s.ctl.tokPid, s.ctl.tokEp⟩
      (EpDev.sharedOf c.dev s.ctl ev) e ev g (C12Sig.shOk_sharedOf c.dev (inCfg fc) hn s.ctl ev)
      (hev (ev, g) (by simp)) x hx
    have hπ' := hπ s ev hs0
    rw [b1] at hπ'
    injection hπ' with hπ'
    rw [hπ'] at b2
    obtain ⟨e', c1, c2, c3⟩ := ih (fun z hz => hev z (by simp [hz])) _ _ _ (hok s ev hs0) b2 a1
    refine ⟨e', ?_, ?_, ?_⟩
    · simpa only [List.map_cons, Full.final] using c1
    · simpa only [inCycles, InXfer.runState, C12In.runState_append] using c2
    · simp only [List.map_cons, inWires, epOuts, a2, c3]
      congr 1
      rw [wiresOf_appCount, ← b3, ← b4]
      rfl

/-! ## Stream OUT endpoint -/

def outCycles (c : Full.FullConfig) (ec : EpDev.EpCfg) :
    Full.FullState → List (HostEvent × C12Out.Gaps) → List StreamOutEndpoint.In
  | _, [] => []
  | s, (ev, g) :: rest =>
    C12Out.expand ec (C12Out.tkD s.ctl) (EpDev.sharedOf c.dev s.ctl ev) ev g ++ outCycles c ec (Full.step c s ev).1 rest

def outWires (c : Full.FullConfig) (ec : EpDev.EpCfg) :
    Full.FullState → StreamOutEndpoint.State → List (HostEvent × C12Out.Gaps) → List (List C12Out.Wire)
  | _, _, [] => []
  | s, x, (ev, g) :: rest =>
    let is := C12Out.expand ec (C12Out.tkD s.ctl) (EpDev.sharedOf c.dev s.ctl ev) ev g
    C12Out.cycWires (C12Out.cfgOf ec) x is ::
      outWires c ec (Full.step c s ev).1 (StreamOutEndpoint.runState (C12Out.cfgOf ec) x is) rest

/-- What an event-level output of the stream OUT endpoint looks like on the wires: the handshake request, then the
entries handed to the consumer as (payload, first, last). -/
def outWiresOf (r : Resp × Full.Delivery) : List C12Out.Wire :=
  (match r.1 with
   | .hs pid => if pid = PID_ACK then [C12Out.Wire.ack] else if pid = PID_NAK then [C12Out.Wire.nak] else []
   | _ => []) ++ r.2.items.map (fun x => C12Out.Wire.xfer (x.1, x.2.2, x.2.1))

theorem outWiresOf_eq (o : EpDev.EpOut) (r : Resp × Full.Delivery) (h1 : r.1 = o.resp)
    (h2 : r.2.items = o.app.map decF) : C12Out.wiresOf o = outWiresOf r := by
  obtain ⟨resp, app⟩ := o
  obtain ⟨r1, r2⟩ := r
  simp only at h1 h2
  subst h1
  simp only [C12Out.wiresOf, outWiresOf, h2, List.map_map]
  cases r1 <;> simp [decF, flipE, Function.comp_def]

/-- **Environment hypotheses of an OUT-endpoint history** (C12's `legalOk` on the whole-device model): every data packet
directly follows a token event; its cycles are a transaction of C13's `LegalHost` acceptor carrying its PID toggle,
payload and CRC verdict (`segOk`); its bytes are bytes; and while the token registers name the endpoint it fits into
the FIFO as the whole-device model has it at that point (`OutFits`). -/
def outLegal (c : Full.FullConfig) (fc : Full.EpCfg) (π : Full.FullState → Full.OutEp) :
    Full.FullState → Bool → List (HostEvent × C12Out.Gaps) → Bool
  | _, _, [] => true
  | s, prevTok, (ev, g) :: rest =>
    (match ev with
     | .data pid p ok =>
       prevTok &&
       C12Out.segOk (C12Out.cfgOf (outCfg fc)) (C12Out.tokOf (C12Out.tkD s.ctl)) (StreamOutEndpoint.tn (EpDev.pidToggleBit pid))
         p ok g.seg g.resp g.tail &&
       decide (OutFits fc s.ctl (π s) ev)
     | _ => true) &&
    outLegal c fc π (Full.step c s ev).1 (C12Out.isToken ev) rest

/-- **Cycles refine events, stream OUT endpoint inside the whole device.** -/
theorem out_cycles_refine (c : Full.FullConfig) (hs : StdOwned c.dev) (fc : Full.EpCfg) (hn : 0 < fc.num) (hm : 0 < fc.mps)
    (π : Full.FullState → Full.OutEp) (Ok : Full.FullState → Prop)
    (hok : ∀ s ev, Ok s → Ok (Full.step c s ev).1)
    (hπ : ∀ s ev, Ok s → (Full.epStep fc (.sOut (π s)) (Full.ctxOf s.ctl ev) ev).1 = .sOut (π (Full.step c s ev).1))
    (h : List (HostEvent × C12Out.Gaps)) :
    ∀ (s : Full.FullState) (e : EpDev.OutState) (a pt : Bool) (x : StreamOutEndpoint.State), Ok s →
      outLegal c fc π s pt h = true → (pt = true → a = true ∨ s.ctl.tokPid ≠ PID_OUT) → ROut (π s) e →
      C12Out.Rel (C12Out.cfgOf (outCfg fc)) e x (C12Out.phOf a (C12Out.tkD s.ctl)) →
      ∃ e' a', ROut (π (Full.final c s (h.map (·.1)))) e' ∧
        C12Out.Rel (C12Out.cfgOf (outCfg fc)) e'
          (StreamOutEndpoint.runState (C12Out.cfgOf (outCfg fc)) x (outCycles c (outCfg fc) s h))
          (C12Out.phOf a' (C12Out.tkD (Full.final c s (h.map (·.1))).ctl)) ∧
        outWires c (outCfg fc) s x h = (epOuts c fc (fun s => .sOut (π s)) s (h.map (·.1))).map outWiresOf := by
  induction h with
  | nil => intro s e a pt x _ _ _ hr hx; exact ⟨e, a, hr, hx, rfl⟩
  | cons y rest ih =>
    obtain ⟨ev, g⟩ := y
    intro s e a pt x hs0 hl hj hr hx
    simp only [outLegal, Bool.and_eq_true] at hl
    obtain ⟨hl1, hl2⟩ := hl
    -- the event satisfies `OutFits` and C12's `EvOk`
    have hfits : OutFits fc s.ctl (π s) ev := by
      cases ev with
      | data pid p ok =>
        simp only [Bool.and_eq_true, decide_eq_true_eq] at hl1
        exact hl1.2
      | _ => trivial
    have hevok : C12Out.EvOk (outCfg fc) a (C12Out.tkD s.ctl) (EpDev.sharedOf c.dev s.ctl ev) e ev g := by
      cases ev with
      | data pid p ok =>
        simp only [Bool.and_eq_true, decide_eq_true_eq] at hl1
        obtain ⟨⟨hpt, hseg⟩, hbytes, hfit⟩ := hl1
        refine ⟨by rw [shared_data]; rfl, hseg, fun hown => ⟨?_, ?_⟩⟩
        · rcases hj hpt with ha | hne
          · exact ha
          · exact absurd hown.2 hne
        · rw [hr.len]; exact hfit hown
      | _ => trivial
    obtain ⟨b', b1, b2, b3, b4⟩ := out_bridge c.dev hs fc hn hm s.ctl (π s) e ev hr hfits
    obtain ⟨a1, a2⟩ := C12Out.out_cycle_refines_event (outCfg fc) hm a (C12Out.tkD s.ctl)
      (EpDev.sharedOf c.dev s.ctl ev) e ev g (C12Sig.shOk_sharedOf c.dev (outCfg fc) hn s.ctl ev) hevok x hx
    have hπ' := hπ s ev hs0
    rw [b1] at hπ'
    injection hπ' with hπ'
    rw [hπ'] at b2
    have htk : C12Sig.tkOf (EpDev.sharedOf c.dev s.ctl ev) = C12Out.tkD (Full.step c s ev).1.ctl := rfl
    rw [htk] at a1
    have hj' : C12Out.isToken ev = true →
        C12Out.armedNext a (C12Out.tkD s.ctl) (EpDev.sharedOf c.dev s.ctl ev) ev = true ∨
        (Full.step c s ev).1.ctl.tokPid ≠ PID_OUT := by
      intro ht
      cases ev with
      | token pid addr ep =>
        by_cases haddr : addr = s.ctl.address
        · left; simp [C12Out.armedNext, EpDev.sharedOf, EpDev.acceptedToken, haddr]
        · right
          rw [(step_tk c s _).1]
          simp [core, haddr, PID_OUT]
      | _ => simp [C12Out.isToken] at ht
    obtain ⟨e', a', c1, c2, c3⟩ := ih _ _ _ _ _ (hok s ev hs0) hl2 hj' b2 a1
    refine ⟨e', a', ?_, ?_, ?_⟩
    · simpa only [List.map_cons, Full.final] using c1
    · simpa only [List.map_cons, Full.final, outCycles, StreamOutEndpoint.runState, StreamOutEndpoint.runState_append] using c2
    · simp only [List.map_cons, outWires, epOuts, a2, c3]
      congr 1
      exact outWiresOf_eq _ _ b3 b4

end LunaVerif.C57Cyc
