import LunaVerif.Model.Periph.I2cInitiator
/-!
Invariants of the I2C initiator's bit loop (C52), for every input history:
`bitno` is 0 outside the two 8-bit data loops (so every write/read transfers exactly 8 data clocks
before the acknowledge clock), SDA is released during the acknowledge clock of a write (so the
target can answer) and during the data clocks of a read (so the target can drive data).

Not proved here (left PARTIAL, see Props/C52.lean): with the ghost `d` = octet latched from
`data_i`, `WRITE-DATA-SCL-H` and `WRITE-DATA-SDA-N` carry `sda_o = bit (7 - bitno) of d` (needs
`w_shreg = d * 2^bitno % 256` through the four-state loop; the one-step ingredients are
`bit_lemma` / `shift_lemma` below and `write_msb_first_and_ack_partial`).
-/
namespace LunaVerif.I2c

def inBitLoop : Fsm → Bool
  | .wrDataSclL | .wrDataSdaX | .wrDataSclH | .wrDataSdaN
  | .rdDataSclL | .rdDataSdaH | .rdDataSclH | .rdDataSdaN => true
  | _ => false

def bitOf (d k : Nat) : Bool := d / 2 ^ k % 2 == 1

structure LoopInv (s : State) : Prop where
  bitLt : s.bitno < 8
  bit0  : inBitLoop s.fsm = false → s.bitno = 0
  w4    : (s.fsm = .wrAckSclH ∨ s.fsm = .wrAckSdaN) → s.sdaO = true
  r1    : (s.fsm = .rdDataSclH ∨ s.fsm = .rdDataSdaN) → s.sdaO = true

/-- bit 7 of the shift register after `b` left shifts is bit `7-b` of the octet -/
theorem bit_lemma (d b : Nat) (hb : b < 8) : (d * 2 ^ b % 256 / 128 % 2 == 1) = bitOf d (7 - b) := by
  unfold bitOf
  have : b = 0 ∨ b = 1 ∨ b = 2 ∨ b = 3 ∨ b = 4 ∨ b = 5 ∨ b = 6 ∨ b = 7 := by omega
  rcases this with h | h | h | h | h | h | h | h <;> subst h <;> simp <;> congr 1 <;> omega

theorem shift_lemma (d b : Nat) : d * 2 ^ b % 256 * 2 % 256 = d * 2 ^ (b + 1) % 256 := by
  rw [Nat.pow_succ, ← Nat.mul_assoc]
  omega

theorem loopInv_init : LoopInv init := by
  constructor <;> simp [init, inBitLoop]

theorem f_bitLt (c : Config) (s : State) (i : In) (h : LoopInv s) : (step c s i).bitno < 8 := by
  obtain ⟨hlt, h0, h4, hr⟩ := h
  cases hf : s.fsm <;> simp only [hf] at h0 h4 hr <;> simp only [step, hf, sclL, sclH, stbX, id] <;>
    (repeat' split) <;> simp_all <;> (try omega)

theorem f_bit0 (c : Config) (s : State) (i : In) (h : LoopInv s) :
    inBitLoop (step c s i).fsm = false → (step c s i).bitno = 0 := by
  obtain ⟨hlt, h0, h4, hr⟩ := h
  cases hf : s.fsm <;> simp only [hf] at h0 h4 hr <;> simp only [step, hf, sclL, sclH, stbX, id] <;>
    (repeat' split) <;> simp_all [inBitLoop] <;> (try omega)

theorem f_w4 (c : Config) (s : State) (i : In) (h : LoopInv s) :
    ((step c s i).fsm = .wrAckSclH ∨ (step c s i).fsm = .wrAckSdaN) → (step c s i).sdaO = true := by
  obtain ⟨hlt, h0, h4, hr⟩ := h
  cases hf : s.fsm <;> simp only [hf] at h0 h4 hr <;> simp only [step, hf, sclL, sclH, stbX, id] <;>
    (repeat' split) <;> simp_all

theorem f_r1 (c : Config) (s : State) (i : In) (h : LoopInv s) :
    ((step c s i).fsm = .rdDataSclH ∨ (step c s i).fsm = .rdDataSdaN) → (step c s i).sdaO = true := by
  obtain ⟨hlt, h0, h4, hr⟩ := h
  cases hf : s.fsm <;> simp only [hf] at h0 h4 hr <;> simp only [step, hf, sclL, sclH, stbX, id] <;>
    (repeat' split) <;> simp_all

theorem loopInv_step (c : Config) (s : State) (i : In) (h : LoopInv s) : LoopInv (step c s i) :=
  ⟨f_bitLt c s i h, f_bit0 c s i h, f_w4 c s i h, f_r1 c s i h⟩

/-- After any input history: eight data clocks per octet (`bitno` = 0 outside the loops), SDA
released during the write-acknowledge clock and during read data clocks. -/
theorem sda_released_for_target_bits (c : Config) (h : List In) : LoopInv (stateAfter c init h) := by
  suffices ∀ s, LoopInv s → LoopInv (stateAfter c s h) from this init loopInv_init
  induction h with
  | nil => intro s hs; exact hs
  | cons i is ih => intro s hs; exact ih _ (loopInv_step c s i hs)

end LunaVerif.I2c
