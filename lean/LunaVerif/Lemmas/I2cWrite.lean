import LunaVerif.Model.Periph.I2cInitiator
/-!
Invariants of the I2C initiator's bit loop (C52), for every input history:
`bitno` is 0 outside the two 8-bit data loops (so every write/read transfers exactly 8 data clocks
before the acknowledge clock), SDA is released during the acknowledge clock of a write (so the
target can answer) and during the data clocks of a read (so the target can drive data).

Second part: with the ghost `d` = octet latched from `data_i` when the write was accepted,
`WRITE-DATA-SCL-H` and `WRITE-DATA-SDA-N` (the SCL-high phases of data clock number `bitno`) carry
`sda_o = bit (7 - bitno) of d` (`write_msb_first_and_ack`), via `w_shreg = d * 2^bitno % 256`
through the four-state loop; and the read-acknowledge clock carries `~r_ack`.
-/
namespace LunaVerif.I2c

def inBitLoop : Fsm → Bool
  | .wrDataSclL | .wrDataSdaX | .wrDataSclH | .wrDataSdaN
  | .rdDataSclL | .rdDataSdaH | .rdDataSclH | .rdDataSdaN => true
  | _ => false

def bitOf (d k : Nat) : Bool := d / 2 ^ k % 2 == 1

structure LoopInv (s : State) : Prop where
  bitLt : s.bitno < 8
  bit0  : inBitLoop s.fsm = false → s.bitno = 0
  w4    : (s.fsm = .wrAckSclH ∨ s.fsm = .wrAckSdaN) → s.sdaO = true
  r1    : (s.fsm = .rdDataSclH ∨ s.fsm = .rdDataSdaN) → s.sdaO = true

/-- bit 7 of the shift register after `b` left shifts is bit `7-b` of the octet -/
theorem bit_lemma (d b : Nat) (hb : b < 8) : (d * 2 ^ b % 256 / 128 % 2 == 1) = bitOf d (7 - b) := by
  unfold bitOf
  have : b = 0 ∨ b = 1 ∨ b = 2 ∨ b = 3 ∨ b = 4 ∨ b = 5 ∨ b = 6 ∨ b = 7 := by omega
  rcases this with h | h | h | h | h | h | h | h <;> subst h <;> simp <;> congr 1 <;> omega

theorem shift_lemma (d b : Nat) : d * 2 ^ b % 256 * 2 % 256 = d * 2 ^ (b + 1) % 256 := by
  rw [Nat.pow_succ, ← Nat.mul_assoc]
  omega

theorem loopInv_init : LoopInv init := by
  constructor <;> simp [init, inBitLoop]

theorem f_bitLt (c : Config) (s : State) (i : In) (h : LoopInv s) : (step c s i).bitno < 8 := by
  obtain ⟨hlt, h0, h4, hr⟩ := h
  cases hf : s.fsm <;> simp only [hf] at h0 h4 hr <;> simp only [step, hf, sclL, sclH, stbX, id] <;>
    (repeat' split) <;> simp_all <;> (try omega)

theorem f_bit0 (c : Config) (s : State) (i : In) (h : LoopInv s) :
    inBitLoop (step c s i).fsm = false → (step c s i).bitno = 0 := by
  obtain ⟨hlt, h0, h4, hr⟩ := h
  cases hf : s.fsm <;> simp only [hf] at h0 h4 hr <;> simp only [step, hf, sclL, sclH, stbX, id] <;>
    (repeat' split) <;> simp_all [inBitLoop] <;> (try omega)

theorem f_w4 (c : Config) (s : State) (i : In) (h : LoopInv s) :
    ((step c s i).fsm = .wrAckSclH ∨ (step c s i).fsm = .wrAckSdaN) → (step c s i).sdaO = true := by
  obtain ⟨hlt, h0, h4, hr⟩ := h
  cases hf : s.fsm <;> simp only [hf] at h0 h4 hr <;> simp only [step, hf, sclL, sclH, stbX, id] <;>
    (repeat' split) <;> simp_all

theorem f_r1 (c : Config) (s : State) (i : In) (h : LoopInv s) :
    ((step c s i).fsm = .rdDataSclH ∨ (step c s i).fsm = .rdDataSdaN) → (step c s i).sdaO = true := by
  obtain ⟨hlt, h0, h4, hr⟩ := h
  cases hf : s.fsm <;> simp only [hf] at h0 h4 hr <;> simp only [step, hf, sclL, sclH, stbX, id] <;>
    (repeat' split) <;> simp_all

theorem loopInv_step (c : Config) (s : State) (i : In) (h : LoopInv s) : LoopInv (step c s i) :=
  ⟨f_bitLt c s i h, f_bit0 c s i h, f_w4 c s i h, f_r1 c s i h⟩

/-- After any input history: eight data clocks per octet (`bitno` = 0 outside the loops), SDA
released during the write-acknowledge clock and during read data clocks. -/
theorem sda_released_for_target_bits (c : Config) (h : List In) : LoopInv (stateAfter c init h) := by
  suffices ∀ s, LoopInv s → LoopInv (stateAfter c s h) from this init loopInv_init
  induction h with
  | nil => intro s hs; exact hs
  | cons i is ih => intro s hs; exact ih _ (loopInv_step c s i hs)

/-! ## the octet on the wire -/

/-- ghost: the octet latched by the last accepted write -/
def gstep (s : State) (d : Nat) (i : In) : Nat :=
  if s.fsm = .idle ∧ i.start = false ∧ i.stop = false ∧ i.write = true then i.dataI % 256 else d

def afterG (c : Config) : State × Nat → List In → State × Nat
  | sd, [] => sd
  | (s, d), i :: is => afterG c (step c s i, gstep s d i) is

theorem gstep_nonidle (s : State) (d : Nat) (i : In) (h : s.fsm ≠ .idle) : gstep s d i = d := by
  simp [gstep, h]

structure WInv (s : State) (d : Nat) : Prop where
  loop : LoopInv s
  w1   : (s.fsm = .wrDataSclL ∨ s.fsm = .wrDataSdaX) → s.wShreg = d * 2 ^ s.bitno % 256
  w2   : s.fsm = .wrDataSclH → s.wShreg = d * 2 ^ s.bitno % 256 ∧ s.sdaO = bitOf d (7 - s.bitno)
  w3   : s.fsm = .wrDataSdaN → s.wShreg = d * 2 ^ (s.bitno + 1) % 256 ∧ s.sdaO = bitOf d (7 - s.bitno)
  r2   : (s.fsm = .rdAckSclH ∨ s.fsm = .rdAckSdaN) → s.sdaO = !s.rAck

theorem pred_wrDataSclL (c : Config) (s : State) (i : In) (h : (step c s i).fsm = .wrDataSclL) :
    (s.fsm = .idle ∧ i.start = false ∧ i.stop = false ∧ i.write = true) ∨ s.fsm = .wrDataSdaN ∨
      s.fsm = .wrDataSclL := by
  cases hf : s.fsm <;> simp only [step, hf, sclL, sclH, stbX, id] at h <;> (repeat' split at h) <;> simp_all

theorem pred_wrDataSdaX (c : Config) (s : State) (i : In) (h : (step c s i).fsm = .wrDataSdaX) :
    s.fsm = .wrDataSclL ∨ s.fsm = .wrDataSdaX := by
  cases hf : s.fsm <;> simp only [step, hf, sclL, sclH, stbX, id] at h <;> (repeat' split at h) <;> simp_all

theorem pred_wrDataSclH (c : Config) (s : State) (i : In) (h : (step c s i).fsm = .wrDataSclH) :
    s.fsm = .wrDataSdaX ∨ s.fsm = .wrDataSclH := by
  cases hf : s.fsm <;> simp only [step, hf, sclL, sclH, stbX, id] at h <;> (repeat' split at h) <;> simp_all

theorem pred_wrDataSdaN (c : Config) (s : State) (i : In) (h : (step c s i).fsm = .wrDataSdaN) :
    s.fsm = .wrDataSclH ∨ s.fsm = .wrDataSdaN := by
  cases hf : s.fsm <;> simp only [step, hf, sclL, sclH, stbX, id] at h <;> (repeat' split at h) <;> simp_all

theorem pred_rdAck (c : Config) (s : State) (i : In)
    (h : (step c s i).fsm = .rdAckSclH ∨ (step c s i).fsm = .rdAckSdaN) :
    s.fsm = .rdAckSdaX ∨ s.fsm = .rdAckSclH ∨ s.fsm = .rdAckSdaN := by
  cases hf : s.fsm <;> simp only [step, hf, sclL, sclH, stbX, id] at h <;> (repeat' split at h) <;> simp_all

theorem g_w1a (c : Config) (s : State) (d : Nat) (i : In) (h : WInv s d)
    (hn : (step c s i).fsm = .wrDataSclL) :
    (step c s i).wShreg = gstep s d i * 2 ^ (step c s i).bitno % 256 := by
  rcases pred_wrDataSclL c s i hn with ⟨hf, h1, h2, h3⟩ | hf | hf
  · have hb0 : s.bitno = 0 := h.loop.bit0 (by simp [hf, inBitLoop])
    simp [step, gstep, hf, h1, h2, h3, hb0]
  · have ⟨h3a, _⟩ := h.w3 hf
    have hlt := h.loop.bitLt
    rw [gstep_nonidle s d i (by simp [hf])]
    simp only [step, hf, stbX] at hn ⊢
    split at hn
    · rename_i hst
      simp only [hst, if_true] at hn ⊢
      by_cases h7 : s.bitno = 7
      · simp [h7] at hn
      · have : (s.bitno + 1) % 8 = s.bitno + 1 := by omega
        simp [this, h3a]
    · simp at hn
  · have h1 := h.w1 (Or.inl hf)
    rw [gstep_nonidle s d i (by simp [hf])]
    simp only [step, hf, sclL] at hn ⊢
    split <;> simp_all

theorem g_w1b (c : Config) (s : State) (d : Nat) (i : In) (h : WInv s d)
    (hn : (step c s i).fsm = .wrDataSdaX) :
    (step c s i).wShreg = gstep s d i * 2 ^ (step c s i).bitno % 256 := by
  rcases pred_wrDataSdaX c s i hn with hf | hf
  · have h1 := h.w1 (Or.inl hf)
    rw [gstep_nonidle s d i (by simp [hf])]
    simp only [step, hf, sclL] at hn ⊢
    split <;> simp_all
  · have h1 := h.w1 (Or.inr hf)
    rw [gstep_nonidle s d i (by simp [hf])]
    simp only [step, hf, stbX] at hn ⊢
    split <;> simp_all

theorem g_w2 (c : Config) (s : State) (d : Nat) (i : In) (h : WInv s d)
    (hn : (step c s i).fsm = .wrDataSclH) :
    (step c s i).wShreg = gstep s d i * 2 ^ (step c s i).bitno % 256 ∧
    (step c s i).sdaO = bitOf (gstep s d i) (7 - (step c s i).bitno) := by
  have hb := bit_lemma d s.bitno h.loop.bitLt
  rcases pred_wrDataSclH c s i hn with hf | hf
  · have h1 := h.w1 (Or.inr hf)
    rw [gstep_nonidle s d i (by simp [hf])]
    simp only [step, hf, stbX] at hn ⊢
    split at hn
    · rename_i hst
      simp only [hst, if_true]
      exact ⟨h1, by rw [h1]; exact hb⟩
    · simp at hn
  · have ⟨h2a, h2b⟩ := h.w2 hf
    rw [gstep_nonidle s d i (by simp [hf])]
    simp only [step, hf, sclH] at hn ⊢
    (repeat' split) <;> simp_all

theorem g_w3 (c : Config) (s : State) (d : Nat) (i : In) (h : WInv s d)
    (hn : (step c s i).fsm = .wrDataSdaN) :
    (step c s i).wShreg = gstep s d i * 2 ^ ((step c s i).bitno + 1) % 256 ∧
    (step c s i).sdaO = bitOf (gstep s d i) (7 - (step c s i).bitno) := by
  rcases pred_wrDataSdaN c s i hn with hf | hf
  · have ⟨h2a, h2b⟩ := h.w2 hf
    have hs : s.wShreg * 2 % 256 = d * 2 ^ (s.bitno + 1) % 256 := by rw [h2a]; exact shift_lemma d s.bitno
    rw [gstep_nonidle s d i (by simp [hf])]
    simp only [step, hf, sclH] at hn ⊢
    (repeat' split) <;> simp_all
  · have ⟨h3a, h3b⟩ := h.w3 hf
    rw [gstep_nonidle s d i (by simp [hf])]
    simp only [step, hf, stbX] at hn ⊢
    split at hn
    · rename_i hst
      simp only [hst, if_true] at hn
      split at hn <;> simp at hn
    · rename_i hst
      simp [hst, h3a, h3b]

theorem g_r2 (c : Config) (s : State) (d : Nat) (i : In) (h : WInv s d)
    (hn : (step c s i).fsm = .rdAckSclH ∨ (step c s i).fsm = .rdAckSdaN) :
    (step c s i).sdaO = !(step c s i).rAck := by
  rcases pred_rdAck c s i hn with hf | hf | hf
  · simp only [step, hf, stbX] at hn ⊢
    split <;> simp_all
  · have h2 := h.r2 (Or.inl hf)
    simp only [step, hf, sclH] at hn ⊢
    (repeat' split) <;> simp_all
  · have h2 := h.r2 (Or.inr hf)
    simp only [step, hf, stbX] at hn ⊢
    split <;> simp_all

theorem winv_step (c : Config) (s : State) (d : Nat) (i : In) (h : WInv s d) :
    WInv (step c s i) (gstep s d i) :=
  ⟨loopInv_step c s i h.loop,
   fun hn => hn.elim (g_w1a c s d i h) (g_w1b c s d i h),
   g_w2 c s d i h, g_w3 c s d i h, g_r2 c s d i h⟩

theorem winv_init : WInv init 0 := by
  refine ⟨loopInv_init, ?_, ?_, ?_, ?_⟩ <;> simp [init]

theorem winv_reachable (c : Config) (h : List In) :
    WInv (afterG c (init, 0) h).1 (afterG c (init, 0) h).2 := by
  suffices ∀ sd : State × Nat, WInv sd.1 sd.2 → WInv (afterG c sd h).1 (afterG c sd h).2 from
    this _ winv_init
  induction h with
  | nil => intro sd hs; exact hs
  | cons i is ih => intro (s, d) hs; exact ih _ (winv_step c s d i hs)

/-- **Write, byte level.**  After ANY input history (any target behaviour, stretching, strobes),
with `d` the octet latched from `data_i` by the last accepted write: whenever the FSM is in the
SCL-high phase of data clock number `bitno` (0…7) the initiator's SDA output is bit `7 - bitno`
of `d` (most significant bit first); during the acknowledge clock SDA is released; and the
acknowledge clock of a read carries the complement of the latched `ack_i`.  (That SDA does not
move during these phases is `sda_changes_under_scl_high_only_for_start_stop`; that `ack_o` is the
complement of SDA sampled with SCL high is `write_msb_first_and_ack_partial`.) -/
theorem write_msb_first_and_ack (c : Config) (h : List In) :
    let s := (afterG c (init, 0) h).1
    let d := (afterG c (init, 0) h).2
    ((s.fsm = .wrDataSclH ∨ s.fsm = .wrDataSdaN) → s.bitno < 8 ∧ s.sdaO = bitOf d (7 - s.bitno)) ∧
    ((s.fsm = .wrAckSclH ∨ s.fsm = .wrAckSdaN) → s.sdaO = true) ∧
    ((s.fsm = .rdAckSclH ∨ s.fsm = .rdAckSdaN) → s.sdaO = !s.rAck) := by
  intro s d
  have w := winv_reachable c h
  refine ⟨?_, w.loop.w4, w.r2⟩
  intro hs
  exact ⟨w.loop.bitLt, hs.elim (fun h2 => (w.w2 h2).2) (fun h3 => (w.w3 h3).2)⟩

/-- the model state of `afterG` is the plain run -/
theorem afterG_state (c : Config) (h : List In) : ∀ sd : State × Nat, (afterG c sd h).1 = stateAfter c sd.1 h := by
  induction h with
  | nil => intro sd; rfl
  | cons i is ih => intro (s, d); exact ih _

end LunaVerif.I2c
