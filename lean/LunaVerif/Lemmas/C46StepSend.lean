import LunaVerif.Lemmas.C46StepIdle
/-!
# C46 — packet emission: the invariant is preserved in SEND_PACKET under arbitrary `tx.ready`
(first word, word taken and next one loaded, word held, last word with the byte mask)
-/
namespace LunaVerif.SSStreamIn

theorem lastMask_ne_zero (f : Nat) : lastMask f ≠ 0 := by
  unfold lastMask; split <;> simp

theorem step_send (c : Config) (v : View) (g : Ghost) (i : In) (d : Bool) (hc : CfgOK c)
    (hI : Inv c v g) (he : EnvOK c g i (vout c v i)) (hf : v.fsm = .send) :
    Inv c (vnext c v i) (gnext i (vout c v i) d g) := by
  obtain ⟨hr, hp, hh⟩ := he
  obtain ⟨wl, wle, wal, wend, wen1, wdat⟩ := write_side c v i hc hI.lenW hI.fillW_le hI.fillW_al hI.endW hp
  change _ = _ ++ wbytes c v i at wdat
  obtain ⟨seqlt, lenW, lenR, fillW_le, fillW_al, endW, fillR_le, wd, idle, snd, wa, hs, cur0, curq, hdat⟩ := hI
  obtain ⟨hlpz, hpos, hrd, hv0, hv1⟩ := snd hf
  obtain ⟨hm4, hm8, haw⟩ := hc
  clear idle snd wa wd
  rw [gnext, gProd_vout]
  by_cases htv : v.txValid = 0
  · -- first word
    have hsp := hv0 htv
    obtain ⟨hip, hcb⟩ := cur0 htv
    by_cases hl : (v.sendPos + 1) * 4 ≥ v.fillR
    · have hk : vcontrol c v i = { fsm := .waitAck, loadTx := true, raddr := v.sendPos + 1 } := by
        simp [vcontrol, hf, htv, hl]
      have hl' : v.fillR ≤ 4 := by omega
      constructor <;> simp only [vnext, vout, hk, gZlp, gTx] <;> simp [*]
      case fillW_al => exact wal
      case endW => exact wend
      case wa =>
        have e : (v.fillR - 1) / 4 = 0 := by omega
        exact ⟨by omega, fun _ => by simp [e, wordsBytes]⟩
      case data => rw [← hdat]; simp
    · have hk : vcontrol c v i = { fsm := .send, loadTx := true, raddr := v.sendPos + 1 } := by
        simp [vcontrol, hf, htv, hl]
      have hl' : ¬ v.fillR ≤ 4 := by omega
      constructor <;> simp only [vnext, vout, hk, gZlp, gTx] <;> simp [*]
      case fillW_al => exact wal
      case endW => exact wend
      case snd => exact ⟨by omega, memRead_lt _ _ _ (by omega), by simp [wordsBytes]⟩
      case data => rw [← hdat]; simp
  · obtain ⟨hp1, hv15, hlast, htd, hcb⟩ := hv1 htv
    have hq : (if g.inPkt = true then g.curSeq else v.seq) = v.seq := by
      cases hi : g.inPkt
      · simp
      · simp [curq hi]
    have hplt : v.sendPos - 1 < v.memR.length := by omega
    have hwords : wordsBytes (v.memR.take (v.sendPos - 1)) ++
        bytesOf (validBytes 15) (v.memR[v.sendPos - 1]?.getD 0) = wordsBytes (v.memR.take v.sendPos) := by
      have := wordsBytes_take_succ v.memR (v.sendPos - 1) hplt
      rw [show v.sendPos - 1 + 1 = v.sendPos by omega] at this
      rw [this]; rfl
    cases hrdy : i.txReady
    · -- the word is not taken
      have hk : vcontrol c v i = { fsm := .send, raddr := v.sendPos } := by
        simp [vcontrol, hf, htv, hrdy]
      constructor <;> simp only [vnext, vout, hk, gZlp, gTx] <;> simp [*]
      case fillW_al => exact wal
      case endW => exact wend
      case snd => exact memRead_lt _ _ _ (by omega)
      case data => rw [← hdat]; simp
    · by_cases hl : (v.sendPos + 1) * 4 ≥ v.fillR
      · have hk : vcontrol c v i = { fsm := .waitAck, loadTx := true, raddr := v.sendPos + 1 } := by
          simp [vcontrol, hf, hrdy, hl]
        have e : (v.fillR - 1) / 4 = v.sendPos := by omega
        constructor <;> simp only [vnext, vout, hk, gZlp, gTx] <;> simp [*]
        case fillW_al => exact wal
        case endW => exact wend
        case wa => omega
        case cur0 => exact lastMask_ne_zero _
        case data => rw [← hdat]; simp
      · have hk : vcontrol c v i = { fsm := .send, loadTx := true, raddr := v.sendPos + 1 } := by
          simp [vcontrol, hf, hrdy, hl]
        constructor <;> simp only [vnext, vout, hk, gZlp, gTx] <;> simp [*]
        case fillW_al => exact wal
        case endW => exact wend
        case snd => exact ⟨by omega, memRead_lt _ _ _ (by omega)⟩
        case data => rw [← hdat]; simp

end LunaVerif.SSStreamIn
