import LunaVerif.Lemmas.C20DeviceFs
import LunaVerif.Lemmas.C20DeviceDetExamples
/-!
# C20 — full-speed-only closed device: non-vacuity of `fs_closed_tx_never_during_rx`'s hypotheses (kernel-evaluated)
-/
namespace LunaVerif.DevDet
open LunaVerif LunaVerif.DevCyc LunaVerif.DevCyc.Abs LunaVerif.C20Ctr LunaVerif.DevEp LunaVerif.CtrlCyc LunaVerif.DevCtl
open LunaVerif.DevDec (exD)

/-- The reset sequencer's inputs of a connected, idle full-speed-only device (J on the line, VBUS present). -/
def risIdle : List ResetSeq.In := List.replicate z1.length ⟨false, true, false, true, .J, false⟩

/-- The control read + host ACK history `z1` satisfies all hypotheses of `fs_closed_tx_never_during_rx` with the real
constants of the reset sequencer (and the device does transmit along it, see `C20DeviceDetExamples.lean`). -/
example : (∀ i ∈ risIdle, i.fullOnly = true ∧ i.lowOnly = false) ∧ rsDriven ResetSeq.luna risIdle z1 ∧
    decHolds4 exD exPar (init exD) ghostInit phs0 z1 = true := by
  refine ⟨?_, ?_, ?_⟩
  · intro i hi
    rw [List.eq_of_mem_replicate hi]
    exact ⟨rfl, rfl⟩
  · unfold rsDriven; decide +kernel
  · decide +kernel

end LunaVerif.DevDet
