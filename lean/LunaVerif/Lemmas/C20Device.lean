import LunaVerif.Lemmas.C20EnvOk
import LunaVerif.Lemmas.C20Endpoints
import LunaVerif.Model.Usb2.EndpointMux
/-!
# C20 — the packet layer closed with the real endpoint models: `envOk` discharged

`DevEp` closes the loop that `DevCyc` leaves open: the endpoint side of every cycle is no longer an input but is
computed by the cycle-level endpoint models, wired as `USBDevice.add_endpoint` / `USBEndpointMultiplexer` /
`USBStreamInEndpoint` / `USBStreamOutEndpoint` / `USBSignalInEndpoint` wire them:

    packet layer (DevCyc)  --tokenizer, rx stream + strobes, tx.ready-->  endpoints
    endpoints              --EndpointInterface-->  EpMux.outOf  --handshakes_out, tx, tx_pid_toggle-->  packet layer

Modelled endpoints: one bulk IN endpoint (`InXfer`, C11), one bulk OUT endpoint (`StreamOutEndpoint`, C13), one status
endpoint (`SignalIn`, C17).  Everything else that sits on the multiplexer — the control endpoint with its setup decoder
and request handlers, further endpoints — is the REST slot: what it drives is an input of every cycle (`Ext.rest`), and
the theorems assume that it keeps the slot contract with respect to the pulses that are not addressed to one of the
three modelled endpoints (`restHolds`).  The host's handshakes (`handshakes_in`, from the handshake detector), the user
side of the endpoints' streams and the device address are free inputs.
-/
namespace LunaVerif.DevEp
open LunaVerif LunaVerif.DevCyc LunaVerif.DevCyc.Abs LunaVerif.C20Ctr

structure Config where
  dev  : DevCyc.Config
  inx  : InXfer.Config                 -- bulk IN: max packet size
  epIn : Nat                           --          endpoint number
  out  : StreamOutEndpoint.Config      -- bulk OUT (endpoint number, max packet size, FIFO depth)
  sig  : SignalIn.Config               -- status endpoint (width, endianness, endpoint number)

/-- Inputs of one cycle of the closed device. -/
structure Ext where
  rx        : Utmi.RxCycle
  txReady   : Bool
  address   : Nat
  rsValid   : Bool                     -- reset sequencer's transmitter
  rsData    : Nat
  hsAck     : Bool                     -- handshakes_in.ack (handshake detector)
  -- user side of the bulk IN endpoint
  inValid   : Bool
  inPayload : Nat
  inLast    : Bool
  inFlush   : Bool
  inDiscard : Bool
  -- user side of the bulk OUT endpoint / the status endpoint
  outReady  : Bool
  signal    : Nat
  -- the rest slot (control endpoint, further endpoints): its `EndpointInterface` outputs
  rest      : EpMux.Drv
  restTimer : Bool                     -- timer.start
  restCrc   : Bool                     -- data_crc.start

structure State where
  dev  : DevCyc.State
  inx  : InXfer.State
  out  : StreamOutEndpoint.State
  sig  : SignalIn.State
  past : EpMux.State                   -- the multiplexer's `past_valid` bits

def init (c : Config) : State :=
  ⟨DevCyc.init, InXfer.init c.inx, StreamOutEndpoint.init, SignalIn.init, EpMux.init 4⟩

/-- The packet layer's inputs without the endpoint side. -/
def baseIn (x : Ext) : DevCyc.In :=
  { rx := x.rx, txReady := x.txReady, address := x.address, ack := false, nak := false, stall := false,
    sValid := false, sFirst := false, sLast := false, sPayload := 0, pidToggle := 0, timerStart := false,
    crcStart := false, rsValid := x.rsValid, rsData := x.rsData }

/-- What the packet layer shows the endpoints in this cycle (none of it depends on what they drive: `fwd_indep`). -/
def fwd (c : Config) (S : State) (x : Ext) : DevCyc.Out := (DevCyc.step c.dev S.dev (baseIn x)).2

/-! ### Endpoint wiring -/

def inIn (c : Config) (x : Ext) (o : DevCyc.Out) : InXfer.In :=
  { active := o.tok.regs.endpoint == c.epIn, isIn := o.tok.isIn, rfr := o.tok.readyForResponse,
    newToken := o.tok.regs.newToken, ack := x.hsAck, sValid := x.inValid, sPayload := x.inPayload, sLast := x.inLast,
    flush := x.inFlush, discard := x.inDiscard, genZlps := true,
    resetSeq := x.rest.chEnable && x.rest.chDir && x.rest.chNum == c.epIn, startData1 := false,
    txReady := o.streamReady }

def outIn (c : Config) (x : Ext) (o : DevCyc.Out) : StreamOutEndpoint.In :=
  { rx := { valid := o.rxo.streamValid, next := o.rxo.streamNext, payload := o.rxo.payload,
            completeIn := o.rxo.packetComplete, invalidIn := o.rxo.crcMismatch }
    rxReady := o.rxo.ready, pidToggle := o.rxo.activePid / 8 % 2, tokEp := o.tok.regs.endpoint,
    tokIsOut := o.tok.isOut, tokIsPing := o.tok.isPing, tokReady := o.tok.readyForResponse,
    tokNew := o.tok.regs.newToken,
    clearHalt := x.rest.chEnable && !x.rest.chDir && x.rest.chNum == c.out.epNum, ready := x.outReady }

def sigIn (c : Config) (x : Ext) (o : DevCyc.Out) : SignalIn.In :=
  { endpoint := o.tok.regs.endpoint, isIn := o.tok.isIn, rfr := o.tok.readyForResponse,
    newToken := o.tok.regs.newToken, ack := x.hsAck, txReady := o.streamReady, signal := x.signal,
    clearHalt := x.rest.chEnable && x.rest.chDir && x.rest.chNum == c.sig.epNum }

def inDrv (o : InXfer.Out) : EpMux.Drv :=
  { valid := o.valid, first := o.first, last := o.last, payload := o.payload, pid := if o.pid then 1 else 0,
    nak := o.nak }

def outDrv (o : StreamOutEndpoint.Out) : EpMux.Drv := { ack := o.ack, nak := o.nak }

def sigDrv (o : SignalIn.Out) : EpMux.Drv :=
  { valid := o.valid, first := o.first, last := o.last, payload := o.payload, pid := if o.toggle then 1 else 0 }

/-- The four `EndpointInterface`s on the multiplexer. -/
def drvs (c : Config) (S : State) (x : Ext) : List EpMux.Drv :=
  let o := fwd c S x
  [x.rest, inDrv (InXfer.step c.inx S.inx (inIn c x o)).2, outDrv (StreamOutEndpoint.step c.out S.out (outIn c x o)).2,
   sigDrv (SignalIn.step c.sig S.sig (sigIn c x o)).2]

/-- The packet layer's inputs of the cycle: the endpoint side comes from the multiplexer (`timer.start` and
`data_crc.start` are OR-joined in the source; only the rest slot drives them). -/
def fullIn (c : Config) (S : State) (x : Ext) : DevCyc.In :=
  let m := EpMux.outOf S.past (drvs c S x)
  { rx := x.rx, txReady := x.txReady, address := x.address, ack := m.ack, nak := m.nak, stall := m.stall,
    sValid := m.valid, sFirst := m.first, sLast := m.last, sPayload := m.payload, pidToggle := m.pid,
    timerStart := x.restTimer, crcStart := x.restCrc, rsValid := x.rsValid, rsData := x.rsData }

def step (c : Config) (S : State) (x : Ext) : State × DevCyc.Out :=
  let o := fwd c S x
  let r := DevCyc.step c.dev S.dev (fullIn c S x)
  ({ dev := r.1
     inx := (InXfer.step c.inx S.inx (inIn c x o)).1
     out := (StreamOutEndpoint.step c.out S.out (outIn c x o)).1
     sig := (SignalIn.step c.sig S.sig (sigIn c x o)).1
     past := (EpMux.step S.past (drvs c S x)).1 }, r.2)

def run (c : Config) : State → List Ext → List DevCyc.Out
  | _, [] => []
  | S, x :: xs => (step c S x).2 :: run c (step c S x).1 xs

/-- The inputs the packet layer sees along the closed run. -/
def devIns (c : Config) : State → List Ext → List DevCyc.In
  | _, [] => []
  | S, x :: xs => fullIn c S x :: devIns c (step c S x).1 xs

theorem run_eq (c : Config) (S : State) (xs : List Ext) : run c S xs = DevCyc.run c.dev S.dev (devIns c S xs) := by
  induction xs generalizing S with
  | nil => rfl
  | cons x xs ih => simp only [run, devIns, DevCyc.run, ih]; rfl


/-! ### What the endpoints see does not depend on what they drive -/

theorem fwd_tok (c : Config) (S : State) (x : Ext) :
    (DevCyc.step c.dev S.dev (fullIn c S x)).2.tok = (fwd c S x).tok := rfl

theorem fwd_rxo (c : Config) (S : State) (x : Ext) :
    (DevCyc.step c.dev S.dev (fullIn c S x)).2.rxo = (fwd c S x).rxo := rfl

theorem fwd_ready (c : Config) (S : State) (x : Ext) :
    (fwd c S x).streamReady = rdyOf S.dev (fullIn c S x) := by
  simp only [fwd, rdyOf_eq]; rfl

theorem fwd_pulse (c : Config) (S : State) (x : Ext) :
    pulse (DevCyc.step c.dev S.dev (fullIn c S x)).2 = pulse (fwd c S x) := rfl

/-! ### The four slots -/

structure Phs where
  r : Ph
  i : Ph
  o : Ph
  s : Ph
deriving Repr

def restSig (x : Ext) : Sig :=
  { hs := x.rest.ack || x.rest.nak || x.rest.stall, valid := x.rest.valid, first := x.rest.first,
    last := x.rest.last, tstart := x.restTimer }

def pulI (c : Config) (S : State) (x : Ext) : Bool := InXfer.inTok (inIn c x (fwd c S x))
def pulO (c : Config) (S : State) (x : Ext) : Bool := Out2.pul c.out S.out (outIn c x (fwd c S x))
def pulS (c : Config) (S : State) (x : Ext) : Bool := SignalIn.packetRequested c.sig (sigIn c x (fwd c S x))
/-- The rest slot may answer every pulse that is not addressed to one of the three modelled endpoints. -/
def pulR (c : Config) (S : State) (x : Ext) : Bool :=
  pulse (fwd c S x) && !(pulI c S x || pulO c S x || pulS c S x)

def slots (c : Config) (S : State) (x : Ext) (q : Phs) : List Slot :=
  let o := fwd c S x
  [⟨q.r, pulR c S x, restSig x⟩,
   ⟨q.i, pulI c S x, In.sig (InXfer.step c.inx S.inx (inIn c x o)).2⟩,
   ⟨q.o, pulO c S x, Out2.sig (StreamOutEndpoint.step c.out S.out (outIn c x o)).2⟩,
   ⟨q.s, pulS c S x, Sig3.sig (SignalIn.step c.sig S.sig (sigIn c x o)).2⟩]

def nextPhs (L : Nat) (c : Config) (S : State) (x : Ext) (q : Phs) : Phs :=
  let o := fwd c S x
  { r := cnext L q.r (pulR c S x) o.streamReady (restSig x)
    i := cnext L q.i (pulI c S x) o.streamReady (In.sig (InXfer.step c.inx S.inx (inIn c x o)).2)
    o := cnext L q.o (pulO c S x) o.streamReady (Out2.sig (StreamOutEndpoint.step c.out S.out (outIn c x o)).2)
    s := cnext L q.s (pulS c S x) o.streamReady (Sig3.sig (SignalIn.step c.sig S.sig (sigIn c x o)).2) }

/-- The multiplexer's OR is the merged slot. -/
theorem sig_eq (c : Config) (S : State) (x : Ext) (q : Phs) : orSigs (slots c S x q) = sigOf (fullIn c S x) := by
  simp only [slots, orSigs, orSig, silent, sigOf, fullIn, hsReq, EpMux.outOf, drvs, List.any, inDrv, outDrv, sigDrv,
    In.sig, Out2.sig, Sig3.sig, restSig, Sig.mk.injEq, Bool.or_false, Bool.false_or]
  refine ⟨?_, ?_, ?_, ?_, ?_⟩ <;> simp only [Bool.or_assoc, Bool.or_comm, Bool.or_left_comm]

theorem pul_pulse (c : Config) (S : State) (x : Ext) (q : Phs) (h : (slots c S x q).any (·.pul) = true) :
    pulse (fwd c S x) = true := by
  simp only [slots, List.any, Bool.or_false, Bool.or_eq_true] at h
  rcases h with h | h | h | h
  · simp only [pulR, Bool.and_eq_true] at h; exact h.1
  · simp only [pulI, InXfer.inTok, inIn, Bool.and_eq_true] at h
    simp [pulse, h.1.2, h.2]
  · simp only [pulO, Out2.pul, StreamOutEndpoint.comb, outIn, Bool.or_eq_true, Bool.and_eq_true] at h
    rcases h with h | h
    · simp [pulse, h.2]
    · simp [pulse, h.1.2, h.2]
  · simp only [pulS, SignalIn.packetRequested, sigIn, Bool.and_eq_true] at h
    simp [pulse, h.1.2, h.2]

/-- At most one slot is addressed: an IN token names one endpoint; OUT / PING tokens are not IN tokens. -/
theorem pul_excl (c : Config) (hne : c.epIn ≠ c.sig.epNum) (S : State) (x : Ext) (q : Phs) :
    exclPul (slots c S x q) = true := by
  simp only [slots, exclPul, List.any, Bool.or_false, Bool.and_false, Bool.not_false, Bool.and_true, Bool.and_eq_true,
    Bool.not_eq_eq_eq_not, Bool.not_true]
  have hio : (pulI c S x && pulO c S x) = false := by
    simp only [pulI, pulO, InXfer.inTok, inIn, Out2.pul, StreamOutEndpoint.comb, outIn, fwd, DevCyc.step,
      TokenDetector.step]
    generalize S.dev.tok.tok.regs.pid = pid
    by_cases h9 : pid = 9 <;> simp [h9]
  have his : (pulI c S x && pulS c S x) = false := by
    simp only [pulI, pulS, InXfer.inTok, inIn, SignalIn.packetRequested, sigIn]
    by_cases h1 : (fwd c S x).tok.regs.endpoint = c.epIn
    · have h2 : ((fwd c S x).tok.regs.endpoint == c.sig.epNum) = false := by simp [h1, hne]
      simp [h2]
    · simp [h1]
  have hos : (pulO c S x && pulS c S x) = false := by
    simp only [pulO, pulS, SignalIn.packetRequested, sigIn, Out2.pul, StreamOutEndpoint.comb, outIn, fwd, DevCyc.step,
      TokenDetector.step]
    generalize S.dev.tok.tok.regs.pid = pid
    by_cases h9 : pid = 9 <;> simp [h9]
  refine ⟨?_, ?_, ?_⟩
  · simp only [pulR]
    cases pulse (fwd c S x) <;> cases pulI c S x <;> cases pulO c S x <;> cases pulS c S x <;> rfl
  · revert hio his
    cases pulI c S x <;> cases pulO c S x <;> cases pulS c S x <;> simp
  · exact hos


/-! ### The invariant of the closed device -/

structure Good (c : Config) (p : Params) (S : State) (g : Ghost) (q : Phs) : Prop where
  inv  : Inv (delayOf c.dev.tok.timer c.dev.speed) p (skel S.dev) g
  link : Link S.dev g (orPh q.r (orPh q.i (orPh q.o (orPh q.s .idle))))
  excl : (q.r = .idle ∨ (q.i = .idle ∧ q.o = .idle ∧ q.s = .idle)) ∧ (q.i = .idle ∨ (q.o = .idle ∧ q.s = .idle)) ∧
         (q.o = .idle ∨ q.s = .idle)
  rin  : In.R S.inx q.i
  rout : q.o ≠ .sending
  rsig : Sig3.R S.sig q.s

def phs0 : Phs := ⟨.idle, .idle, .idle, .idle⟩

theorem good_init (c : Config) (p : Params) : Good c p (init c) ghostInit phs0 := by
  refine ⟨?_, ?_, ?_, ?_, ?_, ?_⟩
  · show Inv _ p (skel DevCyc.init) ghostInit
    rw [skel_init]; exact inv_init _ _
  · show Link DevCyc.init ghostInit _
    simpa [phs0, orPh] using link_init
  · simp [phs0]
  · simp [In.R, phs0, init, InXfer.init]
  · simp [phs0]
  · simp [Sig3.R, phs0, init, SignalIn.init]

theorem orPhs_slots (c : Config) (S : State) (x : Ext) (q : Phs) :
    orPhs (slots c S x q) = orPh q.r (orPh q.i (orPh q.o (orPh q.s .idle))) := rfl

theorem excl_slots (c : Config) (S : State) (x : Ext) (q : Phs) :
    Excl (slots c S x q) ↔
      ((q.r = .idle ∨ (q.i = .idle ∧ q.o = .idle ∧ q.s = .idle)) ∧ (q.i = .idle ∨ (q.o = .idle ∧ q.s = .idle)) ∧
         (q.o = .idle ∨ q.s = .idle)) := by
  simp [slots, Excl, allIdle]

theorem next_slots (c : Config) (S : State) (x : Ext) (q : Phs) (L : Nat) :
    nextSlots L (fwd c S x).streamReady (slots c S x q) = slots c S x (nextPhs L c S x q) := rfl

/-- One cycle of the closed device: the endpoint side satisfies `envOk`, and the invariant is kept. -/
theorem good_step (c : Config) (p : Params) (hs : strobes c.dev.tok.timer c.dev.speed = true)
    (hT : delayOf c.dev.tok.timer c.dev.speed + p.L + 2 < p.T) (hne : c.epIn ≠ c.sig.epNum)
    {S : State} {g : Ghost} {q : Phs} {x : Ext} (hg : Good c p S g q)
    (hh : hostOk g (fullIn c S x) = true) (hrs : x.rsValid = false)
    (hr : (cstep p.L q.r (pulR c S x) (fwd c S x).streamReady g.a1 g.a2 (restSig x)).1 = true) :
    envOk g S.dev (fullIn c S x) (step c S x).2 = true ∧
    Good c p (step c S x).1 (ghostNext p g S.dev (fullIn c S x) (step c S x).2) (nextPhs p.L c S x q) := by
  have hstep : (step c S x).2 = (DevCyc.step c.dev S.dev (fullIn c S x)).2 := rfl
  have hdev : (step c S x).1.dev = (DevCyc.step c.dev S.dev (fullIn c S x)).1 := rfl
  rw [hstep]
  -- every slot keeps the contract in this cycle
  have hin := In.step_ok p.L c.inx S.inx (inIn c x (fwd c S x)) q.i g.a1 g.a2 hg.rin
  have hout := Out2.step_ok p.L c.out S.out (outIn c x (fwd c S x)) q.o (fwd c S x).streamReady g.a1 g.a2 hg.rout
  have hsig := Sig3.step_ok p.L c.sig S.sig (sigIn c x (fwd c S x)) q.s g.a1 g.a2 hg.rsig
  have hok : ∀ y ∈ slots c S x q, (cstep p.L y.ph y.pul (fwd c S x).streamReady g.a1 g.a2 y.d).1 = true := by
    intro y hy
    simp only [slots, List.mem_cons, List.not_mem_nil, or_false] at hy
    rcases hy with rfl | rfl | rfl | rfl
    · exact hr
    · exact hin.1
    · exact hout.1
    · exact hsig.1
  -- a pulse finds every slot idle
  obtain ⟨m1, m2, m3⟩ := mode_facts hg.inv.mode
  rw [← pulse_eq c.dev hs S.dev (fullIn c S x), fwd_pulse] at m1 m2 m3
  have hq : (slots c S x q).any (·.pul) = true → allIdle (slots c S x q) := by
    intro h
    have hp := pul_pulse c S x q h
    apply orPhs_idle.mp
    rw [orPhs_slots]
    have hl := hg.link
    generalize orPh q.r (orPh q.i (orPh q.o (orPh q.s .idle))) = ph at hl ⊢
    cases ph with
    | idle => rfl
    | armed j => have := hl.armed j rfl; simp [m3 hp] at this
    | sending =>
      have hb := hl.send.mp rfl
      have hne : (skel S.dev).gf ≠ .idle := by
        show S.dev.gen.fsm ≠ .idle
        rcases hb with ⟨h1, _⟩ | h1 <;> simp [h1]
      have := (m1 hne).1
      simp [hp] at this
  obtain ⟨hm1, hm2⟩ := mergeAll_ok (L := p.L) (rdy := (fwd c S x).streamReady) (a1 := g.a1) (a2 := g.a2)
    (slots c S x q) ((excl_slots c S x q).mpr hg.excl) (pul_excl c hne S x q) hq hok
  rw [orPhs_slots, sig_eq, next_slots, orPhs_slots, fwd_ready] at hm1
  rw [next_slots] at hm2
  have hpul : (slots c S x q).any (·.pul) = true → pulse (DevCyc.step c.dev S.dev (fullIn c S x)).2 = true := by
    intro h; rw [fwd_pulse]; exact pul_pulse c S x q h
  have hk : (cstep p.L (orPh q.r (orPh q.i (orPh q.o (orPh q.s .idle)))) ((slots c S x q).any (·.pul))
      (rdyOf S.dev (fullIn c S x)) g.a1 g.a2 (sigOf (fullIn c S x))).1 = true := by rw [hm1]
  have hrs' : (fullIn c S x).rsValid = false := hrs
  have he := slot_envOk c.dev p hg.link hrs' hpul hk
  have hl' := slot_link c.dev p hs hg.inv hg.link hpul hk
  rw [hm1] at hl'
  refine ⟨he, ?_, ?_, ?_, ?_, ?_, ?_⟩
  · rw [hdev, skel_step c.dev hs, ghost_eq c.dev hs]
    rw [hostOk_eq c.dev g S.dev] at hh
    rw [envOk_eq c.dev hs] at he
    exact inv_step hg.inv (skelIn_ok c.dev S.dev _) hh he (delay_le_max _ _ hs) hT
  · rw [hdev]; exact hl'
  · exact (excl_slots c S x _).mp hm2
  · have := hin.2; rw [cstep_noT rfl] at this; exact this
  · have := hout.2; rw [cstep_noT rfl] at this; exact this
  · have := hsig.2; rw [cstep_noT rfl] at this; exact this


/-! ### Along a history -/

/-- What is still ASSUMED about the endpoint side: the rest slot (control endpoint, …) keeps the slot contract with
respect to the pulses not addressed to the three modelled endpoints, and the reset sequencer does not transmit. -/
def restHolds (c : Config) (p : Params) : State → Ghost → Phs → List Ext → Bool
  | _, _, _, [] => true
  | S, g, q, x :: xs =>
    (cstep p.L q.r (pulR c S x) (fwd c S x).streamReady g.a1 g.a2 (restSig x)).1 && !x.rsValid &&
      restHolds c p (step c S x).1 (ghostNext p g S.dev (fullIn c S x) (step c S x).2) (nextPhs p.L c S x q) xs

theorem assumptions_of_good (c : Config) (p : Params) (hs : strobes c.dev.tok.timer c.dev.speed = true)
    (hT : delayOf c.dev.tok.timer c.dev.speed + p.L + 2 < p.T) (hne : c.epIn ≠ c.sig.epNum)
    (xs : List Ext) (S : State) (g : Ghost) (q : Phs) (hg : Good c p S g q)
    (hh : hostHolds c.dev p S.dev g (devIns c S xs) = true) (hr : restHolds c p S g q xs = true) :
    assumptionsHold c.dev p S.dev g (devIns c S xs) = true := by
  induction xs generalizing S g q with
  | nil => rfl
  | cons x xs ih =>
    simp only [devIns, hostHolds, restHolds, Bool.and_eq_true, Bool.not_eq_eq_eq_not, Bool.not_true] at hh hr
    obtain ⟨hh1, hh2⟩ := hh
    obtain ⟨⟨hr1, hrs⟩, hr2⟩ := hr
    obtain ⟨he, hg'⟩ := good_step c p hs hT hne hg hh1 hrs hr1
    simp only [devIns, assumptionsHold, Bool.and_eq_true]
    exact ⟨⟨hh1, he⟩, ih _ _ _ hg' hh2 hr2⟩

/-- **`envOk` discharged for the real endpoints.**  For the packet layer closed with the bulk IN, bulk OUT and status
endpoint models through the endpoint multiplexer, both assumptions of the cycle-level theorems (`hostOk ∧ envOk` in
every cycle) follow from the host assumption and the rest slot's contract alone. -/
theorem envOk_of_endpoints (c : Config) (p : Params) (hs : strobes c.dev.tok.timer c.dev.speed = true)
    (hT : delayOf c.dev.tok.timer c.dev.speed + p.L + 2 < p.T) (hne : c.epIn ≠ c.sig.epNum) (xs : List Ext)
    (hh : hostHolds c.dev p DevCyc.init ghostInit (devIns c (init c) xs) = true)
    (hr : restHolds c p (init c) ghostInit phs0 xs = true) :
    assumptionsHold c.dev p DevCyc.init ghostInit (devIns c (init c) xs) = true :=
  assumptions_of_good c p hs hT hne xs (init c) ghostInit phs0 (good_init c p) hh hr

/-- The closed device never transmits while a received packet is in progress. -/
theorem closed_tx_never_during_rx (c : Config) (p : Params) (hs : strobes c.dev.tok.timer c.dev.speed = true)
    (hT : delayOf c.dev.tok.timer c.dev.speed + p.L + 2 < p.T) (hne : c.epIn ≠ c.sig.epNum) (xs : List Ext)
    (hh : hostHolds c.dev p DevCyc.init ghostInit (devIns c (init c) xs) = true)
    (hr : restHolds c p (init c) ghostInit phs0 xs = true) :
    ∀ o ∈ run c (init c) xs, o.txValid = true → o.rxActive = false := by
  rw [run_eq]
  exact tx_never_during_rx c.dev p hs hT _ (envOk_of_endpoints c p hs hT hne xs hh hr)

/-- In the closed device the handshake generator and the data packet generator are never valid together. -/
theorem closed_transmitters_exclusive (c : Config) (p : Params) (hs : strobes c.dev.tok.timer c.dev.speed = true)
    (hT : delayOf c.dev.tok.timer c.dev.speed + p.L + 2 < p.T) (hne : c.epIn ≠ c.sig.epNum) (xs : List Ext)
    (hh : hostHolds c.dev p DevCyc.init ghostInit (devIns c (init c) xs) = true)
    (hr : restHolds c p (init c) ghostInit phs0 xs = true) :
    ∀ o ∈ run c (init c) xs, ¬ (o.hsValid = true ∧ o.genValid = true) := by
  rw [run_eq]
  exact transmitters_exclusive c.dev p hs hT _ (envOk_of_endpoints c p hs hT hne xs hh hr)

/-- In the closed device every cycle with `tx_valid` lies inside a response window. -/
theorem closed_tx_only_in_response_window (c : Config) (p : Params)
    (hs : strobes c.dev.tok.timer c.dev.speed = true)
    (hT : delayOf c.dev.tok.timer c.dev.speed + p.L + 2 < p.T) (hne : c.epIn ≠ c.sig.epNum) (xs : List Ext)
    (hh : hostHolds c.dev p DevCyc.init ghostInit (devIns c (init c) xs) = true)
    (hr : restHolds c p (init c) ghostInit phs0 xs = true) :
    ∀ go ∈ traceG c.dev p DevCyc.init ghostInit (devIns c (init c) xs), go.2.txValid = true → go.1.win ≠ .closed :=
  tx_only_in_response_window c.dev p hs hT _ (envOk_of_endpoints c p hs hT hne xs hh hr)

/-! ### Non-vacuity: histories that satisfy the hypotheses and in which the endpoints really answer -/

/-- 12 MHz full-speed device; bulk IN endpoint 1 (8-byte packets), bulk OUT endpoint 2, status endpoint 3 (8 bits). -/
def exCfg : Config := ⟨DevCyc.exCfg, ⟨8⟩, 1, ⟨2, 8, 16⟩, ⟨8, false, 3⟩⟩

def quiet : Ext :=
  { rx := ⟨false, false, 0⟩, txReady := true, address := 0, rsValid := false, rsData := 0, hsAck := false,
    inValid := false, inPayload := 0, inLast := false, inFlush := false, inDiscard := false, outReady := false,
    signal := 0x5A, rest := {}, restTimer := false, restCrc := false }

def rxE (r : Utmi.RxCycle) : Ext := { quiet with rx := r }

/-- IN token for endpoint 1 (69 80 A0) while the bulk IN endpoint has no data: it answers NAK. -/
def exInNak : List Ext :=
  [rxE (Utmi.waitC 0), rxE (Utmi.byteC 0x69), rxE (Utmi.byteC 0x80), rxE (Utmi.byteC 0xA0)] ++ List.replicate 10 quiet

/-- IN token for endpoint 3 (69 80 89): the status endpoint sends its one-byte packet DATA0 5A + CRC16. -/
def exStatus : List Ext :=
  [rxE (Utmi.waitC 0), rxE (Utmi.byteC 0x69), rxE (Utmi.byteC 0x80), rxE (Utmi.byteC 0x89)] ++ List.replicate 14 quiet

example : exCfg.epIn ≠ exCfg.sig.epNum := by decide

example : hostHolds exCfg.dev exPar DevCyc.init ghostInit (devIns exCfg (init exCfg) exInNak) = true ∧
    restHolds exCfg exPar (init exCfg) ghostInit phs0 exInNak = true := by decide +kernel

example : (run exCfg (init exCfg) exInNak).map (fun o => (o.txValid, o.txData)) =
    List.replicate 8 (false, 0) ++ [(true, 0x5A)] ++ List.replicate 5 (false, 0) := by decide +kernel

example : hostHolds exCfg.dev exPar DevCyc.init ghostInit (devIns exCfg (init exCfg) exStatus) = true ∧
    restHolds exCfg exPar (init exCfg) ghostInit phs0 exStatus = true := by decide +kernel

example : (run exCfg (init exCfg) exStatus).map (fun o => (o.txValid, o.txData)) =
    List.replicate 9 (false, 0) ++ [(true, 0xC3), (true, 0x5A), (true, 0xC0), (true, 0x84)] ++
      List.replicate 5 (false, 0) := by decide +kernel

/-- OUT token for endpoint 2 (E1 00 39), DATA0 11 22 + CRC16 (C3 11 22 72 06): the bulk OUT endpoint answers ACK at the
receiver's `ready_for_response`. -/
def exOut : List Ext :=
  [rxE (Utmi.waitC 0), rxE (Utmi.byteC 0xE1), rxE (Utmi.byteC 0x00), rxE (Utmi.byteC 0x39), quiet, quiet,
   rxE (Utmi.waitC 0), rxE (Utmi.byteC 0xC3), rxE (Utmi.byteC 0x11), rxE (Utmi.byteC 0x22), rxE (Utmi.byteC 0x72),
   rxE (Utmi.byteC 0x06)] ++ List.replicate 10 quiet

example : hostHolds exCfg.dev exPar DevCyc.init ghostInit (devIns exCfg (init exCfg) exOut) = true ∧
    restHolds exCfg exPar (init exCfg) ghostInit phs0 exOut = true := by decide +kernel

example : ((run exCfg (init exCfg) exOut).map (fun o => (o.txValid, o.txData))).filter (·.1) = [(true, 0xD2)] := by
  decide +kernel

/-- The rest slot's contract is not redundant: a rest slot that requests a handshake out of the blue makes the device
transmit outside every response window. -/
def exRogue : List Ext := [quiet, { quiet with rest := { stall := true } }, quiet, quiet]

example : restHolds exCfg exPar (init exCfg) ghostInit phs0 exRogue = false ∧
    (run exCfg (init exCfg) exRogue).any (·.txValid) = true := by decide +kernel

end LunaVerif.DevEp
