import LunaVerif.Model.Usb3.HeaderRx
/-!
Helper lemmas about the `HeaderRx` model shared by C37 and C38: register-wise projections of `step`
(all by `rfl`), the buffer array, and the *ghost* record of what an outside observer has seen so far
(headers written to the buffers, headers handed to the protocol layer, link commands completed on the
wire).
-/
namespace LunaVerif.HeaderRx

theorem Bufs.get_set (b : Bufs) (k j : Nat) (h : Hdr) :
    (b.set k h).get j = if j % 4 = k % 4 then h else b.get j := by
  unfold Bufs.get Bufs.set
  have := Nat.mod_lt k (by decide : 4 > 0)
  have := Nat.mod_lt j (by decide : 4 > 0)
  grind

theorem Bufs.get_mod (b : Bufs) (k : Nat) : b.get (k % 4) = b.get k := by
  unfold Bufs.get; simp

section proj
variable (c : Config) (s : State) (i : In)
theorem step_rx : (step c s i).1.rx = RawRx.step s.rx i.sink s.expSeq := rfl
theorem step_expSeq : (step c s i).1.expSeq =
    if resetNow c s i && i.usbReset then 0 else if resetNow c s i && c.fix then s.expSeq else if accept s then (s.expSeq + 1) % 8 else s.expSeq := rfl
theorem step_nextCredit : (step c s i).1.nextCredit =
    if resetNow c s i then 0 else if lcrdDone s i then (s.nextCredit + 1) % 4 else s.nextCredit := rfl
theorem step_nextAck : (step c s i).1.nextAck =
    if resetNow c s i then (if i.usbReset then 7 else if c.fix then (s.expSeq + 7) % 8 else (s.nextAck + 7) % 8)
    else if lgoodDone s i then (s.nextAck + 1) % 8 else s.nextAck := rfl
theorem step_acks : (step c s i).1.acks =
    if resetNow c s i then 1 else updown s.acks (accept s) (lgoodDone s i) := rfl
theorem step_cti : (step c s i).1.cti =
    if resetNow c s i then 4 else updown s.cti (pop s i) (lcrdDone s i) := rfl
theorem step_bf : (step c s i).1.bf =
    if resetNow c s i then 0 else updown s.bf (accept s) (pop s i) := rfl
theorem step_rp : (step c s i).1.rp =
    if resetNow c s i then 0 else if pop s i then (s.rp + 1) % 4 else s.rp := rfl
theorem step_wp : (step c s i).1.wp =
    if resetNow c s i then 0 else if accept s then (s.wp + 1) % 4 else s.wp := rfl
theorem step_bufs : (step c s i).1.bufs =
    if accept s then s.bufs.set s.wp s.rx.outPkt else s.bufs := rfl
theorem step_lbad : (step c s i).1.lbad =
    if resetNow c s i then false else if s.fsm == .sendLbad && done s i then false
    else if badEv s then true else s.lbad := rfl
theorem step_lrty : (step c s i).1.lrty =
    if resetNow c s i then false else if s.fsm == .sendLrty && done s i then false
    else if i.retryRequired then true else s.lrty := rfl
theorem step_keepalive : (step c s i).1.keepalive =
    if resetNow c s i then false else if s.fsm == .sendKeepalive && done s i then false
    else if i.keepaliveRequired then true else s.keepalive := rfl
theorem step_lastEnable : (step c s i).1.lastEnable = i.enable := rfl
theorem step_ignore : (step c s i).1.ignore =
    if resetNow c s i then false else if i.retryReceived then false
    else if badEv s then true else s.ignore := rfl
theorem step_fsm : (step c s i).1.fsm = fsmNext c s i := rfl
theorem step_gen : (step c s i).1.gen = if c.abort && resetCond s i then .idle else genNext s i := rfl
theorem step_gCmd : (step c s i).1.gCmd =
    if c.abort && resetCond s i then 0 else if s.gen == .idle && generate s then genCmd c s else s.gCmd := rfl
theorem step_gSub : (step c s i).1.gSub =
    if c.abort && resetCond s i then 0 else if s.gen == .idle && generate s then genSub s % 16 else s.gSub := rfl
end proj

/-- What an observer of the ports has seen so far. -/
structure Ghost where
  accepted  : List Hdr   -- headers written into a buffer, oldest first
  delivered : List Hdr   -- headers taken by the protocol layer (queue.valid & queue.ready), oldest first
  lgoods    : List Nat   -- subtypes of the LGOOD commands completed on the wire
  lcrds     : List Nat   -- subtypes of the LCRD commands completed on the wire
  lbads     : Nat        -- number of LBAD commands completed on the wire
  bads      : Nat        -- number of corrupted headers noticed (bad CRC while not ignoring)
deriving Repr

def Ghost.init : Ghost := ⟨[], [], [], [], 0, 0⟩

/-- the generator completes a command of kind `cmd` on the wire in this cycle -/
def wire (s : State) (i : In) (cmd : Nat) : Bool := done s i && s.gCmd == cmd

def ghostStep (s : State) (i : In) (g : Ghost) : Ghost :=
  { accepted  := if accept s then g.accepted ++ [s.rx.outPkt] else g.accepted
    delivered := if pop s i then g.delivered ++ [s.bufs.get s.rp] else g.delivered
    lgoods    := if wire s i LGOOD then g.lgoods ++ [s.gSub] else g.lgoods
    lcrds     := if wire s i LCRD then g.lcrds ++ [s.gSub] else g.lcrds
    lbads     := if wire s i LBAD then g.lbads + 1 else g.lbads
    bads      := if badEv s then g.bads + 1 else g.bads }

/-- state and ghost after a whole input history -/
def runG (c : Config) : State → Ghost → List In → State × Ghost
  | s, g, [] => (s, g)
  | s, g, i :: is => runG c (step c s i).1 (ghostStep s i g) is

/-- `bf` buffers starting at index `rp`, oldest first. -/
def bufQ (b : Bufs) (rp bf : Nat) : List Hdr := (List.range bf).map (fun k => b.get (rp + k))

theorem bufQ_pop (b : Bufs) (rp bf : Nat) (h1 : 1 ≤ bf) (h4 : bf ≤ 4) (hr : rp < 4) :
    bufQ b rp bf = b.get rp :: bufQ b ((rp + 1) % 4) (bf - 1) := by
  have hr' : rp = 0 ∨ rp = 1 ∨ rp = 2 ∨ rp = 3 := by omega
  have hb' : bf = 1 ∨ bf = 2 ∨ bf = 3 ∨ bf = 4 := by omega
  rcases hr' with rfl | rfl | rfl | rfl <;> rcases hb' with rfl | rfl | rfl | rfl <;>
    simp [bufQ, List.range_succ, Bufs.get]

theorem bufQ_push (b : Bufs) (rp bf : Nat) (x : Hdr) (h3 : bf ≤ 3) (hr : rp < 4) :
    bufQ (b.set ((rp + bf) % 4) x) rp (bf + 1) = bufQ b rp bf ++ [x] := by
  have hr' : rp = 0 ∨ rp = 1 ∨ rp = 2 ∨ rp = 3 := by omega
  have hb' : bf = 0 ∨ bf = 1 ∨ bf = 2 ∨ bf = 3 := by omega
  rcases hr' with rfl | rfl | rfl | rfl <;> rcases hb' with rfl | rfl | rfl | rfl <;>
    simp [bufQ, List.range_succ, Bufs.get, Bufs.set]

theorem bufQ_both (b : Bufs) (rp bf : Nat) (x : Hdr) (h1 : 1 ≤ bf) (h3 : bf ≤ 3) (hr : rp < 4) :
    b.get rp :: bufQ (b.set ((rp + bf) % 4) x) ((rp + 1) % 4) bf = bufQ b rp bf ++ [x] := by
  have hr' : rp = 0 ∨ rp = 1 ∨ rp = 2 ∨ rp = 3 := by omega
  have hb' : bf = 1 ∨ bf = 2 ∨ bf = 3 := by omega
  rcases hr' with rfl | rfl | rfl | rfl <;> rcases hb' with rfl | rfl | rfl <;>
    simp [bufQ, List.range_succ, Bufs.get, Bufs.set]

/-- The headers currently buffered, oldest first. -/
def absQueue (s : State) : List Hdr := bufQ s.bufs s.rp s.bf

end LunaVerif.HeaderRx
