import LunaVerif.Lemmas.C07Stream
/-!
# `cycle_refines_event` for the streaming handler states — part 2: the strobe cycles, for EVERY handler state
(see Lemmas/C07Stream.lean for the set-up).  These generalise the one-cycle lemmas of Lemmas/C07Refine.lean /
C07RefineEvents.lean: no `NoStream` hypothesis; instead the free inputs of the cycle obey "a streamer that has not
been started is silent" (`CalmH`), and every lemma also says that the cycle offers no first payload byte.
-/
namespace LunaVerif.CtrlCyc
open LunaVerif.Device

section
variable (c : Cfg) (s : CycState) (i : CycIn)
theorem step_txValid : (step c s i).2.txValid =
    (muxOut (stdStep c s.h (handlerIn i (ctrlComb c s.stage i))).2 (handlerIn i (ctrlComb c s.stage i))).txValid := rfl
theorem step_txFirst : (step c s i).2.txFirst =
    (muxOut (stdStep c s.h (handlerIn i (ctrlComb c s.stage i))).2 (handlerIn i (ctrlComb c s.stage i))).txFirst := rfl
theorem step_txLast : (step c s i).2.txLast =
    (muxOut (stdStep c s.h (handlerIn i (ctrlComb c s.stage i))).2 (handlerIn i (ctrlComb c s.stage i))).txLast := rfl
theorem step_txPayload : (step c s i).2.txPayload =
    (muxOut (stdStep c s.h (handlerIn i (ctrlComb c s.stage i))).2 (handlerIn i (ctrlComb c s.stage i))).txPayload := rfl
theorem step_txPidToggle : (step c s i).2.txPidToggle =
    if (muxOut (stdStep c s.h (handlerIn i (ctrlComb c s.stage i))).2 (handlerIn i (ctrlComb c s.stage i))).txDataPid
    then 1 else 0 := rfl
end

/-- One cycle `i`, started in a cycle-level state related to `d`, ends in a state related to `d'`, requests the
handshake / zero-length packet `r` (or nothing), offers no first payload byte, and drives the two register strobes
so that device.py's registers go from `d`'s to `d'`'s values. -/
def Sim1S (cyc : Cfg) (d d' : DevState) (i : CycIn) (r : Resp) : Prop :=
  ∀ cs, Rel d cs →
    Rel d' (step cyc cs i).1 ∧ outResp (step cyc cs i).2 = r ∧
    ((step cyc cs i).2.txValid && (step cyc cs i).2.txFirst) = false ∧
    (if (step cyc cs i).2.addressChanged then (step cyc cs i).2.newAddress else d.address) = d'.address ∧
    (if (step cyc cs i).2.configChanged then (step cyc cs i).2.newConfig else d.config) = d'.config

theorem Sim1S.sim1 {cyc : Cfg} {d d' : DevState} {i : CycIn} {r : Resp} (h : Sim1S cyc d d' i r) : Sim1 cyc d d' i r :=
  fun cs hr => ⟨(h cs hr).1, (h cs hr).2.1, (h cs hr).2.2.2⟩

/-- What the handler-level lemmas deliver about one cycle of the handler with inputs `x`. -/
def HFacts (cyc : Cfg) (d d' : DevState) (x : HIn) (ping : Bool) (r : Resp) : Prop :=
  ∀ h, HRel d h →
    HRel d' (stdStep cyc h x).1 ∧
    (if ping = true then Resp.hs PID_ACK else hResp (muxOut (stdStep cyc h x).2 x)) = r ∧
    NoFirst (muxOut (stdStep cyc h x).2 x) ∧
    (if (muxOut (stdStep cyc h x).2 x).addressChanged then (muxOut (stdStep cyc h x).2 x).newAddress else d.address)
      = d'.address ∧
    (if (muxOut (stdStep cyc h x).2 x).configChanged then (muxOut (stdStep cyc h x).2 x).newConfig else d.config)
      = d'.config

/-- A cycle assembled from what the control endpoint's FSM drives and the handler-level facts. -/
theorem sim1s_core (cyc : Cfg) (d d' : DevState) (i : CycIn) (r : Resp) (x : HIn) (cc : CtrlComb)
    (hsd : i.sdAck = false)
    (hc : ∀ cs, Rel d cs → ctrlComb cyc cs.stage i = cc)
    (hn : ∀ cs, Rel d cs → ctrlNext cyc cs.stage i = d'.stage)
    (hi : handlerIn i cc = x)
    (hH : HFacts cyc d d' x cc.pingAck r) :
    Sim1S cyc d d' i r := by
  intro cs hr
  obtain ⟨q1, q2, q3, q4, q5⟩ := hH cs.h hr.h
  rw [step_outResp, step_addressChanged, step_configChanged, step_newAddress, step_newConfig, step_txValid, step_txFirst,
    hc cs hr, hi]
  refine ⟨⟨by rw [step_stage, hn cs hr], by rw [step_h, hc cs hr, hi]; exact q1⟩, ?_, q3, q4, q5⟩
  simpa [hsd] using q2

theorem hfacts_of_quiet {cyc : Cfg} {d d' : DevState} {x : HIn} {r : Resp}
    (h : ∀ hh, HRel d hh → HRel d' (stdStep cyc hh x).1 ∧ hResp (muxOut (stdStep cyc hh x).2 x) = r ∧
      HQuiet (muxOut (stdStep cyc hh x).2 x) ∧ NoFirst (muxOut (stdStep cyc hh x).2 x))
    (ha : d'.address = d.address) (hcf : d'.config = d.config) : HFacts cyc d d' x false r := by
  intro hh hr
  obtain ⟨q1, q2, q3, q4⟩ := h hh hr
  exact ⟨q1, by simpa using q2, q4, by simp [q3.1, ha], by simp [q3.2, hcf]⟩

/-- (K0) a cycle without strobes. -/
theorem sim_quiet_s (c : DevConfig) (d : DevState) (n : CycIn) (hcalm : CalmH d.hstate (noiseH n)) :
    Sim1S (cfgOf c) d d (envIn d n) .none := by
  refine sim1s_core _ d d _ _ (hin d (noiseH n) false false false) ⟨false, false, false, false⟩ rfl
    (fun cs _ => by simp [ctrlComb, envIn]) (fun cs hr => ?_) rfl
    (hfacts_of_quiet (fun hh hr => hs_quiet (cfgOf c) d hh (noiseH n) hr hcalm) rfl rfl)
  rw [← hr.stage]
  cases hs : cs.stage <;> simp [ctrlNext, envIn]

/-- (K1) the cycle in which the token detector strobes `new_token` for a token `(pid, ep)` of this device. -/
theorem sim_newToken_s (c : DevConfig) (d : DevState) (pid ep : Nat) (n : CycIn) (hcalm : CalmH d.hstate (noiseH n)) :
    Sim1S (cfgOf c) d (afterToken d pid ep) { envIn (afterToken d pid ep) n with newToken := true } .none := by
  refine sim1s_core _ d _ _ _ (hin (afterToken d pid ep) (noiseH n) false false false) ⟨false, false, false, false⟩ rfl
    (fun cs _ => by simp [ctrlComb, envIn]) (fun cs hr => ?_) rfl ?_
  · rw [hr.stage, ctrlNext_newToken]; rfl
  · intro hh hr
    have hr1 : HRel (afterToken d pid ep) hh := ⟨hr.1, hr.2, hr.3⟩
    obtain ⟨q1, q2, q3, q4⟩ := hs_quiet (cfgOf c) (afterToken d pid ep) hh (noiseH n) hr1 hcalm
    exact ⟨q1, by simpa using q2, q4, by simp [q3.1]; rfl, by simp [q3.2]; rfl⟩

/-! ### Cycles that poll the handlers -/

/-- What the polling cycle itself shows (`reqNow`: a streamed answer follows later). -/
def reqNowResult (c : DevConfig) (d : DevState) (dr sr ping : Bool) : DevState × Resp :=
  if dr then reqNow c d .data
  else if sr then reqNow c d .status
  else if ping then (d, .hs PID_ACK) else (d, .none)

theorem reqNow_sameCtl (c : DevConfig) (d : DevState) (r : Req) : SameCtl d (reqNow c d r).1 := by
  unfold reqNow
  split
  · split
    · exact SameCtl.refl d
    · exact SameCtl.refl d
    · exact ⟨rfl, rfl, rfl, rfl, rfl, rfl, rfl, Or.inl rfl⟩
    · exact sameCtl_request c d r
  · exact sameCtl_request c d r

theorem sim_reqNow (c : DevConfig) (hx : c.extra = []) (d : DevState) (i : CycIn) (n : CycIn) (dr sr ping : Bool)
    (hcalm : CalmH d.hstate (noiseH n)) (hsd : i.sdAck = false)
    (hc : ∀ cs, Rel d cs → ctrlComb (cfgOf c) cs.stage i = ⟨dr, sr, false, ping⟩)
    (hn : ∀ cs, Rel d cs → ctrlNext (cfgOf c) cs.stage i = d.stage)
    (hi : handlerIn i ⟨dr, sr, false, ping⟩ = hin d (noiseH n) dr sr false)
    (hexcl : (dr = true → sr = false ∧ ping = false) ∧ (sr = true → ping = false)) :
    Sim1S (cfgOf c) d (reqNowResult c d dr sr ping).1 i (reqNowResult c d dr sr ping).2 := by
  cases dr <;> cases sr <;> cases ping <;> simp at hexcl <;>
    simp only [reqNowResult, if_true, if_false, Bool.false_eq_true]
  · -- nothing
    refine sim1s_core _ d d i _ _ _ hsd hc hn hi
      (hfacts_of_quiet (fun hh hr => hs_quiet (cfgOf c) d hh (noiseH n) hr hcalm) rfl rfl)
  · -- PING acknowledged
    refine sim1s_core _ d d i _ _ _ hsd hc hn hi ?_
    intro hh hr
    obtain ⟨q1, q2, q3, q4⟩ := hs_quiet (cfgOf c) d hh (noiseH n) hr hcalm
    exact ⟨q1, by simp, q4, by simp [q3.1], by simp [q3.2]⟩
  · -- status requested
    refine sim1s_core _ d _ i _ _ _ hsd hc (fun cs hr => by rw [hn cs hr, (reqNow_sameCtl c d .status).stage]) hi
      (hfacts_of_quiet (fun hh hr => hs_req c hx (cfgOf c) d hh (noiseH n) .status hr hcalm)
        (reqNow_sameCtl c d .status).address (reqNow_sameCtl c d .status).config)
  · -- data requested
    refine sim1s_core _ d _ i _ _ _ hsd hc (fun cs hr => by rw [hn cs hr, (reqNow_sameCtl c d .data).stage]) hi
      (hfacts_of_quiet (fun hh hr => hs_req c hx (cfgOf c) d hh (noiseH n) .data hr hcalm)
        (reqNow_sameCtl c d .data).address (reqNow_sameCtl c d .data).config)

/-- (K2) `ready_for_response`. -/
theorem sim_ready_s (c : DevConfig) (hx : c.extra = []) (d : DevState) (n : CycIn) (hcalm : CalmH d.hstate (noiseH n)) :
    Sim1S (cfgOf c) d (reqNowResult c d (readyDr d) (readySr d) (readyPing d)).1
      { envIn d n with readyForResponse := true } (reqNowResult c d (readyDr d) (readySr d) (readyPing d)).2 := by
  refine sim_reqNow c hx d _ n _ _ _ hcalm rfl (fun cs hr => ?_) (fun cs hr => ?_) rfl ?_
  · rw [hr.stage]
    unfold readyDr readySr readyPing
    by_cases h0 : d.tokEp = 0 <;> cases hs : d.stage <;> by_cases h1 : d.tokPid = PID_IN <;>
      by_cases h2 : d.tokPid = PID_PING <;> by_cases h3 : d.tokPid = PID_OUT <;>
      simp_all [ctrlComb, envIn, targeted, cfgOf, PID_IN, PID_PING, PID_OUT]
  · rw [hr.stage]
    cases hs : d.stage <;> simp [ctrlNext, envIn]
  · unfold readyDr readySr readyPing
    cases hs : d.stage <;> by_cases h1 : d.tokPid = PID_IN <;> simp_all [PID_IN, PID_PING]

/-- (K5) `rx_ready_for_response`. -/
theorem sim_rxReady_s (c : DevConfig) (hx : c.extra = []) (d : DevState) (n : CycIn)
    (hcalm : CalmH d.hstate (noiseH n)) :
    Sim1S (cfgOf c) d (reqResult c d false (rxSr d) false).1 { envIn d n with rxReady := true }
      (reqResult c d false (rxSr d) false).2 := by
  have he : reqResult c d false (rxSr d) false = reqNowResult c d false (rxSr d) false := by
    unfold reqResult reqNowResult reqNow
    cases rxSr d <;> simp
  rw [he]
  refine sim_reqNow c hx d _ n _ _ _ hcalm rfl (fun cs hr => ?_) (fun cs hr => ?_) rfl ?_
  · rw [hr.stage]
    unfold rxSr
    by_cases h0 : d.tokEp = 0 <;> cases hs : d.stage <;> by_cases h3 : d.tokPid = PID_OUT <;>
      simp_all [ctrlComb, envIn, targeted, cfgOf, PID_IN, PID_PING, PID_OUT]
  · rw [hr.stage]
    cases hs : d.stage <;> simp [ctrlNext, envIn]
  · simp

/-- (K4) the setup decoder's `ack`. -/
theorem sim_sdAck_s (c : DevConfig) (d : DevState) (n : CycIn) (hcalm : CalmH d.hstate (noiseH n)) :
    Sim1S (cfgOf c) d d { envIn d n with sdAck := true } (.hs PID_ACK) := by
  intro cs hr
  have hc : ctrlComb (cfgOf c) cs.stage { envIn d n with sdAck := true } = ⟨false, false, false, false⟩ := by
    simp [ctrlComb, envIn]
  have hn : ctrlNext (cfgOf c) cs.stage { envIn d n with sdAck := true } = cs.stage := by
    cases hs : cs.stage <;> simp [ctrlNext, envIn]
  have hi : handlerIn { envIn d n with sdAck := true } ⟨false, false, false, false⟩ =
      hin d (noiseH n) false false false := rfl
  obtain ⟨q1, q2, q3, q4⟩ := hs_quiet (cfgOf c) d cs.h (noiseH n) hr.h hcalm
  rw [step_outResp, step_addressChanged, step_configChanged, step_txValid, step_txFirst, hc, hi]
  refine ⟨⟨by rw [step_stage, hn]; exact hr.stage, by rw [step_h, hc, hi]; exact q1⟩, ?_, q4, ?_, ?_⟩
  · simp
  · simp [q3.1]
  · simp [q3.2]

/-- (K3) the setup decoder reports a SETUP packet. -/
theorem sim_received_s (c : DevConfig) (d : DevState) (p : List Nat) (n : CycIn) (hcalm : CalmH d.hstate (noiseH n)) :
    Sim1S (cfgOf c) d (onSetupData d p).1 { envIn d n with received := true, su := parseSetup p } .none := by
  refine sim1s_core _ d _ _ _ (recvIn (hin d (noiseH n) false false false) (parseSetup p)) ⟨false, false, false, false⟩
    rfl (fun cs _ => by simp [ctrlComb, envIn]) (fun cs hr => ?_) rfl ?_
  · rw [hr.stage]
    by_cases hty : (parseSetup p).type = TYPE_STANDARD <;> by_cases h0 : d.tokEp = 0 <;>
      cases hs : d.stage <;> simp [ctrlNext, envIn, onSetupData, targeted, cfgOf, hty, h0, hs]
  · intro hh hr
    have hq := hs_recv (cfgOf c) d hh (hin d (noiseH n) false false false) (parseSetup p) hr hcalm
    change HRel _ (stdStep _ _ (recvIn _ _)).1 ∧ hResp (muxOut (stdStep _ _ (recvIn _ _)).2 (recvIn _ _)) = _ ∧
      HQuiet (muxOut (stdStep _ _ (recvIn _ _)).2 (recvIn _ _)) ∧ NoFirst (muxOut (stdStep _ _ (recvIn _ _)).2 (recvIn _ _))
      at hq
    obtain ⟨q1, q2, q3, q4⟩ := hq
    refine ⟨?_, by simpa using q2, q4, ?_, ?_⟩
    · refine q1.congr ?_ ?_ ?_ ?_ <;>
        by_cases hty : (parseSetup p).type = TYPE_STANDARD <;> simp [onSetupData, recvState, hty]
    · simp only [q3.1]
      by_cases hty : (parseSetup p).type = TYPE_STANDARD <;> simp [onSetupData, hty]
    · simp only [q3.2]
      by_cases hty : (parseSetup p).type = TYPE_STANDARD <;> simp [onSetupData, hty]

/-- (K6) a host ACK (`max_packet_size = 64`). -/
theorem sim_hsAck_s (c : DevConfig) (hmp : c.maxPacket = 64) (d : DevState) (n : CycIn)
    (hcalm : CalmH d.hstate (noiseH n)) :
    Sim1S (cfgOf c) d (onHandshake d PID_ACK) { envIn d n with hsAck := true } .none := by
  have hnx : ∀ cs : CycState, ctrlNext (cfgOf c) cs.stage { envIn d n with hsAck := true } = cs.stage := by
    intro cs; cases hs : cs.stage <;> simp [ctrlNext, envIn]
  by_cases hfw : d.tokEp = 0 ∧ d.tokPid = PID_IN
  · -- forwarded to the handlers
    have hd : (onHandshake d PID_ACK).stage = d.stage ∧ (onHandshake d PID_ACK).hstate = (ackState d).hstate ∧
        (onHandshake d PID_ACK).expectingAck = (ackState d).expectingAck ∧
        (onHandshake d PID_ACK).startPos = (ackState d).startPos ∧ (onHandshake d PID_ACK).txPid = (ackState d).txPid ∧
        (onHandshake d PID_ACK).address = (ackState d).address ∧ (onHandshake d PID_ACK).config = (ackState d).config := by
      unfold onHandshake ackState
      by_cases hty : d.setup.type = TYPE_STANDARD
      · simp only [hfw.1, hfw.2, hty, and_self, if_true]
        have hst : (stdAck d).stage = d.stage := by
          unfold stdAck; cases d.hstate <;> simp [toIdle] <;> split <;> rfl
        split <;> simp [hst]
      · simp [hty]
    refine sim1s_core _ d _ _ _ (hin d (noiseH n) false false true) ⟨false, false, true, false⟩ rfl
      (fun cs _ => by simp [ctrlComb, envIn, targeted, cfgOf, hfw.1, hfw.2])
      (fun cs hr => by rw [hnx, hd.1]; exact hr.stage) rfl ?_
    intro hh hr
    obtain ⟨q1, q2, q3, q4, q5⟩ := hs_ack (cfgOf c) hmp d hh (noiseH n) hr hcalm
    exact ⟨q1.congr hd.2.1 hd.2.2.1 hd.2.2.2.1 hd.2.2.2.2.1, by simpa using q2, q3,
      by rw [hd.2.2.2.2.2.1]; exact q4, by rw [hd.2.2.2.2.2.2]; exact q5⟩
  · -- not for this endpoint's IN transaction: invisible
    have hd : onHandshake d PID_ACK = d := by
      unfold onHandshake
      rw [if_neg]
      intro g; exact hfw ⟨g.2.1, g.2.2.1⟩
    rw [hd]
    refine sim1s_core _ d d _ _ (hin d (noiseH n) false false false) ⟨false, false, false, false⟩ rfl
      (fun cs _ => ?_) (fun cs hr => by rw [hnx]; exact hr.stage) rfl
      (hfacts_of_quiet (fun hh hr => hs_quiet (cfgOf c) d hh (noiseH n) hr hcalm) rfl rfl)
    simp only [ctrlComb, envIn, targeted, cfgOf]
    by_cases h0 : d.tokEp = 0 <;> by_cases h1 : d.tokPid = PID_IN <;> simp_all

end LunaVerif.CtrlCyc
