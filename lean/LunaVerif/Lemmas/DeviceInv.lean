import LunaVerif.Model.Device.Control
/-!
Invariant of the event-level device model, shared by the C07 / C08 / C10 theorems.

`Inv s` holds in every state reachable from `init` by ANY event history (legal or not); the theorems that
need `LegalHost` use it on top.
-/
namespace LunaVerif.Device

/-- What the control-endpoint stage says about the latched SETUP packet, what the setup decoder says about
the token detector, and what the standard handler's state says about the request. -/
structure Inv (s : DevState) : Prop where
  wait_stage : s.sdWait = true → s.stage = .setup
  wait_pid   : s.sdWait = true → (s.tokPid = PID_SETUP ∨ s.tokPid = 0)
  data_in    : s.stage = .dataIn → (s.setup.isIn = true ∧ s.setup.length ≠ 0)
  data_out   : s.stage = .dataOut → (s.setup.isIn = false ∧ s.setup.length ≠ 0)
  status_out : s.stage = .statusOut → (s.setup.isIn = true ∧ s.setup.length ≠ 0)
  status_in  : s.stage = .statusIn → ¬ (s.setup.isIn = true ∧ s.setup.length ≠ 0)
  handler    : s.setup.type = TYPE_STANDARD → (s.hstate = .idle ∨ s.hstate = dispatch s.setup.request)

theorem inv_init : Inv init := by
  constructor <;> simp [init]

/-- Two states agree on everything except the standard handler's private registers. -/
structure SameCtl (s s' : DevState) : Prop where
  address : s'.address = s.address
  config  : s'.config = s.config
  tokPid  : s'.tokPid = s.tokPid
  tokEp   : s'.tokEp = s.tokEp
  sdWait  : s'.sdWait = s.sdWait
  setup   : s'.setup = s.setup
  stage   : s'.stage = s.stage
  hstate  : s'.hstate = s.hstate ∨ s'.hstate = .idle

theorem SameCtl.refl (s : DevState) : SameCtl s s := ⟨rfl, rfl, rfl, rfl, rfl, rfl, rfl, Or.inl rfl⟩

theorem sameCtl_toIdle (s : DevState) : SameCtl s (toIdle s) :=
  ⟨rfl, rfl, rfl, rfl, rfl, rfl, rfl, Or.inr rfl⟩

theorem sameCtl_stdRequest (c : DevConfig) (s : DevState) (r : Req) : SameCtl s (stdRequest c s r).1 := by
  unfold stdRequest
  split <;> (first
    | exact SameCtl.refl s
    | exact sameCtl_toIdle s
    | (split
       · exact ⟨rfl, rfl, rfl, rfl, rfl, rfl, rfl, Or.inr rfl⟩
       · exact ⟨rfl, rfl, rfl, rfl, rfl, rfl, rfl, Or.inl rfl⟩))

theorem sameCtl_request (c : DevConfig) (s : DevState) (r : Req) : SameCtl s (request c s r).1 := by
  unfold request
  have h := sameCtl_stdRequest c s r
  split <;> split <;> first | exact h | exact SameCtl.refl s

theorem inv_of_sameCtl {s s' : DevState} (h : SameCtl s s') (i : Inv s) : Inv s' := by
  obtain ⟨_, _, hp, _, hw, hs, hst, hh⟩ := h
  constructor
  · intro w; rw [hst]; exact i.wait_stage (hw ▸ w)
  · intro w; rw [hp]; exact i.wait_pid (hw ▸ w)
  · intro w; rw [hs]; exact i.data_in (hst ▸ w)
  · intro w; rw [hs]; exact i.data_out (hst ▸ w)
  · intro w; rw [hs]; exact i.status_out (hst ▸ w)
  · intro w; rw [hs]; exact i.status_in (hst ▸ w)
  · intro w; rw [hs] at w ⊢
    rcases hh with hh | hh
    · rw [hh]; exact i.handler w
    · exact Or.inl hh

theorem inv_request (c : DevConfig) (s : DevState) (r : Req) (i : Inv s) : Inv (request c s r).1 :=
  inv_of_sameCtl (sameCtl_request c s r) i


/-! ### Preservation -/

theorem inv_afterToken (s : DevState) (pid ep : Nat) (i : Inv s) : Inv (afterToken s pid ep) := by
  have hst : (afterToken s pid ep).stage = tokenStage s pid ep := rfl
  have hsu : (afterToken s pid ep).setup = s.setup := rfl
  have hhs : (afterToken s pid ep).hstate = s.hstate := rfl
  have key : ∀ st, tokenStage s pid ep = st → st ≠ .setup →
      (s.stage = st ∨ (s.stage = .dataIn ∧ st = .statusOut) ∨ (s.stage = .dataOut ∧ st = .statusIn)) := by
    intro st h hne
    unfold tokenStage at h
    split at h
    · exact absurd h.symm hne
    · split at h
      · split at h
        · split at h
          · exact Or.inr (Or.inl ⟨by assumption, h.symm⟩)
          · exact Or.inl (by simp_all)
        · split at h
          · exact Or.inr (Or.inr ⟨by assumption, h.symm⟩)
          · exact Or.inl (by simp_all)
        · exact Or.inl h
      · exact Or.inl h
  constructor
  · intro w
    have : pid = PID_SETUP := by simpa [afterToken] using w
    simp [afterToken, tokenStage, this]
  · intro w
    have : pid = PID_SETUP := by simpa [afterToken] using w
    exact Or.inl (by simp [afterToken, this])
  · intro w; rw [hsu]; rw [hst] at w
    rcases key _ w (by simp) with h | ⟨_, h⟩ | ⟨_, h⟩
    · exact i.data_in h
    · cases h
    · cases h
  · intro w; rw [hsu]; rw [hst] at w
    rcases key _ w (by simp) with h | ⟨_, h⟩ | ⟨_, h⟩
    · exact i.data_out h
    · cases h
    · cases h
  · intro w; rw [hsu]; rw [hst] at w
    rcases key _ w (by simp) with h | ⟨h, _⟩ | ⟨_, h⟩
    · exact i.status_out h
    · exact i.data_in h
    · cases h
  · intro w; rw [hsu]; rw [hst] at w
    rcases key _ w (by simp) with h | ⟨_, h⟩ | ⟨h, _⟩
    · exact i.status_in h
    · cases h
    · have := i.data_out h
      simp [this.1]
  · intro w; rw [hsu] at w ⊢; rw [hhs]; exact i.handler w

theorem inv_onToken (c : DevConfig) (s : DevState) (pid ep : Nat) (i : Inv s) : Inv (onToken c s pid ep).1 := by
  have h1 := inv_afterToken s pid ep i
  unfold onToken
  simp only []
  split
  · split <;> (try split) <;> first | exact inv_request c _ _ h1 | exact h1
  · exact h1

theorem inv_onSetupData (s : DevState) (p : List Nat) (i : Inv s) (w : s.sdWait = true) : Inv (onSetupData s p).1 := by
  have hs := i.wait_stage w
  unfold onSetupData
  simp only [hs, true_and]
  by_cases hep : s.tokEp = 0 <;> by_cases hty : (parseSetup p).type = TYPE_STANDARD <;>
    simp only [hep, hty, if_true, if_false] <;>
    (constructor <;> simp [stageAfterSetup, hty] <;> (repeat' split) <;> simp_all)

theorem inv_onData (c : DevConfig) (s : DevState) (p : List Nat) (ok : Bool) (i : Inv s) : Inv (onData c s p ok).1 := by
  unfold onData
  split
  · exact i
  · split
    · rename_i w
      split
      · split
        · exact inv_onSetupData s p i w
        · exact ⟨(fun h => by cases h), (fun h => by cases h), i.data_in, i.data_out, i.status_out, i.status_in, i.handler⟩
      · exact i
    · split
      · exact inv_request c s _ i
      · exact i

theorem sameCtl_stdAck_but_regs (s : DevState) :
    (stdAck s).tokPid = s.tokPid ∧ (stdAck s).tokEp = s.tokEp ∧ (stdAck s).sdWait = s.sdWait ∧
    (stdAck s).setup = s.setup ∧ (stdAck s).stage = s.stage ∧
    ((stdAck s).hstate = s.hstate ∨ (stdAck s).hstate = .idle) := by
  unfold stdAck
  split <;> (try split) <;> simp [toIdle]

theorem inv_onHandshake (s : DevState) (pid : Nat) (i : Inv s) : Inv (onHandshake s pid) := by
  unfold onHandshake
  split
  · obtain ⟨hp, _, hw, hs, hst, hh⟩ := sameCtl_stdAck_but_regs s
    have base : Inv (stdAck s) := by
      constructor
      · intro w; rw [hst]; exact i.wait_stage (hw ▸ w)
      · intro w; rw [hp]; exact i.wait_pid (hw ▸ w)
      · intro w; rw [hs]; exact i.data_in (hst ▸ w)
      · intro w; rw [hs]; exact i.data_out (hst ▸ w)
      · intro w; rw [hs]; exact i.status_out (hst ▸ w)
      · intro w; rw [hs]; exact i.status_in (hst ▸ w)
      · intro w; rw [hs] at w ⊢
        rcases hh with hh | hh
        · rw [hh]; exact i.handler w
        · exact Or.inl hh
    simp only []
    split
    · exact ⟨base.wait_stage, base.wait_pid, base.data_in, base.data_out, base.status_out, base.status_in, base.handler⟩
    · exact base
  · exact i

theorem inv_core (c : DevConfig) (s : DevState) (e : HostEvent) (i : Inv s) : Inv (core c s e).1 := by
  unfold core
  split
  · split
    · exact inv_onToken c s _ _ i
    · constructor
      · exact i.wait_stage
      · intro _; exact Or.inr rfl
      · exact i.data_in
      · exact i.data_out
      · exact i.status_out
      · exact i.status_in
      · exact i.handler
  · exact inv_onData c s _ _ i
  · exact inv_onHandshake s _ i
  · exact ⟨i.wait_stage, i.wait_pid, i.data_in, i.data_out, i.status_out, i.status_in, i.handler⟩
  · exact i

theorem inv_step (c : DevConfig) (s : DevState) (x : Stim) (i : Inv s) : Inv (step c s x).1 := by
  have h := inv_core c s x.ev i
  exact ⟨h.wait_stage, h.wait_pid, h.data_in, h.data_out, h.status_out, h.status_in, h.handler⟩

theorem inv_final (c : DevConfig) (s : DevState) (h : List Stim) (i : Inv s) : Inv (final c s h) := by
  induction h generalizing s with
  | nil => exact i
  | cons x xs ih => exact ih _ (inv_step c s x i)

/-- Every state reached from reset satisfies the invariant. -/
theorem inv_reachable (c : DevConfig) (h : List Stim) : Inv (final c init h) :=
  inv_final c init h inv_init

end LunaVerif.Device
