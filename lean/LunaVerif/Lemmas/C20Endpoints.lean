import LunaVerif.Lemmas.C20Contract
import LunaVerif.Model.Usb2.InTransferManager
import LunaVerif.Model.Usb2.StreamOutEndpoint
import LunaVerif.Model.Usb2.SignalInEndpoint
/-!
# C20 — the endpoint models keep the slot contract

For each cycle-level endpoint model (C11 `InXfer` = USBInTransferManager inside USBStreamInEndpoint, C13
`StreamOutEndpoint`, C17 `SignalIn`) and EVERY input history (arbitrary tokenizer, handshake, stream and `tx.ready`
inputs): the endpoint requests a handshake or starts a data packet only in the cycle of a `ready_for_response` pulse
addressed to it or (IN endpoints: exactly) one cycle later, never both together, holds `tx.valid` until the word with
`last` has been taken, and drives `first`/`last` only together with `valid`.
-/
namespace LunaVerif.C20Ctr
open LunaVerif

/-- One observed cycle of a slot. -/
structure Obs where
  pul : Bool
  rdy : Bool
  a1  : Bool := false
  a2  : Bool := false
  d   : Sig
deriving Repr

/-- The contract along a slot's trace. -/
def ctrHolds (L : Nat) : Ph → List Obs → Bool
  | _, [] => true
  | ph, o :: os => (cstep L ph o.pul o.rdy o.a1 o.a2 o.d).1 && ctrHolds L (cstep L ph o.pul o.rdy o.a1 o.a2 o.d).2 os

/-- A slot that never drives `timer.start`: the history of `rx_active` is irrelevant. -/
theorem cstep_noT {L : Nat} {ph : Ph} {pul rdy a1 a2 : Bool} {d : Sig} (h : d.tstart = false) :
    cstep L ph pul rdy a1 a2 d = (cok ph pul d, cnext L ph pul rdy d) := by
  simp [cstep, tOk, h]

@[simp] theorem expire_ne_sending (L : Nat) (ph : Ph) : (expire L ph = .sending) = False := by
  cases ph <;> simp [expire]
  split <;> simp

theorem bcase (b : Bool) : b = true ∨ b = false := by cases b <;> simp

/-! ## USBInTransferManager (USBStreamInEndpoint) -/

namespace In
open InXfer

def sig (o : Out) : Sig := { hs := o.nak, valid := o.valid, first := o.first, last := o.last }

/-- The simulation relation between the manager's registers and the phase of its slot. -/
def R (s : State) (ph : Ph) : Prop :=
  (s.first = true → s.fsm = .sendPacket) ∧ (ph = .sending → s.fsm = .sendPacket) ∧
  (ph = .idle → s.fsm ≠ .sendPacket) ∧ (s.fsm = .sendPacket → ph ≠ .sending → s.first = true)

theorem step_ok (L : Nat) (c : Config) (s : State) (i : InXfer.In) (ph : Ph) (a1 a2 : Bool) (h : R s ph) :
    (cstep L ph (inTok i) i.txReady a1 a2 (sig (step c s i).2)).1 = true ∧
    R (step c s i).1 (cstep L ph (inTok i) i.txReady a1 a2 (sig (step c s i).2)).2 := by
  rw [cstep_noT rfl]
  obtain ⟨h1, h2, h3, h4⟩ := h
  rcases bcase (inTok i) with ht | ht <;> rcases bcase i.txReady with hr | hr <;> rcases bcase s.first with hfi | hfi <;>
  cases hf : s.fsm <;> simp only [step, hf] <;> (repeat' split) <;> cases ph <;>
    simp_all [sig, cok, cokB, cnext, cnextB, R]


def obs (io : InXfer.In × InXfer.Out) : Obs := { pul := inTok io.1, rdy := io.1.txReady, d := sig io.2 }

/-- USBInTransferManager keeps the slot contract along every input history. -/
theorem keeps_contract (L : Nat) (c : Config) (ins : List InXfer.In) (s : State) (ph : Ph) (h : R s ph) :
    ctrHolds L ph ((trace c s ins).map obs) = true := by
  induction ins generalizing s ph with
  | nil => rfl
  | cons i is ih =>
    obtain ⟨h1, h2⟩ := step_ok L c s i ph false false h
    have ih' := ih _ _ h2
    simp only [trace, List.map_cons, ctrHolds, obs]
    rw [h1, Bool.true_and]
    exact ih'

theorem R_init (c : Config) : R (init c) .idle := by simp [R, init]

end In

/-- **USBInTransferManager requests only after a pulse** (plain form, as coded): NAK is combinational on
`active & is_in & ready_for_response`; `packet_stream.valid` rises only in the cycle of such a pulse (zero-length
packet) or in the cycle after one (WAIT_TO_SEND -> SEND_PACKET). -/
theorem inxfer_requests_only_after_pulse (c : InXfer.Config) (s : InXfer.State) (i1 i2 : InXfer.In) :
    ((InXfer.step c s i1).2.nak = true → InXfer.inTok i1 = true) ∧
    ((InXfer.step c s i1).2.valid = false → (InXfer.step c (InXfer.step c s i1).1 i2).2.valid = true →
      InXfer.inTok i2 = true ∨ InXfer.inTok i1 = true) := by
  have one : ∀ (s : InXfer.State) (i : InXfer.In),
      ((InXfer.step c s i).2.nak = true → InXfer.inTok i = true) ∧
      ((InXfer.step c s i).2.valid = true → s.fsm = .sendPacket ∨ InXfer.inTok i = true) ∧
      ((InXfer.step c s i).1.fsm = .sendPacket → s.fsm = .sendPacket ∨ InXfer.inTok i = true) ∧
      (s.fsm = .sendPacket → (InXfer.step c s i).2.valid = true) := by
    intro s i
    rcases bcase (InXfer.inTok i) with h1 | h1 <;>
    cases hf : s.fsm <;> simp only [InXfer.step, hf] <;> (repeat' split) <;> simp_all
  obtain ⟨a1, _, c1, d1⟩ := one s i1
  obtain ⟨_, b2, _, _⟩ := one (InXfer.step c s i1).1 i2
  refine ⟨a1, ?_⟩
  intro hv1 hv2
  rcases b2 hv2 with h | h
  · rcases c1 h with h' | h'
    · have := d1 h'; rw [hv1] at this; cases this
    · exact Or.inr h'
  · exact Or.inl h

/-- NAK and a data packet are never driven together (every state, every input). -/
theorem inxfer_no_handshake_and_data_together (c : InXfer.Config) (s : InXfer.State) (i : InXfer.In) :
    ((InXfer.step c s i).2.nak && (InXfer.step c s i).2.valid) = false := by
  cases hf : s.fsm <;> simp only [InXfer.step, hf] <;> (repeat' split) <;> simp_all

/-! ## USBSignalInEndpoint -/

namespace Sig3
open SignalIn

def sig (o : SignalIn.Out) : Sig := { valid := o.valid, first := o.first, last := o.last }

def R (s : SignalIn.State) (ph : Ph) : Prop :=
  (ph = .sending → s.fsm = .transmit) ∧ (ph = .idle → s.fsm ≠ .transmit) ∧
  (s.fsm = .transmit → ph ≠ .sending → s.sent = 0)

theorem step_ok (L : Nat) (c : SignalIn.Config) (s : SignalIn.State) (i : SignalIn.In) (ph : Ph) (a1 a2 : Bool)
    (h : R s ph) :
    (cstep L ph (packetRequested c i) i.txReady a1 a2 (sig (step c s i).2)).1 = true ∧
    R (step c s i).1 (cstep L ph (packetRequested c i) i.txReady a1 a2 (sig (step c s i).2)).2 := by
  rw [cstep_noT rfl]
  obtain ⟨h2, h3, h4⟩ := h
  rcases bcase (packetRequested c i) with ht | ht <;> rcases bcase i.txReady with hr | hr <;>
  cases hf : s.fsm <;> simp only [step, stepCore, hf] <;> (repeat' split) <;> cases ph <;>
    simp_all [sig, cok, cokB, cnext, cnextB, R]


def obs (c : SignalIn.Config) (io : SignalIn.In × SignalIn.Out) : Obs :=
  { pul := packetRequested c io.1, rdy := io.1.txReady, d := sig io.2 }

/-- USBSignalInEndpoint keeps the slot contract along every input history. -/
theorem keeps_contract (L : Nat) (c : SignalIn.Config) (ins : List SignalIn.In) (s : SignalIn.State) (ph : Ph)
    (h : R s ph) : ctrHolds L ph ((trace c s ins).map (obs c)) = true := by
  induction ins generalizing s ph with
  | nil => rfl
  | cons i is ih =>
    obtain ⟨h1, h2⟩ := step_ok L c s i ph false false h
    simp only [trace, List.map_cons, ctrHolds, obs, Bool.and_eq_true]
    exact ⟨h1, ih _ _ h2⟩

theorem R_init : R SignalIn.init .idle := by simp [R, SignalIn.init]

end Sig3

/-- **USBSignalInEndpoint requests only after a pulse** (plain form, as coded): `tx.valid` rises only in the cycle
after `endpoint == n & is_in & ready_for_response` (IDLE / RETRANSMIT -> TRANSMIT_RESPONSE); the endpoint drives no
handshake at all. -/
theorem signalin_requests_only_after_pulse (c : SignalIn.Config) (s : SignalIn.State) (i1 i2 : SignalIn.In) :
    (SignalIn.step c s i1).2.valid = false → (SignalIn.step c (SignalIn.step c s i1).1 i2).2.valid = true →
      SignalIn.packetRequested c i1 = true := by
  rcases bcase (SignalIn.packetRequested c i1) with h1 | h1 <;>
  cases hf : s.fsm <;> simp only [SignalIn.step, SignalIn.stepCore, hf] <;> (repeat' split) <;>
    simp_all

/-! ## USBStreamOutEndpoint -/

namespace Out2
open StreamOutEndpoint

def sig (o : StreamOutEndpoint.Out) : Sig := { hs := o.ack || o.nak }

/-- A pulse addressed to the endpoint: the receiver's after an OUT token for it, or the token detector's after a PING
for it. -/
def pul (c : StreamOutEndpoint.Config) (s : StreamOutEndpoint.State) (i : StreamOutEndpoint.In) : Bool :=
  (comb c s i).dataRequested || (comb c s i).pingRequested

theorem step_ok (L : Nat) (c : StreamOutEndpoint.Config) (s : StreamOutEndpoint.State) (i : StreamOutEndpoint.In)
    (ph : Ph) (rdy a1 a2 : Bool) (h : ph ≠ .sending) :
    (cstep L ph (pul c s i) rdy a1 a2 (sig (step c s i).2)).1 = true ∧
    (cstep L ph (pul c s i) rdy a1 a2 (sig (step c s i).2)).2 ≠ .sending := by
  rw [cstep_noT rfl]
  have ho : (step c s i).2 = outOf c s i := rfl
  rw [ho]
  simp only [sig, outOf, pul, cok, cokB, cnext, cnextB, h, if_false]
  rcases bcase (comb c s i).dataRequested with h1 | h1 <;> rcases bcase (comb c s i).pingRequested with h2 | h2 <;>
    rcases bcase (comb c s i).dataAccepted with h3 | h3 <;> rcases bcase (comb c s i).shouldSkip with h4 | h4 <;>
    rcases bcase (comb c s i).sufficient with h5 | h5 <;> simp [h1, h2, h3, h4, h5]


/-- States along a history. -/
def trace (c : StreamOutEndpoint.Config) : StreamOutEndpoint.State → List StreamOutEndpoint.In → List Obs
  | _, [] => []
  | s, i :: is => { pul := pul c s i, rdy := false, d := sig (step c s i).2 } :: trace c (step c s i).1 is

/-- USBStreamOutEndpoint keeps the slot contract along every input history. -/
theorem keeps_contract (L : Nat) (c : StreamOutEndpoint.Config) (ins : List StreamOutEndpoint.In)
    (s : StreamOutEndpoint.State) (ph : Ph) (h : ph ≠ .sending) : ctrHolds L ph (trace c s ins) = true := by
  induction ins generalizing s ph with
  | nil => rfl
  | cons i is ih =>
    obtain ⟨h1, h2⟩ := step_ok L c s i ph false false false h
    simp only [trace, ctrHolds, Bool.and_eq_true]
    exact ⟨h1, ih _ _ h2⟩

end Out2

/-- **USBStreamOutEndpoint requests only at a pulse** (plain form, as coded): ACK / NAK are combinational on
`rx_ready_for_response` after an OUT token for the endpoint, or on `tokenizer.ready_for_response` after a PING for
it; the endpoint never drives the transmit stream. -/
theorem streamout_requests_only_after_pulse (c : StreamOutEndpoint.Config) (s : StreamOutEndpoint.State)
    (i : StreamOutEndpoint.In) :
    ((StreamOutEndpoint.step c s i).2.ack = true ∨ (StreamOutEndpoint.step c s i).2.nak = true) →
      (i.tokEp = c.epNum ∧ i.tokIsOut = true ∧ i.rxReady = true) ∨
      (i.tokEp = c.epNum ∧ i.tokIsPing = true ∧ i.tokReady = true) := by
  have ho : (StreamOutEndpoint.step c s i).2 = StreamOutEndpoint.outOf c s i := rfl
  rw [ho]
  simp only [StreamOutEndpoint.outOf, StreamOutEndpoint.comb, Bool.or_eq_true, Bool.and_eq_true, beq_iff_eq]
  rintro (h | h)
  · rcases h with (h | h) | h
    · exact Or.inl ⟨h.1.1.1.1, h.1.1.2, h.1.2⟩
    · exact Or.inr ⟨h.1.1.1, h.1.1.2, h.1.2⟩
    · exact Or.inl ⟨h.1.1.1.1, h.1.1.2, h.1.2⟩
  · rcases h with h | h
    · exact Or.inl ⟨h.1.1.1.1.1, h.1.1.1.2, h.1.1.2⟩
    · exact Or.inr ⟨h.1.1.1, h.1.1.2, h.1.2⟩

end LunaVerif.C20Ctr
