import LunaVerif.Lemmas.C20DeviceDec
/-!
# C20 — where the setup decoder's ACK comes from (one-cycle lemmas; a first part of `decOk'`'s ACK clause)

`dec_ack_origin`: `USBSetupDecoder` drives `ack` only in READ_DATA for a `new_packet` of 8 bytes under a SETUP pid (and then
only if `tx_allowed` or at high speed), or in DELAY when `tx_allowed`.  `dec_ack_tx_allowed`: in the closed device at full
/ low speed the decoder's ACK therefore coincides with `tx_allowed` of the SHARED timer.  What is still missing for
`decOk'`'s clause "ACK = the receiver's `ready_for_response` while the tokenizer shows SETUP" is the joint invariant
"decoder in DELAY <=> receiver in its inter-packet DELAY" (the receiver's pulse is `tx_allowed` in that state).
-/
namespace LunaVerif.DevDec
open LunaVerif LunaVerif.DevCyc LunaVerif.DevEp LunaVerif.DevCtl
open LunaVerif.SetupDecoder (Deser Dec deserStep decStep)

theorem dec_ack_origin (c : SetupDecoder.Config) (k : Dec) (tn : Bool) (tp : Nat) (dn : Bool) (dl : Nat)
    (p : List Nat) (ta : Bool) (h : (decStep c k tn tp dn dl p ta).2 = true) :
    (k.fsm = .readData ∧ dn = true ∧ dl = 8 ∧ tp = SetupDecoder.SETUP_PID ∧ (ta = true ∨ c.hs = true)) ∨
    (k.fsm = .delay ∧ ta = true) := by
  cases hf : k.fsm <;> simp only [decStep, hf] at h
  · simp at h
  · left
    revert h
    (repeat' split) <;> simp_all
  · right
    revert h
    split <;> simp_all

/-- At full / low speed the decoder's ACK coincides with `tx_allowed` of the shared inter-packet timer. -/
theorem dec_ack_tx_allowed (c : Config) (hfs : c.hs = false) (D : State) (x : Ext)
    (h : (decCycle c D x).2 = true) : (fwd c.dc.ep D.w.ep x).txAllowed = true := by
  rcases dec_ack_origin (decCfg c) _ _ _ _ _ _ _ h with ⟨_, _, _, _, h5⟩ | ⟨_, h2⟩
  · rcases h5 with h5 | h5
    · exact h5
    · simp [decCfg, hfs] at h5
  · exact h2

end LunaVerif.DevDec
