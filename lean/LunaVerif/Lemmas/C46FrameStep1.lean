import LunaVerif.Lemmas.C46Frame
namespace LunaVerif.SSStreamIn

theorem pk_noflip {α : Type} (P rx R Z R' Z' W dl E : List α) (pk : P ++ (R ++ (Z ++ W)) = E)
    (hR : rx ++ (R' ++ Z') = R ++ Z) : (P ++ rx) ++ (R' ++ (Z' ++ (W ++ dl))) = E ++ dl := by
  have : (P ++ rx) ++ (R' ++ (Z' ++ (W ++ dl))) = P ++ ((rx ++ (R' ++ Z')) ++ (W ++ dl)) := by simp
  rw [this, hR, ← pk]; simp

theorem fnext_pkts (mps : Nat) (i : In) (o : Out) (d : Bool) (g : Ghost) (f : Frame) :
    (fnext mps i o d g f).pkts =
      (fProd mps i o f).pkts ++ (rxData i o d g ++ rxZlp o d (gTx i o d (gProd i o g))) := rfl
theorem fnext_exp (mps : Nat) (i : In) (o : Out) (d : Bool) (g : Ghost) (f : Frame) :
    (fnext mps i o d g f).exp = (fProd mps i o f).exp := rfl
theorem fnext_part (mps : Nat) (i : In) (o : Out) (d : Bool) (g : Ghost) (f : Frame) :
    (fnext mps i o d g f).part = (fProd mps i o f).part := rfl

theorem fstep_reqIn (c : Config) (v : View) (g : Ghost) (f : Frame) (i : In) (d : Bool) (hc : CfgOK c)
    (hI : Inv c v g) (hF : InvF c v g f) (he : EnvOK c g i (vout c v i)) (hf : v.fsm = .reqIn) :
    InvF c (vnext c v i) (gnext i (vout c v i) d g) (fnext c.mps i (vout c v i) d g f) := by
  obtain ⟨hr, hp, hh⟩ := he
  obtain ⟨dl, hexp, hwp, hpart, hpk⟩ :=
    write_frame c v i f hc hI.lenW hI.fillW_le hI.fillW_al hI.endW hp hF.partEq
  obtain ⟨hsp, htv, hhs⟩ := hI.idle (Or.inr (Or.inl hf))
  have hk : vcontrol c v i =
      { fsm := if i.done then .waitSend else .reqIn, erdy := true, clrErdy := i.done, raddr := v.sendPos } := by
    simp [vcontrol, hf]
  have hz : (vcontrol c v i).txZlp = false := by simp [hk]
  rw [gnext_quiet _ _ _ _ htv hz, gProd_vout]
  constructor
  case partEq =>
    rw [fnext_part, hpart]; simp only [vnext, hk]; simp
  case wdI =>
    simp only [vnext, hk]; intro h; split at h <;> cases h
  case pk =>
    rw [fnext_pkts, fnext_exp, hpk, hexp]
    simp only [vnext, hk, Bool.false_eq_true, if_false]
    rw [hwp]
    refine pk_noflip _ _ _ _ _ _ _ _ _ hF.pk ?_
    cases hd : i.done <;> simp [rpart, zowed, rxData, rxZlp, vout, hk, hf, htv, hr, hhs, hd]

theorem pk_flip {α : Type} (P rx R Z R' Z' W W' dl E : List α) (pk : P ++ (R ++ (Z ++ W)) = E)
    (hR : R = []) (hZ : Z = []) (hrx : rx = []) (hW' : W' = []) (hRZ : R' ++ Z' = W ++ dl) :
    (P ++ rx) ++ (R' ++ (Z' ++ W')) = E ++ dl := by
  subst hR hZ hrx hW'
  rw [← pk]
  simp only [List.append_nil, List.nil_append, List.append_assoc]
  rw [hRZ]

theorem wpart_complete (mps fill : Nat) (ended : Bool) (mem : List Nat)
    (h : (ended || decide (mps ≤ fill)) = true) :
    wpart mps fill ended mem = [bufBytes mem fill] ++ (if fill = mps ∧ ended = true then [[]] else []) := by
  simp only [wpart, h, if_true]

theorem ppart_complete (mps fill : Nat) (ended : Bool) (mem : List Nat)
    (h : (ended || decide (mps ≤ fill)) = true) : ppart mps fill ended mem = [] := by
  simp only [ppart, h, if_true]

/-- a write buffer that makes WAIT_FOR_ACK swap is complete after this cycle's write -/
theorem flip_complete (c : Config) (v : View) (i : In) (hc : CfgOK c) (hp : ProdOK i)
    (hal : v.endedW = false → v.fillW % 4 = 0)
    (hfl : (!vinReady c v || (i.sValid % 2 == 1 && decide (v.fillW + 4 ≥ c.mps))) = true) :
    (wEnded c v i || decide (c.mps ≤ wFill c v i)) = true := by
  obtain ⟨hv4, hvl, hv1⟩ := validBytes_prod i hp
  obtain ⟨hm4, hm8, _⟩ := hc
  cases hrd : vinReady c v
  · have hw : wen c v i = false := by simp [wen, hrd]
    simp only [wEnded, wFill, hw, Bool.and_false, Bool.false_eq_true, if_false]
    simp only [vinReady, Bool.and_eq_false_iff, decide_eq_false_iff_not, Bool.not_eq_false'] at hrd
    cases he : v.endedW
    · have := hal he
      rcases hrd with h | h
      · simp; omega
      · simp [he] at h
    · simp
  · simp only [hrd, Bool.not_true, Bool.false_or, Bool.and_eq_true, beq_iff_eq, decide_eq_true_eq] at hfl
    have hnz : i.sValid ≠ 0 := by omega
    have hw : wen c v i = true := by simp [wen, hrd, hnz]
    cases hl : i.sLast
    · have hn4 : validBytes i.sValid = 4 := by
        by_cases h : validBytes i.sValid = 4
        · exact h
        · have := hvl h hnz; simp_all
      simp [wEnded, wFill, hw, hl, hn4]; omega
    · simp [wEnded, hw, hl]

/-- ... and so is one that makes WAIT_FOR_DATA swap -/
theorem flip_complete_wd (c : Config) (v : View) (i : In) (hc : CfgOK c) (hp : ProdOK i)
    (hwd : v.endedW = true ∨ v.fillW + 4 ≤ c.mps)
    (hends : ((i.sValid % 2 == 1 && (decide (v.fillW + 4 ≥ c.mps) || i.sLast)) || v.endedW) = true) :
    (wEnded c v i || decide (c.mps ≤ wFill c v i)) = true := by
  obtain ⟨hv4, hvl, hv1⟩ := validBytes_prod i hp
  obtain ⟨hm4, hm8, _⟩ := hc
  cases he : v.endedW
  · have hroom : v.fillW + 4 ≤ c.mps := by rcases hwd with h | h; simp [he] at h; exact h
    simp only [he, Bool.or_false, Bool.and_eq_true, beq_iff_eq, Bool.or_eq_true, decide_eq_true_eq] at hends
    have hnz : i.sValid ≠ 0 := by omega
    have hw : wen c v i = true := by simp [wen, vinReady, he, hroom, hnz]
    cases hl : i.sLast
    · have hn4 : validBytes i.sValid = 4 := by
        by_cases h : validBytes i.sValid = 4
        · exact h
        · have := hvl h hnz; simp_all
      simp [wEnded, wFill, hw, hl, hn4, he]
      rcases hends.2 with h | h
      · omega
      · simp [hl] at h
    · simp [wEnded, hw, hl]
  · have hw : wen c v i = false := by simp [wen, vinReady, he]
    simp [wEnded, hw, he]

theorem prod_odd (i : In) (hp : ProdOK i) (hnz : i.sValid ≠ 0) : i.sValid % 2 = 1 := by
  rcases hp with h | h | ⟨h | h | h, _⟩ <;> omega

/-- a write buffer that does not complete keeps room for a whole word (or has ended) -/
theorem stay_room (c : Config) (v : View) (i : In) (hc : CfgOK c) (hp : ProdOK i)
    (hal : v.endedW = false → v.fillW % 4 = 0) (hroom : v.fillW + 4 ≤ c.mps) (hne : v.endedW = false)
    (hnc : (i.sValid % 2 == 1 && decide (v.fillW + 4 ≥ c.mps)) = false) :
    wEnded c v i = true ∨ wFill c v i + 4 ≤ c.mps := by
  obtain ⟨hv4, hvl, hv1⟩ := validBytes_prod i hp
  obtain ⟨hm4, hm8, _⟩ := hc
  have h4 := hal hne
  cases hw : wen c v i
  · right; simp [wFill, hw, hroom]
  · have hnz : i.sValid ≠ 0 := by
      intro h; simp [wen, h] at hw
    have hodd := prod_odd i hp hnz
    simp only [hodd, beq_self_eq_true, Bool.true_and, decide_eq_false_iff_not] at hnc
    cases hl : i.sLast
    · right
      have hn4 : validBytes i.sValid = 4 := by
        by_cases h : validBytes i.sValid = 4
        · exact h
        · have := hvl h hnz; simp_all
      simp only [wFill, hw, if_true, hn4]; omega
    · left; simp [wEnded, hw, hl]

theorem fstep_waitData (c : Config) (v : View) (g : Ghost) (f : Frame) (i : In) (d : Bool) (hc : CfgOK c)
    (hI : Inv c v g) (hF : InvF c v g f) (he : EnvOK c g i (vout c v i)) (hf : v.fsm = .waitData) :
    InvF c (vnext c v i) (gnext i (vout c v i) d g) (fnext c.mps i (vout c v i) d g f) := by
  obtain ⟨hr, hp, hh⟩ := he
  obtain ⟨dl, hexp, hwp, hpart, hpk⟩ :=
    write_frame c v i f hc hI.lenW hI.fillW_le hI.fillW_al hI.endW hp hF.partEq
  obtain ⟨wl, wle, wal, wend, wen1, wdat⟩ := write_side c v i hc hI.lenW hI.fillW_le hI.fillW_al hI.endW hp
  obtain ⟨hsp, htv, hhs⟩ := hI.idle (Or.inl hf)
  have hfr := hI.wd hf
  have hwd := hF.wdI hf
  have hm8 := hc.2.1
  have hm4 := hc.1
  have hz : (vcontrol c v i).txZlp = false := by simp [vcontrol, hf]
  rw [gnext_quiet _ _ _ _ htv hz, gProd_vout]
  cases hends : ((i.sValid % 2 == 1 && (decide (v.fillW + 4 ≥ c.mps) || i.sLast)) || v.endedW)
  · have hk : vcontrol c v i =
        { fsm := .waitData, nrdy := i.ack && i.hsEp == c.ep && i.nump != 0,
          setErdy := i.ack && i.hsEp == c.ep && i.nump != 0, raddr := v.sendPos } := by
      simp [vcontrol, hf, hends]
    constructor
    case partEq => rw [fnext_part, hpart]; simp only [vnext, hk]; simp
    case wdI =>
      simp only [vnext, hk, Bool.false_eq_true, if_false]
      intro _
      have he0 : v.endedW = false := by
        cases h : v.endedW
        · rfl
        · simp [h] at hends
      have hroom : v.fillW + 4 ≤ c.mps := by
        rcases hwd with h | h
        · simp [he0] at h
        · exact h
      refine stay_room c v i hc hp hI.fillW_al hroom he0 ?_
      cases h1 : (i.sValid % 2 == 1)
      · rfl
      · cases h2 : decide (v.fillW + 4 ≥ c.mps)
        · rfl
        · simp [h1, h2] at hends
    case pk =>
      rw [fnext_pkts, fnext_exp, hpk, hexp]
      simp only [vnext, hk, Bool.false_eq_true, if_false]
      rw [hwp]
      refine pk_noflip _ _ _ _ _ _ _ _ _ hF.pk ?_
      simp [rpart, zowed, rxData, rxZlp, vout, hk, hf, htv, hr, hhs, hfr]
  · have hcomp := flip_complete_wd c v i hc hp hwd hends
    cases hq : (v.erdyReq || (i.ack && i.hsEp == c.ep && i.nump != 0))
    all_goals
      have hk : vcontrol c v i =
          { fsm := if (v.erdyReq || (i.ack && i.hsEp == c.ep && i.nump != 0)) then .reqIn else .waitSend,
            nrdy := i.ack && i.hsEp == c.ep && i.nump != 0,
            setErdy := i.ack && i.hsEp == c.ep && i.nump != 0, flip := true, clrEndR := true,
            raddr := v.sendPos } := by
        simp [vcontrol, hf, hends]
      rw [hq] at hk
      simp only [Bool.false_eq_true, if_false, if_true] at hk
      constructor
      case partEq =>
        rw [fnext_part, hpart, ppart_complete _ _ _ _ hcomp]; simp only [vnext, hk]; simp [hfr, ppart]
      case wdI => simp only [vnext, hk]; intro h; cases h
      case pk =>
        rw [fnext_pkts, fnext_exp, hpk, hexp]
        simp only [vnext, hk, if_true, Bool.false_eq_true, if_false]
        refine pk_flip _ _ _ _ _ _ _ _ _ _ hF.pk ?_ ?_ ?_ ?_ ?_
        · simp [rpart, hf]
        · simp [zowed, hfr]; omega
        · simp [rxData, rxZlp, vout, hk, htv]
        · simp [hfr, wpart]; omega
        · rw [hwp.symm, wpart_complete _ _ _ _ hcomp]
          simp [rpart, zowed, hr, hhs]

theorem fstep_waitSend (c : Config) (v : View) (g : Ghost) (f : Frame) (i : In) (d : Bool) (hc : CfgOK c)
    (hI : Inv c v g) (hF : InvF c v g f) (he : EnvOK c g i (vout c v i)) (hf : v.fsm = .waitSend) :
    InvF c (vnext c v i) (gnext i (vout c v i) d g) (fnext c.mps i (vout c v i) d g f) := by
  obtain ⟨hr, hp, hh⟩ := he
  obtain ⟨dl, hexp, hwp, hpart, hpk⟩ :=
    write_frame c v i f hc hI.lenW hI.fillW_le hI.fillW_al hI.endW hp hF.partEq
  obtain ⟨hsp, htv, hhs⟩ := hI.idle (Or.inr (Or.inr hf))
  have hm8 := hc.2.1
  have hne := seq_succ_ne v.seq hI.seqlt
  rw [gnext_txidle _ _ _ _ htv, gProd_vout]
  cases htok : (i.ack && i.hsEp == c.ep && i.nump != 0)
  · have hk : vcontrol c v i = { fsm := .waitSend, raddr := v.sendPos } := by
      simp [vcontrol, hf, htok]
    constructor
    case partEq => rw [fnext_part, hpart]; simp only [vnext, hk]; simp
    case wdI => simp only [vnext, hk]; intro h; cases h
    case pk =>
      rw [fnext_pkts, fnext_exp, hpk, hexp]
      simp only [vnext, hk, Bool.false_eq_true, if_false]
      rw [hwp]
      refine pk_noflip _ _ _ _ _ _ _ _ _ hF.pk ?_
      simp [rpart, zowed, rxData, rxZlp, vout, hk, hf, htv, hr, hhs, gZlp]
  · by_cases hfr : v.fillR = 0
    · have hk : vcontrol c v i =
          { fsm := .waitAck, txZlp := true, clrEndR := true, lpz := some true, raddr := v.sendPos } := by
        simp [vcontrol, hf, htok, hfr]
      constructor
      case partEq => rw [fnext_part, hpart]; simp only [vnext, hk]; simp
      case wdI => simp only [vnext, hk]; intro h; cases h
      case pk =>
        rw [fnext_pkts, fnext_exp, hpk, hexp]
        simp only [vnext, hk, Bool.false_eq_true, if_false]
        rw [hwp]
        refine pk_noflip _ _ _ _ _ _ _ _ _ hF.pk ?_
        have hmz : ¬ (0 = c.mps) := by omega
        cases d <;>
          simp [rpart, zowed, rxData, rxZlp, vout, hk, hf, htv, hr, hhs, gZlp, gTx, gProd, receive, hfr, hne, hmz]
    · have hk : vcontrol c v i = { fsm := .send, lpz := some false, raddr := v.sendPos } := by
        simp [vcontrol, hf, htok, hfr]
      constructor
      case partEq => rw [fnext_part, hpart]; simp only [vnext, hk]; simp
      case wdI => simp only [vnext, hk]; intro h; cases h
      case pk =>
        rw [fnext_pkts, fnext_exp, hpk, hexp]
        simp only [vnext, hk, Bool.false_eq_true, if_false]
        rw [hwp]
        refine pk_noflip _ _ _ _ _ _ _ _ _ hF.pk ?_
        simp [rpart, zowed, rxData, rxZlp, vout, hk, hf, htv, hr, hhs, gZlp]

theorem vcontrol_send (c : Config) (v : View) (i : In) (hf : v.fsm = .send) :
    (vcontrol c v i).flip = false ∧ (vcontrol c v i).clrFillR = false ∧ (vcontrol c v i).clrEndR = false ∧
      (vcontrol c v i).advance = false ∧ (vcontrol c v i).txZlp = false ∧ (vcontrol c v i).fsm ≠ .waitData := by
  simp only [vcontrol, hf]
  split <;> simp
  split <;> simp

theorem fstep_send (c : Config) (v : View) (g : Ghost) (f : Frame) (i : In) (d : Bool) (hc : CfgOK c)
    (hI : Inv c v g) (hF : InvF c v g f) (he : EnvOK c g i (vout c v i)) (hf : v.fsm = .send) :
    InvF c (vnext c v i) (gnext i (vout c v i) d g) (fnext c.mps i (vout c v i) d g f) := by
  obtain ⟨hr, hp, hh⟩ := he
  obtain ⟨dl, hexp, hwp, hpart, hpk⟩ :=
    write_frame c v i f hc hI.lenW hI.fillW_le hI.fillW_al hI.endW hp hF.partEq
  obtain ⟨hlpz, hpos, hrd, hv0, hv1⟩ := hI.snd hf
  obtain ⟨hfl, hcf, hce, hadv, hz, hnwd⟩ := vcontrol_send c v i hf
  have hlast : v.txValid ≠ 0 → v.txLast = false := fun h => (hv1 h).2.2.1
  constructor
  case partEq => rw [fnext_part, hpart]; simp only [vnext, hfl]; simp
  case wdI => simp only [vnext]; intro h; exact absurd h hnwd
  case pk =>
    rw [fnext_pkts, fnext_exp, hpk, hexp]
    simp only [vnext, hfl, hcf, hce, Bool.false_eq_true, if_false]
    rw [hwp]
    refine pk_noflip _ _ _ _ _ _ _ _ _ hF.pk ?_
    by_cases htv : v.txValid = 0
    · simp [rpart, zowed, rxData, rxZlp, vout, hf, htv, hr, hadv, hz, hnwd, gnext, gZlp, gTx, gProd]
    · have hl := hlast htv
      simp [rpart, zowed, rxData, rxZlp, vout, hf, htv, hr, hadv, hz, hnwd, gnext, gZlp, gTx, gProd, hl]
      cases i.txReady <;> simp

end LunaVerif.SSStreamIn
