import LunaVerif.Lemmas.C07Mps
import LunaVerif.Lemmas.C07StreamExamples
/-!
# Non-vacuity of `cycle_refines_event_streams_run_mps` for `max_packet_size = 8` and `16`, evaluated by the kernel

`max_packet_size = 8`: GET_DESCRIPTOR of the 18-byte device descriptor with wLength 64 (three data packets, 8 + 8 + 2
bytes, DATA1 / DATA0 / DATA1, `start_position` 0 / 8 / 16, a bulk IN transaction with its own ACK between two
data-stage INs), GET_DESCRIPTOR of a 16-byte descriptor with wLength 64 (8 + 8 bytes and -- the length is a multiple of
the max packet size and shorter than wLength -- a zero-length packet), the same descriptor with wLength 16 (8 + 8 bytes;
a further IN would get a zero-length packet, the host goes to the status stage), a missing descriptor (STALL), GET_STATUS,
bus reset.  `max_packet_size = 16`: the 18-byte descriptor in two packets (16 + 2).  Every stream window has stalled
`tx.ready` cycles and a streamer latency of 3 cycles.  With `Device.core` (advance by 64) the second packets would be
read at offset 64, i.e. come out empty: `coreResps` differs from the cycle-level bus responses.
-/
namespace LunaVerif.CtrlCyc
open LunaVerif.Device

def exCfg8 : DevConfig :=
  { descriptors := [(1, 0, [18, 1, 0, 2, 0, 0, 0, 8, 9, 18, 1, 0, 0, 1, 1, 2, 3, 1]), (2, 0, List.range 16)],
    maxPacket := 8, posBits := 5 }

def exCfg16 : DevConfig := { exCfg8 with maxPacket := 16 }

def exHistory8 : List (Stim × GapsS) :=
  -- GET_DESCRIPTOR(device, wLength 64): 8 bytes, bulk IN + ACK for endpoint 1, 8 bytes, 2 bytes, status
  [setupTok, setupData [0x80, 6, 0, 1, 0, 0, 64, 0], inTok 8, hostAck,
   (⟨.token PID_IN 0 1, .data PID_DATA0 [7]⟩, exG 0), hostAck, inTok 8, hostAck, inTok 2, hostAck] ++ statusOut ++
  -- GET_DESCRIPTOR(type 2, 16 bytes, wLength 64): 8 + 8 bytes, then the zero-length packet
  [setupTok, setupData [0x80, 6, 0, 2, 0, 0, 64, 0], inTok 8, hostAck, inTok 8, hostAck, inTok 0, hostAck] ++ statusOut ++
  -- GET_DESCRIPTOR(type 2, 16 bytes, wLength 16): 8 + 8 bytes, status stage
  [setupTok, setupData [0x80, 6, 0, 2, 0, 0, 16, 0], inTok 8, hostAck, inTok 8, hostAck] ++ statusOut ++
  -- GET_DESCRIPTOR(type 9): STALL
  [setupTok, setupData [0x80, 6, 0, 9, 0, 0, 18, 0], inTok 0] ++
  -- GET_STATUS
  [setupTok, setupData [0x80, 0, 0, 0, 0, 0, 2, 0], inTok 2, hostAck] ++ statusOut ++
  [(⟨.busReset, .none⟩, exG 0)]

-- the hypotheses of `cycle_refines_event_streams_from_reset_mps`
example : exCfg8.extra = [] ∧ exCfg8.maxPacket = 8 := ⟨rfl, rfl⟩
example : FitsFromM exCfg8 Device.init exHistory8 = true := by decide +kernel
-- what the event-level model answers
example : coreRespsM exCfg8 Device.init (exHistory8.map (·.1)) =
    [.none, .hs PID_ACK, .data PID_DATA1 [18, 1, 0, 2, 0, 0, 0, 8], .none, .none, .none,
     .data PID_DATA0 [9, 18, 1, 0, 0, 1, 1, 2], .none, .data PID_DATA1 [3, 1], .none, .none, .hs PID_ACK,
     .none, .hs PID_ACK, .data PID_DATA1 [0, 1, 2, 3, 4, 5, 6, 7], .none, .data PID_DATA0 [8, 9, 10, 11, 12, 13, 14, 15], .none,
     .data PID_DATA1 [], .none, .none, .hs PID_ACK,
     .none, .hs PID_ACK, .data PID_DATA1 [0, 1, 2, 3, 4, 5, 6, 7], .none, .data PID_DATA0 [8, 9, 10, 11, 12, 13, 14, 15], .none,
     .none, .hs PID_ACK,
     .none, .hs PID_ACK, .hs PID_STALL,
     .none, .hs PID_ACK, .data PID_DATA1 [0, 0], .none, .none, .hs PID_ACK,
     .none] := by decide +kernel
-- the theorem's conclusion, evaluated independently on the cycle-level model (max_packet_size = 8)
example : busRespsM exCfg8 Device.init CtrlCyc.init exHistory8 = coreRespsM exCfg8 Device.init (exHistory8.map (·.1)) := by
  decide +kernel
-- `start_position` after the second ACK of the first transfer: 16 in both models
example : (finalM exCfg8 Device.init ((exHistory8.take 8).map (·.1))).startPos = 16 := by decide +kernel
example : (final (cfgOf exCfg8) CtrlCyc.init ((expandAllRM exCfg8 Device.init (exHistory8.take 8)).map (·.2))).h.startPos = 16 := by
  decide +kernel
-- the model of Model/Device/Control.lean (advance by 64) is NOT refined for max_packet_size = 8
example : busRespsM exCfg8 Device.init CtrlCyc.init (exHistory8.take 8) ≠
    coreResps exCfg8 Device.init ((exHistory8.take 8).map (·.1)) := by decide +kernel

/-! `max_packet_size = 16` -/
def exHistory16 : List (Stim × GapsS) :=
  [setupTok, setupData [0x80, 6, 0, 1, 0, 0, 64, 0], inTok 16, hostAck, inTok 2, hostAck] ++ statusOut

example : FitsFromM exCfg16 Device.init exHistory16 = true := by decide +kernel
example : coreRespsM exCfg16 Device.init (exHistory16.map (·.1)) =
    [.none, .hs PID_ACK, .data PID_DATA1 [18, 1, 0, 2, 0, 0, 0, 8, 9, 18, 1, 0, 0, 1, 1, 2], .none,
     .data PID_DATA0 [3, 1], .none, .none, .hs PID_ACK] := by decide +kernel
example : busRespsM exCfg16 Device.init CtrlCyc.init exHistory16 = coreRespsM exCfg16 Device.init (exHistory16.map (·.1)) := by
  decide +kernel

end LunaVerif.CtrlCyc
