import LunaVerif.Lemmas.C20Device
import LunaVerif.Lemmas.C20CtrlContract
/-!
# C20 — the closed device WITH its control endpoint: `restHolds` discharged for the control endpoint's own logic

`Lemmas/C20Device.lean` closes the packet layer with the bulk IN / bulk OUT / status endpoint models and leaves the
control endpoint as the "rest slot", an input ASSUMED to keep the slot contract (`restHolds`).  Here the rest slot is
driven by C07's closed loop `sys2Step` (control endpoint + request-handler multiplexer + standard request handler +
serializer + block descriptor handler), wired to the packet layer as `USBDevice.add_endpoint` wires it (tokenizer,
`rx_ready_for_response`, `handshakes_in.ack`, `tx.ready` in; handshakes, `tx`, `tx_pid_toggle`, halt-clear strobe out).
`ctrl_keeps_contract`'s environment assumption `ctlEnv` is derived from the packet layer's invariant (`ctl_env`: the
pulse decode, the exclusive PID decode, no pulse while an answer is owed or under way) and `decOk`, so `restHolds`
becomes a theorem (`restHolds_of_ctl`) and the three closed-device theorems hold with `hostHolds` + `decHolds`
(`ctl_closed_tx_never_during_rx`, …).

What `decOk` still ASSUMES in every cycle (the setup decoder, the handshake detector and the reset sequencer are inputs):
* `setup_decoder.ack` only in a cycle with the receiver's `ready_for_response` while the tokenizer shows SETUP;
  `packet.received` only while the tokenizer shows SETUP;
* while the control slot is armed or sending: no `packet.received`, no host ACK forwarded to the handlers, `setup.type`
  unchanged;
* `timer.start` (the decoder's `new_packet`) only in the cycle after a reception ended;
* the handler's `start_position` fits `position_in_stream` when the descriptor handler leaves IDLE (legal host);
* the reset sequencer does not transmit.
-/
namespace LunaVerif.DevCtl
open LunaVerif LunaVerif.DevCyc LunaVerif.DevCyc.Abs LunaVerif.C20Ctr LunaVerif.DevEp LunaVerif.CtrlCyc

/-- What the setup decoder shows the control endpoint in a cycle (still an input). -/
structure DecIn where
  received     : Bool
  sdAck        : Bool
  su           : Device.Setup
  activeConfig : Nat
deriving Repr

structure Config where
  ep  : DevEp.Config
  ctl : CtrlCyc.Cfg
  blk : Desc.Block.Config

structure State where
  ep  : DevEp.State
  ctl : Sys2State

def init (c : Config) : State := ⟨DevEp.init c.ep, sys2Init⟩

/-- The control endpoint's view of the packet layer (`USBDevice.add_endpoint` / `USBEndpointMultiplexer` wiring). -/
def ctlIn (x : Ext) (d : DecIn) (o : DevCyc.Out) : CycIn :=
  { tokEp := o.tok.regs.endpoint, newToken := o.tok.regs.newToken, readyForResponse := o.tok.readyForResponse,
    isIn := o.tok.isIn, isOut := o.tok.isOut, isSetup := o.tok.isSetup, isPing := o.tok.isPing,
    rxReady := o.rxo.ready, hsAck := x.hsAck, activeConfig := d.activeConfig, txReady := o.streamReady,
    received := d.received, sdAck := d.sdAck, su := d.su }

/-- The control endpoint's `EndpointInterface` outputs. -/
def drvOf (o : CycOut) : EpMux.Drv :=
  { valid := o.txValid, first := o.txFirst, last := o.txLast, payload := o.txPayload, pid := o.txPidToggle,
    ack := o.ack, nak := o.nak, stall := o.stall, chEnable := o.cehEnable, chDir := o.cehDirection,
    chNum := o.cehNumber, addrChg := o.addressChanged, newAddr := o.newAddress, cfgChg := o.configChanged,
    newCfg := o.newConfig }

def ctlCycle (c : Config) (W : State) (x : Ext) (d : DecIn) : Sys2State × CycOut :=
  sys2Step c.ctl c.blk W.ctl (ctlIn x d (fwd c.ep W.ep x))

/-- The inputs of the closed device `DevEp` in this cycle: the rest slot is the control endpoint. -/
def extOf (c : Config) (W : State) (x : Ext) (d : DecIn) : Ext := { x with rest := drvOf (ctlCycle c W x d).2 }

def step (c : Config) (W : State) (x : Ext) (d : DecIn) : State :=
  ⟨(DevEp.step c.ep W.ep (extOf c W x d)).1, (ctlCycle c W x d).1⟩

/-- The `DevEp` input history along the run of the device with its control endpoint. -/
def extsOf (c : Config) : State → List (Ext × DecIn) → List Ext
  | _, [] => []
  | W, (x, d) :: ys => extOf c W x d :: extsOf c (step c W x d) ys

theorem fwd_ext (c : Config) (W : State) (x : Ext) (d : DecIn) : fwd c.ep W.ep (extOf c W x d) = fwd c.ep W.ep x := rfl

/-- What is assumed of the setup decoder, the handshake detector and the host in one cycle. -/
def decOk (c : Config) (W : State) (g : Ghost) (q : Phs) (pty : Nat) (x : Ext) (d : DecIn) : Bool :=
  let o := fwd c.ep W.ep x
  (!d.sdAck || (o.rxo.ready && o.tok.isSetup)) &&
  (!d.received || o.tok.isSetup) &&
  (q.r == .idle || (!d.received && !(ctrlComb c.ctl W.ctl.cs.stage (ctlIn x d o)).hsAck && d.su.type == pty)) &&
  (W.ctl.blk.fsm != .start || decide (W.ctl.cs.h.startPos < 2 ^ c.blk.img.posW)) &&
  (!x.restTimer || (!g.a1 && g.a2)) && !x.rsValid

theorem pid_decode (c : Config) (W : State) (x : Ext) :
    let o := fwd c.ep W.ep x
    o.tok.isIn = (o.tok.regs.pid == 9) ∧ o.tok.isOut = (o.tok.regs.pid == 1) ∧ o.tok.isSetup = (o.tok.regs.pid == 13) ∧
    o.tok.isPing = (o.tok.regs.pid == 4) := by
  simp [fwd, DevCyc.step, TokenDetector.step]

/-- The control endpoint's number differs from those of the three other endpoints. -/
def epsOk (c : Config) : Prop :=
  c.ctl.epNum ≠ c.ep.epIn ∧ c.ctl.epNum ≠ c.ep.out.epNum ∧ c.ctl.epNum ≠ c.ep.sig.epNum

/-- A pulse finds the rest slot idle (the packet layer's invariant: no pulse while an answer is owed or under way). -/
theorem pulse_idle (c : DevEp.Config) (p : Params) (hs : strobes c.dev.tok.timer c.dev.speed = true)
    {S : DevEp.State} {g : Ghost} {q : Phs} (x : Ext) (hg : Good c p S g q) (hp : pulse (fwd c S x) = true) :
    q.r = .idle := by
  obtain ⟨m1, m2, m3⟩ := mode_facts hg.inv.mode
  rw [← pulse_eq c.dev hs S.dev (fullIn c S x), fwd_pulse] at m1 m2 m3
  have hl := hg.link
  have : orPh q.r (orPh q.i (orPh q.o (orPh q.s .idle))) = .idle := by
    generalize orPh q.r (orPh q.i (orPh q.o (orPh q.s .idle))) = ph at hl ⊢
    cases ph with
    | idle => rfl
    | armed j => have := hl.armed j rfl; simp [m3 hp] at this
    | sending =>
      have hb := hl.send.mp rfl
      have hne : (skel S.dev).gf ≠ .idle := by
        show S.dev.gen.fsm ≠ .idle
        rcases hb with ⟨h1, _⟩ | h1 <;> simp [h1]
      have := (m1 hne).1
      simp [hp] at this
  exact (orPh_idle.mp this).1

/-- **`ctlEnv` from the packet layer.**  In the closed device the environment assumption of `ctrl_keeps_contract`
follows from the packet layer's invariant and `decOk`. -/
theorem ctl_env (c : Config) (p : Params) (hs : strobes c.ep.dev.tok.timer c.ep.dev.speed = true) (he : epsOk c)
    {W : State} {g : Ghost} {q : Phs} {pty : Nat} {x : Ext} {d : DecIn} (hg : Good c.ep p W.ep g q)
    (hd : decOk c W g q pty x d = true) :
    ctlEnv c.ctl c.blk W.ctl ⟨q.r, pty⟩ (ctlIn x d (fwd c.ep W.ep x)) (pulR c.ep W.ep (extOf c W x d)) = true := by
  obtain ⟨e1, e2, e3⟩ := he
  obtain ⟨k1, k2, k3, k4⟩ := pid_decode c W x
  simp only [decOk, Bool.and_eq_true, Bool.or_eq_true, Bool.not_eq_eq_eq_not, Bool.not_true, beq_iff_eq,
    decide_eq_true_eq, bne_iff_ne, ne_eq] at hd
  obtain ⟨⟨⟨⟨⟨d1, d2⟩, d3⟩, d4⟩, d5⟩, d6⟩ := hd
  have hidle := pulse_idle c.ep p hs x hg
  simp only [ctlEnv, Bool.and_eq_true, Bool.or_eq_true, Bool.not_eq_eq_eq_not, Bool.not_true, beq_iff_eq,
    decide_eq_true_eq, bne_iff_ne, ne_eq]
  have hpr : pulR c.ep W.ep (extOf c W x d) = pulR c.ep W.ep x := rfl
  rw [hpr]
  refine ⟨⟨⟨⟨⟨?_, ?_⟩, ?_⟩, ?_⟩, ?_⟩, d4⟩
  · -- a pulse for the control endpoint's number is not addressed to one of the other three
    simp only [ctlPulse, targeted, ctlIn, pulR, pulI, pulO, pulS, pulse, InXfer.inTok, inIn, Out2.pul,
      StreamOutEndpoint.comb, outIn, SignalIn.packetRequested, sigIn]
    generalize fwd c.ep W.ep x = o
    by_cases hep : o.tok.regs.endpoint = c.ctl.epNum
    · simp only [hep, beq_self_eq_true, Bool.true_and]
      cases o.tok.readyForResponse <;> cases o.tok.isIn <;> cases o.tok.isPing <;> cases o.rxo.ready <;>
        cases o.tok.isOut <;> simp [e1, e2, e3]
    · left; simp [hep]
  · -- the decoder's ACK comes at the receiver's pulse after a SETUP token
    rcases d1 with h | h
    · exact Or.inl h
    · right
      obtain ⟨h1, h2⟩ := h
      refine ⟨?_, h2⟩
      have hpid : (fwd c.ep W.ep x).tok.regs.pid = 13 := by rw [k3] at h2; simpa using h2
      have i1 : (fwd c.ep W.ep x).tok.isIn = false := by rw [k1, hpid]; rfl
      have i2 : (fwd c.ep W.ep x).tok.isOut = false := by rw [k2, hpid]; rfl
      have i4 : (fwd c.ep W.ep x).tok.isPing = false := by rw [k4, hpid]; rfl
      simp [pulR, pulI, pulO, pulS, pulse, InXfer.inTok, inIn, Out2.pul, StreamOutEndpoint.comb, outIn,
        SignalIn.packetRequested, sigIn, h1, i1, i2, i4]
  · exact d2
  · simp only [pidExcl, ctlIn, k1, k2, k3, k4]
    generalize (fwd c.ep W.ep x).tok.regs.pid = n
    by_cases h9 : n = 9 <;> by_cases h1 : n = 1 <;> by_cases h13 : n = 13 <;> by_cases h4 : n = 4 <;> simp_all
  · by_cases hq : q.r = .idle
    · exact Or.inl hq
    · right
      rcases d3 with h | h
      · exact absurd h hq
      · refine ⟨⟨⟨?_, h.1.1⟩, h.1.2⟩, h.2⟩
        cases hp : pulR c.ep W.ep x with
        | false => rfl
        | true =>
          simp only [pulR, Bool.and_eq_true] at hp
          exact absurd (hidle hp.1) hq

/-! ### The joint invariant -/

structure Joint (c : Config) (p : Params) (W : State) (g : Ghost) (q : Phs) (pty : Nat) : Prop where
  good : Good c.ep p W.ep g q
  rel  : CtrlCyc.R W.ctl ⟨q.r, pty⟩

theorem joint_init (c : Config) (p : Params) : Joint c p (init c) ghostInit phs0 0 :=
  ⟨good_init c.ep p, R_init⟩

/-- One cycle of the device with its control endpoint: the rest slot (= the control endpoint) keeps the slot contract,
and the joint invariant is kept. -/
theorem joint_step (c : Config) (p : Params) (hs : strobes c.ep.dev.tok.timer c.ep.dev.speed = true)
    (hT : delayOf c.ep.dev.tok.timer c.ep.dev.speed + p.L + 2 < p.T) (hne : c.ep.epIn ≠ c.ep.sig.epNum)
    (he : epsOk c) (hL : 3 ≤ p.L) {W : State} {g : Ghost} {q : Phs} {pty : Nat} {x : Ext} {d : DecIn}
    (hJ : Joint c p W g q pty) (hh : hostOk g (fullIn c.ep W.ep (extOf c W x d)) = true)
    (hd : decOk c W g q pty x d = true) :
    (cstep p.L q.r (pulR c.ep W.ep (extOf c W x d)) (fwd c.ep W.ep (extOf c W x d)).streamReady g.a1 g.a2
        (restSig (extOf c W x d))).1 = true ∧
    Joint c p (step c W x d)
      (ghostNext p g W.ep.dev (fullIn c.ep W.ep (extOf c W x d)) (DevEp.step c.ep W.ep (extOf c W x d)).2)
      (nextPhs p.L c.ep W.ep (extOf c W x d) q) d.su.type := by
  have henv := ctl_env c p hs he hJ.good hd
  obtain ⟨c1, c2⟩ := ctl_step c.ctl c.blk p.L hL hJ.rel henv
  simp only [decOk, Bool.and_eq_true, Bool.or_eq_true, Bool.not_eq_eq_eq_not, Bool.not_true] at hd
  obtain ⟨⟨_, d5⟩, d6⟩ := hd
  have hr : (cstep p.L q.r (pulR c.ep W.ep (extOf c W x d)) (fwd c.ep W.ep (extOf c W x d)).streamReady g.a1 g.a2
      (restSig (extOf c W x d))).1 = true := by
    simp only [cstep, Bool.and_eq_true]
    refine ⟨c1, ?_⟩
    simp only [tOk, restSig, extOf, Bool.or_eq_true, Bool.not_eq_eq_eq_not, Bool.not_true]
    rcases d5 with h | h
    · exact Or.inl h
    · exact Or.inr (by simpa using h)
  obtain ⟨_, hg'⟩ := good_step c.ep p hs hT hne hJ.good hh d6 hr
  exact ⟨hr, hg', c2⟩

/-! ### Along a history -/

/-- What is assumed of the setup decoder, the handshake detector, the host's requests and the reset sequencer along the
run. -/
def decHolds (c : Config) (p : Params) : State → Ghost → Phs → Nat → List (Ext × DecIn) → Bool
  | _, _, _, _, [] => true
  | W, g, q, pty, (x, d) :: ys =>
    decOk c W g q pty x d &&
      decHolds c p (step c W x d)
        (ghostNext p g W.ep.dev (fullIn c.ep W.ep (extOf c W x d)) (DevEp.step c.ep W.ep (extOf c W x d)).2)
        (nextPhs p.L c.ep W.ep (extOf c W x d) q) d.su.type ys

theorem restHolds_of_joint (c : Config) (p : Params) (hs : strobes c.ep.dev.tok.timer c.ep.dev.speed = true)
    (hT : delayOf c.ep.dev.tok.timer c.ep.dev.speed + p.L + 2 < p.T) (hne : c.ep.epIn ≠ c.ep.sig.epNum)
    (he : epsOk c) (hL : 3 ≤ p.L) (ys : List (Ext × DecIn)) :
    ∀ (W : State) (g : Ghost) (q : Phs) (pty : Nat), Joint c p W g q pty →
      hostHolds c.ep.dev p W.ep.dev g (devIns c.ep W.ep (extsOf c W ys)) = true →
      decHolds c p W g q pty ys = true → restHolds c.ep p W.ep g q (extsOf c W ys) = true := by
  induction ys with
  | nil => intros; rfl
  | cons y ys ih =>
    intro W g q pty hJ hh hd
    obtain ⟨x, d⟩ := y
    simp only [extsOf, devIns, hostHolds, decHolds, Bool.and_eq_true] at hh hd
    obtain ⟨hh1, hh2⟩ := hh
    obtain ⟨hd1, hd2⟩ := hd
    obtain ⟨hr, hJ'⟩ := joint_step c p hs hT hne he hL hJ hh1 hd1
    have hrs : x.rsValid = false := by
      simp only [decOk, Bool.and_eq_true, Bool.not_eq_eq_eq_not, Bool.not_true] at hd1
      exact hd1.2
    simp only [extsOf, restHolds, Bool.and_eq_true, Bool.not_eq_eq_eq_not, Bool.not_true]
    exact ⟨⟨hr, hrs⟩, ih _ _ _ _ hJ' hh2 hd2⟩

/-- **`restHolds` discharged for the control endpoint's own logic.**  With the rest slot of the closed device driven by
the closed loop control endpoint + request handlers + serializer + block descriptor handler (`sys2Step`), the slot
contract of the rest slot follows from the host assumption and `decHolds`. -/
theorem restHolds_of_ctl (c : Config) (p : Params) (hs : strobes c.ep.dev.tok.timer c.ep.dev.speed = true)
    (hT : delayOf c.ep.dev.tok.timer c.ep.dev.speed + p.L + 2 < p.T) (hne : c.ep.epIn ≠ c.ep.sig.epNum)
    (he : epsOk c) (hL : 3 ≤ p.L) (ys : List (Ext × DecIn))
    (hh : hostHolds c.ep.dev p DevCyc.init ghostInit (devIns c.ep (DevEp.init c.ep) (extsOf c (init c) ys)) = true)
    (hd : decHolds c p (init c) ghostInit phs0 0 ys = true) :
    restHolds c.ep p (DevEp.init c.ep) ghostInit phs0 (extsOf c (init c) ys) = true :=
  restHolds_of_joint c p hs hT hne he hL ys (init c) ghostInit phs0 0 (joint_init c p) hh hd

/-- The device with its control endpoint never transmits while a received packet is in progress. -/
theorem ctl_closed_tx_never_during_rx (c : Config) (p : Params)
    (hs : strobes c.ep.dev.tok.timer c.ep.dev.speed = true)
    (hT : delayOf c.ep.dev.tok.timer c.ep.dev.speed + p.L + 2 < p.T) (hne : c.ep.epIn ≠ c.ep.sig.epNum)
    (he : epsOk c) (hL : 3 ≤ p.L) (ys : List (Ext × DecIn))
    (hh : hostHolds c.ep.dev p DevCyc.init ghostInit (devIns c.ep (DevEp.init c.ep) (extsOf c (init c) ys)) = true)
    (hd : decHolds c p (init c) ghostInit phs0 0 ys = true) :
    ∀ o ∈ DevEp.run c.ep (DevEp.init c.ep) (extsOf c (init c) ys), o.txValid = true → o.rxActive = false :=
  closed_tx_never_during_rx c.ep p hs hT hne _ hh (restHolds_of_ctl c p hs hT hne he hL ys hh hd)

theorem ctl_closed_transmitters_exclusive (c : Config) (p : Params)
    (hs : strobes c.ep.dev.tok.timer c.ep.dev.speed = true)
    (hT : delayOf c.ep.dev.tok.timer c.ep.dev.speed + p.L + 2 < p.T) (hne : c.ep.epIn ≠ c.ep.sig.epNum)
    (he : epsOk c) (hL : 3 ≤ p.L) (ys : List (Ext × DecIn))
    (hh : hostHolds c.ep.dev p DevCyc.init ghostInit (devIns c.ep (DevEp.init c.ep) (extsOf c (init c) ys)) = true)
    (hd : decHolds c p (init c) ghostInit phs0 0 ys = true) :
    ∀ o ∈ DevEp.run c.ep (DevEp.init c.ep) (extsOf c (init c) ys), ¬ (o.hsValid = true ∧ o.genValid = true) :=
  closed_transmitters_exclusive c.ep p hs hT hne _ hh (restHolds_of_ctl c p hs hT hne he hL ys hh hd)

theorem ctl_closed_tx_only_in_response_window (c : Config) (p : Params)
    (hs : strobes c.ep.dev.tok.timer c.ep.dev.speed = true)
    (hT : delayOf c.ep.dev.tok.timer c.ep.dev.speed + p.L + 2 < p.T) (hne : c.ep.epIn ≠ c.ep.sig.epNum)
    (he : epsOk c) (hL : 3 ≤ p.L) (ys : List (Ext × DecIn))
    (hh : hostHolds c.ep.dev p DevCyc.init ghostInit (devIns c.ep (DevEp.init c.ep) (extsOf c (init c) ys)) = true)
    (hd : decHolds c p (init c) ghostInit phs0 0 ys = true) :
    ∀ go ∈ traceG c.ep.dev p DevCyc.init ghostInit (devIns c.ep (DevEp.init c.ep) (extsOf c (init c) ys)),
      go.2.txValid = true → go.1.win ≠ .closed :=
  closed_tx_only_in_response_window c.ep p hs hT hne _ hh (restHolds_of_ctl c p hs hT hne he hL ys hh hd)

end LunaVerif.DevCtl
