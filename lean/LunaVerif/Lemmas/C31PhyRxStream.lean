import LunaVerif.Props.C31Phy
import LunaVerif.Props.C32
import LunaVerif.Props.C34
import LunaVerif.Model.Usb3.PhyRx

/-!
# C31 — the receive half of `USB3PhysicalLayer` as a stream function

`Model/Usb3/PhyRx.lean` composes the models of CTCSkipRemover (C32), RxWordAligner / RxPacketAligner (C34) and
Descrambler (C31) as physical/layer.py wires them.  The stages are coupled feed-forward only (valid/data/ctrl;
every `ready` is constant 1), so a run of the composition is the composition of the stages' traces (`run_split`).
Per stage:

* remover  — C32's `run_refines`: words out ++ symbols held = symbols held ++ pin symbols without SKP;
* aligner  — while its shift stays `e` it is a symbol FIFO (`aligner_fifoS`; at shift 0 a two-word FIFO,
             `aligner_fifo0`): one valid beat in, one valid beat out, an invalid beat in, an invalid beat out;
* descrambler — `descrambler_on_valid_words`: the register moves exactly once per VALID beat, the valid beats
             leave descrambled in order: "the keystream advances only when a word is actually transferred".

`front_stream` / `back_stream` put the stages together.
-/
namespace LunaVerif.PhyRx
open LunaVerif.Crc LunaVerif.Scrambler LunaVerif.Ss
open LunaVerif.PhyTx (toSs headIsCom)

abbrev Word := List Ss.Sym

/-! ## The four stages as trace transformers -/

/-- valid words of an aligner's output trace -/
def alWords : List RxAligner.Out → List Word
  | [] => []
  | o :: os => if o.srcValid then o.srcWord :: alWords os else alWords os

/-- valid words of an aligner's input trace -/
def inWords : List RxAligner.In → List Word
  | [] => []
  | i :: is => if i.valid then i.word :: inWords is else inWords is

/-- the descrambler over the word aligner's output trace: the packet aligner's input trace -/
def dTrace (en : Bool) : Reg → List RxAligner.Out → List RxAligner.In
  | _, [] => []
  | r, o :: os =>
    palIn (Scrambler.step descrInit r (descrIn o en)).2 :: dTrace en (Scrambler.step descrInit r (descrIn o en)).1 os

def dFinal (en : Bool) : Reg → List RxAligner.Out → Reg
  | r, [] => r
  | r, o :: os => dFinal en (Scrambler.step descrInit r (descrIn o en)).1 os

/-- the receive path's `source` beats -/
def srcWords : List Out → List Word
  | [] => []
  | o :: os => if o.srcValid then o.srcWord :: srcWords os else srcWords os

/-- the remover's trace for a pin history -/
def ctcTrace (s : State) (ins : List In) : List CtcRemover.Out := (CtcRemover.run s.ctc (ins.map ctcIn)).1
/-- the word aligner's trace -/
def walTrace (s : State) (ins : List In) : List RxAligner.Out :=
  RxAligner.run .word s.wal ((ctcTrace s ins).map walIn)
/-- the packet aligner's input trace -/
def palInTrace (en : Bool) (s : State) (ins : List In) : List RxAligner.In := dTrace en s.reg (walTrace s ins)

theorem run_split (en : Bool) (s : State) (ins : List In) (hen : ∀ i ∈ ins, i.enable = en) :
    srcWords (run s ins).1 = alWords (RxAligner.run .packet s.pal (palInTrace en s ins)) ∧
    (run s ins).2.ctc = (CtcRemover.run s.ctc (ins.map ctcIn)).2 ∧
    (run s ins).2.wal = RxAligner.final .word s.wal ((ctcTrace s ins).map walIn) ∧
    (run s ins).2.reg = dFinal en s.reg (walTrace s ins) ∧
    (run s ins).2.pal = RxAligner.final .packet s.pal (palInTrace en s ins) := by
  induction ins generalizing s with
  | nil => simp [run, srcWords, alWords, palInTrace, walTrace, ctcTrace, CtcRemover.run, RxAligner.run, dTrace,
      RxAligner.final, dFinal]
  | cons i is ih =>
    have hi : i.enable = en := hen i (by simp)
    have := ih (step s i).1 (fun j hj => hen j (by simp [hj]))
    simp only [palInTrace, walTrace, ctcTrace] at this ⊢
    simp only [run, srcWords, List.map_cons, CtcRemover.run, RxAligner.run, dTrace, alWords, RxAligner.final, dFinal]
    simp only [step, RxAligner.step, hi] at this ⊢
    refine ⟨?_, this.2.1, this.2.2.1, this.2.2.2.1, this.2.2.2.2⟩
    rw [this.1]


/-! ## An aligner that keeps shift 0 is a two-word FIFO -/

/-- the words an aligner at shift 0 still holds: the registered output beat (if valid) and the history word -/
def tailW (a : RxAligner.State) : List Word := (if a.srcValid then [a.src] else []) ++ [a.prev]

theorem window_zero (p w : Word) (hp : p.length = 4) : RxAligner.window 0 (p ++ w) = p := by
  unfold RxAligner.window
  rw [List.drop_zero, List.take_append_of_le_length (by omega), ← hp, List.take_length]

theorem aligner_fifo0 (kd : RxAligner.Kind) (a : RxAligner.State) (I : List RxAligner.In)
    (hs : a.shift = 0) (hp : a.prev.length = 4) (hsl : a.srcValid = true → a.src.length = 4)
    (hwf : ∀ w ∈ inWords I, w.length = 4) (hq : RxAligner.NoRealign kd 0 a.prev I) :
    alWords (RxAligner.run kd a I) ++ tailW (RxAligner.final kd a I) = tailW a ++ inWords I ∧
    (RxAligner.final kd a I).shift = 0 ∧ (RxAligner.final kd a I).prev.length = 4 ∧
    ((RxAligner.final kd a I).srcValid = true → (RxAligner.final kd a I).src.length = 4) := by
  induction I generalizing a with
  | nil => simp [RxAligner.run, RxAligner.final, alWords, inWords, hs, hp]; exact hsl
  | cons i is ih =>
    obtain ⟨hsrc, hval, hpv⟩ := RxAligner.next_fields kd a i
    cases hv : i.valid
    · have hwf' : ∀ w ∈ inWords is, w.length = 4 := by
        intro w hw; apply hwf; simp [inWords, hv, hw]
      simp only [RxAligner.NoRealign, hv, Bool.false_eq_true, if_false] at hq
      obtain ⟨ho, hsh⟩ := RxAligner.next_no_detect kd a i (Or.inl hv)
      rw [hv] at hval hpv
      simp only [Bool.false_eq_true, if_false] at hpv
      have := ih (RxAligner.next kd a i) (by rw [hsh, hs]) (by rw [hpv]; exact hp) (by rw [hval]; intro h; cases h)
        hwf' (by rw [hpv]; exact hq)
      refine ⟨?_, this.2⟩
      simp only [RxAligner.run, RxAligner.final, alWords, inWords, RxAligner.outOf, hv, Bool.false_eq_true, if_false]
      have h1 := this.1
      simp only [tailW, hval, hpv, Bool.false_eq_true, if_false, List.nil_append] at h1
      cases hsv : a.srcValid <;> simp [tailW, hsv, h1]
    · have hiw : i.word.length = 4 := by apply hwf; simp [inWords, hv]
      have hwf' : ∀ w ∈ inWords is, w.length = 4 := by
        intro w hw; apply hwf; simp [inWords, hv, hw]
      simp only [RxAligner.NoRealign, hv, if_true] at hq
      have hoff : (RxAligner.next kd a i).offset = 0 ∧ (RxAligner.next kd a i).shift = 0 := by
        rcases hq.1 with hn | hd
        · have := RxAligner.next_no_detect kd a i (Or.inr hn); rw [hs] at this; exact this
        · exact RxAligner.next_detect kd a i 0 hv hd
      rw [hv] at hval hpv
      simp only [if_true] at hpv
      rw [hoff.1, window_zero _ _ hp] at hsrc
      have := ih (RxAligner.next kd a i) hoff.2 (by rw [hpv]; exact hiw) (by rw [hsrc]; exact fun _ => hp)
        hwf' (by rw [hpv]; exact hq.2)
      refine ⟨?_, this.2⟩
      simp only [RxAligner.run, RxAligner.final, alWords, inWords, RxAligner.outOf, hv, if_true]
      have h1 := this.1
      simp only [tailW, hval, hpv, hsrc, if_true] at h1
      cases hsv : a.srcValid <;> simp [tailW, hsv, h1]

/-! ## An aligner that keeps shift `e` is a symbol FIFO -/

/-- the registered output beat, if valid -/
def srcS (a : RxAligner.State) : List Ss.Sym := if a.srcValid then a.src else []

/-- the symbols an aligner at shift `e` still holds: the registered output beat (if valid) and the last `4 - e`
symbols of the history word -/
def tailS (e : Nat) (a : RxAligner.State) : List Ss.Sym := srcS a ++ a.prev.drop e

theorem window_tail (e : Nat) (p w : Word) (hp : p.length = 4) (he : e ≤ 4) :
    RxAligner.window e (p ++ w) ++ w.drop e = p.drop e ++ w := by
  unfold RxAligner.window
  rw [List.drop_append_of_le_length (by omega)]
  have h4 : 4 = (p.drop e).length + e := by simp [hp]; omega
  conv => lhs; arg 1; rw [h4, List.take_length_add_append]
  rw [List.append_assoc, List.take_append_drop]

theorem length_window (e : Nat) (p w : Word) (hp : p.length = 4) (hw : w.length = 4) (he : e ≤ 4) :
    (RxAligner.window e (p ++ w)).length = 4 := by
  simp [RxAligner.window, hp, hw]; omega

theorem aligner_fifoS (kd : RxAligner.Kind) (e : Nat) (a : RxAligner.State) (I : List RxAligner.In)
    (hs : a.shift = e) (he : e < 4) (hp : a.prev.length = 4) (hsl : a.srcValid = true → a.src.length = 4)
    (hwf : ∀ w ∈ inWords I, w.length = 4) (hq : RxAligner.NoRealign kd e a.prev I) :
    (alWords (RxAligner.run kd a I)).flatten ++ tailS e (RxAligner.final kd a I)
      = tailS e a ++ (inWords I).flatten ∧
    (∀ w ∈ alWords (RxAligner.run kd a I), w.length = 4) ∧
    (RxAligner.final kd a I).shift = e ∧ (RxAligner.final kd a I).prev.length = 4 ∧
    ((RxAligner.final kd a I).srcValid = true → (RxAligner.final kd a I).src.length = 4) := by
  induction I generalizing a with
  | nil => simp [RxAligner.run, RxAligner.final, alWords, inWords, hs, hp]; exact hsl
  | cons i is ih =>
    obtain ⟨hsrc, hval, hpv⟩ := RxAligner.next_fields kd a i
    have hout : alWords (RxAligner.run kd a (i :: is))
        = (if a.srcValid then [a.src] else []) ++ alWords (RxAligner.run kd (RxAligner.next kd a i) is) := by
      cases hsv : a.srcValid <;> simp [RxAligner.run, alWords, RxAligner.outOf, hsv]
    have hlen0 : ∀ w ∈ (if a.srcValid then [a.src] else []), w.length = 4 := by
      intro w hw
      cases hsv : a.srcValid <;> simp [hsv] at hw
      rw [hw]; exact hsl hsv
    have hfl : ((if a.srcValid then [a.src] else []) : List Word).flatten = srcS a := by
      cases hsv : a.srcValid <;> simp [srcS, hsv]
    cases hv : i.valid
    · have hwf' : ∀ w ∈ inWords is, w.length = 4 := by
        intro w hw; apply hwf; simp [inWords, hv, hw]
      simp only [RxAligner.NoRealign, hv, Bool.false_eq_true, if_false] at hq
      obtain ⟨ho, hsh⟩ := RxAligner.next_no_detect kd a i (Or.inl hv)
      rw [hv] at hval hpv
      simp only [Bool.false_eq_true, if_false] at hpv
      have := ih (RxAligner.next kd a i) (by rw [hsh, hs]) (by rw [hpv]; exact hp) (by rw [hval]; intro h; cases h)
        hwf' (by rw [hpv]; exact hq)
      refine ⟨?_, ?_, this.2.2⟩
      · rw [hout, List.flatten_append, hfl]
        simp only [RxAligner.final, inWords, hv, Bool.false_eq_true, if_false]
        rw [List.append_assoc, this.1]
        simp [tailS, srcS, hval, hpv]
      · rw [hout]; intro w hw
        rcases List.mem_append.1 hw with h | h
        · exact hlen0 w h
        · exact this.2.1 w h
    · have hiw : i.word.length = 4 := by apply hwf; simp [inWords, hv]
      have hwf' : ∀ w ∈ inWords is, w.length = 4 := by
        intro w hw; apply hwf; simp [inWords, hv, hw]
      simp only [RxAligner.NoRealign, hv, if_true] at hq
      have hoff : (RxAligner.next kd a i).offset = e ∧ (RxAligner.next kd a i).shift = e := by
        rcases hq.1 with hn | hd
        · have := RxAligner.next_no_detect kd a i (Or.inr hn); rw [hs] at this; exact this
        · exact RxAligner.next_detect kd a i e hv hd
      rw [hv] at hval hpv
      simp only [if_true] at hpv
      rw [hoff.1] at hsrc
      have := ih (RxAligner.next kd a i) hoff.2 (by rw [hpv]; exact hiw)
        (by rw [hsrc]; exact fun _ => length_window e _ _ hp hiw (by omega))
        hwf' (by rw [hpv]; exact hq.2)
      refine ⟨?_, ?_, this.2.2⟩
      · rw [hout, List.flatten_append, hfl]
        simp only [RxAligner.final, inWords, hv, if_true, List.flatten_cons]
        rw [List.append_assoc, this.1]
        simp only [tailS, srcS, hval, hpv, hsrc, if_true]
        rw [window_tail e _ _ hp (by omega)]
        simp [List.append_assoc]
      · rw [hout]; intro w hw
        rcases List.mem_append.1 hw with h | h
        · exact hlen0 w h
        · exact this.2.1 w h

/-! ## The descrambler on the valid words -/

/-- one word through the descrambler (symbols converted to the scrambler model's bit lists and back) -/
def dW (en : Bool) (r : Reg) (w : Word) : Word := (scrWord en (w.map ofSs) (keyBytes r)).map toSs

/-- the descrambler's register after a valid word: restart after COM in symbol 0, else one word on -/
def nextReg (r : Reg) (w : Word) : Reg := if headIsCom (w.map ofSs) then initReg descrInit else lfsrNext r

/-- the descrambler as a function on word streams: the register moves once per word -/
def descr (en : Bool) : Reg → List Word → List Word
  | _, [] => []
  | r, w :: ws => dW en r w :: descr en (nextReg r w) ws

def regAfterW : Reg → List Word → Reg
  | r, [] => r
  | r, w :: ws => regAfterW (nextReg r w) ws

theorem descr_append (en : Bool) (r : Reg) (u v : List Word) :
    descr en r (u ++ v) = descr en r u ++ descr en (regAfterW r u) v := by
  induction u generalizing r with
  | nil => rfl
  | cons w ws ih => simp [descr, regAfterW, ih]

theorem regAfterW_append (r : Reg) (u v : List Word) : regAfterW r (u ++ v) = regAfterW (regAfterW r u) v := by
  induction u generalizing r with
  | nil => rfl
  | cons w ws ih => simp [regAfterW, ih]

/-- **The keystream advances only when a word is actually transferred**: over the word aligner's output trace
the descrambler's register moves exactly once per VALID beat (not in the gaps the removed SKP symbols leave), and
the valid beats it hands to the packet aligner are the valid words descrambled in order. -/
theorem descrambler_on_valid_words (en : Bool) (r : Reg) (os : List RxAligner.Out) :
    inWords (dTrace en r os) = descr en r (alWords os) ∧ dFinal en r os = regAfterW r (alWords os) := by
  induction os generalizing r with
  | nil => simp [dTrace, dFinal, inWords, alWords, descr, regAfterW]
  | cons o os ih =>
    cases hv : o.srcValid
    · have hr : (Scrambler.step descrInit r (descrIn o en)).1 = r := by
        simp [Scrambler.step, lfsrStep, lfsrClear, lfsrAdvance, commaPresent, descrIn, hv]
      simp only [dTrace, dFinal, inWords, alWords, hv, hr, Bool.false_eq_true, if_false]
      simpa [palIn, Scrambler.step, descrIn, hv] using ih r
    · have hr : (Scrambler.step descrInit r (descrIn o en)).1 = nextReg r o.srcWord := by
        have hcp : commaPresent (descrIn o en) = headIsCom (o.srcWord.map ofSs) := by
          simp only [commaPresent, descrIn, hv, Bool.true_and]
          cases o.srcWord.map ofSs <;> rfl
        simp only [Scrambler.step, lfsrStep, lfsrClear, lfsrAdvance, hcp, nextReg]
        simp [descrIn, hv]
      simp only [dTrace, dFinal, inWords, alWords, hv, hr, if_true, descr, regAfterW]
      have := ih (nextReg r o.srcWord)
      simp [palIn, Scrambler.step, descrIn, hv, dW, this.1, this.2]


/-! ## The chain -/

theorem inWords_walIn (os : List CtcRemover.Out) : inWords (os.map walIn) = CtcRemover.outWords os := by
  induction os with
  | nil => rfl
  | cons o os ih => cases h : o.srcValid <;> simp [inWords, CtcRemover.outWords, walIn, h, ih]

theorem length_dW (en : Bool) (r : Reg) (w : Word) : (dW en r w).length = w.length := by
  simp [dW, length_scrWord]

theorem descr_len4 (en : Bool) (r : Reg) (ws : List Word) (h : ∀ w ∈ ws, w.length = 4) :
    ∀ w ∈ descr en r ws, w.length = 4 := by
  induction ws generalizing r with
  | nil => simp [descr]
  | cons x xs ih =>
    intro w hw
    simp only [descr, List.mem_cons] at hw
    rcases hw with rfl | hw
    · rw [length_dW]; exact h x (by simp)
    · exact ih _ (fun y hy => h y (by simp [hy])) w hw

/-- the pin symbols of a history -/
def pinSyms (ins : List In) : List Ss.Sym := ins.flatMap (·.rx)

theorem spec_ctcIn (ins : List In) :
    CtcRemover.spec (ins.map ctcIn) = (pinSyms ins).filter (fun x => !isSkp x) := by
  induction ins with
  | nil => rfl
  | cons i is ih =>
    simp only [CtcRemover.spec] at ih
    simp [CtcRemover.spec, CtcRemover.inSyms, ctcIn, pinSyms, List.filter_append, ih]

/-- the state of the receive path is one the theorems speak about: the remover's invariant, the word aligner
at shift `e`, the packet aligner at shift 0, four-symbol registers -/
structure Locked (e : Nat) (s : State) : Prop where
  ctc  : CtcRemover.Inv s.ctc
  he   : e < 4
  wsh  : s.wal.shift = e
  wpv  : s.wal.prev.length = 4
  wsrc : s.wal.srcValid = true → s.wal.src.length = 4
  psh  : s.pal.shift = 0
  ppv  : s.pal.prev.length = 4
  psrc : s.pal.srcValid = true → s.pal.src.length = 4

/-- the (still scrambled) symbols in flight in front of the descrambler: the word aligner's registered beat and
the last `4 - e` symbols of its history word, then the symbols the remover holds -/
def inflightS (e : Nat) (s : State) : List Ss.Sym := tailS e s.wal ++ CtcRemover.pending s.ctc

/-- the words the descrambler consumes during a pin history: the word aligner's valid beats -/
def consumed (s : State) (ins : List In) : List Word := alWords (walTrace s ins)

theorem tailW_len4 (a : RxAligner.State) (h1 : a.srcValid = true → a.src.length = 4) (h2 : a.prev.length = 4) :
    ∀ w ∈ tailW a, w.length = 4 := by
  intro w hw
  cases hv : a.srcValid <;> simp [tailW, hv] at hw
  · rw [hw]; exact h2
  · rcases hw with rfl | rfl
    · exact h1 hv
    · exact h2

/-- **Front of the receive path (SKP remover, word aligner) as a stream function.**  For every locked state and
every pin history (SKP symbols anywhere, in any number) during which the word aligner finds COM COM COM COM at
no offset other than `e`: the words handed to the descrambler, followed by the symbols still in flight, are the
symbols that were in flight followed by the pin symbol stream with the SKP symbols deleted - nothing else lost,
nothing duplicated, regrouped into four-symbol words at the aligner's offset. -/
theorem front_stream (en : Bool) (e : Nat) (s : State) (ins : List In) (hl : Locked e s)
    (hrx : ∀ i ∈ ins, i.rx.length = 4) (hen : ∀ i ∈ ins, i.enable = en)
    (hq1 : RxAligner.NoRealign .word e s.wal.prev ((ctcTrace s ins).map walIn)) :
    let s' := (run s ins).2
    (consumed s ins).flatten ++ inflightS e s'
      = inflightS e s ++ (pinSyms ins).filter (fun x => !isSkp x) ∧
    (∀ w ∈ consumed s ins, w.length = 4) ∧
    CtcRemover.Inv s'.ctc ∧ s'.wal.shift = e ∧ s'.wal.prev.length = 4 ∧
    (s'.wal.srcValid = true → s'.wal.src.length = 4) := by
  intro s'
  obtain ⟨_, hctc, hwal, _, _⟩ := run_split en s ins hen
  have henv : CtcRemover.Env (ins.map ctcIn) := by
    intro i hi
    obtain ⟨j, hj, rfl⟩ := List.mem_map.1 hi
    exact ⟨rfl, hrx j hj⟩
  have h1 := CtcRemover.run_refines s.ctc (ins.map ctcIn) hl.ctc henv
  have hW1len : ∀ w ∈ CtcRemover.outWords (ctcTrace s ins), w.length = 4 :=
    CtcRemover.run_words_len s.ctc (ins.map ctcIn) hl.ctc henv
  have h2 := aligner_fifoS .word e s.wal ((ctcTrace s ins).map walIn) hl.wsh hl.he hl.wpv hl.wsrc
    (by rw [inWords_walIn]; exact hW1len) hq1
  rw [inWords_walIn] at h2
  have hwal' : s'.wal = RxAligner.final .word s.wal ((ctcTrace s ins).map walIn) := hwal
  have hctc' : s'.ctc = (CtcRemover.run s.ctc (ins.map ctcIn)).2 := hctc
  have h1' := h1.2
  rw [CtcRemover.outSyms_eq_flatten, spec_ctcIn] at h1'
  refine ⟨?_, h2.2.1, by rw [hctc']; exact h1.1, by rw [hwal']; exact h2.2.2.1, by rw [hwal']; exact h2.2.2.2.1,
    by rw [hwal']; exact h2.2.2.2.2⟩
  show (alWords (walTrace s ins)).flatten ++ (tailS e s'.wal ++ CtcRemover.pending s'.ctc) = _
  rw [hwal', hctc', ← List.append_assoc]
  show (alWords (RxAligner.run .word s.wal ((ctcTrace s ins).map walIn))).flatten ++ _ ++ _ = _
  rw [h2.1, List.append_assoc]
  show _ ++ ((CtcRemover.outWords (CtcRemover.run s.ctc (ins.map ctcIn)).1).flatten ++ _) = _
  rw [h1', inflightS, List.append_assoc]

/-- **Back of the receive path (descrambler, packet aligner) as a stream function.**  The words that left
`source`, followed by the packet aligner's two registers, are the packet aligner's registers at the start
followed by the consumed words descrambled by ONE pass of the word-stream descrambler `descr`: the register moves
once per consumed word - not in the cycles without a valid beat, which is what the removed SKP symbols leave -
and restarts after a word with COM in symbol 0. -/
theorem back_stream (en : Bool) (s : State) (ins : List In)
    (hpsh : s.pal.shift = 0) (hppv : s.pal.prev.length = 4) (hpsrc : s.pal.srcValid = true → s.pal.src.length = 4)
    (hen : ∀ i ∈ ins, i.enable = en) (hD : ∀ w ∈ consumed s ins, w.length = 4)
    (hq2 : RxAligner.NoRealign .packet 0 s.pal.prev (palInTrace en s ins)) :
    let s' := (run s ins).2
    srcWords (run s ins).1 ++ tailW s'.pal = tailW s.pal ++ descr en s.reg (consumed s ins) ∧
    s'.reg = regAfterW s.reg (consumed s ins) ∧
    s'.pal.shift = 0 ∧ s'.pal.prev.length = 4 ∧ (s'.pal.srcValid = true → s'.pal.src.length = 4) := by
  intro s'
  obtain ⟨hsrc, _, _, hreg, hpal⟩ := run_split en s ins hen
  have h3 := descrambler_on_valid_words en s.reg (walTrace s ins)
  have h4 := aligner_fifo0 .packet s.pal (palInTrace en s ins) hpsh hppv hpsrc
    (by show ∀ w ∈ inWords (dTrace en s.reg (walTrace s ins)), _
        rw [h3.1]; exact descr_len4 _ _ _ hD) hq2
  have hpal' : s'.pal = RxAligner.final .packet s.pal (palInTrace en s ins) := hpal
  refine ⟨?_, by show (run s ins).2.reg = _; rw [hreg, h3.2]; rfl, by rw [hpal']; exact h4.2.1,
    by rw [hpal']; exact h4.2.2.1, by rw [hpal']; exact h4.2.2.2⟩
  rw [hsrc, hpal', h4.1]
  show _ ++ inWords (dTrace en s.reg (walTrace s ins)) = _
  rw [h3.1]; rfl

end LunaVerif.PhyRx
