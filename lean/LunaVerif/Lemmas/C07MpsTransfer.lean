import LunaVerif.Lemmas.C07MpsLegal
import LunaVerif.Props.C07
/-!
# The C07 stage theorems at cycle level, every legal control max packet size
(Lemmas/C07Transfer.lean over `stepM` / `LegalHostM` / `closed2_refines_legal_run_mps`)

The two stage theorems of Props/C07.lean hold in every state that satisfies the model's invariant `Inv`
(`…_of_inv`); `Inv` is preserved by `stepM` (`inv_finalM`), and `coreM` answers a host handshake with nothing, so
they hold of the event-level model with the `start_position` advance by `max_packet_size`
(`data_in_only_after_in_setup_mps`, `in_token_answered_only_in_data_or_status_in_mps`), and through the closed-loop
refinement of what the cycle-level closed loop puts on the bus, for `max_packet_size ∈ {8, 16, 32, 64}`.
-/
namespace LunaVerif.CtrlCyc
open LunaVerif.Device

/-- **C07 (data stage), every max packet size.** -/
theorem data_in_only_after_in_setup_mps (c : DevConfig) (h : List Stim) (e : HostEvent) (pid : Nat) (p : List Nat)
    (hr : (coreM c (finalM c Device.init h) e).2 = .data pid p) (hp : p ≠ []) :
    e = .token PID_IN (finalM c Device.init h).address 0 ∧
    (finalM c Device.init h).setup.isIn = true ∧ (finalM c Device.init h).setup.length ≠ 0 ∧
    (coreM c (finalM c Device.init h) e).1.stage = .dataIn := by
  have i := inv_finalM c Device.init h inv_init
  cases e with
  | handshake q => cases hr
  | _ => exact data_in_only_after_in_setup_of_inv c _ i _ pid p hr hp

/-- **C07 (status direction, IN), every max packet size.** -/
theorem in_token_answered_only_in_data_or_status_in_mps (c : DevConfig) (h : List Stim) (addr ep : Nat)
    (hr : (coreM c (finalM c Device.init h) (.token PID_IN addr ep)).2 ≠ .none) :
    addr = (finalM c Device.init h).address ∧ ep = 0 ∧
    (((coreM c (finalM c Device.init h) (.token PID_IN addr ep)).1.stage = .dataIn ∧
        (finalM c Device.init h).setup.isIn = true ∧ (finalM c Device.init h).setup.length ≠ 0) ∨
     ((coreM c (finalM c Device.init h) (.token PID_IN addr ep)).1.stage = .statusIn ∧
        ¬ ((finalM c Device.init h).setup.isIn = true ∧ (finalM c Device.init h).setup.length ≠ 0))) :=
  in_token_answered_only_in_data_or_status_in_of_inv c _ (inv_finalM c Device.init h inv_init) addr ep hr

/-- **C07 (stage follows SETUP), every max packet size.** -/
theorem stage_follows_setup_mps (c : DevConfig) (h : List Stim) :
    let s := finalM c Device.init h
    (s.stage = .dataIn → s.setup.isIn = true ∧ s.setup.length ≠ 0) ∧
    (s.stage = .dataOut → s.setup.isIn = false ∧ s.setup.length ≠ 0) ∧
    (s.stage = .statusOut → s.setup.isIn = true ∧ s.setup.length ≠ 0) ∧
    (s.stage = .statusIn → ¬ (s.setup.isIn = true ∧ s.setup.length ≠ 0)) :=
  have i := inv_finalM c Device.init h inv_init
  ⟨i.data_in, i.data_out, i.status_out, i.status_in⟩

/-- **C07 (status direction, OUT), every max packet size.** -/
theorem out_data_answered_only_in_status_out_mps (c : DevConfig) (h : List Stim) (pid : Nat) (p : List Nat) (ok : Bool)
    (hw : (finalM c Device.init h).sdWait = false)
    (hr : (coreM c (finalM c Device.init h) (.data pid p ok)).2 ≠ .none) :
    (finalM c Device.init h).stage = .statusOut ∧ (finalM c Device.init h).tokEp = 0 ∧
    (finalM c Device.init h).tokPid = PID_OUT ∧
    (finalM c Device.init h).setup.isIn = true ∧ (finalM c Device.init h).setup.length ≠ 0 ∧ ok = true :=
  out_data_answered_only_in_status_out_of_inv c _ (inv_finalM c Device.init h inv_init) pid p ok hw hr

/-- **C07 (every SETUP starts a fresh transfer), every max packet size**: a SETUP transaction contains no host
handshake, so `stepM` runs it exactly as `Device.step` does. -/
theorem setup_always_restarts_mps (c : DevConfig) (s : DevState) (bytes : List Nat) (f₁ f₂ : Resp)
    (hlen : bytes.length = 8) :
    let tx : List Stim := [⟨.token PID_SETUP s.address 0, f₁⟩, ⟨.data PID_DATA0 bytes true, f₂⟩]
    let s₂ := finalM c s tx
    let r₂ := finalM c { Device.init with address := s.address } tx
    s₂.stage = r₂.stage ∧ s₂.setup = r₂.setup ∧ s₂.setup = parseSetup bytes ∧ s₂.sdWait = r₂.sdWait ∧
    s₂.tokPid = r₂.tokPid ∧ s₂.tokEp = r₂.tokEp ∧
    ((parseSetup bytes).type = TYPE_STANDARD →
        s₂.hstate = r₂.hstate ∧ s₂.startPos = r₂.startPos ∧ s₂.txPid = r₂.txPid) ∧
    respsM c s tx = [.none, .hs PID_ACK] := by
  have hf : ∀ d : DevState, finalM c d [⟨.token PID_SETUP s.address 0, f₁⟩, ⟨.data PID_DATA0 bytes true, f₂⟩] =
      Device.final c d [⟨.token PID_SETUP s.address 0, f₁⟩, ⟨.data PID_DATA0 bytes true, f₂⟩] := by
    intro d
    simp only [finalM, Device.final]
    rw [stepM_eq_step_of c d _ (fun pid h => by cases h), stepM_eq_step_of c _ _ (fun pid h => by cases h)]
  have hr : respsM c s [⟨.token PID_SETUP s.address 0, f₁⟩, ⟨.data PID_DATA0 bytes true, f₂⟩] =
      (Device.run c s [⟨.token PID_SETUP s.address 0, f₁⟩, ⟨.data PID_DATA0 bytes true, f₂⟩]).map (·.2) := by
    simp only [respsM, Device.run, List.map_cons, List.map_nil]
    rw [stepM_eq_step_of c s _ (fun pid h => by cases h), stepM_eq_step_of c _ _ (fun pid h => by cases h)]
  have := setup_always_restarts c s bytes f₁ f₂ hlen
  simp only [hf, hr]
  exact this

/-- **C07 (other endpoints are stutter), tokens, every max packet size.** -/
theorem other_endpoint_tokens_are_stutter_mps (c : DevConfig) (s : DevState) (pid ep : Nat)
    (hep : ep ≠ 0) (hpid : pid ≠ PID_SETUP) :
    coreM c s (.token pid s.address ep) = ({ s with tokPid := pid, tokEp := ep, sdWait := false }, .none) :=
  other_endpoint_tokens_are_stutter c s pid ep hep hpid

/-- **C07 (other endpoints are stutter), rest of the transaction, every max packet size.** -/
theorem other_endpoint_transactions_are_stutter_mps (c : DevConfig) (s : DevState) (x : Stim)
    (hep : s.tokEp ≠ 0) (hw : s.sdWait = false)
    (hx : (∃ pid p ok, x.ev = .data pid p ok) ∨ (∃ pid, x.ev = .handshake pid)) :
    coreM c s x.ev = (s, .none) ∧ (stepM c s x).2 = x.foreign := by
  have key : coreM c s x.ev = (s, .none) := by
    rcases hx with ⟨pid, p, ok, hx⟩ | ⟨pid, hx⟩
    · have := (other_endpoint_transactions_are_stutter c s x hep hw (Or.inl ⟨pid, p, ok, hx⟩)).1
      rw [hx] at this ⊢; exact this
    · rw [hx]
      simp only [coreM, onHandshakeM]
      rw [if_neg (fun g => hep g.2.1)]
  refine ⟨key, ?_⟩
  simp only [stepM, key]
  simp [Resp.isNone, hep]

theorem coreRespsM_snoc (c : DevConfig) (hs : List Stim) (x : Stim) : ∀ d,
    coreRespsM c d (hs ++ [x]) = coreRespsM c d hs ++ [(coreM c (finalM c d hs) x.ev).2] := by
  induction hs with
  | nil => intro d; rfl
  | cons y ys ih => intro d; simp only [List.cons_append, coreRespsM, finalM, ih]

/-- **C07 (data stage) at cycle level, `max_packet_size ∈ {8, 16, 32, 64}`.**  For every legal history that ends with
the event `x`: if the closed loop of the cycle-level models (control endpoint FSM + request multiplexer + standard
request handler + serializer + block descriptor handler, all configured with `c.maxPacket`) answers `x` on the bus with
a DATA packet that carries payload bytes, then `x` is an IN token for endpoint 0 at the device's current address and the
latched SETUP packet is a device-to-host request with `wLength ≠ 0`. -/
theorem closed2_data_only_after_in_setup_mps (c : DevConfig) (hx : c.extra = [])
    (hm : c.maxPacket = 8 ∨ c.maxPacket = 16 ∨ c.maxPacket = 32 ∨ c.maxPacket = 64)
    (hwf : Desc.wellFormed (collOf c.descriptors) = true)
    (hpw : 2 ≤ (Desc.Rom.layout (collOf c.descriptors)).maxLen) (hfit : DescsFit c)
    (h : List (Stim × GapsS)) (x : Stim) (g : GapsS)
    (hl : LegalHostM c ((h ++ [(x, g)]).map (·.1)) = true) (hw : WinFromM c Device.init (h ++ [(x, g)]) = true)
    (ht : ∀ xg ∈ h ++ [(x, g)], TDSil xg.2) :
    ∃ h', SameButLat (h ++ [(x, g)]) h' ∧ ∀ pid p,
      (sys2BusRespsM c (Desc.blockOf (collOf c.descriptors) c.maxPacket) Device.init sys2Init h').getLast? =
          some (.data pid p) → p ≠ [] →
        x.ev = .token PID_IN (finalM c Device.init (h.map (·.1))).address 0 ∧
        (finalM c Device.init (h.map (·.1))).setup.isIn = true ∧
        (finalM c Device.init (h.map (·.1))).setup.length ≠ 0 := by
  obtain ⟨h', sb, _, hb, _⟩ := closed2_refines_legal_run_mps c hx hm hwf hpw hfit (h ++ [(x, g)]) hl hw ht
  refine ⟨h', sb, ?_⟩
  intro pid p hlast hp
  rw [hb, List.map_append, List.map_cons, List.map_nil, coreRespsM_snoc, List.getLast?_append] at hlast
  simp only [List.getLast?_singleton, Option.some_or, Option.some.injEq] at hlast
  obtain ⟨a, b, e, _⟩ := data_in_only_after_in_setup_mps c (h.map (·.1)) x.ev pid p hlast hp
  exact ⟨a, b, e⟩

/-- **C07 (IN tokens) at cycle level, `max_packet_size ∈ {8, 16, 32, 64}`**: the closed loop answers an IN token only
if it is for endpoint 0 at the device's address, in the data stage of a control read or in the status stage of a
transfer without IN data stage. -/
theorem closed2_in_answered_only_in_data_or_status_in_mps (c : DevConfig) (hx : c.extra = [])
    (hm : c.maxPacket = 8 ∨ c.maxPacket = 16 ∨ c.maxPacket = 32 ∨ c.maxPacket = 64)
    (hwf : Desc.wellFormed (collOf c.descriptors) = true)
    (hpw : 2 ≤ (Desc.Rom.layout (collOf c.descriptors)).maxLen) (hfit : DescsFit c)
    (h : List (Stim × GapsS)) (addr ep : Nat) (f : Resp) (g : GapsS)
    (hl : LegalHostM c ((h ++ [(Stim.mk (.token PID_IN addr ep) f, g)]).map (·.1)) = true)
    (hw : WinFromM c Device.init (h ++ [(Stim.mk (.token PID_IN addr ep) f, g)]) = true)
    (ht : ∀ xg ∈ h ++ [(Stim.mk (.token PID_IN addr ep) f, g)], TDSil xg.2) :
    ∃ h', SameButLat (h ++ [(Stim.mk (.token PID_IN addr ep) f, g)]) h' ∧ ∀ r,
      (sys2BusRespsM c (Desc.blockOf (collOf c.descriptors) c.maxPacket) Device.init sys2Init h').getLast? = some r →
      r ≠ .none →
        addr = (finalM c Device.init (h.map (·.1))).address ∧ ep = 0 ∧
        (((finalM c Device.init (h.map (·.1))).setup.isIn = true ∧
            (finalM c Device.init (h.map (·.1))).setup.length ≠ 0) ∨
         ¬ ((finalM c Device.init (h.map (·.1))).setup.isIn = true ∧
            (finalM c Device.init (h.map (·.1))).setup.length ≠ 0)) := by
  obtain ⟨h', sb, _, hb, _⟩ := closed2_refines_legal_run_mps c hx hm hwf hpw hfit
    (h ++ [(Stim.mk (.token PID_IN addr ep) f, g)]) hl hw ht
  refine ⟨h', sb, ?_⟩
  intro r hlast hr
  rw [hb, List.map_append, List.map_cons, List.map_nil, coreRespsM_snoc, List.getLast?_append] at hlast
  simp only [List.getLast?_singleton, Option.some_or, Option.some.injEq] at hlast
  have := in_token_answered_only_in_data_or_status_in_mps c (h.map (·.1)) addr ep (by rw [hlast]; exact hr)
  obtain ⟨a, b, e⟩ := this
  refine ⟨a, b, ?_⟩
  rcases e with ⟨_, e⟩ | ⟨_, e⟩
  · exact Or.inl e
  · exact Or.inr e

end LunaVerif.CtrlCyc
