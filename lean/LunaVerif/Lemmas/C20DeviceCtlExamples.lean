import LunaVerif.Lemmas.C20DeviceCtl
import LunaVerif.Lemmas.C20CtrlExamples
/-!
# C20 — the closed device with its control endpoint: non-vacuity (kernel-evaluated control read through the whole device)
-/
namespace LunaVerif.DevCtl
open LunaVerif LunaVerif.DevCyc LunaVerif.DevCyc.Abs LunaVerif.C20Ctr LunaVerif.DevEp LunaVerif.CtrlCyc

def exC : Config := ⟨DevEp.exCfg, {}, CtrlCyc.exBc⟩

def noDec (su : Device.Setup) : DecIn := ⟨false, false, su, 0⟩

def rxBytes (bs : List Nat) : List Ext := rxE (Utmi.waitC 0) :: bs.map (fun b => rxE (Utmi.byteC b))

/-- modify cycle `k` -/
def atCycle (k : Nat) (f : Ext × DecIn → Ext × DecIn) (l : List (Ext × DecIn)) : List (Ext × DecIn) :=
  (l.zip (List.range l.length)).map (fun (y, n) => if n == k then f y else y)

def h0 (ack : Nat) : List (Ext × DecIn) :=
  let pre := (rxBytes [0x2d, 0x00, 0x10] ++ [quiet, quiet, quiet] ++ rxBytes [0xc3, 0x80, 6, 0, 1, 0, 0, 0x12, 0, 0xe0, 0xf4] ++
    [quiet]).map (fun x => (x, noDec {}))
  let post := (List.replicate 10 quiet ++ rxBytes [0x69, 0x00, 0x10] ++ List.replicate 40 quiet).map (fun x => (x, noDec suGD))
  atCycle ack (fun (x, d) => (x, { d with sdAck := true }))
    (atCycle 21 (fun (x, d) => (x, { d with received := true }))
      (atCycle 20 (fun (x, d) => ({ x with restTimer := true }, d)) (pre ++ post)))

/-- The hypotheses of `ctl_closed_tx_never_during_rx` hold along a control read: SETUP token (2D 00 10) + DATA0 packet
GET_DESCRIPTOR(DEVICE, 18) with CRC16 (C3 80 06 00 01 00 00 12 00 E0 F4), the decoder restarting the timer in cycle 20,
signalling `received` in cycle 21 and ACKing at the receiver's pulse in cycle 23, then the IN token (69 00 10). -/
example : exC.ep.epIn ≠ exC.ep.sig.epNum ∧ epsOk exC ∧ 3 ≤ exPar.L := by
  refine ⟨by decide, ⟨by decide, by decide, by decide⟩, by decide⟩

example : hostHolds exC.ep.dev exPar DevCyc.init ghostInit
      (devIns exC.ep (DevEp.init exC.ep) (extsOf exC (init exC) (h0 23))) = true ∧
    decHolds exC exPar (init exC) ghostInit phs0 0 (h0 23) = true := by decide +kernel

/-- ... and the device with its control endpoint answers ACK (D2) and then the DATA1 packet with the 18 descriptor
bytes and their CRC16 (= usbref.data_packet(PID_DATA1, descriptor): 4B 12 01 00 02 … 01 2F 84). -/
example : ((DevEp.run exC.ep (DevEp.init exC.ep) (extsOf exC (init exC) (h0 23))).filter (·.txValid)).map (·.txData) =
    [0xD2, 0x4B, 18, 1, 0, 2, 0, 0, 0, 64, 0x50, 0x1d, 0x5c, 0x61, 0, 0, 1, 2, 3, 1, 0x2F, 0x84] := by decide +kernel

/-- `decOk` is not redundant: a decoder that ACKs out of the blue (cycle 5 of an idle bus) breaks it, and the device
transmits. -/
def hRogue : List (Ext × DecIn) :=
  atCycle 5 (fun (x, d) => (x, { d with sdAck := true })) ((List.replicate 12 quiet).map (fun x => (x, noDec {})))

example : decHolds exC exPar (init exC) ghostInit phs0 0 hRogue = false ∧
    (DevEp.run exC.ep (DevEp.init exC.ep) (extsOf exC (init exC) hRogue)).any (·.txValid) = true := by decide +kernel

end LunaVerif.DevCtl
