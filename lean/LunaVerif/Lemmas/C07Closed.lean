import LunaVerif.Lemmas.C07StreamRun
import LunaVerif.Lemmas.C07StreamContracts
/-!
# The closed loop: `CtrlCyc.step` composed with the model of its transmitter (`sysStep`)

`Model/Usb2/ControlCycSys.lean` wires the serializer model of C27 (`StreamGen.serStep`, `data_length = 2`,
`max_length_width = 2`) to the cycle-level control-endpoint model as `StandardRequestHandler` does; the four
transmitter inputs of a cycle are overwritten by the serializer's outputs (`sysStep_ignores_t`).  This file proves that
over the expansion of ANY event history (`expandS` / `expandAllR`, the transmitter's windows with latency `lat = 0`, i.e.
`respTrace 1`) the closed loop behaves exactly like the open-loop model on that same expansion -- the serializer model
itself produces the beats the stream contract puts into the window, and is idle again (or in its one-cycle DONE state)
at the end of every event -- so `cycle_refines_event_streams_run` holds of the closed loop with NO contract on the
transmitter (`closed_loop_refines_event_run`).  The descriptor handler remains an input under its contract.
-/
namespace LunaVerif.CtrlCyc
open LunaVerif.Device LunaVerif.StreamGen

/-! ### No combinational loop: the wires towards the serializer do not depend on its outputs -/

theorem wires_indep (c : Cfg) (cs : CycState) (i : CycIn) (so : SerOut) :
    serInOf (step c cs (withT i so)).2.h = serInOf (step c cs i).2.h := by
  simp only [step_hout]
  have hcc : ctrlComb c cs.stage (withT i so) = ctrlComb c cs.stage i := rfl
  rw [hcc]
  simp only [stdStep]
  have hsu : (handlerIn (withT i so) (ctrlComb c cs.stage i)).su = (handlerIn i (ctrlComb c cs.stage i)).su := rfl
  rw [hsu]
  split
  · simp only [stdComb]
    cases cs.h.hstate <;> rfl
  · rfl

/-- The closed loop does not read the transmitter inputs of the cycle. -/
theorem sysStep_ignores_t (c : Cfg) (s : SysState) (i : CycIn) (so : SerOut) :
    sysStep c s (withT i so) = sysStep c s i := by
  simp only [sysStep, serCycle, wires_indep]
  rfl

/-! ### Closed loop = open loop on a cycle sequence -/

/-- Over the cycles `is` the closed loop, started with the control endpoint in `s.cs`, does what the open-loop model
does on the same cycles (its transmitter inputs are what the serializer model produces), and the serializer ends in
`ser'`. -/
def CL (c : Cfg) (s : SysState) (is : List CycIn) (ser' : SerState) : Prop :=
  sysFinal c s is = ⟨final c s.cs is, ser'⟩ ∧ (sysRun c s is).map (·.2) = outs c s.cs is

theorem sysFinal_append (c : Cfg) (s : SysState) (a b : List CycIn) :
    sysFinal c s (a ++ b) = sysFinal c (sysFinal c s a) b := by
  induction a generalizing s with
  | nil => rfl
  | cons i is ih => exact ih _

theorem sysRun_append (c : Cfg) (s : SysState) (a b : List CycIn) :
    sysRun c s (a ++ b) = sysRun c s a ++ sysRun c (sysFinal c s a) b := by
  induction a generalizing s with
  | nil => rfl
  | cons i is ih => simp only [List.cons_append, sysRun, sysFinal, ih]

theorem CL.nil (c : Cfg) (s : SysState) : CL c s [] s.ser := ⟨rfl, rfl⟩

theorem CL.append {c : Cfg} {s : SysState} {a b : List CycIn} {s1 s2 : SerState}
    (h1 : CL c s a s1) (h2 : CL c ⟨final c s.cs a, s1⟩ b s2) : CL c s (a ++ b) s2 := by
  obtain ⟨a1, a2⟩ := h1
  obtain ⟨b1, b2⟩ := h2
  refine ⟨?_, ?_⟩
  · rw [sysFinal_append, a1, b1, final_append]
  · rw [sysRun_append, List.map_append, a2, a1, b2, outs_append]

/-- One cycle in which the serializer's outputs are what the cycle's transmitter inputs already say. -/
theorem CL.single {c : Cfg} {s : SysState} {i : CycIn} (h : withT i (serCycle c s i).2 = i) :
    CL c s [i] (serCycle c s i).1 := by
  refine ⟨?_, ?_⟩
  · simp only [sysFinal, sysStep, h, final]
  · simp only [sysRun, sysStep, h, List.map_cons, List.map_nil, outs, run]

theorem CL.cons {c : Cfg} {s : SysState} {i : CycIn} {is : List CycIn} {s2 : SerState}
    (h : withT i (serCycle c s i).2 = i) (h2 : CL c ⟨(step c s.cs i).1, (serCycle c s i).1⟩ is s2) :
    CL c s (i :: is) s2 :=
  CL.append (a := [i]) (CL.single h) h2

/-! ### The serializer while it is not started -/

/-- Idle, or in its one-cycle DONE state. -/
def SerQ (σ : SerState) : Prop := σ.fsm = .idle ∨ σ.fsm = .done

/-- The transmitter inputs of the cycle are silent (`valid = 0`; the serializer drives `first`, `last`, `payload` to 0
as well). -/
def TS (i : CycIn) : Prop := i.tValid = false ∧ i.tFirst = false ∧ i.tLast = false ∧ i.tPayload = 0

instance (i : CycIn) : Decidable (TS i) := by unfold TS; infer_instance

theorem ser_quiet (σ : SerState) (w : SerIn) (hq : SerQ σ) (hw : w.start = false) :
    (serStep txCfg σ w).1.fsm = .idle ∧ (serStep txCfg σ w).2.valid = false ∧ (serStep txCfg σ w).2.first = false ∧
    (serStep txCfg σ w).2.last = false ∧ (serStep txCfg σ w).2.payload = 0 := by
  obtain ⟨f, p, b⟩ := σ
  rcases hq with h | h <;> simp only at h <;> subst h <;> simp [serStep, hw]

theorem withT_of_TS (i : CycIn) (so : SerOut) (h : TS i) (h1 : so.valid = false) (h2 : so.first = false)
    (h3 : so.last = false) (h4 : so.payload = 0) : withT i so = i := by
  obtain ⟨a, b, c, d⟩ := h
  cases i
  simp_all [withT]

/-- A cycle that is not a `ready_for_response` cycle never starts the serializer: it stays silent and is idle
afterwards -- whatever the state of the control endpoint. -/
theorem cl_quiet_cycle (c : Cfg) (s : SysState) (i : CycIn) (hr : i.readyForResponse = false) (ht : TS i)
    (hq : SerQ s.ser) : withT i (serCycle c s i).2 = i ∧ (serCycle c s i).1.fsm = .idle := by
  have hw : (serInOf (step c s.cs i).2.h).start = false := (streamers_not_started c s.cs i hr).1
  obtain ⟨q1, q2, q3, q4, q5⟩ := ser_quiet s.ser _ hq hw
  exact ⟨withT_of_TS i _ ht q2 q3 q4 q5, q1⟩

/-- No `ready_for_response`, silent transmitter inputs. -/
def NR (i : CycIn) : Prop := i.readyForResponse = false ∧ TS i

theorem cl_quiet (c : Cfg) (is : List CycIn) : ∀ (s : SysState), (∀ i ∈ is, NR i) → SerQ s.ser →
    ∃ ser', CL c s is ser' ∧ SerQ ser' ∧ (is ≠ [] → ser'.fsm = .idle) := by
  induction is with
  | nil => intro s _ hq; exact ⟨s.ser, CL.nil c s, hq, fun h => absurd rfl h⟩
  | cons i is ih =>
    intro s hall hq
    obtain ⟨hr, ht⟩ := hall i (List.mem_cons_self ..)
    obtain ⟨h1, h2⟩ := cl_quiet_cycle c s i hr ht hq
    obtain ⟨ser', k1, k2, k3⟩ := ih ⟨(step c s.cs i).1, (serCycle c s i).1⟩
      (fun j hj => hall j (List.mem_cons_of_mem _ hj)) (Or.inl h2)
    refine ⟨ser', CL.cons h1 k1, k2, fun _ => ?_⟩
    cases is with
    | nil => obtain ⟨e1, _⟩ := k1; simp only [sysFinal] at e1; injection e1 with _ e1; rw [← e1]; exact h2
    | cons j js => exact k3 (by simp)

/-! ### The `ready_for_response` cycle -/

/-- Does the `ready_for_response` cycle in the event-level state `d` start the transmitter. -/
def txStarts (c : DevConfig) (d : DevState) : Bool :=
  match streamOf c d with
  | some (false, _) => true
  | _ => false

theorem ready_tStart (c : DevConfig) (d : DevState) (n : CycIn) (cs : CycState) (hr : Rel d cs) :
    (step (cfgOf c) cs { envIn d n with readyForResponse := true }).2.h.tStart = txStarts c d := by
  obtain ⟨hst, h1, h2, h3⟩ := hr
  have hcc := ctrlComb_ready' c d n
  simp only [step_hout, hst, hcc]
  unfold txStarts streamOf
  by_cases hty : d.setup.type = TYPE_STANDARD
  · cases hdr : readyDr d <;> cases hd : d.hstate <;>
      simp [stdStep, hty, stdComb, h1, hd, simpleDataOut, regWriteZlp, handlerIn, envIn]
  · simp [stdStep, hty, handlerIn, envIn]

/-- The `ready_for_response` cycle when it does not start the transmitter. -/
theorem cl_ready_nostart (c : DevConfig) (d : DevState) (n : CycIn) (s : SysState) (hr : Rel d s.cs)
    (hn : txStarts c d = false) (ht : TS { envIn d n with readyForResponse := true }) (hq : SerQ s.ser) :
    withT { envIn d n with readyForResponse := true } (serCycle (cfgOf c) s { envIn d n with readyForResponse := true }).2
      = { envIn d n with readyForResponse := true } ∧
    (serCycle (cfgOf c) s { envIn d n with readyForResponse := true }).1.fsm = .idle := by
  have hw : (serInOf (step (cfgOf c) s.cs { envIn d n with readyForResponse := true }).2.h).start = false := by
    simp only [serInOf]; rw [ready_tStart c d n s.cs hr, hn]
  obtain ⟨q1, q2, q3, q4, q5⟩ := ser_quiet s.ser _ hq hw
  exact ⟨withT_of_TS _ _ ht q2 q3 q4 q5, q1⟩

/-- The `ready_for_response` cycle that starts the transmitter (idle before): silent in this cycle, streaming from
the next one on. -/
theorem cl_ready_start (c : DevConfig) (d : DevState) (n : CycIn) (s : SysState) (hr : Rel d s.cs) (R : Desc.Response)
    (hso : streamOf c d = some (false, R)) (ht : TS { envIn d n with readyForResponse := true })
    (hq : s.ser.fsm = .idle) :
    withT { envIn d n with readyForResponse := true } (serCycle (cfgOf c) s { envIn d n with readyForResponse := true }).2
      = { envIn d n with readyForResponse := true } ∧
    (serCycle (cfgOf c) s { envIn d n with readyForResponse := true }).1 = ⟨.streaming, 0, 0⟩ := by
  obtain ⟨cs, ⟨f, p, b⟩⟩ := s
  simp only at hr hq
  subst hq
  have hw := ready_cycle_wires c d n cs hr false R hso
  simp only [Bool.false_eq_true, if_false] at hw
  obtain ⟨w1, _, w3, _⟩ := hw
  have hml : 0 < (step (cfgOf c) cs { envIn d n with readyForResponse := true }).2.h.tMaxLen := by
    rcases w3 with h | h <;> rw [h] <;> decide
  have hstep : serCycle (cfgOf c) ⟨cs, ⟨.idle, p, b⟩⟩ { envIn d n with readyForResponse := true }
      = (⟨.streaming, 0, 0⟩, ⟨false, 0, false, false, false⟩) := by
    simp only [serCycle, serStep, serInOf, w1, txCfg]
    simp [hml]
  rw [hstep]
  exact ⟨withT_of_TS _ _ ht rfl rfl rfl rfl, rfl⟩

/-! ### The transmitter's window -/

/-- The serializer inside an emission of `[d0, 0].take L`, at byte `k`. -/
theorem ser_stream_step (L d0 k : Nat) (rdy : Bool) (hk : (L = 1 ∧ k = 0) ∨ (L = 2 ∧ k = 0) ∨ (L = 2 ∧ k = 1)) :
    serStep txCfg ⟨.streaming, k, k⟩ ⟨false, 0, L, rdy, [d0, 0]⟩ =
      (if rdy then (if k + 1 = L then ⟨.done, k, k⟩ else ⟨.streaming, k + 1, k + 1⟩) else ⟨.streaming, k, k⟩,
       ⟨true, ([d0, 0].take L).getD k 0, k == 0, k + 1 == L, false⟩) := by
  rcases hk with ⟨rfl, rfl⟩ | ⟨rfl, rfl⟩ | ⟨rfl, rfl⟩ <;> cases rdy <;>
    simp [serStep, txCfg, rangeWidth, serCountWidth, Nat.log2]

theorem withT_eq (i : CycIn) (so : SerOut) (h1 : so.valid = i.tValid) (h2 : so.first = i.tFirst)
    (h3 : so.last = i.tLast) (h4 : so.payload = i.tPayload) : withT i so = i := by
  cases i
  simp_all [withT]

/-- What the transmitter answers in the streaming state of `d`. -/
def TxAns (d : DevState) (L d0 : Nat) : Prop :=
  (d.hstate = .getStatus ∧ L = 2 ∧ d0 = 0) ∨ (d.hstate = .getConfiguration ∧ L = 1 ∧ d0 = d.config % 256)

/-- The serializer's wires in a window cycle. -/
theorem window_serIn (c : DevConfig) (d : DevState) (b : Desc.Beat) (n : CycIn) (cs : CycState) (hr : Rel d cs)
    (hs : StreamState d false) :
    ∃ L d0, TxAns d L d0 ∧ serInOf (step (cfgOf c) cs (envIn d (beatIn false b n))).2.h = ⟨false, 0, L, n.txReady, [d0, 0]⟩ := by
  have hw := window_wires c d false b n cs hr hs
  simp only [Bool.false_eq_true, if_false] at hw
  have hst := (streamers_not_started (cfgOf c) cs (envIn d (beatIn false b n)) rfl).1
  obtain ⟨w1, w2⟩ := hw
  rcases w2 with ⟨a1, a2, a3⟩ | ⟨a1, a2, a3⟩
  · exact ⟨2, 0, Or.inl ⟨a1, rfl, rfl⟩, by simp only [serInOf, hst, w1, a2, a3]⟩
  · exact ⟨1, d.config % 256, Or.inr ⟨a1, rfl, rfl⟩, by simp only [serInOf, hst, w1, a2, a3]⟩

/-- **The serializer model produces the window's beats.**  From byte `k` on, under ANY `tx.ready` pattern that takes
the remaining bytes within the window: in every cycle the serializer's outputs are the beat the stream contract puts
into the cycle, and afterwards it is in its DONE state or idle. -/
theorem cl_send (c : DevConfig) (d : DevState) (hs : StreamState d false) (L d0 : Nat) (ha : TxAns d L d0) :
    ∀ (ns : List CycIn) (k : Nat) (s : SysState), k < L → s.ser = ⟨.streaming, k, k⟩ → Rel d s.cs →
      L - k ≤ (ns.map (·.txReady)).count true →
      ∃ ser', CL (cfgOf c) s (streamSeg d false (Desc.sendTrace ([d0, 0].take L) k (ns.map (·.txReady))) ns) ser' ∧
        SerQ ser' := by
  have hlen : ([d0, 0].take L).length = L := by rcases ha with ⟨_, rfl, _⟩ | ⟨_, rfl, _⟩ <;> rfl
  intro ns
  induction ns with
  | nil => intro k s hk _ _ hcnt; simp at hcnt; omega
  | cons n ns ih =>
    intro k s hk hser hr hcnt
    obtain ⟨cs, ser⟩ := s
    simp only at hser hr
    subst hser
    simp only [List.map_cons, Desc.sendTrace, hlen, hk, if_true, streamSeg]
    have hkk : (L = 1 ∧ k = 0) ∨ (L = 2 ∧ k = 0) ∨ (L = 2 ∧ k = 1) := by
      rcases ha with ⟨_, rfl, _⟩ | ⟨_, rfl, _⟩ <;> omega
    -- this cycle
    obtain ⟨L', d0', ha', hwire⟩ := window_serIn c d ⟨true, k == 0, k + 1 == L, ([d0, 0].take L).getD k 0, false⟩ n cs hr hs
    have hLL : L' = L ∧ d0' = d0 := by
      rcases ha with ⟨a1, a2, a3⟩ | ⟨a1, a2, a3⟩ <;> rcases ha' with ⟨b1, b2, b3⟩ <;>
        first | (exact ⟨by omega, by omega⟩) | (rw [a1] at b1; cases b1) | skip
      all_goals (rename_i h; rcases h with ⟨b1, b2, b3⟩; first | (exact ⟨by omega, by omega⟩) | (rw [a1] at b1; cases b1))
    obtain ⟨rfl, rfl⟩ := hLL
    have hcyc : serCycle (cfgOf c) ⟨cs, ⟨.streaming, k, k⟩⟩
        (envIn d (beatIn false ⟨true, k == 0, k + 1 == L', ([d0', 0].take L').getD k 0, false⟩ n)) =
        (if n.txReady then (if k + 1 = L' then ⟨.done, k, k⟩ else ⟨.streaming, k + 1, k + 1⟩) else ⟨.streaming, k, k⟩,
         ⟨true, ([d0', 0].take L').getD k 0, k == 0, k + 1 == L', false⟩) := by
      simp only [serCycle, hwire]
      exact ser_stream_step L' d0' k n.txReady hkk
    have hwt : withT (envIn d (beatIn false ⟨true, k == 0, k + 1 == L', ([d0', 0].take L').getD k 0, false⟩ n))
        (serCycle (cfgOf c) ⟨cs, ⟨.streaming, k, k⟩⟩
          (envIn d (beatIn false ⟨true, k == 0, k + 1 == L', ([d0', 0].take L').getD k 0, false⟩ n))).2 =
        envIn d (beatIn false ⟨true, k == 0, k + 1 == L', ([d0', 0].take L').getD k 0, false⟩ n) := by
      rw [hcyc]; exact withT_eq _ _ rfl rfl rfl rfl
    have hrel := (beat_cycle c d false ⟨true, k == 0, k + 1 == L', ([d0', 0].take L').getD k 0, false⟩ n hs rfl cs hr).1
    cases hrd : n.txReady with
    | false =>
      obtain ⟨ser', k1, k2⟩ := ih k ⟨_, ⟨.streaming, k, k⟩⟩ hk rfl hrel (by simpa [hrd] using hcnt)
      refine ⟨ser', CL.cons hwt ?_, k2⟩
      rw [hcyc]; simp only [hrd, Bool.false_eq_true, if_false]; exact k1
    | true =>
      by_cases hl : k + 1 = L'
      · -- last byte taken: DONE, the rest of the window is silent
        have hq : ∀ i ∈ streamSeg d false (Desc.sendTrace ([d0', 0].take L') (k + 1) (ns.map (·.txReady))) ns, NR i := by
          have hov := sendTrace_over ([d0', 0].take L') (k + 1) (by rw [hlen]; omega) (ns.map (·.txReady))
          generalize Desc.sendTrace ([d0', 0].take L') (k + 1) (ns.map (·.txReady)) = bs at hov
          clear ih hcnt
          induction bs generalizing ns with
          | nil => intro i hi; cases ns <;> simp [streamSeg] at hi
          | cons b bs ihb =>
            cases ns with
            | nil => intro i hi; simp [streamSeg] at hi
            | cons m ms =>
              intro i hi
              simp only [streamSeg, List.mem_cons] at hi
              rcases hi with rfl | hi
              · rw [hov b (List.mem_cons_self ..)]; exact ⟨rfl, rfl, rfl, rfl, rfl⟩
              · exact ihb ms (fun b' hb' => hov b' (List.mem_cons_of_mem _ hb')) i hi
        obtain ⟨ser', k1, k2, _⟩ := cl_quiet (cfgOf c) _ ⟨_, ⟨.done, k, k⟩⟩ hq (Or.inr rfl)
        refine ⟨ser', CL.cons hwt ?_, k2⟩
        rw [hcyc]; simp only [hrd, if_true, if_pos hl]; exact k1
      · obtain ⟨ser', k1, k2⟩ := ih (k + 1) ⟨_, ⟨.streaming, k + 1, k + 1⟩⟩ (by omega) rfl hrel (by
          simp [hrd] at hcnt; omega)
        refine ⟨ser', CL.cons hwt ?_, k2⟩
        rw [hcyc]; simp only [hrd, if_true, if_neg hl]; exact k1

/-! ### The cycles of an expansion that cannot start the serializer -/

def AllNR (is : List CycIn) : Prop := ∀ i ∈ is, NR i

theorem AllNR.nil : AllNR [] := fun _ h => by cases h
theorem AllNR.cons {i : CycIn} {is : List CycIn} (h1 : NR i) (h2 : AllNR is) : AllNR (i :: is) := by
  intro j hj
  rcases List.mem_cons.mp hj with rfl | hj
  · exact h1
  · exact h2 j hj
theorem AllNR.append {a b : List CycIn} (h1 : AllNR a) (h2 : AllNR b) : AllNR (a ++ b) := by
  intro j hj
  rcases List.mem_append.mp hj with hj | hj
  · exact h1 j hj
  · exact h2 j hj

theorem ts_calm (d : DevState) (n : CycIn) (h : TS n) : TS (envIn d (calm d n)) := by
  obtain ⟨h1, h2, h3, h4⟩ := h
  unfold calm
  cases d.hstate <;> exact ⟨by simp [envIn, h1], by simp [envIn, h2], by simp [envIn, h3], by simp [envIn, h4]⟩

theorem allNR_idleS (d : DevState) (ns : List CycIn) (h : ∀ n ∈ ns, TS n) : AllNR (idleS d ns) := by
  intro i hi
  simp only [idleS, List.mem_map] at hi
  obtain ⟨n, hn, rfl⟩ := hi
  exact ⟨rfl, ts_calm d n (h n hn)⟩

/-- A descriptor-handler window leaves the transmitter inputs alone. -/
theorem allNR_descWindow (d : DevState) (bs : List Desc.Beat) (ns : List CycIn) (h : ∀ n ∈ ns, TS n) :
    AllNR (streamSeg d true bs ns) := by
  induction bs generalizing ns with
  | nil => cases ns <;> exact AllNR.nil
  | cons b bs ih =>
    cases ns with
    | nil => exact AllNR.nil
    | cons n ns =>
      simp only [streamSeg]
      exact AllNR.cons ⟨rfl, h n (List.mem_cons_self ..)⟩ (ih ns (fun m hm => h m (List.mem_cons_of_mem _ hm)))

/-- The free inputs of the expansion leave the transmitter inputs silent (the closed loop does not read them:
`sysStep_ignores_t`). -/
structure TSil (g : GapsS) : Prop where
  pre    : ∀ n ∈ g.pre, TS n
  mid    : ∀ n ∈ g.mid, TS n
  mid2   : ∀ n ∈ g.mid2, TS n
  post   : ∀ n ∈ g.post, TS n
  stream : ∀ n ∈ g.stream, TS n
  n1     : TS g.n1
  n2     : TS g.n2
  n3     : TS g.n3

/-- Every event that is not a token for this device expands to cycles without `ready_for_response`. -/
theorem expandS_allNR (c : DevConfig) (d : DevState) (e : HostEvent) (g : GapsS) (ht : TSil g)
    (hne : ∀ pid ep, e ≠ .token pid d.address ep) : AllNR (expandS c d e g) := by
  have hpre := allNR_idleS d g.pre ht.pre
  have hpost := fun d' => allNR_idleS d' g.post ht.post
  cases e with
  | token pid addr ep =>
    have ha : addr ≠ d.address := fun h => hne pid ep (by rw [h])
    simp only [expandS, ha, if_false]
    exact hpre.append (hpost _)
  | data dp p ok =>
    simp only [expandS]
    split
    · split
      · exact hpre.append (AllNR.append (AllNR.cons ⟨rfl, ts_calm d g.n1 ht.n1⟩ AllNR.nil)
          ((allNR_idleS _ g.mid ht.mid).append (AllNR.append (AllNR.cons ⟨rfl, ts_calm _ g.n2 ht.n2⟩ AllNR.nil)
            ((allNR_idleS _ g.mid2 ht.mid2).append
              (AllNR.append (AllNR.cons ⟨rfl, ts_calm _ g.n3 ht.n3⟩ AllNR.nil) (hpost _))))))
      · exact hpre.append (AllNR.append (AllNR.cons ⟨rfl, ts_calm d g.n1 ht.n1⟩ AllNR.nil) (hpost _))
    · exact hpre.append (hpost _)
  | handshake pid =>
    simp only [expandS]
    split
    · exact hpre.append (AllNR.append (AllNR.cons ⟨rfl, ts_calm d g.n1 ht.n1⟩ AllNR.nil) (hpost _))
    · exact hpre.append (hpost _)
  | busReset => exact hpre.append (hpost _)
  | sof f => exact hpre.append (hpost _)
  | malformed b => exact hpre.append (hpost _)
  | quiet => exact hpre.append (hpost _)
  | produce e' b l => exact hpre.append (hpost _)
  | consume e' k => exact hpre.append (hpost _)
  | setSignal e' v => exact hpre.append (hpost _)

/-! ### A token for this device -/

theorem streamOf_tx (c : DevConfig) (d : DevState) (R : Desc.Response) (h : streamOf c d = some (false, R)) :
    ∃ L d0, TxAns d L d0 ∧ R = .data ([d0, 0].take L) ∧ StreamState d false ∧
      (reqNowResult c d (readyDr d) (readySr d) (readyPing d)).1 = d := by
  unfold streamOf at h
  split at h
  · rename_i hc
    obtain ⟨hdr, hty⟩ := hc
    cases hd : d.hstate <;> simp only [hd] at h <;> (first | (cases h; done) | skip)
    · simp only [Option.some.injEq, Prod.mk.injEq] at h
      obtain ⟨_, rfl⟩ := h
      exact ⟨2, 0, Or.inl ⟨hd, rfl, rfl⟩, rfl, ⟨hty, by simp [hd]⟩, by simp [reqNowResult, hdr, reqNow, hty, hd]⟩
    · simp only [Option.some.injEq, Prod.mk.injEq] at h
      obtain ⟨_, rfl⟩ := h
      exact ⟨1, d.config % 256, Or.inr ⟨hd, rfl, rfl⟩, rfl, ⟨hty, by simp [hd]⟩,
        by simp [reqNowResult, hdr, reqNow, hty, hd]⟩
  · exact absurd h (by simp)

theorem ts_ready (d : DevState) (n : CycIn) (h : TS n) : TS { envIn d n with readyForResponse := true } := h

theorem ts_beatIn_desc (b : Desc.Beat) (n : CycIn) (h : TS n) : TS (beatIn true b n) := h

/-- The `ready_for_response` cycle, the started streamer's window and the idle cycles after it. -/
theorem closed_ready (c : DevConfig) (hx : c.extra = []) (d1 : DevState) (g : GapsS) (dpost : DevState)
    (hfit : (if stallsNow c d1 g then true else
      match streamOf c d1 with
      | some (_, R) => Fits g.lat R (g.stream.map (·.txReady))
      | none => true) = true)
    (ht : TSil g) (hl0 : txStarts c d1 = true → g.lat = 0) (s : SysState) (hr : Rel d1 s.cs)
    (hq : s.ser.fsm = .idle) :
    ∃ ser', CL (cfgOf c) s (readySeg c d1 g ++ idleS dpost g.post) ser' ∧ SerQ ser' := by
  have hpost := allNR_idleS dpost g.post ht.post
  unfold readySeg
  by_cases hsn : stallsNow c d1 g = true
  · -- STALL in the start cycle: the descriptor handler, not the transmitter
    simp only [hsn, if_true]
    have hso : streamOf c d1 = some (true, .stall) := by
      simp only [stallsNow, Bool.and_eq_true, decide_eq_true_eq] at hsn; exact hsn.2
    have hns : txStarts c d1 = false := by simp [txStarts, hso]
    obtain ⟨w1, w2⟩ := cl_ready_nostart c d1 (beatIn true Desc.stallBeat g.n2) s hr hns
      (ts_ready d1 _ (ts_beatIn_desc _ _ ht.n2)) (Or.inl hq)
    obtain ⟨ser', k1, k2, _⟩ := cl_quiet (cfgOf c) (idleS dpost g.post) ⟨_, _⟩ hpost (Or.inl w2)
    exact ⟨ser', CL.cons w1 k1, k2⟩
  · simp only [hsn, Bool.false_eq_true, if_false] at hfit ⊢
    have htr : TS { envIn d1 (calm d1 g.n2) with readyForResponse := true } := ts_calm d1 g.n2 ht.n2
    cases hso : streamOf c d1 with
    | none =>
      have hns : txStarts c d1 = false := by simp [txStarts, hso]
      obtain ⟨w1, w2⟩ := cl_ready_nostart c d1 (calm d1 g.n2) s hr hns htr (Or.inl hq)
      simp only [streamWindow, hso, List.append_nil]
      obtain ⟨ser', k1, k2, _⟩ := cl_quiet (cfgOf c) (idleS dpost g.post) ⟨_, _⟩ hpost (Or.inl w2)
      exact ⟨ser', CL.cons w1 k1, k2⟩
    | some fr =>
      obtain ⟨fd, R⟩ := fr
      cases fd with
      | true =>
        have hns : txStarts c d1 = false := by simp [txStarts, hso]
        obtain ⟨w1, w2⟩ := cl_ready_nostart c d1 (calm d1 g.n2) s hr hns htr (Or.inl hq)
        simp only [streamWindow, hso, List.cons_append, List.nil_append]
        obtain ⟨ser', k1, k2, _⟩ := cl_quiet (cfgOf c) _ ⟨_, _⟩
          ((allNR_descWindow d1 _ g.stream ht.stream).append hpost) (Or.inl w2)
        exact ⟨ser', CL.cons w1 k1, k2⟩
      | false =>
        have hys : txStarts c d1 = true := by simp [txStarts, hso]
        have hlat := hl0 hys
        obtain ⟨L, d0, ha, hR, hss, hm⟩ := streamOf_tx c d1 R hso
        obtain ⟨w1, w2⟩ := cl_ready_start c d1 (calm d1 g.n2) s hr R hso htr hq
        have hrel : Rel d1 (step (cfgOf c) s.cs { envIn d1 (calm d1 g.n2) with readyForResponse := true }).1 := by
          have := (sim_ready_s c hx d1 (calm d1 g.n2) (calmH_calm d1 g.n2) s.cs hr).1
          rw [hm] at this; exact this
        simp only [hso, hlat, hR] at hfit
        have hlen : ([d0, 0].take L).length = L := by rcases ha with ⟨_, rfl, _⟩ | ⟨_, rfl, _⟩ <;> rfl
        have hL : 0 < L := by rcases ha with ⟨_, rfl, _⟩ | ⟨_, rfl, _⟩ <;> decide
        have hcnt : L - 0 ≤ (g.stream.map (·.txReady)).count true := by
          simp only [Fits, List.drop_zero, Bool.and_eq_true, decide_eq_true_eq, hlen] at hfit
          omega
        obtain ⟨s2, c2, q2⟩ := cl_send c d1 hss L d0 ha g.stream 0
          ⟨(step (cfgOf c) s.cs { envIn d1 (calm d1 g.n2) with readyForResponse := true }).1, ⟨.streaming, 0, 0⟩⟩
          hL rfl hrel hcnt
        obtain ⟨ser', k1, k2, _⟩ := cl_quiet (cfgOf c) (idleS dpost g.post) ⟨_, s2⟩ hpost q2
        simp only [streamWindow, hso, hlat, hR, Desc.delayed, Desc.bodyTrace, List.cons_append, List.nil_append]
        refine ⟨ser', CL.cons w1 ?_, k2⟩
        rw [w2]
        exact CL.append c2 k1

/-! ### Events and histories -/

/-- The transmitter's windows have no additional latency: the serializer answers `respTrace 1`. -/
def TxLat0 (c : DevConfig) (d : DevState) (e : HostEvent) (g : GapsS) : Prop :=
  match e with
  | .token pid addr ep => addr = d.address → txStarts c (afterToken d pid ep) = true → g.lat = 0
  | _ => True

instance (c : DevConfig) (d : DevState) (e : HostEvent) (g : GapsS) : Decidable (TxLat0 c d e g) := by
  unfold TxLat0; cases e <;> infer_instance

/-- **One event, closed loop.**  Over the expansion of ANY event the closed loop (control endpoint + multiplexer +
standard handler + serializer model) does exactly what the open-loop model does on that expansion: in every cycle the
serializer model's outputs are the transmitter inputs the stream contract puts into the cycle; afterwards the
serializer is idle or in its DONE cycle. -/
theorem closed_event (c : DevConfig) (hx : c.extra = []) (d : DevState) (e : HostEvent) (g : GapsS)
    (hfit : StreamFits c d e g = true) (ht : TSil g) (hl0 : TxLat0 c d e g) (s : SysState) (hr : Rel d s.cs)
    (hq : SerQ s.ser) :
    ∃ ser', CL (cfgOf c) s (expandS c d e g) ser' ∧ SerQ ser' := by
  by_cases htok : ∃ pid ep, e = .token pid d.address ep
  · obtain ⟨pid, ep, rfl⟩ := htok
    simp only [expandS, if_true]
    simp only [StreamFits, if_true] at hfit
    simp only [TxLat0] at hl0
    -- the idle cycles before the token
    obtain ⟨s1, c1, q1, _⟩ := cl_quiet (cfgOf c) (idleS d g.pre) s (allNR_idleS d g.pre ht.pre) hq
    have r1 := (sim_idleS c d g.pre s.cs hr).1
    -- `new_token` and the idle cycles up to `ready_for_response`
    have hB : AllNR ([{ envIn (afterToken d pid ep) (calm (afterToken d pid ep) g.n1) with newToken := true }] ++
        idleS (afterToken d pid ep) g.mid) :=
      AllNR.append (AllNR.cons ⟨rfl, ts_calm _ g.n1 ht.n1⟩ AllNR.nil) (allNR_idleS _ g.mid ht.mid)
    obtain ⟨s2, c2, q2, i2⟩ := cl_quiet (cfgOf c) _ ⟨final (cfgOf c) s.cs (idleS d g.pre), s1⟩ hB q1
    have r2 := (((SimS.single (sim_newToken_s c d pid ep (calm (afterToken d pid ep) g.n1)
      (calmH_calm (afterToken d pid ep) g.n1))).none_append (sim_idleS c (afterToken d pid ep) g.mid)) _ r1).1
    obtain ⟨s3, c3, q3⟩ := closed_ready c hx (afterToken d pid ep) g (core c d (.token pid d.address ep)).1 hfit ht
      (hl0 trivial) ⟨_, s2⟩ r2 (i2 (by simp))
    refine ⟨s3, ?_, q3⟩
    have := CL.append c1 (CL.append c2 c3)
    simpa [List.append_assoc] using this
  · obtain ⟨ser', k1, k2, _⟩ := cl_quiet (cfgOf c) (expandS c d e g) s
      (expandS_allNR c d e g ht (fun pid ep h => htok ⟨pid, ep, h⟩)) hq
    exact ⟨ser', k1, k2⟩

/-- The same for `expandR` (bus reset included; the closed loop does not see `bus_reset`). -/
theorem closed_eventR (c : DevConfig) (hx : c.extra = []) (d : DevState) (e : HostEvent) (g : GapsS)
    (hfit : StreamFits c d e g = true) (ht : TSil g) (hl0 : TxLat0 c d e g) (s : SysState) (hr : Rel d s.cs)
    (hq : SerQ s.ser) :
    ∃ ser', CL (cfgOf c) s ((expandR c d e g).map (·.2)) ser' ∧ SerQ ser' := by
  by_cases hrst : e = .busReset
  · subst hrst
    have hall : AllNR ((expandR c d .busReset g).map (·.2)) := by
      simp only [expandR, List.map_append, List.map_cons, noRst_snd, List.map_map]
      have h3 : (List.map ((fun x : Bool × CycIn => x.2) ∘ fun i => (true, i))
          (idleS { d with address := 0, config := 0 } g.mid)) = idleS { d with address := 0, config := 0 } g.mid := by
        simp [Function.comp_def]
      rw [h3]
      exact (allNR_idleS d g.pre ht.pre).append (AllNR.cons ⟨rfl, ts_calm d g.n1 ht.n1⟩
        ((allNR_idleS _ g.mid ht.mid).append (allNR_idleS _ g.post ht.post)))
    obtain ⟨ser', k1, k2, _⟩ := cl_quiet (cfgOf c) _ s hall hq
    exact ⟨ser', k1, k2⟩
  · have hE : (expandR c d e g).map (·.2) = expandS c d e g := by
      cases e <;> first | exact absurd rfl hrst | exact noRst_snd _
    rw [hE]
    exact closed_event c hx d e g hfit ht hl0 s hr hq

/-! #### Observing the closed loop -/

/-- The bus observer over a list of (`tx.ready`, outputs) pairs. -/
def obsList : Obs → List (Bool × CycOut) → Obs
  | ob, [] => ob
  | ob, (r, o) :: rest => obsList (obsStep ob r (seen o)) rest

theorem obsRun_eq_obsList (cyc : Cfg) (ob : Obs) (cs : CycState) (is : List CycIn) :
    obsRun cyc ob cs is = obsList ob ((is.map (·.txReady)).zip (outs cyc cs is)) := by
  induction is generalizing ob cs with
  | nil => rfl
  | cons i is ih =>
    simp only [obsRun, List.map_cons, outs, run, List.zip_cons_cons, obsList]
    exact ih _ _

/-- What the closed loop puts on the bus during a cycle sequence. -/
def sysBusResp (cyc : Cfg) (s : SysState) (is : List CycIn) : Resp :=
  (obsList .idle ((is.map (·.txReady)).zip ((sysRun cyc s is).map (·.2)))).resp

theorem CL.busResp {cyc : Cfg} {s : SysState} {is : List CycIn} {ser' : SerState} (h : CL cyc s is ser') :
    sysBusResp cyc s is = busResp cyc s.cs is := by
  unfold sysBusResp CtrlCyc.busResp
  rw [h.2, obsRun_eq_obsList]

/-- The closed loop's bus responses, event by event. -/
def sysBusResps (c : DevConfig) : DevState → SysState → List (Stim × GapsS) → List Resp
  | _, _, [] => []
  | d, s, (x, g) :: rest =>
      sysBusResp (cfgOf c) s ((expandR c d x.ev g).map (·.2)) ::
        sysBusResps c (Device.step c d x).1 (sysFinal (cfgOf c) s ((expandR c d x.ev g).map (·.2))) rest

/-- The outputs of the closed loop with the `bus_reset` value of the cycle. -/
def sysOutsR (cyc : Cfg) (s : SysState) (ris : List (Bool × CycIn)) : List (Bool × CycOut) :=
  (ris.map (·.1)).zip ((sysRun cyc s (ris.map (·.2))).map (·.2))

theorem outsR_zip (cyc : Cfg) (cs : CycState) (ris : List (Bool × CycIn)) :
    outsR cyc cs ris = (ris.map (·.1)).zip (outs cyc cs (ris.map (·.2))) := by
  induction ris generalizing cs with
  | nil => rfl
  | cons ri ris ih =>
    obtain ⟨r, i⟩ := ri
    simp only [outsR, List.map_cons, outs, run, List.zip_cons_cons, ih]

/-- The transmitter windows of the history have latency 0, event by event. -/
def TxLat0From (c : DevConfig) : DevState → List (Stim × GapsS) → Prop
  | _, [] => True
  | d, (x, g) :: rest => TxLat0 c d x.ev g ∧ TxLat0From c (Device.step c d x).1 rest

/-- **Histories, closed loop.** -/
theorem closed_loop_run (c : DevConfig) (hx : c.extra = []) (hmp : c.maxPacket = 64) (h : List (Stim × GapsS))
    (d : DevState) (hinv : Inv d) (hcfg : d.config < 256) (hfit : FitsFrom c d h = true)
    (ht : ∀ xg ∈ h, TSil xg.2) (hl : TxLat0From c d h) (s : SysState) (hr : Rel d s.cs) (hq : SerQ s.ser) :
    ∃ ser', CL (cfgOf c) s ((expandAllR c d h).map (·.2)) ser' ∧ SerQ ser' ∧
      sysBusResps c d s h = busResps c d s.cs h := by
  induction h generalizing d s with
  | nil => exact ⟨s.ser, CL.nil _ s, hq, rfl⟩
  | cons xg rest ih =>
    obtain ⟨x, g⟩ := xg
    simp only [FitsFrom, Bool.and_eq_true] at hfit
    obtain ⟨l1, l2⟩ := hl
    obtain ⟨s1, c1, q1⟩ := closed_eventR c hx d x.ev g hfit.1 (ht (x, g) (List.mem_cons_self ..)) l1 s hr hq
    have r1 := (cycle_refines_step_all c hx hmp d x g hinv hcfg hfit.1 s.cs hr).1
    obtain ⟨s2, c2, q2, b2⟩ := ih (Device.step c d x).1 (inv_step c d x hinv) (config_lt_step c d x hcfg) hfit.2
      (fun xg hxg => ht xg (List.mem_cons_of_mem _ hxg)) l2
      ⟨final (cfgOf c) s.cs ((expandR c d x.ev g).map (·.2)), s1⟩ r1 q1
    refine ⟨s2, ?_, q2, ?_⟩
    · simp only [expandAllR, List.map_append]
      exact CL.append c1 c2
    · simp only [sysBusResps, busResps, c1.busResp, c1.1, b2]

/-- **`cycle_refines_event`, closed loop, from reset.**  The closed loop of the cycle-level control-endpoint model
with the serializer model of its transmitter -- no stream contract on the transmitter -- run from reset over the
expansion of ANY event history (every handler state, bus resets; the descriptor handler still an input under its
contract; the transmitter's windows with the serializer's own latency): the control endpoint ends related to the
event-level final state, the bus carries for every event exactly the event-level response, device.py's registers end
with the event-level values, and the serializer is idle or in its DONE cycle. -/
theorem closed_loop_refines_event_run (c : DevConfig) (hx : c.extra = []) (hmp : c.maxPacket = 64)
    (h : List (Stim × GapsS)) (hfit : FitsFrom c Device.init h = true) (ht : ∀ xg ∈ h, TSil xg.2)
    (hl : TxLat0From c Device.init h) :
    Rel (Device.final c Device.init (h.map (·.1)))
      (sysFinal (cfgOf c) sysInit ((expandAllR c Device.init h).map (·.2))).cs ∧
    sysBusResps c Device.init sysInit h = coreResps c Device.init (h.map (·.1)) ∧
    regsAfterR (0, 0) (sysOutsR (cfgOf c) sysInit (expandAllR c Device.init h)) =
      ((Device.final c Device.init (h.map (·.1))).address, (Device.final c Device.init (h.map (·.1))).config) ∧
    SerQ (sysFinal (cfgOf c) sysInit ((expandAllR c Device.init h).map (·.2))).ser := by
  obtain ⟨ser', ⟨c1, c2⟩, q, b⟩ := closed_loop_run c hx hmp h Device.init inv_init (by decide) hfit ht hl sysInit
    rel_init (Or.inl rfl)
  obtain ⟨o1, o2, o3⟩ := cycle_refines_event_streams_from_reset c hx hmp h hfit
  refine ⟨?_, ?_, ?_, ?_⟩
  · rw [c1]; exact o1
  · rw [b]; exact o2
  · unfold sysOutsR
    rw [c2, ← outsR_zip]; exact o3
  · rw [c1]; exact q

/-! ### Non-vacuity: GET_STATUS, SET_CONFIGURATION(3), GET_CONFIGURATION, a two-packet GET_DESCRIPTOR, a bus reset -- the
closed loop evaluated by the kernel -/

def TSilB (g : GapsS) : Bool :=
  g.pre.all (fun n => decide (TS n)) && g.mid.all (fun n => decide (TS n)) && g.mid2.all (fun n => decide (TS n)) &&
  g.post.all (fun n => decide (TS n)) && g.stream.all (fun n => decide (TS n)) &&
  decide (TS g.n1) && decide (TS g.n2) && decide (TS g.n3)

theorem TSil_of_B (g : GapsS) (h : TSilB g = true) : TSil g := by
  simp only [TSilB, Bool.and_eq_true, List.all_eq_true, decide_eq_true_eq] at h
  obtain ⟨⟨⟨⟨⟨⟨⟨h1, h2⟩, h3⟩, h4⟩, h5⟩, h6⟩, h7⟩, h8⟩ := h
  exact ⟨h1, h2, h3, h4, h5, h6, h7, h8⟩

def TxLat0From.dec (c : DevConfig) : (d : DevState) → (h : List (Stim × GapsS)) → Decidable (TxLat0From c d h)
  | _, [] => isTrue trivial
  | d, (x, g) :: rest =>
    have := TxLat0From.dec c (Device.step c d x).1 rest
    inferInstanceAs (Decidable (TxLat0 c d x.ev g ∧ TxLat0From c (Device.step c d x).1 rest))

instance (c : DevConfig) (d : DevState) (h : List (Stim × GapsS)) : Decidable (TxLat0From c d h) :=
  TxLat0From.dec c d h

def exCfgC : DevConfig :=
  { descriptors := [(1, 0, [18, 1, 0, 2, 0, 0, 0, 64, 9, 18, 1, 0, 0, 1, 1, 2, 3, 1]), (2, 0, List.range 70)],
    maxPacket := 64, posBits := 7 }

/-- gaps: `lat` only matters for the descriptor handler's windows (the serializer has its own latency). -/
def exGc (lat n : Nat) : GapsS :=
  { pre := [{}, { txReady := true, dValid := true, dStall := true }], mid := [{ dFirst := true }], post := [{}],
    lat := lat,
    stream := ([{}, { txReady := true }, {}, {}] : List CycIn) ++ List.replicate n ({ txReady := true } : CycIn) ++
      ([{}, { txReady := true }, {}] : List CycIn) }

def exHistoryC : List (Stim × GapsS) :=
  let setupTok : Stim × GapsS := (⟨.token PID_SETUP 0 0, .none⟩, exGc 0 0)
  let setupData : List Nat → Stim × GapsS := fun p => (⟨.data PID_DATA0 p true, .none⟩, exGc 0 0)
  let inTok : Nat → Nat → Stim × GapsS := fun lat n => (⟨.token PID_IN 0 0, .none⟩, exGc lat n)
  let hostAck : Stim × GapsS := (⟨.handshake PID_ACK, .none⟩, exGc 0 0)
  let statusOut : List (Stim × GapsS) :=
    [(⟨.token PID_OUT 0 0, .none⟩, exGc 0 0), (⟨.data PID_DATA1 [] true, .none⟩, exGc 0 0)]
  [setupTok, setupData [0x80, 0, 0, 0, 0, 0, 2, 0], inTok 0 2, hostAck] ++ statusOut ++
  [setupTok, setupData [0x00, 9, 3, 0, 0, 0, 0, 0], inTok 0 0, hostAck] ++
  [setupTok, setupData [0x80, 8, 0, 0, 0, 0, 1, 0], inTok 0 1, hostAck] ++ statusOut ++
  [setupTok, setupData [0x80, 6, 0, 2, 0, 0, 100, 0], inTok 2 70, hostAck, inTok 3 10, hostAck] ++ statusOut ++
  [(⟨.busReset, .none⟩, exGc 0 0)]

-- the hypotheses of `closed_loop_refines_event_run`
example : FitsFrom exCfgC Device.init exHistoryC = true := by decide +kernel
example : ∀ xg ∈ exHistoryC, TSil xg.2 := by
  have h : exHistoryC.all (fun xg => TSilB xg.2) = true := by decide +kernel
  intro xg hxg
  exact TSil_of_B _ (List.all_eq_true.mp h xg hxg)
example : TxLat0From exCfgC Device.init exHistoryC := by decide +kernel
-- its conclusion, evaluated independently: the closed loop's bus responses are the event-level model's
example : sysBusResps exCfgC Device.init sysInit exHistoryC =
    [.none, .hs PID_ACK, .data PID_DATA1 [0, 0], .none, .none, .hs PID_ACK,
     .none, .hs PID_ACK, .data PID_DATA1 [], .none,
     .none, .hs PID_ACK, .data PID_DATA1 [3], .none, .none, .hs PID_ACK,
     .none, .hs PID_ACK, .data PID_DATA1 (List.range 64), .none, .data PID_DATA0 [64, 65, 66, 67, 68, 69], .none,
     .none, .hs PID_ACK, .none] := by decide +kernel
example : sysBusResps exCfgC Device.init sysInit exHistoryC = coreResps exCfgC Device.init (exHistoryC.map (·.1)) := by
  decide +kernel
example : (sysFinal (cfgOf exCfgC) sysInit ((expandAllR exCfgC Device.init exHistoryC).map (·.2))).ser.fsm = .idle := by
  decide +kernel
-- a transmitter window with an additional latency is not what the serializer does: excluded by `TxLat0`
example : ¬ TxLat0From exCfgC Device.init
    [(⟨.token PID_SETUP 0 0, .none⟩, exGc 0 0), (⟨.data PID_DATA0 [0x80, 0, 0, 0, 0, 0, 2, 0] true, .none⟩, exGc 0 0),
     (⟨.token PID_IN 0 0, .none⟩, exGc 1 2)] := by decide +kernel

end LunaVerif.CtrlCyc
