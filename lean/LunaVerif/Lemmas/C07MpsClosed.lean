import LunaVerif.Lemmas.C07Mps
import LunaVerif.Lemmas.C07Closed2
/-!
# The closed loops (Lemmas/C07Closed.lean, C07Closed2.lean) for EVERY legal control max packet size

The one-event closed-loop theorems `closed_eventR` (serializer model in the loop) and `closed_eventR2` (serializer
model + block descriptor handler model, `max_packet_size ∈ {8, 16, 32, 64}`) do not depend on the event-level successor
state; only the histories did, through `cycle_refines_step_all` (`max_packet_size = 64`).  Here the histories run over
the event-level model with the `start_position` advance by `max_packet_size` (`stepM`, Lemmas/C07Mps.lean) and
`cycle_refines_step_all_mps`.
-/
namespace LunaVerif.CtrlCyc
open LunaVerif.Device

/-! ### Serializer model in the loop -/

def sysBusRespsM (c : DevConfig) : DevState → SysState → List (Stim × GapsS) → List Resp
  | _, _, [] => []
  | d, s, (x, g) :: rest =>
      sysBusResp (cfgOf c) s ((expandRM c d x.ev g).map (·.2)) ::
        sysBusRespsM c (stepM c d x).1 (sysFinal (cfgOf c) s ((expandRM c d x.ev g).map (·.2))) rest

/-- The transmitter windows of the history have latency 0, event by event. -/
def TxLat0FromM (c : DevConfig) : DevState → List (Stim × GapsS) → Prop
  | _, [] => True
  | d, (x, g) :: rest => TxLat0 c d x.ev g ∧ TxLat0FromM c (stepM c d x).1 rest

theorem closed_loop_run_mps (c : DevConfig) (hx : c.extra = []) (h : List (Stim × GapsS))
    (d : DevState) (hinv : Inv d) (hcfg : d.config < 256) (hfit : FitsFromM c d h = true)
    (ht : ∀ xg ∈ h, TSil xg.2) (hl : TxLat0FromM c d h) (s : SysState) (hr : Rel d s.cs) (hq : SerQ s.ser) :
    ∃ ser', CL (cfgOf c) s ((expandAllRM c d h).map (·.2)) ser' ∧ SerQ ser' ∧
      sysBusRespsM c d s h = busRespsM c d s.cs h := by
  induction h generalizing d s with
  | nil => exact ⟨s.ser, CL.nil _ s, hq, rfl⟩
  | cons xg rest ih =>
    obtain ⟨x, g⟩ := xg
    simp only [FitsFromM, Bool.and_eq_true] at hfit
    obtain ⟨l1, l2⟩ := hl
    obtain ⟨s1, c1, q1⟩ := closed_eventR c hx d x.ev g hfit.1 (ht (x, g) (List.mem_cons_self ..)) l1 s hr hq
    rw [← expandRM_eq] at c1
    have r1 := (cycle_refines_step_all_mps c hx d x g hinv hcfg hfit.1 s.cs hr).1
    obtain ⟨s2, c2, q2, b2⟩ := ih (stepM c d x).1 (inv_stepM c d x hinv) (config_lt_stepM c d x hcfg) hfit.2
      (fun xg hxg => ht xg (List.mem_cons_of_mem _ hxg)) l2
      ⟨final (cfgOf c) s.cs ((expandRM c d x.ev g).map (·.2)), s1⟩ r1 q1
    refine ⟨s2, ?_, q2, ?_⟩
    · simp only [expandAllRM, List.map_append]
      exact CL.append c1 c2
    · simp only [sysBusRespsM, busRespsM, c1.busResp, c1.1, b2]

/-- **`cycle_refines_event`, closed loop with the serializer model, from reset, every `max_packet_size`**
(`closed_loop_refines_event_run` over `stepM`; no hypothesis on `c.maxPacket`). -/
theorem closed_loop_refines_event_run_mps (c : DevConfig) (hx : c.extra = [])
    (h : List (Stim × GapsS)) (hfit : FitsFromM c Device.init h = true) (ht : ∀ xg ∈ h, TSil xg.2)
    (hl : TxLat0FromM c Device.init h) :
    Rel (finalM c Device.init (h.map (·.1)))
      (sysFinal (cfgOf c) sysInit ((expandAllRM c Device.init h).map (·.2))).cs ∧
    sysBusRespsM c Device.init sysInit h = coreRespsM c Device.init (h.map (·.1)) ∧
    regsAfterR (0, 0) (sysOutsR (cfgOf c) sysInit (expandAllRM c Device.init h)) =
      ((finalM c Device.init (h.map (·.1))).address, (finalM c Device.init (h.map (·.1))).config) ∧
    SerQ (sysFinal (cfgOf c) sysInit ((expandAllRM c Device.init h).map (·.2))).ser := by
  obtain ⟨ser', ⟨c1, c2⟩, q, b⟩ := closed_loop_run_mps c hx h Device.init inv_init (by decide) hfit ht hl sysInit
    rel_init (Or.inl rfl)
  obtain ⟨o1, o2, o3⟩ := cycle_refines_event_streams_from_reset_mps c hx h hfit
  refine ⟨?_, ?_, ?_, ?_⟩
  · rw [c1]; exact o1
  · rw [b]; exact o2
  · unfold sysOutsR
    rw [c2, ← outsR_zip]; exact o3
  · rw [c1]; exact q

/-! ### Serializer model + block descriptor handler model in the loop -/

def sys2BusRespsM (c : DevConfig) (bc : Desc.Block.Config) : DevState → Sys2State → List (Stim × GapsS) → List Resp
  | _, _, [] => []
  | d, s, (x, g) :: rest =>
      sys2BusResp (cfgOf c) bc s ((expandRM c d x.ev g).map (·.2)) ::
        sys2BusRespsM c bc (stepM c d x).1 (sys2Final (cfgOf c) bc s ((expandRM c d x.ev g).map (·.2))) rest

/-- The window hypotheses of the closed loop along a history. -/
def Fits2FromM (c : DevConfig) : DevState → List (Stim × GapsS) → Bool
  | _, [] => true
  | d, (x, g) :: rest => StreamFits2 c d x.ev g && Fits2FromM c (stepM c d x).1 rest

theorem closed2_run_mps (c : DevConfig) (hx : c.extra = [])
    (hm : c.maxPacket = 8 ∨ c.maxPacket = 16 ∨ c.maxPacket = 32 ∨ c.maxPacket = 64)
    (hwf : Desc.wellFormed (collOf c.descriptors) = true)
    (hpw : 2 ≤ (Desc.Rom.layout (collOf c.descriptors)).maxLen)
    (h : List (Stim × GapsS)) (d : DevState) (hinv : Inv d) (hcfg : d.config < 256)
    (hfit : Fits2FromM c d h = true) (ht : ∀ xg ∈ h, TDSil xg.2) (s : Sys2State) (hr : Rel d s.cs) (hq : SerQ s.ser)
    (hb : s.blk.fsm = .idle) :
    ∃ h', SameButLat h h' ∧ FitsFromM c d h' = true ∧ ∃ ser' blk',
      CL2 (cfgOf c) (Desc.blockOf (collOf c.descriptors) c.maxPacket) s ((expandAllRM c d h').map (·.2)) ser' blk' ∧
      SerQ ser' ∧ blk'.fsm = .idle ∧
      sys2BusRespsM c (Desc.blockOf (collOf c.descriptors) c.maxPacket) d s h' = busRespsM c d s.cs h' := by
  induction h generalizing d s with
  | nil => exact ⟨[], trivial, rfl, s.ser, s.blk, CL2.nil _ _ s, hq, hb, rfl⟩
  | cons xg rest ih =>
    obtain ⟨x, g⟩ := xg
    simp only [Fits2FromM, Bool.and_eq_true] at hfit
    obtain ⟨k, s1, b1, f1, c1, q1, i1⟩ := closed_eventR2 c hx hwf hm hpw d x.ev g hfit.1
      (ht (x, g) (List.mem_cons_self ..)) s hr hq hb
    rw [← expandRM_eq] at c1
    have r1 := (cycle_refines_step_all_mps c hx d x { g with lat := k } hinv hcfg f1 s.cs hr).1
    obtain ⟨rest', sb, ff, s2, b2, c2, q2, i2, e2⟩ := ih (stepM c d x).1 (inv_stepM c d x hinv)
      (config_lt_stepM c d x hcfg) hfit.2 (fun xg hxg => ht xg (List.mem_cons_of_mem _ hxg))
      ⟨final (cfgOf c) s.cs ((expandRM c d x.ev { g with lat := k }).map (·.2)), s1, b1⟩ r1 q1 i1
    refine ⟨(x, { g with lat := k }) :: rest', ⟨rfl, ⟨k, rfl⟩, sb⟩, ?_, s2, b2, ?_, q2, i2, ?_⟩
    · simp only [FitsFromM, f1, ff, Bool.and_self]
    · simp only [expandAllRM, List.map_append]
      exact CL2.append c1 c2
    · simp only [sys2BusRespsM, busRespsM, c1.busResp, c1.1, e2]

/-- **`cycle_refines_event`, closed loop with both streamers, from reset, `max_packet_size ∈ {8, 16, 32, 64}` -- no
stream contract left.**  As `closed2_refines_event_run`, over the event-level model `stepM`: the block descriptor
handler model `GetDescriptorHandlerBlock(descriptors, max_packet_length = c.maxPacket)` is started at
`start_position` = 0, `mps`, 2·`mps`, … by the standard handler model and produces the packets itself. -/
theorem closed2_refines_event_run_mps (c : DevConfig) (hx : c.extra = [])
    (hm : c.maxPacket = 8 ∨ c.maxPacket = 16 ∨ c.maxPacket = 32 ∨ c.maxPacket = 64)
    (hwf : Desc.wellFormed (collOf c.descriptors) = true)
    (hpw : 2 ≤ (Desc.Rom.layout (collOf c.descriptors)).maxLen)
    (h : List (Stim × GapsS)) (hfit : Fits2FromM c Device.init h = true) (ht : ∀ xg ∈ h, TDSil xg.2) :
    ∃ h', SameButLat h h' ∧
      Rel (finalM c Device.init (h.map (·.1)))
        (sys2Final (cfgOf c) (Desc.blockOf (collOf c.descriptors) c.maxPacket) sys2Init
          ((expandAllRM c Device.init h').map (·.2))).cs ∧
      sys2BusRespsM c (Desc.blockOf (collOf c.descriptors) c.maxPacket) Device.init sys2Init h' =
        coreRespsM c Device.init (h.map (·.1)) ∧
      regsAfterR (0, 0) (sys2OutsR (cfgOf c) (Desc.blockOf (collOf c.descriptors) c.maxPacket) sys2Init
          (expandAllRM c Device.init h')) =
        ((finalM c Device.init (h.map (·.1))).address, (finalM c Device.init (h.map (·.1))).config) ∧
      SerQ (sys2Final (cfgOf c) (Desc.blockOf (collOf c.descriptors) c.maxPacket) sys2Init
          ((expandAllRM c Device.init h').map (·.2))).ser ∧
      (sys2Final (cfgOf c) (Desc.blockOf (collOf c.descriptors) c.maxPacket) sys2Init
          ((expandAllRM c Device.init h').map (·.2))).blk.fsm = .idle := by
  obtain ⟨h', sb, ff, ser', blk', ⟨c1, c2⟩, q, i, b⟩ := closed2_run_mps c hx hm hwf hpw h Device.init inv_init (by decide)
    hfit ht sys2Init rel_init (Or.inl rfl) rfl
  obtain ⟨o1, o2, o3⟩ := cycle_refines_event_streams_from_reset_mps c hx h' ff
  rw [sb.stims] at o1 o2 o3
  refine ⟨h', sb, ?_, ?_, ?_, ?_, ?_⟩
  · rw [c1]; exact o1
  · rw [b]; exact o2
  · unfold sys2OutsR
    rw [c2, ← outsR_zip]; exact o3
  · rw [c1]; exact q
  · rw [c1]; exact i

/-! ### Non-vacuity: `max_packet_size = 8`, the closed loop of the three models evaluated by the kernel -/

def exCfgC8 : DevConfig :=
  { descriptors := [(1, 0, [18, 1, 0, 2, 0, 0, 0, 8, 9, 18, 1, 0, 0, 1, 1, 2, 3, 1]), (2, 0, List.range 16)],
    maxPacket := 8, posBits := 5 }

/-- GET_DESCRIPTOR(device, wLength 64) in three packets (8 + 8 + 2), GET_DESCRIPTOR(type 2: 16 bytes, wLength 64) in
two packets and a zero-length packet, GET_STATUS, a missing descriptor, bus reset. -/
def exHistoryD8 (latD : Nat) : List (Stim × GapsS) :=
  let setupTok : Stim × GapsS := (⟨.token PID_SETUP 0 0, .none⟩, exGd 0 0)
  let setupData : List Nat → Stim × GapsS := fun p => (⟨.data PID_DATA0 p true, .none⟩, exGd 0 0)
  let inTok : Nat → Nat → Stim × GapsS := fun lat n => (⟨.token PID_IN 0 0, .none⟩, exGd lat n)
  let hostAck : Stim × GapsS := (⟨.handshake PID_ACK, .none⟩, exGd 0 0)
  let statusOut : List (Stim × GapsS) :=
    [(⟨.token PID_OUT 0 0, .none⟩, exGd 0 0), (⟨.data PID_DATA1 [] true, .none⟩, exGd 0 0)]
  [setupTok, setupData [0x80, 6, 0, 1, 0, 0, 64, 0], inTok latD 8, hostAck, inTok latD 8, hostAck, inTok latD 2, hostAck] ++
    statusOut ++
  [setupTok, setupData [0x80, 6, 0, 2, 0, 0, 64, 0], inTok latD 8, hostAck, inTok latD 8, hostAck, inTok latD 0, hostAck] ++
    statusOut ++
  [setupTok, setupData [0x80, 0, 0, 0, 0, 0, 2, 0], inTok 0 2, hostAck] ++ statusOut ++
  [setupTok, setupData [0x80, 6, 0, 9, 0, 0, 18, 0], inTok latD 0] ++
  [(⟨.busReset, .none⟩, exGd 0 0)]

-- the hypotheses of `closed2_refines_event_run_mps` (whatever the caller's guess for the latency)
example : exCfgC8.extra = [] ∧ exCfgC8.maxPacket = 8 := ⟨rfl, rfl⟩
example : Desc.wellFormed (collOf exCfgC8.descriptors) = true ∧ 2 ≤ (Desc.Rom.layout (collOf exCfgC8.descriptors)).maxLen := by
  decide +kernel
example : Fits2FromM exCfgC8 Device.init (exHistoryD8 0) = true := by decide +kernel
example : ∀ xg ∈ exHistoryD8 0, TDSil xg.2 := by
  have h : (exHistoryD8 0).all (fun xg => TDSilB xg.2) = true := by decide +kernel
  intro xg hxg
  exact TDSil_of_B _ (List.all_eq_true.mp h xg hxg)
-- its conclusion evaluated: with the block handler model's own latency (4 cycles: `lat := 3`) the closed loop's bus
-- responses are the event-level model's (start_position 0 / 8 / 16), and both streamers are at rest at the end
example : sys2BusRespsM exCfgC8 (Desc.blockOf (collOf exCfgC8.descriptors) 8) Device.init sys2Init (exHistoryD8 3) =
    [.none, .hs PID_ACK, .data PID_DATA1 [18, 1, 0, 2, 0, 0, 0, 8], .none, .data PID_DATA0 [9, 18, 1, 0, 0, 1, 1, 2], .none,
     .data PID_DATA1 [3, 1], .none, .none, .hs PID_ACK,
     .none, .hs PID_ACK, .data PID_DATA1 [0, 1, 2, 3, 4, 5, 6, 7], .none, .data PID_DATA0 [8, 9, 10, 11, 12, 13, 14, 15], .none,
     .data PID_DATA1 [], .none, .none, .hs PID_ACK,
     .none, .hs PID_ACK, .data PID_DATA1 [0, 0], .none, .none, .hs PID_ACK,
     .none, .hs PID_ACK, .hs PID_STALL, .none] := by decide +kernel
example : sys2BusRespsM exCfgC8 (Desc.blockOf (collOf exCfgC8.descriptors) 8) Device.init sys2Init (exHistoryD8 3) =
    coreRespsM exCfgC8 Device.init ((exHistoryD8 0).map (·.1)) := by decide +kernel
example : (sys2Final (cfgOf exCfgC8) (Desc.blockOf (collOf exCfgC8.descriptors) 8) sys2Init
    ((expandAllRM exCfgC8 Device.init (exHistoryD8 3)).map (·.2))).blk.fsm = .idle := by decide +kernel

end LunaVerif.CtrlCyc
