import LunaVerif.Lemmas.DeviceInv
/-!
Step-level facts about the event-level device model used by the C07 / C08 / C10 theorems:
which events can change which registers, and which events can be answered with a DATA packet.
-/
namespace LunaVerif.Device

/-! ### `step` = `core` + ghost bookkeeping -/
section
variable (c : DevConfig) (s : DevState) (x : Stim)
@[simp] theorem step_address : (step c s x).1.address = (core c s x.ev).1.address := rfl
@[simp] theorem step_config : (step c s x).1.config = (core c s x.ev).1.config := rfl
@[simp] theorem step_tokPid : (step c s x).1.tokPid = (core c s x.ev).1.tokPid := rfl
@[simp] theorem step_tokEp : (step c s x).1.tokEp = (core c s x.ev).1.tokEp := rfl
@[simp] theorem step_sdWait : (step c s x).1.sdWait = (core c s x.ev).1.sdWait := rfl
@[simp] theorem step_setup : (step c s x).1.setup = (core c s x.ev).1.setup := rfl
@[simp] theorem step_stage : (step c s x).1.stage = (core c s x.ev).1.stage := rfl
@[simp] theorem step_hstate : (step c s x).1.hstate = (core c s x.ev).1.hstate := rfl
@[simp] theorem step_startPos : (step c s x).1.startPos = (core c s x.ev).1.startPos := rfl
@[simp] theorem step_txPid : (step c s x).1.txPid = (core c s x.ev).1.txPid := rfl
@[simp] theorem step_expectingAck : (step c s x).1.expectingAck = (core c s x.ev).1.expectingAck := rfl
theorem step_resp : (step c s x).2 =
    if (core c s x.ev).2.isNone ∧ (core c s x.ev).1.tokEp ≠ 0 then x.foreign else (core c s x.ev).2 := rfl
theorem step_gRespData : (step c s x).1.gRespData = (step c s x).2.isData := rfl
theorem step_gPrevTok : (step c s x).1.gPrevTok = tokenPidOf x.ev := rfl
end

/-- While the last token names the control endpoint, the response is the control endpoint's own. -/
theorem step_resp_ep0 (c : DevConfig) (s : DevState) (x : Stim) (h : (core c s x.ev).1.tokEp = 0) :
    (step c s x).2 = (core c s x.ev).2 := by
  rw [step_resp]; simp [h]

/-! ### Histories -/

theorem final_append (c : DevConfig) (s : DevState) (h₁ h₂ : List Stim) :
    final c s (h₁ ++ h₂) = final c (final c s h₁) h₂ := by
  induction h₁ generalizing s with
  | nil => rfl
  | cons x xs ih => simp [final, ih]

theorem final_snoc (c : DevConfig) (s : DevState) (h : List Stim) (x : Stim) :
    final c s (h ++ [x]) = (step c (final c s h) x).1 := by
  rw [final_append]; rfl

theorem legalFrom_append (c : DevConfig) (s : DevState) (h₁ h₂ : List Stim) :
    legalFrom c s (h₁ ++ h₂) = (legalFrom c s h₁ && legalFrom c (final c s h₁) h₂) := by
  induction h₁ generalizing s with
  | nil => simp [legalFrom, final]
  | cons x xs ih => simp [legalFrom, final, ih, Bool.and_assoc]

theorem legal_snoc {c : DevConfig} {h : List Stim} {x : Stim} (l : LegalHost c (h ++ [x]) = true) :
    LegalHost c h = true ∧ legalEvent c (final c init h) x = true := by
  unfold LegalHost at l ⊢
  rw [legalFrom_append] at l
  simp [legalFrom] at l
  exact l

/-! ### Registers only the handlers touch -/

theorem request_regs (c : DevConfig) (s : DevState) (r : Req) :
    (request c s r).1.address = s.address ∧ (request c s r).1.config = s.config :=
  ⟨(sameCtl_request c s r).address, (sameCtl_request c s r).config⟩

theorem onToken_regs (c : DevConfig) (s : DevState) (pid ep : Nat) :
    (onToken c s pid ep).1.address = s.address ∧ (onToken c s pid ep).1.config = s.config := by
  unfold onToken
  simp only []
  split
  · split <;> (try split) <;>
      first
        | exact ⟨rfl, rfl⟩
        | (have := request_regs c (afterToken s pid ep) .data; exact this)
        | (have := request_regs c (afterToken s pid ep) .status; exact this)
  · exact ⟨rfl, rfl⟩

theorem onData_regs (c : DevConfig) (s : DevState) (p : List Nat) (ok : Bool) :
    (onData c s p ok).1.address = s.address ∧ (onData c s p ok).1.config = s.config := by
  unfold onData
  split
  · exact ⟨rfl, rfl⟩
  · split
    · split
      · split
        · unfold onSetupData; simp only []; split <;> exact ⟨rfl, rfl⟩
        · exact ⟨rfl, rfl⟩
      · exact ⟨rfl, rfl⟩
    · split
      · exact request_regs c s .status
      · exact ⟨rfl, rfl⟩

/-- The host ACK that reaches the standard handler while it handles SET_ADDRESS / SET_CONFIGURATION. -/
def AckReachesHandler (s : DevState) (pid : Nat) : Prop :=
  pid = PID_ACK ∧ s.tokEp = 0 ∧ s.tokPid = PID_IN ∧ s.setup.type = TYPE_STANDARD

instance (s : DevState) (pid : Nat) : Decidable (AckReachesHandler s pid) := by
  unfold AckReachesHandler; infer_instance

theorem stdAck_address (s : DevState) :
    (stdAck s).address = if s.hstate = .setAddress then s.setup.value % 128 else s.address := by
  unfold stdAck
  cases hs : s.hstate <;> simp [toIdle]
  split <;> rfl

theorem stdAck_config (s : DevState) :
    (stdAck s).config = if s.hstate = .setConfiguration then s.setup.value % 256 else s.config := by
  unfold stdAck
  cases hs : s.hstate <;> simp [toIdle]
  split <;> rfl

theorem onHandshake_reach (s : DevState) (pid : Nat) (g : AckReachesHandler s pid) :
    (onHandshake s pid).address = (stdAck s).address ∧ (onHandshake s pid).config = (stdAck s).config := by
  unfold AckReachesHandler at g
  unfold onHandshake
  rw [if_pos g]
  simp only []
  split <;> exact ⟨rfl, rfl⟩

theorem onHandshake_noreach (s : DevState) (pid : Nat) (g : ¬ AckReachesHandler s pid) :
    onHandshake s pid = s := by
  unfold AckReachesHandler at g
  unfold onHandshake
  rw [if_neg g]

theorem onHandshake_address (s : DevState) (pid : Nat) (h : (onHandshake s pid).address ≠ s.address) :
    AckReachesHandler s pid ∧ s.hstate = .setAddress ∧ (onHandshake s pid).address = s.setup.value % 128 := by
  by_cases g : AckReachesHandler s pid
  · rw [(onHandshake_reach s pid g).1, stdAck_address] at h ⊢
    by_cases hs : s.hstate = .setAddress
    · simp [g, hs]
    · simp [hs] at h
  · rw [onHandshake_noreach s pid g] at h; exact absurd rfl h

theorem onHandshake_config (s : DevState) (pid : Nat) (h : (onHandshake s pid).config ≠ s.config) :
    AckReachesHandler s pid ∧ s.hstate = .setConfiguration ∧ (onHandshake s pid).config = s.setup.value % 256 := by
  by_cases g : AckReachesHandler s pid
  · rw [(onHandshake_reach s pid g).2, stdAck_config] at h ⊢
    by_cases hs : s.hstate = .setConfiguration
    · simp [g, hs]
    · simp [hs] at h
  · rw [onHandshake_noreach s pid g] at h; exact absurd rfl h


/-! ### Which events are answered with DATA while the last token is an IN for endpoint 0 -/

theorem onToken_ctl (c : DevConfig) (s : DevState) (pid ep : Nat) :
    SameCtl (afterToken s pid ep) (onToken c s pid ep).1 := by
  unfold onToken
  simp only []
  split
  · split <;> (try split) <;> first | exact SameCtl.refl _ | exact sameCtl_request c _ _
  · exact SameCtl.refl _

theorem onData_tok (c : DevConfig) (s : DevState) (p : List Nat) (ok : Bool) :
    (onData c s p ok).1.tokPid = s.tokPid ∧ (onData c s p ok).1.tokEp = s.tokEp := by
  unfold onData
  split
  · exact ⟨rfl, rfl⟩
  · split
    · split
      · split
        · unfold onSetupData; simp only []; split <;> exact ⟨rfl, rfl⟩
        · exact ⟨rfl, rfl⟩
      · exact ⟨rfl, rfl⟩
    · split
      · exact ⟨(sameCtl_request c s .status).tokPid, (sameCtl_request c s .status).tokEp⟩
      · exact ⟨rfl, rfl⟩

theorem onData_resp_of_pid_in (c : DevConfig) (s : DevState) (p : List Nat) (ok : Bool) (i : Inv s)
    (h : s.tokPid = PID_IN) : (onData c s p ok).2 = .none := by
  unfold onData
  split
  · rfl
  · split
    · rename_i w
      rcases i.wait_pid w with h' | h' <;> rw [h] at h' <;> exact absurd h' (by decide)
    · split
      · rename_i g
        rw [h] at g
        exact absurd g.2.2 (by decide)
      · rfl

theorem onHandshake_tok (s : DevState) (pid : Nat) :
    (onHandshake s pid).tokPid = s.tokPid ∧ (onHandshake s pid).tokEp = s.tokEp := by
  by_cases g : AckReachesHandler s pid
  · unfold AckReachesHandler at g
    unfold onHandshake
    rw [if_pos g]
    have h := sameCtl_stdAck_but_regs s
    simp only []
    split <;> exact ⟨h.1, h.2.1⟩
  · rw [onHandshake_noreach s pid g]; exact ⟨rfl, rfl⟩

/-- If, after an event, the last token is an IN for endpoint 0 and the device has just transmitted a DATA
packet, then that event was this very IN token (addressed to the device), and the DATA packet is the
control endpoint's answer to it. -/
theorem data_answer_is_to_in_token (c : DevConfig) (s : DevState) (t : Stim) (i : Inv s)
    (hd : (step c s t).1.gRespData = true) (hep : (step c s t).1.tokEp = 0)
    (hpid : (step c s t).1.tokPid = PID_IN) :
    t.ev = .token PID_IN s.address 0 ∧ (step c s t).2 = (onToken c s PID_IN 0).2 ∧
    (core c s t.ev).1 = (onToken c s PID_IN 0).1 := by
  rw [step_gRespData] at hd
  rw [step_tokEp] at hep
  rw [step_tokPid] at hpid
  rw [step_resp_ep0 c s t hep] at hd ⊢
  cases hev : t.ev with
  | token pid addr ep =>
    rw [hev] at hd hep hpid
    unfold core at hd hep hpid ⊢
    simp only [] at hd hep hpid ⊢
    by_cases ha : addr = s.address
    · simp only [if_pos ha] at hd hep hpid ⊢
      have hc := onToken_ctl c s pid ep
      have h1 : pid = PID_IN := by rw [hc.tokPid] at hpid; exact hpid
      have h2 : ep = 0 := by rw [hc.tokEp] at hep; exact hep
      subst h1 h2 ha
      exact ⟨rfl, rfl, rfl⟩
    · simp only [if_neg ha] at hpid
      exact absurd hpid (by decide)
  | data pid p ok =>
    rw [hev] at hd hpid
    unfold core at hd hpid
    simp only [] at hd hpid
    rw [(onData_tok c s p ok).1] at hpid
    rw [onData_resp_of_pid_in c s p ok i hpid] at hd
    exact absurd hd (by simp [Resp.isData])
  | handshake pid => rw [hev] at hd; simp [core, Resp.isData] at hd
  | sof f => rw [hev] at hd; simp [core, Resp.isData] at hd
  | malformed b => rw [hev] at hd; simp [core, Resp.isData] at hd
  | quiet => rw [hev] at hd; simp [core, Resp.isData] at hd
  | busReset => rw [hev] at hd; simp [core, Resp.isData] at hd
  | produce e b l => rw [hev] at hd; simp [core, Resp.isData] at hd
  | consume e n => rw [hev] at hd; simp [core, Resp.isData] at hd
  | setSignal e v => rw [hev] at hd; simp [core, Resp.isData] at hd

/-! ### SET_ADDRESS / SET_CONFIGURATION: the only DATA answer is the status-stage ZLP -/

/-- `s.hstate` is one of the two register-write states. -/
def IsRegWrite (h : HState) : Prop := h = .setAddress ∨ h = .setConfiguration

theorem stdRequest_regwrite (c : DevConfig) (s : DevState) (r : Req)
    (hh : IsRegWrite (stdRequest c s r).1.hstate) :
    s.hstate = (stdRequest c s r).1.hstate ∧
    (stdRequest c s r).2 = (match r with | .status => .data (dataPid s) [] | .data => .none) := by
  unfold IsRegWrite at hh
  cases hs : s.hstate <;> cases r <;> simp [stdRequest, hs, toIdle] at hh ⊢
  all_goals (split at hh <;> simp at hh)

theorem request_regwrite (c : DevConfig) (s : DevState) (r : Req) (hty : s.setup.type = TYPE_STANDARD)
    (hh : IsRegWrite (request c s r).1.hstate) (hd : (request c s r).2.isData = true) :
    r = .status ∧ (request c s r).2 = .data (dataPid s) [] ∧ s.hstate = (request c s r).1.hstate := by
  unfold request at hh hd ⊢
  rw [if_pos hty] at hh hd ⊢
  cases ho : owner c s.setup <;> simp only [ho] at hh hd ⊢
  · have := stdRequest_regwrite c s r hh
    rw [this.2] at hd ⊢
    cases r <;> simp_all [Resp.isData]
  · unfold owner at ho
    simp [hty] at ho
    split at ho <;> simp at ho
  · simp [Resp.isData] at hd

/-- An IN token for endpoint 0 that is answered with DATA while (afterwards) the standard handler is in a
register-write state: it is the status stage, and the answer is the zero-length packet. -/
theorem onToken_regwrite (c : DevConfig) (s : DevState) (hty : s.setup.type = TYPE_STANDARD)
    (hh : IsRegWrite (onToken c s PID_IN 0).1.hstate) (hd : (onToken c s PID_IN 0).2.isData = true) :
    (onToken c s PID_IN 0).1.stage = .statusIn ∧ (onToken c s PID_IN 0).2 = .data (dataPid s) [] ∧
    s.hstate = (onToken c s PID_IN 0).1.hstate := by
  have hty1 : (afterToken s PID_IN 0).setup.type = TYPE_STANDARD := hty
  unfold onToken at hh hd ⊢
  simp only [if_true] at hh hd ⊢
  cases hst : (afterToken s PID_IN 0).stage <;> simp only [hst] at hh hd ⊢
  · simp [Resp.isData] at hd
  · have := request_regwrite c _ _ hty1 hh hd
    exact absurd this.1 (by simp)
  · simp [PID_IN, PID_PING, Resp.isData] at hd
  · have := request_regwrite c _ _ hty1 hh hd
    refine ⟨?_, this.2.1, this.2.2⟩
    rw [(sameCtl_request c _ _).stage]; exact hst
  · simp [PID_IN, PID_PING, Resp.isData] at hd

theorem dispatch_setAddress (r : Nat) (h : dispatch r = .setAddress) : r = REQ_SET_ADDRESS := by
  unfold dispatch at h
  repeat' split at h
  all_goals first | assumption | cases h

theorem dispatch_setConfiguration (r : Nat) (h : dispatch r = .setConfiguration) : r = REQ_SET_CONFIGURATION := by
  unfold dispatch at h
  repeat' split at h
  all_goals first | assumption | cases h

theorem list_nil_or_snoc {α : Type} (l : List α) : l = [] ∨ ∃ l₀ a, l = l₀ ++ [a] := by
  induction l with
  | nil => exact Or.inl rfl
  | cons a t ih =>
    right
    rcases ih with h | ⟨l₀, b, h⟩
    · exact ⟨[], a, by simp [h]⟩
    · exact ⟨a :: l₀, b, by simp [h]⟩

end LunaVerif.Device
