import LunaVerif.Props.C36
import LunaVerif.Lemmas.C36CrcBounds
/-!
# C36 — `tx_emits_frame`: one statement over one history

Definitions: the functional `frame hdr payload` (symbol level for the data packet payload), the
stream words `sinkWords payload` a producer presents on `data_sink`, the stream contract `obeys`
(closed loop: the producer advances exactly when `data_sink.ready`), the packet trace `runPkt`
(the run cut after the first `done`).

The proof is a chain of `Emits` facts, one per FSM state, glued backwards from FINISH_DPP to
SEND_HPSTART; stalled cycles are dealt with once, in `emits_step`.
-/
namespace LunaVerif.RawPacketTransmitter

/-! ## specification side -/

/-- The header as presented at `generate`: three protocol words and the 11-bit link control word
(seq[0:3] reserved[3:6] hub_depth[6:9] delayed[9] deferred[10]). -/
structure Header where
  dw0 : Nat
  dw1 : Nat
  dw2 : Nat
  lcw : Nat
deriving Repr, DecidableEq

def Header.wf (h : Header) : Prop := h.dw0 < 2 ^ 32 ∧ h.dw1 < 2 ^ 32 ∧ h.dw2 < 2 ^ 32 ∧ h.lcw < 2 ^ 11
instance (h : Header) : Decidable h.wf := by unfold Header.wf; infer_instance
/-- "is a data header" as coded: `dw0[0:4] == 8` (type 0b01000, and the quirk 0b11000). -/
def Header.isData (h : Header) : Bool := h.dw0 % 16 == 8
def Header.delayed (h : Header) : Bool := h.lcw / 2 ^ 9 % 2 == 1
/-- a data packet payload follows and is taken from the stream -/
def Header.carries (h : Header) : Bool := h.isData && !h.delayed

/-- A symbol: byte and is-K flag. -/
abbrev Sym := Nat × Bool

def k2n (b : Bool) : Nat := if b then 1 else 0

/-- Four symbols, first on the wire in the low byte / ctrl bit 0. -/
def packWord (a b c d : Sym) : Nat × Nat :=
  (a.1 + 256 * b.1 + 65536 * c.1 + 16777216 * d.1, k2n a.2 + 2 * k2n b.2 + 4 * k2n c.2 + 8 * k2n d.2)

def pack : List Sym → List (Nat × Nat)
  | a :: b :: c :: d :: rest => packWord a b c d :: pack rest
  | _ => []

def endSyms : List Sym := [ksym 0xFD, ksym 0xFD, ksym 0xFD, ksym 0xF7]

/-- Data packet payload on the wire, symbol by symbol: the payload bytes, immediately the four
CRC-32 bytes (low byte first), END END END EPF, zero padding up to the word boundary. -/
def dppSyms (payload : List Nat) : List Sym :=
  payload.map dsym ++ ((wordBytes (crc32Of payload)).map dsym ++
    (endSyms ++ List.replicate ((4 - payload.length % 4) % 4) (dsym 0)))

/-- **The frame.**  HPSTART, DWORD 0..2, DWORD 3 (CRC-16 | link control word | CRC-5); for a data
header DPPSTART and then either the abort word (header marked delayed) or the payload symbols. -/
def frame (h : Header) (payload : List Nat) : List (Nat × Nat) :=
  headerFrame h.dw0 h.dw1 h.dw2 h.lcw ++
    (if h.isData then
       (DPPSTART, 0xF) :: (if h.delayed then [(DPPABORT, 0xF)] else pack (dppSyms payload))
     else [])

/-- A word of the `data_sink` stream. -/
structure SinkWord where
  valid : Nat
  data  : Nat
  last  : Bool
deriving Repr, DecidableEq

def le4 (a b c d : Nat) : Nat := a + 256 * b + 65536 * c + 16777216 * d

/-- The payload as the producer presents it: full words, the last one flagged `last` with the
low-lane mask of its 1..4 bytes.  The empty payload is the empty stream (no valid lane). -/
def sinkWords : List Nat → List SinkWord
  | [] => []
  | [a] => [⟨1, a, true⟩]
  | [a, b] => [⟨3, a + 256 * b, true⟩]
  | [a, b, c] => [⟨7, a + 256 * b + 65536 * c, true⟩]
  | [a, b, c, d] => [⟨15, le4 a b c d, true⟩]
  | a :: b :: c :: d :: e :: rest => ⟨15, le4 a b c d, false⟩ :: sinkWords (e :: rest)

/-! ## the environment -/

/-- What the stream has to present in a cycle, given the words not yet accepted.  `none`: the packet
takes nothing from the stream (no data header, or delayed) — no requirement at all.
`some (w :: _)`: `w` is presented (and held).  `some []`: nothing is left; the only cycle in which this
matters is the transfer of DWORD 3, where `data_sink.valid = 0` announces a zero-length payload. -/
def presents (ws : Option (List SinkWord)) (s : State) (i : In) : Bool :=
  match ws with
  | none => true
  | some (w :: _) => i.sinkValid == w.valid && i.sinkData == w.data && i.sinkLast == w.last
  | some [] => s.fsm != .dw3 || i.sinkValid % 16 == 0

def advance (ws : Option (List SinkWord)) (taken : Bool) : Option (List SinkWord) :=
  if taken then ws.map List.tail else ws

/-- **Stream contract** (closed loop, decidable): in every cycle up to `done` the producer presents
the head of the words not yet accepted, and it advances exactly on `data_sink.ready`. -/
def obeys : Option (List SinkWord) → State → List In → Bool
  | _, _, [] => true
  | ws, s, i :: is =>
    presents ws s i &&
      ((step s i).2.done || obeys (advance ws (step s i).2.sinkReady) (step s i).1 is)

/-- The run up to and including the first `done`. -/
def runPkt : State → List In → List (In × Out)
  | _, [] => []
  | s, i :: is => (i, (step s i).2) :: (if (step s i).2.done then [] else runPkt (step s i).1 is)

/-- Stream words accepted: cycles with `data_sink.ready`. -/
def accepted (tr : List (In × Out)) : List SinkWord :=
  tr.filterMap fun (i, o) => if o.sinkReady then some ⟨i.sinkValid, i.sinkData, i.sinkLast⟩ else none

def countReady (h : List In) : Nat := (h.filter (·.ready)).length

def pktDone (tr : List (In × Out)) : Bool := tr.any (·.2.done)

/-! ## generic facts about the packet trace -/

theorem runPkt_prefix (s : State) (h : List In) : runPkt s h = (run s h).take (runPkt s h).length := by
  induction h generalizing s with
  | nil => rfl
  | cons i is ih =>
    simp only [runPkt, run]
    split
    · simp
    · simp only [List.length_cons, List.take_succ_cons]; rw [← ih]

/-- `done` is raised at most once in the packet trace: only its last cycle can carry it. -/
theorem runPkt_done_only_last (s : State) (h : List In) :
    ∀ x ∈ (runPkt s h).dropLast, x.2.done = false := by
  induction h generalizing s with
  | nil => simp [runPkt]
  | cons i is ih =>
    simp only [runPkt]
    split
    · simp
    · rename_i hd
      intro x hx
      cases hr : runPkt (step s i).1 is with
      | nil => simp [hr] at hx
      | cons y ys =>
        rw [hr, List.dropLast_cons_cons] at hx
        rcases List.mem_cons.mp hx with h1 | h1
        · subst h1; simpa using hd
        · exact ih _ x (by rw [hr]; exact h1)

/-- `done` always comes with a transfer and returns the transmitter to IDLE. -/
theorem done_is_transfer_to_idle (s : State) (i : In) (hd : (step s i).2.done = true) :
    (step s i).2.valid = true ∧ i.ready = true ∧ (step s i).1.fsm = .idle := by
  obtain ⟨f, a, b, c, l, pw, pv, z, c16, c32⟩ := s
  cases f <;> simp_all [step]

/-! ## `Emits`: what a state still has to send -/

/-- From state `s`, with the stream still holding `ws`: for EVERY history obeying the contract (any
ready pattern, any length) the words transferred are the first `countReady h` words of `suf`; `done`
has been raised iff all of `suf` went out, and then exactly `acc` was accepted from the stream. -/
def Emits (s : State) (ws : Option (List SinkWord)) (suf : List (Nat × Nat)) (acc : List SinkWord) : Prop :=
  ∀ h, obeys ws s h = true →
    emitted (runPkt s h) = suf.take (countReady h) ∧
    pktDone (runPkt s h) = decide (suf.length ≤ countReady h) ∧
    (suf.length ≤ countReady h → accepted (runPkt s h) = acc)

/-- One transfer: if, in every ready cycle in which the stream presents what it must, the state
puts `x` on the bus and then either finishes (`done`, nothing left) or continues in a state that
emits `suf`, then the state emits `x :: suf` — under every stall pattern. -/
theorem emits_step {s : State} (hs : s.fsm ≠ .idle) {ws : Option (List SinkWord)} {x : Nat × Nat}
    {suf : List (Nat × Nat)} {acc : List SinkWord}
    (H : ∀ i, i.ready = true → presents ws s i = true →
      (step s i).2.valid = true ∧ ((step s i).2.data, (step s i).2.ctrl) = x ∧
      ∃ acc', acc = (if (step s i).2.sinkReady then [⟨i.sinkValid, i.sinkData, i.sinkLast⟩] else []) ++ acc' ∧
        if (step s i).2.done then suf = [] ∧ acc' = []
        else Emits (step s i).1 (advance ws (step s i).2.sinkReady) suf acc') :
    Emits s ws (x :: suf) acc := by
  intro h
  induction h with
  | nil => intro _; simp [runPkt, emitted, countReady, pktDone]
  | cons i is ih =>
    intro hob
    simp only [obeys, Bool.and_eq_true, Bool.or_eq_true] at hob
    obtain ⟨hp, hrest⟩ := hob
    cases hr : i.ready
    · -- stalled cycle: nothing moves
      obtain ⟨e1, e2, e3, e4⟩ := stall_invariant s hs i hr
      have hob' : obeys ws s is = true := by
        rcases hrest with h1 | h1
        · rw [e3] at h1; cases h1
        · simpa [e1, e4, advance] using h1
      obtain ⟨r1, r2, r3⟩ := ih hob'
      have hc : countReady (i :: is) = countReady is := by simp [countReady, hr]
      simp only [runPkt, e3, e1, Bool.false_eq_true, if_false, hc]
      refine ⟨?_, ?_, ?_⟩
      · simpa [emitted, hr] using r1
      · simpa [pktDone, e3] using r2
      · intro hl; simpa [accepted, e4] using r3 hl
    · obtain ⟨v1, v2, acc', ha, hnext⟩ := H i hr hp
      have hc : countReady (i :: is) = countReady is + 1 := by simp [countReady, hr]
      cases hd : (step s i).2.done
      · simp only [hd, Bool.false_eq_true, if_false] at hnext
        have hob' : obeys (advance ws (step s i).2.sinkReady) (step s i).1 is = true := by
          rcases hrest with h1 | h1
          · rw [hd] at h1; cases h1
          · exact h1
        obtain ⟨r1, r2, r3⟩ := hnext is hob'
        simp only [runPkt, hd, Bool.false_eq_true, if_false, hc]
        refine ⟨?_, ?_, ?_⟩
        · simp only [emitted, List.filterMap_cons, v1, hr, Bool.and_self, if_true, v2, List.take_succ_cons]
          simp only [emitted] at r1; rw [r1]
        · simp only [pktDone, List.any_cons, hd, Bool.false_or]
          simp only [pktDone] at r2; rw [r2]; simp
        · intro hl
          have hl' : suf.length ≤ countReady is := by simpa using hl
          have := r3 hl'
          simp only [accepted, List.filterMap_cons] at this ⊢
          rw [ha]
          cases (step s i).2.sinkReady <;> simp [this]
      · simp only [hd, if_true] at hnext
        obtain ⟨hs1, hs2⟩ := hnext
        subst hs1 hs2
        simp only [runPkt, hd, if_true, hc]
        refine ⟨?_, ?_, ?_⟩
        · simp [emitted, v1, hr, v2]
        · simp [pktDone, hd]
        · intro _
          rw [ha]
          cases hsr : (step s i).2.sinkReady <;> simp [accepted, hsr]

/-! ## the closing states -/

theorem emits_finish (s : State) (hs : s.fsm = .finish) (ws : Option (List SinkWord)) :
    Emits s ws [finishWord s.pipeValid] [] := by
  apply emits_step (by simp [hs])
  intro i hr _
  obtain ⟨f, a, b, c, l, pw, pv, z, c16, c32⟩ := s
  simp only at hs; subst hs
  simp [step, hr]

theorem emits_crc (s : State) (hs : s.fsm = .crc) (ws : Option (List SinkWord)) :
    Emits s ws [crcWord s.pipeValid (crc32Of s.crc32In), finishWord s.pipeValid] [] := by
  apply emits_step (by simp [hs])
  intro i hr _
  have hn := emits_finish { s with fsm := .finish } rfl ws
  obtain ⟨f, a, b, c, l, pw, pv, z, c16, c32⟩ := s
  simp only at hs; subst hs
  simpa [step, hr, advance] using hn

/-- The three closing words. -/
def closing (pv pw crc : Nat) : List (Nat × Nat) :=
  [(lastWordData pv pw crc, 0), crcWord pv crc, finishWord pv]

theorem emits_lastWord (s : State) (hs : s.fsm = .lastWord) (ws : Option (List SinkWord)) :
    Emits s ws (closing s.pipeValid s.pipeWord (crc32Of s.crc32In)) [] := by
  apply emits_step (by simp [hs])
  intro i hr _
  have hn := emits_crc { s with fsm := .crc } rfl ws
  obtain ⟨f, a, b, c, l, pw, pv, z, c16, c32⟩ := s
  simp only at hs; subst hs
  simpa [step, hr, advance] using hn

theorem emits_abort (s : State) (hs : s.fsm = .abort) (ws : Option (List SinkWord)) :
    Emits s ws [(DPPABORT, 0xF)] [] := by
  apply emits_step (by simp [hs])
  intro i hr _
  obtain ⟨f, a, b, c, l, pw, pv, z, c16, c32⟩ := s
  simp only at hs; subst hs
  simp [step, hr]

/-! ## the payload -/

/-- The words following the one in the pipeline register, when the CRC unit has absorbed `acc` and the
stream still holds the bytes `rest` (word level; `dppTail_eq_pack` gives the symbol content). -/
def dppTail (acc : List Nat) : List Nat → List (Nat × Nat)
  | [] => []
  | [a] => closing 1 a (crc32Of (acc ++ [a]))
  | [a, b] => closing 3 (a + 256 * b) (crc32Of (acc ++ [a, b]))
  | [a, b, c] => closing 7 (a + 256 * b + 65536 * c) (crc32Of (acc ++ [a, b, c]))
  | [a, b, c, d] => closing 15 (le4 a b c d) (crc32Of (acc ++ [a, b, c, d]))
  | a :: b :: c :: d :: e :: rest => (le4 a b c d, 0) :: dppTail (acc ++ [a, b, c, d]) (e :: rest)

/-- The transmitter is about to accept a stream word: SEND_PAYLOAD, or START_DPP of a packet that is
neither delayed nor zero-length. -/
def accepting (s : State) : Prop :=
  s.fsm = .payload ∨ (s.fsm = .startDpp ∧ s.lcw / 2 ^ 9 % 2 = 0 ∧ s.isZlp = false)

/-- what an accepting state has on the bus -/
def busWord (s : State) : Nat × Nat := if s.fsm = .payload then (s.pipeWord, 0) else (DPPSTART, 0xF)

theorem accepting_not_idle {s : State} (h : accepting s) : s.fsm ≠ .idle := by
  rcases h with h | ⟨h, _⟩ <;> simp [h]

/-- One accepted stream word (PHY ready): the bus word goes out, the word is taken, captured in the
pipeline register and absorbed by the CRC-32 unit. -/
theorem accepting_step (s : State) (ha : accepting s) (i : In) (hr : i.ready = true)
    (v d : Nat) (l : Bool) (hv : i.sinkValid = v) (hd : i.sinkData = d) (hl : i.sinkLast = l)
    (hv16 : v < 16) (hd32 : d < 2 ^ 32) :
    (step s i).2 = ⟨true, (busWord s).1, (busWord s).2, false, true⟩ ∧
    (step s i).1 = { s with fsm := if l then .lastWord else .payload, pipeWord := d, pipeValid := v,
                            crc32In := s.crc32In ++ (wordBytes d).take (lanes v) } := by
  have mv : v % 16 = v := Nat.mod_eq_of_lt hv16
  have md : d % 2 ^ 32 = d := Nat.mod_eq_of_lt hd32
  obtain ⟨f, a, b, c, lc, pw, pv, z, c16, c32⟩ := s
  rcases ha with h | ⟨h, h1, h2⟩
  · simp only at h; subst h
    simp [step, hr, busWord, absorb, hv, hd, hl, mv, md]
  · simp only at h h1 h2; subst h h2
    have hnd : ¬ (lc / 2 ^ 9 % 2 = 1) := by omega
    simp [step, hr, busWord, absorb, hv, hd, hl, mv, md, hnd]

theorem wordBytes_le4 (a b c d : Nat) (ha : a < 256) (hb : b < 256) (hc : c < 256) (hd : d < 256) :
    wordBytes (le4 a b c d) = [a, b, c, d] := by
  simp only [wordBytes, le4, List.cons.injEq, and_true]
  omega

/-- **Payload, every length.**  An accepting state whose CRC unit has absorbed `acc`, the stream
holding the bytes `rest ≠ []`: the bus word, then `dppTail acc rest`; the stream is taken word by
word, each exactly once. -/
theorem emits_payload (rest : List Nat) (hne : rest ≠ []) (hb : ∀ x ∈ rest, x < 256) (acc : List Nat)
    (s : State) (ha : accepting s) (hacc : s.crc32In = acc) :
    Emits s (some (sinkWords rest)) (busWord s :: dppTail acc rest) (sinkWords rest) := by
  fun_induction sinkWords rest generalizing s acc with
  | case1 => exact absurd rfl hne
  | case2 a =>
    have h1 : a < 256 := hb a (by simp)
    apply emits_step (accepting_not_idle ha)
    intro i hr hp
    simp only [presents, Bool.and_eq_true, beq_iff_eq] at hp
    obtain ⟨⟨p1, p2⟩, p3⟩ := hp
    obtain ⟨o, n⟩ := accepting_step s ha i hr 1 a true p1 p2 p3 (by omega) (by omega)
    have hw : (wordBytes a).take (lanes 1) = [a] := by
      simp only [wordBytes, lanes]; simp; omega
    rw [hw] at n
    have hn := emits_lastWord (step s i).1 (by rw [n]; rfl) (some [])
    rw [o, n]; rw [n] at hn
    refine ⟨rfl, rfl, [], ?_, ?_⟩
    · simp [p1, p2, p3]
    · simpa [advance, dppTail, hacc] using hn
  | case3 a b =>
    have h1 : a < 256 := hb a (by simp)
    have h2 : b < 256 := hb b (by simp)
    apply emits_step (accepting_not_idle ha)
    intro i hr hp
    simp only [presents, Bool.and_eq_true, beq_iff_eq] at hp
    obtain ⟨⟨p1, p2⟩, p3⟩ := hp
    obtain ⟨o, n⟩ := accepting_step s ha i hr 3 (a + 256 * b) true p1 p2 p3 (by omega) (by omega)
    have hw : (wordBytes (a + 256 * b)).take (lanes 3) = [a, b] := by
      simp only [wordBytes, lanes]; simp; omega
    rw [hw] at n
    have hn := emits_lastWord (step s i).1 (by rw [n]; rfl) (some [])
    rw [o, n]; rw [n] at hn
    refine ⟨rfl, rfl, [], ?_, ?_⟩
    · simp [p1, p2, p3]
    · simpa [advance, dppTail, hacc] using hn
  | case4 a b c =>
    have h1 : a < 256 := hb a (by simp)
    have h2 : b < 256 := hb b (by simp)
    have h3 : c < 256 := hb c (by simp)
    apply emits_step (accepting_not_idle ha)
    intro i hr hp
    simp only [presents, Bool.and_eq_true, beq_iff_eq] at hp
    obtain ⟨⟨p1, p2⟩, p3⟩ := hp
    obtain ⟨o, n⟩ := accepting_step s ha i hr 7 (a + 256 * b + 65536 * c) true p1 p2 p3 (by omega) (by omega)
    have hw : (wordBytes (a + 256 * b + 65536 * c)).take (lanes 7) = [a, b, c] := by
      simp only [wordBytes, lanes]; simp; omega
    rw [hw] at n
    have hn := emits_lastWord (step s i).1 (by rw [n]; rfl) (some [])
    rw [o, n]; rw [n] at hn
    refine ⟨rfl, rfl, [], ?_, ?_⟩
    · simp [p1, p2, p3]
    · simpa [advance, dppTail, hacc] using hn
  | case5 a b c d =>
    have h1 : a < 256 := hb a (by simp)
    have h2 : b < 256 := hb b (by simp)
    have h3 : c < 256 := hb c (by simp)
    have h4 : d < 256 := hb d (by simp)
    apply emits_step (accepting_not_idle ha)
    intro i hr hp
    simp only [presents, Bool.and_eq_true, beq_iff_eq] at hp
    obtain ⟨⟨p1, p2⟩, p3⟩ := hp
    obtain ⟨o, n⟩ := accepting_step s ha i hr 15 (le4 a b c d) true p1 p2 p3 (by omega)
      (by simp only [le4]; omega)
    have hw : (wordBytes (le4 a b c d)).take (lanes 15) = [a, b, c, d] := by
      rw [wordBytes_le4 a b c d h1 h2 h3 h4]; simp [lanes]
    rw [hw] at n
    have hn := emits_lastWord (step s i).1 (by rw [n]; rfl) (some [])
    rw [o, n]; rw [n] at hn
    refine ⟨rfl, rfl, [], ?_, ?_⟩
    · simp [p1, p2, p3]
    · simpa [advance, dppTail, hacc] using hn
  | case6 a b c d e rest ih =>
    have h1 : a < 256 := hb a (by simp)
    have h2 : b < 256 := hb b (by simp)
    have h3 : c < 256 := hb c (by simp)
    have h4 : d < 256 := hb d (by simp)
    apply emits_step (accepting_not_idle ha)
    intro i hr hp
    simp only [presents, Bool.and_eq_true, beq_iff_eq] at hp
    obtain ⟨⟨p1, p2⟩, p3⟩ := hp
    obtain ⟨o, n⟩ := accepting_step s ha i hr 15 (le4 a b c d) false p1 p2 p3 (by omega)
      (by simp only [le4]; omega)
    have hw : (wordBytes (le4 a b c d)).take (lanes 15) = [a, b, c, d] := by
      rw [wordBytes_le4 a b c d h1 h2 h3 h4]; simp [lanes]
    rw [hw] at n
    have hn := ih (by simp) (fun x hx => hb x (List.mem_cons_of_mem _ (List.mem_cons_of_mem _ (List.mem_cons_of_mem _ (List.mem_cons_of_mem _ hx))))) (acc ++ [a, b, c, d]) (step s i).1
      (by rw [n]; exact Or.inl rfl) (by rw [n]; simp [hacc])
    rw [o, n]; rw [n] at hn
    refine ⟨rfl, rfl, sinkWords (e :: rest), ?_, ?_⟩
    · simp [p1, p2, p3]
    · simpa [advance, dppTail, busWord] using hn

/-! ## word level = symbol level -/

theorem closing1_lhs (a crc : Nat) : closing 1 a crc =
    [(a % 2 ^ 8 + 2 ^ 8 * (crc % 2 ^ 24), 0),
     (crc / 2 ^ 24 + 2 ^ 8 * (END + 2 ^ 8 * END + 2 ^ 16 * END), 0b1110),
     (DPPEND / 2 ^ 24, 0b0001)] := rfl

theorem closing1_rhs (a crc : Nat) :
    pack ([a].map dsym ++ ((wordBytes crc).map dsym ++ (endSyms ++ List.replicate 3 (dsym 0)))) =
    [(a + 256 * (crc % 256) + 65536 * (crc / 256 % 256) + 16777216 * (crc / 65536 % 256), 0 + 2 * 0 + 4 * 0 + 8 * 0),
     (crc / 16777216 % 256 + 256 * 0xFD + 65536 * 0xFD + 16777216 * 0xFD, 0 + 2 * 1 + 4 * 1 + 8 * 1),
     (0xF7 + 256 * 0 + 65536 * 0 + 16777216 * 0, 1 + 2 * 0 + 4 * 0 + 8 * 0)] := rfl

theorem closing1_eq_pack (a crc : Nat) (ha : a < 256) (hc : crc < 2 ^ 32) :
    closing 1 a crc = pack ([a].map dsym ++ ((wordBytes crc).map dsym ++
      (endSyms ++ List.replicate 3 (dsym 0)))) := by
  rw [closing1_lhs, closing1_rhs]
  have h1 : a % 2 ^ 8 + 2 ^ 8 * (crc % 2 ^ 24) = a + 256 * (crc % 256) + 65536 * (crc / 256 % 256) + 16777216 * (crc / 65536 % 256) := by
    (try simp only [le4]); omega
  have h2 : crc / 2 ^ 24 + 2 ^ 8 * (END + 2 ^ 8 * END + 2 ^ 16 * END) = (crc / 16777216 % 256) + 256 * 0xFD + 65536 * 0xFD + 16777216 * 0xFD := by
    (try simp only [END]); omega
  have h3 : DPPEND / 2 ^ 24 = 0xF7 + 256 * 0 + 65536 * 0 + 16777216 * 0 := by decide
  rw [h1, h2, h3]

theorem closing3_lhs (a b crc : Nat) : closing 3 (a + 256 * b) crc =
    [((a + 256 * b) % 2 ^ 16 + 2 ^ 16 * (crc % 2 ^ 16), 0),
     (crc / 2 ^ 16 + 2 ^ 16 * (END + 2 ^ 8 * END), 0b1100),
     (DPPEND / 2 ^ 16, 0b0011)] := rfl

theorem closing3_rhs (a b crc : Nat) :
    pack ([a, b].map dsym ++ ((wordBytes crc).map dsym ++ (endSyms ++ List.replicate 2 (dsym 0)))) =
    [(a + 256 * b + 65536 * (crc % 256) + 16777216 * (crc / 256 % 256), 0 + 2 * 0 + 4 * 0 + 8 * 0),
     (crc / 65536 % 256 + 256 * (crc / 16777216 % 256) + 65536 * 0xFD + 16777216 * 0xFD, 0 + 2 * 0 + 4 * 1 + 8 * 1),
     (0xFD + 256 * 0xF7 + 65536 * 0 + 16777216 * 0, 1 + 2 * 1 + 4 * 0 + 8 * 0)] := rfl

theorem closing3_eq_pack (a b crc : Nat) (ha : a < 256) (hb : b < 256) (hc : crc < 2 ^ 32) :
    closing 3 (a + 256 * b) crc = pack ([a, b].map dsym ++ ((wordBytes crc).map dsym ++
      (endSyms ++ List.replicate 2 (dsym 0)))) := by
  rw [closing3_lhs, closing3_rhs]
  have h1 : (a + 256 * b) % 2 ^ 16 + 2 ^ 16 * (crc % 2 ^ 16) = a + 256 * b + 65536 * (crc % 256) + 16777216 * (crc / 256 % 256) := by
    (try simp only [le4]); omega
  have h2 : crc / 2 ^ 16 + 2 ^ 16 * (END + 2 ^ 8 * END) = (crc / 65536 % 256) + 256 * (crc / 16777216 % 256) + 65536 * 0xFD + 16777216 * 0xFD := by
    (try simp only [END]); omega
  have h3 : DPPEND / 2 ^ 16 = 0xFD + 256 * 0xF7 + 65536 * 0 + 16777216 * 0 := by decide
  rw [h1, h2, h3]

theorem closing7_lhs (a b c crc : Nat) : closing 7 (a + 256 * b + 65536 * c) crc =
    [((a + 256 * b + 65536 * c) % 2 ^ 24 + 2 ^ 24 * (crc % 2 ^ 8), 0),
     (crc / 2 ^ 8 + 2 ^ 24 * END, 0b1000),
     (DPPEND / 2 ^ 8, 0b0111)] := rfl

theorem closing7_rhs (a b c crc : Nat) :
    pack ([a, b, c].map dsym ++ ((wordBytes crc).map dsym ++ (endSyms ++ List.replicate 1 (dsym 0)))) =
    [(a + 256 * b + 65536 * c + 16777216 * (crc % 256), 0 + 2 * 0 + 4 * 0 + 8 * 0),
     (crc / 256 % 256 + 256 * (crc / 65536 % 256) + 65536 * (crc / 16777216 % 256) + 16777216 * 0xFD, 0 + 2 * 0 + 4 * 0 + 8 * 1),
     (0xFD + 256 * 0xFD + 65536 * 0xF7 + 16777216 * 0, 1 + 2 * 1 + 4 * 1 + 8 * 0)] := rfl

theorem closing7_eq_pack (a b c crc : Nat) (ha : a < 256) (hb : b < 256) (hc : c < 256) (hc : crc < 2 ^ 32) :
    closing 7 (a + 256 * b + 65536 * c) crc = pack ([a, b, c].map dsym ++ ((wordBytes crc).map dsym ++
      (endSyms ++ List.replicate 1 (dsym 0)))) := by
  rw [closing7_lhs, closing7_rhs]
  have h1 : (a + 256 * b + 65536 * c) % 2 ^ 24 + 2 ^ 24 * (crc % 2 ^ 8) = a + 256 * b + 65536 * c + 16777216 * (crc % 256) := by
    (try simp only [le4]); omega
  have h2 : crc / 2 ^ 8 + 2 ^ 24 * END = (crc / 256 % 256) + 256 * (crc / 65536 % 256) + 65536 * (crc / 16777216 % 256) + 16777216 * 0xFD := by
    (try simp only [END]); omega
  have h3 : DPPEND / 2 ^ 8 = 0xFD + 256 * 0xFD + 65536 * 0xF7 + 16777216 * 0 := by decide
  rw [h1, h2, h3]

theorem closing15_lhs (a b c d crc : Nat) : closing 15 (le4 a b c d) crc =
    [((le4 a b c d), 0),
     (crc, 0),
     (DPPEND, 0b1111)] := rfl

theorem closing15_rhs (a b c d crc : Nat) :
    pack ([a, b, c, d].map dsym ++ ((wordBytes crc).map dsym ++ (endSyms ++ List.replicate 0 (dsym 0)))) =
    [(a + 256 * b + 65536 * c + 16777216 * d, 0 + 2 * 0 + 4 * 0 + 8 * 0),
     (crc % 256 + 256 * (crc / 256 % 256) + 65536 * (crc / 65536 % 256) + 16777216 * (crc / 16777216 % 256), 0 + 2 * 0 + 4 * 0 + 8 * 0),
     (0xFD + 256 * 0xFD + 65536 * 0xFD + 16777216 * 0xF7, 1 + 2 * 1 + 4 * 1 + 8 * 1)] := rfl

theorem closing15_eq_pack (a b c d crc : Nat) (_ha : a < 256) (_hb : b < 256) (_hc : c < 256) (_hd : d < 256)
    (hc : crc < 2 ^ 32) :
    closing 15 (le4 a b c d) crc = pack ([a, b, c, d].map dsym ++ ((wordBytes crc).map dsym ++
      (endSyms ++ List.replicate 0 (dsym 0)))) := by
  rw [closing15_lhs, closing15_rhs]
  have h2 : (crc % 256) + 256 * (crc / 256 % 256) + 65536 * (crc / 65536 % 256) + 16777216 * (crc / 16777216 % 256)
      = crc := by omega
  have h3 : 0xFD + 256 * 0xFD + 65536 * 0xFD + 16777216 * 0xF7 = DPPEND := by decide
  rw [h2, h3]
  rfl

theorem crc32Of_lt (bytes : List Nat) : crc32Of bytes < 2 ^ 32 := Crc.usb3Crc32_lt bytes

/-- The word-level tail is the symbol-level payload of the specification: the remaining payload
bytes, immediately the CRC-32 (of everything absorbed and remaining), END END END EPF, zero padding. -/
theorem dppTail_eq_pack (acc rest : List Nat) (hne : rest ≠ []) (hb : ∀ x ∈ rest, x < 256) :
    dppTail acc rest = pack (rest.map dsym ++ ((wordBytes (crc32Of (acc ++ rest))).map dsym ++
      (endSyms ++ List.replicate ((4 - rest.length % 4) % 4) (dsym 0)))) := by
  fun_induction dppTail acc rest with
  | case1 => exact absurd rfl hne
  | case2 acc a => exact closing1_eq_pack a _ (hb a (by simp)) (crc32Of_lt _)
  | case3 acc a b => exact closing3_eq_pack a b _ (hb a (by simp)) (hb b (by simp)) (crc32Of_lt _)
  | case4 acc a b c =>
    exact closing7_eq_pack a b c _ (hb a (by simp)) (hb b (by simp)) (hb c (by simp)) (crc32Of_lt _)
  | case5 acc a b c d =>
    have h0 : (4 - [a, b, c, d].length % 4) % 4 = 0 := by simp
    rw [h0]
    exact closing15_eq_pack a b c d (crc32Of (acc ++ [a, b, c, d])) (hb a (by simp)) (hb b (by simp))
      (hb c (by simp)) (hb d (by simp)) (crc32Of_lt _)
  | case6 acc a b c d e rest ih =>
    have ih' := ih (by simp)
      (fun x hx => hb x (List.mem_cons_of_mem _ (List.mem_cons_of_mem _ (List.mem_cons_of_mem _ (List.mem_cons_of_mem _ hx)))))
    rw [ih']
    have hl : (a :: b :: c :: d :: e :: rest).length % 4 = (e :: rest).length % 4 := by
      simp only [List.length_cons]; omega
    have happ : acc ++ a :: b :: c :: d :: e :: rest = acc ++ [a, b, c, d] ++ e :: rest := by simp
    rw [hl, happ]
    simp [pack, packWord, dsym, k2n, le4]

/-! ## START_DPP -/

/-- What follows the header of a data packet. -/
def dppFrame (h : Header) (payload : List Nat) : List (Nat × Nat) :=
  if h.isData then
    (DPPSTART, 0xF) :: (if h.delayed then [(DPPABORT, 0xF)] else pack (dppSyms payload))
  else []

/-- The stream the packet consumes: the payload words for a data header that is not delayed; no
requirement on the stream otherwise. -/
def streamOf (h : Header) (payload : List Nat) : Option (List SinkWord) :=
  if h.carries then some (sinkWords payload) else none

def acceptedOf (h : Header) (payload : List Nat) : List SinkWord :=
  if h.carries then sinkWords payload else []

theorem frame_eq (h : Header) (payload : List Nat) :
    frame h payload = headerFrame h.dw0 h.dw1 h.dw2 h.lcw ++ dppFrame h payload := rfl

theorem pack_dppSyms_nil : pack (dppSyms []) = [(crc32Of [], 0), (DPPEND, 0xF)] := by
  have h : pack (dppSyms []) = pack ([].map dsym ++ ((wordBytes (crc32Of [])).map dsym ++
      (endSyms ++ List.replicate 0 (dsym 0)))) := rfl
  have e : ∀ crc : Nat, pack ((wordBytes crc).map dsym ++ (endSyms ++ List.replicate 0 (dsym 0))) =
      [(crc % 256 + 256 * (crc / 256 % 256) + 65536 * (crc / 65536 % 256) + 16777216 * (crc / 16777216 % 256),
        0 + 2 * 0 + 4 * 0 + 8 * 0),
       (0xFD + 256 * 0xFD + 65536 * 0xFD + 16777216 * 0xF7, 1 + 2 * 1 + 4 * 1 + 8 * 1)] := fun _ => rfl
  have h2 : ∀ crc : Nat, crc < 2 ^ 32 →
      crc % 256 + 256 * (crc / 256 % 256) + 65536 * (crc / 65536 % 256) + 16777216 * (crc / 16777216 % 256) = crc := by
    intro crc hc; omega
  rw [h]
  simp only [List.map_nil, List.nil_append]
  rw [e, h2 _ (crc32Of_lt [])]
  rfl

theorem emits_startDpp_delayed (s : State) (hs : s.fsm = .startDpp) (hd : s.lcw / 2 ^ 9 % 2 = 1) :
    Emits s none [(DPPSTART, 0xF), (DPPABORT, 0xF)] [] := by
  apply emits_step (by simp [hs])
  intro i hr _
  have hn := emits_abort { s with fsm := .abort } rfl none
  obtain ⟨f, a, b, c, l, pw, pv, z, c16, c32⟩ := s
  simp only at hs hd; subst hs
  simpa [step, hr, hd, advance] using hn

theorem emits_startDpp_zlp (s : State) (hs : s.fsm = .startDpp) (hd : s.lcw / 2 ^ 9 % 2 = 0)
    (hz : s.isZlp = true) (hf : s.crc32In = []) :
    Emits s (some []) ((DPPSTART, 0xF) :: pack (dppSyms [])) [] := by
  apply emits_step (by simp [hs])
  intro i hr _
  have hn := emits_crc { s with fsm := .crc, pipeValid := 15 } rfl (some [])
  obtain ⟨f, a, b, c, l, pw, pv, z, c16, c32⟩ := s
  simp only at hs hd hz hf; subst hs hz hf
  have hnd : ¬ (l / 2 ^ 9 % 2 = 1) := by omega
  rw [pack_dppSyms_nil]
  simpa [step, hr, hnd, advance, crcWord, finishWord] using hn

theorem emits_startDpp_payload (s : State) (hs : s.fsm = .startDpp) (hd : s.lcw / 2 ^ 9 % 2 = 0)
    (hz : s.isZlp = false) (hf : s.crc32In = []) (payload : List Nat) (hne : payload ≠ [])
    (hb : ∀ x ∈ payload, x < 256) :
    Emits s (some (sinkWords payload)) ((DPPSTART, 0xF) :: pack (dppSyms payload)) (sinkWords payload) := by
  have h := emits_payload payload hne hb [] s (Or.inr ⟨hs, hd, hz⟩) hf
  have hbw : busWord s = (DPPSTART, 0xF) := by simp [busWord, hs]
  rw [hbw, dppTail_eq_pack [] payload hne hb] at h
  exact h

/-- a non-empty payload's first stream word has a valid lane -/
theorem sinkWords_head (payload : List Nat) (hne : payload ≠ []) :
    ∃ w ws, sinkWords payload = w :: ws ∧ w.valid % 16 ≠ 0 := by
  match payload, hne with
  | [a], _ => exact ⟨_, _, rfl, by simp⟩
  | [a, b], _ => exact ⟨_, _, rfl, by simp⟩
  | [a, b, c], _ => exact ⟨_, _, rfl, by simp⟩
  | [a, b, c, d], _ => exact ⟨_, _, rfl, by simp⟩
  | a :: b :: c :: d :: e :: r, _ => exact ⟨_, _, rfl, by simp⟩

/-! ## the header states -/

theorem emits_dw3 (hdr : Header) (payload : List Nat) (hb : ∀ x ∈ payload, x < 256)
    (s : State) (hs : s.fsm = .dw3) (h0 : s.dw0 = hdr.dw0) (hl : s.lcw = hdr.lcw)
    (hc : s.crc16In = [hdr.dw0, hdr.dw1, hdr.dw2]) (hf : s.crc32In = []) :
    Emits s (streamOf hdr payload) ((specDw3 hdr.dw0 hdr.dw1 hdr.dw2 hdr.lcw, 0) :: dppFrame hdr payload)
      (acceptedOf hdr payload) := by
  apply emits_step (by simp [hs])
  intro i hr hp
  obtain ⟨f, a, b, c, l, pw, pv, z, c16, c32⟩ := s
  simp only at hs h0 hl hc hf; subst hs h0 hl hc hf
  by_cases hdat : hdr.dw0 % 16 = 8
  · by_cases hdel : hdr.lcw / 2 ^ 9 % 2 = 1
    · -- delayed: abort
      have hn := emits_startDpp_delayed ⟨.startDpp, hdr.dw0, b, c, hdr.lcw, pw, pv, i.sinkValid % 16 == 0,
        [hdr.dw0, hdr.dw1, hdr.dw2], []⟩ rfl hdel
      simp [step, hr, hdat, dw3Word, specDw3, dppFrame, streamOf, acceptedOf, Header.carries,
        Header.isData, Header.delayed, hdel, advance]
      exact hn
    · have hdel0 : hdr.lcw / 2 ^ 9 % 2 = 0 := by omega
      by_cases hemp : payload = []
      · subst hemp
        have hv : i.sinkValid % 16 = 0 := by
          simpa [presents, streamOf, Header.carries, Header.isData, Header.delayed, hdat, hdel, sinkWords] using hp
        have hn := emits_startDpp_zlp ⟨.startDpp, hdr.dw0, b, c, hdr.lcw, pw, pv, true,
          [hdr.dw0, hdr.dw1, hdr.dw2], []⟩ rfl hdel0 rfl rfl
        simp [step, hr, hdat, dw3Word, specDw3, dppFrame, streamOf, acceptedOf, Header.carries,
          Header.isData, Header.delayed, hdel, advance, hv, sinkWords]
        exact hn
      · obtain ⟨w, ws, hws, hwv⟩ := sinkWords_head payload hemp
        have hv : i.sinkValid = w.valid := by
          have : presents (some (w :: ws)) ⟨.dw3, hdr.dw0, b, c, hdr.lcw, pw, pv, z, [hdr.dw0, hdr.dw1, hdr.dw2], []⟩ i
              = true := by
            simpa [streamOf, Header.carries, Header.isData, Header.delayed, hdat, hdel, hws] using hp
          simp only [presents, Bool.and_eq_true, beq_iff_eq] at this
          exact this.1.1
        have hn := emits_startDpp_payload ⟨.startDpp, hdr.dw0, b, c, hdr.lcw, pw, pv, false,
          [hdr.dw0, hdr.dw1, hdr.dw2], []⟩ rfl hdel0 rfl rfl payload hemp hb
        have hvz : (i.sinkValid % 16 == 0) = false := by rw [hv]; simp [hwv]
        simp [step, hr, hdat, dw3Word, specDw3, dppFrame, streamOf, acceptedOf, Header.carries,
          Header.isData, Header.delayed, hdel, advance, hvz]
        exact hn
  · -- not a data header: DWORD 3 ends the packet
    simp [step, hr, hdat, dw3Word, specDw3, dppFrame, acceptedOf, Header.carries, Header.isData]

/-- the header latch holds `hdr` -/
def latched (hdr : Header) (s : State) : Prop :=
  s.dw0 = hdr.dw0 ∧ s.dw1 = hdr.dw1 ∧ s.dw2 = hdr.dw2 ∧ s.lcw = hdr.lcw

theorem emits_dw2 (hdr : Header) (payload : List Nat) (hb : ∀ x ∈ payload, x < 256)
    (s : State) (hs : s.fsm = .dw2) (hl : latched hdr s)
    (hc : s.crc16In = [hdr.dw0, hdr.dw1]) (hf : s.crc32In = []) :
    Emits s (streamOf hdr payload)
      ((hdr.dw2, 0) :: (specDw3 hdr.dw0 hdr.dw1 hdr.dw2 hdr.lcw, 0) :: dppFrame hdr payload)
      (acceptedOf hdr payload) := by
  apply emits_step (by simp [hs])
  intro i hr _
  obtain ⟨l0, l1, l2, l3⟩ := hl
  have hn := emits_dw3 hdr payload hb { s with fsm := .dw3, crc16In := s.crc16In ++ [s.dw2] } rfl l0 l3
    (by simp [hc, l2]) hf
  obtain ⟨f, a, b, c, l, pw, pv, z, c16, c32⟩ := s
  simp only at hs l0 l1 l2 l3; subst hs l0 l1 l2 l3
  have hsr : ∀ ws : Option (List SinkWord), advance ws false = ws := fun _ => rfl
  simpa [step, hr, hsr] using hn

theorem emits_dw1 (hdr : Header) (payload : List Nat) (hb : ∀ x ∈ payload, x < 256)
    (s : State) (hs : s.fsm = .dw1) (hl : latched hdr s)
    (hc : s.crc16In = [hdr.dw0]) (hf : s.crc32In = []) :
    Emits s (streamOf hdr payload)
      ((hdr.dw1, 0) :: (hdr.dw2, 0) :: (specDw3 hdr.dw0 hdr.dw1 hdr.dw2 hdr.lcw, 0) :: dppFrame hdr payload)
      (acceptedOf hdr payload) := by
  apply emits_step (by simp [hs])
  intro i hr _
  have hn := emits_dw2 hdr payload hb { s with fsm := .dw2, crc16In := s.crc16In ++ [s.dw1] } rfl hl
    (by simp [hc, hl.2.1]) hf
  obtain ⟨l0, l1, l2, l3⟩ := hl
  obtain ⟨f, a, b, c, l, pw, pv, z, c16, c32⟩ := s
  simp only at hs l0 l1 l2 l3; subst hs l0 l1 l2 l3
  have hsr : ∀ ws : Option (List SinkWord), advance ws false = ws := fun _ => rfl
  simpa [step, hr, hsr] using hn

theorem emits_dw0 (hdr : Header) (payload : List Nat) (hb : ∀ x ∈ payload, x < 256)
    (s : State) (hs : s.fsm = .dw0) (hl : latched hdr s)
    (hc : s.crc16In = []) (hf : s.crc32In = []) :
    Emits s (streamOf hdr payload)
      ((hdr.dw0, 0) :: (hdr.dw1, 0) :: (hdr.dw2, 0) :: (specDw3 hdr.dw0 hdr.dw1 hdr.dw2 hdr.lcw, 0) ::
        dppFrame hdr payload)
      (acceptedOf hdr payload) := by
  apply emits_step (by simp [hs])
  intro i hr _
  have hn := emits_dw1 hdr payload hb { s with fsm := .dw1, crc16In := s.crc16In ++ [s.dw0] } rfl hl
    (by simp [hc, hl.1]) hf
  obtain ⟨l0, l1, l2, l3⟩ := hl
  obtain ⟨f, a, b, c, l, pw, pv, z, c16, c32⟩ := s
  simp only at hs l0 l1 l2 l3; subst hs l0 l1 l2 l3
  have hsr : ∀ ws : Option (List SinkWord), advance ws false = ws := fun _ => rfl
  simpa [step, hr, hsr] using hn

theorem emits_hpstart (hdr : Header) (payload : List Nat) (hb : ∀ x ∈ payload, x < 256)
    (s : State) (hs : s.fsm = .hpstart) (hl : latched hdr s)
    (hc : s.crc16In = []) (hf : s.crc32In = []) :
    Emits s (streamOf hdr payload) (frame hdr payload) (acceptedOf hdr payload) := by
  rw [frame_eq]
  simp only [headerFrame, List.cons_append, List.nil_append]
  apply emits_step (by simp [hs])
  intro i hr _
  have hn := emits_dw0 hdr payload hb { s with fsm := .dw0 } rfl hl hc hf
  obtain ⟨f, a, b, c, l, pw, pv, z, c16, c32⟩ := s
  simp only at hs; subst hs
  have hsr : ∀ ws : Option (List SinkWord), advance ws false = ws := fun _ => rfl
  simpa [step, hr, hsr] using hn

/-! ## the theorem -/

/-- **C36 `tx_emits_frame`.**  For every header (`dw0`, `dw1`, `dw2`, link control word) presented with
`generate` in IDLE, every payload (any number of bytes — 0..1024 and beyond, every residue mod 4), and
EVERY history `h` of later inputs — any `source.ready` pattern, any junk on the header inputs, on
`generate`, and on `data_sink` once the stream is exhausted — in which the producer obeys the stream
contract (`obeys`: it presents the payload words in order, holds each until `data_sink.ready`; only
required when the header is a data header not marked delayed): up to the first `done`

* the words transferred on the wire are exactly the first `countReady h` words of `frame hdr payload`
  (so: all of it once the PHY has been ready often enough, and never anything else);
* `done` is raised iff the whole frame has been transferred (and only in the last cycle of the
  packet trace, `runPkt_done_only_last`; it returns the FSM to IDLE, `done_is_transfer_to_idle`);
* the stream words accepted are then exactly `sinkWords payload`, each once, in order (none for a
  header without payload or a delayed one). -/
theorem tx_emits_frame (hdr : Header) (payload : List Nat) (hw : hdr.wf) (hb : ∀ x ∈ payload, x < 256)
    (s : State) (hs : s.fsm = .idle) (g : In) (hg : g.generate = true)
    (hh : g.dw0 = hdr.dw0 ∧ g.dw1 = hdr.dw1 ∧ g.dw2 = hdr.dw2 ∧ g.lcw = hdr.lcw)
    (h : List In) (hob : obeys (streamOf hdr payload) (step s g).1 h = true) :
    emitted (runPkt s (g :: h)) = (frame hdr payload).take (countReady h) ∧
    pktDone (runPkt s (g :: h)) = decide ((frame hdr payload).length ≤ countReady h) ∧
    ((frame hdr payload).length ≤ countReady h → accepted (runPkt s (g :: h)) = acceptedOf hdr payload) := by
  obtain ⟨w0, w1, w2, w3⟩ := hw
  obtain ⟨g0, g1, g2, g3⟩ := hh
  have m0 : g.dw0 % 2 ^ 32 = hdr.dw0 := by rw [g0]; exact Nat.mod_eq_of_lt w0
  have m1 : g.dw1 % 2 ^ 32 = hdr.dw1 := by rw [g1]; exact Nat.mod_eq_of_lt w1
  have m2 : g.dw2 % 2 ^ 32 = hdr.dw2 := by rw [g2]; exact Nat.mod_eq_of_lt w2
  have m3 : g.lcw % 2 ^ 11 = hdr.lcw := by rw [g3]; exact Nat.mod_eq_of_lt w3
  let s1 : State := { s with fsm := .hpstart, dw0 := hdr.dw0, dw1 := hdr.dw1, dw2 := hdr.dw2,
                              lcw := hdr.lcw, crc16In := [], crc32In := [] }
  have hstep : step s g = (s1, ⟨false, 0, 0, false, false⟩) := by
    obtain ⟨f, a, b, c, l, pw, pv, z, c16, c32⟩ := s
    simp only at hs; subst hs
    simp [step, hg, m0, m1, m2, m3, s1]
  rw [hstep] at hob
  have hE := emits_hpstart hdr payload hb s1 rfl ⟨rfl, rfl, rfl, rfl⟩ rfl rfl h hob
  simp only [runPkt, hstep, Bool.false_eq_true, if_false]
  obtain ⟨e1, e2, e3⟩ := hE
  refine ⟨?_, ?_, ?_⟩
  · simpa [emitted] using e1
  · simpa [pktDone] using e2
  · intro hl; simpa [accepted] using e3 hl

/-- Once the PHY has been ready often enough the whole frame, and nothing else, has been transferred,
`done` has been raised and the stream has been consumed exactly once. -/
theorem tx_emits_frame_complete (hdr : Header) (payload : List Nat) (hw : hdr.wf) (hb : ∀ x ∈ payload, x < 256)
    (s : State) (hs : s.fsm = .idle) (g : In) (hg : g.generate = true)
    (hh : g.dw0 = hdr.dw0 ∧ g.dw1 = hdr.dw1 ∧ g.dw2 = hdr.dw2 ∧ g.lcw = hdr.lcw)
    (h : List In) (hob : obeys (streamOf hdr payload) (step s g).1 h = true)
    (hlen : (frame hdr payload).length ≤ countReady h) :
    emitted (runPkt s (g :: h)) = frame hdr payload ∧ pktDone (runPkt s (g :: h)) = true ∧
    accepted (runPkt s (g :: h)) = acceptedOf hdr payload := by
  obtain ⟨e1, e2, e3⟩ := tx_emits_frame hdr payload hw hb s hs g hg hh h hob
  refine ⟨?_, ?_, e3 hlen⟩
  · rw [e1, List.take_of_length_le hlen]
  · rw [e2]; simpa using hlen

/-! ### non-vacuity: a data header with a 5-byte payload, stalls in SEND_HPSTART, START_DPP and SEND_CRC,
junk on the stream after the last word -/
section example_
def exHdr : Header := ⟨8 + 32 * 5, 5 * 65536, 0x1234, 3⟩
def exGen : In := ⟨8 + 32 * 5, 5 * 65536, 0x1234, 3, true, false, 0, 0, false⟩
def exW0 (r : Bool) : In := ⟨0, 0, 0, 0, false, r, 15, le4 1 2 3 4, false⟩
def exW1 (r : Bool) : In := ⟨7, 7, 7, 7, true, r, 1, 5, true⟩
def exJunk (r : Bool) : In := ⟨9, 9, 9, 9, true, r, 15, 0xDEADBEEF, false⟩
def exHist : List In :=
  [exW0 false, exW0 true, exW0 true, exW0 true, exW0 true, exW0 true, exW0 false, exW0 false, exW0 true,
   exW1 true, exJunk true, exJunk false, exJunk true, exJunk true, exJunk true]

example : exHdr.wf := by decide
example : obeys (streamOf exHdr [1, 2, 3, 4, 5]) (step init exGen).1 exHist = true := by decide
example : (frame exHdr [1, 2, 3, 4, 5]).length = 10 ∧ countReady exHist = 11 := by decide
-- a header without payload: no requirement on the stream at all
example (h : List In) : obeys (streamOf ⟨4, 0, 0, 0⟩ []) (step init ⟨4, 0, 0, 0, true, false, 0, 0, false⟩).1 h = true := by
  have : streamOf ⟨4, 0, 0, 0⟩ [] = none := by decide
  rw [this]
  generalize (step init ⟨4, 0, 0, 0, true, false, 0, 0, false⟩).1 = s
  induction h generalizing s with
  | nil => rfl
  | cons i is ih => simp [obeys, presents, advance, ih]
end example_

end LunaVerif.RawPacketTransmitter
