import LunaVerif.Lemmas.C06History
/-!
# C06 — the cycle numbers of the timed trace are port cycles; `ack_once_after_gap` at the `ack` port
-/
namespace LunaVerif.SetupDecoder
open LunaVerif.Utmi LunaVerif.DataCrc LunaVerif.Crc

/-! ## Cycle numbers of `ttrace` are port cycles -/

theorem ttrace_idx_ge (c : Config) (s : State) (h : List RxCycle) (t : Nat) :
    ∀ x ∈ ttrace c s h t, t ≤ x.1 := by
  induction h generalizing s t with
  | nil => intro x hx; simp [ttrace] at hx
  | cons i is ih =>
    intro x hx
    simp only [ttrace, List.mem_append, List.mem_map] at hx
    rcases hx with ⟨e, _, rfl⟩ | hx
    · exact Nat.le_refl _
    · have := ih _ _ x hx; omega

/-- an ACK event with cycle number `t0 + k` in the timed trace is the `ack` port being high in
cycle `k` of the run (and vice versa) -/
theorem ttrace_ack_port (c : Config) (s : State) (h : List RxCycle) (t0 k : Nat) :
    (t0 + k, Event.ack) ∈ ttrace c s h t0 ↔ ((run c s h)[k]?).map (·.ack) = some true := by
  induction h generalizing s t0 k with
  | nil => simp [ttrace, run]
  | cons i is ih =>
    cases k with
    | zero =>
      simp only [ttrace, run, List.mem_append, List.mem_map, Nat.add_zero, List.getElem?_cons_zero, Option.map_some,
        Option.some.injEq]
      constructor
      · rintro (⟨e, he, heq⟩ | hx)
        · have : e = .ack := by injection heq
          subst this
          simp only [stepEvents, List.mem_append] at he
          rcases he with he | he
          · by_cases ha : (step c s i).2.ack = true
            · exact ha
            · simp [ha] at he
          · simp only [latched] at he
            split at he <;> simp at he
        · exact absurd (ttrace_idx_ge c _ _ _ _ hx) (Nat.not_succ_le_self t0)
      · intro ha
        left
        exact ⟨.ack, by simp [stepEvents, ha], rfl⟩
    | succ k =>
      simp only [ttrace, run, List.mem_append, List.mem_map, List.getElem?_cons_succ]
      rw [← ih (step c s i).1 (t0 + 1) k]
      have e : t0 + (k + 1) = t0 + 1 + k := by omega
      rw [e]
      constructor
      · rintro (⟨e', _, heq⟩ | hx)
        · injection heq with h1 _; omega
        · exact hx
      · intro hx; right; exact hx

/-- a report event with cycle number `t0 + k` is the decoder latching `received` at the end of
cycle `k`: the `packet.received` port is high in cycle `k + 1` with exactly those fields -/
theorem ttrace_report_port (c : Config) (s : State) (h : List RxCycle) (t0 k : Nat) (a b v x l : Nat) :
    (t0 + k, Event.received a b v x l) ∈ ttrace c s h t0 ↔
      k < h.length ∧ latched (final c s (h.take (k + 1))) = [Event.received a b v x l] := by
  induction h generalizing s t0 k with
  | nil => simp [ttrace]
  | cons i is ih =>
    cases k with
    | zero =>
      simp only [ttrace, List.mem_append, List.mem_map, Nat.add_zero, List.length_cons, Nat.zero_lt_succ, true_and,
        Nat.zero_add, List.take_succ_cons, List.take_zero, final]
      constructor
      · rintro (⟨e, he, heq⟩ | hx)
        · have : e = .received a b v x l := by injection heq
          subst this
          simp only [stepEvents, List.mem_append] at he
          rcases he with he | he
          · split at he <;> simp at he
          · simp only [latched] at he ⊢
            split at he
            · rename_i hr
              rw [if_pos hr]
              simp only [List.mem_singleton] at he
              rw [he]
            · simp at he
        · exact absurd (ttrace_idx_ge c _ _ _ _ hx) (Nat.not_succ_le_self t0)
      · intro hl
        left
        exact ⟨_, by simp [stepEvents, hl], rfl⟩
    | succ k =>
      simp only [ttrace, List.mem_append, List.mem_map, List.length_cons, List.take_succ_cons, final]
      have e : t0 + (k + 1) = t0 + 1 + k := by omega
      rw [e]
      have ih' := ih (step c s i).1 (t0 + 1) k
      constructor
      · rintro (⟨e', _, heq⟩ | hx)
        · injection heq with h1 _; omega
        · obtain ⟨h1, h2⟩ := ih'.1 hx
          exact ⟨by omega, h2⟩
      · rintro ⟨h1, h2⟩
        right
        exact ih'.2 ⟨by omega, h2⟩

/-- **ack_once_after_gap at the `ack` port.**  During packet `p` after any legal history from reset,
the decoder's `ack` output is high in cycle `k` of the packet iff `p` is reported and `k` is the
strobe cycle (high speed, or the timer's `tx_allowed` up in that cycle) resp. the strobe cycle +
`delay` + 1 — in no other cycle, for no other packet. -/
theorem ack_port_exact (c : Config) (hc : c.delay ≤ c.counterMax + 1) (pre : List RxPacket) (p : RxPacket)
    (hl : LegalFrom c absInit (pre ++ [p])) (k : Nat) :
    ((run c (final c init (renderAll pre)) (render p))[k]?).map (·.ack) = some true ↔
      ((armedAfter c.addr (pre.map (·.bytes)) && isSetupData p.bytes) = true ∧
       k = if (strobeState c (final c init (renderAll pre)) p).counter == c.delay || c.hs then strobeIndex p
           else strobeIndex p + c.delay + 1) := by
  rw [← ttrace_ack_port c _ _ 0 k, (ack_once_after_gap c hc pre p hl 0).1]
  cases (armedAfter c.addr (pre.map (·.bytes)) && isSetupData p.bytes) <;>
    cases ((strobeState c (final c init (renderAll pre)) p).counter == c.delay || c.hs) <;>
    simp [report]

end LunaVerif.SetupDecoder
