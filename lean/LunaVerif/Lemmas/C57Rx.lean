import LunaVerif.Lemmas.C57Ghost
/-!
# C57 — rx stream over whole-device histories: the invariant and one preservation lemma per event kind

`RxG b g`: the rx endpoint's expected toggle IS the sequence bit the USB toggle rule prescribes for the observed
history, and the bytes read from the stream followed by the bytes still in the FIFO are the payloads ACKed with a
fresh toggle.
-/
namespace LunaVerif.C57
open LunaVerif LunaVerif.Device LunaVerif.Device.Full

def RxG (b : OutEp) (g : Ghost) : Prop :=
  b.expToggle = g.rxBit ∧ g.delivered ++ bytesOf b.fifo = g.acked

/-! ## What the device answers to a data packet for OUT endpoint 4 -/

theorem onData_out_none (c : DevConfig) (s : DevState) (p : List Nat) (ok : Bool) (h1 : s.tokPid = PID_OUT)
    (h2 : s.tokEp = 4) : (onData c s p ok).2 = .none := by
  unfold onData
  have hp : ¬ (PID_OUT = PID_SETUP) := by decide
  simp [h1, h2, hp]
  intros
  repeat' split
  all_goals rfl

theorem firstResp_mid (r : Resp) : firstResp [.none, r, .none] = r := by
  cases r <;> simp [firstResp, Resp.isNone]

theorem firstDelivery_mid (d : Delivery) : firstDelivery [{}, d, {}] = d := by
  by_cases h : d = {} <;> simp [firstDelivery, h]

theorem firstDelivery_last (d : Delivery) : firstDelivery [{}, {}, d] = d := by
  by_cases h : d = {} <;> simp [firstDelivery, h]

theorem firstResp_last (r : Resp) : firstResp [.none, .none, r] = r := by
  cases r <;> simp [firstResp, Resp.isNone]

theorem resp_out_data (c : FullConfig) (hc : IsSerial c) (s : FullState) (a : InEp) (b : OutEp) (d : InEp)
    (hs : Shape s a b d) (pid : Nat) (p : List Nat) (ok : Bool) (h1 : s.ctl.tokPid = PID_OUT) (h2 : s.ctl.tokEp = 4) :
    (Full.step c s (.data pid p ok)).2.resp = (outData ep4o b PID_OUT 4 pid p ok).2 := by
  unfold Shape at hs
  unfold IsSerial at hc
  have hn := onData_out_none c.dev s.ctl p ok h1 h2
  have ht := (onData_tok c.dev s.ctl p ok).2
  simp only [Full.step, acmAcksData, h2, hc, hs, epsStep, epStep, List.map, ctxOf, h1, firstResp_mid,
    Device.step, core, hn, ht]
  simp [Resp.isNone]

/-! ## Preservation, one event kind at a time -/

theorem rx_data (c : FullConfig) (hc : IsSerial c) (s : FullState) (a : InEp) (b : OutEp) (d : InEp)
    (hs : Shape s a b d) (g : Ghost) (got : Bool) (pid : Nat) (p : List Nat) (ok : Bool) (hi : RxG b g) :
    ∃ b', (epStep ep4o (.sOut b) (ctxOf s.ctl (.data pid p ok)) (.data pid p ok)).1 = .sOut b' ∧
      RxG b' (ghostStep s g ⟨.data pid p ok, got⟩ (Full.step c s (.data pid p ok)).2) := by
  refine ⟨(outData ep4o b s.ctl.tokPid s.ctl.tokEp pid p ok).1, rfl, ?_⟩
  obtain ⟨ht, hd⟩ := hi
  by_cases h12 : s.ctl.tokPid = PID_OUT ∧ s.ctl.tokEp = 4
  · obtain ⟨h1, h2⟩ := h12
    have hr := resp_out_data c hc s a b d hs pid p ok h1 h2
    simp only [ghostStep, hr, ctxOf, h1, h2]
    have hnak : ¬ (PID_NAK = PID_ACK) := by decide
    have e4 : ep4o.num = 4 := rfl
    -- the cases of `outData`
    by_cases hm : pidToggle pid = b.expToggle
    · have hm' : (pidToggle pid != b.expToggle) = false := by simp [hm]
      have hm2 : pidToggle pid = g.rxBit := by rw [hm, ht]
      cases ok
      · simp [outData, hm', e4, RxG, ht, hd]
      · by_cases he : p.isEmpty = true
        · have : p = [] := List.isEmpty_iff.1 he
          subst this
          simp [outData, hm', e4, RxG, ht, hd, hm2]
        · by_cases hf : p.length ≤ ep4o.depth - b.fifo.length
          · simp [outData, hm', e4, RxG, ht, hd, hm2, he, hf, entries, bytesOf_append, bytes_entriesFrom,
              ← List.append_assoc]
          · simp [outData, hm', e4, RxG, ht, hd, hm2, he, hf, hnak]
    · have hm' : (pidToggle pid != b.expToggle) = true := by simp [hm]
      have hm2 : ¬ (pidToggle pid = g.rxBit) := by rw [← ht]; exact hm
      simp [outData, hm', e4, RxG, ht, hd, hm2]
  · have h12' : ¬ (s.ctl.tokPid = PID_OUT ∧ s.ctl.tokEp = ep4o.num) := h12
    have h12'' : ¬ (s.ctl.tokPid = PID_OUT ∧ s.ctl.tokEp = 4 ∧
        (Full.step c s (.data pid p ok)).2.resp = .hs PID_ACK ∧ pidToggle pid = g.rxBit) := fun h => h12 ⟨h.1, h.2.1⟩
    have ho : outData ep4o b s.ctl.tokPid s.ctl.tokEp pid p ok = (b, .none) := by
      unfold outData; rw [if_neg h12']
    rw [ho]
    simp only [ghostStep, if_neg h12'']
    exact ⟨ht, hd⟩

theorem rx_consume (c : FullConfig) (hc : IsSerial c) (s : FullState) (a : InEp) (b : OutEp) (d : InEp)
    (hs : Shape s a b d) (g : Ghost) (got : Bool) (ep n : Nat) (hi : RxG b g) :
    ∃ b', (epStep ep4o (.sOut b) (ctxOf s.ctl (.consume ep n)) (.consume ep n)).1 = .sOut b' ∧
      RxG b' (ghostStep s g ⟨.consume ep n, got⟩ (Full.step c s (.consume ep n)).2) := by
  obtain ⟨ht, hd⟩ := hi
  have e4 : ep4o.num = 4 := rfl
  by_cases he : ep = 4
  · subst he
    refine ⟨{ b with fifo := b.fifo.drop n }, by simp [epStep, e4], ?_⟩
    have hdel : (Full.step c s (.consume 4 n)).2.delivery = { count := (b.fifo.take n).length, items := b.fifo.take n } := by
      rw [step_delivery c hc s a b d hs]
      simp [epStep, e4, firstDelivery_mid]
    have : bytesOf (b.fifo.take n) ++ bytesOf (b.fifo.drop n) = bytesOf b.fifo := by
      rw [← bytesOf_append, List.take_append_drop]
    simp only [ghostStep, hdel, RxG, if_true, List.append_assoc, this]
    exact ⟨ht, hd⟩
  · refine ⟨b, by simp [epStep, e4, he], ?_⟩
    simp only [ghostStep, if_neg he]
    exact ⟨ht, hd⟩

theorem haltFor_ack (s : DevState) (pid : Nat) (dir : Bool) (n : Nat)
    (h : haltFor (ctxOf s (.handshake pid)) dir n = true) :
    pid = PID_ACK ∧ s.tokEp = 0 ∧ s.tokPid = PID_IN := by
  simp only [haltFor, ctxOf] at h
  split at h
  · rename_i d' n' heq
    split at heq
    · rename_i hc
      simp only [ackReachesStd, Bool.and_eq_true, beq_iff_eq] at hc
      exact ⟨hc.1.1.1.1, hc.1.1.1.2, hc.1.1.2⟩
    · cases heq
  · cases h

theorem ghost_hs_rx (s : FullState) (g : Ghost) (got : Bool) (pid : Nat) (o : Obs) :
    (ghostStep s g ⟨.handshake pid, got⟩ o).rxBit =
      (if haltFor (ctxOf s.ctl (.handshake pid)) false 4 then false else g.rxBit) ∧
    (ghostStep s g ⟨.handshake pid, got⟩ o).acked = g.acked ∧
    (ghostStep s g ⟨.handshake pid, got⟩ o).delivered = g.delivered := by
  simp only [ghostStep]
  generalize haltFor (ctxOf s.ctl (.handshake pid)) false 4 = hf
  generalize haltFor (ctxOf s.ctl (.handshake pid)) true 4 = ht
  by_cases h1 : pid = PID_ACK ∧ s.ctl.tokPid = PID_IN ∧ s.ctl.tokEp = 4 ∧ g.lastGot = true <;>
  cases hf <;> cases ht <;> simp [h1]

theorem rx_handshake (c : FullConfig) (s : FullState) (b : OutEp) (g : Ghost) (got : Bool) (pid : Nat)
    (hi : RxG b g) :
    ∃ b', (epStep ep4o (.sOut b) (ctxOf s.ctl (.handshake pid)) (.handshake pid)).1 = .sOut b' ∧
      RxG b' (ghostStep s g ⟨.handshake pid, got⟩ (Full.step c s (.handshake pid)).2) := by
  obtain ⟨ht, hd⟩ := hi
  have e4 : ep4o.num = 4 := rfl
  by_cases hh : haltFor (ctxOf s.ctl (.handshake pid)) false 4 = true
  · have hp := (haltFor_ack s.ctl pid false 4 hh).1
    subst hp
    obtain ⟨g1, g2, g3⟩ := ghost_hs_rx s g got PID_ACK (Full.step c s (.handshake PID_ACK)).2
    refine ⟨{ b with expToggle := false }, by simp [epStep, e4, hh], ?_⟩
    simp only [RxG, g1, g2, g3, hh, if_true]
    exact ⟨trivial, hd⟩
  · obtain ⟨g1, g2, g3⟩ := ghost_hs_rx s g got pid (Full.step c s (.handshake pid)).2
    refine ⟨b, by simp [epStep, e4, hh], ?_⟩
    simp only [RxG, g1, g2, g3, hh]
    exact ⟨ht, hd⟩

theorem rx_token (c : FullConfig) (s : FullState) (b : OutEp) (g : Ghost) (got : Bool) (pid addr ep : Nat)
    (hi : RxG b g) :
    ∃ b', (epStep ep4o (.sOut b) (ctxOf s.ctl (.token pid addr ep)) (.token pid addr ep)).1 = .sOut b' ∧
      RxG b' (ghostStep s g ⟨.token pid addr ep, got⟩ (Full.step c s (.token pid addr ep)).2) := by
  obtain ⟨ht, hd⟩ := hi
  refine ⟨b, ?_, ?_⟩
  · simp only [epStep, outToken]
    split
    · split <;> rfl
    · rfl
  · simp only [ghostStep]
    repeat' split
    all_goals exact ⟨ht, hd⟩

theorem rx_produce (c : FullConfig) (s : FullState) (b : OutEp) (g : Ghost) (got : Bool) (ep : Nat) (bytes : List Nat)
    (last : Bool) (hi : RxG b g) :
    ∃ b', (epStep ep4o (.sOut b) (ctxOf s.ctl (.produce ep bytes last)) (.produce ep bytes last)).1 = .sOut b' ∧
      RxG b' (ghostStep s g ⟨.produce ep bytes last, got⟩ (Full.step c s (.produce ep bytes last)).2) := by
  refine ⟨b, rfl, ?_⟩
  simp only [ghostStep]
  split <;> exact hi

/-- All event kinds together. -/
theorem rx_step (c : FullConfig) (hc : IsSerial c) (s : FullState) (a : InEp) (b : OutEp) (d : InEp)
    (hs : Shape s a b d) (g : Ghost) (ae : AEvent) (hi : RxG b g) :
    ∃ b', (epStep ep4o (.sOut b) (ctxOf s.ctl ae.ev) ae.ev).1 = .sOut b' ∧
      RxG b' (ghostStep s g ae (Full.step c s ae.ev).2) := by
  obtain ⟨ev, got⟩ := ae
  cases ev with
  | token pid addr ep => exact rx_token c s b g got pid addr ep hi
  | data pid p ok => exact rx_data c hc s a b d hs g got pid p ok hi
  | handshake pid => exact rx_handshake c s b g got pid hi
  | consume ep n => exact rx_consume c hc s a b d hs g got ep n hi
  | produce ep bytes last => exact rx_produce c s b g got ep bytes last hi
  | sof f => exact ⟨b, rfl, hi⟩
  | malformed bs => exact ⟨b, rfl, hi⟩
  | quiet => exact ⟨b, rfl, hi⟩
  | busReset => exact ⟨b, rfl, hi⟩
  | setSignal ep v => exact ⟨b, rfl, hi⟩

end LunaVerif.C57
