import LunaVerif.Props.C09Spec
import LunaVerif.Model.Usb2.DescriptorBlock
/-!
Helper lemmas for C09: symbolic execution of the block-ROM handler model for one request.
-/
namespace LunaVerif.Desc

theorem lt_two_pow_bitsFor (n : Nat) : n < 2 ^ bitsFor n := by
  unfold bitsFor
  split
  · omega
  · exact Nat.lt_log2_self

theorem idleTrace_cons (r : Bool) (rs : List Bool) : idleTrace (r :: rs) = Beat.quiet :: idleTrace rs := rfl

theorem sendTrace_done (c : List Nat) (k : Nat) (h : c.length ≤ k) (rs : List Bool) :
    sendTrace c k rs = idleTrace rs := by
  induction rs with
  | nil => rfl
  | cons r rs ih => simp only [sendTrace, Nat.not_lt.mpr h, if_false, idleTrace_cons, ih]

namespace Block

/-- inputs of one request: `start` pulsed in the first cycle, value / length / start_position held. -/
def reqInputs (v l p : Nat) : List Bool → List In
  | [] => []
  | r :: rs => ⟨v, l, p, true, r⟩ :: rs.map (fun r => ⟨v, l, p, false, r⟩)

def holdInputs (v l p : Nat) (rs : List Bool) : List In := rs.map (fun r => ⟨v, l, p, false, r⟩)

theorem holdInputs_cons (v l p : Nat) (r : Bool) (rs : List Bool) :
    holdInputs v l p (r :: rs) = ⟨v, l, p, false, r⟩ :: holdInputs v l p rs := rfl

/-! ### one-step lemmas, one per FSM state and branch -/

section steps
variable (c : Config) (s : State) (i : In)

theorem step_idle (h : s.fsm = .idle) :
    step c s i = ({ s with sent := 0, fsm := if i.start then .start else .idle,
                           length := nextLength c.mps i.length i.startPos,
                           romData := c.img.read (((i.value / 256) % 256) % 2 ^ c.img.addrW) }, Beat.quiet) := by
  simp only [step, h, quiet]

theorem step_start_ok (h : s.fsm = .start) (ht : (i.value / 256) % 256 ≤ c.img.maxType) :
    step c s i = ({ s with pos := i.startPos % 2 ^ c.img.posW,
                           descrIdx := if c.img.indexMap.isEmpty then s.descrIdx
                                       else c.img.descrIdx ((i.value / 256) % 256) (i.value % 256),
                           fsm := .lookupType,
                           length := nextLength c.mps i.length i.startPos,
                           romData := c.img.read (((i.value / 256) % 256) % 2 ^ c.img.addrW) }, Beat.quiet) := by
  simp only [step, h, quiet, ht, if_true]

theorem step_start_stall (h : s.fsm = .start) (ht : ¬ (i.value / 256) % 256 ≤ c.img.maxType) :
    (step c s i).2 = stallBeat ∧ (step c s i).1.fsm = .idle := by
  constructor <;> simp [step, h, quiet, ht, stallBeat, Beat.quiet]

/-- the index compared in LOOKUP_TYPE -/
def lookupIdx (c : Config) (s : State) (i : In) : Nat :=
  if c.img.indexMap.isEmpty then i.value % 256 else s.descrIdx

theorem step_lookupType_stall (h : s.fsm = .lookupType) (hd : lookupIdx c s i ≥ countOf s.romData) :
    (step c s i).2 = stallBeat ∧ (step c s i).1.fsm = .idle := by
  unfold lookupIdx at hd
  constructor
  · simp only [step, h, quiet]; rw [if_pos hd]; rfl
  · simp only [step, h, quiet]; rw [if_pos hd]

theorem step_lookupType_ok (h : s.fsm = .lookupType) (hd : ¬ lookupIdx c s i ≥ countOf s.romData) :
    step c s i = ({ s with fsm := if s.length = 0 then .sendZlp else .lookupDescriptor,
                           length := nextLength c.mps i.length i.startPos,
                           romData := c.img.read ((c.img.ptrOf s.romData + lookupIdx c s i) % 2 ^ c.img.addrW) },
                  Beat.quiet) := by
  unfold lookupIdx at hd ⊢
  simp only [step, h, quiet, hd, if_false]

theorem step_lookupDescriptor (h : s.fsm = .lookupDescriptor) :
    step c s i = ({ s with base := c.img.ptrOf s.romData, descLen := countOf s.romData,
                           fsm := if s.pos ≥ countOf s.romData then .sendZlp else .sendDescriptor,
                           length := nextLength c.mps i.length i.startPos,
                           romData := c.img.read (((s.romData + s.pos) / 4) % 2 ^ c.img.addrW) },
                  Beat.quiet) := by
  simp only [step, h, quiet]

theorem step_zlp (h : s.fsm = .sendZlp) :
    (step c s i).2 = zlpBeat ∧ (step c s i).1.fsm = .idle := by
  constructor <;> simp [step, h, zlpBeat]

/-- the beat shown in SEND_DESCRIPTOR -/
def sendBeat (s : State) (i : In) : Beat :=
  ⟨true, s.pos == i.startPos, onLast s, (s.romData / 256 ^ (3 - s.pos % 4)) % 256, false⟩

theorem step_send_hold (h : s.fsm = .sendDescriptor) (hr : i.ready = false) :
    step c s i = ({ s with length := nextLength c.mps i.length i.startPos,
                           romData := c.img.read ((s.base + s.pos / 4) % 2 ^ c.img.addrW) }, sendBeat s i) := by
  simp [step, h, hr, sendBeat]

theorem step_send_next (h : s.fsm = .sendDescriptor) (hr : i.ready = true) (hl : onLast s = false) :
    step c s i = ({ s with pos := (s.pos + 1) % 2 ^ c.img.posW, sent := (s.sent + 1) % 65536,
                           length := nextLength c.mps i.length i.startPos,
                           romData := c.img.read ((s.base + ((s.pos + 1) / 4) % 2 ^ (c.img.posW - 2))
                                                   % 2 ^ c.img.addrW) }, sendBeat s i) := by
  simp [step, h, hr, hl, sendBeat]

theorem step_send_last (h : s.fsm = .sendDescriptor) (hr : i.ready = true) (hl : onLast s = true) :
    (step c s i).2 = sendBeat s i ∧ (step c s i).1.fsm = .idle := by
  constructor <;> simp [step, h, hr, hl, sendBeat]

end steps

/-! ### idle stays idle -/

theorem run_idle (c : Config) (v l p : Nat) (rs : List Bool) :
    ∀ s : State, s.fsm = .idle → run c s (holdInputs v l p rs) = idleTrace rs := by
  induction rs with
  | nil => intro s _; rfl
  | cons r rs ih =>
    intro s h
    rw [holdInputs_cons, idleTrace_cons]
    simp only [run]
    rw [step_idle c s _ h]
    simp only [Bool.false_eq_true, if_false]
    congr 1
    exact ih _ rfl

/-! ### the SEND_DESCRIPTOR loop -/

/-- State of the model while byte `k` of the packet that starts at descriptor offset `p` is shown. -/
structure SendInv (c : Config) (l p dlen base k : Nat) (s : State) : Prop where
  hfsm     : s.fsm = .sendDescriptor
  hpos     : s.pos = p + k
  hsent    : s.sent = k
  hdescLen : s.descLen = dlen
  hbase    : s.base = base
  hlength  : s.length = nextLength c.mps l p
  hrom     : s.romData = c.img.read ((base + (p + k) / 4) % 2 ^ c.img.addrW)

theorem div4_lt (x w : Nat) (hw : 2 ≤ w) (hx : x < 2 ^ w) : x / 4 < 2 ^ (w - 2) := by
  obtain ⟨u, rfl⟩ : ∃ u, w = u + 2 := ⟨w - 2, by omega⟩
  have : 2 ^ (u + 2) = 4 * 2 ^ u := by rw [Nat.pow_succ, Nat.pow_succ]; omega
  simp only [Nat.add_sub_cancel]
  omega

theorem send_loop (c : Config) (v l p dlen base : Nat) (chunk : List Nat)
    (hpw : 2 ≤ c.img.posW) (hdl : dlen < 2 ^ c.img.posW)
    (hL : nextLength c.mps l p < 65536)
    (hn : chunk.length = min (nextLength c.mps l p) (dlen - p))
    (hb : ∀ j, j < chunk.length → chunk.getD j 0 = c.img.byteAt base (p + j))
    (rs : List Bool) :
    ∀ (k : Nat) (s : State), k < chunk.length → SendInv c l p dlen base k s →
      run c s (holdInputs v l p rs) = sendTrace chunk k rs := by
  induction rs with
  | nil => intro k s _ _; rfl
  | cons r rs ih =>
    intro k s hk inv
    rw [holdInputs_cons]
    simp only [run, sendTrace, hk, if_true]
    -- the beat of this cycle
    have hlast : onLast s = (k + 1 == chunk.length) := by
      unfold onLast
      rw [inv.hpos, inv.hsent, inv.hdescLen, inv.hlength, Bool.eq_iff_iff]
      simp only [Bool.or_eq_true, beq_iff_eq, decide_eq_true_eq]
      omega
    have hbeat : sendBeat s ⟨v, l, p, false, r⟩ = ⟨true, k == 0, k + 1 == chunk.length, chunk.getD k 0, false⟩ := by
      unfold sendBeat
      rw [hlast, hb k hk, inv.hpos, inv.hrom]
      have : (p + k == p) = (k == 0) := by
        rw [Bool.eq_iff_iff]; simp
      simp only [this]
      rfl
    cases r with
    | false =>
      rw [step_send_hold c s _ inv.hfsm rfl, hbeat]
      simp only [Bool.false_eq_true, if_false]
      congr 1
      apply ih k _ hk
      exact ⟨inv.hfsm, inv.hpos, inv.hsent, inv.hdescLen, inv.hbase, rfl, by
        show c.img.read _ = _
        rw [inv.hbase, inv.hpos]⟩
    | true =>
      simp only [if_true]
      by_cases hfin : k + 1 = chunk.length
      · have hl : onLast s = true := by rw [hlast]; simp [hfin]
        obtain ⟨ho, hf⟩ := step_send_last c s ⟨v, l, p, false, true⟩ inv.hfsm rfl hl
        rw [ho, hbeat]
        congr 1
        rw [run_idle c v l p rs _ hf, sendTrace_done _ _ (by omega)]
      · have hl : onLast s = false := by rw [hlast]; simp [hfin]
        rw [step_send_next c s _ inv.hfsm rfl hl, hbeat]
        congr 1
        have hk' : k + 1 < chunk.length := by omega
        apply ih (k + 1) _ hk'
        have hpos : p + k + 1 < 2 ^ c.img.posW := by omega
        refine ⟨inv.hfsm, ?_, ?_, inv.hdescLen, inv.hbase, rfl, ?_⟩
        · show (s.pos + 1) % 2 ^ c.img.posW = p + (k + 1)
          rw [inv.hpos, Nat.mod_eq_of_lt hpos]; omega
        · show (s.sent + 1) % 65536 = k + 1
          rw [inv.hsent, Nat.mod_eq_of_lt (by omega)]
        · show c.img.read _ = _
          rw [inv.hbase, inv.hpos, Nat.mod_eq_of_lt (div4_lt _ _ hpw hpos)]
          rfl

end Block
end LunaVerif.Desc

namespace LunaVerif.Desc

theorem romOk_lookupOk (img : Rom.Image) (c : Collection) (h : romOk img c = true) (ty idx : Nat)
    (ht : ty < 256) (hi : idx < 256) : lookupOk img c ty idx = true := by
  unfold romOk at h
  rw [List.all_eq_true] at h
  have h1 := h ty (List.mem_range.mpr ht)
  rw [List.all_eq_true] at h1
  exact h1 idx (List.mem_range.mpr hi)

/-- `lookup` unfolded: what the three look-up states compute. -/
theorem lookup_some (img : Rom.Image) (ty idx w : Nat) (h : img.lookup ty idx = some w) :
    ty ≤ img.maxType ∧ ¬ img.descrIdx ty idx ≥ countOf (img.read (ty % 2 ^ img.addrW)) ∧
    w = img.read ((img.ptrOf (img.read (ty % 2 ^ img.addrW)) + img.descrIdx ty idx) % 2 ^ img.addrW) := by
  unfold Rom.Image.lookup at h
  split at h
  · rename_i ht
    simp only at h
    split at h
    · exact absurd h (by simp)
    · rename_i hd
      exact ⟨ht, hd, by injection h with h; exact h.symm⟩
  · exact absurd h (by simp)

theorem lookup_none (img : Rom.Image) (ty idx : Nat) (h : img.lookup ty idx = none) :
    ¬ ty ≤ img.maxType ∨
    (ty ≤ img.maxType ∧ img.descrIdx ty idx ≥ countOf (img.read (ty % 2 ^ img.addrW))) := by
  unfold Rom.Image.lookup at h
  split at h
  · rename_i ht
    simp only at h
    split at h
    · rename_i hd; exact Or.inr ⟨ht, hd⟩
    · exact absurd h (by simp)
  · rename_i ht; exact Or.inl ht

namespace Block

theorem reqInputs_cons (v l p : Nat) (r : Bool) (rs : List Bool) :
    reqInputs v l p (r :: rs) = ⟨v, l, p, true, r⟩ :: holdInputs v l p rs := rfl

theorem run_peel (c : Config) (s s' : State) (v l p n : Nat) (f : List Bool → List Beat)
    (hstep : ∀ r, step c s ⟨v, l, p, false, r⟩ = (s', Beat.quiet))
    (hrest : ∀ rs, run c s' (holdInputs v l p rs) = delayed n f rs) :
    ∀ rs, run c s (holdInputs v l p rs) = delayed (n + 1) f rs := by
  intro rs
  cases rs with
  | nil => rfl
  | cons r rs =>
    rw [holdInputs_cons]
    simp only [run, delayed]
    rw [hstep r]
    simp only [hrest rs]

theorem run_pulse (c : Config) (s : State) (v l p : Nat) (b : Beat)
    (hstep : ∀ r, (step c s ⟨v, l, p, false, r⟩).2 = b ∧ (step c s ⟨v, l, p, false, r⟩).1.fsm = .idle) :
    ∀ rs, run c s (holdInputs v l p rs) = pulseTrace b rs := by
  intro rs
  cases rs with
  | nil => rfl
  | cons r rs =>
    rw [holdInputs_cons]
    simp only [run, pulseTrace]
    rw [(hstep r).1, run_idle c v l p rs _ (hstep r).2]

theorem value_split (ty idx : Nat) (hi : idx < 256) (ht : ty < 256) :
    ((ty * 256 + idx) / 256) % 256 = ty ∧ (ty * 256 + idx) % 256 = idx := by
  omega

theorem ptr_add (img : Rom.Image) (w p : Nat) (hw : w % 4 = 0) :
    ((w + p) / 4) % 2 ^ img.addrW = (img.ptrOf w + p / 4) % 2 ^ img.addrW := by
  unfold Rom.Image.ptrOf
  rw [Nat.mod_add_mod]
  congr 1
  omega

/-- The first cycle of a request (the one with `start`), from any idle state. -/
theorem run_request_first (c : Config) (s0 : State) (v l p n : Nat) (f : List Bool → List Beat)
    (h0 : s0.fsm = .idle)
    (hrest : ∀ r rs, run c (step c s0 ⟨v, l, p, true, r⟩).1 (holdInputs v l p rs) = delayed n f rs) :
    ∀ rs, run c s0 (reqInputs v l p rs) = delayed (n + 1) f rs := by
  intro rs
  cases rs with
  | nil => rfl
  | cons r rs =>
    rw [reqInputs_cons]
    simp only [run, delayed]
    rw [hrest r rs, step_idle c s0 _ h0]

end Block
end LunaVerif.Desc
