import LunaVerif.Model.Periph.StreamGenerator
/-!
# C27 — specification (the player) and arithmetic lemmas; the theorems are in `Props/C27.lean`

C27 — Constant-stream generators emit exactly the requested slice

"For any constant data, payload width, start position within the data and maximum length, a started
generator emits the data from the start position onward, limited to the maximum length in bytes, with
'first' on the first word, 'last' on the final word, per-byte valid bits covering exactly the bytes
sent in a partial final word, and then pulses 'done'; it emits nothing when the length limit is zero.
The serializer variant behaves the same for its runtime data array."

The specification is a *player*: a request (start strobe with `max_length > 0` while idle) selects the
list of words `xfer c s M 0 … xfer c s M (N-1)` — computed directly from the constant bytes — and the
player presents word `k` unchanged until it is taken (`ready`), then word `k+1`, …; after the last word it
pulses `done` for one cycle and is idle again.  `emits_slice` proves that the gateware model *is* this
player for every configuration, every request and every ready pattern.
-/
namespace LunaVerif.StreamGen

/-! ## Specification -/

/-- Configurations covered: word width 1, 2 or 4 bytes, non-empty data, a max_length port, valid either
one bit or one bit per byte of a multi-byte word. -/
def Config.Valid (c : Config) : Prop :=
  (c.wb = 1 ∨ c.wb = 2 ∨ c.wb = 4) ∧ 1 ≤ c.data.length ∧ 1 ≤ c.mlw ∧ (c.vw = 1 ∨ (c.vw = c.wb ∧ 1 < c.wb))

/-- bytes to be sent for start position `s` (in words) and length limit `M` (in bytes) -/
def budget (c : Config) (s M : Nat) : Nat := min M (c.data.length - s * c.wb)

/-- number of words of the emission -/
def nXfers (c : Config) (s M : Nat) : Nat := (budget c s M + c.wb - 1) / c.wb

structure Xfer where
  payload : Nat
  valid   : Nat
  first   : Bool
  last    : Bool
deriving DecidableEq, Repr

/-- word `k` of the emission: the bytes `(s+k)·wb …` of the constant, `first` on word 0, `last` on the
final word, one valid bit per byte actually sent (for streams with per-byte valid) -/
def xfer (c : Config) (s M k : Nat) : Xfer :=
  ⟨wordOf c.big ((c.data.drop ((s + k) * c.wb)).take c.wb),
   if c.vw = 1 then 1 else ones (min c.wb (budget c s M - k * c.wb)),
   k == 0,
   k + 1 == nXfers c s M⟩

/-- the whole emission -/
def xfers (c : Config) (s M : Nat) : List Xfer := (List.range (nXfers c s M)).map (xfer c s M)

/-- The player.  `idle m` / `done m`: `m` is the length shown on `output_length`. -/
inductive Spec
  | idle (m : Nat)
  | play (s M k : Nat)
  | done (m : Nat)
deriving DecidableEq, Repr

def outLen (c : Config) (m : Nat) : Nat := min m c.data.length

def specOut (c : Config) : Spec → Out
  | .idle m => ⟨0, 0, false, false, false, outLen c m⟩
  | .play s M k =>
    let x := xfer c s M k
    ⟨x.valid, x.payload, x.first, x.last, false, outLen c M⟩
  | .done m => ⟨0, 0, false, false, true, outLen c m⟩

def specNext (c : Config) : Spec → In → Spec
  | .idle _, i => if i.start = true ∧ 0 < i.maxLength then .play i.startPosition i.maxLength 0 else .idle i.maxLength
  | .play s M k, i => if i.ready then (if k + 1 = nXfers c s M then .done M else .play s M (k + 1)) else .play s M k
  | .done m, _ => .idle m

def specRun (c : Config) : Spec → List In → List Out
  | _, [] => []
  | q, x :: xs => specOut c q :: specRun c (specNext c q x) xs

/-- Environment: signal values fit their widths; a request names a start position within the data (in
words); `start_position` is held while the emission is in progress (`first` is computed from the live
input). -/
def Env (c : Config) : Spec → In → Prop
  | .idle _, i => i.maxLength < 2 ^ c.mlw ∧ (i.start = true → 0 < i.maxLength → i.startPosition < nWords c)
  | .play s _ _, i => i.startPosition = s
  | .done _, _ => True

def EnvRun (c : Config) : Spec → List In → Prop
  | _, [] => True
  | q, x :: xs => Env c q x ∧ EnvRun c (specNext c q x) xs

/-- Simulation relation between gateware state and player state. -/
def R (c : Config) (σ : State) : Spec → Prop
  | .idle m => σ.fsm = .idle ∧ σ.maxLen = m
  | .done m => σ.fsm = .done ∧ σ.maxLen = m
  | .play s M k =>
    σ.fsm = .streaming ∧ σ.pos = s + k ∧ σ.bytesSent = k * c.wb ∧ σ.maxLen = M ∧
    σ.romData = romRead c (s + k) ∧ k < nXfers c s M ∧ s < nWords c ∧ M < 2 ^ c.mlw

/-! ## Lemmas -/

theorem le_two_pow_rangeWidth (n : Nat) : n ≤ 2 ^ rangeWidth n := by
  unfold rangeWidth
  split
  · simp; omega
  · have := Nat.lt_log2_self (n := n - 1); omega

theorem romRead_eq (c : Config) (a : Nat) (h : a < nWords c) :
    romRead c a = wordOf c.big ((c.data.drop (a * c.wb)).take c.wb) := by
  simp [romRead, rom, List.getElem?_map, List.getElem?_range h]

theorem ones_and (a b : Nat) (ha : a ≤ 4) (hb : b ≤ 4) : ones a &&& ones b = ones (min a b) := by
  have : ∀ a : Fin 5, ∀ b : Fin 5, ones a.1 &&& ones b.1 = ones (min a.1 b.1) := by decide
  exact this ⟨a, by omega⟩ ⟨b, by omega⟩

theorem ones_lt (a w : Nat) (h : a ≤ w) : ones a % 2 ^ w = ones a := by
  apply Nat.mod_eq_of_lt
  have h1 : 2 ^ a ≤ 2 ^ w := Nat.pow_le_pow_right (by decide) h
  have h2 : 0 < 2 ^ a := Nat.two_pow_pos a
  unfold ones; omega

theorem rw3 : rangeWidth 3 = 2 := by decide
theorem rw5 : rangeWidth 5 = 3 := by decide
theorem rw2 : rangeWidth 2 = 1 := by decide


theorem last_iff (wb len s k M W N : Nat) (hwb : wb = 1 ∨ wb = 2 ∨ wb = 4)
    (hW : W = (len + wb - 1) / wb) (hN : N = (min M (len - s * wb) + wb - 1) / wb)
    (hs : s + k < W) (hk : k < N) : (s + k = W - 1 ∨ k * wb + wb ≥ M) ↔ k + 1 = N := by
  rcases hwb with rfl | rfl | rfl <;> omega

theorem onLast_eq (c : Config) (hc : c.Valid) (s M k : Nat) (hs : s + k < nWords c) (hk : k < nXfers c s M) :
    onLast c (s + k) (k * c.wb) M = decide (k + 1 = nXfers c s M) := by
  have := last_iff c.wb c.data.length s k M (nWords c) (nXfers c s M) hc.1 rfl rfl hs hk
  simp only [onLast, endData, endMax]
  by_cases h : k + 1 = nXfers c s M
  · have h' := this.mpr h
    rcases h' with h' | h' <;> simp [h, h']
  · have h' : ¬ (s + k = nWords c - 1 ∨ k * c.wb + c.wb ≥ M) := fun hh => h (this.mp hh)
    have h1 : ¬ (s + k = nWords c - 1) := fun hh => h' (Or.inl hh)
    have h2 : ¬ (k * c.wb + c.wb ≥ M) := fun hh => h' (Or.inr hh)
    simp [h, h1, h2]


/-- pure arithmetic of the valid mask of the final word (word width 2 or 4 bytes) -/
theorem mask_last (wb len s k M W N X vbl P : Nat) (hwb : (wb = 2 ∧ P = 4) ∨ (wb = 4 ∧ P = 8))
    (hW : W = (len + wb - 1) / wb) (hN : N = (min M (len - s * wb) + wb - 1) / wb)
    (hv : vbl = if len % wb = 0 then wb else len % wb)
    (hs : s + k < W) (hk : k + 1 = N) :
    vbl ≤ 4 ∧ vbl ≤ wb ∧
    (k * wb + wb ≥ M → (M + X * P - k * wb) % P = M - k * wb ∧ 1 ≤ M - k * wb ∧ M - k * wb ≤ wb) ∧
    (s + k = W - 1 → k * wb + wb ≥ M → min wb (min M (len - s * wb) - k * wb) = min vbl (M - k * wb)) ∧
    (s + k = W - 1 → ¬ (k * wb + wb ≥ M) → min wb (min M (len - s * wb) - k * wb) = vbl) ∧
    (¬ (s + k = W - 1) → min wb (min M (len - s * wb) - k * wb) = M - k * wb ∧ k * wb + wb ≥ M) := by
  rcases hwb with ⟨rfl, rfl⟩ | ⟨rfl, rfl⟩ <;> split at hv <;> omega

theorem validMask_eq (c : Config) (hc : c.Valid) (s M k : Nat) (hs : s + k < nWords c)
    (hk : k < nXfers c s M) : validMask c (s + k) (k * c.wb) M = (xfer c s M k).valid := by
  have hlast := onLast_eq c hc s M k hs hk
  obtain ⟨hwb, hlen, hmlw, hvw⟩ := hc
  rcases hvw with hv1 | ⟨hvw, hwb1⟩
  · simp [validMask, xfer, hv1]
  · have hvne : c.vw ≠ 1 := by omega
    have hne1 : c.wb ≠ 1 := by omega
    simp only [validMask, xfer, hvne, if_false, hlast]
    by_cases h : k + 1 = nXfers c s M
    · -- the final word
      have hP : ∃ P, 2 ^ rangeWidth (c.wb + 1) = P ∧ ((c.wb = 2 ∧ P = 4) ∨ (c.wb = 4 ∧ P = 8)) := by
        rcases hwb with h1 | h1 | h1
        · omega
        · exact ⟨4, by rw [h1]; decide, Or.inl ⟨h1, rfl⟩⟩
        · exact ⟨8, by rw [h1]; decide, Or.inr ⟨h1, rfl⟩⟩
      obtain ⟨P, hP1, hP2⟩ := hP
      obtain ⟨f1, f1', f2, f3, f4, f5⟩ := mask_last c.wb c.data.length s k M (nWords c) (nXfers c s M)
        (2 ^ c.mlw) (lastWordBytes c) P hP2 rfl rfl rfl hs h
      have hvb : validBitsLastWord c = lastWordBytes c := by simp [validBitsLastWord, hne1]
      have hwb4 : c.wb ≤ 4 := by omega
      simp only [h, decide_true, if_true, Nat.pow_add, hP1, hvb, budget]
      rw [ones_lt _ _ (by omega : lastWordBytes c ≤ c.vw)]
      by_cases hd : s + k = nWords c - 1
      · by_cases hm : k * c.wb + c.wb ≥ M
        · obtain ⟨g1, g2, g3⟩ := f2 hm
          have e1 : endData c (s + k) = true := by simp [endData, hd]
          have e2 : endMax c (k * c.wb) M = true := by simp [endMax, hm]
          simp only [e1, e2, Bool.and_self, if_true, g1, g2, g3, and_self]
          rw [ones_and _ _ f1 (by omega), f3 hd hm]
        · have e1 : endData c (s + k) = true := by simp [endData, hd]
          have e2 : endMax c (k * c.wb) M = false := by simp [endMax]; omega
          simp only [e1, e2, Bool.and_false, Bool.false_eq_true, if_false, if_true]
          rw [f4 hd hm]
      · obtain ⟨g0, hm⟩ := f5 hd
        obtain ⟨g1, g2, g3⟩ := f2 hm
        have e1 : endData c (s + k) = false := by simp [endData, hd]
        simp only [e1, Bool.false_and, Bool.false_eq_true, if_false, g1, g2, g3, and_self, if_true, g0]
    · -- a full word
      simp only [h, decide_false, Bool.false_eq_true, if_false]
      have hNd : nXfers c s M = (min M (c.data.length - s * c.wb) + c.wb - 1) / c.wb := rfl
      have : min c.wb (budget c s M - k * c.wb) = c.vw := by
        rw [hvw]; unfold budget
        generalize nXfers c s M = N at *
        generalize c.wb = wb at *
        rcases hwb with rfl | rfl | rfl <;> omega
      rw [this]

end LunaVerif.StreamGen
