import LunaVerif.Lemmas.C25RxCdcDriftCross
/-!
# C25: the latched bit-stuffing error is seen behind the flags FIFO (clock drift)

`err_seen_core`: flags stream = the start flag (after `NA` quiet cycles) followed by `KB ≥ 16` cycles, then the end flag
followed by `K2 ≥ 16` cycles; `o_receive_error` high in every cycle from the end flag's write on: at the `usb` edge at
which the end flag is shown, `o_pkt_in_progress` is still high and `o_receive_error` is high -- an `.err` event.  Only the
NUMBER of payload samples matters (whatever the payload FIFO does).
-/
set_option linter.unusedSimpArgs false
namespace LunaVerif.FsRxCdc

theorem smpB_const (φ : Nat) (v : Bool) (n : Nat) : ∀ c, smpB φ c (List.replicate n v) = List.replicate (edges φ c n) v := by
  induction n with
  | zero => intro c; rfl
  | succ n ih =>
    intro c
    rw [List.replicate_succ]
    simp only [smpB, ih, edges]
    split <;> simp [List.replicate_succ, Nat.add_comm 1]

theorem err_seen_core (φ : Nat) (hφ : φ < 4) (P : List (Option Nat)) (NA KB K2 : Nat) (hKB : 16 ≤ KB) (hK2 : 16 ≤ K2)
    (E1 : List Bool) (hE1 : E1.length = NA + 1 + KB) (hP : P.length = NA + 1 + KB + (1 + K2)) (sp : Fifo)
    (c0 pf : Nat) (memf : List Nat) (hc0 : c0 < 4) (hpf : pf < 8) (hmf : memf.length = 4) :
    EvU.err ∈ usbEvO false ((runFifo φ c0 sp P).2.map rdyData)
      ((runFifo φ c0 (settled pf memf) (window NA 2 KB ++ window 0 1 K2)).2.map rdyData)
      (smpB φ c0 (E1 ++ List.replicate (1 + K2) true)) := by
  have hcT : (c0 + (NA + 1 + KB)) % 4 < 4 := Nat.mod_lt _ (by omega)
  obtain ⟨a1, a2⟩ := fifo_window pf c0 φ hpf hc0 hφ memf hmf NA 2 KB hKB
  obtain ⟨b1, b2⟩ := fifo_window ((pf + 1) % 8) ((c0 + (NA + 1 + KB)) % 4) φ (Nat.mod_lt _ (by omega)) hcT hφ
    (memf.set (pf % 4) 2) (by simp [hmf]) 0 1 K2 hK2
  have g1 := edges_window_ge φ hφ c0 hc0 NA KB hKB
  have g2 := edges_window_ge φ hφ _ hcT 0 K2 hK2
  rw [runFifo_append φ _ _ c0 _ hc0, window_length, a1]
  simp only [List.map_append, a2, b2]
  rw [smpB_append φ _ _ c0 hc0, hE1, smpB_const]
  -- name the numbers
  have h1K' : 1 + K2 = 0 + 1 + K2 := by omega
  have hPS : ((runFifo φ c0 sp P).2.map rdyData).length =
      edges φ c0 (NA + 1 + KB) + edges φ ((c0 + (NA + 1 + KB)) % 4) (0 + 1 + K2) := by
    rw [List.length_map, runFifo_length, hP, edges_add φ _ _ c0 hc0, h1K']
  have hES : (smpB φ c0 E1).length = edges φ c0 (NA + 1 + KB) := by rw [smpB_length, hE1]
  have h1K : 1 + K2 = 0 + 1 + K2 := by omega
  rw [h1K]
  generalize (runFifo φ c0 sp P).2.map rdyData = PS at hPS
  generalize smpB φ c0 E1 = ES at hES
  generalize edges φ c0 (NA + 1 + KB) = N1 at *
  generalize edges φ ((c0 + (NA + 1 + KB)) % 4) (0 + 1 + K2) = N2 at *
  generalize edges φ c0 (NA + 1) = A1 at *
  generalize edges φ ((c0 + (NA + 1 + KB)) % 4) (0 + 1) = A2 at *
  -- split the three streams at the sample that shows the end flag
  have hsplit : PS = PS.take (N1 + (A2 + 3)) ++ PS.drop (N1 + (A2 + 3)) := (List.take_append_drop _ _).symm
  have hdrop : (PS.drop (N1 + (A2 + 3))).length ≠ 0 := by rw [List.length_drop, hPS]; omega
  have hT : List.replicate N2 true = List.replicate (A2 + 3) true ++ true :: List.replicate (N2 - (A2 + 4)) true := by
    have hgen : ∀ a r : Nat, List.replicate (a + (r + 1)) true = List.replicate a true ++ true :: List.replicate r true := by
      intro a r; rw [← List.replicate_append_replicate]; rfl
    have : N2 = (A2 + 3) + ((N2 - (A2 + 4)) + 1) := by omega
    exact (congrArg (fun n => List.replicate n true) this).trans (hgen _ _)
  match hd : PS.drop (N1 + (A2 + 3)), hdrop with
  | p :: ps2, _ =>
    rw [hsplit, hd, hT]
    have hF : (List.replicate (A1 + 3) none ++ some 2 :: List.replicate (N1 - (A1 + 4)) none) ++
        (List.replicate (A2 + 3) none ++ some 1 :: List.replicate (N2 - (A2 + 4)) none) =
        ((List.replicate (A1 + 3) none ++ some 2 :: List.replicate (N1 - (A1 + 4)) none) ++ List.replicate (A2 + 3) none) ++
          some 1 :: List.replicate (N2 - (A2 + 4)) none := by
      simp only [List.append_assoc]
    have hE : ES ++ (List.replicate (A2 + 3) true ++ true :: List.replicate (N2 - (A2 + 4)) true) =
        (ES ++ List.replicate (A2 + 3) true) ++ true :: List.replicate (N2 - (A2 + 4)) true := by
      simp only [List.append_assoc]
    rw [hF, hE]
    apply err_member
    · simp only [List.length_append, List.length_replicate, List.length_cons, List.length_take, hPS]
      omega
    · simp only [List.length_append, List.length_replicate, List.length_take, hPS, hES]
      omega
    · have happ : ∀ (xs ys : List (Option Nat)) (i : Bool), ipFinalO i (xs ++ ys) = ipFinalO (ipFinalO i xs) ys := by
        intro xs
        induction xs with
        | nil => intro ys i; rfl
        | cons x xs ih => intro ys i; simp only [List.cons_append, ipFinalO, ih]
      have h2 : ipNextO false (some 2) = true := by decide
      rw [happ, ipFinalO_nones_left]
      simp only [ipFinalO, h2, ipFinalO_nones]

end LunaVerif.FsRxCdc
