/-
C25, transmit chain, 12 MHz (`usb`) part: `TxShifter` + `TxBitstuffer` + the `TxPipeline` controller in closed loop
with a UTMI producer that obeys the `tx_valid`/`tx_ready` handshake.  Main result `packet12`: per `usb` cycle the pair
(`fit_oe`, `fit_dat`) handed to the 48 MHz part is one idle cycle, then SYNC ++ the stuffed bits of the bytes (the 1
ending SYNC counted), and `tx_ready` takes every byte exactly once, in order.
-/
import LunaVerif.Model.Phy.FsCodec
import LunaVerif.Model.Phy.FsTx
set_option linter.unusedSimpArgs false
namespace LunaVerif.FsTx
open LunaVerif.FsCodec

/-! ## The UTMI producer and the closed 12 MHz loop -/

/-- A UTMI producer obeying the handshake: `rest` = the bytes not yet accepted.  It offers the first of them with
`tx_valid` until `tx_ready`, then the next one; after the last `tx_ready` it drops `tx_valid`.  While it offers
nothing `tx_data` is arbitrary (`g`). -/
structure Prod where
  rest : List Nat

def Prod.valid (p : Prod) : Bool := !p.rest.isEmpty
def Prod.data (p : Prod) (g : Nat) : Nat := match p.rest with | b :: _ => b | [] => g
def Prod.next (p : Prod) (ready : Bool) : Prod := if ready then ⟨p.rest.tail⟩ else p

/-- what is visible of the 12 MHz part in one `usb` cycle -/
structure O12 where
  fitOe  : Bool
  fitDat : Bool
  ready  : Bool      -- tx_ready
  data   : Nat       -- tx_data in that cycle

structure R12 where
  outs : List O12
  st   : Tx12
  prod : Prod

/-- the 12 MHz registers and the producer, one `usb` cycle per element of `gs` (the arbitrary idle `tx_data`) -/
def loop12 : Tx12 → Prod → List Nat → R12
  | s, p, [] => ⟨[], s, p⟩
  | s, p, g :: gs =>
    let r := loop12 (s.next p.valid (p.data g)) (p.next (s.ready p.valid)) gs
    ⟨⟨s.fitOe, s.fitDat, s.ready p.valid, p.data g⟩ :: r.outs, r.st, r.prod⟩

def O12.fit (o : O12) : Bool × Bool := (o.fitOe, o.fitDat)
/-- the bytes taken: `tx_data` of the cycles with `tx_ready` -/
def accepted (os : List O12) : List Nat := os.filterMap (fun o => if o.ready then some o.data else none)

theorem loop12_append (s : Tx12) (p : Prod) (g1 g2 : List Nat) :
    loop12 s p (g1 ++ g2) =
      let r1 := loop12 s p g1
      let r2 := loop12 r1.st r1.prod g2
      ⟨r1.outs ++ r2.outs, r2.st, r2.prod⟩ := by
  induction g1 generalizing s p with
  | nil => simp [loop12]
  | cons g gs ih => simp [loop12, ih]

/-! ## The data phase -/

def dataSt (b k n : Nat) : Tx12 :=
  { shifter := b >>> k, pos := 128 >>> k, oGet := k == 0, stuff := n, syncPulse := 0, gray := 3, fsm := .sendData }

theorem pos_empty (k : Nat) (hk : k ≤ 7) : (128 >>> k).testBit 0 = (k == 7) := by
  have : k = 0 ∨ k = 1 ∨ k = 2 ∨ k = 3 ∨ k = 4 ∨ k = 5 ∨ k = 6 ∨ k = 7 := by omega
  rcases this with h | h | h | h | h | h | h | h <;> subst h <;> decide

theorem data_stall (b k : Nat) (oe : Bool) (d : Nat) :
    (dataSt b k 6).next oe d = dataSt b k 0 := by
  simp [dataSt, Tx12.next, Tx12.nextShifter, Tx12.nextPos, Tx12.nextGet, Tx12.nextStuff, Tx12.nextSync,
    Tx12.nextGray, Tx12.nextFsm, Tx12.stall, Tx12.spResetShifter, Tx12.finishing]

theorem data_shift (b k n : Nat) (hk : k < 7) (hn : n < 6) (oe : Bool) (d : Nat) :
    (dataSt b k n).next oe d = dataSt b (k + 1) (if b.testBit k then n + 1 else 0) := by
  have hne : (n == 6) = false := by simp; omega
  have he := pos_empty k (by omega)
  have hk7 : (k == 7) = false := by simp; omega
  simp [dataSt, Tx12.next, Tx12.nextShifter, Tx12.nextPos, Tx12.nextGet, Tx12.nextStuff, Tx12.nextSync,
    Tx12.nextGray, Tx12.nextFsm, Tx12.stall, Tx12.spResetShifter, Tx12.finishing, Tx12.empty, he, hk7, hne,
    Tx12.bsIn, Tx12.shData, Tx12.stateData, Tx12.spBit, Nat.shiftRight_add]

theorem data_load (b n : Nat) (hn : n < 6) (d : Nat) (hd : d < 256) :
    (dataSt b 7 n).next true d = dataSt d 0 (if b.testBit 7 then n + 1 else 0) := by
  have hne : (n == 6) = false := by simp; omega
  have hd' : d % 256 = d := Nat.mod_eq_of_lt hd
  simp [dataSt, Tx12.next, Tx12.nextShifter, Tx12.nextPos, Tx12.nextGet, Tx12.nextStuff, Tx12.nextSync,
    Tx12.nextGray, Tx12.nextFsm, Tx12.stall, Tx12.spResetShifter, Tx12.finishing, Tx12.empty, hne,
    Tx12.bsIn, Tx12.shData, Tx12.stateData, Tx12.spBit, hd']

/-- state after the last data bit when a stuffed 0 still has to go out -/
def lastSt (d : Nat) : Tx12 :=
  { shifter := d % 256, pos := 128, oGet := true, stuff := 6, syncPulse := 0, gray := 3, fsm := .stuffLast }

/-- state after the packet: the controller is back in IDLE, `state_gray = 0b10` -/
def finSt (d n : Nat) : Tx12 :=
  { shifter := d % 256, pos := 128, oGet := true, stuff := n, syncPulse := 0, gray := 2, fsm := .idle }

theorem data_last_stuff (b : Nat) (hb : b.testBit 7 = true) (d : Nat) :
    (dataSt b 7 5).next false d = lastSt d := by
  simp [dataSt, lastSt, Tx12.next, Tx12.nextShifter, Tx12.nextPos, Tx12.nextGet, Tx12.nextStuff, Tx12.nextSync,
    Tx12.nextGray, Tx12.nextFsm, Tx12.stall, Tx12.spResetShifter, Tx12.finishing, Tx12.empty,
    Tx12.bsIn, Tx12.shData, Tx12.stateData, Tx12.spBit, Tx12.willStall, hb]

theorem data_last (b n : Nat) (hn : n < 6) (h : ¬ (n = 5 ∧ b.testBit 7 = true)) (d : Nat) :
    (dataSt b 7 n).next false d = finSt d (if b.testBit 7 then n + 1 else 0) := by
  have hne : (n == 6) = false := by simp; omega
  have hw : (n == 5 && b.testBit 7) = false := by
    cases hb : b.testBit 7 <;> simp_all
  simp [dataSt, finSt, Tx12.next, Tx12.nextShifter, Tx12.nextPos, Tx12.nextGet, Tx12.nextStuff, Tx12.nextSync,
    Tx12.nextGray, Tx12.nextFsm, Tx12.stall, Tx12.spResetShifter, Tx12.finishing, Tx12.empty, hne,
    Tx12.bsIn, Tx12.shData, Tx12.stateData, Tx12.spBit, Tx12.willStall, hw]

theorem last_next (d : Nat) (oe : Bool) (d' : Nat) :
    (lastSt d).next oe d' = finSt d 0 := by
  simp [lastSt, finSt, Tx12.next, Tx12.nextShifter, Tx12.nextPos, Tx12.nextGet, Tx12.nextStuff, Tx12.nextSync,
    Tx12.nextGray, Tx12.nextFsm, Tx12.stall, Tx12.spResetShifter]

/-- outputs in the data phase -/
theorem data_out (b k n : Nat) :
    (dataSt b k n).fitOe = true ∧ (dataSt b k n).fitDat = (b.testBit k && !(n == 6)) ∧
    ∀ oe, (dataSt b k n).ready oe = (k == 0 && !(n == 6) && oe) := by
  simp [dataSt, Tx12.fitOe, Tx12.fitDat, Tx12.ready, Tx12.stateData, Tx12.shData, Tx12.stall, Tx12.spBit]

theorem last_out (d : Nat) :
    (lastSt d).fitOe = true ∧ (lastSt d).fitDat = false ∧ ∀ oe, (lastSt d).ready oe = false := by
  simp [lastSt, Tx12.fitOe, Tx12.fitDat, Tx12.ready, Tx12.stateData, Tx12.shData, Tx12.stall, Tx12.spBit]

/-! ### what the data phase has to emit -/

/-- bits still to go out: bit `k`.. of the byte in the shifter, then the bytes not yet loaded -/
def rem (b k : Nat) (more : List Nat) : List Bool := (byteBits b).drop k ++ bitsOf more

/-- `stuff` seen from the hardware's state: in D6 the stuffed 0 is still to come -/
def emit (n : Nat) (bits : List Bool) : List Bool := if n = 6 then false :: stuff 0 bits else stuff n bits

theorem byteBits_list (b : Nat) : byteBits b =
    [b.testBit 0, b.testBit 1, b.testBit 2, b.testBit 3, b.testBit 4, b.testBit 5, b.testBit 6, b.testBit 7] := by
  simp [byteBits, List.range, List.range.loop]

theorem rem_step (b k : Nat) (more : List Nat) (hk : k < 7) : rem b k more = b.testBit k :: rem b (k + 1) more := by
  have : k = 0 ∨ k = 1 ∨ k = 2 ∨ k = 3 ∨ k = 4 ∨ k = 5 ∨ k = 6 := by omega
  rcases this with h | h | h | h | h | h | h <;> subst h <;> simp [rem, byteBits_list]

theorem rem_last (b : Nat) (more : List Nat) : rem b 7 more = b.testBit 7 :: bitsOf more := by
  simp [rem, byteBits_list]

theorem rem_zero (b : Nat) (more : List Nat) : rem b 0 more = bitsOf (b :: more) := by
  simp [rem, bitsOf]

theorem emit_six (bits : List Bool) : emit 6 bits = false :: emit 0 bits := by simp [emit]

theorem emit_cons (n : Nat) (hn : n < 6) (bit : Bool) (bs : List Bool) :
    emit n (bit :: bs) = bit :: emit (if bit then n + 1 else 0) bs := by
  have h6 : n ≠ 6 := by omega
  cases bit with
  | false => simp [emit, stuff, h6]
  | true =>
    by_cases h : n + 1 = 6
    · simp [emit, stuff, h6, h]
    · simp [emit, stuff, h6, h]

theorem emit_nil (n : Nat) : emit n [] = if n = 6 then [false] else [] := by
  by_cases h : n = 6 <;> simp [emit, stuff, h]

theorem emit_le_five (n : Nat) (hn : n ≤ 5) (bits : List Bool) : emit n bits = stuff n bits := by
  have : n ≠ 6 := by omega
  simp [emit, this]

theorem loop12_cons_outs (s : Tx12) (p : Prod) (g : Nat) (gs : List Nat) :
    (loop12 s p (g :: gs)).outs = ⟨s.fitOe, s.fitDat, s.ready p.valid, p.data g⟩ ::
      (loop12 (s.next p.valid (p.data g)) (p.next (s.ready p.valid)) gs).outs := rfl
theorem loop12_cons_st (s : Tx12) (p : Prod) (g : Nat) (gs : List Nat) :
    (loop12 s p (g :: gs)).st = (loop12 (s.next p.valid (p.data g)) (p.next (s.ready p.valid)) gs).st := rfl
theorem loop12_cons_prod (s : Tx12) (p : Prod) (g : Nat) (gs : List Nat) :
    (loop12 s p (g :: gs)).prod = (loop12 (s.next p.valid (p.data g)) (p.next (s.ready p.valid)) gs).prod := rfl

/-- **data phase**: from the state in which bit `k` of byte `b` is at the shifter's output with `n` ones counted,
the 12 MHz part emits exactly the (rest of the) stuffed bit stream with `fit_oe` high, accepts every byte not yet
acknowledged exactly once, and ends in IDLE. -/
theorem data_phase (gs : List Nat) : ∀ (b k n : Nat) (more : List Nat), k ≤ 7 → n ≤ 6 → b < 256 →
    (∀ x ∈ more, x < 256) → gs.length = (emit n (rem b k more)).length →
    ((loop12 (dataSt b k n) ⟨if k = 0 then b :: more else more⟩ gs).outs.map O12.fit
        = (emit n (rem b k more)).map (fun x => (true, x)) ∧
     accepted (loop12 (dataSt b k n) ⟨if k = 0 then b :: more else more⟩ gs).outs
        = (if k = 0 then b :: more else more) ∧
     (∃ d m, (loop12 (dataSt b k n) ⟨if k = 0 then b :: more else more⟩ gs).st = finSt d m) ∧
     (loop12 (dataSt b k n) ⟨if k = 0 then b :: more else more⟩ gs).prod.rest = []) := by
  induction gs with
  | nil =>
    intro b k n more hk hn hb hm hlen
    exfalso
    by_cases h6 : n = 6
    · subst h6; simp [emit_six] at hlen
    · by_cases hk7 : k < 7
      · rw [rem_step b k more hk7, emit_cons n (by omega)] at hlen; simp at hlen
      · have : k = 7 := by omega
        subst this
        rw [rem_last, emit_cons n (by omega)] at hlen; simp at hlen
  | cons g gs ih =>
    intro b k n more hk hn hb hm hlen
    obtain ⟨ho1, ho2, ho3⟩ := data_out b k n
    by_cases h6 : n = 6
    · -- the stuffed bit: everything stalls for one cycle
      subst h6
      rw [emit_six] at hlen ⊢
      have hlen' : gs.length = (emit 0 (rem b k more)).length := by simpa using hlen
      have := ih b k 0 more hk (by omega) hb hm hlen'
      simp only [loop12_cons_outs, loop12_cons_st, loop12_cons_prod, data_stall, ho3]
      simpa [O12.fit, accepted, ho1, ho2, Prod.next] using this
    · have hn6 : n < 6 := by omega
      have hne : (n == 6) = false := by simp; omega
      by_cases hk7 : k < 7
      · -- a bit inside the byte
        rw [rem_step b k more hk7, emit_cons n hn6] at hlen ⊢
        have hlen' : gs.length = (emit (if b.testBit k then n + 1 else 0) (rem b (k + 1) more)).length := by
          simpa using hlen
        have hn' : (if b.testBit k then n + 1 else 0) ≤ 6 := by split <;> omega
        have := ih b (k + 1) (if b.testBit k then n + 1 else 0) more (by omega) hn' hb hm hlen'
        simp only [loop12_cons_outs, loop12_cons_st, loop12_cons_prod, data_shift b k n hk7 hn6, ho3]
        by_cases hk0 : k = 0
        · subst hk0
          simp [O12.fit, accepted, ho1, ho2, hne, Prod.next, Prod.valid, Prod.data] at this ⊢
          exact this
        · have hk0' : (k == 0) = false := by simp [hk0]
          simp [hk0, hk0', O12.fit, accepted, ho1, ho2, hne, Prod.next] at this ⊢
          exact this
      · have hk' : k = 7 := by omega
        subst hk'
        rw [rem_last, emit_cons n hn6] at hlen ⊢
        cases more with
        | cons b' more' =>
          -- the last bit of a byte, the next byte is loaded
          have hb' : b' < 256 := hm b' (by simp)
          have hm' : ∀ x ∈ more', x < 256 := fun x hx => hm x (by simp [hx])
          have hlen' : gs.length = (emit (if b.testBit 7 then n + 1 else 0) (rem b' 0 more')).length := by
            simpa [rem_zero] using hlen
          have hn' : (if b.testBit 7 then n + 1 else 0) ≤ 6 := by split <;> omega
          have := ih b' 0 (if b.testBit 7 then n + 1 else 0) more' (by omega) hn' hb' hm' hlen'
          simp only [loop12_cons_outs, loop12_cons_st, loop12_cons_prod, ho3]
          simp [O12.fit, accepted, ho1, ho2, hne, Prod.next, Prod.valid, Prod.data, data_load b n hn6 b' hb',
            rem_zero] at this ⊢
          exact this
        | nil =>
          -- the last bit of the packet
          simp only [loop12_cons_outs, loop12_cons_st, loop12_cons_prod, ho3]
          by_cases hw : n = 5 ∧ b.testBit 7 = true
          · obtain ⟨hn5, hb7⟩ := hw
            subst hn5
            simp [hb7, emit_nil, bitsOf] at hlen
            match gs, hlen with
            | [g2], _ =>
              obtain ⟨hl1, hl2, hl3⟩ := last_out g
              simp [O12.fit, accepted, ho1, ho2, Prod.next, Prod.valid, Prod.data, data_last_stuff b hb7,
                loop12, hb7, emit_nil, bitsOf, last_next, hl1, hl2, hl3]
              exact ⟨_, _, rfl⟩
          · have hn'' : (if b.testBit 7 = true then n + 1 else 0) ≠ 6 := by
              split
              · rename_i hb7; intro h; exact hw ⟨by omega, hb7⟩
              · omega
            simp [emit_nil, bitsOf, hn''] at hlen
            subst hlen
            simp [O12.fit, accepted, ho1, ho2, hne, Prod.next, Prod.valid, Prod.data, data_last b n hn6 hw,
              loop12, emit_nil, bitsOf, hn'']
            exact ⟨_, _, rfl⟩

/-! ## IDLE and the SYNC phase -/

/-- the controller is idle and not driving: FSM in IDLE, `sync_pulse` = 0, `state_gray` ∈ {0b00, 0b10}; the shifter and
the bit stuffer may hold anything (they run freely between packets) -/
structure Quiet12 (s : Tx12) : Prop where
  fsm  : s.fsm = .idle
  sync : s.syncPulse = 0
  gray : s.gray = 0 ∨ s.gray = 2

/-- SYNC is being sent, `sync_pulse = 0x80 >> j` -/
structure SyncInv (j : Nat) (s : Tx12) : Prop where
  fsm   : s.fsm = .sendSync
  gray  : s.gray = 1
  sync  : s.syncPulse = 128 >>> j
  stuff : s.stuff = 0
  clr   : j = 7 → s.pos = 1 ∧ s.shifter = 0

/-- bits 0 and 1 of the values `sync_pulse` takes -/
theorem sp_bits :
    Nat.testBit 128 0 = false ∧
    Nat.testBit 128 1 = false ∧
    Nat.testBit 64 0 = false ∧
    Nat.testBit 64 1 = false ∧
    Nat.testBit 32 0 = false ∧
    Nat.testBit 32 1 = false ∧
    Nat.testBit 16 0 = false ∧
    Nat.testBit 16 1 = false ∧
    Nat.testBit 8 0 = false ∧
    Nat.testBit 8 1 = false ∧
    Nat.testBit 4 0 = false ∧
    Nat.testBit 4 1 = false ∧
    Nat.testBit 2 0 = false ∧
    Nat.testBit 2 1 = true ∧
    Nat.testBit 1 0 = true ∧
    Nat.testBit 1 1 = false ∧
    Nat.testBit 0 0 = false ∧
    Nat.testBit 0 1 = false := by decide

theorem finSt_quiet (d n : Nat) : Quiet12 (finSt d n) := ⟨rfl, rfl, Or.inr rfl⟩

theorem quiet_out (s : Tx12) (h : Quiet12 s) : s.fitOe = false ∧ s.fitDat = false ∧ ∀ oe, s.ready oe = false := by
  obtain ⟨_, h2, h3⟩ := h
  rcases h3 with h3 | h3 <;>
    simp [Tx12.fitOe, Tx12.fitDat, Tx12.ready, Tx12.stateData, Tx12.stateSync, Tx12.spBit, h2, h3]

/-- idle stays idle while `tx_valid` is low -/
theorem quiet_idle (s : Tx12) (h : Quiet12 s) (d : Nat) : Quiet12 (s.next false d) := by
  obtain ⟨h1, h2, h3⟩ := h
  exact ⟨by simp [Tx12.next, Tx12.nextFsm, h1], by simp [Tx12.next, Tx12.nextSync, h1, h2],
    by simp [Tx12.next, Tx12.nextGray, h1]⟩

/-- `tx_valid` starts the SYNC pattern -/
theorem quiet_start (s : Tx12) (h : Quiet12 s) (d : Nat) : SyncInv 0 (s.next true d) := by
  obtain ⟨h1, h2, h3⟩ := h
  refine ⟨by simp [Tx12.next, Tx12.nextFsm, h1], by simp [Tx12.next, Tx12.nextGray, h1],
    by simp [Tx12.next, Tx12.nextSync, h1], ?_, by omega⟩
  rcases h3 with h3 | h3 <;>
    simp [Tx12.next, Tx12.nextStuff, Tx12.bsIn, Tx12.stateData, Tx12.spBit, h2, h3]

theorem sync_out (j : Nat) (hj : j ≤ 7) (s : Tx12) (h : SyncInv j s) :
    s.fitOe = true ∧ s.fitDat = (j == 7) ∧ ∀ oe, s.ready oe = false := by
  obtain ⟨_, h2, h3, _, _⟩ := h
  have : j = 0 ∨ j = 1 ∨ j = 2 ∨ j = 3 ∨ j = 4 ∨ j = 5 ∨ j = 6 ∨ j = 7 := by omega
  rcases this with h | h | h | h | h | h | h | h <;> subst h <;>
    simp [Tx12.fitOe, Tx12.fitDat, Tx12.ready, Tx12.stateData, Tx12.stateSync, Tx12.spBit, h2, h3, sp_bits]

theorem sync_step (j : Nat) (hj : j < 7) (s : Tx12) (h : SyncInv j s) (oe : Bool) (d : Nat) :
    SyncInv (j + 1) (s.next oe d) := by
  obtain ⟨h1, h2, h3, h4, _⟩ := h
  have : j = 0 ∨ j = 1 ∨ j = 2 ∨ j = 3 ∨ j = 4 ∨ j = 5 ∨ j = 6 := by omega
  rcases this with h | h | h | h | h | h | h <;> subst h <;>
    exact ⟨by simp [Tx12.next, Tx12.nextFsm, h1, Tx12.spBit, h3, sp_bits],
      by simp [Tx12.next, Tx12.nextGray, h1, Tx12.spBit, h3, sp_bits],
      by simp [Tx12.next, Tx12.nextSync, h1, h3],
      by simp [Tx12.next, Tx12.nextStuff, Tx12.bsIn, Tx12.stateData, Tx12.spBit, h2, h3, h4, sp_bits],
      by simp [Tx12.next, Tx12.nextPos, Tx12.nextShifter, Tx12.spResetShifter, h3, sp_bits]⟩

theorem sync_end (s : Tx12) (h : SyncInv 7 s) (oe : Bool) (d : Nat) (hd : d < 256) :
    s.next oe d = dataSt d 0 1 := by
  obtain ⟨h1, h2, h3, h4, h5⟩ := h
  obtain ⟨h5, h6⟩ := h5 rfl
  have hd' : d % 256 = d := Nat.mod_eq_of_lt hd
  have h3' : s.syncPulse = 1 := by rw [h3]; decide
  simp [dataSt, Tx12.next, Tx12.nextShifter, Tx12.nextPos, Tx12.nextGet, Tx12.nextStuff, Tx12.nextSync,
    Tx12.nextGray, Tx12.nextFsm, Tx12.stall, Tx12.spResetShifter, Tx12.empty, Tx12.bsIn, Tx12.spBit,
    h1, h3', h4, h5, h6, hd', sp_bits]

theorem syncBits_drop (j : Nat) (hj : j ≤ 7) : syncBits.drop j = (j == 7) :: syncBits.drop (j + 1) := by
  have : j = 0 ∨ j = 1 ∨ j = 2 ∨ j = 3 ∨ j = 4 ∨ j = 5 ∨ j = 6 ∨ j = 7 := by omega
  rcases this with h | h | h | h | h | h | h | h <;> subst h <;> decide

/-- **SYNC phase**: the remaining SYNC bits go out with `fit_oe` high, nothing is accepted, and the first byte is in
the shifter afterwards with the 1 that ends SYNC counted. -/
theorem sync_phase (gs : List Nat) : ∀ (j : Nat) (s : Tx12) (b : Nat) (more : List Nat), j ≤ 7 → SyncInv j s →
    b < 256 → gs.length = 8 - j →
    ((loop12 s ⟨b :: more⟩ gs).outs.map O12.fit = (syncBits.drop j).map (fun x => (true, x)) ∧
     accepted (loop12 s ⟨b :: more⟩ gs).outs = [] ∧
     (loop12 s ⟨b :: more⟩ gs).st = dataSt b 0 1 ∧
     (loop12 s ⟨b :: more⟩ gs).prod = ⟨b :: more⟩) := by
  induction gs with
  | nil => intro j s b more hj _ _ hlen; simp at hlen; omega
  | cons g gs ih =>
    intro j s b more hj hs hb hlen
    obtain ⟨ho1, ho2, ho3⟩ := sync_out j hj s hs
    simp only [loop12_cons_outs, loop12_cons_st, loop12_cons_prod, ho3]
    rw [syncBits_drop j hj]
    by_cases hj7 : j < 7
    · have := ih (j + 1) _ b more (by omega) (sync_step j hj7 s hs (Prod.valid ⟨b :: more⟩) (Prod.data ⟨b :: more⟩ g))
        hb (by simp at hlen; omega)
      simpa [O12.fit, accepted, ho1, ho2, Prod.next] using this
    · have hj' : j = 7 := by omega
      subst hj'
      have hgs : gs = [] := by simpa using hlen
      subst hgs
      have := sync_end s hs (Prod.valid ⟨b :: more⟩) b hb
      simp [O12.fit, accepted, ho1, ho2, Prod.next, Prod.data, loop12, this, syncBits]

/-- the number of `usb` cycles a packet occupies the 12 MHz part: the cycle in which `tx_valid` is first seen, SYNC,
the stuffed data bits -/
def cycles12 (bytes : List Nat) : Nat := 9 + (stuff 1 (bitsOf bytes)).length

/-- **the 12 MHz part sends one packet**: started from idle with a producer offering `bytes`, it shows `fit_oe` low
for one cycle, then SYNC and the stuffed bits of the bytes with `fit_oe` high; `tx_ready` picks up exactly `bytes`, in
order, each once; afterwards it is idle again and the producer has nothing left. -/
theorem packet12 (bytes : List Nat) (hne : bytes ≠ []) (hb : ∀ b ∈ bytes, b < 256) (s : Tx12) (hq : Quiet12 s)
    (gs : List Nat) (hlen : gs.length = cycles12 bytes) :
    (loop12 s ⟨bytes⟩ gs).outs.map O12.fit
        = (false, false) :: (syncBits ++ stuff 1 (bitsOf bytes)).map (fun x => (true, x)) ∧
    accepted (loop12 s ⟨bytes⟩ gs).outs = bytes ∧
    Quiet12 (loop12 s ⟨bytes⟩ gs).st ∧ (loop12 s ⟨bytes⟩ gs).prod.rest = [] := by
  obtain ⟨b, more, rfl⟩ := List.exists_cons_of_ne_nil hne
  have hb0 : b < 256 := hb b (by simp)
  have hm : ∀ x ∈ more, x < 256 := fun x hx => hb x (by simp [hx])
  -- split the cycles: 1 + 8 + data
  obtain ⟨g0, gs1, rfl⟩ : ∃ g0 gs1, gs = g0 :: gs1 := by
    cases gs with
    | nil => simp [cycles12] at hlen; omega
    | cons g0 gs1 => exact ⟨g0, gs1, rfl⟩
  have hl1 : gs1.length = 8 + (stuff 1 (bitsOf (b :: more))).length := by
    simp [cycles12] at hlen; omega
  obtain ⟨gsS, gsD, rfl, hS, hD⟩ : ∃ gsS gsD, gs1 = gsS ++ gsD ∧ gsS.length = 8 ∧
      gsD.length = (stuff 1 (bitsOf (b :: more))).length :=
    ⟨gs1.take 8, gs1.drop 8, by simp, by simp; omega, by simp; omega⟩
  obtain ⟨q1, q2, q3⟩ := quiet_out s hq
  have hstart := quiet_start s hq b
  obtain ⟨s1, s2, s3, s4⟩ := sync_phase gsS 0 _ b more (by omega) hstart hb0 (by omega)
  have hD' : gsD.length = (emit 1 (rem b 0 more)).length := by
    rw [rem_zero, emit_le_five 1 (by omega)]; exact hD
  obtain ⟨d1, d2, d3, d4⟩ := data_phase gsD b 0 1 more (by omega) (by omega) hb0 hm hD'
  simp only [if_true] at d1 d2 d3 d4
  rw [rem_zero, emit_le_five 1 (by omega)] at d1
  simp only [loop12_cons_outs, loop12_cons_st, loop12_cons_prod, q3]
  have hv : Prod.valid ⟨b :: more⟩ = true := rfl
  have hd : Prod.data ⟨b :: more⟩ g0 = b := rfl
  have hn : Prod.next ⟨b :: more⟩ false = ⟨b :: more⟩ := rfl
  rw [hv, hd, hn, loop12_append]
  simp only [s3, s4]
  obtain ⟨d, m, d3⟩ := d3
  refine ⟨?_, ?_, ?_, d4⟩
  · simp [O12.fit, q1, q2, s1, d1]
  · unfold accepted at s2 d2
    simp [accepted, List.filterMap_append, s2, d2]
  · rw [d3]; exact finSt_quiet d m

end LunaVerif.FsTx
