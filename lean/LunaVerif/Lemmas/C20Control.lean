import LunaVerif.Model.Usb2.ControlCyc
/-!
# C20 — the control endpoint's own logic requests only at a pulse (one-cycle lemmas over the C07 cycle model)

`CtrlCyc` (Model/Usb2/ControlCyc.lean) models `USBControlEndpoint` + `USBRequestHandlerMultiplexer` +
`StandardRequestHandler`; the setup decoder (`sdAck`, `received`), the descriptor handler (`dValid`…, `dStall`) and the
`StreamSerializer` (`tValid`…) are INPUTS of every cycle.  For every state and every input:

* `ctrl_requests_only_after_pulse` — whatever the control endpoint drives on `handshakes_out` / `tx.valid` in a cycle is
  either caused by a `ready_for_response` pulse addressed to it in that same cycle (`ctlPulse`: the token detector's
  after an IN or PING token for its endpoint number, or the receiver's after an OUT token for it), or is passed through
  combinationally from one of the three abstracted submodules (`setup_decoder.ack`, the descriptor handler's `stall` /
  `tx.valid`, the serializer's `stream.valid`);
* `ctrl_no_handshake_and_data_together` — with the three submodules silent and the tokenizer's PID decode exclusive, it
  never drives a handshake and `tx.valid` in the same cycle.

These are the control endpoint's share of the slot contract of `Lemmas/C20Contract.lean` as far as its own FSMs decide
it; the timing of the three submodules (C06, C09, the serializer) is what `restHolds` of `Lemmas/C20Device.lean` still
assumes.
-/
namespace LunaVerif.CtrlCyc
open LunaVerif.Device

/-- A `ready_for_response` pulse addressed to the control endpoint. -/
def ctlPulse (c : Cfg) (i : CycIn) : Bool :=
  targeted c i && ((i.readyForResponse && (i.isIn || i.isPing)) || (i.rxReady && i.isOut))

theorem comb_pulse (c : Cfg) (st : Stage) (i : CycIn) :
    ((ctrlComb c st i).dataRequested = true → ctlPulse c i = true) ∧
    ((ctrlComb c st i).statusRequested = true → ctlPulse c i = true) ∧
    ((ctrlComb c st i).pingAck = true → ctlPulse c i = true) := by
  simp only [ctrlComb, ctlPulse]
  cases targeted c i <;> cases i.readyForResponse <;> cases i.isIn <;> cases i.isPing <;> cases i.rxReady <;>
    cases i.isOut <;> cases st <;> simp

/-- The request handlers (standard handler behind the multiplexer, stall-only fallback) act on `data_requested` /
`status_requested` only, or pass their submodules through. -/
theorem handler_origin (c : Cfg) (s : StdState) (hi : HIn) :
    ((muxOut (stdStep c s hi).2 hi).ack = true → hi.statusRequested = true) ∧
    ((muxOut (stdStep c s hi).2 hi).stall = true →
      hi.dataRequested = true ∨ hi.statusRequested = true ∨ hi.dStall = true) ∧
    ((muxOut (stdStep c s hi).2 hi).txValid = true →
      hi.statusRequested = true ∨ hi.dValid = true ∨ hi.tValid = true) := by
  by_cases ht : hi.su.type = TYPE_STANDARD
  · simp only [stdStep, ht, if_true]
    cases hs : s.hstate <;>
      simp only [stdComb, hs, simpleDataOut, regWriteZlp, muxOut, fallbackOut, if_true] <;>
      cases hi.dataRequested <;> cases hi.statusRequested <;> cases hi.dStall <;> cases hi.dValid <;>
      cases hi.tValid <;> cases clearFeatureStalls hi.su <;> simp
  · simp only [stdStep, ht, if_false, muxOut, fallbackOut]
    cases hi.dataRequested <;> cases hi.statusRequested <;> simp

/-- **The control endpoint requests only at a pulse**, or passes a submodule's request through. -/
theorem ctrl_requests_only_after_pulse (c : Cfg) (s : CycState) (i : CycIn) :
    ((step c s i).2.ack = true → i.sdAck = true ∨ ctlPulse c i = true) ∧
    ((step c s i).2.stall = true → ctlPulse c i = true ∨ i.dStall = true) ∧
    ((step c s i).2.txValid = true → ctlPulse c i = true ∨ i.dValid = true ∨ i.tValid = true) ∧
    ((step c s i).2.nak = false) := by
  obtain ⟨p1, p2, p3⟩ := comb_pulse c s.stage i
  obtain ⟨h1, h2, h3⟩ := handler_origin c s.h (handlerIn i (ctrlComb c s.stage i))
  simp only [handlerIn] at h1 h2 h3
  refine ⟨?_, ?_, ?_, rfl⟩
  · intro h
    simp only [step, Bool.or_eq_true] at h
    rcases h with (h | h) | h
    · exact Or.inl h
    · exact Or.inr (p2 (h1 h))
    · exact Or.inr (p3 h)
  · intro h
    rcases h2 h with h | h | h
    · exact Or.inl (p1 h)
    · exact Or.inl (p2 h)
    · exact Or.inr h
  · intro h
    rcases h3 h with h | h | h
    · exact Or.inl (p2 h)
    · exact Or.inr (Or.inl h)
    · exact Or.inr (Or.inr h)

/-- With the descriptor handler and the serializer silent the request handlers never drive a handshake together with
`tx.valid`, and `tx.valid` (a zero-length status packet) only on `status_requested`. -/
theorem handler_excl (c : Cfg) (s : StdState) (hi : HIn) (hd : hi.dValid = false) (hds : hi.dStall = false)
    (ht : hi.tValid = false) :
    (((muxOut (stdStep c s hi).2 hi).ack || (muxOut (stdStep c s hi).2 hi).stall) &&
        (muxOut (stdStep c s hi).2 hi).txValid) = false ∧
    ((muxOut (stdStep c s hi).2 hi).txValid = true → hi.statusRequested = true) := by
  by_cases hty : hi.su.type = TYPE_STANDARD
  · simp only [stdStep, hty, if_true]
    cases hs : s.hstate <;>
      simp only [stdComb, hs, simpleDataOut, regWriteZlp, muxOut, fallbackOut, if_true, hd, hds, ht] <;>
      cases hi.dataRequested <;> cases hi.statusRequested <;> cases clearFeatureStalls hi.su <;> simp
  · simp only [stdStep, hty, if_false, muxOut, fallbackOut]
    simp

theorem status_ping_excl (c : Cfg) (st : Stage) (i : CycIn) (hx : (i.isPing && i.isOut) = false) :
    ((ctrlComb c st i).statusRequested && (ctrlComb c st i).pingAck) = false := by
  simp only [ctrlComb]
  revert hx
  cases targeted c i <;> cases i.readyForResponse <;> cases i.isIn <;> cases i.isPing <;> cases i.rxReady <;>
    cases i.isOut <;> cases st <;> simp

theorem bool_key (sd a st tv sr pa : Bool) (h0 : sd = false) (h1 : ((a || st) && tv) = false)
    (h2 : tv = true → sr = true) (h3 : (sr && pa) = false) : (((sd || a || pa) || st) && tv) = false := by
  cases sd <;> cases a <;> cases st <;> cases tv <;> cases sr <;> cases pa <;> simp_all

/-- With the setup decoder, the descriptor handler and the serializer silent, and an exclusive PID decode, the control
endpoint never drives a handshake together with `tx.valid`. -/
theorem ctrl_no_handshake_and_data_together (c : Cfg) (s : CycState) (i : CycIn)
    (hsd : i.sdAck = false) (hd : i.dValid = false) (hds : i.dStall = false) (ht : i.tValid = false)
    (hx : (i.isPing && i.isOut) = false) :
    (((step c s i).2.ack || (step c s i).2.stall) && (step c s i).2.txValid) = false := by
  obtain ⟨e1, e2⟩ := handler_excl c s.h (handlerIn i (ctrlComb c s.stage i)) hd hds ht
  exact bool_key i.sdAck _ _ _ _ _ hsd e1 e2 (status_ping_excl c s.stage i hx)

/-- Non-vacuity: the status stage of SET_ADDRESS — hypotheses hold, the endpoint answers the IN token's pulse with a
zero-length packet; and the unhandled-request STALL at the data stage's pulse. -/
example :
    let i : CycIn := { readyForResponse := true, isIn := true }
    let o := (step {} { stage := .statusIn, h := { hstate := .setAddress } } i).2
    ctlPulse {} i = true ∧ o.txValid = true ∧ o.txLast = true ∧ o.ack = false ∧ o.stall = false := by decide

example :
    let i : CycIn := { readyForResponse := true, isIn := true }
    let o := (step {} { stage := .dataIn, h := { hstate := .unhandled } } i).2
    ctlPulse {} i = true ∧ o.stall = true ∧ o.txValid = false := by decide

end LunaVerif.CtrlCyc
