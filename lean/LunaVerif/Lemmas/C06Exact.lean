import LunaVerif.Lemmas.C06Packet
/-!
# C06 — the packet-level specification of the SETUP decoder composition, and one packet exactly

`specStep` is the packet-level automaton: state = (`armed`, the deserializer's three CRC-comparison
registers); input = the bytes of one packet; output = the report it causes, if any.
`dsStrobes` is the exact characterisation of when the deserializer's `new_packet` fires.
`packet_exact`: from ANY packet boundary, ANY legal packet behaves exactly as `specStep` says, with
the cycle numbers of the report and of the one ACK.
-/
namespace LunaVerif.SetupDecoder
open LunaVerif.Utmi LunaVerif.DataCrc LunaVerif.Crc

/-! ## The packet-level specification -/

/-- What of the decoder composition's state matters at a packet boundary: whether a SETUP token of
ours is waiting for its data packet, and the deserializer's CRC comparison registers. -/
structure Abs where
  armed : Bool
  st    : Stale
deriving Repr, DecidableEq

def absOf (s : State) : Abs := ⟨armedB s, staleOf s⟩

/-- **When exactly the deserializer's `new_packet` fires**: for a data packet with the bytes `bs`
after its PID, iff at most 10 bytes came and the comparison registers — `captureRegs` of those
bytes, starting from whatever earlier data packets left — agree. -/
def dsStrobes (st : Stale) (bs : List Nat) : Bool :=
  decide (bs.length ≤ 10) &&
    ((captureRegs st [] (bs.take 10)).lwc == (captureRegs st [] (bs.take 10)).lw)

/-- effect of a non-data packet on `armed`: a token of ours sets it iff it is a SETUP, a token for
another device clears it, SOF and everything that is not a token leave it alone -/
def tokArmed (addr : Nat) (armed : Bool) (bytes : List Nat) : Bool :=
  match tokenOf bytes with
  | some (p4, d11) => if p4 = SOF_PID then armed else if d11 % 128 = addr then p4 == SETUP_PID else false
  | none => armed

/-- one packet (its bytes) at the packet level: new abstract state, and the report it causes -/
def specStep (addr : Nat) (a : Abs) (bytes : List Nat) : Abs × Option Event :=
  match bytes with
  | [] => (a, none)
  | b0 :: bs =>
    if isDataPid b0 then
      if dsStrobes a.st bs then
        (⟨false, captureRegs a.st [] (bs.take 10)⟩,
         if a.armed && bs.length == 10 then some (report (bs.take 8)) else none)
      else (⟨a.armed, captureRegs a.st [] (bs.take 10)⟩, none)
    else (⟨tokArmed addr a.armed (b0 :: bs), a.st⟩, none)

/-- index, within `render p`, of the cycle in which a deserializer strobe caused by `p` is seen -/
def strobeIndex (p : RxPacket) : Nat := p.lead.length + (renderSlots p.slots).length + 1

/-- the state in that cycle -/
def strobeState (c : Config) (s : State) (p : RxPacket) : State :=
  final c s (p.lead.map waitC ++ (renderSlots p.slots ++ (p.gap.take 1).map idleC))

/-- the cycle-indexed events a packet must cause: none, or the report in cycle `n` and one ACK —
in the same cycle if `imm`, else `delay + 1` cycles later -/
def expectT (c : Config) (imm : Bool) (n : Nat) : Option Event → List (Nat × Event)
  | none => []
  | some e => if imm then [(n, .ack), (n, e)] else [(n, e), (n + c.delay + 1, .ack)]

/-! ## Lemmas -/

theorem armed_tok (addr pid : Nat) (rd : Bool) (bytes : List Nat) :
    ((tokSpec addr pid bytes).1 == SETUP_PID && (rd || (tokSpec addr pid bytes).2))
      = tokArmed addr (pid == SETUP_PID && rd) bytes := by
  unfold tokSpec tokArmed
  cases tokenOf bytes with
  | none => simp
  | some x =>
    obtain ⟨p4, d11⟩ := x
    simp only
    split
    · simp
    · split
      · simp
      · simp [SETUP_PID]

theorem tokenOf_data (b0 : Nat) (bs : List Nat) (h : isDataPid b0 = true) : tokenOf (b0 :: bs) = none := by
  have := data_pid_not_token b0 h
  match bs with
  | [] => rfl
  | [_] => rfl
  | [_, _] => simp [tokenOf, this]
  | _ :: _ :: _ :: _ => rfl

theorem boundary_idle_abs (c : Config) (s : State) (g : Nat) (hs : Boundary s) :
    absOf (step c s (idleC g)).1 = absOf s := by
  have hp : (step c s (idleC g)).1.tok.pid = s.tok.pid := by simp [step, tokStep, hs.tok, idleC]
  have hn : (step c s (idleC g)).1.tok.newToken = false := by simp [step, tokStep, hs.tok, idleC]
  have hst := stale_ds_idle c s (idleC g) hs.ds
  simp only [absOf, hst, Abs.mk.injEq, and_true]
  simp only [armedB, hp, hn]
  have := hs.dec
  cases hf : s.dec.fsm <;> cases hn : s.tok.newToken <;> cases hq : (s.tok.pid == SETUP_PID) <;>
    simp_all [step, decStep, hs.noPkt]

theorem boundary_idles_abs (c : Config) (gs : List Nat) (s : State) (hs : Boundary s) (t : Nat) :
    Boundary (final c s (gs.map idleC)) ∧ absOf (final c s (gs.map idleC)) = absOf s ∧
    ttrace c s (gs.map idleC) t = [] := by
  refine ⟨(boundary_idles c gs s hs).2, ?_, ttrace_nil c s _ t (boundary_idles c gs s hs).1⟩
  induction gs generalizing s with
  | nil => rfl
  | cons g gs ih =>
    simp only [List.map_cons, final]
    rw [ih _ (boundary_idle c s g hs).1, boundary_idle_abs c s g hs]

theorem ds_lead_stale (c : Config) (d : Nat) (ds : List Nat) (s : State) (h : s.ds.fsm = .idle) :
    staleOf (final c s ((d :: ds).map waitC)) = staleOf s := by
  have h1 : (step c s (waitC d)).1.ds.fsm = .readPid := by simp [step, deserStep, h, waitC]
  have h2 := stale_ds_idle c s (waitC d) h
  simp only [List.map_cons, final]
  rw [← h2]
  generalize (step c s (waitC d)).1 = s1 at h1
  clear h2 h
  induction ds generalizing s1 with
  | nil => rfl
  | cons x xs ih =>
    simp only [List.map_cons, final]
    rw [ih _ (by simp [step, deserStep, h1, waitC]), stale_ds_readPid c s1 _ h1]

/-- a packet that does not start with a data PID: the deserializer never captures, its comparison
registers stay as they are -/
theorem ds_nondata_packet (c : Config) (d : Nat) (ds : List Nat) (slots : List (Nat × List Nat)) (s : State)
    (hs : s.ds.fsm = .idle) (hnd : ∀ b0 w0 rest, slots = (b0, w0) :: rest → isDataPid b0 = false) :
    (final c s ((d :: ds).map waitC ++ renderSlots slots)).ds.fsm ≠ .capture ∧
    staleOf (final c s ((d :: ds).map waitC ++ renderSlots slots)) = staleOf s := by
  rw [final_append]
  have h0 := ds_lead c d ds s hs
  have h1 := ds_lead_stale c d ds s hs
  rw [← h1]
  generalize final c s ((d :: ds).map waitC) = s0 at h0
  match slots, hnd with
  | [], _ => simp [renderSlots, final, h0]
  | (b0, w0) :: rest, hnd =>
    have hp := hnd b0 w0 rest rfl
    have a1 : (step c s0 (byteC b0)).1.ds.fsm = .irrelevant := by simp [step, deserStep, h0, byteC, hp]
    have a2 := stale_ds_readPid c s0 (byteC b0) h0
    have a3 := ds_irrelevant_run c (w0.map waitC ++ renderSlots rest) _ (slots_active w0 rest) a1
    have a4 := ds_irrelevant_stale c (w0.map waitC ++ renderSlots rest) _ (slots_active w0 rest) a1
    simp only [renderSlots, final]
    rw [a3, a4, a2]; simp

theorem pk_take (bs : List Nat) (k : Nat) (hk : k < 8) : pk (bs.take 8) k = pk bs k := by
  simp only [pk, List.getD_eq_getElem?_getD, List.getElem?_take, hk, if_true]

theorem report_take (bs : List Nat) : report (bs.take 8) = report bs := by
  simp [report, pk_take]

theorem stale_not_capture (c : Config) (s : State) (i : RxCycle) (h : s.ds.fsm ≠ .capture) :
    staleOf (step c s i).1 = staleOf s := by
  cases hf : s.ds.fsm with
  | idle => exact stale_ds_idle c s i hf
  | readPid => exact stale_ds_readPid c s i hf
  | irrelevant => exact stale_ds_irrelevant c s i hf
  | capture => exact absurd hf h

/-- end of the `rx_active` phase in CAPTURE_DATA: the strobe is the comparison of the registers as
they are; length and payload are handed over -/
theorem cap_end_general (c : Config) (s : State) (pre : List Nat) (g : Nat) (h : CapG s pre) :
    staleOf (step c s (idleC g)).1 = staleOf s ∧
    (step c s (idleC g)).1.ds.newPacket = ((staleOf s).lwc == (staleOf s).lw) ∧
    ((staleOf s).lwc = (staleOf s).lw →
      (step c s (idleC g)).1.ds.length = (pre.length + 14) % 16 ∧
      (step c s (idleC g)).1.ds.packet = s.ds.activePacket.take 8) := by
  by_cases he : s.ds.lastWordCrc = s.ds.lastWord
  · refine ⟨?_, ?_, fun _ => ⟨?_, ?_⟩⟩ <;> simp [step, deserStep, h.hfsm, idleC, staleOf, he, h.hpos]
  · refine ⟨?_, ?_, fun h' => absurd h' he⟩ <;> simp [step, deserStep, h.hfsm, idleC, staleOf, he]

/-- **One arbitrary packet from a packet boundary, exactly.**  Whatever the packet (its bytes, its
timing, the don't-care data of its byte-less cycles; at least 2 idle cycles after a packet that
starts with a data PID, and the handshake gap of `delay + 3` idle cycles after a packet that is
reported): afterwards the composition is at a packet
boundary again, its abstract state is what the packet-level `specStep` says, and the events it
caused — with their cycle numbers — are exactly: nothing, or (iff `specStep` reports) the report in
the cycle in which the deserializer strobe is seen together with exactly one ACK, in that same cycle
at high speed (or if the timer reads `delay` just then), and `delay + 1` cycles later otherwise. -/
theorem packet_exact (c : Config) (hc : c.delay ≤ c.counterMax + 1) (p : RxPacket) (s : State) (hs : Boundary s)
    (hw : p.wf) (hb : ∀ b ∈ p.bytes, b < 256)
    (hg2 : (∃ pid rest, p.bytes = pid :: rest ∧ isDataPid pid = true) → 2 ≤ p.gap.length)
    (hg3 : (specStep c.addr (absOf s) p.bytes).2 ≠ none → c.delay + 3 ≤ p.gap.length) (t : Nat) :
    Boundary (final c s (render p)) ∧
    absOf (final c s (render p)) = (specStep c.addr (absOf s) p.bytes).1 ∧
    ttrace c s (render p) t =
      expectT c ((strobeState c s p).counter == c.delay || c.hs) (t + strobeIndex p)
        (specStep c.addr (absOf s) p.bytes).2 ∧
    min (s.counter + strobeIndex p) (c.counterMax + 1) ≤ (strobeState c s p).counter := by
  obtain ⟨lead, slots, gap⟩ := p
  obtain ⟨hl, hgap⟩ := hw
  match lead, gap, hl, hgap with
  | d :: ds, g :: gs, _, _ =>
    obtain ⟨q1, harm, hp1, ev1, _, cnt1⟩ := lead_first c s d hs
    obtain ⟨tr2, q2, dec2, pid2, cnt2⟩ := quiet_active_run c _ _ (slots_active ds slots) q1
    have e1 : final c (step c s (waitC d)).1 (ds.map waitC ++ renderSlots slots)
        = final c s ((d :: ds).map waitC ++ renderSlots slots) := by simp [final]
    rw [e1] at q2 dec2 pid2 cnt2
    obtain ⟨tp1, tp2⟩ := tok_packet c s d g ds slots hs.tok
    have e2 : final c s ((d :: ds).map waitC ++ (renderSlots slots ++ [idleC g]))
        = (step c (final c s ((d :: ds).map waitC ++ renderSlots slots)) (idleC g)).1 := by
      rw [← List.append_assoc, final_append]; rfl
    rw [e2] at tp1 tp2
    have hlen2 := apLen_run c ((d :: ds).map waitC ++ renderSlots slots) s hs.apLen
    have hss : strobeState c s ⟨d :: ds, slots, g :: gs⟩
        = (step c (final c s ((d :: ds).map waitC ++ renderSlots slots)) (idleC g)).1 := by
      rw [← e2]; rfl
    have er : render ⟨d :: ds, slots, g :: gs⟩
        = waitC d :: ((ds.map waitC ++ renderSlots slots) ++ (idleC g :: gs.map idleC)) := by simp [render]
    have hidx : t + 1 + (ds.map waitC ++ renderSlots slots).length + 1
        = t + strobeIndex ⟨d :: ds, slots, g :: gs⟩ := by simp [strobeIndex]; omega
    obtain ⟨dec3, ev3, cnt3⟩ := quiet_step' c _ (idleC g) q2
    have tt : ttrace c s (render ⟨d :: ds, slots, g :: gs⟩) t
        = ttrace c (step c (final c s ((d :: ds).map waitC ++ renderSlots slots)) (idleC g)).1 (gs.map idleC)
            (t + strobeIndex ⟨d :: ds, slots, g :: gs⟩) := by
      rw [er, ← hidx]
      simp only [ttrace, ev1, List.map_nil, List.nil_append]
      rw [ttrace_append, ttrace_nil c _ _ _ tr2, e1]
      simp only [ttrace, ev3, List.map_nil, List.nil_append]
    have ef : final c s (render ⟨d :: ds, slots, g :: gs⟩)
        = final c (step c (final c s ((d :: ds).map waitC ++ renderSlots slots)) (idleC g)).1 (gs.map idleC) := by
      rw [er]; simp only [final, final_append, e1]
    obtain ⟨_, f2, f3, f4⟩ := first_idle c _ g q2.calm
    have hlen3 := apLen_step c _ (idleC g) hlen2
    have hcnt : min (s.counter + strobeIndex ⟨d :: ds, slots, g :: gs⟩) (c.counterMax + 1)
        ≤ (step c (final c s ((d :: ds).map waitC ++ renderSlots slots)) (idleC g)).1.counter := by
      have : strobeIndex ⟨d :: ds, slots, g :: gs⟩ = 1 + (ds.map waitC ++ renderSlots slots).length + 1 := by
        simp [strobeIndex]; omega
      rw [this]; omega
    rw [tt, ef, hss]
    apply (fun (h3 : _ ∧ _ ∧ _) => And.intro h3.1 (And.intro h3.2.1 (And.intro h3.2.2 hcnt)))
    clear hcnt cnt1 cnt2 cnt3
    simp only [RxPacket.bytes]
    simp only [RxPacket.bytes] at hb
    rw [dec2] at dec3
    rw [hp1] at harm pid2
    -- the decoder's and the detector's view of the state in the first idle cycle
    have harmed3 : ∀ S3 : State, S3.dec.fsm = (step c s (waitC d)).1.dec.fsm →
        (S3.tok.pid, S3.tok.newToken) = tokSpec c.addr s.tok.pid (slots.map (·.1)) →
        armedB S3 = tokArmed c.addr (armedB s) (slots.map (·.1)) := by
      intro S3 h1 h2
      have h3 : S3.tok.pid = (tokSpec c.addr s.tok.pid (slots.map (·.1))).1 := by rw [← h2]
      have h4 : S3.tok.newToken = (tokSpec c.addr s.tok.pid (slots.map (·.1))).2 := by rw [← h2]
      rw [armedB, h1, h3, h4, armed_tok, harm]
    have hND := ds_nondata_packet c d ds slots s hs.ds
    have hD : ∀ b0 w0 sl, slots = (b0, w0) :: sl → isDataPid b0 = true → (∀ x ∈ sl, x.1 < 256) →
        staleOf (final c s ((d :: ds).map waitC ++ renderSlots slots))
          = captureRegs (staleOf s) [] ((sl.map (·.1)).take 10) ∧
        (sl.length ≤ 10 → CapG (final c s ((d :: ds).map waitC ++ renderSlots slots)) (sl.map (·.1))) ∧
        (10 < sl.length → (final c s ((d :: ds).map waitC ++ renderSlots slots)).ds.fsm = .irrelevant) := by
      intro b0 w0 sl hsl hp hbsl
      subst hsl
      have := capture_general c b0 w0 sl (final c s ((d :: ds).map waitC)) (ds_lead c d ds s hs.ds)
        (apLen_run c _ s hs.apLen) hp hbsl
      rw [ds_lead_stale c d ds s hs.ds, ← final_append] at this
      exact this
    generalize final c s ((d :: ds).map waitC ++ renderSlots slots) = S2 at *
    generalize hS3 : (step c S2 (idleC g)).1 = S3 at *
    have harm3 := harmed3 S3 dec3 tp2
    by_cases hdata : ∃ b0 w0 rest, slots = (b0, w0) :: rest ∧ isDataPid b0 = true
    case neg =>
      have hnd : ∀ b0 w0 rest, slots = (b0, w0) :: rest → isDataPid b0 = false := by
        intro b0 w0 rest h
        cases hx : isDataPid b0 with
        | false => rfl
        | true => exact absurd ⟨b0, w0, rest, h, hx⟩ hdata
      obtain ⟨hnc, hst2⟩ := hND hnd
      have hst3 : staleOf S3 = staleOf s := by rw [← hS3, stale_not_capture c S2 _ hnc, hst2]
      have B3 : Boundary S3 := ⟨tp1, f2, f4 hnc, f3, hlen3⟩
      obtain ⟨b1, b2, b3⟩ := boundary_idles_abs c gs S3 B3 (t + strobeIndex ⟨d :: ds, slots, g :: gs⟩)
      have hspec : specStep c.addr (absOf s) (slots.map (·.1))
          = (⟨tokArmed c.addr (armedB s) (slots.map (·.1)), staleOf s⟩, none) := by
        match slots, hnd with
        | [], _ => simp [specStep, tokArmed, tokenOf, absOf]
        | (b0, w0) :: rest, hnd => simp [specStep, hnd b0 w0 rest rfl, absOf]
      refine ⟨b1, ?_, ?_⟩
      · rw [b2, hspec, absOf, harm3, hst3]
      · rw [b3, hspec]; rfl
    case pos =>
      obtain ⟨b0, w0, sl, rfl, hp⟩ := hdata
      have hbsl : ∀ x ∈ sl, x.1 < 256 := fun x hx => hb x.1 (by simp; right; exact ⟨x.2, hx⟩)
      obtain ⟨st2, cg, cirr⟩ := hD b0 w0 sl rfl hp hbsl
      -- the token detector sees no token
      have htk : tokSpec c.addr s.tok.pid (((b0, w0) :: sl).map (·.1)) = (s.tok.pid, false) := by
        simp [tokSpec, tokenOf_data b0 _ hp]
      have hta : tokArmed c.addr (armedB s) (((b0, w0) :: sl).map (·.1)) = armedB s := by
        simp [tokArmed, tokenOf_data b0 _ hp]
      rw [htk] at tp2
      rw [hta] at harm3
      have hpid3 : S3.tok.pid = s.tok.pid := congrArg Prod.fst tp2
      have hnt3 : S3.tok.newToken = false := congrArg Prod.snd tp2
      -- the deserializer's strobe
      have hds : staleOf S3 = captureRegs (staleOf s) [] ((sl.map (·.1)).take 10) ∧
          S3.ds.newPacket = dsStrobes (staleOf s) (sl.map (·.1)) ∧
          (S3.ds.newPacket = true → S3.ds.length = (sl.length + 14) % 16 ∧ sl.length ≤ 10 ∧
            S3.ds.packet = S2.ds.activePacket.take 8 ∧ CapG S2 (sl.map (·.1))) := by
        by_cases hfit : sl.length ≤ 10
        · have cgi := cg hfit
          obtain ⟨k1, k2, k3⟩ := cap_end_general c S2 _ g cgi
          rw [hS3] at k1 k2 k3
          rw [st2] at k1 k2 k3
          refine ⟨k1, ?_, ?_⟩
          · rw [k2]; simp [dsStrobes, hfit]
          · intro hnp
            rw [k2] at hnp
            have := k3 (by simpa using hnp)
            simp only [List.length_map] at this
            exact ⟨this.1, hfit, this.2, cgi⟩
        · have hirr := cirr (by omega)
          have hno : S3.ds.newPacket = false := f4 (by rw [hirr]; simp)
          refine ⟨by rw [← hS3, stale_not_capture c S2 _ (by rw [hirr]; simp), st2], ?_, ?_⟩
          · rw [hno]; simp [dsStrobes, hfit]
          · intro h; rw [hno] at h; exact absurd h (by simp)
      obtain ⟨hst3, hnp3, hpk3⟩ := hds
      simp only [List.map_cons, specStep, hp, if_true]
      cases hstr : dsStrobes (absOf s).st (sl.map (·.1)) with
      | false =>
        have hstr' : dsStrobes (staleOf s) (sl.map (·.1)) = false := hstr
        rw [hstr'] at hnp3
        have B3 : Boundary S3 := ⟨tp1, f2, hnp3, f3, hlen3⟩
        obtain ⟨b1, b2, b3⟩ := boundary_idles_abs c gs S3 B3 (t + strobeIndex ⟨d :: ds, (b0, w0) :: sl, g :: gs⟩)
        refine ⟨b1, ?_, ?_⟩
        · rw [b2]; simp [absOf, harm3, hst3]
        · rw [b3]; simp [expectT]
      | true =>
        have hstr' : dsStrobes (staleOf s) (sl.map (·.1)) = true := hstr
        rw [hstr'] at hnp3
        obtain ⟨len3, hfit, pk3, cgi⟩ := hpk3 hnp3
        have h8 : ((sl.length + 14) % 16 == 8) = (sl.length == 10) := by
          rw [Bool.eq_iff_iff]; simp; omega
        have hcondeq : (S3.dec.fsm == .readData && (S3.ds.length == 8 && S3.tok.pid == SETUP_PID))
            = (armedB s && sl.length == 10) := by
          rw [← harm, dec3, hpid3, len3, h8]
          cases (s.tok.pid == SETUP_PID) <;> cases ((step c s (waitC d)).1.dec.fsm == DecFsm.readData) <;>
            cases (sl.length == 10) <;> rfl
        have hlong3 : (armedB s && sl.length == 10) = true → c.delay + 3 ≤ (g :: gs).length := by
          intro h
          apply hg3
          have h' : armedB s = true ∧ sl.length = 10 := by simpa using h
          simp [RxPacket.bytes, specStep, hp, hstr', absOf, h'.1, h'.2]
        have hlong2 : 2 ≤ (g :: gs).length := hg2 ⟨b0, sl.map (·.1), by simp [RxPacket.bytes], hp⟩
        match gs, hlong2, hlong3 with
        | g2 :: gs3, _, hlong3 =>
          obtain ⟨u1, u2, u3, u4⟩ := strobe_tail c hc S3 g2 gs3 tp1 f2 hnp3 hnt3 f3 hlen3
            (by intro h; rw [hcondeq] at h; have := hlong3 h; simp at this; omega)
            (t + strobeIndex ⟨d :: ds, (b0, w0) :: sl, g :: g2 :: gs3⟩)
          simp only [List.map_cons]
          refine ⟨u1, ?_, ?_⟩
          · simp [absOf, u2, u3, hst3]
          · rw [u4]
            rw [hcondeq]
            cases hcond : (armedB s && sl.length == 10) with
            | false => simp [expectT, absOf, hcond]
            | true =>
              have h10 : sl.length = 10 := by simp at hcond; exact hcond.2
              have hrep : report S3.ds.packet = report ((sl.map (·.1)).take 8) := by
                rw [pk3]
                have := cgi.hbuf
                simp only [List.length_map, h10] at this
                rw [← this, List.take_take]; rfl
              simp [expectT, absOf, hcond, hrep]

end LunaVerif.SetupDecoder
