import LunaVerif.Props.C40
/-!
# C40 — the header phase: what the CRC units hold when CHECK_HEADER runs

`Props/C40.lean` starts at the data packet payload (`dpp_start_requires_header_crcs`: a payload is only
started when `crc16Of s.crc16In = dw3[0:16]` and `expCrc5 = dw3[27:32]`).  Here is the invariant over the
header states that gives those two comparisons their meaning: in every state reachable from reset, by
any word history whatsoever (valid or not, framed or not),

* in RECEIVE_DWn the CRC-16 unit has absorbed exactly the DWORDs latched so far, in CHECK_HEADER exactly
  DWORD 0, 1, 2 of the latched header, and `expected_crc5` is the CRC-5 of DWORD 3's link control word;
* the CRC-32 unit is empty from the header start until the first payload word;
* inside a payload the published header is a DATA header whose CRC-16 and CRC-5 are valid.

Consequences: `good`/`bad`/payload bytes only ever appear under a published header with valid CRCs
(`verdict_implies_header_crcs_valid`), and the `hfresh` hypothesis of `good_iff_crcs_valid` holds at
every payload start (`dpp_start_header_valid`).
-/
namespace LunaVerif.DataPacketReceiver

/-- DATA header with valid CRC-16 (over DWORD 0..2) and CRC-5 (over DWORD 3 bits 26:16). -/
def HdrOk (h : Hdr) : Prop :=
  h.dw0 % 32 = TYPE_DATA ∧ crc16Of [h.dw0, h.dw1, h.dw2] = h.dw3 % 2 ^ 16 ∧
  crc5Of (h.dw3 / 2 ^ 16 % 2 ^ 11) = h.dw3 / 2 ^ 27

instance (h : Hdr) : Decidable (HdrOk h) := by unfold HdrOk; infer_instance

/-- The header-phase invariant. -/
def HInv (s : State) : Prop :=
  match s.fsm with
  | .waitHp => True
  | .dw0 => s.crc16In = [] ∧ s.crc32In = []
  | .dw1 => s.crc16In = [s.hdr.dw0] ∧ s.crc32In = [] ∧ s.hdr.dw0 % 32 = TYPE_DATA
  | .dw2 => s.crc16In = [s.hdr.dw0, s.hdr.dw1] ∧ s.crc32In = [] ∧ s.hdr.dw0 % 32 = TYPE_DATA
  | .dw3 => s.crc16In = [s.hdr.dw0, s.hdr.dw1, s.hdr.dw2] ∧ s.crc32In = [] ∧ s.hdr.dw0 % 32 = TYPE_DATA
  | .checkHeader => s.crc16In = [s.hdr.dw0, s.hdr.dw1, s.hdr.dw2] ∧ s.crc32In = [] ∧
      s.hdr.dw0 % 32 = TYPE_DATA ∧ s.expCrc5 = crc5Of (s.hdr.dw3 / 2 ^ 16 % 2 ^ 11)
  | .payload => HdrOk s.outHdr ∧ (s.first = true → s.crc32In = [])
  | .checkCrc => HdrOk s.outHdr ∧ (s.first = true → s.crc32In = [])

theorem hinv_init : HInv init := by simp [HInv, init]

/-- The invariant is kept by every step, whatever the input word. -/
theorem hinv_step (s : State) (i : In) (h : HInv s) : HInv (step s i).1 := by
  obtain ⟨f, hd, e, r, pw, pv, c16, c32, oh, nh, fi⟩ := s
  obtain ⟨v, d, c⟩ := i
  cases f <;> cases v <;> simp only [HInv] at h <;> simp only [step]
  all_goals (repeat' split) <;> simp_all [HInv, HdrOk]

/-- **Invariant theorem**: it holds in every state reachable from reset. -/
theorem hinv_reachable (h : List In) : HInv (final init h) := by
  suffices ∀ s, HInv s → HInv (final s h) from this init hinv_init
  induction h with
  | nil => intro s hs; exact hs
  | cons i is ih => intro s hs; exact ih _ (hinv_step s i hs)

/-- When CHECK_HEADER runs (any reachable state): the CRC-16 unit holds exactly DWORD 0, 1, 2 of the
latched header, `expected_crc5` is the CRC-5 of DWORD 3's link control word, the CRC-32 unit is empty. -/
theorem check_header_units (h : List In) (hs : (final init h).fsm = .checkHeader) :
    let s := final init h
    s.crc16In = [s.hdr.dw0, s.hdr.dw1, s.hdr.dw2] ∧ s.expCrc5 = crc5Of (s.hdr.dw3 / 2 ^ 16 % 2 ^ 11) ∧
    s.crc32In = [] ∧ s.hdr.dw0 % 32 = TYPE_DATA := by
  have := hinv_reachable h
  simp only [HInv, hs] at this
  exact ⟨this.1, this.2.2.2, this.2.1, this.2.2.1⟩

/-- A payload is started (reachable state) only for a DATA header whose CRC-16 over its own DWORD 0..2
and CRC-5 over its own link control word are valid; that header is published, the byte counter is
loaded with its length field, and the CRC-32 unit is empty (`hfresh` of `good_iff_crcs_valid`). -/
theorem dpp_start_header_valid (h : List In) (i : In) (hst : startsDpp (final init h) i = true) :
    let s := final init h
    HdrOk s.hdr ∧ (step s i).1.outHdr = s.hdr ∧ (step s i).1.remaining = s.hdr.dw1 / 2 ^ 16 % 2 ^ 11 ∧
    (step s i).1.crc32In = [] := by
  obtain ⟨a1, a2, a3, _, _, _, a7, a8, a9⟩ := dpp_start_requires_header_crcs (final init h) i hst
  obtain ⟨b1, b2, b3, b4⟩ := check_header_units h a1
  refine ⟨⟨b4, ?_, ?_⟩, a7, a8, ?_⟩
  · rw [← b1]; exact a3
  · rw [← b2]; exact a2
  · rw [a9]; exact b3

/-- one step: a verdict or a payload byte is only produced inside a payload -/
theorem activity_in_dpp (s : State) (i : In)
    (h : (step s i).2.good = true ∨ (step s i).2.bad = true ∨ (step s i).2.srcValid ≠ 0) :
    inDpp s = true ∧ (step s i).2.hdr = s.outHdr := by
  obtain ⟨f, hd, e, r, pw, pv, c16, c32, oh, nh, fi⟩ := s
  obtain ⟨v, d, c⟩ := i
  cases f <;> cases v <;> simp [step, quiet, inDpp] at h ⊢
  all_goals (repeat' split at h) <;> simp_all

/-- **C40 (b), header part, by theorem.**  In every run from reset, whatever the word history: whenever
`packet_good` or `packet_bad` is raised, or payload bytes are delivered, the published header
(`header`, in the same cycle) is a DATA header with valid CRC-16 and CRC-5.  Together with
`good_iff_crcs_valid` (good ⇔ the CRC-32 field is right): `good` ⇒ all three CRCs are valid; and a
header with an invalid CRC never gets a verdict or a payload byte. -/
theorem verdict_implies_header_crcs_valid (h : List In) :
    ∀ o ∈ run init h, (o.good = true ∨ o.bad = true ∨ o.srcValid ≠ 0) → HdrOk o.hdr := by
  suffices ∀ s, HInv s → ∀ o ∈ run s h, (o.good = true ∨ o.bad = true ∨ o.srcValid ≠ 0) → HdrOk o.hdr from
    this init hinv_init
  induction h with
  | nil => intro s _ o ho; simp [run] at ho
  | cons i is ih =>
    intro s hs o ho hact
    simp only [run, List.mem_cons] at ho
    rcases ho with ho | ho
    · subst ho
      obtain ⟨hin, hh⟩ := activity_in_dpp s i hact
      rw [hh]
      simp only [inDpp, Bool.or_eq_true, beq_iff_eq] at hin
      rcases hin with hf | hf <;> simp only [HInv, hf] at hs <;> exact hs.1
    · exact ih _ (hinv_step s i hs) o ho hact

/-- where a payload start leads: RECEIVE_PAYLOAD for a non-zero length field, CHECK_CRC32 for zero -/
theorem startsDpp_next (s : State) (i : In) (h : startsDpp s i = true) :
    (step s i).1.fsm = (if s.hdr.dw1 / 2 ^ 16 % 2 ^ 11 = 0 then .checkCrc else .payload) := by
  obtain ⟨f, hd, e, r, pw, pv, c16, c32, oh, nh, fi⟩ := s
  obtain ⟨v, d, c⟩ := i
  cases f <;> cases v <;> simp [step, quiet, inDpp, startsDpp] at h ⊢
  all_goals (repeat' split at h) <;> simp_all

/-- **C40 (b) from reset.**  Whatever happened before (any word history `pre` from reset): if the next
word starts a data packet payload, then the header just received is a DATA header with valid CRC-16 and
CRC-5 (over its own words), it is the published header, and — for a non-zero length field `r` — any
continuation whose valid words are the ⌈r/4⌉ payload words and the CRC word yields exactly one first
verdict: good iff the field after the `r` payload bytes is the CRC-32 of exactly those bytes, after
delivering exactly those bytes.  No hypothesis on the CRC units is left: their contents are the
invariant `hinv_reachable`. -/
theorem good_iff_crcs_valid_from_reset (pre : List In) (i : In) (hst : startsDpp (final init pre) i = true)
    (ws : List Nat) (crcw cc : Nat) (hw : ∀ w ∈ ws, w < 2 ^ 32)
    (hr : 1 ≤ (final init pre).hdr.dw1 / 2 ^ 16 % 2 ^ 11)
    (hn : ws.length = ((final init pre).hdr.dw1 / 2 ^ 16 % 2 ^ 11 + 3) / 4) (h : List In)
    (hh : validOnly h = payloadIns ws ++ [⟨true, crcw, cc⟩]) :
    let s0 := final init pre
    let s := (step s0 i).1
    let payload := (ws.flatMap wordBytes).take (s0.hdr.dw1 / 2 ^ 16 % 2 ^ 11)
    let st := final s (payloadIns ws)
    HdrOk s0.hdr ∧ s.outHdr = s0.hdr ∧
    firstVerdict s h [] =
      some (dataToCheck st.prevValid st.prevWord (crcw % 2 ^ 32) == crc32Of payload, payload) := by
  obtain ⟨a1, a2, a3, a4⟩ := dpp_start_header_valid pre i hst
  have hf := startsDpp_next (final init pre) i hst
  have hne : ¬ ((final init pre).hdr.dw1 / 2 ^ 16 % 2 ^ 11 = 0) := by omega
  rw [if_neg hne] at hf
  have := good_iff_crcs_valid ws crcw cc (step (final init pre) i).1 hf a4 hw (by rw [a3]; exact hr)
    (by rw [a3]; exact hn) h hh
  rw [a3] at this
  exact ⟨a1, a2, this⟩

/-- a zero-length payload start arms the CRC check for a whole CRC word -/
theorem startsDpp_zero_length (s : State) (i : In) (h : startsDpp s i = true)
    (hz : s.hdr.dw1 / 2 ^ 16 % 2 ^ 11 = 0) : (step s i).1.prevValid = 15 := by
  obtain ⟨f, hd, e, r, pw, pv, c16, c32, oh, nh, fi⟩ := s
  obtain ⟨v, d, c⟩ := i
  cases f <;> cases v <;> simp [step, quiet, inDpp, startsDpp] at h hz ⊢
  all_goals (repeat' split at h) <;> simp_all

/-- **C40 (b) from reset, zero-length payload** (F17 repaired): after any history from reset, a payload
start with length field 0 is followed — whatever invalid words come in between — by exactly one
verdict on the next valid word: good iff that word is the CRC-32 of the empty payload; no byte is
delivered. -/
theorem good_iff_crc_valid_zero_length_from_reset (pre : List In) (i : In)
    (hst : startsDpp (final init pre) i = true) (hz : (final init pre).hdr.dw1 / 2 ^ 16 % 2 ^ 11 = 0)
    (crcw cc : Nat) (h : List In) (hh : validOnly h = [⟨true, crcw, cc⟩]) :
    HdrOk (final init pre).hdr ∧
    firstVerdict (step (final init pre) i).1 h [] = some (crcw % 2 ^ 32 == crc32Of [], []) := by
  obtain ⟨a1, _, _, a4⟩ := dpp_start_header_valid pre i hst
  have hf := startsDpp_next (final init pre) i hst
  rw [if_pos hz] at hf
  have hpv := startsDpp_zero_length (final init pre) i hst hz
  refine ⟨a1, ?_⟩
  have hin : inDpp (step (final init pre) i).1 = true := by simp [inDpp, hf]
  rw [independent_of_invalid_words _ hin h [], hh]
  generalize (step (final init pre) i).1 = s at hf hpv a4
  obtain ⟨f, hd, e, r, pw, pv, c16, c32, oh, nh, fi⟩ := s
  simp only at hf hpv a4
  subst hf hpv a4
  cases hc : (crcw % 2 ^ 32 == crc32Of []) <;>
    simp [firstVerdict, step, quiet, laneBytes, dataToCheck, hc, wordBytes]

-- non-vacuity: a DATA header (type 8, length 0, all other fields 0) with its CRCs is `HdrOk`; one with a
-- flipped CRC-16 bit is not
example : HdrOk ⟨8, 0, 0, crc16Of [8, 0, 0] + 2 ^ 27 * crc5Of 0⟩ := by decide +kernel
example : ¬ HdrOk ⟨8, 0, 0, (crc16Of [8, 0, 0] + 2 ^ 27 * crc5Of 0) ^^^ 1⟩ := by decide +kernel

end LunaVerif.DataPacketReceiver
