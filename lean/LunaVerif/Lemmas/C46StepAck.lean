import LunaVerif.Lemmas.C46StepSend
/-!
# C46 — the invariant is preserved in WAIT_FOR_ACK
(last word pending / taken = the host receives the packet; retry of a data packet or a ZLP; accepting ACK with
the follow-up ZLP, with a buffer swap, or back to WAIT_FOR_DATA)
-/
namespace LunaVerif.SSStreamIn

theorem seq_succ_ne (n : Nat) (_h : n < 32) : (n + 1) % 32 ≠ n := by omega

@[simp] theorem receive_inPkt (g : Ghost) (d : Bool) (q : Nat) (b : List Nat) :
    (receive g d q b).inPkt = g.inPkt := by unfold receive; split <;> rfl
@[simp] theorem receive_curSeq (g : Ghost) (d : Bool) (q : Nat) (b : List Nat) :
    (receive g d q b).curSeq = g.curSeq := by unfold receive; split <;> rfl
@[simp] theorem receive_curBytes (g : Ghost) (d : Bool) (q : Nat) (b : List Nat) :
    (receive g d q b).curBytes = g.curBytes := by unfold receive; split <;> rfl
@[simp] theorem receive_prod (g : Ghost) (d : Bool) (q : Nat) (b : List Nat) :
    (receive g d q b).prod = g.prod := by unfold receive; split <;> rfl

@[simp] theorem receive_deliv_nil (g : Ghost) (d : Bool) (q : Nat) :
    (receive g d q []).deliv = g.deliv := by unfold receive; split <;> simp

/-- a packet carrying the device's current number `s` and the read buffer's bytes `R`: whether the host
accepts it or not, "delivered ++ (R unless already delivered) ++ rest" is unchanged -/
theorem receive_data (g : Ghost) (d : Bool) (s : Nat) (hs : s < 32) (R W P : List Nat)
    (h : g.deliv ++ ((if g.hseq = s then R else []) ++ W) = P) :
    (receive g d s R).deliv ++ ((if (receive g d s R).hseq = s then R else []) ++ W) = P := by
  unfold receive
  by_cases hq : s = g.hseq
  · cases d
    · have : (g.hseq + 1) % 32 ≠ g.hseq := by omega
      subst hq
      simp_all
    · simpa using h
  · have : ¬ (s == g.hseq) = true := by simpa using hq
    simpa [this] using h

theorem receive_hs (g : Ghost) (d : Bool) (s : Nat) (b : List Nat)
    (h : g.hseq = s ∨ g.hseq = (s + 1) % 32) :
    (receive g d s b).hseq = s ∨ (receive g d s b).hseq = (s + 1) % 32 := by
  unfold receive
  split
  · rename_i hc
    simp only [Bool.and_eq_true, beq_iff_eq] at hc
    right; simp [← hc.2]
  · exact h

/-- WAIT_FOR_ACK without a transaction packet for this endpoint -/
theorem step_waitAck_quiet (c : Config) (v : View) (g : Ghost) (i : In) (d : Bool) (hc : CfgOK c)
    (hI : Inv c v g) (he : EnvOK c g i (vout c v i)) (hf : v.fsm = .waitAck)
    (hack : (i.ack && i.hsEp == c.ep) = false) :
    Inv c (vnext c v i) (gnext i (vout c v i) d g) := by
  obtain ⟨hr, hp, hh⟩ := he
  obtain ⟨wl, wle, wal, wend, wen1, wdat⟩ := write_side c v i hc hI.lenW hI.fillW_le hI.fillW_al hI.endW hp
  change _ = _ ++ wbytes c v i at wdat
  obtain ⟨seqlt, lenW, lenR, fillW_le, fillW_al, endW, fillR_le, wd, idle, snd, wa, hs, cur0, curq, hdat⟩ := hI
  obtain ⟨hlz, hnlz, hv1⟩ := wa hf
  obtain ⟨hm4, hm8, haw⟩ := hc
  clear idle snd wa wd
  have hk : vcontrol c v i = { fsm := .waitAck, clrTx := true, raddr := 0 } := by
    simp [vcontrol, hf, hack]
  rw [gnext, gProd_vout]
  by_cases htv : v.txValid = 0
  · obtain ⟨hip, hcb⟩ := cur0 htv
    constructor <;> simp only [vnext, vout, hk, gZlp, gTx] <;> simp [*]
    case fillW_al => exact wal
    case endW => exact wend
    case wa => exact ⟨fun h => (hlz h).1, hnlz⟩
    case data => rw [← hdat]; simp
  · obtain ⟨hlast, hmask, htd, hcb⟩ := hv1 htv
    have hq : (if g.inPkt = true then g.curSeq else v.seq) = v.seq := by
      cases hi : g.inPkt
      · simp
      · simp [curq hi]
    have hlf : v.lpz = false := by
      cases h : v.lpz
      · rfl
      · exact absurd (hlz h).2 htv
    have hf1 := hnlz hlf
    have hemit := emitted_eq_bufBytes v.memR v.fillR hf1 (by omega)
    simp only [List.getD_eq_getElem?_getD] at hemit
    have hne := seq_succ_ne v.seq seqlt
    cases hrdy : i.txReady
    · constructor <;> simp only [vnext, vout, hk, gZlp, gTx] <;> simp [lastMask_ne_zero, *]
      case fillW_al => exact wal
      case endW => exact wend
      case data => rw [← hdat]; simp
    · constructor <;> simp only [vnext, vout, hk, gZlp, gTx] <;> simp [lastMask_ne_zero, *]
      case fillW_al => exact wal
      case endW => exact wend
      case hs => exact receive_hs _ _ _ _ hs
      case data =>
        refine receive_data _ _ _ seqlt _ _ _ ?_
        rw [← hdat]; simp

/-- WAIT_FOR_ACK, the host asks for the packet again (Retry bit, or it still expects the same number) -/
theorem step_waitAck_retry (c : Config) (v : View) (g : Ghost) (i : In) (d : Bool) (hc : CfgOK c)
    (hI : Inv c v g) (he : EnvOK c g i (vout c v i)) (hf : v.fsm = .waitAck)
    (hack : (i.ack && i.hsEp == c.ep) = true)
    (hre : (i.retry || !(i.nextSeq == (v.seq + 1) % 32)) = true) :
    Inv c (vnext c v i) (gnext i (vout c v i) d g) := by
  obtain ⟨hr, hp, hh⟩ := he
  obtain ⟨wl, wle, wal, wend, wen1, wdat⟩ := write_side c v i hc hI.lenW hI.fillW_le hI.fillW_al hI.endW hp
  change _ = _ ++ wbytes c v i at wdat
  obtain ⟨seqlt, lenW, lenR, fillW_le, fillW_al, endW, fillR_le, wd, idle, snd, wa, hs, cur0, curq, hdat⟩ := hI
  obtain ⟨hlz, hnlz, hv1⟩ := wa hf
  obtain ⟨hm4, hm8, haw⟩ := hc
  clear idle snd wa wd
  have hack' : i.ack = true ∧ i.hsEp = c.ep := by simpa using hack
  obtain ⟨htv, hns⟩ := hh hack'.1 hack'.2
  change v.txValid = 0 at htv
  obtain ⟨hip, hcb⟩ := cur0 htv
  rw [gnext_txidle _ _ _ _ htv, gProd_vout]
  cases hl : v.lpz
  · have hk : vcontrol c v i = { fsm := .send, clrTx := true, raddr := 0 } := by
      simp [vcontrol, hf, hack, hre, hl]
    have hf1 := hnlz hl
    constructor <;> simp only [vnext, vout, hk, gZlp] <;> simp [*]
    case fillW_al => exact wal
    case endW => exact wend
    case snd => exact ⟨by omega, by simp [memRead]⟩
    case data => rw [← hdat]; simp
  · have hk : vcontrol c v i = { fsm := .waitAck, txZlp := true, clrTx := true, raddr := 0 } := by
      simp [vcontrol, hf, hack, hre, hl]
    have hfr := (hlz hl).1
    simp only [hfr, bufBytes_zero, ite_self, List.append_nil] at hdat
    constructor <;> simp only [vnext, vout, hk, gZlp] <;> simp [*]
    case fillW_al => exact wal
    case endW => exact wend
    case hs => exact receive_hs _ _ _ _ hs
    case data => rw [← hdat]; simp

/-- when WAIT_FOR_ACK swaps the buffers, the new read buffer is not empty and its word 0 is not the word
being written in this very cycle (needs max_packet_size ≥ 8) -/
theorem flip_facts (c : Config) (v : View) (i : In) (hm8 : 8 ≤ c.mps)
    (endW : v.endedW = true → 1 ≤ v.fillW) (wen1 : wen c v i = true → 1 ≤ wFill c v i)
    (hfl : (!vinReady c v || (i.sValid % 2 == 1 && decide (v.fillW + 4 ≥ c.mps))) = true) :
    1 ≤ wFill c v i ∧ (wMem c v i)[0]? = v.memW[0]? := by
  cases hrd : vinReady c v
  · have hw : wen c v i = false := by simp [wen, hrd]
    refine ⟨?_, by simp [wMem, hw]⟩
    simp only [wFill, hw, Bool.false_eq_true, if_false]
    simp only [vinReady, Bool.and_eq_false_iff, decide_eq_false_iff_not, Bool.not_eq_false'] at hrd
    rcases hrd with h | h
    · omega
    · exact endW h
  · simp only [hrd, Bool.not_true, Bool.false_or, Bool.and_eq_true, beq_iff_eq, decide_eq_true_eq] at hfl
    have hw : wen c v i = true := by
      have : i.sValid ≠ 0 := by omega
      simp [wen, hrd, this]
    refine ⟨wen1 hw, ?_⟩
    simp only [wMem, hw, if_true]
    exact List.getElem?_set_ne (by omega)

/-- WAIT_FOR_ACK, the host acknowledges the packet (it expects the next number) -/
theorem step_waitAck_accept (c : Config) (v : View) (g : Ghost) (i : In) (d : Bool) (hc : CfgOK c)
    (hI : Inv c v g) (he : EnvOK c g i (vout c v i)) (hf : v.fsm = .waitAck)
    (hack : (i.ack && i.hsEp == c.ep) = true)
    (hre : (i.retry || !(i.nextSeq == (v.seq + 1) % 32)) = false) :
    Inv c (vnext c v i) (gnext i (vout c v i) d g) := by
  obtain ⟨hr, hp, hh⟩ := he
  obtain ⟨wl, wle, wal, wend, wen1, wdat⟩ := write_side c v i hc hI.lenW hI.fillW_le hI.fillW_al hI.endW hp
  change _ = _ ++ wbytes c v i at wdat
  obtain ⟨seqlt, lenW, lenR, fillW_le, fillW_al, endW, fillR_le, wd, idle, snd, wa, hs, cur0, curq, hdat⟩ := hI
  obtain ⟨hlz, hnlz, hv1⟩ := wa hf
  obtain ⟨hm4, hm8, haw⟩ := hc
  clear idle snd wa wd
  have hack' : i.ack = true ∧ i.hsEp = c.ep := by simpa using hack
  obtain ⟨htv, hns⟩ := hh hack'.1 hack'.2
  change v.txValid = 0 at htv
  obtain ⟨hip, hcb⟩ := cur0 htv
  have hre' : i.retry = false ∧ i.nextSeq = (v.seq + 1) % 32 := by simpa using hre
  have hhs : g.hseq = (v.seq + 1) % 32 := by rw [← hns]; exact hre'.2
  have hne := seq_succ_ne v.seq seqlt
  simp only [hhs, hne, if_false, List.append_nil] at hdat
  rw [gnext_txidle _ _ _ _ htv, gProd_vout]
  clear hs
  cases hfu : (v.fillR == c.mps && v.endedR)
  · cases hfl : (!vinReady c v || (i.sValid % 2 == 1 && decide (v.fillW + 4 ≥ c.mps)))
    · -- nothing complete: back to WAIT_FOR_DATA
      have hk : vcontrol c v i =
          { fsm := .waitData, clrFillR := true, advance := true, nrdy := i.nump != 0,
            setErdy := i.nump != 0, clrTx := true, raddr := 0 } := by
        simp [vcontrol, hf, hack, hre, hfu, hfl]
      constructor <;> simp only [vnext, vout, hk, gZlp] <;> simp [*]
      case seqlt => omega
      case fillW_al => exact wal
      case endW => exact wend
      case data => rw [← hdat]; simp
    · -- the write buffer is complete: swap
      have hk : vcontrol c v i =
          { fsm := if i.nump != 0 then .send else .waitSend, clrFillR := true,
            advance := true, flip := true, clrEndR := true, lpz := if i.nump != 0 then some false else none,
            clrTx := true, raddr := 0 } := by
        simp [vcontrol, hf, hack, hre, hfu, hfl]
      obtain ⟨hw1, hm0⟩ := flip_facts c v i hm8 endW wen1 hfl
      cases hin : (i.nump != 0) <;> simp only [hin, Bool.false_eq_true, if_false, if_true] at hk
      · constructor <;> simp only [vnext, vout, hk, gZlp] <;> simp [*]
        case seqlt => omega
        case data => rw [← hdat]; simp
      · constructor <;> simp only [vnext, vout, hk, gZlp] <;> simp [*]
        case seqlt => omega
        case snd => exact ⟨by omega, by simp [memRead]⟩
        case data => rw [← hdat]; simp
  · cases hin : (i.nump != 0)
    · have hk : vcontrol c v i =
          { fsm := .waitSend, clrFillR := true, advance := true, clrTx := true, raddr := 0 } := by
        simp [vcontrol, hf, hack, hre, hfu, hin]
      constructor <;> simp only [vnext, vout, hk, gZlp] <;> simp [*]
      case seqlt => omega
      case fillW_al => exact wal
      case endW => exact wend
      case data => rw [← hdat]; simp
    · have hk : vcontrol c v i =
          { fsm := .waitAck, clrFillR := true, txZlp := true, advance := true,
            clrEndR := true, lpz := some true, clrTx := true, raddr := 0 } := by
        simp [vcontrol, hf, hack, hre, hfu, hin]
      constructor <;> simp only [vnext, vout, hk, gZlp] <;> simp [*]
      case seqlt => omega
      case fillW_al => exact wal
      case endW => exact wend
      case data => rw [← hdat]; simp
      case hs =>
        refine (receive_hs _ _ _ _ (Or.inl rfl)).elim (fun h => Or.inl h) (fun h => Or.inr ?_)
        rw [h]; dsimp only; omega

end LunaVerif.SSStreamIn
