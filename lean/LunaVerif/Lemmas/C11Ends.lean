import LunaVerif.Lemmas.C11Refine
/-!
# C11 — transfer boundaries: every transfer ends with a short packet or a zero-length packet
-/
namespace LunaVerif.InXfer

/-! ## The boundary checker under extension of the producer's log -/

def addRem (e : EndSt) (m : List Bool) : EndSt := { e with rem := e.rem ++ m }

theorem endStep_ok_imp (mps : Nat) (e : EndSt) (p : List Nat) (h : (endStep mps e p).ok = true) :
    e.ok = true ∧ p.length ≤ e.rem.length := by
  simp [endStep] at h
  exact ⟨h.1.1.1.1, h.1.1.1.2⟩

theorem endStep_addRem (mps : Nat) (e : EndSt) (p : List Nat) (m : List Bool)
    (h : (endStep mps e p).ok = true) :
    endStep mps (addRem e m) p = addRem (endStep mps e p) m := by
  obtain ⟨-, hle⟩ := endStep_ok_imp mps e p h
  simp only [endStep, addRem, List.take_append_of_le_length hle, List.drop_append_of_le_length hle,
    List.length_append]
  have : decide (p.length ≤ e.rem.length + m.length) = decide (p.length ≤ e.rem.length) := by
    simp [hle]; omega
  rw [this]

theorem foldl_ok_mono (mps : Nat) (pkts : List (List Nat)) (e : EndSt)
    (h : (pkts.foldl (endStep mps) e).ok = true) : e.ok = true := by
  induction pkts generalizing e with
  | nil => exact h
  | cons p ps ih => exact (endStep_ok_imp mps e p (ih _ h)).1

theorem foldl_addRem (mps : Nat) (pkts : List (List Nat)) (e : EndSt) (m : List Bool)
    (h : (pkts.foldl (endStep mps) e).ok = true) :
    pkts.foldl (endStep mps) (addRem e m) = addRem (pkts.foldl (endStep mps) e) m := by
  induction pkts generalizing e with
  | nil => rfl
  | cons p ps ih =>
    simp only [List.foldl_cons] at h ⊢
    rw [endStep_addRem mps e p m (foldl_ok_mono mps ps _ h)]
    exact ih _ h

theorem endFold_glue (mps : Nat) (marks m : List Bool) (pkts P : List (List Nat))
    (h : (P.foldl (endStep mps) (endFold mps marks pkts)).ok = true) :
    endFold mps (marks ++ m) (pkts ++ P) = addRem (P.foldl (endStep mps) (endFold mps marks pkts)) m := by
  unfold endFold at h ⊢
  rw [← List.foldl_append] at h ⊢
  exact foldl_addRem mps (pkts ++ P) ⟨marks, false, true⟩ m h

/-! ## The bookkeeping invariant, on the quantities it depends on -/

/-- `last` marks of the bytes of a buffer with `fill` bytes whose `stream_ended` flag is `ended`. -/
def bufMarks (fill : Nat) (ended : Bool) : List Bool :=
  if fill = 0 then [] else List.replicate (fill - 1) false ++ [ended]

theorem bufMarks_false (n : Nat) : bufMarks n false = List.replicate n false := by
  unfold bufMarks
  split
  · simp [*]
  · have : n = (n - 1) + 1 := by omega
    conv => rhs; rw [this, List.replicate_succ']

theorem bufMarks_length (n : Nat) (e : Bool) : (bufMarks n e).length = n := by
  unfold bufMarks; split <;> simp <;> omega

structure KP (mps : Nat) (hp pid : Bool) (rf : Nat) (re : Bool) (wf : Nat) (we : Bool) (E : EndSt) :
    Prop where
  ok   : E.ok = true
  rem  : E.rem = (if hp = pid then [] else bufMarks rf re) ++ bufMarks wf we
  owed : E.owed = (if hp = pid then rf == mps && re else rf == 0)
  wpos : we = true → 1 ≤ wf

/-- the producer hands over a byte -/
theorem KP.prod {mps hp pid rf re wf E} (l : Bool) (h : KP mps hp pid rf re wf false E) :
    KP mps hp pid rf re (wf + 1) l (addRem E [l]) := by
  refine ⟨h.ok, ?_, h.owed, fun _ => by omega⟩
  simp only [addRem, h.rem, bufMarks_false, List.append_assoc]
  simp [bufMarks]

/-- the buffers are swapped (no ZLP is due) -/
theorem KP.swap {mps hp pid rf re wf we E} (h : KP mps hp pid rf re wf we E) (hhp : hp = pid)
    (hnf : (rf == mps && re) = false) (hpos : 1 ≤ wf) : KP mps hp (!pid) wf we 0 false E := by
  have hne : ¬ hp = !pid := by rw [hhp]; cases pid <;> simp
  refine ⟨h.ok, ?_, ?_, fun h => by simp at h⟩
  · simp [h.rem, hhp, bufMarks]
  · rw [h.owed, if_pos hhp, if_neg hne, hnf]
    have : (wf == 0) = false := by simp; omega
    rw [this]

/-- an ACKed max-size packet that ended the transfer: the follow-up ZLP is staged -/
theorem KP.follow {mps hp pid rf re wf we E} (h : KP mps hp pid rf re wf we E) (hhp : hp = pid)
    (hf : (rf == mps && re) = true) : KP mps hp (!pid) 0 re wf we E := by
  have hne : ¬ hp = !pid := by rw [hhp]; cases pid <;> simp
  refine ⟨h.ok, ?_, ?_, h.wpos⟩
  · simp [h.rem, hhp, bufMarks]
  · rw [h.owed, if_pos hhp, if_neg hne, hf]; rfl

/-- an ACKed packet is cleared from the read buffer (no ZLP is due) -/
theorem KP.clear {mps hp pid rf re wf we E} (hm : 1 ≤ mps) (h : KP mps hp pid rf re wf we E)
    (hhp : hp = pid) (hnf : (rf == mps && re) = false) : KP mps hp pid 0 re wf we E := by
  refine ⟨h.ok, ?_, ?_, h.wpos⟩
  · simp [h.rem, hhp]
  · rw [h.owed, if_pos hhp, if_pos hhp, hnf]
    have : (0 == mps) = false := by simp; omega
    rw [this]; rfl

/-- the host keeps the staged (non-empty) packet -/
theorem KP.keep {mps hp pid rf re wf we E} (p : List Nat) (h : KP mps hp pid rf re wf we E)
    (hhp : ¬ hp = pid) (h1 : 1 ≤ rf) (h2 : rf ≤ mps) (hp : p.length = rf) :
    KP mps pid pid rf re wf we (endStep mps E p) := by
  have hrem := h.rem
  rw [if_neg hhp] at hrem
  have hlen := bufMarks_length rf re
  have htake : E.rem.take rf = bufMarks rf re := by
    rw [hrem, List.take_append_of_le_length (by omega), List.take_of_length_le (by omega)]
  have hdrop : E.rem.drop rf = bufMarks wf we := by
    rw [hrem, List.drop_append_of_le_length (by omega), List.drop_of_length_le (by omega)]
    rfl
  have hbm : bufMarks rf re = List.replicate (rf - 1) false ++ [re] := by
    unfold bufMarks; rw [if_neg (by omega)]
  have hne : p.isEmpty = false := by
    cases p with
    | nil => simp at hp; omega
    | cons _ _ => rfl
  refine ⟨?_, ?_, ?_, h.wpos⟩
  · have ho := h.owed
    rw [if_neg hhp] at ho
    have h0 : (rf == 0) = false := by simp; omega
    simp only [endStep, hp, htake, h.ok, ho, h0, hne, hbm, List.dropLast_concat]
    have : rf ≤ E.rem.length := by rw [hrem]; simp [hlen]
    simp [this, h2]
  · simp [endStep, hp, hdrop]
  · simp [endStep, hp, htake, hbm]

/-- the host keeps the follow-up ZLP -/
theorem KP.keepZlp {mps hp pid re wf we E} (hm : 1 ≤ mps) (h : KP mps hp pid 0 re wf we E)
    (hhp : ¬ hp = pid) : KP mps pid pid 0 false wf we (endStep mps E []) := by
  have ho := h.owed
  rw [if_neg hhp] at ho
  have hrem := h.rem
  rw [if_neg hhp] at hrem
  have h0 : (0 == mps) = false := by simp; omega
  refine ⟨?_, ?_, ?_, h.wpos⟩
  · simp [endStep, h.ok, ho]
  · simpa [endStep, bufMarks] using hrem
  · simp [endStep, h0]

/-- a ZLP the host does not keep only clears the `stream_ended` flag of the empty read buffer -/
theorem KP.dupZlp {mps hp pid re wf we E} (hm : 1 ≤ mps) (h : KP mps hp pid 0 re wf we E)
    (hhp : hp = pid) : KP mps hp pid 0 false wf we E := by
  have h0 : (0 == mps) = false := by simp; omega
  refine ⟨h.ok, ?_, ?_, h.wpos⟩
  · simpa [hhp] using h.rem
  · rw [h.owed, if_pos hhp, if_pos hhp, h0]; rfl


/-! ## The bookkeeping invariant on the model state and the observer -/

def K (c : Config) (s : State) (g : Obs) : Prop :=
  KP c.mps g.hostPid s.pid s.r.fill s.r.ended s.w.fill s.w.ended
    (endFold c.mps (g.prod.map (·.2)) g.pkts)

theorem K_init (c : Config) : K c (init c) obsInit := by
  refine ⟨rfl, ?_, ?_, ?_⟩ <;> simp [init, obsInit, emptyBuf, endFold, bufMarks]

theorem addRem_nil (e : EndSt) : addRem e [] = e := by simp [addRem]

theorem addRem_ok (e : EndSt) (m : List Bool) : (addRem e m).ok = e.ok := rfl

/-- Assemble `K` for the next state from the packets `P` kept and the bytes `N` handed over in this
cycle. -/
theorem K_assemble (c : Config) (s' : State) (g g' : Obs) (P : List (List Nat)) (N : List (Nat × Bool))
    (hpk : g'.pkts = g.pkts ++ P) (hpr : g'.prod = g.prod ++ N)
    (h : KP c.mps g'.hostPid s'.pid s'.r.fill s'.r.ended s'.w.fill s'.w.ended
      (addRem (P.foldl (endStep c.mps) (endFold c.mps (g.prod.map (·.2)) g.pkts)) (N.map (·.2)))) :
    K c s' g' := by
  unfold K
  rw [hpk, hpr, List.map_append, endFold_glue _ _ _ _ _ (by rw [← addRem_ok]; exact h.ok)]
  exact h

/-- the `last` marks logged by the producer side of the observer in this cycle -/
def newMarks (c : Config) (s : State) (i : In) : List Bool := if wen c s i then [i.sLast] else []

theorem newMarks_eq (c : Config) (s : State) (i : In) :
    (if wen c s i then [(i.sPayload % 256, i.sLast)] else []).map (·.2) = newMarks c s i := by
  unfold newMarks; split <;> rfl

/-- The write buffer's side of one cycle. -/
theorem KP_wNext {c : Config} {s : State} {i : In} {mps hp pid rf re E} (hd : i.discard = false)
    (h : KP mps hp pid rf re s.w.fill s.w.ended E) :
    KP mps hp pid rf re (wNext c s i).fill (wNext c s i).ended (addRem E (newMarks c s i)) := by
  unfold newMarks
  by_cases hw : wen c s i = true
  · have he : s.w.ended = false := by
      simp [wen, inReady] at hw; exact hw.2.2
    have h1 : (wNext c s i).fill = s.w.fill + 1 := by simp [wNext, hd, hw]
    have h2 : (wNext c s i).ended = i.sLast := by
      simp [wNext, hd, hw, he]
    rw [h1, h2, if_pos hw]
    rw [he] at h
    exact h.prod i.sLast
  · have hw' : wen c s i = false := by simpa using hw
    have h1 : (wNext c s i).fill = s.w.fill := by simp [wNext, hd, hw']
    have h2 : (wNext c s i).ended = s.w.ended := by simp [wNext, hd, hw']
    rw [h1, h2, hw']
    simpa [addRem_nil] using h

theorem swap_fill_pos (c : Config) (s : State) (i : In) (hd : i.discard = false) (hm : 1 ≤ c.mps)
    (hwpos : s.w.ended = true → 1 ≤ s.w.fill)
    (h : (!inReady c s || packetReady c s i) = true) : 1 ≤ (wNext c s i).fill := by
  by_cases hw : wen c s i = true
  · simp [wNext, hd, hw]
  · have hw' : wen c s i = false := by simpa using hw
    simp only [wNext, hd, hw', Bool.false_eq_true, if_false]
    simp only [wen] at hw'
    simp only [packetReady, hd] at h
    by_cases hr : inReady c s = true
    · simp only [hr, Bool.and_true] at hw'
      simp [hr, hw'] at h
      omega
    · simp [inReady] at hr
      by_cases h0 : s.w.fill = 0
      · have := hr (by omega)
        have := hwpos this
        omega
      · omega


theorem K_step_waitData (c : Config) (s : State) (g : Obs) (i : In) (hl : LegalZlpIn i)
    (hm : 1 ≤ c.mps) (hJ : J c s g) (hK : K c s g) (hfs : s.fsm = .waitData) :
    K c (step c s i).1 (obsStep g (i, (step c s i).2)) := by
  obtain ⟨⟨hd, hr⟩, hz⟩ := hl
  have hv : (step c s i).2.valid = false := by
    simp only [step, hfs]; split <;> rfl
  have hw : obsWire g i (step c s i).2 = g := by simp [obsWire, hv]
  have hhp := hJ.idle hfs
  have hr0 : s.r.fill = 0 := hJ.inv.idle hfs
  have hK1 := KP_wNext (c := c) (s := s) (i := i) hd hK
  simp only [obsStep, hw, obsProd_eq]
  by_cases hp : packetReady c s i = true
  · have hs : (step c s i).1 =
        { s with
          fsm := .waitSend, toggle := !s.toggle, pid := !s.pid,
          w := { rNext c s i with ended := false }, r := wNext c s i } := by
      simp [step, hfs, hp, hr]
    rw [hs]
    refine K_assemble c _ g _ [] _ (by simp) rfl ?_
    simp only [newMarks_eq, List.foldl_nil, rNext, hd, Bool.false_eq_true, if_false, hr0]
    have hnf : (s.r.fill == c.mps && s.r.ended) = false := by
      have : (s.r.fill == c.mps) = false := by simp; omega
      rw [this]; rfl
    have hpos := swap_fill_pos c s i hd hm hK.wpos (by simp [hp])
    have := hK1.swap hhp hnf hpos
    simpa [hr0] using this
  · have hs : (step c s i).1 = { s with w := wNext c s i, r := rNext c s i } := by
      simp [step, hfs, hp, hr]
    rw [hs]
    refine K_assemble c _ g _ [] _ (by simp) rfl ?_
    simpa [newMarks_eq, rNext, hd] using hK1

end LunaVerif.InXfer
