import LunaVerif.Lemmas.C11Refine
/-!
# C11 — transfer boundaries: every transfer ends with a short packet or a zero-length packet
-/
namespace LunaVerif.InXfer

/-! ## The boundary checker under extension of the producer's log -/

def addRem (e : EndSt) (m : List Bool) : EndSt := { e with rem := e.rem ++ m }

theorem endStep_ok_imp (mps : Nat) (e : EndSt) (p : List Nat) (h : (endStep mps e p).ok = true) :
    e.ok = true ∧ p.length ≤ e.rem.length := by
  simp [endStep] at h
  exact ⟨h.1.1.1.1, h.1.1.1.2⟩

theorem endStep_addRem (mps : Nat) (e : EndSt) (p : List Nat) (m : List Bool)
    (h : (endStep mps e p).ok = true) :
    endStep mps (addRem e m) p = addRem (endStep mps e p) m := by
  obtain ⟨-, hle⟩ := endStep_ok_imp mps e p h
  simp only [endStep, addRem, List.take_append_of_le_length hle, List.drop_append_of_le_length hle,
    List.length_append]
  have : decide (p.length ≤ e.rem.length + m.length) = decide (p.length ≤ e.rem.length) := by
    simp [hle]; omega
  rw [this]

theorem foldl_ok_mono (mps : Nat) (pkts : List (List Nat)) (e : EndSt)
    (h : (pkts.foldl (endStep mps) e).ok = true) : e.ok = true := by
  induction pkts generalizing e with
  | nil => exact h
  | cons p ps ih => exact (endStep_ok_imp mps e p (ih _ h)).1

theorem foldl_addRem (mps : Nat) (pkts : List (List Nat)) (e : EndSt) (m : List Bool)
    (h : (pkts.foldl (endStep mps) e).ok = true) :
    pkts.foldl (endStep mps) (addRem e m) = addRem (pkts.foldl (endStep mps) e) m := by
  induction pkts generalizing e with
  | nil => rfl
  | cons p ps ih =>
    simp only [List.foldl_cons] at h ⊢
    rw [endStep_addRem mps e p m (foldl_ok_mono mps ps _ h)]
    exact ih _ h

theorem endFold_glue (mps : Nat) (marks m : List Bool) (pkts P : List (List Nat))
    (h : (P.foldl (endStep mps) (endFold mps marks pkts)).ok = true) :
    endFold mps (marks ++ m) (pkts ++ P) = addRem (P.foldl (endStep mps) (endFold mps marks pkts)) m := by
  unfold endFold at h ⊢
  rw [← List.foldl_append] at h ⊢
  exact foldl_addRem mps (pkts ++ P) ⟨marks, false, true⟩ m h

/-! ## The bookkeeping invariant, on the quantities it depends on -/

/-- `last` marks of the bytes of a buffer with `fill` bytes whose `stream_ended` flag is `ended`. -/
def bufMarks (fill : Nat) (ended : Bool) : List Bool :=
  if fill = 0 then [] else List.replicate (fill - 1) false ++ [ended]

theorem bufMarks_false (n : Nat) : bufMarks n false = List.replicate n false := by
  unfold bufMarks
  split
  · simp [*]
  · have : n = (n - 1) + 1 := by omega
    conv => rhs; rw [this, List.replicate_succ']

theorem bufMarks_length (n : Nat) (e : Bool) : (bufMarks n e).length = n := by
  unfold bufMarks; split <;> simp <;> omega

structure KP (mps : Nat) (hp pid : Bool) (rf : Nat) (re : Bool) (wf : Nat) (we : Bool) (E : EndSt) :
    Prop where
  ok   : E.ok = true
  rem  : E.rem = (if hp = pid then [] else bufMarks rf re) ++ bufMarks wf we
  owed : E.owed = (if hp = pid then rf == mps && re else rf == 0)
  wpos : we = true → 1 ≤ wf

/-- the producer hands over a byte -/
theorem KP.prod {mps hp pid rf re wf E} (l : Bool) (h : KP mps hp pid rf re wf false E) :
    KP mps hp pid rf re (wf + 1) l (addRem E [l]) := by
  refine ⟨h.ok, ?_, h.owed, fun _ => by omega⟩
  simp only [addRem, h.rem, bufMarks_false, List.append_assoc]
  simp [bufMarks]

/-- the buffers are swapped (no ZLP is due) -/
theorem KP.swap {mps hp pid rf re wf we E} (h : KP mps hp pid rf re wf we E) (hhp : hp = pid)
    (hnf : (rf == mps && re) = false) (hpos : 1 ≤ wf) : KP mps hp (!pid) wf we 0 false E := by
  have hne : ¬ hp = !pid := by rw [hhp]; cases pid <;> simp
  refine ⟨h.ok, ?_, ?_, fun h => by simp at h⟩
  · simp [h.rem, hhp, bufMarks]
  · rw [h.owed, if_pos hhp, if_neg hne, hnf]
    have : (wf == 0) = false := by simp; omega
    rw [this]

/-- an ACKed max-size packet that ended the transfer: the follow-up ZLP is staged -/
theorem KP.follow {mps hp pid rf re wf we E} (h : KP mps hp pid rf re wf we E) (hhp : hp = pid)
    (hf : (rf == mps && re) = true) : KP mps hp (!pid) 0 re wf we E := by
  have hne : ¬ hp = !pid := by rw [hhp]; cases pid <;> simp
  refine ⟨h.ok, ?_, ?_, h.wpos⟩
  · simp [h.rem, hhp, bufMarks]
  · rw [h.owed, if_pos hhp, if_neg hne, hf]; rfl

/-- an ACKed packet is cleared from the read buffer (no ZLP is due) -/
theorem KP.clear {mps hp pid rf re wf we E} (hm : 1 ≤ mps) (h : KP mps hp pid rf re wf we E)
    (hhp : hp = pid) (hnf : (rf == mps && re) = false) : KP mps hp pid 0 re wf we E := by
  refine ⟨h.ok, ?_, ?_, h.wpos⟩
  · simp [h.rem, hhp]
  · rw [h.owed, if_pos hhp, if_pos hhp, hnf]
    have : (0 == mps) = false := by simp; omega
    rw [this]; rfl

/-- the host keeps the staged (non-empty) packet -/
theorem KP.keep {mps hp pid rf re wf we E} (p : List Nat) (h : KP mps hp pid rf re wf we E)
    (hhp : ¬ hp = pid) (h1 : 1 ≤ rf) (h2 : rf ≤ mps) (hp : p.length = rf) :
    KP mps pid pid rf re wf we (endStep mps E p) := by
  have hrem := h.rem
  rw [if_neg hhp] at hrem
  have hlen := bufMarks_length rf re
  have htake : E.rem.take rf = bufMarks rf re := by
    rw [hrem, List.take_append_of_le_length (by omega), List.take_of_length_le (by omega)]
  have hdrop : E.rem.drop rf = bufMarks wf we := by
    rw [hrem, List.drop_append_of_le_length (by omega), List.drop_of_length_le (by omega)]
    rfl
  have hbm : bufMarks rf re = List.replicate (rf - 1) false ++ [re] := by
    unfold bufMarks; rw [if_neg (by omega)]
  have hne : p.isEmpty = false := by
    cases p with
    | nil => simp at hp; omega
    | cons _ _ => rfl
  refine ⟨?_, ?_, ?_, h.wpos⟩
  · have ho := h.owed
    rw [if_neg hhp] at ho
    have h0 : (rf == 0) = false := by simp; omega
    simp only [endStep, hp, htake, h.ok, ho, h0, hne, hbm, List.dropLast_concat]
    have : rf ≤ E.rem.length := by rw [hrem]; simp [hlen]
    simp [this, h2]
  · simp [endStep, hp, hdrop]
  · simp [endStep, hp, htake, hbm]

/-- the host keeps the follow-up ZLP -/
theorem KP.keepZlp {mps hp pid re wf we E} (hm : 1 ≤ mps) (h : KP mps hp pid 0 re wf we E)
    (hhp : ¬ hp = pid) : KP mps pid pid 0 false wf we (endStep mps E []) := by
  have ho := h.owed
  rw [if_neg hhp] at ho
  have hrem := h.rem
  rw [if_neg hhp] at hrem
  have h0 : (0 == mps) = false := by simp; omega
  refine ⟨?_, ?_, ?_, h.wpos⟩
  · simp [endStep, h.ok, ho]
  · simpa [endStep, bufMarks] using hrem
  · simp [endStep, h0]

/-- a ZLP the host does not keep only clears the `stream_ended` flag of the empty read buffer -/
theorem KP.dupZlp {mps hp pid re wf we E} (hm : 1 ≤ mps) (h : KP mps hp pid 0 re wf we E)
    (hhp : hp = pid) : KP mps hp pid 0 false wf we E := by
  have h0 : (0 == mps) = false := by simp; omega
  refine ⟨h.ok, ?_, ?_, h.wpos⟩
  · simpa [hhp] using h.rem
  · rw [h.owed, if_pos hhp, if_pos hhp, h0]; rfl


/-! ## The bookkeeping invariant on the model state and the observer -/

def K (c : Config) (s : State) (g : Obs) : Prop :=
  KP c.mps g.hostPid s.pid s.r.fill s.r.ended s.w.fill s.w.ended
    (endFold c.mps (g.prod.map (·.2)) g.pkts)

theorem K_init (c : Config) : K c (init c) obsInit := by
  refine ⟨rfl, ?_, ?_, ?_⟩ <;> simp [init, obsInit, emptyBuf, endFold, bufMarks]

theorem addRem_nil (e : EndSt) : addRem e [] = e := by simp [addRem]

theorem addRem_ok (e : EndSt) (m : List Bool) : (addRem e m).ok = e.ok := rfl

/-- Assemble `K` for the next state from the packets `P` kept and the bytes `N` handed over in this
cycle. -/
theorem K_assemble (c : Config) (s' : State) (g g' : Obs) (P : List (List Nat)) (N : List (Nat × Bool))
    (hpk : g'.pkts = g.pkts ++ P) (hpr : g'.prod = g.prod ++ N)
    (h : KP c.mps g'.hostPid s'.pid s'.r.fill s'.r.ended s'.w.fill s'.w.ended
      (addRem (P.foldl (endStep c.mps) (endFold c.mps (g.prod.map (·.2)) g.pkts)) (N.map (·.2)))) :
    K c s' g' := by
  unfold K
  rw [hpk, hpr, List.map_append, endFold_glue _ _ _ _ _ (by rw [← addRem_ok]; exact h.ok)]
  exact h

/-- the `last` marks logged by the producer side of the observer in this cycle -/
def newMarks (c : Config) (s : State) (i : In) : List Bool := if wen c s i then [i.sLast] else []

theorem newMarks_eq (c : Config) (s : State) (i : In) :
    (if wen c s i then [(i.sPayload % 256, i.sLast)] else []).map (·.2) = newMarks c s i := by
  unfold newMarks; split <;> rfl

/-- The write buffer's side of one cycle. -/
theorem KP_wNext {c : Config} {s : State} {i : In} {mps hp pid rf re E} (hd : i.discard = false)
    (h : KP mps hp pid rf re s.w.fill s.w.ended E) :
    KP mps hp pid rf re (wNext c s i).fill (wNext c s i).ended (addRem E (newMarks c s i)) := by
  unfold newMarks
  by_cases hw : wen c s i = true
  · have he : s.w.ended = false := by
      simp [wen, inReady] at hw; exact hw.2.2
    have h1 : (wNext c s i).fill = s.w.fill + 1 := by simp [wNext, hd, hw]
    have h2 : (wNext c s i).ended = i.sLast := by
      simp [wNext, hd, hw, he]
    rw [h1, h2, if_pos hw]
    rw [he] at h
    exact h.prod i.sLast
  · have hw' : wen c s i = false := by simpa using hw
    have h1 : (wNext c s i).fill = s.w.fill := by simp [wNext, hd, hw']
    have h2 : (wNext c s i).ended = s.w.ended := by simp [wNext, hd, hw']
    rw [h1, h2, hw']
    simpa [addRem_nil] using h

theorem swap_fill_pos (c : Config) (s : State) (i : In) (hd : i.discard = false) (hm : 1 ≤ c.mps)
    (hwpos : s.w.ended = true → 1 ≤ s.w.fill)
    (h : (!inReady c s || packetReady c s i) = true) : 1 ≤ (wNext c s i).fill := by
  by_cases hw : wen c s i = true
  · simp [wNext, hd, hw]
  · have hw' : wen c s i = false := by simpa using hw
    simp only [wNext, hd, hw', Bool.false_eq_true, if_false]
    simp only [wen] at hw'
    simp only [packetReady, hd] at h
    by_cases hr : inReady c s = true
    · simp only [hr, Bool.and_true] at hw'
      simp [hr, hw'] at h
      omega
    · simp [inReady] at hr
      by_cases h0 : s.w.fill = 0
      · have := hr (by omega)
        have := hwpos this
        omega
      · omega


theorem K_step_waitData (c : Config) (s : State) (g : Obs) (i : In) (hl : LegalZlpIn i)
    (hm : 1 ≤ c.mps) (hJ : J c s g) (hK : K c s g) (hfs : s.fsm = .waitData) :
    K c (step c s i).1 (obsStep g (i, (step c s i).2)) := by
  obtain ⟨⟨hd, hr⟩, hz⟩ := hl
  have hv : (step c s i).2.valid = false := by
    simp only [step, hfs]; split <;> rfl
  have hw : obsWire g i (step c s i).2 = g := by simp [obsWire, hv]
  have hhp := hJ.idle hfs
  have hr0 : s.r.fill = 0 := hJ.inv.idle hfs
  have hK1 := KP_wNext (c := c) (s := s) (i := i) hd hK
  simp only [obsStep, hw, obsProd_eq]
  by_cases hp : packetReady c s i = true
  · have hs : (step c s i).1 =
        { s with
          fsm := .waitSend, toggle := !s.toggle, pid := !s.pid,
          w := { rNext c s i with ended := false }, r := wNext c s i } := by
      simp [step, hfs, hp, hr]
    rw [hs]
    refine K_assemble c _ g _ [] _ (by simp) rfl ?_
    simp only [newMarks_eq, List.foldl_nil, rNext, hd, Bool.false_eq_true, if_false, hr0]
    have hnf : (s.r.fill == c.mps && s.r.ended) = false := by
      have : (s.r.fill == c.mps) = false := by simp; omega
      rw [this]; rfl
    have hpos := swap_fill_pos c s i hd hm hK.wpos (by simp [hp])
    have := hK1.swap hhp hnf hpos
    simpa [hr0] using this
  · have hs : (step c s i).1 = { s with w := wNext c s i, r := rNext c s i } := by
      simp [step, hfs, hp, hr]
    rw [hs]
    refine K_assemble c _ g _ [] _ (by simp) rfl ?_
    simpa [newMarks_eq, rNext, hd] using hK1


/-- A cycle in which no packet is kept and the read buffer / PID are untouched. -/
theorem K_quiet (c : Config) (s s' : State) (g g' : Obs) (i : In) (hd : i.discard = false)
    (hK : K c s g) (h1 : s'.pid = s.pid) (h2 : s'.r.fill = s.r.fill) (h3 : s'.r.ended = s.r.ended)
    (h4 : s'.w = wNext c s i) (h5 : g'.hostPid = g.hostPid) (h6 : g'.pkts = g.pkts)
    (h7 : g'.prod = g.prod ++ (if wen c s i then [(i.sPayload % 256, i.sLast)] else [])) :
    K c s' g' := by
  refine K_assemble c s' g g' [] _ (by simp [h6]) h7 ?_
  rw [h1, h2, h3, h4, h5, newMarks_eq]
  exact KP_wNext hd hK

theorem K_step_waitSend (c : Config) (s : State) (g : Obs) (i : In) (hl : LegalZlpIn i)
    (hm : 1 ≤ c.mps) (hJ : J c s g) (hK : K c s g) (hfs : s.fsm = .waitSend) :
    K c (step c s i).1 (obsStep g (i, (step c s i).2)) := by
  obtain ⟨⟨hd, hr⟩, hz⟩ := hl
  have hcur : g.cur = [] := by simpa [hfs] using hJ.cur
  have hfirst : s.first = false := by simpa [hfs] using hJ.first
  simp only [obsStep, obsProd_eq]
  by_cases ht : inTok i = true
  · by_cases hf : s.r.fill = 0
    · -- zero-length packet
      have hs : (step c s i).1 =
          { s with
            fsm := .waitAck, w := wNext c s i, r := { rNext c s i with ended := false }, sendPos := 0 } := by
        simp [step, hfs, hd, hr, ht, hf]
      have ho : obsWire g i (step c s i).2 = g.complete [] s.pid := by
        simp [step, hfs, hd, hr, ht, hf, obsWire, hcur, hfirst]
      rw [hs, ho]
      unfold Obs.complete
      unfold K at hK
      rw [hf] at hK
      by_cases hpid : s.pid = g.hostPid
      · rw [if_pos hpid]
        refine K_assemble c _ g _ [] _ (by simp) rfl ?_
        have := KP_wNext (c := c) (s := s) (i := i) hd (hK.dupZlp hm hpid.symm)
        simpa [newMarks_eq, rNext, hd, hf] using this
      · rw [if_neg hpid]
        refine K_assemble c _ g _ [[]] _ rfl rfl ?_
        have := KP_wNext (c := c) (s := s) (i := i) hd (hK.keepZlp hm (fun h => hpid h.symm))
        simpa [newMarks_eq, rNext, hd, hf] using this
    · have hs : (step c s i).1 =
          { s with
            fsm := .sendPacket, w := wNext c s i, r := rNext c s i, sendPos := 0, first := true } := by
        simp [step, hfs, hd, hr, ht, hf]
      have ho : obsWire g i (step c s i).2 = g := by
        simp [step, hfs, hd, hr, ht, hf, obsWire]
      rw [hs, ho]
      exact K_quiet c s _ g _ i hd hK rfl (by simp [rNext, hd]) (by simp [rNext, hd]) rfl rfl rfl rfl
  · have hs : (step c s i).1 = { s with w := wNext c s i, r := rNext c s i, sendPos := 0 } := by
      simp [step, hfs, hd, hr, ht]
    have ho : obsWire g i (step c s i).2 = g := by
      simp [step, hfs, hd, hr, ht, obsWire]
    rw [hs, ho]
    exact K_quiet c s _ g _ i hd hK rfl (by simp [rNext, hd]) (by simp [rNext, hd]) rfl rfl rfl rfl

theorem K_step_sendPacket (c : Config) (s : State) (g : Obs) (i : In) (hl : LegalZlpIn i)
    (hJ : J c s g) (hK : K c s g) (hfs : s.fsm = .sendPacket) :
    K c (step c s i).1 (obsStep g (i, (step c s i).2)) := by
  obtain ⟨⟨hd, hr⟩, hz⟩ := hl
  obtain ⟨hlt, hrd⟩ := hJ.inv.send hfs
  have hrl := hJ.inv.rlen
  have hrf := hJ.inv.rfill
  have hcur : g.cur = s.r.mem.take s.sendPos := by simpa [hfs] using hJ.cur
  have hfirst : s.first = decide (s.sendPos = 0) := by simpa [hfs] using hJ.first
  have hemp : g.cur.isEmpty = decide (s.sendPos = 0) := by
    rw [hcur]
    by_cases h0 : s.sendPos = 0
    · simp [h0]
    · have : s.r.mem ≠ [] := by
        intro h; rw [h] at hrl; simp at hrl; omega
      simp [h0, this]
  have hnz : (g.cur.isEmpty && !s.first) = false := by
    rw [hemp, hfirst]; cases decide (s.sendPos = 0) <;> rfl
  have hpidsel : (if g.cur.isEmpty then s.pid else g.curPid) = s.pid := by
    rw [hemp]
    by_cases h0 : s.sendPos = 0
    · simp [h0]
    · simp only [h0, decide_false, Bool.false_eq_true, if_false]
      exact hJ.cpid hfs (by omega)
  have hsnoc : g.cur ++ [s.r.rdata] = s.r.mem.take (s.sendPos + 1) := by
    rw [hcur, List.take_add_one, hrd]; rfl
  have hb : s.sendPos + 1 < 2 ^ bitsFor c.mps := by
    have := @Nat.lt_log2_self c.mps
    unfold bitsFor; omega
  simp only [obsStep, obsProd_eq]
  by_cases hrdy : i.txReady = true
  · by_cases hlast : s.sendPos + 1 = s.r.fill
    · have hs : (step c s i).1 =
          { s with
            fsm := .waitAck, w := wNext c s i, r := rNext c s i, sendPos := s.sendPos + 1,
            first := false } := by
        simp [step, hfs, hrdy, hlast, hr]
        rw [← hlast, Nat.mod_eq_of_lt hb]
      have ho : obsWire g i (step c s i).2 = g.complete (bufBytes s.r) s.pid := by
        simp only [step, hfs, obsWire, hrdy, hlast, if_true, hnz, Bool.false_eq_true, if_false,
          beq_self_eq_true, hpidsel, hsnoc, bufBytes]
      rw [hs, ho]
      unfold Obs.complete
      by_cases hpid : s.pid = g.hostPid
      · rw [if_pos hpid]
        exact K_quiet c s _ g _ i hd hK rfl (by simp [rNext, hd]) (by simp [rNext, hd]) rfl rfl rfl rfl
      · rw [if_neg hpid]
        refine K_assemble c _ g _ [bufBytes s.r] _ rfl rfl ?_
        have hlen : (bufBytes s.r).length = s.r.fill := by
          simp [bufBytes]; omega
        have := KP_wNext (c := c) (s := s) (i := i) hd
          (KP.keep (bufBytes s.r) hK (fun h => hpid h.symm) (by omega) hrf hlen)
        simpa [newMarks_eq, rNext, hd] using this
    · have hs : (step c s i).1 =
          { s with
            w := wNext c s i, r := rNext c s i, sendPos := s.sendPos + 1, first := false } := by
        simp [step, hfs, hrdy, hlast, hr, Nat.mod_eq_of_lt hb]
      have ho : obsWire g i (step c s i).2 =
          { g with cur := s.r.mem.take (s.sendPos + 1), curPid := s.pid } := by
        simp only [step, hfs, obsWire, hrdy, if_true, hnz, Bool.false_eq_true, if_false,
          hpidsel, hsnoc, beq_iff_eq, hlast]
      rw [hs, ho]
      exact K_quiet c s _ g _ i hd hK rfl (by simp [rNext, hd]) (by simp [rNext, hd]) rfl rfl rfl rfl
  · have hs : (step c s i).1 = { s with w := wNext c s i, r := rNext c s i } := by
      simp [step, hfs, hrdy, hr]
    have ho : obsWire g i (step c s i).2 = g := by
      simp only [step, hfs, obsWire, hrdy, if_true, hnz, Bool.false_eq_true, if_false]
    rw [hs, ho]
    exact K_quiet c s _ g _ i hd hK rfl (by simp [rNext, hd]) (by simp [rNext, hd]) rfl rfl rfl rfl


theorem K_step_waitAck (c : Config) (s : State) (g : Obs) (i : In) (hl : LegalZlpIn i)
    (hm : 1 ≤ c.mps) (hJ : J c s g) (hK : K c s g) (hfs : s.fsm = .waitAck) :
    K c (step c s i).1 (obsStep g (i, (step c s i).2)) := by
  obtain ⟨⟨hd, hr⟩, hz⟩ := hl
  have hhp := hJ.wack hfs
  have ho : obsWire g i (step c s i).2 = g := by
    simp [step, hfs, obsWire]
  have hK1 := KP_wNext (c := c) (s := s) (i := i) hd hK
  simp only [obsStep, obsProd_eq, ho]
  by_cases ha : ackTaken i = true
  · by_cases hfu : (s.r.fill == c.mps && s.r.ended) = true
    · -- follow-up ZLP
      have hs : (step c s i).1 =
          (if i.newToken then
            { s with w := wNext c s i, r := { rNext c s i with fill := 0 }, pid := !s.pid, fsm := .waitSend }
          else
            { s with w := wNext c s i, r := { rNext c s i with fill := 0 }, pid := !s.pid, fsm := .waitSend }) := by
        simp [step, hfs, hd, hr, ha, hz, hfu]
      rw [hs, ite_self]
      refine K_assemble c _ g _ [] _ (by simp) rfl ?_
      have := KP_wNext (c := c) (s := s) (i := i) hd (KP.follow hK hhp hfu)
      simpa [newMarks_eq, rNext, hd] using this
    · have hnf : (s.r.fill == c.mps && s.r.ended) = false := by simpa using hfu
      by_cases hsw : (!inReady c s || packetReady c s i) = true
      · -- the other buffer is ready: swap
        have hs : (step c s i).1 =
            (if i.newToken then
              { s with
                fsm := .waitSend, toggle := !s.toggle, pid := !s.pid,
                w := { rNext c s i with fill := 0, ended := false }, r := wNext c s i }
            else
              { s with
                fsm := .waitSend, toggle := !s.toggle, pid := !s.pid,
                w := { rNext c s i with fill := 0, ended := false }, r := wNext c s i }) := by
          simp [step, hfs, hd, hr, ha, hz, hnf, hsw]
        rw [hs, ite_self]
        refine K_assemble c _ g _ [] _ (by simp) rfl ?_
        have hpos := swap_fill_pos c s i hd hm hK.wpos hsw
        have := hK1.swap hhp hnf hpos
        simpa [newMarks_eq] using this
      · -- nothing to send: back to WAIT_FOR_DATA (or WAIT_TO_SEND on a coinciding token)
        have hs : (step c s i).1 =
            (if i.newToken then
              { s with w := wNext c s i, r := { rNext c s i with fill := 0 }, fsm := .waitSend }
            else
              { s with w := wNext c s i, r := { rNext c s i with fill := 0 }, fsm := .waitData }) := by
          simp [step, hfs, hd, hr, ha, hz, hnf, hsw]
        have := KP_wNext (c := c) (s := s) (i := i) hd (KP.clear hm hK hhp hnf)
        rw [hs]
        split <;>
        · refine K_assemble c _ g _ [] _ (by simp) rfl ?_
          simpa [newMarks_eq, rNext, hd] using this
  · have hs : (step c s i).1 =
        (if i.newToken then { s with w := wNext c s i, r := rNext c s i, fsm := .waitSend }
         else { s with w := wNext c s i, r := rNext c s i }) := by
      simp [step, hfs, hd, hr, ha]
    rw [hs]
    split <;>
    · exact K_quiet c s _ g _ i hd hK rfl (by simp [rNext, hd]) (by simp [rNext, hd]) rfl rfl rfl rfl

theorem K_step (c : Config) (s : State) (g : Obs) (i : In) (hl : LegalZlpIn i) (hm : 1 ≤ c.mps)
    (hJ : J c s g) (hK : K c s g) : K c (step c s i).1 (obsStep g (i, (step c s i).2)) := by
  cases hfs : s.fsm with
  | waitData => exact K_step_waitData c s g i hl hm hJ hK hfs
  | waitSend => exact K_step_waitSend c s g i hl hm hJ hK hfs
  | sendPacket => exact K_step_sendPacket c s g i hl hJ hK hfs
  | waitAck => exact K_step_waitAck c s g i hl hm hJ hK hfs

theorem JK_run (c : Config) (hm : 1 ≤ c.mps) (ins : List In) (henv : LegalZlpEnv ins) (s : State)
    (g : Obs) (hJ : J c s g) (hK : K c s g) :
    J c (runState c s ins) (observeFrom g (trace c s ins)) ∧
    K c (runState c s ins) (observeFrom g (trace c s ins)) := by
  induction ins generalizing s g with
  | nil => exact ⟨hJ, hK⟩
  | cons i is ih =>
    simp only [runState, trace, observeFrom, List.foldl_cons]
    have hl := henv i (by simp)
    exact ih (fun j hj => henv j (by simp [hj])) _ _ (J_step c s g i hl.1 hJ) (K_step c s g i hl hm hJ hK)

/-- The bookkeeping invariant holds at every reachable cycle. -/
theorem K_reachable (c : Config) (hm : 1 ≤ c.mps) (ins : List In) (henv : LegalZlpEnv ins) :
    K c (runState c (init c) ins) (observe (trace c (init c) ins)) :=
  (JK_run c hm ins henv _ _ (J_init c) (K_init c)).2

/-- **Every transfer ends with a short packet or a zero-length packet.**  For every max packet size
≥ 1 and every history with `discard = reset_sequence = 0` and `generate_zlps = 1` (any producer timing,
`last` marks and `flush` requests, any tokens, lost/late/foreign ACKs, any `ready` schedule), at every
cycle, the packets the host has kept line up with the producer's `last` marks as `endsOk` demands: each
kept packet is ≤ mps bytes of the producer's stream; a `last`-marked byte is always the final byte of its
packet; when that packet is a full `mps` bytes the very next packet the host keeps is a zero-length
packet (so a short packet or a ZLP precedes any data of the next transfer); and the host keeps a
zero-length packet only in that situation. -/
theorem transfer_ends_short_or_zlp (c : Config) (hm : 1 ≤ c.mps) (ins : List In)
    (henv : LegalZlpEnv ins) :
    endsOk c.mps ((produced (trace c (init c) ins)).map (·.2)) (hostPackets (trace c (init c) ins))
      = true :=
  (K_reachable c hm ins henv).ok


/-! ## Non-vacuity

mps = 2: the transfer `5, 6(last)` fills a max-size packet, so after its ACK a ZLP follows; then the
one-byte transfer `7(last)` goes out as a short packet.  And the checker does discriminate: without the
ZLP, or with a `last` mark inside a packet, or with a ZLP that is not due, it says `false`. -/

def exL (rfr nt ack v : Bool) (p : Nat) (l : Bool) : In :=
  ⟨true, true, rfr, nt, ack, v, p, l, false, false, true, false, false, true⟩

def exZlpHist : List In :=
  [exL false false false true 5 false, exL false false false true 6 true,      -- producer: 5, 6(last)
   exL false true false false 0 false, exL true false false false 0 false,      -- IN token
   exL false false false false 0 false, exL false false false false 0 false,    -- 5, 6 go out
   exL false false true false 0 false,                                          -- ACK: ZLP staged
   exL false true false false 0 false, exL true false false false 0 false,      -- IN token: ZLP
   exL false false true false 0 false,                                          -- ACK
   exL false false false true 7 true,                                           -- producer: 7(last)
   exL false true false false 0 false, exL true false false false 0 false,      -- IN token
   exL false false false false 0 false]                                         -- 7 goes out

example : LegalZlpEnv exZlpHist := by decide
example : hostPackets (trace ⟨2⟩ (init ⟨2⟩) exZlpHist) = [[5, 6], [], [7]]
    ∧ (produced (trace ⟨2⟩ (init ⟨2⟩) exZlpHist)).map (·.2) = [false, true, true] := by decide +kernel
example : endsOk 2 [false, true, true] [[5, 6], [], [7]] = true := by decide
example : endsOk 2 [false, true, true] [[5, 6], [7]] = false := by decide      -- the ZLP is missing
example : endsOk 2 [true, false] [[5, 6]] = false := by decide                 -- `last` inside a packet
example : endsOk 2 [false, false, true] [[5, 6], [], [7]] = false := by decide -- a ZLP that is not due
example : endsOk 2 [false, false, true] [[5], [6, 7]] = true := by decide      -- short packet by `flush`

end LunaVerif.InXfer
