import LunaVerif.Lemmas.C07MpsLegal
/-!
Step-level facts about `coreM` / `stepM` / `finalM` / `LegalHostM` (Model/Device/ControlM.lean: the event-level device
model with `start_position += max_packet_size`), the counterparts of Lemmas/DeviceSteps.lean used by the `…_mps` forms
of the C08 and C10 theorems (Lemmas/C08Mps.lean, Lemmas/C10Mps.lean).

`coreM` and `Device.core` differ only in the reaction to a host handshake, and there only in `start_position` and the
ghost `gDataDone` (`onHandshakeM_ctl`): from the SAME state every control register after the event and the response
are equal (`coreM_ctl`, `stepM_ctl`), for every `c.maxPacket`.  (The histories differ: `finalM` and `final` reach
different `start_position`s, hence different descriptor packets and a different `LegalHost` -- the history-level
theorems are re-proved over `finalM`, not transferred.)
-/
namespace LunaVerif.Device

/-! ### `stepM` = `coreM` + ghost bookkeeping -/
section
variable (c : DevConfig) (s : DevState) (x : Stim)
theorem stepM_address : (stepM c s x).1.address = (coreM c s x.ev).1.address := rfl
theorem stepM_config : (stepM c s x).1.config = (coreM c s x.ev).1.config := rfl
theorem stepM_tokPid : (stepM c s x).1.tokPid = (coreM c s x.ev).1.tokPid := rfl
theorem stepM_tokEp : (stepM c s x).1.tokEp = (coreM c s x.ev).1.tokEp := rfl
theorem stepM_sdWait : (stepM c s x).1.sdWait = (coreM c s x.ev).1.sdWait := rfl
theorem stepM_setup : (stepM c s x).1.setup = (coreM c s x.ev).1.setup := rfl
theorem stepM_stage : (stepM c s x).1.stage = (coreM c s x.ev).1.stage := rfl
theorem stepM_hstate : (stepM c s x).1.hstate = (coreM c s x.ev).1.hstate := rfl
theorem stepM_gRespData : (stepM c s x).1.gRespData = (stepM c s x).2.isData := rfl
end

/-- From the same state, `coreM` and `Device.core` agree on every control register and on the response. -/
theorem coreM_ctl (c : DevConfig) (s : DevState) (e : HostEvent) :
    (coreM c s e).1.address = (core c s e).1.address ∧ (coreM c s e).1.config = (core c s e).1.config ∧
    (coreM c s e).1.tokPid = (core c s e).1.tokPid ∧ (coreM c s e).1.tokEp = (core c s e).1.tokEp ∧
    (coreM c s e).1.sdWait = (core c s e).1.sdWait ∧ (coreM c s e).1.setup = (core c s e).1.setup ∧
    (coreM c s e).1.stage = (core c s e).1.stage ∧ (coreM c s e).1.hstate = (core c s e).1.hstate ∧
    (coreM c s e).1.txPid = (core c s e).1.txPid ∧ (coreM c s e).1.expectingAck = (core c s e).1.expectingAck ∧
    (coreM c s e).2 = (core c s e).2 := by
  cases e with
  | handshake pid =>
    obtain ⟨h1, h2, h3, h4, h5, h6, h7, h8, h9, h10⟩ := onHandshakeM_ctl c.maxPacket s pid
    exact ⟨h1, h2, h3, h4, h5, h6, h7, h8, h9, h10, rfl⟩
  | _ => exact ⟨rfl, rfl, rfl, rfl, rfl, rfl, rfl, rfl, rfl, rfl, rfl⟩

/-- The same for `stepM` / `Device.step` (the merged response included). -/
theorem stepM_ctl (c : DevConfig) (s : DevState) (x : Stim) :
    (stepM c s x).1.address = (step c s x).1.address ∧ (stepM c s x).1.config = (step c s x).1.config ∧
    (stepM c s x).1.tokPid = (step c s x).1.tokPid ∧ (stepM c s x).1.tokEp = (step c s x).1.tokEp ∧
    (stepM c s x).1.sdWait = (step c s x).1.sdWait ∧ (stepM c s x).1.setup = (step c s x).1.setup ∧
    (stepM c s x).1.stage = (step c s x).1.stage ∧ (stepM c s x).1.hstate = (step c s x).1.hstate ∧
    (stepM c s x).1.txPid = (step c s x).1.txPid ∧ (stepM c s x).1.expectingAck = (step c s x).1.expectingAck ∧
    (stepM c s x).2 = (step c s x).2 := by
  obtain ⟨h1, h2, h3, h4, h5, h6, h7, h8, h9, h10, h11⟩ := coreM_ctl c s x.ev
  refine ⟨h1, h2, h3, h4, h5, h6, h7, h8, h9, h10, ?_⟩
  show (if (coreM c s x.ev).2.isNone ∧ (coreM c s x.ev).1.tokEp ≠ 0 then x.foreign else (coreM c s x.ev).2) =
    (if (core c s x.ev).2.isNone ∧ (core c s x.ev).1.tokEp ≠ 0 then x.foreign else (core c s x.ev).2)
  rw [h4, h11]

/-! ### Histories -/

theorem finalM_append (c : DevConfig) (s : DevState) (h₁ h₂ : List Stim) :
    finalM c s (h₁ ++ h₂) = finalM c (finalM c s h₁) h₂ := by
  induction h₁ generalizing s with
  | nil => rfl
  | cons x xs ih => simp [finalM, ih]

theorem finalM_snoc (c : DevConfig) (s : DevState) (h : List Stim) (x : Stim) :
    finalM c s (h ++ [x]) = (stepM c (finalM c s h) x).1 := by
  rw [finalM_append]; rfl

theorem legalFromM_append (c : DevConfig) (s : DevState) (h₁ h₂ : List Stim) :
    legalFromM c s (h₁ ++ h₂) = (legalFromM c s h₁ && legalFromM c (finalM c s h₁) h₂) := by
  induction h₁ generalizing s with
  | nil => simp [legalFromM, finalM]
  | cons x xs ih => simp [legalFromM, finalM, ih, Bool.and_assoc]

theorem legalM_snoc {c : DevConfig} {h : List Stim} {x : Stim} (l : LegalHostM c (h ++ [x]) = true) :
    LegalHostM c h = true ∧ legalEventM c (finalM c init h) x = true := by
  unfold LegalHostM at l ⊢
  rw [legalFromM_append] at l
  simp [legalFromM] at l
  exact l

/-- The model's invariant holds after every history of `stepM`. -/
theorem inv_reachableM (c : DevConfig) (h : List Stim) : Inv (finalM c init h) := inv_finalM c init h inv_init

/-! ### The host handshake -/

theorem onHandshakeM_noreach (mps : Nat) (s : DevState) (pid : Nat) (g : ¬ AckReachesHandler s pid) :
    onHandshakeM mps s pid = s := by
  unfold AckReachesHandler at g
  unfold onHandshakeM
  rw [if_neg g]

theorem onHandshakeM_address (mps : Nat) (s : DevState) (pid : Nat) (h : (onHandshakeM mps s pid).address ≠ s.address) :
    AckReachesHandler s pid ∧ s.hstate = .setAddress ∧ (onHandshakeM mps s pid).address = s.setup.value % 128 := by
  rw [(onHandshakeM_ctl mps s pid).1] at h ⊢
  exact onHandshake_address s pid h

theorem onHandshakeM_config (mps : Nat) (s : DevState) (pid : Nat) (h : (onHandshakeM mps s pid).config ≠ s.config) :
    AckReachesHandler s pid ∧ s.hstate = .setConfiguration ∧ (onHandshakeM mps s pid).config = s.setup.value % 256 := by
  rw [(onHandshakeM_ctl mps s pid).2.1] at h ⊢
  exact onHandshake_config s pid h

end LunaVerif.Device
