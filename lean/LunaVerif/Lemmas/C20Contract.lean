import LunaVerif.Lemmas.C20CycMain
import LunaVerif.Model.Device.SlotContract
/-!
# C20 — the endpoint side of the cycle-level composition: the SLOT CONTRACT

`envOk` (Model/Device/DevCyc.lean) is a discipline on what the endpoint logic behind `USBEndpointMultiplexer.shared`
drives.  This file states the discipline PER ENDPOINT as a small ghost automaton over the endpoint's own ports — the
"slot contract" — so that it can be proved of every endpoint model separately (Lemmas/C20Endpoints.lean) and combined
through the multiplexer (`merge_ok`, `mergeAll_ok`).  `Lemmas/C20EnvOk.lean` proves that a device whose slots keep the
contract satisfies `envOk` in every cycle.

A slot sees: `pul` — a `ready_for_response` pulse addressed to it in this cycle (token detector's or receiver's, as the
endpoint decodes it); `rdy` — `tx.ready` (the data packet generator's `stream.ready`); and drives `Sig`.
-/
namespace LunaVerif.C20Ctr

/-- A slot that owes nothing and sees no pulse is silent (up to `timer.start`) and stays idle. -/
theorem idle_silent {L : Nat} {rdy : Bool} {d : Sig} (h : cok .idle false d = true) :
    d.hs = false ∧ d.valid = false ∧ d.first = false ∧ d.last = false ∧ cnext L .idle false rdy d = .idle := by
  obtain ⟨hs, v, f, l, t⟩ := d
  cases hs <;> cases v <;> cases f <;> cases l <;> simp_all [cok, cokB, cnext, cnextB, expire]

/-! ## Merging two slots (what `USBEndpointMultiplexer` does: OR) -/

def orSig (a b : Sig) : Sig :=
  { hs := a.hs || b.hs, valid := a.valid || b.valid, first := a.first || b.first, last := a.last || b.last,
    tstart := a.tstart || b.tstart }

def orPh (a b : Ph) : Ph := if a = .idle then b else a

theorem orPh_idle {a b : Ph} : orPh a b = .idle ↔ a = .idle ∧ b = .idle := by
  unfold orPh; split <;> simp_all

theorem tOk_or (a1 a2 : Bool) (a b : Sig) : tOk a1 a2 (orSig a b) = (tOk a1 a2 a && tOk a1 a2 b) := by
  simp only [tOk, orSig]; cases a.tstart <;> cases b.tstart <;> simp

/-- Two slots that keep the contract, of which at most one is busy and at most one is addressed, and which are
addressed only while both are idle (the device guarantees this: no pulse while an answer is owed or under way), behave
together like one slot that keeps the contract. -/
theorem merge_ok {L : Nat} {pa pb : Ph} {ua ub rdy a1 a2 : Bool} {da db : Sig}
    (hx : pa = .idle ∨ pb = .idle) (hu : (ua && ub) = false)
    (hq : (ua || ub) = true → pa = .idle ∧ pb = .idle)
    (ha : (cstep L pa ua rdy a1 a2 da).1 = true) (hb : (cstep L pb ub rdy a1 a2 db).1 = true) :
    cstep L (orPh pa pb) (ua || ub) rdy a1 a2 (orSig da db) =
      (true, orPh (cstep L pa ua rdy a1 a2 da).2 (cstep L pb ub rdy a1 a2 db).2) ∧
    ((cstep L pa ua rdy a1 a2 da).2 = .idle ∨ (cstep L pb ub rdy a1 a2 db).2 = .idle) := by
  simp only [cstep, Bool.and_eq_true] at ha hb ⊢
  obtain ⟨ha, hta⟩ := ha
  obtain ⟨hb, htb⟩ := hb
  simp only [tOk_or, hta, htb, Bool.and_true, Prod.mk.injEq]
  -- the silent one
  have key : ∀ (p : Ph) (u : Bool) (d e : Sig), cok .idle false e = true →
      cok p u (orSig d e) = cok p u d ∧ cnext L p u rdy (orSig d e) = cnext L p u rdy d ∧
      cok p u (orSig e d) = cok p u d ∧ cnext L p u rdy (orSig e d) = cnext L p u rdy d := by
    intro p u d e he
    obtain ⟨h1, h2, h3, h4, _⟩ := idle_silent (L := L) (rdy := rdy) he
    simp [cok, cnext, orSig, h1, h2, h3, h4]
  rcases hx with hx | hx
  · subst hx
    cases hua : ua with
    | true =>
      -- a is addressed: b is idle and not addressed
      have hub : ub = false := by simpa [hua] using hu
      have hpb : pb = .idle := (hq (by simp [hua])).2
      subst hub; subst hpb; subst hua
      obtain ⟨k1, k2, _, _⟩ := key .idle true da db hb
      have hbn := (idle_silent (L := L) (rdy := rdy) hb).2.2.2.2
      simp only [orPh, if_true, Bool.or_false, k1, k2, ha, hbn, true_and]
      refine ⟨?_, Or.inr trivial⟩
      split <;> simp_all
    | false =>
      subst hua
      obtain ⟨_, _, k3, k4⟩ := key pb ub db da ha
      have han := (idle_silent (L := L) (rdy := rdy) ha).2.2.2.2
      simp only [orPh, if_true, Bool.false_or, k3, k4, hb, han, true_and]
      exact Or.inl trivial
  · subst hx
    cases hub : ub with
    | true =>
      have hua : ua = false := by simpa [hub] using hu
      have hpa : pa = .idle := (hq (by simp [hub])).1
      subst hua; subst hpa; subst hub
      obtain ⟨_, _, k3, k4⟩ := key .idle true db da ha
      have han := (idle_silent (L := L) (rdy := rdy) ha).2.2.2.2
      simp only [orPh, if_true, Bool.false_or, k3, k4, hb, han, true_and]
      exact Or.inl trivial
    | false =>
      subst hub
      obtain ⟨k1, k2, _, _⟩ := key pa ua da db hb
      have hbn := (idle_silent (L := L) (rdy := rdy) hb).2.2.2.2
      simp only [Bool.or_false, hbn]
      refine ⟨?_, Or.inr trivial⟩
      unfold orPh
      split <;> simp_all

/-! ## Any number of slots -/

/-- One slot in one cycle: its phase, whether a pulse is addressed to it, what it drives. -/
structure Slot where
  ph  : Ph
  pul : Bool
  d   : Sig
deriving Repr

def allIdle (l : List Slot) : Prop := ∀ x ∈ l, x.ph = .idle

/-- At most one slot is not idle. -/
def Excl : List Slot → Prop
  | [] => True
  | x :: xs => (x.ph = .idle ∨ allIdle xs) ∧ Excl xs

/-- At most one slot is addressed. -/
def exclPul : List Slot → Bool
  | [] => true
  | x :: xs => !(x.pul && xs.any (·.pul)) && exclPul xs

def orPhs : List Slot → Ph
  | [] => .idle
  | x :: xs => orPh x.ph (orPhs xs)

def orSigs : List Slot → Sig
  | [] => silent
  | x :: xs => orSig x.d (orSigs xs)

/-- Every slot after its cycle (the pulse / drive fields are those of the cycle that has passed). -/
def nextSlots (L : Nat) (rdy : Bool) (l : List Slot) : List Slot :=
  l.map (fun x => { x with ph := cnext L x.ph x.pul rdy x.d })

theorem orPhs_idle {l : List Slot} : orPhs l = .idle ↔ allIdle l := by
  induction l with
  | nil => simp [orPhs, allIdle]
  | cons x xs ih => simp [orPhs, orPh_idle, allIdle, ih]

/-- **The multiplexer preserves the contract**: slots that each keep the contract, of which at most one is busy and at
most one is addressed, and which are addressed only while all are idle, behave together — OR-merged, as
`USBEndpointMultiplexer` does — like one slot that keeps the contract; and at most one is busy afterwards. -/
theorem mergeAll_ok {L : Nat} {rdy a1 a2 : Bool} (l : List Slot) (hx : Excl l) (hu : exclPul l = true)
    (hq : l.any (·.pul) = true → allIdle l)
    (hok : ∀ x ∈ l, (cstep L x.ph x.pul rdy a1 a2 x.d).1 = true) :
    cstep L (orPhs l) (l.any (·.pul)) rdy a1 a2 (orSigs l) = (true, orPhs (nextSlots L rdy l)) ∧
    Excl (nextSlots L rdy l) := by
  induction l with
  | nil => simp [orPhs, orSigs, nextSlots, Excl, cstep, cok, cokB, cnext, cnextB, expire, silent, tOk]
  | cons x xs ih =>
    obtain ⟨hx1, hx2⟩ := hx
    simp only [exclPul, Bool.and_eq_true, Bool.not_eq_eq_eq_not, Bool.not_true] at hu
    obtain ⟨hu1, hu2⟩ := hu
    have hq2 : xs.any (·.pul) = true → allIdle xs := by
      intro h
      have := hq (by simp only [List.any_cons, h, Bool.or_true])
      intro y hy; exact this y (List.mem_cons_of_mem _ hy)
    obtain ⟨ih1, ih2⟩ := ih hx2 hu2 hq2 (fun y hy => hok y (List.mem_cons_of_mem _ hy))
    have hb : (cstep L (orPhs xs) (xs.any (·.pul)) rdy a1 a2 (orSigs xs)).1 = true := by rw [ih1]
    have hm := merge_ok (L := L) (pa := x.ph) (pb := orPhs xs) (ua := x.pul) (ub := xs.any (·.pul)) (rdy := rdy)
      (a1 := a1) (a2 := a2) (da := x.d) (db := orSigs xs)
      (by rcases hx1 with h | h
          · exact Or.inl h
          · exact Or.inr (orPhs_idle.mpr h))
      hu1
      (by intro h
          have := hq (by simpa only [List.any_cons] using h)
          exact ⟨this x (List.mem_cons_self ..), orPhs_idle.mpr (fun y hy => this y (List.mem_cons_of_mem _ hy))⟩)
      (hok x (List.mem_cons_self ..)) hb
    obtain ⟨hm1, hm2⟩ := hm
    rw [ih1] at hm1 hm2
    refine ⟨?_, ?_, ih2⟩
    · simpa only [orPhs, List.any_cons, orSigs, nextSlots, List.map_cons, cstep] using hm1
    · rcases hm2 with h | h
      · exact Or.inl (by simpa only [cstep] using h)
      · exact Or.inr (orPhs_idle.mp h)

end LunaVerif.C20Ctr
