import LunaVerif.Model.Usb2.ResetSequencer
/-!
# C20 — a full-speed-only device's reset sequencer never transmits and never changes the speed

`USBDevice` on a plain UTMI bus selects `always_fs`, which ties `reset_sequencer.full_speed_only` to 1 (and
`low_speed_only` to 0).  For the C19 model of `USBResetSequencer` and EVERY input history with these two inputs constant
(`line_state`, VBUS, `bus_busy`, `disconnect` arbitrary): the chirp states are never entered, so `tx.valid` is low in every
cycle, and `current_speed` is FULL in every cycle.  This discharges, for such devices, the two assumptions of the C20
cycle-level theorems "the reset sequencer does not transmit" and "the speed is a constant of the history".
-/
namespace LunaVerif.ResetSeq

/-- Outputs along a history. -/
def outs (c : Config) : State → List In → List Out
  | _, [] => []
  | s, i :: is => (step c s i).2 :: outs c (step c s i).1 is

/-- The states a full-speed-only sequencer can be in. -/
structure Q (s : State) : Prop where
  fsm : s.fsm = .INITIALIZE ∨ s.fsm = .LS_FS_NON_RESET ∨ s.fsm = .IS_LOW_OR_FULL_SPEED ∨ s.fsm = .SUSPENDED ∨
        s.fsm = .DISCONNECT
  was : s.wasHs = false
  sp  : s.speed = .FULL

theorem q_init : Q init := ⟨Or.inl rfl, rfl, rfl⟩

theorem q_step (c : Config) (s : State) (i : In) (h : Q s) (hf : i.fullOnly = true) (hl : i.lowOnly = false) :
    Q (step c s i).1 ∧ (step c s i).2.txValid = false ∧ (step c s i).2.speed = .FULL := by
  obtain ⟨hfsm, hw, hsp⟩ := h
  rcases hfsm with h | h | h | h | h <;>
    refine ⟨⟨?_, ?_, ?_⟩, ?_, ?_⟩ <;>
    simp [step, h, stepInitialize, stepLsFs, stepIsLsFs, stepSuspended, stepDisconnect, mkOut, restricted, hf, hl, hsp,
      hw] <;>
    (repeat' split) <;> simp_all

/-- **A full-speed-only reset sequencer is silent and keeps FULL speed**, for every history of the other inputs. -/
theorem fs_only_silent (c : Config) (is : List In) (h : ∀ i ∈ is, i.fullOnly = true ∧ i.lowOnly = false) :
    ∀ o ∈ outs c init is, o.txValid = false ∧ o.speed = .FULL := by
  suffices H : ∀ (s : State), Q s → ∀ o ∈ outs c s is, o.txValid = false ∧ o.speed = .FULL from H init q_init
  induction is with
  | nil => intro s _ o ho; simp [outs] at ho
  | cons i is ih =>
    intro s hq o ho
    obtain ⟨hf, hl⟩ := h i (List.mem_cons_self ..)
    obtain ⟨hq', h1, h2⟩ := q_step c s i hq hf hl
    simp only [outs, List.mem_cons] at ho
    rcases ho with rfl | ho
    · exact ⟨h1, h2⟩
    · exact ih (fun j hj => h j (List.mem_cons_of_mem _ hj)) _ hq' o ho

/-- Non-vacuity: a bus reset (SE0 for longer than 5 us at the small constants) of a full-speed-only sequencer: the
`bus_reset` strobe is given, and nothing is transmitted. -/
example :
    let c : Config := ⟨2, 4, 6, 8, 10, 12, 64⟩
    let idle : In := ⟨false, true, false, true, .J, false⟩
    let se0 : In := { idle with line := .SE0 }
    let os := outs c init ([idle, idle] ++ List.replicate 8 se0 ++ [idle, idle])
    os.any (·.busReset) = true ∧ os.all (fun o => !o.txValid) = true := by decide

end LunaVerif.ResetSeq
