import LunaVerif.Props.C11
/-!
# C11 — the observer (host view + producer log) and the environment of the exactly-once theorems

Everything in this file is *specification*: it looks only at the interface trace `List (In × Out)` of
the transfer manager (never at its state).

* `Obs` — what an outside observer accumulates: the packet being reassembled from `packet_stream`
  (`cur`, with the PID that went out before its first byte), the host's data toggle (`hostPid`, the
  PID of the last packet the host kept — DATA1 initially, i.e. the host expects DATA0 first), the
  packets the host kept (`pkts`), and the `(byte, last)` pairs the producer handed over
  (`valid & ready` on `transfer_stream`).
* A packet is complete on the wire when `valid & last` is seen with the byte taken (`ready`), or — the
  `USBInStreamInterface` convention for a zero-length packet — `valid & last & ~first` outside a packet.
  The host keeps a completed packet iff its PID differs from the PID of the last packet it kept.
* `LegalInEnv` — `discard = 0` and `reset_sequence = 0` in every cycle.  Nothing is assumed about
  tokens, handshakes, `flush`, `packet_stream.ready` or the producer: the gateware takes an ACK only in
  WAIT_FOR_ACK, which it enters only by completing a packet, so "ACK only after a complete packet" is
  enforced by the FSM itself and is not needed as a hypothesis.
-/
namespace LunaVerif.InXfer

structure Obs where
  cur     : List Nat            -- bytes taken so far of the packet in flight on packet_stream
  curPid  : Bool                -- data_pid sampled with the first byte of that packet
  hostPid : Bool                -- PID of the last packet the host kept (its toggle)
  pkts    : List (List Nat)     -- packets the host kept, oldest first
  prod    : List (Nat × Bool)   -- (payload, last) accepted from the producer, oldest first
deriving Repr, DecidableEq

def obsInit : Obs := ⟨[], true, true, [], []⟩

/-- A packet `p` with PID `pid` has been completely received: kept iff the toggle differs. -/
def Obs.complete (g : Obs) (p : List Nat) (pid : Bool) : Obs :=
  if pid = g.hostPid then { g with cur := [] }
  else { g with cur := [], hostPid := pid, pkts := g.pkts ++ [p] }

/-- The packet-stream side of one cycle. -/
def obsWire (g : Obs) (i : In) (o : Out) : Obs :=
  if o.valid then
    if g.cur.isEmpty && !o.first then
      (if o.last then g.complete [] o.pid else g)                -- zero-length packet
    else if i.txReady then
      let pid := if g.cur.isEmpty then o.pid else g.curPid      -- the PID precedes the first byte
      if o.last then g.complete (g.cur ++ [o.payload]) pid
      else { g with cur := g.cur ++ [o.payload], curPid := pid }
    else g
  else g

/-- The producer side of one cycle (`transfer_stream.valid & ready`; the payload is 8 bits wide). -/
def obsProd (g : Obs) (i : In) (o : Out) : Obs :=
  if i.sValid && o.sReady then { g with prod := g.prod ++ [(i.sPayload % 256, i.sLast)] } else g

def obsStep (g : Obs) (io : In × Out) : Obs := obsProd (obsWire g io.1 io.2) io.1 io.2

def observeFrom (g : Obs) (tr : List (In × Out)) : Obs := tr.foldl obsStep g
def observe (tr : List (In × Out)) : Obs := observeFrom obsInit tr

/-- Packets the host kept. -/
def hostPackets (tr : List (In × Out)) : List (List Nat) := (observe tr).pkts
/-- Data the host accepted. -/
def hostAccepted (tr : List (In × Out)) : List Nat := (hostPackets tr).flatten
/-- `(byte, last)` pairs the producer handed over. -/
def produced (tr : List (In × Out)) : List (Nat × Bool) := (observe tr).prod
/-- Bytes the producer handed over. -/
def producerAccepted (tr : List (In × Out)) : List Nat := (produced tr).map (·.1)

/-- Valid bytes of a buffer. -/
def bufBytes (b : Buf) : List Nat := b.mem.take b.fill

/-- The abstraction map: data inside the device that the host has not kept yet — the read buffer unless
the host's toggle shows that it already kept that packet, followed by the write buffer. -/
def pending (s : State) (hostPid : Bool) : List Nat :=
  (if hostPid = s.pid then [] else bufBytes s.r) ++ bufBytes s.w

def LegalIn (i : In) : Prop := i.discard = false ∧ i.resetSeq = false
instance (i : In) : Decidable (LegalIn i) := by unfold LegalIn; infer_instance

/-- Environment of the exactly-once theorems. -/
def LegalInEnv (ins : List In) : Prop := ∀ i ∈ ins, LegalIn i
instance (ins : List In) : Decidable (LegalInEnv ins) := by unfold LegalInEnv; infer_instance


/-! ## Transfer boundaries as the host sees them

`endsOk mps marks pkts` walks through the packets the host kept (`pkts`) alongside the `last` marks of
the bytes the producer handed over (`marks`) and checks, packet by packet:

* the packet's bytes were handed over by the producer and it is no longer than `mps`;
* no byte but the final one of a packet carries a `last` mark — a transfer never continues inside a
  packet, so the packet holding a `last` byte ends with it;
* if that packet is not short (`length = mps`) a zero-length packet is *due*: the next packet the host
  keeps is empty — i.e. the host sees a short packet or a ZLP before any data of the next transfer;
* conversely a zero-length packet is kept only when it is due (so, without `flush`, the host's transfer
  boundaries are exactly the producer's). -/

structure EndSt where
  rem  : List Bool      -- `last` marks of the producer's bytes not yet consumed by kept packets
  owed : Bool           -- the previous kept packet was max-size and ended on a `last` byte: ZLP due
  ok   : Bool
deriving Repr, DecidableEq

def endStep (mps : Nat) (e : EndSt) (p : List Nat) : EndSt :=
  let chunk := e.rem.take p.length
  { rem  := e.rem.drop p.length
    owed := p.length == mps && chunk.getLast? == some true
    ok   := e.ok && decide (p.length ≤ e.rem.length) && decide (p.length ≤ mps)
              && (e.owed == p.isEmpty) && chunk.dropLast.all (!·) }

def endFold (mps : Nat) (marks : List Bool) (pkts : List (List Nat)) : EndSt :=
  pkts.foldl (endStep mps) ⟨marks, false, true⟩

def endsOk (mps : Nat) (marks : List Bool) (pkts : List (List Nat)) : Bool := (endFold mps marks pkts).ok

/-- Environment of the transfer-boundary theorem: as `LegalIn`, and ZLP generation is switched on. -/
def LegalZlpIn (i : In) : Prop := LegalIn i ∧ i.genZlps = true
instance (i : In) : Decidable (LegalZlpIn i) := by unfold LegalZlpIn; infer_instance
def LegalZlpEnv (ins : List In) : Prop := ∀ i ∈ ins, LegalZlpIn i
instance (ins : List In) : Decidable (LegalZlpEnv ins) := by unfold LegalZlpEnv; infer_instance

end LunaVerif.InXfer
