import LunaVerif.Lemmas.C25RxCdcDriftCross
import LunaVerif.Lemmas.C25RxCdcDriftStreams
/-!
# C25: the data part and the end of a packet behind the two FIFOs (clock drift)

`pays_spaced7_any`: in PKT_ACTIVE the payload writes are at least eight strobes apart whatever the data bits (`SpacedGt 7`:
seven blocks without a write between two writes; the same sentinel argument `WF` as `pays_spaced_any`).  With strobes at
least 3 cycles apart this is ≥ 21 cycles, more than the 16 the FIFO needs to be empty and settled again (`fifo_write17`).
`split_last`: such a block stream is a `SpacedV` stream, the block of the last write, and blocks without a write.
`data_tail_seg`: the data blocks followed by the block of the end flag and ≥ 16 quiet cycles, as a segment: the 12 MHz side
sees the bytes, each once, in order, then the end flag.
-/
set_option linter.unusedSimpArgs false
namespace LunaVerif.FsRxCdc
open LunaVerif.FsRx LunaVerif.FsCodec

/-- spacing with a counter: at least `thr` entries without a write between two writes (`g` = entries since the last one) -/
def SpacedGt (thr : Nat) : Nat → List (Option Nat) → Bool
  | _, [] => true
  | g, none :: r => SpacedGt thr (g + 1) r
  | g, some _ :: r => decide (thr ≤ g) && SpacedGt thr 0 r

theorem pays_spaced7_any (bits : List Bool) : ∀ (n : Nat) (sr : List Bool) (e : Bool) (j g : Nat), WF sr j →
    8 ≤ g + need j → SpacedGt 7 g (bitPays ⟨6, n, sr, e⟩ (fbits bits)) = true := by
  induction bits with
  | nil => intro n sr e j g _ _; rfl
  | cons b bs ih =>
    intro n sr e j g hw hg
    have hj := wf_le sr j hw
    obtain ⟨w1, w2⟩ := wf_step sr j b hw
    by_cases h6 : n = 6
    · have hs : bitStep ⟨6, n, sr, e⟩ (b, false) =
          ⟨6, bsStep n b, sr, (bitStep ⟨6, n, sr, e⟩ (b, false)).err⟩ := by
        simp [bitStep, detStep, h6]
      have hp : bitPay ⟨6, n, sr, e⟩ (b, false) = none := by simp [bitPay, h6]
      simp only [fbits, List.map, bitPays, hp, SpacedGt]
      rw [hs]
      exact ih _ _ _ j (g + 1) hw (by omega)
    · have e6 : (n == 6) = false := by simpa using h6
      have hs : bitStep ⟨6, n, sr, e⟩ (b, false) =
          ⟨6, bsStep n b, shiftIn sr b, (bitStep ⟨6, n, sr, e⟩ (b, false)).err⟩ := by
        simp [bitStep, detStep, e6]
      have hp : bitPay ⟨6, n, sr, e⟩ (b, false) =
          if j = 7 then some (bitsVal ((shiftIn sr b).take 8).reverse) else none := by
        simp only [bitPay, e6, Bool.not_false, Bool.true_and, beq_self_eq_true, Bool.and_assoc]
        rw [w1]; simp
      simp only [fbits, List.map, bitPays, hp]
      rw [hs]
      by_cases h7 : j = 7
      · subst h7
        simp only [if_true, SpacedGt, Bool.and_eq_true, decide_eq_true_eq]
        have hn7 : need 7 = 1 := rfl
        rw [hn7] at hg
        refine ⟨by omega, ih _ _ _ 8 0 (by simpa using w2) (by simp [need])⟩
      · simp only [h7, if_false, SpacedGt]
        by_cases h8 : j = 8
        · subst h8
          exact ih _ _ _ 1 (g + 1) (by simpa using w2) (by simp [need])
        · refine ih _ _ _ (j + 1) (g + 1) (by simpa [h8] using w2) ?_
          simp only [need, h8, if_false] at hg ⊢
          have : j + 1 ≠ 8 := by omega
          simp only [this, if_false]; omega

/-- right after a write (or with a small counter) the next entries are not writes -/
theorem prefix_none (thr : Nat) (j : Nat) : ∀ (X : List (Option Nat)) (g : Nat), SpacedGt thr g X = true →
    g + j ≤ thr → j ≤ X.length → X.take j = List.replicate j none ∧ SpacedGt thr (g + j) (X.drop j) = true := by
  induction j with
  | zero => intro X g h _ _; exact ⟨by simp, by simpa using h⟩
  | succ j ih =>
    intro X g h hg hl
    match X, hl, h with
    | none :: r, hl, h =>
      obtain ⟨i1, i2⟩ := ih r (g + 1) h (by omega) (by simpa using hl)
      refine ⟨by simp [List.replicate_succ, i1], ?_⟩
      have : g + (j + 1) = g + 1 + j := by omega
      simpa [this] using i2
    | some _ :: r, _, h =>
      simp only [SpacedGt, Bool.and_eq_true, decide_eq_true_eq] at h
      omega

theorem spacedV_drop_none (j : Nat) : ∀ (W : List (Nat × Option Nat)), SpacedV W = true →
    (W.take j).all (·.2.isNone) = true → SpacedV (W.drop j) = true := by
  induction j with
  | zero => intro W h _; simpa using h
  | succ j ih =>
    intro W h hq
    match W, h, hq with
    | [], _, _ => simp [SpacedV]
    | (n, none) :: r, h, hq =>
      rw [SpacedV] at h
      simp only [List.take_succ_cons, List.all_cons, Bool.and_eq_true] at hq
      simpa using ih r h hq.2
    | (n, some d) :: r, _, hq => simp at hq

theorem all_none_of_map (W : List (Nat × Option Nat)) (n : Nat) (h : W.map (·.2) = List.replicate n none) :
    W.all (·.2.isNone) = true := by
  rw [List.all_eq_true]
  intro x hx
  have : x.2 ∈ W.map (·.2) := List.mem_map.mpr ⟨x, hx, rfl⟩
  rw [h] at this
  rw [(List.mem_replicate.mp this).2]; rfl

/-- **the block of the last write**: a stream whose writes are ≥ 8 blocks apart is a `SpacedV` stream, the block of
the last write, and blocks without a write -/
theorem split_last (N : Nat) : ∀ (W : List (Nat × Option Nat)) (g : Nat), W.length ≤ N →
    SpacedGt 7 g (W.map (·.2)) = true →
    W.all (·.2.isNone) = true ∨
    ∃ W1 nn d Wq, W = W1 ++ (nn, some d) :: Wq ∧ Wq.all (·.2.isNone) = true ∧ SpacedV W1 = true := by
  induction N with
  | zero =>
    intro W g hl _
    have : W = [] := List.eq_nil_of_length_eq_zero (by omega)
    subst this; exact Or.inl rfl
  | succ N ih =>
    intro W g hl h
    match W, hl, h with
    | [], _, _ => exact Or.inl rfl
    | (n, none) :: r, hl, h =>
      rcases ih r (g + 1) (by simpa using hl) h with hq | ⟨W1, nn, d, Wq, e1, e2, e3⟩
      · exact Or.inl (by simp [hq])
      · refine Or.inr ⟨(n, none) :: W1, nn, d, Wq, by simp [e1], e2, ?_⟩
        rw [SpacedV]; exact e3
    | (n, some x) :: r, hl, h =>
      simp only [List.map, SpacedGt, Bool.and_eq_true, decide_eq_true_eq] at h
      rcases ih r 0 (by simpa using hl) h.2 with hq | ⟨W1, nn, d, Wq, e1, e2, e3⟩
      · exact Or.inr ⟨[], n, x, r, rfl, hq, by simp [SpacedV]⟩
      · refine Or.inr ⟨(n, some x) :: W1, nn, d, Wq, by simp [e1], e2, ?_⟩
        -- the first seven entries of `r` are not writes, so `W1` has at least seven blocks
        have hlen : 7 ≤ W1.length := by
          rcases Nat.lt_or_ge W1.length 7 with hc | hc
          · exfalso
            have hj : W1.length + 1 ≤ (r.map (·.2)).length := by simp [e1]
            obtain ⟨p1, _⟩ := prefix_none 7 (W1.length + 1) (r.map (·.2)) 0 h.2 (by omega) hj
            have : (r.map (·.2))[W1.length]? = some (some d) := by simp [e1]
            have h2 : ((r.map (·.2)).take (W1.length + 1))[W1.length]? = some (some d) := by
              rw [List.getElem?_take]; simp [this]
            rw [p1] at h2
            simp at h2
          · exact hc
        obtain ⟨p1, _⟩ := prefix_none 7 6 (r.map (·.2)) 0 h.2 (by omega) (by simp [e1]; omega)
        have hq6 : (W1.take 6).all (·.2.isNone) = true := by
          apply all_none_of_map _ 6
          have : (W1.take 6).map (·.2) = (r.map (·.2)).take 6 := by
            rw [e1, List.map_append, List.take_append_of_le_length (by simp; omega), List.map_take]
          rw [this, p1]
        rw [SpacedV]
        simp only [Bool.and_eq_true, decide_eq_true_eq]
        exact ⟨⟨by omega, hq6⟩, spacedV_drop_none 6 W1 e3 hq6⟩

theorem lenSum_append (x y : List (Nat × Option Nat)) : lenSum (x ++ y) = lenSum x + lenSum y := by
  induction x with
  | nil => simp [lenSum]
  | cons a x ih => obtain ⟨n, w⟩ := a; simp only [List.cons_append, lenSum, ih]; omega

theorem writesOf_all_none (W : List (Nat × Option Nat)) (h : W.all (·.2.isNone) = true) : writesOf (W.map (·.2)) = [] := by
  induction W with
  | nil => rfl
  | cons a W ih =>
    obtain ⟨n, w⟩ := a
    simp only [List.all_cons, Bool.and_eq_true] at h
    have hw : w = none := by cases w <;> simp_all
    subst hw
    simpa [writesOf] using ih h.2

/-- **data and end of packet**: payload writes at least eight blocks apart (blocks of ≥ 3 cycles), then the end flag and
`K2 ≥ 16` cycles: the 12 MHz side sees the bytes, each once, in order, while in progress, then the end flag -/
theorem data_tail_seg (φ : Nat) (hφ : φ < 4) (W : List (Nat × Option Nat)) (hl : ∀ x ∈ W, 3 ≤ x.1) (g : Nat)
    (hs : SpacedGt 7 g (W.map (·.2)) = true) (K2 : Nat) (hK2 : 16 ≤ K2) :
    Seg φ true (flatV 2 W ++ List.replicate (1 + K2) none) (List.replicate (lenSum W) none ++ some 1 :: List.replicate K2 none)
      (List.replicate (lenSum W + 1 + K2) false) ((writesOf (W.map (·.2))).map EvU.byte ++ [.fin]) false := by
  rcases split_last W.length W g (Nat.le_refl _) hs with hq | ⟨W1, nn, d, Wq, e1, e2, e3⟩
  · rw [flatV_quiet 2 W hl hq, List.replicate_append_replicate, writesOf_all_none W hq]
    have h1 : lenSum W + (1 + K2) = lenSum W + 1 + K2 := by omega
    rw [h1]
    exact seg_fin φ hφ (lenSum W) K2 hK2
  · subst e1
    have hl1 : ∀ x ∈ W1, 3 ≤ x.1 := fun x hx => hl x (by simp [hx])
    have hlq : ∀ x ∈ Wq, 3 ≤ x.1 := fun x hx => hl x (by simp [hx])
    have hnn : 3 ≤ nn := hl (nn, some d) (by simp)
    have hP : flatV 2 (W1 ++ (nn, some d) :: Wq) ++ List.replicate (1 + K2) none =
        flatV 2 W1 ++ window 2 d (nn - 2 - 1 + lenSum Wq + (1 + K2)) := by
      rw [flatV_append, flatV, vblk_some 2 nn d hnn (Or.inr rfl), flatV_quiet 2 Wq hlq e2, List.append_assoc,
        List.append_assoc, List.replicate_append_replicate, window_nones, Nat.add_assoc]
    have hF : List.replicate (lenSum (W1 ++ (nn, some d) :: Wq)) none ++ some 1 :: List.replicate K2 none =
        List.replicate (flatV 2 W1).length none ++ window (nn + lenSum Wq) 1 K2 := by
      rw [lenSum_append, lenSum, flatV_length 2 W1 hl1, window, ← List.append_assoc, List.replicate_append_replicate]
    have hE : List.replicate (lenSum (W1 ++ (nn, some d) :: Wq) + 1 + K2) false =
        List.replicate (flatV 2 W1).length false ++
          List.replicate (2 + 1 + (nn - 2 - 1 + lenSum Wq + (1 + K2))) false := by
      rw [lenSum_append, lenSum, flatV_length 2 W1 hl1, List.replicate_append_replicate]
      congr 1; omega
    have hev : (writesOf ((W1 ++ (nn, some d) :: Wq).map (·.2))).map EvU.byte ++ [.fin] =
        (writesOf (W1.map (·.2))).map EvU.byte ++ [.byte d, .fin] := by
      have hcons : ∀ (x : Nat) (X : List (Option Nat)), writesOf (some x :: X) = x :: writesOf X := fun _ _ => rfl
      rw [List.map_append, writesOf_append, List.map_cons, hcons, writesOf_all_none Wq e2]
      simp
    rw [hP, hF, hE, hev]
    exact seg_append φ true true false _ _ _ _ _ _ _ _ (seg_bytes φ hφ W1 hl1 e3)
      (seg_last φ hφ 2 d _ (nn + lenSum Wq) K2 (by omega) hK2 (by omega))

end LunaVerif.FsRxCdc
