import LunaVerif.Lemmas.C37LiveBase
/-!
# C37 — liveness: a requested LXU is sent

LXU has the second lowest priority in DISPATCH_COMMAND: everything else that is pending goes first, and under continuing
traffic new higher-priority work keeps arriving, so the bound necessarily counts it.  `rankX T` bounds the
number of ready cycles until `T` such commands have completed, for `T ≤ sent + [pending]`: four per LGOOD owed
(`acks_to_send`), per credit to issue, for a pending LBAD, LRTY, plus the command in progress.  *Bad*
cycles (cost ≤ 16) are the cycles in which a header is accepted, a buffer is freed, a corrupted header is noticed or
`retry_required` is pulsed.
-/
set_option linter.unusedSimpArgs false
set_option linter.unusedVariables false
namespace LunaVerif.HeaderRx

def rankX (T : Nat) (x : World) : Nat :=
  if T - x.n.lxus = 0 then 0 else
  match x.s.fsm with
  | .sendLxu => ph x.s.gen
  | .dispatch => 4 + 4 * x.s.acks + 4 * x.s.cti + lbc x.s + lr x.s
  | .sendLrty => ph x.s.gen + 4 + 4 * x.s.acks + 4 * x.s.cti + lbc x.s
  | .sendKeepalive => ph x.s.gen + 4 + 4 * x.s.acks + 4 * x.s.cti + lbc x.s + lr x.s
  | _ => ph x.s.gen + 4 * x.s.acks + 4 * x.s.cti + lbc x.s + lr x.s

def InvX (c : Config) (T : Nat) (x : World) : Prop := Inv c x.s x.g ∧ T ≤ x.n.lxus + b2 x.s.lxu

/-- cycles that bring new higher-priority work -/
def badX (x : World) (i : In) : Bool := i.retryRequired || accept x.s || pop x.s i || badEv x.s

theorem cnt_lxus (s : State) (i : In) (n : Cnt) :
    (cntStep s i n).lxus = n.lxus + b2 (s.fsm == .sendLxu && done s i) := by
  simp only [cntStep]; cases (s.fsm == Fsm.sendLxu && done s i) <;> simp

set_option hygiene false in
local macro "rank_go" hf:ident h0:ident h1:ident h2:ident h3:ident : tactic =>
  `(tactic| (
    have hlr : lr s = if s.lrty then 4 else 0 := rfl
    cases hg : s.gen <;> cases hr : i.srcReady <;> cases hl : s.lrty <;>
      simp [$hf:ident, $h0:ident, $h1:ident, $h2:ident, $h3:ident, hfl, hg, hr, hl, fsm_beq, gen_beq, fsmNext, genNext, done,
        lgoodDone, lcrdDone, dispatchNext, generate, ph, nf, nr, na, en, step_fsm, step_gen]
        at fa fc fb flr lgA lcC fA fC g0 lrD lbD lbS lxD hlr hlbc hlxc hT hz ⊢ <;>
      (repeat' split) <;> (try simp only [ph] at *) <;> omega))

set_option hygiene false in
local macro "rank_pre" : tactic =>
  `(tactic| (
    obtain ⟨fa, fc, fb, flg, flc, fac, a4, a3, bc, bc3, cr, hk, hc, pb, lgA, lcC, fA, fC, g0, en, nf, nr, accA,
      bcA, popB, aL, pL, lrN, lrD, lbI⟩ := facts_of (c := c) hI e
    have na := no_abort (c := c) hI e
    obtain ⟨lb, lbK, lbN, lbD, lbS, lrK, lrN4, lxK, lxN, lxD, kaK⟩ := facts2_of (c := c) hI e
    have flr := cnt_lxus s i n
    have bB := b2_le (badEv s)
    have bR := b2_le i.retryRequired
    have bX := b2_le i.rejectPower
    simp only [World.next, rankX] at hz ⊢
    simp only [flr]
    have hfl : s.lxu = true := by
      cases hx : s.lxu
      · exfalso; rw [hx] at hT; simp only [b2_false] at hT; split at hz <;> omega
      · rfl))

section
variable {c : Config} {T : Nat} {s : State} {g : Ghost} {n : Cnt} {i : In}

theorem rankX_step_dispatch00 (hI : Inv c s g) (hT : T ≤ n.lxus + b2 s.lxu) (e : EnvStep s g i)
    (hf : s.fsm = .dispatch) (h0 : s.acks = 0) (h1 : s.cti = 0) (hz : rankX T ⟨s, g, n⟩ ≠ 0) :
    rankX T (World.next c ⟨s, g, n⟩ i) + (if i.srcReady then 1 else 0) ≤
      rankX T ⟨s, g, n⟩ + (4 * b2 i.retryRequired + 4 * b2 (accept s) + 4 * b2 (pop s i) + 4 * b2 (badEv s)) := by
  rank_pre
  have hgi := g0 hf
  have hlbc : lbc s = if s.lbad then 4 else 0 := rfl
  have hlxc : lxc s = if s.lxu then 4 else 0 := rfl
  cases hlbad : s.lbad <;> rank_go hf h0 h1 hlbad hlbad

theorem rankX_step_dispatch0N (hI : Inv c s g) (hT : T ≤ n.lxus + b2 s.lxu) (e : EnvStep s g i)
    (hf : s.fsm = .dispatch) (h0 : s.acks = 0) (h1 : ¬ s.cti = 0) (hz : rankX T ⟨s, g, n⟩ ≠ 0) :
    rankX T (World.next c ⟨s, g, n⟩ i) + (if i.srcReady then 1 else 0) ≤
      rankX T ⟨s, g, n⟩ + (4 * b2 i.retryRequired + 4 * b2 (accept s) + 4 * b2 (pop s i) + 4 * b2 (badEv s)) := by
  rank_pre
  have hgi := g0 hf
  have hlbc : lbc s = if s.lbad then 4 else 0 := rfl
  have hlxc : lxc s = if s.lxu then 4 else 0 := rfl
  cases hlbad : s.lbad <;> rank_go hf h0 h1 hlbad hlbad

theorem rankX_step_dispatchN0 (hI : Inv c s g) (hT : T ≤ n.lxus + b2 s.lxu) (e : EnvStep s g i)
    (hf : s.fsm = .dispatch) (h0 : ¬ s.acks = 0) (h1 : s.cti = 0) (hz : rankX T ⟨s, g, n⟩ ≠ 0) :
    rankX T (World.next c ⟨s, g, n⟩ i) + (if i.srcReady then 1 else 0) ≤
      rankX T ⟨s, g, n⟩ + (4 * b2 i.retryRequired + 4 * b2 (accept s) + 4 * b2 (pop s i) + 4 * b2 (badEv s)) := by
  rank_pre
  have hgi := g0 hf
  have hlbc : lbc s = if s.lbad then 4 else 0 := rfl
  have hlxc : lxc s = if s.lxu then 4 else 0 := rfl
  cases hlbad : s.lbad <;> rank_go hf h0 h1 hlbad hlbad

theorem rankX_step_dispatchNN (hI : Inv c s g) (hT : T ≤ n.lxus + b2 s.lxu) (e : EnvStep s g i)
    (hf : s.fsm = .dispatch) (h0 : ¬ s.acks = 0) (h1 : ¬ s.cti = 0) (hz : rankX T ⟨s, g, n⟩ ≠ 0) :
    rankX T (World.next c ⟨s, g, n⟩ i) + (if i.srcReady then 1 else 0) ≤
      rankX T ⟨s, g, n⟩ + (4 * b2 i.retryRequired + 4 * b2 (accept s) + 4 * b2 (pop s i) + 4 * b2 (badEv s)) := by
  rank_pre
  have hgi := g0 hf
  have hlbc : lbc s = if s.lbad then 4 else 0 := rfl
  have hlxc : lxc s = if s.lxu then 4 else 0 := rfl
  cases hlbad : s.lbad <;> rank_go hf h0 h1 hlbad hlbad

theorem rankX_step_sendAcks1 (hI : Inv c s g) (hT : T ≤ n.lxus + b2 s.lxu) (e : EnvStep s g i)
    (hf : s.fsm = .sendAcks) (h0 : s.acks = 1) (hz : rankX T ⟨s, g, n⟩ ≠ 0) :
    rankX T (World.next c ⟨s, g, n⟩ i) + (if i.srcReady then 1 else 0) ≤
      rankX T ⟨s, g, n⟩ + (4 * b2 i.retryRequired + 4 * b2 (accept s) + 4 * b2 (pop s i) + 4 * b2 (badEv s)) := by
  rank_pre
  have hlbc : True := trivial
  have hlxc : True := trivial
  rank_go hf h0 h0 h0 h0

theorem rankX_step_sendAcksN (hI : Inv c s g) (hT : T ≤ n.lxus + b2 s.lxu) (e : EnvStep s g i)
    (hf : s.fsm = .sendAcks) (h0 : ¬ s.acks = 1) (hz : rankX T ⟨s, g, n⟩ ≠ 0) :
    rankX T (World.next c ⟨s, g, n⟩ i) + (if i.srcReady then 1 else 0) ≤
      rankX T ⟨s, g, n⟩ + (4 * b2 i.retryRequired + 4 * b2 (accept s) + 4 * b2 (pop s i) + 4 * b2 (badEv s)) := by
  rank_pre
  have hlbc : True := trivial
  have hlxc : True := trivial
  rank_go hf h0 h0 h0 h0

theorem rankX_step_issueCredits1 (hI : Inv c s g) (hT : T ≤ n.lxus + b2 s.lxu) (e : EnvStep s g i)
    (hf : s.fsm = .issueCredits) (h0 : s.cti = 1) (hz : rankX T ⟨s, g, n⟩ ≠ 0) :
    rankX T (World.next c ⟨s, g, n⟩ i) + (if i.srcReady then 1 else 0) ≤
      rankX T ⟨s, g, n⟩ + (4 * b2 i.retryRequired + 4 * b2 (accept s) + 4 * b2 (pop s i) + 4 * b2 (badEv s)) := by
  rank_pre
  have hlbc : True := trivial
  have hlxc : True := trivial
  rank_go hf h0 h0 h0 h0

theorem rankX_step_issueCreditsN (hI : Inv c s g) (hT : T ≤ n.lxus + b2 s.lxu) (e : EnvStep s g i)
    (hf : s.fsm = .issueCredits) (h0 : ¬ s.cti = 1) (hz : rankX T ⟨s, g, n⟩ ≠ 0) :
    rankX T (World.next c ⟨s, g, n⟩ i) + (if i.srcReady then 1 else 0) ≤
      rankX T ⟨s, g, n⟩ + (4 * b2 i.retryRequired + 4 * b2 (accept s) + 4 * b2 (pop s i) + 4 * b2 (badEv s)) := by
  rank_pre
  have hlbc : True := trivial
  have hlxc : True := trivial
  rank_go hf h0 h0 h0 h0

theorem rankX_step_sendLbad (hI : Inv c s g) (hT : T ≤ n.lxus + b2 s.lxu) (e : EnvStep s g i)
    (hf : s.fsm = .sendLbad) (hz : rankX T ⟨s, g, n⟩ ≠ 0) :
    rankX T (World.next c ⟨s, g, n⟩ i) + (if i.srcReady then 1 else 0) ≤
      rankX T ⟨s, g, n⟩ + (4 * b2 i.retryRequired + 4 * b2 (accept s) + 4 * b2 (pop s i) + 4 * b2 (badEv s)) := by
  rank_pre
  have hlbc : True := trivial
  have hlxc : True := trivial
  rank_go hf hf hf hf hf

theorem rankX_step_sendLrty (hI : Inv c s g) (hT : T ≤ n.lxus + b2 s.lxu) (e : EnvStep s g i)
    (hf : s.fsm = .sendLrty) (hz : rankX T ⟨s, g, n⟩ ≠ 0) :
    rankX T (World.next c ⟨s, g, n⟩ i) + (if i.srcReady then 1 else 0) ≤
      rankX T ⟨s, g, n⟩ + (4 * b2 i.retryRequired + 4 * b2 (accept s) + 4 * b2 (pop s i) + 4 * b2 (badEv s)) := by
  rank_pre
  have hlbc : True := trivial
  have hlxc : True := trivial
  rank_go hf hf hf hf hf

theorem rankX_step_sendKeepalive (hI : Inv c s g) (hT : T ≤ n.lxus + b2 s.lxu) (e : EnvStep s g i)
    (hf : s.fsm = .sendKeepalive) (hz : rankX T ⟨s, g, n⟩ ≠ 0) :
    rankX T (World.next c ⟨s, g, n⟩ i) + (if i.srcReady then 1 else 0) ≤
      rankX T ⟨s, g, n⟩ + (4 * b2 i.retryRequired + 4 * b2 (accept s) + 4 * b2 (pop s i) + 4 * b2 (badEv s)) := by
  rank_pre
  have hlbc : True := trivial
  have hlxc : True := trivial
  rank_go hf hf hf hf hf

theorem rankX_step_sendLxu (hI : Inv c s g) (hT : T ≤ n.lxus + b2 s.lxu) (e : EnvStep s g i)
    (hf : s.fsm = .sendLxu) (hz : rankX T ⟨s, g, n⟩ ≠ 0) :
    rankX T (World.next c ⟨s, g, n⟩ i) + (if i.srcReady then 1 else 0) ≤
      rankX T ⟨s, g, n⟩ + (4 * b2 i.retryRequired + 4 * b2 (accept s) + 4 * b2 (pop s i) + 4 * b2 (badEv s)) := by
  rank_pre
  have hlbc : True := trivial
  have hlxc : True := trivial
  rank_go hf hf hf hf hf

theorem rankX_zero {T : Nat} {x : World} (hz : rankX T x = 0) : T ≤ x.n.lxus := by
  simp only [rankX] at hz
  split at hz
  · omega
  · exfalso; revert hz; cases x.s.fsm <;> cases x.s.gen <;> simp [ph]

theorem badX_cost (r a p b : Bool) : 4 * b2 r + 4 * b2 a + 4 * b2 p + 4 * b2 b ≤
    if (r || a || p || b) = true then 16 else 0 := by
  cases a <;> cases p <;> cases b <;> cases r <;> simp [b2]

/-- **One cycle, LXU rank.** -/
theorem rankX_step (c : Config) (T : Nat) :
    StepOk (World.next c) WOk (InvX c T) (rankX T) rdyW badX 16 := by
  intro x i hI e
  obtain ⟨s, g, n⟩ := x
  obtain ⟨hI, hT⟩ := hI
  simp only [WOk] at hI hT e
  have F2 := facts2_of (c := c) hI e
  refine ⟨⟨inv_step hI e, ?_⟩, ?_, ?_⟩
  · have h1 := cnt_lxus s i n; have h2 := F2.lxK
    simp only [World.next, h1]
    cases hd : (s.fsm == Fsm.sendLxu && done s i)
    · cases hl : s.lxu
      · rw [hl] at hT; simp only [b2_false] at hT ⊢; omega
      · rw [h2 hl hd]; rw [hl] at hT; simpa using hT
    · have := b2_le s.lxu; simp only [b2_true]; omega
  · intro hz
    have h2 := cnt_lxus s i n
    have := rankX_zero hz
    simp only [rankX, World.next, h2]
    rw [if_pos (by simp only at this; omega)]
  · intro hz
    simp only [rdyW, badX]
    refine Nat.le_trans ?_ (Nat.add_le_add_left (badX_cost i.retryRequired (accept s) (pop s i) (badEv s)) _)
    cases hf : s.fsm
    · by_cases h0 : s.acks = 0 <;> by_cases h1 : s.cti = 0
      · exact rankX_step_dispatch00 hI hT e hf h0 h1 hz
      · exact rankX_step_dispatch0N hI hT e hf h0 h1 hz
      · exact rankX_step_dispatchN0 hI hT e hf h0 h1 hz
      · exact rankX_step_dispatchNN hI hT e hf h0 h1 hz
    · by_cases h0 : s.acks = 1
      · exact rankX_step_sendAcks1 hI hT e hf h0 hz
      · exact rankX_step_sendAcksN hI hT e hf h0 hz
    · by_cases h0 : s.cti = 1
      · exact rankX_step_issueCredits1 hI hT e hf h0 hz
      · exact rankX_step_issueCreditsN hI hT e hf h0 hz
    · exact rankX_step_sendLbad hI hT e hf hz
    · exact rankX_step_sendLrty hI hT e hf hz
    · exact rankX_step_sendKeepalive hI hT e hf hz
    · exact rankX_step_sendLxu hI hT e hf hz

theorem rankX_le (c : Config) (T : Nat) (x : World) (h : InvX c T x) : rankX T x ≤ 48 := by
  obtain ⟨s, g, n⟩ := x
  obtain ⟨hI, hT⟩ := h
  simp only at hI hT
  have h1 := hI.hbf; have h2 := hI.hcti; have h3 := hI.hcred; have h4 := hI.hacks4
  have hlr : lr s ≤ 4 := by simp only [lr]; split <;> omega
  have hlb : lbc s ≤ 4 := by simp only [lbc]; split <;> omega
  have hlx : lxc s ≤ 4 := by simp only [lxc]; split <;> omega
  simp only [rankX]
  split
  · omega
  · cases s.fsm <;> cases s.gen <;> simp only [ph] <;> omega

end

/-- the number of completed LXU commands along a history -/
def lxusRun (c : Config) : State → Nat → List In → Nat
  | _, k, [] => k
  | s, k, i :: is => lxusRun c (step c s i).1 (k + b2 (s.fsm == .sendLxu && done s i)) is

theorem runW_lxus (c : Config) (is : List In) : ∀ x : World,
    (runW c x is).n.lxus = lxusRun c x.s x.n.lxus is := by
  induction is with
  | nil => intro x; rfl
  | cons i is ih =>
    intro x
    simp only [runW, runS, lxusRun]
    rw [← cnt_lxus x.s i x.n]
    exact ih (World.next c x i)

/-- number of bad cycles of a history from a state -/
def badXCount (c : Config) (s : State) (g : Ghost) (is : List In) : Nat :=
  cntS (World.next c) badX ⟨s, g, Cnt.init⟩ is

/-- **LXU liveness, from any reachable state.**  If the request is pending, the command completes on
the wire once the history contains `48 + 16·(bad cycles)` ready cycles. -/
theorem lxu_live (c : Config) (s : State) (g : Ghost) (h : Inv c s g) (hp : s.lxu = true) (is : List In)
    (ho : EnvOk c s g is) (hn : 48 + 16 * badXCount c s g is ≤ readyCount is) :
    1 ≤ lxusRun c s 0 is := by
  have hx : InvX c 1 ⟨s, g, Cnt.init⟩ := ⟨h, by simp [Cnt.init, hp]⟩
  have hle := rankX_le c 1 _ hx
  have hz := converge (World.next c) WOk (InvX c 1) (rankX 1) rdyW badX 16 (rankX_step c 1) is
    ⟨s, g, Cnt.init⟩ hx ((okW_iff c is _).2 ho) (by rw [cnt_rdyW]; simp only [badXCount] at hn; omega)
  have := rankX_zero hz
  rw [runW_lxus] at this
  exact this

end LunaVerif.HeaderRx
