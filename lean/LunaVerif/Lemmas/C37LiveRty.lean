import LunaVerif.Lemmas.C37LiveBase
/-!
# C37 — liveness: a requested LRTY is sent

`rankR T` bounds the number of ready cycles until `T` LRTYs have completed on the wire, for every
`T ≤ lrtys + [lrty_pending]`.  LRTY has the highest priority in DISPATCH_COMMAND; ahead of it is only the
session in progress: a SEND_ACKS session (at most `acks_to_send + (lcrds − accepted)` LGOODs: those owed plus
those for headers the partner can still send with the credits it holds) or an ISSUE_CREDITS session (at most
`credits_to_issue + buffers_filled + (4 − acks_to_send)` LCRDs) or one other command.  No *bad* cycles.

As coded, `lrty_pending` is cleared by the completion of an LRTY even when `retry_required` is pulsed in that
very cycle (the FSM's `lrty_pending.eq(0)` comes later in program order): such a request is merged with the
LRTY that has just been sent (`lrty_request_latched`).
-/
set_option linter.unusedSimpArgs false
set_option linter.unusedVariables false
namespace LunaVerif.HeaderRx

def rankR (T : Nat) (x : World) : Nat :=
  if T - x.n.lrtys = 0 then 0 else
  match x.s.fsm with
  | .sendLrty => ph x.s.gen
  | .dispatch => 4
  | .sendAcks => ph x.s.gen + 3 * (x.s.acks + x.g.lcrds.length - x.g.accepted.length - 1) + 4
  | .issueCredits => ph x.s.gen + 3 * (x.s.cti + x.s.bf + 3 - x.s.acks) + 4
  | _ => ph x.s.gen + 4

def InvR (c : Config) (T : Nat) (x : World) : Prop := Inv c x.s x.g ∧ T ≤ x.n.lrtys + b2 x.s.lrty

def badNone (_ : World) (_ : In) : Bool := false

theorem cnt_lrtys (s : State) (i : In) (n : Cnt) :
    (cntStep s i n).lrtys = n.lrtys + b2 (s.fsm == .sendLrty && done s i) := by
  simp only [cntStep]; cases (s.fsm == Fsm.sendLrty && done s i) <;> simp

/-- a retry request is latched unless an LRTY completes in that very cycle -/
theorem lrty_request_latched (c : Config) (s : State) (i : In) (hn : resetNow c s i = false)
    (hr : i.retryRequired = true) (hd : (s.fsm == .sendLrty && done s i) = false) :
    (step c s i).1.lrty = true := by
  simp [step_lrty, hn, hd, hr]

set_option hygiene false in
local macro "rank_go" hf:ident h0:ident : tactic =>
  `(tactic| (
    cases hg : s.gen <;> cases hr : i.srcReady <;> cases hl : s.lrty <;>
      simp [$hf:ident, $h0:ident, hg, hr, hl, fsm_beq, gen_beq, fsmNext, genNext, done,
        lgoodDone, lcrdDone, dispatchNext, generate, ph, nf, nr, na, en, step_fsm, step_gen]
        at fa fc fb flc fac flr lgA lcC fA fC g0 hT hz ⊢ <;>
      (repeat' split) <;> (try simp only [ph] at *) <;> omega))

set_option hygiene false in
local macro "rank_pre" : tactic =>
  `(tactic| (
    obtain ⟨fa, fc, fb, flg, flc, fac, a4, a3, bc, bc3, cr, hk, hc, pb, lgA, lcC, fA, fC, g0, en, nf, nr, accA,
      bcA, popB, aL, pL, lrN, lrD, lbI⟩ := facts_of (c := c) hI e
    have na := no_abort (c := c) hI e
    have flr := cnt_lrtys s i n
    simp only [World.next, rankR] at hz ⊢
    simp only [flr, flc, fac]))

section
variable {c : Config} {T : Nat} {s : State} {g : Ghost} {n : Cnt} {i : In}

theorem rankR_step_dispatch (hI : Inv c s g) (hT : T ≤ n.lrtys + b2 s.lrty) (e : EnvStep s g i)
    (hf : s.fsm = .dispatch) (hz : rankR T ⟨s, g, n⟩ ≠ 0) :
    rankR T (World.next c ⟨s, g, n⟩ i) + (if i.srcReady then 1 else 0) ≤ rankR T ⟨s, g, n⟩ := by
  rank_pre
  have hgi := g0 hf
  rank_go hf hf

theorem rankR_step_sendAcks1 (hI : Inv c s g) (hT : T ≤ n.lrtys + b2 s.lrty) (e : EnvStep s g i)
    (hf : s.fsm = .sendAcks) (h0 : s.acks = 1) (hz : rankR T ⟨s, g, n⟩ ≠ 0) :
    rankR T (World.next c ⟨s, g, n⟩ i) + (if i.srcReady then 1 else 0) ≤ rankR T ⟨s, g, n⟩ := by
  rank_pre
  rank_go hf h0

theorem rankR_step_sendAcksN (hI : Inv c s g) (hT : T ≤ n.lrtys + b2 s.lrty) (e : EnvStep s g i)
    (hf : s.fsm = .sendAcks) (h0 : ¬ s.acks = 1) (hz : rankR T ⟨s, g, n⟩ ≠ 0) :
    rankR T (World.next c ⟨s, g, n⟩ i) + (if i.srcReady then 1 else 0) ≤ rankR T ⟨s, g, n⟩ := by
  rank_pre
  rank_go hf h0

theorem rankR_step_issueCredits1 (hI : Inv c s g) (hT : T ≤ n.lrtys + b2 s.lrty) (e : EnvStep s g i)
    (hf : s.fsm = .issueCredits) (h0 : s.cti = 1) (hz : rankR T ⟨s, g, n⟩ ≠ 0) :
    rankR T (World.next c ⟨s, g, n⟩ i) + (if i.srcReady then 1 else 0) ≤ rankR T ⟨s, g, n⟩ := by
  rank_pre
  rank_go hf h0

theorem rankR_step_issueCreditsN (hI : Inv c s g) (hT : T ≤ n.lrtys + b2 s.lrty) (e : EnvStep s g i)
    (hf : s.fsm = .issueCredits) (h0 : ¬ s.cti = 1) (hz : rankR T ⟨s, g, n⟩ ≠ 0) :
    rankR T (World.next c ⟨s, g, n⟩ i) + (if i.srcReady then 1 else 0) ≤ rankR T ⟨s, g, n⟩ := by
  rank_pre
  rank_go hf h0

theorem rankR_step_sendLbad (hI : Inv c s g) (hT : T ≤ n.lrtys + b2 s.lrty) (e : EnvStep s g i)
    (hf : s.fsm = .sendLbad) (hz : rankR T ⟨s, g, n⟩ ≠ 0) :
    rankR T (World.next c ⟨s, g, n⟩ i) + (if i.srcReady then 1 else 0) ≤ rankR T ⟨s, g, n⟩ := by
  rank_pre
  rank_go hf hf

theorem rankR_step_sendLrty (hI : Inv c s g) (hT : T ≤ n.lrtys + b2 s.lrty) (e : EnvStep s g i)
    (hf : s.fsm = .sendLrty) (hz : rankR T ⟨s, g, n⟩ ≠ 0) :
    rankR T (World.next c ⟨s, g, n⟩ i) + (if i.srcReady then 1 else 0) ≤ rankR T ⟨s, g, n⟩ := by
  rank_pre
  rank_go hf hf

theorem rankR_step_sendKeepalive (hI : Inv c s g) (hT : T ≤ n.lrtys + b2 s.lrty) (e : EnvStep s g i)
    (hf : s.fsm = .sendKeepalive) (hz : rankR T ⟨s, g, n⟩ ≠ 0) :
    rankR T (World.next c ⟨s, g, n⟩ i) + (if i.srcReady then 1 else 0) ≤ rankR T ⟨s, g, n⟩ := by
  rank_pre
  rank_go hf hf

theorem rankR_step_sendLxu (hI : Inv c s g) (hT : T ≤ n.lrtys + b2 s.lrty) (e : EnvStep s g i)
    (hf : s.fsm = .sendLxu) (hz : rankR T ⟨s, g, n⟩ ≠ 0) :
    rankR T (World.next c ⟨s, g, n⟩ i) + (if i.srcReady then 1 else 0) ≤ rankR T ⟨s, g, n⟩ := by
  rank_pre
  rank_go hf hf

theorem rankR_zero {T : Nat} {x : World} (hz : rankR T x = 0) : T ≤ x.n.lrtys := by
  simp only [rankR] at hz
  split at hz
  · omega
  · exfalso; revert hz; cases x.s.fsm <;> cases x.s.gen <;> simp [ph]

/-- **One cycle, LRTY rank.** -/
theorem rankR_step (c : Config) (T : Nat) :
    StepOk (World.next c) WOk (InvR c T) (rankR T) rdyW badNone 0 := by
  intro x i hI e
  obtain ⟨s, g, n⟩ := x
  obtain ⟨hI, hT⟩ := hI
  simp only [WOk] at hI hT e
  have F2 := facts2_of (c := c) hI e
  refine ⟨⟨inv_step hI e, ?_⟩, ?_, ?_⟩
  · have h1 := cnt_lrtys s i n; have h2 := F2.lrK
    simp only [World.next, h1]
    cases hd : (s.fsm == Fsm.sendLrty && done s i)
    · cases hl : s.lrty
      · rw [hl] at hT; simp only [b2_false] at hT ⊢; omega
      · rw [h2 hl hd]; rw [hl] at hT; simpa using hT
    · have := b2_le s.lrty; simp only [b2_true]; omega
  · intro hz
    have h2 := cnt_lrtys s i n
    have := rankR_zero hz
    simp only [rankR, World.next, h2]
    rw [if_pos (by simp only at this; omega)]
  · intro hz
    simp only [rdyW, badNone, Bool.false_eq_true, if_false, Nat.add_zero]
    cases hf : s.fsm
    · exact rankR_step_dispatch hI hT e hf hz
    · by_cases h0 : s.acks = 1
      · exact rankR_step_sendAcks1 hI hT e hf h0 hz
      · exact rankR_step_sendAcksN hI hT e hf h0 hz
    · by_cases h0 : s.cti = 1
      · exact rankR_step_issueCredits1 hI hT e hf h0 hz
      · exact rankR_step_issueCreditsN hI hT e hf h0 hz
    · exact rankR_step_sendLbad hI hT e hf hz
    · exact rankR_step_sendLrty hI hT e hf hz
    · exact rankR_step_sendKeepalive hI hT e hf hz
    · exact rankR_step_sendLxu hI hT e hf hz

theorem rankR_le (c : Config) (T : Nat) (x : World) (h : InvR c T x) : rankR T x ≤ 28 := by
  obtain ⟨s, g, n⟩ := x
  obtain ⟨hI, hT⟩ := h
  simp only at hI hT
  have h1 := hI.hbf; have h2 := hI.hcti; have h3 := hI.hcred; have h4 := hI.hacks4
  simp only [rankR]
  split
  · omega
  · cases s.fsm <;> cases s.gen <;> simp only [ph] <;> omega

end

/-- the number of completed LRTYs along a history -/
def lrtysRun (c : Config) : State → Nat → List In → Nat
  | _, k, [] => k
  | s, k, i :: is => lrtysRun c (step c s i).1 (k + b2 (s.fsm == .sendLrty && done s i)) is

theorem runW_lrtys (c : Config) (is : List In) : ∀ x : World,
    (runW c x is).n.lrtys = lrtysRun c x.s x.n.lrtys is := by
  induction is with
  | nil => intro x; rfl
  | cons i is ih =>
    intro x
    simp only [runW, runS, lrtysRun]
    rw [← cnt_lrtys x.s i x.n]
    exact ih (World.next c x i)

/-- **LRTY liveness, from any reachable state.**  If `lrty_pending` is set, an LRTY completes on the wire
within 28 ready cycles. -/
theorem lrty_live (c : Config) (s : State) (g : Ghost) (h : Inv c s g) (hp : s.lrty = true) (is : List In)
    (ho : EnvOk c s g is) (hn : 28 ≤ readyCount is) : 1 ≤ lrtysRun c s 0 is := by
  have hx : InvR c 1 ⟨s, g, Cnt.init⟩ := ⟨h, by simp [Cnt.init, hp]⟩
  have hle := rankR_le c 1 _ hx
  have hz := converge (World.next c) WOk (InvR c 1) (rankR 1) rdyW badNone 0 (rankR_step c 1) is
    ⟨s, g, Cnt.init⟩ hx ((okW_iff c is _).2 ho) (by rw [cnt_rdyW]; omega)
  have := rankR_zero hz
  rw [runW_lrtys] at this
  exact this

end LunaVerif.HeaderRx
