import LunaVerif.Lemmas.C13Write
/-!
# C13 — the write-side invariant through the end of a transaction (commit / discard / response)
-/
namespace LunaVerif.StreamOutEndpoint
open LunaVerif

set_option hygiene false in
/-- one leaf of the case analysis of `winv_step_finStrobe` / `winv_step_finWait` -/
local macro "fin_leaf" : tactic => `(tactic|
  ((try simp [hR, hO, hP, hM, pktEntries, marks] at h hco hio hrok) <;>
   (try simp [WState.Inv, WState.next, WInv, regsNext, combG_tok htok hpid, wNext, wctl, Acct.step, Phase.answered,
      okayP, hsG, hn, hco, hio, hR, hO, hP, hM, hnew, hc, hT, hping, hep, htg]) <;>
   (try simp_all [pktEntries, marks]) <;>
   (first | omega | grind)))

theorem winv_step_finStrobe {c : Config} {t : Tok} {pid : Nat} {bytes : List Nat} {ok responded : Bool}
    {s : WState} {o : BoundaryDetector.Out} {full : Bool} {space : Nat}
    {i : In} {p' : Phase} (hmps : 1 ≤ c.mps) (h : s.Inv c (.finStrobe t pid bytes ok responded))
    (hv : View (.finStrobe t pid bytes ok responded) o)
    (hs : Phase.step c (.finStrobe t pid bytes ok responded) i = some p') :
    (s.next c (.finStrobe t pid bytes ok responded) o full space i).Inv c p' := by
  obtain ⟨a, r, W, com, acc⟩ := s
  obtain ⟨htg, hwf, hlen, hrsp, h⟩ := h
  obtain ⟨hn, hco, hio⟩ := hv
  obtain ⟨hst, _, hrok, h3⟩ := step_finStrobe_inv hs
  obtain ⟨htok, hpid, hnew, hclr⟩ := stable_inv hst
  simp only at htg hlen h hrsp
  cases hT : t.targets c
  · rcases h3 with ⟨_, rfl⟩ | ⟨_, _, _, rfl⟩ <;>
    simp_all [WState.Inv, WState.next, WInv, regsNext, combG_tok htok hpid, wNext, wctl, Acct.step, Phase.answered,
        okayP]
  · obtain ⟨hping, hep⟩ := targets_not_ping hwf hT
    have hc : i.clearHalt = false := by simpa [hT] using hclr
    rw [htg] at h
    simp only [hT, if_true] at h
    rcases h3 with ⟨_, rfl⟩ | ⟨_, _, _, rfl⟩
    · cases bytes with
      | nil =>
        cases ok <;> cases responded <;> cases hR : i.rxReady <;> cases hO : r.overflow <;>
        cases hP : r.packetHasData <;> by_cases hM : pid = tn a.toggle <;> simp at hrsp
        all_goals fin_leaf
      | cons b bs =>
        cases ok <;> cases responded <;> cases hR : i.rxReady <;> cases hO : r.overflow <;>
        cases hP : r.packetHasData <;> by_cases hM : pid = tn a.toggle <;> simp at hrsp
        all_goals fin_leaf
    · rename_i hr1 hR hok1
      subst hr1 hok1
      have hrok : True := trivial
      cases bytes <;> cases hO : r.overflow <;> cases hP : r.packetHasData <;> by_cases hM : pid = tn a.toggle
      all_goals fin_leaf

theorem winv_step_finWait {c : Config} {t : Tok} {pid : Nat} {bytes : List Nat}
    {s : WState} {o : BoundaryDetector.Out} {full : Bool} {space : Nat}
    {i : In} {p' : Phase} (hmps : 1 ≤ c.mps) (h : s.Inv c (.finWait t pid bytes))
    (hv : View (.finWait t pid bytes) o)
    (hs : Phase.step c (.finWait t pid bytes) i = some p') :
    (s.next c (.finWait t pid bytes) o full space i).Inv c p' := by
  obtain ⟨a, r, W, com, acc⟩ := s
  obtain ⟨htg, hwf, hW, hcnt, h⟩ := h
  obtain ⟨hn, hco, hio⟩ := hv
  obtain ⟨hst, _, h3⟩ := step_finWait_inv hs
  obtain ⟨htok, hpid, hnew, hclr⟩ := stable_inv hst
  simp only at htg hW hcnt h
  cases hT : t.targets c
  · rcases h3 with ⟨_, rfl⟩ | ⟨_, rfl⟩ <;>
    simp_all [WState.Inv, WState.next, WInv, regsNext, combG_tok htok hpid, wNext, wctl, Acct.step, Phase.answered,
        okayP]
  · obtain ⟨hping, hep⟩ := targets_not_ping hwf hT
    have hc : i.clearHalt = false := by simpa [hT] using hclr
    rw [htg] at h
    have hrok : True := trivial
    rcases h3 with ⟨hR, rfl⟩ | ⟨hR, rfl⟩ <;>
    cases bytes <;> cases hO : r.overflow <;> cases hP : r.packetHasData <;> by_cases hM : pid = tn a.toggle
    all_goals (simp [okayP, hT, hO, hM] at h)
    all_goals fin_leaf

/-- **Write-side layer**: the invariant is preserved by every accepted cycle, whatever the boundary
detector's irrelevant outputs, `fifo.full` and `fifo.space_available` are. -/
theorem winv_step {c : Config} {p p' : Phase} {s : WState} {o : BoundaryDetector.Out} {full : Bool} {space : Nat}
    {i : In} (hmps : 1 ≤ c.mps) (h : s.Inv c p) (hv : View p o) (hs : p.step c i = some p') :
    (s.next c p o full space i).Inv c p' := by
  cases p with
  | idle => exact winv_step_idle h hv hs
  | tok t => exact winv_step_tok h hv hs
  | rx t pid sent now buf => exact winv_step_rx h hv hs
  | finByte t pid sent now ok => exact winv_step_finByte hmps h hv hs
  | finStrobe t pid bytes ok responded => exact winv_step_finStrobe hmps h hv hs
  | finWait t pid bytes => exact winv_step_finWait hmps h hv hs

end LunaVerif.StreamOutEndpoint
