import LunaVerif.Lemmas.C07RefineEvents
/-!
# `cycle_refines_event`, part 3: cycle sequences, the expansion of an event, the theorems
(see Lemmas/C07Refine.lean for the set-up).
-/
namespace LunaVerif.CtrlCyc
open LunaVerif.Device

/-! ### Observing a cycle sequence -/

/-- The outputs of the cycles. -/
def outs (cyc : Cfg) (cs : CycState) (is : List CycIn) : List CycOut := (run cyc cs is).map (·.2)

/-- What the device puts on the bus during a cycle sequence: the first non-empty answer. -/
def cycResp : List CycOut → Resp
  | [] => .none
  | o :: os => if (outResp o).isNone then cycResp os else outResp o

/-- device.py: `with m.If(address_changed): address.eq(new_address)`, the same for the configuration. -/
def regsAfter : Nat × Nat → List CycOut → Nat × Nat
  | ac, [] => ac
  | ac, o :: os =>
      regsAfter (if o.addressChanged then o.newAddress else ac.1, if o.configChanged then o.newConfig else ac.2) os

theorem final_append (cyc : Cfg) (cs : CycState) (a b : List CycIn) :
    final cyc cs (a ++ b) = final cyc (final cyc cs a) b := by
  induction a generalizing cs with
  | nil => rfl
  | cons i is ih => exact ih _

theorem outs_append (cyc : Cfg) (cs : CycState) (a b : List CycIn) :
    outs cyc cs (a ++ b) = outs cyc cs a ++ outs cyc (final cyc cs a) b := by
  induction a generalizing cs with
  | nil => rfl
  | cons i is ih =>
    simp only [outs, List.cons_append, run, List.map_cons, final] at ih ⊢
    rw [ih]

theorem cycResp_append (x y : List CycOut) :
    cycResp (x ++ y) = if (cycResp x).isNone then cycResp y else cycResp x := by
  induction x with
  | nil => simp [cycResp, Resp.isNone]
  | cons o os ih =>
    simp only [List.cons_append, cycResp]
    by_cases h : (outResp o).isNone = true
    · simp only [h, if_true]; exact ih
    · simp [h]

theorem regsAfter_append (ac : Nat × Nat) (x y : List CycOut) :
    regsAfter ac (x ++ y) = regsAfter (regsAfter ac x) y := by
  induction x generalizing ac with
  | nil => rfl
  | cons o os ih => exact ih _

/-- Running the cycles `is` from any cycle-level state related to `d` ends in a state related to `d'`, the bus
carries `r`, and the address / configuration registers of device.py go from `d`'s to `d'`'s values. -/
def Sim (cyc : Cfg) (d d' : DevState) (is : List CycIn) (r : Resp) : Prop :=
  ∀ cs, Rel d cs →
    Rel d' (final cyc cs is) ∧ cycResp (outs cyc cs is) = r ∧
    regsAfter (d.address, d.config) (outs cyc cs is) = (d'.address, d'.config)

/-- Event-level states that differ only in fields the control endpoint's registers do not hold. -/
theorem Sim.relabel {cyc : Cfg} {d d' : DevState} (h1 : d'.stage = d.stage) (h2 : d'.hstate = d.hstate)
    (h3 : d'.expectingAck = d.expectingAck) (h4 : d'.startPos = d.startPos) (h5 : d'.txPid = d.txPid)
    (h6 : d'.address = d.address) (h7 : d'.config = d.config) : Sim cyc d d' [] .none := by
  intro cs hr
  exact ⟨⟨by rw [h1]; exact hr.stage, hr.h.congr h2 h3 h4 h5⟩, rfl, by simp [outs, run, regsAfter, h6, h7]⟩

theorem Sim.single {cyc : Cfg} {d d' : DevState} {i : CycIn} {r : Resp} (h : Sim1 cyc d d' i r) :
    Sim cyc d d' [i] r := by
  intro cs hr
  obtain ⟨a, b, e, f⟩ := h cs hr
  refine ⟨a, ?_, ?_⟩
  · simp only [outs, run, List.map_cons, List.map_nil, cycResp, b]
    cases r <;> simp [Resp.isNone]
  · simp only [outs, run, List.map_cons, List.map_nil, regsAfter, e, f]

theorem Sim.append {cyc : Cfg} {d d1 d2 : DevState} {a b : List CycIn} {r1 r2 : Resp}
    (h1 : Sim cyc d d1 a r1) (h2 : Sim cyc d1 d2 b r2) :
    Sim cyc d d2 (a ++ b) (if r1.isNone then r2 else r1) := by
  intro cs hr
  obtain ⟨a1, a2, a3⟩ := h1 cs hr
  obtain ⟨b1, b2, b3⟩ := h2 _ a1
  refine ⟨by rw [final_append]; exact b1, ?_, ?_⟩
  · rw [outs_append, cycResp_append, a2, b2]
  · rw [outs_append, regsAfter_append, a3, b3]

/-- Appending a silent segment. -/
theorem Sim.append_none {cyc : Cfg} {d d1 d2 : DevState} {a b : List CycIn} {r : Resp}
    (h1 : Sim cyc d d1 a r) (h2 : Sim cyc d1 d2 b .none) : Sim cyc d d2 (a ++ b) r := by
  have := h1.append h2
  cases r <;> simpa [Resp.isNone] using this

/-- Prepending a silent segment. -/
theorem Sim.none_append {cyc : Cfg} {d d1 d2 : DevState} {a b : List CycIn} {r : Resp}
    (h1 : Sim cyc d d1 a .none) (h2 : Sim cyc d1 d2 b r) : Sim cyc d d2 (a ++ b) r := by
  simpa [Resp.isNone] using h1.append h2

/-- Idle cycles (arbitrary free inputs `ns`). -/
def idle (d : DevState) (ns : List CycIn) : List CycIn := ns.map (envIn d)

theorem sim_idle (c : DevConfig) (d : DevState) (ns : List CycIn) (hns : NoStream d) :
    Sim (cfgOf c) d d (idle d ns) .none := by
  induction ns with
  | nil => exact Sim.relabel rfl rfl rfl rfl rfl rfl rfl
  | cons n ns ih =>
    have := (Sim.single (sim_quiet c d n hns)).none_append ih
    simpa [idle] using this

/-! ### The expansion of an event -/

/-- The free parameters of an expansion: the free inputs of the idle cycles before / between / after the strobes
(any number of cycles each) and of the strobe cycles themselves. -/
structure Gaps where
  pre  : List CycIn := []
  mid  : List CycIn := []
  mid2 : List CycIn := []
  post : List CycIn := []
  n1   : CycIn := {}
  n2   : CycIn := {}
  n3   : CycIn := {}

/-- The clock cycles the control endpoint sees for the event `e` received in the event-level state `d`
(see the file header of Lemmas/C07Refine.lean for the contracts of the neighbours this encodes). -/
def expand (c : DevConfig) (d : DevState) (e : HostEvent) (g : Gaps) : List CycIn :=
  let d' := (core c d e).1
  match e with
  | .token pid addr ep =>
      if addr = d.address then
        let d1 := afterToken d pid ep
        idle d g.pre ++ ([{ envIn d1 g.n1 with newToken := true }] ++ (idle d1 g.mid ++
          ([{ envIn d1 g.n2 with readyForResponse := true }] ++ idle d' g.post)))
      else idle d g.pre ++ idle d' g.post
  | .data _ p ok =>
      if ok = true then
        if d.sdWait = true ∧ p.length = 8 ∧ d.tokPid = PID_SETUP then
          idle d g.pre ++ ([{ envIn d g.n1 with received := true, su := parseSetup p }] ++ (idle d' g.mid ++
            ([{ envIn d' g.n2 with sdAck := true }] ++ (idle d' g.mid2 ++
              ([{ envIn d' g.n3 with rxReady := true }] ++ idle d' g.post)))))
        else idle d g.pre ++ ([{ envIn d g.n1 with rxReady := true }] ++ idle d' g.post)
      else idle d g.pre ++ idle d' g.post
  | .handshake pid =>
      if pid = PID_ACK then idle d g.pre ++ ([{ envIn d g.n1 with hsAck := true }] ++ idle d' g.post)
      else idle d g.pre ++ idle d' g.post
  | _ => idle d g.pre ++ idle d' g.post

theorem sim_idle_only (c : DevConfig) (d : DevState) (a b : List CycIn) (hns : NoStream d) :
    Sim (cfgOf c) d d (idle d a ++ idle d b) .none :=
  (sim_idle c d a hns).none_append (sim_idle c d b hns)

theorem noStream_afterToken {d : DevState} (pid ep : Nat) (h : NoStream d) : NoStream (afterToken d pid ep) := h

/-- A good data packet that the setup decoder does not latch: only `rx_ready_for_response` is strobed. -/
theorem sim_plain_data (c : DevConfig) (hx : c.extra = []) (d : DevState) (p : List Nat) (n : CycIn)
    (hinv : Inv d) (hns : NoStream d) (hacc : ¬ (d.sdWait = true ∧ p.length = 8 ∧ d.tokPid = PID_SETUP)) :
    Sim (cfgOf c) d (onData c d p true).1 [{ envIn d n with rxReady := true }] (onData c d p true).2 := by
  have hrx := Sim.single (sim_rxReady c hx d n hns)
  by_cases hw : d.sdWait = true
  · have hsr : rxSr d = false := by
      rcases hinv.wait_pid hw with h | h <;> simp [rxSr, h, PID_SETUP, PID_OUT]
    rw [hsr] at hrx
    have hres : onData c d p true = ({ d with sdWait := false }, .none) ∨ onData c d p true = (d, .none) := by
      unfold onData
      simp only [Bool.not_true, Bool.false_eq_true, if_false, hw, if_true]
      by_cases h8 : p.length ≤ 8
      · left; simp only [h8, if_true]
        rw [if_neg]
        intro g; exact hacc ⟨hw, g.1, g.2⟩
      · right; simp [h8]
    rcases hres with h | h <;> rw [h]
    · have := hrx.append_none (Sim.relabel (d := d) (d' := { d with sdWait := false }) rfl rfl rfl rfl rfl rfl rfl)
      simpa [reqResult] using this
    · simpa [reqResult] using hrx
  · have hres : onData c d p true = reqResult c d false (rxSr d) false := by
      unfold onData reqResult rxSr
      simp only [Bool.not_true, Bool.false_eq_true, if_false, hw]
      by_cases h1 : d.stage = .statusOut <;> by_cases h2 : d.tokEp = 0 <;> by_cases h3 : d.tokPid = PID_OUT <;>
        simp [h1, h2, h3]
    rw [hres]; exact hrx

/-- **`cycle_refines_event`.**  For every host event `e`, every event-level state `d` satisfying the model's
invariant and every choice of idle-cycle counts and free input values `g`: running the cycle-level composition
(control endpoint FSM + request multiplexer + standard request handler, endpoint 0) over the expansion of `e`,
from ANY cycle-level state related to `d`, ends in a state related to the event-level successor, puts exactly the
event-level response on the bus, and strobes `address_changed` / `config_changed` so that device.py's registers
take the event-level values -- provided the standard handler is outside its three streaming states before and
after the event, there are no additional request handlers, and the event is not a bus reset (which acts on
device.py's registers, not on the control endpoint). -/
theorem cycle_refines_event (c : DevConfig) (hx : c.extra = []) (d : DevState) (e : HostEvent) (g : Gaps)
    (hinv : Inv d) (hns : NoStream d) (hns' : NoStream (core c d e).1) (hrst : e ≠ .busReset) :
    Sim (cfgOf c) d (core c d e).1 (expand c d e g) (core c d e).2 := by
  cases e with
  | token pid addr ep =>
    by_cases ha : addr = d.address
    · subst ha
      have hcore : core c d (.token pid d.address ep) = readyResult c (afterToken d pid ep) := by
        simp [core, onToken_eq]
      simp only [expand, if_true]
      rw [hcore] at hns' ⊢
      exact (sim_idle c d g.pre hns).none_append
        ((Sim.single (sim_newToken c d pid ep g.n1 hns)).none_append
          ((sim_idle c _ g.mid (noStream_afterToken pid ep hns)).none_append
            ((Sim.single (sim_ready c hx _ g.n2 (noStream_afterToken pid ep hns))).append_none
              (sim_idle c _ g.post hns'))))
    · have hcore : core c d (.token pid addr ep) = ({ d with tokPid := 0 }, .none) := by
        simp [core, ha]
      simp only [expand, ha, if_false]
      rw [hcore] at hns' ⊢
      have := (sim_idle c d g.pre hns).none_append
        ((Sim.relabel (cyc := cfgOf c) (d := d) (d' := { d with tokPid := 0 }) rfl rfl rfl rfl rfl rfl rfl).none_append
          (sim_idle c _ g.post hns'))
      simpa using this
  | data dp p ok =>
    cases ok with
    | false =>
      have hcore : core c d (.data dp p false) = (d, .none) := by simp [core, onData]
      simp only [expand, Bool.false_eq_true, if_false]
      rw [hcore]
      exact sim_idle_only c d _ _ hns
    | true =>
      by_cases hacc : d.sdWait = true ∧ p.length = 8 ∧ d.tokPid = PID_SETUP
      · have hcore : core c d (.data dp p true) = onSetupData d p := by
          simp [core, onData, hacc.1, hacc.2.1, hacc.2.2]
        simp only [expand, if_true, hacc, and_self]
        rw [hcore] at hns' ⊢
        have hsr : rxSr (onSetupData d p).1 = false := by
          have : (onSetupData d p).1.tokPid = PID_SETUP := by
            rw [← hacc.2.2]; unfold onSetupData; simp only []; split <;> rfl
          simp [rxSr, this, PID_SETUP, PID_OUT]
        have hrx := Sim.single (sim_rxReady c hx (onSetupData d p).1 g.n3 hns')
        rw [hsr] at hrx
        have hack : (onSetupData d p).2 = .hs PID_ACK := rfl
        rw [hack]
        exact (sim_idle c d g.pre hns).none_append
          ((Sim.single (sim_received c d p g.n1 hns)).none_append
            ((sim_idle c _ g.mid hns').none_append
              ((Sim.single (sim_sdAck c _ g.n2 hns')).append_none
                ((sim_idle c _ g.mid2 hns').none_append
                  (Sim.none_append (by simpa [reqResult] using hrx) (sim_idle c _ g.post hns'))))))
      · have hcore : core c d (.data dp p true) = onData c d p true := rfl
        simp only [expand, if_true, hacc, if_false]
        rw [hcore] at hns' ⊢
        exact (sim_idle c d g.pre hns).none_append
          ((sim_plain_data c hx d p g.n1 hinv hns hacc).append_none (sim_idle c _ g.post hns'))
  | handshake pid =>
    by_cases hp : pid = PID_ACK
    · subst hp
      have hcore : core c d (.handshake PID_ACK) = (onHandshake d PID_ACK, .none) := rfl
      simp only [expand, if_true]
      rw [hcore] at hns' ⊢
      exact (sim_idle c d g.pre hns).none_append
        ((Sim.single (sim_hsAck c d g.n1 hns)).none_append (sim_idle c _ g.post hns'))
    · have hcore : core c d (.handshake pid) = (d, .none) := by
        simp [core, onHandshake, hp]
      simp only [expand, hp, if_false]
      rw [hcore]
      exact sim_idle_only c d _ _ hns
  | busReset => exact absurd rfl hrst
  | sof f => exact sim_idle_only c d _ _ hns
  | malformed b => exact sim_idle_only c d _ _ hns
  | quiet => exact sim_idle_only c d _ _ hns
  | produce e' b l => exact sim_idle_only c d _ _ hns
  | consume e' k => exact sim_idle_only c d _ _ hns
  | setSignal e' v => exact sim_idle_only c d _ _ hns

/-! ### Histories -/

/-- The control endpoint's own responses along an event history. -/
def coreResps (c : DevConfig) : DevState → List Stim → List Resp
  | _, [] => []
  | d, x :: xs => (core c d x.ev).2 :: coreResps c (Device.step c d x).1 xs

/-- The standard handler stays outside its streaming states along the history, and there is no bus reset. -/
def NoStreamFrom (c : DevConfig) : DevState → List Stim → Prop
  | d, [] => NoStream d
  | d, x :: xs => NoStream d ∧ x.ev ≠ .busReset ∧ NoStreamFrom c (Device.step c d x).1 xs

def NoStreamFrom.dec (c : DevConfig) : (d : DevState) → (xs : List Stim) → Decidable (NoStreamFrom c d xs)
  | d, [] => inferInstanceAs (Decidable (NoStream d))
  | d, x :: xs =>
    have := NoStreamFrom.dec c (Device.step c d x).1 xs
    inferInstanceAs (Decidable (NoStream d ∧ x.ev ≠ .busReset ∧ NoStreamFrom c (Device.step c d x).1 xs))

instance (c : DevConfig) (d : DevState) (xs : List Stim) : Decidable (NoStreamFrom c d xs) := NoStreamFrom.dec c d xs

theorem NoStreamFrom.head {c : DevConfig} {d : DevState} {xs : List Stim} (h : NoStreamFrom c d xs) : NoStream d := by
  cases xs with
  | nil => exact h
  | cons x xs => exact h.1

/-- The cycles of a whole history (every event with its own idle-cycle counts and free inputs). -/
def expandAll (c : DevConfig) : DevState → List (Stim × Gaps) → List CycIn
  | _, [] => []
  | d, (x, g) :: rest => expand c d x.ev g ++ expandAll c (Device.step c d x).1 rest

/-- The cycle-level responses, event by event. -/
def cycResps (c : DevConfig) : DevState → CycState → List (Stim × Gaps) → List Resp
  | _, _, [] => []
  | d, cs, (x, g) :: rest =>
      cycResp (outs (cfgOf c) cs (expand c d x.ev g)) ::
        cycResps c (Device.step c d x).1 (final (cfgOf c) cs (expand c d x.ev g)) rest

/-- One event of a history: `cycle_refines_event` with the ghost bookkeeping of `Device.step` on top. -/
theorem cycle_refines_step (c : DevConfig) (hx : c.extra = []) (d : DevState) (x : Stim) (g : Gaps)
    (hinv : Inv d) (hns : NoStream d) (hns' : NoStream (Device.step c d x).1) (hrst : x.ev ≠ .busReset) :
    Sim (cfgOf c) d (Device.step c d x).1 (expand c d x.ev g) (core c d x.ev).2 := by
  have h1 := cycle_refines_event c hx d x.ev g hinv hns hns' hrst
  have h2 : Sim (cfgOf c) (core c d x.ev).1 (Device.step c d x).1 [] .none :=
    Sim.relabel rfl rfl rfl rfl rfl rfl rfl
  simpa using h1.append_none h2

/-- **`cycle_refines_event`, histories.**  Along every event history (with arbitrary idle-cycle counts and free
inputs per event) during which the standard handler stays outside its streaming states: the cycle-level
composition, run over the concatenated expansions from any state related to the event-level start state, ends
related to the event-level final state, answers every event exactly as the event-level model does, and drives
device.py's address / configuration registers to the event-level values. -/
theorem cycle_refines_event_run (c : DevConfig) (hx : c.extra = []) (h : List (Stim × Gaps)) (d : DevState)
    (hinv : Inv d) (hns : NoStreamFrom c d (h.map (·.1))) (cs : CycState) (hr : Rel d cs) :
    Rel (Device.final c d (h.map (·.1))) (final (cfgOf c) cs (expandAll c d h)) ∧
    cycResps c d cs h = coreResps c d (h.map (·.1)) ∧
    regsAfter (d.address, d.config) (outs (cfgOf c) cs (expandAll c d h)) =
      ((Device.final c d (h.map (·.1))).address, (Device.final c d (h.map (·.1))).config) := by
  induction h generalizing d cs with
  | nil => exact ⟨hr, rfl, rfl⟩
  | cons xg rest ih =>
    obtain ⟨x, g⟩ := xg
    simp only [List.map_cons, NoStreamFrom] at hns
    obtain ⟨h1, h2, h3⟩ := hns
    obtain ⟨a1, a2, a3⟩ := cycle_refines_step c hx d x g hinv h1 h3.head h2 cs hr
    obtain ⟨b1, b2, b3⟩ := ih (Device.step c d x).1 (inv_step c d x hinv) h3 _ a1
    refine ⟨?_, ?_, ?_⟩
    · simp only [List.map_cons, Device.final, expandAll]
      rw [final_append]; exact b1
    · simp only [List.map_cons, cycResps, coreResps, a2, b2]
    · simp only [List.map_cons, Device.final, expandAll]
      rw [outs_append, regsAfter_append, a3, b3]

/-- From reset: both models start in related states. -/
theorem rel_init : Rel Device.init CtrlCyc.init := ⟨rfl, ⟨rfl, rfl, fun _ => ⟨rfl, rfl⟩⟩⟩

theorem cycle_refines_event_from_reset (c : DevConfig) (hx : c.extra = []) (h : List (Stim × Gaps))
    (hns : NoStreamFrom c Device.init (h.map (·.1))) :
    Rel (Device.final c Device.init (h.map (·.1))) (final (cfgOf c) CtrlCyc.init (expandAll c Device.init h)) ∧
    cycResps c Device.init CtrlCyc.init h = coreResps c Device.init (h.map (·.1)) ∧
    regsAfter (0, 0) (outs (cfgOf c) CtrlCyc.init (expandAll c Device.init h)) =
      ((Device.final c Device.init (h.map (·.1))).address, (Device.final c Device.init (h.map (·.1))).config) :=
  cycle_refines_event_run c hx h Device.init inv_init hns CtrlCyc.init rel_init

/-! ### Non-vacuity: a SET_ADDRESS(5) transfer with a bulk IN transaction (and its ACK) before the status stage,
then SET_CONFIGURATION(1) at the new address -/

def exGaps : Gaps := { pre := [{}, { txReady := true }], mid := [{ dValid := true }], post := [{}] }

def exHistory : List (Stim × Gaps) :=
  [(⟨.token PID_SETUP 0 0, .none⟩, exGaps), (⟨.data PID_DATA0 [0x00, 5, 5, 0, 0, 0, 0, 0] true, .none⟩, exGaps),
   (⟨.token PID_IN 0 1, .data PID_DATA0 [7]⟩, exGaps), (⟨.handshake PID_ACK, .none⟩, exGaps),
   (⟨.token PID_IN 0 0, .none⟩, exGaps), (⟨.handshake PID_ACK, .none⟩, exGaps),
   (⟨.token PID_SETUP 5 0, .none⟩, exGaps), (⟨.data PID_DATA0 [0x00, 9, 1, 0, 0, 0, 0, 0] true, .none⟩, exGaps),
   (⟨.token PID_IN 5 0, .none⟩, exGaps), (⟨.handshake PID_ACK, .none⟩, exGaps)]

example : NoStreamFrom {} Device.init (exHistory.map (·.1)) := by decide
example : (expandAll {} Device.init exHistory).length = 56 := by decide
example : coreResps {} Device.init (exHistory.map (·.1)) =
    [.none, .hs PID_ACK, .none, .none, .data PID_DATA1 [], .none, .none, .hs PID_ACK, .data PID_DATA1 [], .none] := by
  decide
example : regsAfter (0, 0) (outs (cfgOf {}) CtrlCyc.init (expandAll {} Device.init exHistory)) = (5, 1) := by decide

end LunaVerif.CtrlCyc
