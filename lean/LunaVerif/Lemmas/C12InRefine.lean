import LunaVerif.Lemmas.C12SigRefine
import LunaVerif.Lemmas.C11Refine
/-!
# C12 / C14 — `cycle_refines_event` for the stream IN endpoint (`USBStreamInEndpoint` = `USBInTransferManager`)

Cycle level: `InXfer.step` (Model/Usb2/InTransferManager.lean, C11's model with both packet memories) under the
wiring of `USBStreamInEndpoint` (`active = tokenizer.endpoint == number`, `generate_zlps = 1`,
`start_with_data1 = 0`, `flush = discard = 0`, `reset_sequence` = the halt-clear strobe naming the endpoint).
Event level: the `.sin` branch of `EpDev.epStep`.

The expansion of an event (`expand`) follows Lemmas/C12SigRefine.lean; in addition

  * a `produce` event offers its bytes one at a time: any number of idle cycles, then one cycle with
    `stream.valid` (payload, `last` on the final byte) for every byte the event-level model accepts; the producer
    stops at the first refusal; producer activity happens between transactions (DESIGN appendix D);
  * while the endpoint transmits, the packet generator takes one byte per `tx.ready` cycle, with any number of
    stall cycles before each byte; a zero-length packet is the single cycle `valid ∧ last ∧ ¬first`.

The bus observation (`wires`) decodes the endpoint's outputs as the packet generator / handshake generator do:
NAK requests, beats `(payload, first, last, data_pid[0])` taken with `valid ∧ ready`, zero-length packets, and the
bytes accepted from the producer (`valid ∧ ready` on the stream side).
-/
set_option linter.unusedSimpArgs false
set_option linter.unusedVariables false

namespace LunaVerif.C12In
open LunaVerif LunaVerif.InXfer
open LunaVerif.Device (HostEvent Resp PID_IN PID_ACK PID_NAK PID_DATA0 PID_DATA1 DevConfig DevState core)
open LunaVerif.EpDev (EpCfg InState InFsm Shared EpOut epStep haltHits inNewToken inClearHalt inToken inAck inProduce
  inFeed sharedOf)
open LunaVerif.C12Sig (Tk tkOf)

/-! ### Event level: the `.sin` branch of `epStep` as a function on `InState` -/

def inPre (ec : EpCfg) (sh : Shared) (e : InState) : InState :=
  let s := if sh.newTok then inNewToken e else e
  if haltHits ec true sh then inClearHalt s else s

def inEv (ec : EpCfg) (sh : Shared) (e : InState) (ev : HostEvent) : InState × EpOut :=
  let s := inPre ec sh e
  match ev with
  | .token _ _ _ =>
    if sh.newTok ∧ sh.tokEp = ec.num ∧ sh.tokPid = PID_IN then ((inToken s).1, { resp := (inToken s).2 }) else (s, {})
  | .handshake pid =>
    if pid = PID_ACK ∧ sh.tokEp = ec.num ∧ sh.tokPid = PID_IN then (inAck ec.size s, {}) else (s, {})
  | .produce ep bytes last =>
    if ep = ec.num then ((inProduce ec.size s bytes last).1, { app := [(inProduce ec.size s bytes last).2] }) else (s, {})
  | _ => (s, {})

theorem epStep_sin (ec : EpCfg) (sh : Shared) (e : InState) (ev : HostEvent) :
    epStep ec sh (.sin e) ev = (.sin (inEv ec sh e ev).1, (inEv ec sh e ev).2) := by
  cases ev <;> simp only [epStep, inEv, inPre] <;> (try split) <;> rfl

/-! ### Relation between the two state spaces -/

def fsmOf : InFsm → Fsm
  | .waitData => .waitData
  | .waitSend => .waitSend
  | .waitAck => .waitAck

/-- The registers agree; the two packet memories hold the event-level buffers (`bufBytes` = the first `fill`
bytes); `stream_ended` of the read buffer matters (and agrees) only for a full packet — the gateware reads it
only in the ZLP test `fill == max_packet_size ∧ ended`. -/
structure Rel (c : Config) (e : InState) (s : State) : Prop where
  inv   : Inv c s
  fsm   : s.fsm = fsmOf e.fsm
  pid   : s.pid = e.pid
  wbuf  : bufBytes s.w = e.wbuf
  wend  : s.w.ended = e.wended
  rbuf  : bufBytes s.r = e.rbuf
  rend  : s.r.fill = c.mps → s.r.ended = e.rended
  first : s.first = false

theorem rel_init (c : Config) : Rel c {} (init c) := by
  refine ⟨inv_init c, rfl, rfl, ?_, rfl, ?_, fun _ => rfl, rfl⟩ <;> simp [init, bufBytes, emptyBuf]

def cfgOf (ec : EpCfg) : Config := ⟨ec.size⟩

theorem bufBytes_length (b : Buf) (h : b.fill ≤ b.mem.length) : (bufBytes b).length = b.fill := by
  simp [bufBytes, List.length_take, Nat.min_eq_left h]

theorem Rel.wlen {c : Config} {e : InState} {s : State} (h : Rel c e s) : e.wbuf.length = s.w.fill := by
  rw [← h.wbuf]; exact bufBytes_length _ (by rw [h.inv.wlen]; exact h.inv.wfill)

theorem Rel.rlen {c : Config} {e : InState} {s : State} (h : Rel c e s) : e.rbuf.length = s.r.fill := by
  rw [← h.rbuf]; exact bufBytes_length _ (by rw [h.inv.rlen]; exact h.inv.rfill)

/-- A cycle without any strobe while the token registers show `tk`: `USBStreamInEndpoint`'s constant wiring, no
producer byte; `tx.ready` (and the unused stream payload / `last`) are taken from the arbitrary record `n`. -/
def envIn (ec : EpCfg) (tk : Tk) (n : In) : In :=
  { n with active := tk.ep == ec.num, isIn := tk.pid == PID_IN, rfr := false, newToken := false, ack := false,
           sValid := false, flush := false, discard := false, genZlps := true, resetSeq := false,
           startData1 := false }

/-! ### Observing a cycle sequence -/

inductive Wire
  | acc                                             -- a producer byte accepted (`stream.valid ∧ ready`)
  | nak                                             -- `handshakes_out.nak`
  | zlp (pid : Bool)                                -- `valid ∧ last ∧ ¬first` outside a packet
  | beat (payload : Nat) (first last pid : Bool)    -- `valid ∧ ready`
deriving DecidableEq, Repr

abbrev Tr := List (In × Out)

/-- One cycle of the decoder; `inPkt` = a packet's first beat has been taken and its last one not yet. -/
def wire1 (inPkt : Bool) (i : In) (o : Out) : List Wire × Bool :=
  let a := (if i.sValid && o.sReady then [Wire.acc] else []) ++ (if o.nak then [Wire.nak] else [])
  if o.valid then
    if !inPkt && !o.first then (a ++ (if o.last then [Wire.zlp o.pid] else []), false)
    else if i.txReady then (a ++ [Wire.beat o.payload o.first o.last o.pid], !o.last)
    else (a, inPkt)
  else (a, inPkt)

def wires : Bool → Tr → List Wire × Bool
  | b, [] => ([], b)
  | b, (i, o) :: rest => ((wire1 b i o).1 ++ (wires (wire1 b i o).2 rest).1, (wires (wire1 b i o).2 rest).2)

theorem wires_append (b : Bool) (x y : Tr) :
    wires b (x ++ y) = ((wires b x).1 ++ (wires (wires b x).2 y).1, (wires (wires b x).2 y).2) := by
  induction x generalizing b with
  | nil => simp [wires]
  | cons io rest ih => obtain ⟨i, o⟩ := io; simp [wires, ih, List.append_assoc]

theorem trace_append (c : Config) (s : State) (a b : List In) :
    trace c s (a ++ b) = trace c s a ++ trace c (runState c s a) b := by
  induction a generalizing s with
  | nil => rfl
  | cons i is ih => simp [trace, runState, ih]

theorem runState_append (c : Config) (s : State) (a b : List In) :
    runState c s (a ++ b) = runState c (runState c s a) b := by
  induction a generalizing s with
  | nil => rfl
  | cons i is ih => simp [runState, ih]

/-- Running the cycles `is` from any cycle-level state related to `e` ends in a state related to `e'`; the decoder,
started outside a packet, reads `ws` and ends outside a packet. -/
def Sim (c : Config) (e e' : InState) (is : List In) (ws : List Wire) : Prop :=
  ∀ s, Rel c e s → Rel c e' (runState c s is) ∧ wires false (trace c s is) = (ws, false)

theorem Sim.nil {c : Config} {e : InState} : Sim c e e [] [] := fun s h => ⟨h, rfl⟩

theorem Sim.append {c : Config} {e e1 e2 : InState} {a b : List In} {w1 w2 : List Wire}
    (h1 : Sim c e e1 a w1) (h2 : Sim c e1 e2 b w2) : Sim c e e2 (a ++ b) (w1 ++ w2) := by
  intro s hr
  obtain ⟨a1, a2⟩ := h1 s hr
  obtain ⟨b1, b2⟩ := h2 _ a1
  refine ⟨by rw [runState_append]; exact b1, ?_⟩
  rw [trace_append, wires_append, a2, b2]

theorem Sim.single {c : Config} {e e' : InState} {i : In} {ws : List Wire}
    (h : ∀ s, Rel c e s → Rel c e' (step c s i).1 ∧ wire1 false i (step c s i).2 = (ws, false)) :
    Sim c e e' [i] ws := by
  intro s hr
  obtain ⟨a, b⟩ := h s hr
  refine ⟨a, ?_⟩
  simp [trace, wires, b]

/-! ### Buffer bookkeeping of one cycle without `discard` -/

theorem wNext_ended (c : Config) (s : State) (i : In) (hd : i.discard = false) :
    (wNext c s i).ended = (if i.sLast && wen c s i then true else s.w.ended) := by
  simp [wNext, hd]

theorem wNext_quiet (c : Config) (s : State) (i : In) (hd : i.discard = false) (hv : i.sValid = false)
    (hl : s.w.mem.length = c.mps) (hf : s.w.fill ≤ c.mps) :
    bufBytes (wNext c s i) = bufBytes s.w ∧ (wNext c s i).ended = s.w.ended ∧ (wNext c s i).fill = s.w.fill := by
  have hw : wen c s i = false := by simp [wen, hv]
  refine ⟨by rw [bufBytes_wNext c s i hd hl hf, hw]; simp, by rw [wNext_ended c s i hd, hw]; simp, ?_⟩
  simp [wNext, hd, hw]

theorem rNext_facts (c : Config) (s : State) (i : In) (hd : i.discard = false) :
    bufBytes (rNext c s i) = bufBytes s.r ∧ (rNext c s i).ended = s.r.ended ∧ (rNext c s i).fill = s.r.fill := by
  simp [bufBytes, rNext, hd]

/-! ### One-cycle lemmas, for any input record with the stated field values -/

/-- The conditions every cycle of an expansion satisfies: the constant wiring of `USBStreamInEndpoint`. -/
structure Wired (i : In) : Prop where
  discard : i.discard = false
  flush   : i.flush = false
  genZlps : i.genZlps = true
  start1  : i.startData1 = false

/-- (K0) no strobe, no producer byte. -/
theorem step_quiet (c : Config) (e : InState) (s : State) (i : In) (hr : Rel c e s) (hw : Wired i)
    (hv : i.sValid = false) (hrs : i.resetSeq = false) (hnt : i.newToken = false) (hack : ackTaken i = false)
    (htok : inTok i = false) :
    Rel c e (step c s i).1 ∧ (step c s i).2.valid = false ∧ (step c s i).2.nak = false := by
  obtain ⟨hd, hfl, hgz, hs1⟩ := hw
  have hinv := inv_step c s i hd hr.inv
  obtain ⟨w1, w2, w3⟩ := wNext_quiet c s i hd hv hr.inv.wlen hr.inv.wfill
  obtain ⟨r1, r2, r3⟩ := rNext_facts c s i hd
  have hpr : packetReady c s i = false := by simp [packetReady, hv, hfl]
  have hfs := hr.fsm
  cases hf : e.fsm <;> rw [hf] at hfs <;> simp only [fsmOf] at hfs
  · have hs : step c s i = ({ s with w := wNext c s i, r := rNext c s i },
        ⟨inReady c s, false, s.first, false, s.r.rdata, s.pid, false, s.toggle⟩) := by
      simp [step, hfs, hpr, htok, hrs]
    rw [hs] at hinv ⊢
    exact ⟨⟨hinv, by simp [hfs, hf, fsmOf], hr.pid, by rw [w1]; exact hr.wbuf, by rw [w2]; exact hr.wend,
      by rw [r1]; exact hr.rbuf, fun h => by rw [r2]; exact hr.rend (by rw [← r3]; exact h), hr.first⟩, rfl, rfl⟩
  · have hs : step c s i = ({ s with w := wNext c s i, r := rNext c s i, sendPos := 0 },
        ⟨inReady c s, false, s.first, false, s.r.rdata, s.pid, false, s.toggle⟩) := by
      simp [step, hfs, htok, hrs, hd]
    rw [hs] at hinv ⊢
    exact ⟨⟨hinv, by simp [hfs, hf, fsmOf], hr.pid, by rw [w1]; exact hr.wbuf, by rw [w2]; exact hr.wend,
      by rw [r1]; exact hr.rbuf, fun h => by rw [r2]; exact hr.rend (by rw [← r3]; exact h), hr.first⟩, rfl, rfl⟩
  · have hs : step c s i = ({ s with w := wNext c s i, r := rNext c s i },
        ⟨inReady c s, false, s.first, false, s.r.rdata, s.pid, false, s.toggle⟩) := by
      simp [step, hfs, hack, hrs, hd, hnt]
    rw [hs] at hinv ⊢
    exact ⟨⟨hinv, by simp [hfs, hf, fsmOf], hr.pid, by rw [w1]; exact hr.wbuf, by rw [w2]; exact hr.wend,
      by rw [r1]; exact hr.rbuf, fun h => by rw [r2]; exact hr.rend (by rw [← r3]; exact h), hr.first⟩, rfl, rfl⟩

/-- (K1) `new_token`: an endpoint waiting for an ACK will retransmit. -/
theorem step_newToken (c : Config) (e : InState) (s : State) (i : In) (hr : Rel c e s) (hw : Wired i)
    (hv : i.sValid = false) (hrs : i.resetSeq = false) (hnt : i.newToken = true) (hack : ackTaken i = false)
    (htok : inTok i = false) :
    Rel c (inNewToken e) (step c s i).1 ∧ (step c s i).2.valid = false ∧ (step c s i).2.nak = false := by
  obtain ⟨hd, hfl, hgz, hs1⟩ := hw
  have hinv := inv_step c s i hd hr.inv
  obtain ⟨w1, w2, w3⟩ := wNext_quiet c s i hd hv hr.inv.wlen hr.inv.wfill
  obtain ⟨r1, r2, r3⟩ := rNext_facts c s i hd
  have hpr : packetReady c s i = false := by simp [packetReady, hv, hfl]
  have hfs := hr.fsm
  cases hf : e.fsm <;> rw [hf] at hfs <;> simp only [fsmOf] at hfs
  · have hs : step c s i = ({ s with w := wNext c s i, r := rNext c s i },
        ⟨inReady c s, false, s.first, false, s.r.rdata, s.pid, false, s.toggle⟩) := by
      simp [step, hfs, hpr, htok, hrs]
    rw [hs] at hinv ⊢
    exact ⟨⟨hinv, by simp [hfs, hf, fsmOf, inNewToken], by simp [inNewToken, hf, hr.pid],
      by rw [w1]; simp [inNewToken, hf, hr.wbuf], by rw [w2]; simp [inNewToken, hf, hr.wend],
      by rw [r1]; simp [inNewToken, hf, hr.rbuf],
      fun h => by rw [r2]; simpa [inNewToken, hf] using hr.rend (by rw [← r3]; exact h), hr.first⟩, rfl, rfl⟩
  · have hs : step c s i = ({ s with w := wNext c s i, r := rNext c s i, sendPos := 0 },
        ⟨inReady c s, false, s.first, false, s.r.rdata, s.pid, false, s.toggle⟩) := by
      simp [step, hfs, htok, hrs, hd]
    rw [hs] at hinv ⊢
    exact ⟨⟨hinv, by simp [hfs, hf, fsmOf, inNewToken], by simp [inNewToken, hf, hr.pid],
      by rw [w1]; simp [inNewToken, hf, hr.wbuf], by rw [w2]; simp [inNewToken, hf, hr.wend],
      by rw [r1]; simp [inNewToken, hf, hr.rbuf],
      fun h => by rw [r2]; simpa [inNewToken, hf] using hr.rend (by rw [← r3]; exact h), hr.first⟩, rfl, rfl⟩
  · have hs : step c s i = ({ s with w := wNext c s i, r := rNext c s i, fsm := .waitSend },
        ⟨inReady c s, false, s.first, false, s.r.rdata, s.pid, false, s.toggle⟩) := by
      simp [step, hfs, hack, hrs, hd, hnt]
    rw [hs] at hinv ⊢
    exact ⟨⟨hinv, by simp [hf, fsmOf, inNewToken], by simp [inNewToken, hf, hr.pid],
      by rw [w1]; simp [inNewToken, hf, hr.wbuf], by rw [w2]; simp [inNewToken, hf, hr.wend],
      by rw [r1]; simp [inNewToken, hf, hr.rbuf],
      fun h => by rw [r2]; simpa [inNewToken, hf] using hr.rend (by rw [← r3]; exact h), hr.first⟩, rfl, rfl⟩

/-- (K2) `ready_for_response` of an IN token for this endpoint while it has no packet: NAK. -/
theorem step_tok_nak (c : Config) (e : InState) (s : State) (i : In) (hr : Rel c e s) (hw : Wired i)
    (hv : i.sValid = false) (hrs : i.resetSeq = false) (htok : inTok i = true) (hf : e.fsm = .waitData) :
    Rel c e (step c s i).1 ∧ (step c s i).2.valid = false ∧ (step c s i).2.nak = true := by
  obtain ⟨hd, hfl, hgz, hs1⟩ := hw
  have hinv := inv_step c s i hd hr.inv
  obtain ⟨w1, w2, w3⟩ := wNext_quiet c s i hd hv hr.inv.wlen hr.inv.wfill
  obtain ⟨r1, r2, r3⟩ := rNext_facts c s i hd
  have hpr : packetReady c s i = false := by simp [packetReady, hv, hfl]
  have hfs := hr.fsm
  rw [hf] at hfs; simp only [fsmOf] at hfs
  have hs : step c s i = ({ s with w := wNext c s i, r := rNext c s i },
      ⟨inReady c s, false, s.first, false, s.r.rdata, s.pid, true, s.toggle⟩) := by
    simp [step, hfs, hpr, htok, hrs]
  rw [hs] at hinv ⊢
  exact ⟨⟨hinv, by simp [hfs, hf, fsmOf], hr.pid, by rw [w1]; exact hr.wbuf, by rw [w2]; exact hr.wend,
    by rw [r1]; exact hr.rbuf, fun h => by rw [r2]; exact hr.rend (by rw [← r3]; exact h), hr.first⟩, rfl, rfl⟩

/-- (K2) … while it waits for an ACK (cannot happen after `new_token`; the gateware ignores it). -/
theorem step_tok_waitAck (c : Config) (e : InState) (s : State) (i : In) (hr : Rel c e s) (hw : Wired i)
    (hv : i.sValid = false) (hrs : i.resetSeq = false) (hnt : i.newToken = false) (hack : ackTaken i = false)
    (hf : e.fsm = .waitAck) :
    Rel c e (step c s i).1 ∧ (step c s i).2.valid = false ∧ (step c s i).2.nak = false := by
  obtain ⟨hd, hfl, hgz, hs1⟩ := hw
  have hinv := inv_step c s i hd hr.inv
  obtain ⟨w1, w2, w3⟩ := wNext_quiet c s i hd hv hr.inv.wlen hr.inv.wfill
  obtain ⟨r1, r2, r3⟩ := rNext_facts c s i hd
  have hfs := hr.fsm
  rw [hf] at hfs; simp only [fsmOf] at hfs
  have hs : step c s i = ({ s with w := wNext c s i, r := rNext c s i },
      ⟨inReady c s, false, s.first, false, s.r.rdata, s.pid, false, s.toggle⟩) := by
    simp [step, hfs, hack, hrs, hd, hnt]
  rw [hs] at hinv ⊢
  exact ⟨⟨hinv, by simp [hfs, hf, fsmOf], hr.pid, by rw [w1]; exact hr.wbuf, by rw [w2]; exact hr.wend,
    by rw [r1]; exact hr.rbuf, fun h => by rw [r2]; exact hr.rend (by rw [← r3]; exact h), hr.first⟩, rfl, rfl⟩

/-- (K2) … while an empty packet is waiting: the zero-length packet goes out in this very cycle. -/
theorem step_tok_zlp (c : Config) (hmps : 0 < c.mps) (e : InState) (s : State) (i : In) (hr : Rel c e s) (hw : Wired i)
    (hv : i.sValid = false) (hrs : i.resetSeq = false) (htok : inTok i = true) (hf : e.fsm = .waitSend)
    (hb : e.rbuf = []) :
    Rel c { e with fsm := .waitAck } (step c s i).1 ∧ (step c s i).2.valid = true ∧ (step c s i).2.nak = false ∧
    (step c s i).2.first = false ∧ (step c s i).2.last = true ∧ (step c s i).2.pid = e.pid := by
  obtain ⟨hd, hfl, hgz, hs1⟩ := hw
  have hinv := inv_step c s i hd hr.inv
  obtain ⟨w1, w2, w3⟩ := wNext_quiet c s i hd hv hr.inv.wlen hr.inv.wfill
  obtain ⟨r1, r2, r3⟩ := rNext_facts c s i hd
  have hfs := hr.fsm
  rw [hf] at hfs; simp only [fsmOf] at hfs
  have hfill : s.r.fill = 0 := by rw [← hr.rlen, hb]; rfl
  have hs : step c s i = ({ s with w := wNext c s i, r := { rNext c s i with ended := false }, sendPos := 0, fsm := .waitAck },
      ⟨inReady c s, true, s.first, true, s.r.rdata, s.pid, false, s.toggle⟩) := by
    simp [step, hfs, htok, hrs, hd, hfill]
  rw [hs] at hinv ⊢
  refine ⟨⟨hinv, rfl, hr.pid, by rw [w1]; exact hr.wbuf, by rw [w2]; exact hr.wend, ?_, ?_, hr.first⟩,
    rfl, rfl, hr.first, rfl, hr.pid⟩
  · simp only [bufBytes] at r1 ⊢; rw [r1]; exact hr.rbuf
  · intro h; simp only [r3, hfill] at h; omega

/-- (K2) … while a non-empty packet is waiting: SEND_PACKET is entered. -/
theorem step_tok_start (c : Config) (e : InState) (s : State) (i : In) (hr : Rel c e s) (hw : Wired i)
    (hv : i.sValid = false) (hrs : i.resetSeq = false) (htok : inTok i = true) (hf : e.fsm = .waitSend)
    (hb : e.rbuf ≠ []) :
    let s' := (step c s i).1
    s'.fsm = .sendPacket ∧ Inv c s' ∧ s'.sendPos = 0 ∧ s'.first = true ∧ s'.pid = e.pid ∧ bufBytes s'.w = e.wbuf ∧
    s'.w.ended = e.wended ∧ bufBytes s'.r = e.rbuf ∧ (s'.r.fill = c.mps → s'.r.ended = e.rended) ∧
    (step c s i).2.valid = false ∧ (step c s i).2.nak = false := by
  obtain ⟨hd, hfl, hgz, hs1⟩ := hw
  have hinv := inv_step c s i hd hr.inv
  obtain ⟨w1, w2, w3⟩ := wNext_quiet c s i hd hv hr.inv.wlen hr.inv.wfill
  obtain ⟨r1, r2, r3⟩ := rNext_facts c s i hd
  have hfs := hr.fsm
  rw [hf] at hfs; simp only [fsmOf] at hfs
  have hfill : s.r.fill ≠ 0 := by
    rw [← hr.rlen]; intro h; exact hb (List.eq_nil_of_length_eq_zero h)
  have hs : step c s i = ({ s with w := wNext c s i, r := rNext c s i, sendPos := 0, fsm := .sendPacket, first := true },
      ⟨inReady c s, false, s.first, false, s.r.rdata, s.pid, false, s.toggle⟩) := by
    simp [step, hfs, htok, hrs, hd, hfill]
  rw [hs] at hinv ⊢
  exact ⟨rfl, hinv, rfl, rfl, hr.pid, by simp only [w1]; exact hr.wbuf, by simp only [w2]; exact hr.wend,
    by simp only [r1]; exact hr.rbuf, fun h => by simp only [r2]; exact hr.rend (by rw [← r3]; exact h), rfl, rfl⟩

/-- (K6) the host's ACK of this endpoint's packet. -/
theorem step_ack (c : Config) (hmps : 0 < c.mps) (e : InState) (s : State) (i : In) (hr : Rel c e s) (hw : Wired i)
    (hv : i.sValid = false) (hrs : i.resetSeq = false) (hnt : i.newToken = false) (hack : ackTaken i = true)
    (htok : inTok i = false) :
    Rel c (inAck c.mps e) (step c s i).1 ∧ (step c s i).2.valid = false ∧ (step c s i).2.nak = false := by
  by_cases hf : e.fsm = .waitAck
  · obtain ⟨hd, hfl, hgz, hs1⟩ := hw
    have hinv := inv_step c s i hd hr.inv
    obtain ⟨w1, w2, w3⟩ := wNext_quiet c s i hd hv hr.inv.wlen hr.inv.wfill
    obtain ⟨r1, r2, r3⟩ := rNext_facts c s i hd
    have hpr : packetReady c s i = false := by simp [packetReady, hv, hfl]
    have hfs := hr.fsm
    rw [hf] at hfs; simp only [fsmOf] at hfs
    have hwl := hr.wlen
    have hrl := hr.rlen
    by_cases hz : s.r.fill = c.mps ∧ s.r.ended = true
    · -- a full packet that ended the transfer: a zero-length packet follows
      have hs : step c s i = ({ s with w := wNext c s i, r := { rNext c s i with fill := 0 }, pid := !s.pid, fsm := .waitSend },
          ⟨inReady c s, false, s.first, false, s.r.rdata, s.pid, false, s.toggle⟩) := by
        simp [step, hfs, hack, hrs, hd, hnt, hgz, hz.1, hz.2]
      have hre := hr.rend hz.1
      have he : inAck c.mps e = { e with fsm := .waitSend, pid := !e.pid, rbuf := [], rended := false } := by
        simp [inAck, hf, hrl, hz.1, ← hre, hz.2]
      rw [hs] at hinv ⊢
      rw [he]
      refine ⟨⟨hinv, rfl, by simp [hr.pid], by simp only [w1]; exact hr.wbuf, by simp only [w2]; exact hr.wend,
        by simp [bufBytes], ?_, hr.first⟩, rfl, rfl⟩
      intro h; simp only at h; omega
    · have hnz : (s.r.fill == c.mps && s.r.ended) = false := by
        cases h1 : (s.r.fill == c.mps) <;> cases h2 : s.r.ended <;> simp_all
      have hnz' : ¬(e.rbuf.length = c.mps ∧ e.rended = true) := by
        intro h; apply hz; rw [hrl] at h; exact ⟨h.1, by rw [hr.rend h.1]; exact h.2⟩
      by_cases hrdy : inReady c s = true
      · -- nothing waiting: back to WAIT_FOR_DATA
        have hs : step c s i = ({ s with w := wNext c s i, r := { rNext c s i with fill := 0 }, fsm := .waitData },
            ⟨inReady c s, false, s.first, false, s.r.rdata, s.pid, false, s.toggle⟩) := by
          simp [step, hfs, hack, hrs, hd, hnt, hgz, hnz, hrdy, hpr]
        have hnw : ¬(e.wbuf.length = c.mps ∨ e.wended = true) := by
          simp only [inReady, Bool.and_eq_true, bne_iff_ne, ne_eq, Bool.not_eq_true'] at hrdy
          rw [hwl, ← hr.wend]; intro h; rcases h with h | h
          · exact hrdy.1 h
          · rw [hrdy.2] at h; exact absurd h (by decide)
        have he : inAck c.mps e = { e with fsm := .waitData, rbuf := [], rended := false } := by
          simp [inAck, hf, hnz', hnw]
        rw [hs] at hinv ⊢
        rw [he]
        refine ⟨⟨hinv, rfl, hr.pid, by simp only [w1]; exact hr.wbuf, by simp only [w2]; exact hr.wend,
          by simp [bufBytes], ?_, hr.first⟩, rfl, rfl⟩
        intro h; simp only at h; omega
      · -- the next packet is waiting: swap the buffers
        have hrdy' : inReady c s = false := by simpa using hrdy
        have hs : step c s i = ({ s with w := { rNext c s i with fill := 0, ended := false }, r := wNext c s i, fsm := .waitSend, toggle := !s.toggle, pid := !s.pid },
            ⟨inReady c s, false, s.first, false, s.r.rdata, s.pid, false, s.toggle⟩) := by
          simp [step, hfs, hack, hrs, hd, hnt, hgz, hnz, hrdy', hpr]
        have hnw : e.wbuf.length = c.mps ∨ e.wended = true := by
          simp only [inReady] at hrdy'
          rw [hwl, ← hr.wend]
          cases h1 : (s.w.fill != c.mps) <;> cases h2 : s.w.ended <;> simp_all
        have he : inAck c.mps e = { fsm := .waitSend, pid := !e.pid, rbuf := e.wbuf, rended := e.wended, wbuf := [], wended := false } := by
          simp [inAck, hf, hnz', hnw]
        rw [hs] at hinv ⊢
        rw [he]
        exact ⟨⟨hinv, rfl, by simp [hr.pid], by simp [bufBytes], rfl, by simp only [w1]; exact hr.wbuf,
          fun _ => by simp only [w2]; exact hr.wend, hr.first⟩, rfl, rfl⟩
  · have he : inAck c.mps e = e := by simp [inAck, hf]
    rw [he]
    obtain ⟨hd, hfl, hgz, hs1⟩ := hw
    have hinv := inv_step c s i hd hr.inv
    obtain ⟨w1, w2, w3⟩ := wNext_quiet c s i hd hv hr.inv.wlen hr.inv.wfill
    obtain ⟨r1, r2, r3⟩ := rNext_facts c s i hd
    have hpr : packetReady c s i = false := by simp [packetReady, hv, hfl]
    have hfs := hr.fsm
    cases hf' : e.fsm <;> rw [hf'] at hfs <;> simp only [fsmOf] at hfs
    · have hs : step c s i = ({ s with w := wNext c s i, r := rNext c s i },
          ⟨inReady c s, false, s.first, false, s.r.rdata, s.pid, false, s.toggle⟩) := by
        simp [step, hfs, hpr, htok, hrs]
      rw [hs] at hinv ⊢
      exact ⟨⟨hinv, by simp [hfs, hf', fsmOf], hr.pid, by rw [w1]; exact hr.wbuf, by rw [w2]; exact hr.wend,
        by rw [r1]; exact hr.rbuf, fun h => by rw [r2]; exact hr.rend (by rw [← r3]; exact h), hr.first⟩, rfl, rfl⟩
    · have hs : step c s i = ({ s with w := wNext c s i, r := rNext c s i, sendPos := 0 },
          ⟨inReady c s, false, s.first, false, s.r.rdata, s.pid, false, s.toggle⟩) := by
        simp [step, hfs, htok, hrs, hd]
      rw [hs] at hinv ⊢
      exact ⟨⟨hinv, by simp [hfs, hf', fsmOf], hr.pid, by rw [w1]; exact hr.wbuf, by rw [w2]; exact hr.wend,
        by rw [r1]; exact hr.rbuf, fun h => by rw [r2]; exact hr.rend (by rw [← r3]; exact h), hr.first⟩, rfl, rfl⟩
    · exact absurd hf' hf

/-- (K7) the halt-clear strobe naming this endpoint (`reset_sequence`), outside the endpoint's own transaction. -/
theorem step_halt (c : Config) (e : InState) (s : State) (i : In) (hr : Rel c e s) (hw : Wired i)
    (hv : i.sValid = false) (hrs : i.resetSeq = true) (hnt : i.newToken = false) (hack : ackTaken i = false)
    (htok : inTok i = false) :
    Rel c (inClearHalt e) (step c s i).1 ∧ (step c s i).2.valid = false ∧ (step c s i).2.nak = false := by
  obtain ⟨hd, hfl, hgz, hs1⟩ := hw
  have hinv := inv_step c s i hd hr.inv
  obtain ⟨w1, w2, w3⟩ := wNext_quiet c s i hd hv hr.inv.wlen hr.inv.wfill
  obtain ⟨r1, r2, r3⟩ := rNext_facts c s i hd
  have hpr : packetReady c s i = false := by simp [packetReady, hv, hfl]
  have hfs := hr.fsm
  cases hf : e.fsm <;> rw [hf] at hfs <;> simp only [fsmOf] at hfs
  · have hs : step c s i = ({ s with w := wNext c s i, r := rNext c s i, pid := true },
        ⟨inReady c s, false, s.first, false, s.r.rdata, s.pid, false, s.toggle⟩) := by
      simp [step, hfs, hpr, htok, hrs, hs1]
    rw [hs] at hinv ⊢
    exact ⟨⟨hinv, by simp [hfs, hf, fsmOf, inClearHalt], by simp [inClearHalt, hf],
      by rw [w1]; simp [inClearHalt, hf, hr.wbuf], by rw [w2]; simp [inClearHalt, hf, hr.wend],
      by rw [r1]; simp [inClearHalt, hf, hr.rbuf],
      fun h => by rw [r2]; simpa [inClearHalt, hf] using hr.rend (by rw [← r3]; exact h), hr.first⟩, rfl, rfl⟩
  · have hs : step c s i = ({ s with w := wNext c s i, r := rNext c s i, sendPos := 0, pid := false },
        ⟨inReady c s, false, s.first, false, s.r.rdata, s.pid, false, s.toggle⟩) := by
      simp [step, hfs, htok, hrs, hd, hs1]
    rw [hs] at hinv ⊢
    exact ⟨⟨hinv, by simp [hfs, hf, fsmOf, inClearHalt], by simp [inClearHalt, hf],
      by rw [w1]; simp [inClearHalt, hf, hr.wbuf], by rw [w2]; simp [inClearHalt, hf, hr.wend],
      by rw [r1]; simp [inClearHalt, hf, hr.rbuf],
      fun h => by rw [r2]; simpa [inClearHalt, hf] using hr.rend (by rw [← r3]; exact h), hr.first⟩, rfl, rfl⟩
  · have hs : step c s i = ({ s with w := wNext c s i, r := rNext c s i, pid := true },
        ⟨inReady c s, false, s.first, false, s.r.rdata, s.pid, false, s.toggle⟩) := by
      simp [step, hfs, hack, hrs, hd, hnt, hs1]
    rw [hs] at hinv ⊢
    exact ⟨⟨hinv, by simp [hfs, hf, fsmOf, inClearHalt], by simp [inClearHalt, hf],
      by rw [w1]; simp [inClearHalt, hf, hr.wbuf], by rw [w2]; simp [inClearHalt, hf, hr.wend],
      by rw [r1]; simp [inClearHalt, hf, hr.rbuf],
      fun h => by rw [r2]; simpa [inClearHalt, hf] using hr.rend (by rw [← r3]; exact h), hr.first⟩, rfl, rfl⟩

/-- (K8) a producer byte that the endpoint accepts (`stream.valid ∧ stream.ready`). -/
theorem step_feed (c : Config) (e : InState) (s : State) (i : In) (b : Nat) (l : Bool) (hr : Rel c e s) (hw : Wired i)
    (hv : i.sValid = true) (hb : i.sPayload = b) (hb8 : b < 256) (hl : i.sLast = l)
    (hrs : i.resetSeq = false) (hnt : i.newToken = false) (hack : ackTaken i = false) (htok : inTok i = false)
    (hacc : (inFeed c.mps e b l).2 = true) :
    Rel c (inFeed c.mps e b l).1 (step c s i).1 ∧ (step c s i).2.valid = false ∧ (step c s i).2.nak = false ∧
    (step c s i).2.sReady = true := by
  obtain ⟨hd, hfl, hgz, hs1⟩ := hw
  have hinv := inv_step c s i hd hr.inv
  obtain ⟨r1, r2, r3⟩ := rNext_facts c s i hd
  have hwl := hr.wlen
  have hroom : ¬(e.wbuf.length = c.mps ∨ e.wended = true) := by
    intro h; simp [inFeed, h] at hacc
  have hrdy : inReady c s = true := by
    simp only [inReady, Bool.and_eq_true, bne_iff_ne, ne_eq, Bool.not_eq_true']
    rw [← hwl, hr.wend]
    exact ⟨fun h => hroom (Or.inl h), by cases h : e.wended <;> simp_all⟩
  have hwen : wen c s i = true := by simp [wen, hv, hrdy]
  have hwe : s.w.ended = false := by
    simp only [inReady, Bool.and_eq_true, Bool.not_eq_true'] at hrdy; exact hrdy.2
  have w1 : bufBytes (wNext c s i) = e.wbuf ++ [b] := by
    rw [bufBytes_wNext c s i hd hr.inv.wlen hr.inv.wfill, hwen, hr.wbuf, hb, Nat.mod_eq_of_lt hb8]; rfl
  have w2 : (wNext c s i).ended = l := by
    rw [wNext_ended c s i hd, hwen, hl, hwe]; cases l <;> rfl
  have hpr : packetReady c s i = (l || e.wbuf.length + 1 == c.mps) := by
    simp [packetReady, hv, hfl, hd, hl, hwl]
  have hfs := hr.fsm
  cases hf : e.fsm <;> rw [hf] at hfs <;> simp only [fsmOf] at hfs
  · by_cases hp : (l || e.wbuf.length + 1 == c.mps) = true
    · have hs : step c s i = ({ s with fsm := .waitSend, toggle := !s.toggle, pid := !s.pid, w := { rNext c s i with ended := false }, r := wNext c s i },
          ⟨inReady c s, false, s.first, false, s.r.rdata, s.pid, false, s.toggle⟩) := by
        simp [step, hfs, hpr, hp, htok, hrs]
      have he : inFeed c.mps e b l = ({ fsm := .waitSend, pid := !e.pid, wbuf := [], wended := false, rbuf := e.wbuf ++ [b], rended := l }, true) := by
        have hp' : l = true ∨ e.wbuf.length + 1 = c.mps := by simpa using hp
        simp [inFeed, hroom, hf, hp']
      have hr0 : s.r.fill = 0 := hr.inv.idle hfs
      rw [hs] at hinv ⊢
      rw [he]
      refine ⟨⟨hinv, rfl, by simp [hr.pid], ?_, rfl, w1, fun _ => w2, hr.first⟩, rfl, rfl, hrdy⟩
      simp [bufBytes, rNext, hd, hr0]
    · have hs : step c s i = ({ s with w := wNext c s i, r := rNext c s i },
          ⟨inReady c s, false, s.first, false, s.r.rdata, s.pid, false, s.toggle⟩) := by
        simp [step, hfs, hpr, hp, htok, hrs]
      have he : inFeed c.mps e b l = ({ e with wbuf := e.wbuf ++ [b], wended := l }, true) := by
        have hp' : ¬(l = true ∨ e.wbuf.length + 1 = c.mps) := by simpa using hp
        simp [inFeed, hroom, hf, hp']
      rw [hs] at hinv ⊢
      rw [he]
      exact ⟨⟨hinv, by simp [hfs, hf, fsmOf], hr.pid, w1, w2, by rw [r1]; exact hr.rbuf,
        fun h => by rw [r2]; exact hr.rend (by rw [← r3]; exact h), hr.first⟩, rfl, rfl, hrdy⟩
  · have hs : step c s i = ({ s with w := wNext c s i, r := rNext c s i, sendPos := 0 },
        ⟨inReady c s, false, s.first, false, s.r.rdata, s.pid, false, s.toggle⟩) := by
      simp [step, hfs, htok, hrs, hd]
    have he : inFeed c.mps e b l = ({ e with wbuf := e.wbuf ++ [b], wended := l }, true) := by
      simp [inFeed, hroom, hf]
    rw [hs] at hinv ⊢
    rw [he]
    exact ⟨⟨hinv, by simp [hfs, hf, fsmOf], hr.pid, w1, w2, by rw [r1]; exact hr.rbuf,
      fun h => by rw [r2]; exact hr.rend (by rw [← r3]; exact h), hr.first⟩, rfl, rfl, hrdy⟩
  · have hs : step c s i = ({ s with w := wNext c s i, r := rNext c s i },
        ⟨inReady c s, false, s.first, false, s.r.rdata, s.pid, false, s.toggle⟩) := by
      simp [step, hfs, hack, hrs, hd, hnt]
    have he : inFeed c.mps e b l = ({ e with wbuf := e.wbuf ++ [b], wended := l }, true) := by
      simp [inFeed, hroom, hf]
    rw [hs] at hinv ⊢
    rw [he]
    exact ⟨⟨hinv, by simp [hfs, hf, fsmOf], hr.pid, w1, w2, by rw [r1]; exact hr.rbuf,
      fun h => by rw [r2]; exact hr.rend (by rw [← r3]; exact h), hr.first⟩, rfl, rfl, hrdy⟩

/-! ### The transmission -/

/-- What a transmission leaves untouched. -/
structure Same (s s' : State) : Prop where
  pid   : s'.pid = s.pid
  wbuf  : bufBytes s'.w = bufBytes s.w
  wend  : s'.w.ended = s.w.ended
  rmem  : s'.r.mem = s.r.mem
  rfill : s'.r.fill = s.r.fill
  rend  : s'.r.ended = s.r.ended

theorem Same.refl (s : State) : Same s s := ⟨rfl, rfl, rfl, rfl, rfl, rfl⟩

theorem Same.trans {a b d : State} (h1 : Same a b) (h2 : Same b d) : Same a d :=
  ⟨h2.pid.trans h1.pid, h2.wbuf.trans h1.wbuf, h2.wend.trans h1.wend, h2.rmem.trans h1.rmem,
   h2.rfill.trans h1.rfill, h2.rend.trans h1.rend⟩

/-- The expected beats of the bytes `bs`, the first of which has index `k` in a packet of `n` bytes. -/
def beatsFrom (pid : Bool) (n : Nat) : Nat → List Nat → List Wire
  | _, [] => []
  | k, b :: bs => Wire.beat b (k == 0) (k + 1 == n) pid :: beatsFrom pid n (k + 1) bs

theorem step_stall (c : Config) (s : State) (i : In) (hinv : Inv c s) (hfs : s.fsm = .sendPacket) (hw : Wired i)
    (hv : i.sValid = false) (hrs : i.resetSeq = false) (hrdy : i.txReady = false) :
    (step c s i).1.fsm = .sendPacket ∧ Inv c (step c s i).1 ∧ (step c s i).1.sendPos = s.sendPos ∧
    (step c s i).1.first = s.first ∧ Same s (step c s i).1 ∧
    (step c s i).2 = ⟨inReady c s, true, s.first, s.sendPos + 1 == s.r.fill, s.r.rdata, s.pid, false, s.toggle⟩ := by
  obtain ⟨hd, hfl, hgz, hs1⟩ := hw
  have hinv' := inv_step c s i hd hinv
  obtain ⟨w1, w2, w3⟩ := wNext_quiet c s i hd hv hinv.wlen hinv.wfill
  obtain ⟨r1, r2, r3⟩ := rNext_facts c s i hd
  have hs : step c s i = ({ s with w := wNext c s i, r := rNext c s i },
      ⟨inReady c s, true, s.first, s.sendPos + 1 == s.r.fill, s.r.rdata, s.pid, false, s.toggle⟩) := by
    simp [step, hfs, hrdy, hrs]
  rw [hs] at hinv' ⊢
  exact ⟨hfs, hinv', rfl, rfl, ⟨rfl, w1, w2, rfl, r3, r2⟩, rfl⟩

theorem step_take (c : Config) (s : State) (i : In) (hinv : Inv c s) (hfs : s.fsm = .sendPacket) (hw : Wired i)
    (hv : i.sValid = false) (hrs : i.resetSeq = false) (hrdy : i.txReady = true) :
    (step c s i).1.fsm = (if s.sendPos + 1 = s.r.fill then .waitAck else .sendPacket) ∧ Inv c (step c s i).1 ∧
    (step c s i).1.sendPos = s.sendPos + 1 ∧ (step c s i).1.first = false ∧ Same s (step c s i).1 ∧
    (step c s i).2 = ⟨inReady c s, true, s.first, s.sendPos + 1 == s.r.fill, s.r.rdata, s.pid, false, s.toggle⟩ := by
  obtain ⟨hd, hfl, hgz, hs1⟩ := hw
  have hinv' := inv_step c s i hd hinv
  obtain ⟨w1, w2, w3⟩ := wNext_quiet c s i hd hv hinv.wlen hinv.wfill
  obtain ⟨r1, r2, r3⟩ := rNext_facts c s i hd
  obtain ⟨hlt, _⟩ := hinv.send hfs
  have hb : s.sendPos + 1 < 2 ^ bitsFor c.mps := by
    have := @Nat.lt_log2_self c.mps
    have := hinv.rfill
    unfold bitsFor; omega
  have hs : step c s i = ({ s with w := wNext c s i, r := rNext c s i, sendPos := s.sendPos + 1, first := false, fsm := if s.sendPos + 1 = s.r.fill then .waitAck else .sendPacket },
      ⟨inReady c s, true, s.first, s.sendPos + 1 == s.r.fill, s.r.rdata, s.pid, false, s.toggle⟩) := by
    simp [step, hfs, hrdy, hrs, Nat.mod_eq_of_lt hb]
  rw [hs] at hinv' ⊢
  exact ⟨rfl, hinv', rfl, rfl, ⟨rfl, w1, w2, rfl, r3, r2⟩, rfl⟩

def stallIn (ec : EpCfg) (tk : Tk) (n : In) : In := { envIn ec tk n with txReady := false }
def takeIn (ec : EpCfg) (tk : Tk) (n : In) : In := { envIn ec tk n with txReady := true }

/-- The cycles in which the packet generator takes bytes `k … k+m-1`: before byte `j` the stall cycles `st j`
(`tx.ready` low), then one cycle with `tx.ready` high (free inputs `tn j`). -/
def sendCyc (ec : EpCfg) (tk : Tk) (st : Nat → List In) (tn : Nat → In) : Nat → Nat → List In
  | _, 0 => []
  | k, m + 1 =>
    (st k).map (stallIn ec tk) ++ (takeIn ec tk (tn k) :: sendCyc ec tk st tn (k + 1) m)

theorem wired_env (ec : EpCfg) (tk : Tk) (n : In) : Wired (envIn ec tk n) := ⟨rfl, rfl, rfl, rfl⟩

theorem stall_run (ec : EpCfg) (tk : Tk) (ns : List In) :
    ∀ (s : State), Inv (cfgOf ec) s → s.fsm = .sendPacket → s.first = decide (s.sendPos = 0) →
      let is := ns.map (stallIn ec tk)
      (runState (cfgOf ec) s is).fsm = .sendPacket ∧ Inv (cfgOf ec) (runState (cfgOf ec) s is) ∧
      (runState (cfgOf ec) s is).sendPos = s.sendPos ∧ (runState (cfgOf ec) s is).first = s.first ∧
      Same s (runState (cfgOf ec) s is) ∧
      wires (decide (s.sendPos ≠ 0)) (trace (cfgOf ec) s is) = ([], decide (s.sendPos ≠ 0)) := by
  induction ns with
  | nil => intro s hinv hfs hfi; exact ⟨hfs, hinv, rfl, rfl, Same.refl s, rfl⟩
  | cons n ns ih =>
    intro s hinv hfs hfi
    obtain ⟨a1, a2, a3, a4, a5, a6⟩ := step_stall (cfgOf ec) s (stallIn ec tk n) hinv hfs
      ⟨rfl, rfl, rfl, rfl⟩ rfl rfl rfl
    obtain ⟨b1, b2, b3, b4, b5, b6⟩ := ih _ a2 a1 (by rw [a4, a3]; exact hfi)
    simp only [List.map_cons, runState, trace, wires]
    refine ⟨b1, b2, by rw [b3, a3], by rw [b4, a4], a5.trans b5, ?_⟩
    have hw1 : wire1 (decide (s.sendPos ≠ 0)) (stallIn ec tk n)
        (step (cfgOf ec) s (stallIn ec tk n)).2 = ([], decide (s.sendPos ≠ 0)) := by
      rw [a6, hfi]
      by_cases h0 : s.sendPos = 0 <;> simp [wire1, stallIn, takeIn, envIn, h0]
    rw [a3] at b6
    simp only [hw1, b6, List.nil_append]

theorem send_run (ec : EpCfg) (tk : Tk) (st : Nat → List In) (tn : Nat → In) (m : Nat) :
    ∀ (k : Nat) (s : State), Inv (cfgOf ec) s → s.fsm = .sendPacket → s.sendPos = k → s.first = decide (k = 0) →
      k + m = s.r.fill → 0 < m →
      let is := sendCyc ec tk st tn k m
      (runState (cfgOf ec) s is).fsm = .waitAck ∧ Inv (cfgOf ec) (runState (cfgOf ec) s is) ∧
      (runState (cfgOf ec) s is).first = false ∧ Same s (runState (cfgOf ec) s is) ∧
      wires (decide (k ≠ 0)) (trace (cfgOf ec) s is) = (beatsFrom s.pid s.r.fill k ((bufBytes s.r).drop k), false) := by
  induction m with
  | zero => intro k s _ _ _ _ _ h; omega
  | succ m ih =>
    intro k s hinv hfs hk hfi hkm _
    subst hk
    obtain ⟨a1, a2, a3, a4, a5, a6⟩ := stall_run ec tk (st s.sendPos) s hinv hfs hfi
    generalize hs1 : runState (cfgOf ec) s ((st s.sendPos).map (fun n => (stallIn ec tk n))) = s1
      at a1 a2 a3 a4 a5
    obtain ⟨b1, b2, b3, b4, b5, b6⟩ := step_take (cfgOf ec) s1 (takeIn ec tk (tn s.sendPos))
      a2 a1 ⟨rfl, rfl, rfl, rfl⟩ rfl rfl rfl
    obtain ⟨hlt, hrd⟩ := hinv.send hfs
    have hdrop : (bufBytes s.r).drop s.sendPos = s.r.rdata :: (bufBytes s.r).drop (s.sendPos + 1) := by
      have hl : s.sendPos < (bufBytes s.r).length := by
        rw [bufBytes_length _ (by rw [hinv.rlen]; exact hinv.rfill)]; exact hlt
      rw [List.drop_eq_getElem_cons hl]
      congr 1
      have : (bufBytes s.r)[s.sendPos]? = some s.r.rdata := by
        simp only [bufBytes, List.getElem?_take, hlt, if_true]; exact hrd
      rw [List.getElem?_eq_getElem hl] at this
      exact Option.some.inj this
    have hrd1 : s1.r.rdata = s.r.rdata := by
      obtain ⟨_, hrd'⟩ := a2.send a1
      rw [a3, a5.rmem, hrd] at hrd'
      exact (Option.some.inj hrd').symm
    have hw1 : wire1 (decide (s.sendPos ≠ 0)) (takeIn ec tk (tn s.sendPos))
        (step (cfgOf ec) s1 (takeIn ec tk (tn s.sendPos))).2
        = ([Wire.beat s.r.rdata (s.sendPos == 0) (s.sendPos + 1 == s.r.fill) s.pid], !(s.sendPos + 1 == s.r.fill)) := by
      rw [b6, a4, hfi, a3, a5.rfill, a5.pid, hrd1]
      by_cases h0 : s.sendPos = 0 <;> simp [wire1, stallIn, takeIn, envIn, h0]
    simp only [sendCyc, runState_append, trace_append, wires_append, hs1, a6, runState, trace, wires, hw1,
      List.nil_append]
    by_cases hm : m = 0
    · subst hm
      have hlast : s.sendPos + 1 = s.r.fill := by omega
      have hl1 : s1.sendPos + 1 = s1.r.fill := by rw [a3, a5.rfill]; exact hlast
      simp only [hl1, if_true] at b1
      have hnil : (bufBytes s.r).drop (s.sendPos + 1) = [] := by
        apply List.drop_eq_nil_of_le
        rw [bufBytes_length _ (by rw [hinv.rlen]; exact hinv.rfill)]; omega
      simp only [sendCyc, runState, trace, wires, hdrop, hnil, beatsFrom, List.append_nil]
      refine ⟨b1, b2, b4, a5.trans b5, ?_⟩
      simp [hlast]
    · have hnl : ¬(s.sendPos + 1 = s.r.fill) := by omega
      have hl1 : ¬(s1.sendPos + 1 = s1.r.fill) := by rw [a3, a5.rfill]; exact hnl
      simp only [hl1, if_false] at b1
      have hsame := a5.trans b5
      obtain ⟨d1, d2, d3, d4, d5⟩ := ih (s.sendPos + 1) _ b2 b1 (by rw [b3, a3]) (by rw [b4]; simp)
        (by rw [hsame.rfill]; omega) (by omega)
      refine ⟨d1, d2, d3, hsame.trans d4, ?_⟩
      have hnb : (!(s.sendPos + 1 == s.r.fill)) = decide (s.sendPos + 1 ≠ 0) := by simp [hnl]
      rw [hnb, d5, hdrop]
      have hbb : bufBytes (step (cfgOf ec) s1 (takeIn ec tk (tn s.sendPos))).1.r = bufBytes s.r := by
        simp only [bufBytes, hsame.rmem, hsame.rfill]
      simp only [beatsFrom, hsame.pid, hsame.rfill, hbb, List.singleton_append]

/-! ### Cycle sequences for the strobes -/

def ntIn (ec : EpCfg) (tk : Tk) (n : In) : In := { envIn ec tk n with newToken := true }
def rfrIn (ec : EpCfg) (tk : Tk) (n : In) : In := { envIn ec tk n with rfr := true }
def hsIn (ec : EpCfg) (tk : Tk) (n : In) (isAck halt : Bool) : In := { envIn ec tk n with ack := isAck, resetSeq := halt }
def feedIn (ec : EpCfg) (tk : Tk) (n : In) (b : Nat) (l : Bool) : In :=
  { envIn ec tk n with sValid := true, sPayload := b, sLast := l }

def own (ec : EpCfg) (tk : Tk) : Prop := tk.ep = ec.num ∧ tk.pid = PID_IN
instance (ec : EpCfg) (tk : Tk) : Decidable (own ec tk) := by unfold own; infer_instance

theorem inTok_rfr (ec : EpCfg) (tk : Tk) (n : In) : inTok (rfrIn ec tk n) = decide (own ec tk) := by
  simp only [inTok, rfrIn, envIn, own]
  by_cases h1 : tk.ep = ec.num <;> by_cases h2 : tk.pid = PID_IN <;> simp [h1, h2]

theorem ackTaken_hs (ec : EpCfg) (tk : Tk) (n : In) (a h : Bool) :
    ackTaken (hsIn ec tk n a h) = (a && decide (own ec tk)) := by
  simp only [ackTaken, hsIn, envIn, own]
  by_cases h1 : tk.ep = ec.num <;> by_cases h2 : tk.pid = PID_IN <;> simp [h1, h2]

theorem wire1_quiet (i : In) (o : Out) (hv : i.sValid = false) (h1 : o.valid = false) (h2 : o.nak = false) :
    wire1 false i o = ([], false) := by simp [wire1, hv, h1, h2]

theorem wire1_nak (i : In) (o : Out) (hv : i.sValid = false) (h1 : o.valid = false) (h2 : o.nak = true) :
    wire1 false i o = ([Wire.nak], false) := by simp [wire1, hv, h1, h2]

theorem wire1_zlp (i : In) (o : Out) (hv : i.sValid = false) (h1 : o.valid = true) (h2 : o.nak = false)
    (h3 : o.first = false) (h4 : o.last = true) : wire1 false i o = ([Wire.zlp o.pid], false) := by
  simp [wire1, hv, h1, h2, h3, h4]

theorem wire1_acc (i : In) (o : Out) (hv : i.sValid = true) (hr : o.sReady = true) (h1 : o.valid = false)
    (h2 : o.nak = false) : wire1 false i o = ([Wire.acc], false) := by simp [wire1, hv, hr, h1, h2]

/-- (K0) a cycle without strobes. -/
theorem sim_quiet (ec : EpCfg) (e : InState) (tk : Tk) (n : In) : Sim (cfgOf ec) e e [envIn ec tk n] [] := by
  apply Sim.single; intro s hr
  obtain ⟨a, b, d⟩ := step_quiet (cfgOf ec) e s (envIn ec tk n) hr (wired_env ec tk n) rfl rfl rfl
    (by simp [ackTaken, envIn]) (by simp [inTok, envIn])
  exact ⟨a, wire1_quiet _ _ rfl b d⟩

def idle (ec : EpCfg) (tk : Tk) (ns : List In) : List In := ns.map (envIn ec tk)

theorem sim_idle (ec : EpCfg) (e : InState) (tk : Tk) (ns : List In) : Sim (cfgOf ec) e e (idle ec tk ns) [] := by
  induction ns with
  | nil => exact Sim.nil
  | cons n ns ih => exact (sim_quiet ec e tk n).append ih

theorem sim_newToken (ec : EpCfg) (e : InState) (tk : Tk) (n : In) :
    Sim (cfgOf ec) e (inNewToken e) [ntIn ec tk n] [] := by
  apply Sim.single; intro s hr
  obtain ⟨a, b, d⟩ := step_newToken (cfgOf ec) e s (ntIn ec tk n) hr ⟨rfl, rfl, rfl, rfl⟩ rfl rfl rfl
    (by simp [ackTaken, ntIn, envIn]) (by simp [inTok, ntIn, envIn])
  exact ⟨a, wire1_quiet _ _ rfl b d⟩

theorem sim_rfr_foreign (ec : EpCfg) (e : InState) (tk : Tk) (n : In) (ho : ¬ own ec tk) :
    Sim (cfgOf ec) e e [rfrIn ec tk n] [] := by
  apply Sim.single; intro s hr
  obtain ⟨a, b, d⟩ := step_quiet (cfgOf ec) e s (rfrIn ec tk n) hr ⟨rfl, rfl, rfl, rfl⟩ rfl rfl rfl
    (by simp [ackTaken, rfrIn, envIn]) (by rw [inTok_rfr]; simp [ho])
  exact ⟨a, wire1_quiet _ _ rfl b d⟩

/-- (K6/K7) the cycle of a host handshake, with the halt-clear strobe derived from it. -/
theorem sim_hs (ec : EpCfg) (hw : 0 < ec.size) (e : InState) (tk : Tk) (n : In) (isAck halt : Bool)
    (hx : halt = true → ¬ own ec tk) :
    Sim (cfgOf ec) e
      (let s := if halt then inClearHalt e else e
       if isAck = true ∧ own ec tk then inAck ec.size s else s)
      [hsIn ec tk n isAck halt] [] := by
  apply Sim.single; intro s hr
  have htok : inTok (hsIn ec tk n isAck halt) = false := by simp [inTok, hsIn, envIn]
  cases halt with
  | true =>
    have ho := hx rfl
    have hack : ackTaken (hsIn ec tk n isAck true) = false := by rw [ackTaken_hs]; simp [ho]
    obtain ⟨a, b, d⟩ := step_halt (cfgOf ec) e s _ hr ⟨rfl, rfl, rfl, rfl⟩ rfl rfl rfl hack htok
    have : ¬(isAck = true ∧ own ec tk) := fun h => ho h.2
    simp only [if_true, this, if_false]
    exact ⟨a, wire1_quiet _ _ rfl b d⟩
  | false =>
    simp only [Bool.false_eq_true, if_false]
    by_cases h : isAck = true ∧ own ec tk
    · obtain ⟨rfl, ho⟩ := h
      have hack : ackTaken (hsIn ec tk n true false) = true := by rw [ackTaken_hs]; simp [ho]
      obtain ⟨a, b, d⟩ := step_ack (cfgOf ec) hw e s _ hr ⟨rfl, rfl, rfl, rfl⟩ rfl rfl rfl hack htok
      simp only [ho, and_self, if_true]
      exact ⟨a, wire1_quiet _ _ rfl b d⟩
    · have hack : ackTaken (hsIn ec tk n isAck false) = false := by
        rw [ackTaken_hs]; cases isAck <;> simp_all
      obtain ⟨a, b, d⟩ := step_quiet (cfgOf ec) e s _ hr ⟨rfl, rfl, rfl, rfl⟩ rfl rfl rfl hack htok
      simp only [h, if_false]
      exact ⟨a, wire1_quiet _ _ rfl b d⟩

/-- The wires an event-level output stands for. -/
def wiresOf (o : EpOut) : List Wire :=
  (match o.app with
   | [k] => List.replicate k Wire.acc
   | _ => []) ++
  (match o.resp with
   | .hs pid => if pid = PID_NAK then [Wire.nak] else []
   | .data pid [] => [Wire.zlp (pid == PID_DATA1)]
   | .data pid (b :: bs) => beatsFrom (pid == PID_DATA1) (b :: bs).length 0 (b :: bs)
   | .none => [])

theorem wiresOf_data_ne (pid : Nat) (bs : List Nat) (h : bs ≠ []) :
    wiresOf { resp := .data pid bs } = beatsFrom (pid == PID_DATA1) bs.length 0 bs := by
  cases bs with
  | nil => exact absurd rfl h
  | cons b bs => simp [wiresOf]

theorem pid_dec (t : Bool) : ((if t then PID_DATA1 else PID_DATA0) == PID_DATA1) = t := by cases t <;> decide

/-- (K2) the `ready_for_response` cycle of an IN token for this endpoint and, if a packet is waiting, its
transmission. -/
theorem sim_rfr (ec : EpCfg) (hw : 0 < ec.size) (e : InState) (tk : Tk) (n : In) (st : Nat → List In) (tn : Nat → In)
    (ho : own ec tk) :
    Sim (cfgOf ec) e (inToken e).1
      (rfrIn ec tk n :: (if e.fsm = .waitSend then sendCyc ec tk st tn 0 e.rbuf.length else []))
      (wiresOf { resp := (inToken e).2 }) := by
  intro s hr
  have htok : inTok (rfrIn ec tk n) = true := by rw [inTok_rfr]; simp [ho]
  cases hf : e.fsm with
  | waitData =>
    obtain ⟨a, b, d⟩ := step_tok_nak (cfgOf ec) e s _ hr ⟨rfl, rfl, rfl, rfl⟩ rfl rfl htok hf
    simp only [inToken, hf, wiresOf, runState, trace, wires, reduceCtorEq, if_false]
    refine ⟨a, ?_⟩
    rw [wire1_nak _ _ rfl b d]; simp
  | waitAck =>
    obtain ⟨a, b, d⟩ := step_tok_waitAck (cfgOf ec) e s (rfrIn ec tk n) hr ⟨rfl, rfl, rfl, rfl⟩ rfl rfl rfl
      (by simp [ackTaken, rfrIn, envIn]) hf
    simp only [inToken, hf, wiresOf, runState, trace, wires, reduceCtorEq, if_false]
    refine ⟨a, ?_⟩
    rw [wire1_quiet _ _ rfl b d]
  | waitSend =>
    by_cases hb : e.rbuf = []
    · obtain ⟨a, b, d, f1, f2, f3⟩ := step_tok_zlp (cfgOf ec) hw e s _ hr ⟨rfl, rfl, rfl, rfl⟩ rfl rfl htok hf hb
      have hlen : e.rbuf.length = 0 := by rw [hb]; rfl
      simp only [inToken, hf, runState, trace, wires, if_true, hlen, sendCyc]
      refine ⟨a, ?_⟩
      rw [wire1_zlp _ _ rfl b d f1 f2, f3]
      simp [wiresOf, pid_dec, hb]
    · obtain ⟨a1, a2, a3, a4, a5, a6, a7, a8, a9, a10, a11⟩ :=
        step_tok_start (cfgOf ec) e s (rfrIn ec tk n) hr ⟨rfl, rfl, rfl, rfl⟩ rfl rfl htok hf hb
      generalize hs1 : (step (cfgOf ec) s (rfrIn ec tk n)).1 = s1 at a1 a2 a3 a4 a5 a6 a7 a8 a9
      have hfill : s1.r.fill = e.rbuf.length := by
        rw [← a8]; exact (bufBytes_length _ (by rw [a2.rlen]; exact a2.rfill)).symm
      have hpos : 0 < e.rbuf.length := List.length_pos_iff.mpr hb
      obtain ⟨b1, b2, b3, b4, b5⟩ := send_run ec tk st tn e.rbuf.length 0 s1 a2 a1 a3 (by rw [a4]; rfl)
        (by rw [hfill]; omega) hpos
      simp only [inToken, hf, runState, trace, wires, if_true, hs1]
      rw [wire1_quiet _ _ rfl a10 a11]
      refine ⟨⟨b2, b1, by rw [b4.pid]; exact a5, by rw [b4.wbuf]; exact a6, by rw [b4.wend]; exact a7, ?_, ?_, b3⟩, ?_⟩
      · simp only [bufBytes, b4.rmem, b4.rfill]; exact a8
      · intro h; rw [b4.rend]; exact a9 (by rw [← b4.rfill]; exact h)
      · have : (decide (0 ≠ 0)) = false := by decide
        rw [this] at b5
        simp only [b5, List.nil_append, a5, hfill, a8, List.drop_zero]
        rw [wiresOf_data_ne _ _ hb, pid_dec]

/-- The cycles of a `produce` event: for every byte the event-level model accepts, the idle cycles `gs k` and then
one cycle offering it; the producer stops at the first refusal. -/
def prodCyc (ec : EpCfg) (tk : Tk) (gs : Nat → List In) (ns : Nat → In) : InState → Nat → List Nat → Bool → List In
  | _, _, [], _ => []
  | s, k, b :: bs, last =>
    if (inFeed ec.size s b (last && bs.isEmpty)).2 then
      idle ec tk (gs k) ++ (feedIn ec tk (ns k) b (last && bs.isEmpty) ::
        prodCyc ec tk gs ns (inFeed ec.size s b (last && bs.isEmpty)).1 (k + 1) bs last)
    else []

theorem sim_feed (ec : EpCfg) (e : InState) (tk : Tk) (n : In) (b : Nat) (l : Bool) (hb : b < 256)
    (hacc : (inFeed ec.size e b l).2 = true) :
    Sim (cfgOf ec) e (inFeed ec.size e b l).1 [feedIn ec tk n b l] [Wire.acc] := by
  apply Sim.single; intro s hr
  obtain ⟨a, v, d, r⟩ := step_feed (cfgOf ec) e s (feedIn ec tk n b l) b l hr ⟨rfl, rfl, rfl, rfl⟩ rfl rfl hb rfl rfl rfl
    (by simp [ackTaken, feedIn, envIn]) (by simp [inTok, feedIn, envIn]) hacc
  exact ⟨a, wire1_acc _ _ rfl r v d⟩

theorem sim_prod (ec : EpCfg) (tk : Tk) (gs : Nat → List In) (ns : Nat → In) (last : Bool) (bs : List Nat) :
    ∀ (e : InState) (k : Nat), (∀ b ∈ bs, b < 256) →
      Sim (cfgOf ec) e (inProduce ec.size e bs last).1 (prodCyc ec tk gs ns e k bs last)
        (List.replicate (inProduce ec.size e bs last).2 Wire.acc) := by
  induction bs with
  | nil => intro e k _; exact Sim.nil
  | cons b bs ih =>
    intro e k hb
    simp only [prodCyc, inProduce]
    by_cases hacc : (inFeed ec.size e b (last && bs.isEmpty)).2 = true
    · simp only [hacc, if_true, List.replicate_succ]
      have h1 := sim_feed ec e tk (ns k) b (last && bs.isEmpty) (hb b (by simp)) hacc
      have h2 := ih (inFeed ec.size e b (last && bs.isEmpty)).1 (k + 1) (fun x hx => hb x (by simp [hx]))
      have := (sim_idle ec e tk (gs k)).append (h1.append h2)
      simpa using this
    · simp only [hacc, if_false, Bool.false_eq_true, List.replicate_zero]
      exact Sim.nil

/-! ### The expansion of an event -/

/-- The free parameters of an expansion (cf. `C12Sig.Gaps`); `pgaps k` / `pn k` = the idle cycles before, and the
free inputs of, the cycle offering producer byte `k`. -/
structure Gaps where
  pre    : List In
  mid    : List In
  post   : List In
  n1     : In
  n2     : In
  stalls : Nat → List In
  takes  : Nat → In
  pgaps  : Nat → List In
  pn     : Nat → In

/-- The clock cycles the stream IN endpoint sees for the event `ev`, received with the token registers `tk` while
the event-level state is `e`; `sh` = the shared front end's view of the event. -/
def expand (ec : EpCfg) (tk : Tk) (sh : Shared) (e : InState) (ev : HostEvent) (g : Gaps) : List In :=
  let tk' := tkOf sh
  match ev with
  | .token _ _ _ =>
    if sh.newTok then
      idle ec tk g.pre ++ ([ntIn ec tk' g.n1] ++ (idle ec tk' g.mid ++
        ((rfrIn ec tk' g.n2 ::
          (if own ec tk' ∧ (inNewToken e).fsm = .waitSend then
             sendCyc ec tk' g.stalls g.takes 0 (inNewToken e).rbuf.length else [])) ++ idle ec tk' g.post)))
    else idle ec tk g.pre ++ idle ec tk' g.post
  | .handshake pid =>
    idle ec tk g.pre ++ ([hsIn ec tk' g.n1 (pid == PID_ACK) (haltHits ec true sh)] ++ idle ec tk' g.post)
  | .produce ep bytes last =>
    if ep = ec.num then idle ec tk g.pre ++ (prodCyc ec tk' g.pgaps g.pn e 0 bytes last ++ idle ec tk' g.post)
    else idle ec tk g.pre ++ idle ec tk' g.post
  | _ => idle ec tk g.pre ++ idle ec tk' g.post

/-- The producer hands over bytes (`stream.payload` is 8 bits wide). -/
def EvOk : HostEvent → Prop
  | .produce _ bytes _ => ∀ b ∈ bytes, b < 256
  | _ => True

instance (ev : HostEvent) : Decidable (EvOk ev) := by cases ev <;> unfold EvOk <;> infer_instance

theorem sim_idle_only (ec : EpCfg) (e : InState) (tk tk' : Tk) (a b : List In) :
    Sim (cfgOf ec) e e (idle ec tk a ++ idle ec tk' b) [] := by
  simpa using (sim_idle ec e tk a).append (sim_idle ec e tk' b)

theorem Sim.wires_eq {c : Config} {e e' : InState} {is : List In} {w w' : List Wire} (h : Sim c e e' is w)
    (hw : w = w') : Sim c e e' is w' := hw ▸ h

/-- **`cycle_refines_event` for the stream IN endpoint.**  For every host event, every event-level state `e`,
every view `tk` / `sh` of the shared front end satisfying `ShOk`, and every choice of idle-cycle counts, stall
patterns and free input values `g`: running `InXfer.step` (with `USBStreamInEndpoint`'s wiring) over the expansion
from ANY cycle-level state related to `e` ends in a state related to the event-level successor, and the endpoint's
outputs decode to exactly the event-level outputs: NAK, or a DATA packet with the PID `data_pid[0]` whose beats are
the bytes of the read buffer (`first` on the first, `last` on the last; a zero-length packet as the ZLP cycle), or
nothing; and the number of producer bytes accepted. -/
theorem in_cycle_refines_event (ec : EpCfg) (hw : 0 < ec.size) (tk : Tk) (sh : Shared) (e : InState)
    (ev : HostEvent) (g : Gaps) (hsh : C12Sig.ShOk ec sh ev) (hev : EvOk ev) :
    Sim (cfgOf ec) e (inEv ec sh e ev).1 (expand ec tk sh e ev g) (wiresOf (inEv ec sh e ev).2) := by
  have hquiet : ∀ (ev' : HostEvent), sh.newTok = false → sh.halt = none → inPre ec sh e = e := by
    intro _ h1 h2; simp [inPre, h1, C12Sig.haltHits_none ec true sh h2]
  cases ev with
  | token pid addr ep =>
    have hh : haltHits ec true sh = false := C12Sig.haltHits_none ec true sh hsh
    by_cases hnt : sh.newTok = true
    · have hpre : inPre ec sh e = inNewToken e := by simp [inPre, hnt, hh]
      simp only [expand, hnt, if_true, inEv, hpre, true_and]
      by_cases ho : own ec (tkOf sh)
      · have ho' : sh.tokEp = ec.num ∧ sh.tokPid = PID_IN := ho
        simp only [ho, ho', if_true, and_self, true_and]
        have hsend := sim_rfr ec hw (inNewToken e) (tkOf sh) g.n2 g.stalls g.takes ho
        have := (sim_idle ec e tk g.pre).append ((sim_newToken ec e (tkOf sh) g.n1).append
          ((sim_idle ec _ (tkOf sh) g.mid).append (hsend.append (sim_idle ec _ (tkOf sh) g.post))))
        exact this.wires_eq (by simp)
      · have ho' : ¬(sh.tokEp = ec.num ∧ sh.tokPid = PID_IN) := ho
        simp only [ho, ho', if_false, false_and]
        have := (sim_idle ec e tk g.pre).append ((sim_newToken ec e (tkOf sh) g.n1).append
          ((sim_idle ec _ (tkOf sh) g.mid).append ((sim_rfr_foreign ec _ (tkOf sh) g.n2 ho).append (sim_idle ec _ (tkOf sh) g.post))))
        exact this.wires_eq (by simp [wiresOf])
    · have hpre : inPre ec sh e = e := by simp [inPre, hnt, hh]
      simp only [expand, hnt, if_false, inEv, hpre, false_and, Bool.false_eq_true]
      exact (sim_idle_only ec e _ _ _ _).wires_eq (by simp [wiresOf])
  | handshake pid =>
    obtain ⟨hnt, hx⟩ := hsh
    have hpre : inPre ec sh e = if haltHits ec true sh then inClearHalt e else e := by simp [inPre, hnt]
    have hhs := sim_hs ec hw e (tkOf sh) g.n1 (pid == PID_ACK) (haltHits ec true sh) hx
    have hev' : (inEv ec sh e (.handshake pid)) =
        ((let s := if haltHits ec true sh then inClearHalt e else e
          if (pid == PID_ACK) = true ∧ own ec (tkOf sh) then inAck ec.size s else s), {}) := by
      simp only [inEv, hpre, tkOf, own, beq_iff_eq]
      split <;> rfl
    rw [hev']
    simp only [expand]
    have := (sim_idle ec e tk g.pre).append (hhs.append (sim_idle ec _ (tkOf sh) g.post))
    exact this.wires_eq (by simp [wiresOf])
  | produce ep bytes last =>
    have hpre := hquiet (.produce ep bytes last) hsh.1 hsh.2
    simp only [expand, inEv, hpre]
    by_cases hep : ep = ec.num
    · simp only [hep, if_true]
      have := (sim_idle ec e tk g.pre).append ((sim_prod ec (tkOf sh) g.pgaps g.pn last bytes e 0 hev).append
        (sim_idle ec _ (tkOf sh) g.post))
      exact this.wires_eq (by simp [wiresOf])
    · simp only [hep, if_false]
      exact (sim_idle_only ec e _ _ _ _).wires_eq (by simp [wiresOf])
  | setSignal ep v =>
    simp only [expand, inEv, hquiet (.setSignal ep v) hsh.1 hsh.2]
    exact (sim_idle_only ec e _ _ _ _).wires_eq (by simp [wiresOf])
  | sof f =>
    simp only [expand, inEv, hquiet (.sof f) hsh.1 hsh.2]
    exact (sim_idle_only ec e _ _ _ _).wires_eq (by simp [wiresOf])
  | data p b ok =>
    simp only [expand, inEv, hquiet (.data p b ok) hsh.1 hsh.2]
    exact (sim_idle_only ec e _ _ _ _).wires_eq (by simp [wiresOf])
  | malformed b =>
    simp only [expand, inEv, hquiet (.malformed b) hsh.1 hsh.2]
    exact (sim_idle_only ec e _ _ _ _).wires_eq (by simp [wiresOf])
  | quiet =>
    simp only [expand, inEv, hquiet .quiet hsh.1 hsh.2]
    exact (sim_idle_only ec e _ _ _ _).wires_eq (by simp [wiresOf])
  | busReset =>
    simp only [expand, inEv, hquiet .busReset hsh.1 hsh.2]
    exact (sim_idle_only ec e _ _ _ _).wires_eq (by simp [wiresOf])
  | consume e' k =>
    simp only [expand, inEv, hquiet (.consume e' k) hsh.1 hsh.2]
    exact (sim_idle_only ec e _ _ _ _).wires_eq (by simp [wiresOf])

/-! ### Histories of the slice machine control endpoint × stream IN endpoint -/

def expandAll (c : DevConfig) (ec : EpCfg) : DevState → InState → List (HostEvent × Gaps) → List In
  | _, _, [] => []
  | d, e, (ev, g) :: rest =>
    expand ec ⟨d.tokPid, d.tokEp⟩ (sharedOf c d ev) e ev g ++
      expandAll c ec (core c d ev).1 (inEv ec (sharedOf c d ev) e ev).1 rest

/-- The decoded cycle-level outputs, event by event. -/
def cycWires (c : DevConfig) (ec : EpCfg) : DevState → InState → State → List (HostEvent × Gaps) → List (List Wire)
  | _, _, _, [] => []
  | d, e, s, (ev, g) :: rest =>
    let is := expand ec ⟨d.tokPid, d.tokEp⟩ (sharedOf c d ev) e ev g
    (wires false (trace (cfgOf ec) s is)).1 ::
      cycWires c ec (core c d ev).1 (inEv ec (sharedOf c d ev) e ev).1 (runState (cfgOf ec) s is) rest

/-- **`cycle_refines_event`, histories (stream IN).**  Along every event history of the device whose `produce`
events carry bytes: the cycle-level endpoint, run over the concatenated expansions from any state related to the
event-level start state, ends related to the event-level final state of the slice machine (`C12.sliceFinal`), and
its outputs decode, event by event, to the event-level outputs. -/
theorem in_cycle_refines_run (c : DevConfig) (ec : EpCfg) (hw : 0 < ec.size) (hn : 0 < ec.num)
    (h : List (HostEvent × Gaps)) (hev : ∀ x ∈ h, EvOk x.1) :
    ∀ (d : DevState) (e : InState) (s : State), Rel (cfgOf ec) e s →
      ∃ e', (C12.sliceFinal c ec (d, .sin e) (h.map (·.1))).2 = .sin e' ∧
        Rel (cfgOf ec) e' (runState (cfgOf ec) s (expandAll c ec d e h)) ∧
        cycWires c ec d e s h = (C12.sliceRun c ec (d, .sin e) (h.map (·.1))).map wiresOf := by
  induction h with
  | nil => intro d e s hr; exact ⟨e, rfl, hr, rfl⟩
  | cons x rest ih =>
    obtain ⟨ev, g⟩ := x
    intro d e s hr
    obtain ⟨a1, a2⟩ := in_cycle_refines_event ec hw ⟨d.tokPid, d.tokEp⟩ (sharedOf c d ev) e ev g
      (C12Sig.shOk_sharedOf c ec hn d ev) (hev (ev, g) (by simp)) s hr
    obtain ⟨e', b1, b2, b3⟩ := ih (fun y hy => hev y (by simp [hy])) (core c d ev).1
      (inEv ec (sharedOf c d ev) e ev).1 _ a1
    have hstep : C12.sliceStep c ec (d, .sin e) ev =
        (((core c d ev).1, .sin (inEv ec (sharedOf c d ev) e ev).1), (inEv ec (sharedOf c d ev) e ev).2) := by
      simp only [C12.sliceStep, epStep_sin]
    refine ⟨e', ?_, ?_, ?_⟩
    · simp only [List.map_cons, C12.sliceFinal, hstep]; exact b1
    · simp only [expandAll, runState_append]; exact b2
    · simp only [List.map_cons, cycWires, C12.sliceRun, hstep, a2, b3]

/-! ### Non-vacuity: stream IN endpoint 1 with max packet size 2.  An IN token without data is NAKed; `[1,2]` (last)
is produced: DATA0 `[1,2]` goes out, its ACK is lost, a foreign OUT transaction intervenes, the packet is retransmitted
and ACKed; being a full packet that ends a transfer it is followed by a zero-length DATA1 packet; then DATA0 `[3]`;
then `[6]` is produced (it would go out as DATA1) and CLEAR_FEATURE(ENDPOINT_HALT) for IN 1 resets the sequence: it
goes out as DATA0. -/

def exEc : EpCfg := ⟨.streamIn, 1, 2, 0⟩

/-- free inputs: every field the expansion determines is set to the "wrong" value on purpose -/
def exIn : In := ⟨true, true, true, true, true, true, 0x99, true, true, true, false, true, true, true⟩

def exGaps : Gaps :=
  { pre := [exIn, { exIn with txReady := false }], mid := [exIn], post := [exIn], n1 := exIn, n2 := exIn,
    stalls := fun k => List.replicate (k + 1) exIn, takes := fun _ => exIn,
    pgaps := fun k => List.replicate k exIn, pn := fun _ => exIn }

def exHistory : List (HostEvent × Gaps) :=
  [(.token PID_IN 0 1, exGaps), (.produce 1 [1, 2] true, exGaps), (.token PID_IN 0 1, exGaps), (.quiet, exGaps),
   (.token Device.PID_OUT 0 2, exGaps), (.data PID_DATA0 [9] true, exGaps),
   (.token PID_IN 0 1, exGaps), (.handshake PID_ACK, exGaps), (.token PID_IN 0 1, exGaps), (.handshake PID_ACK, exGaps),
   (.produce 1 [3] true, exGaps), (.token PID_IN 0 1, exGaps), (.handshake PID_ACK, exGaps),
   (.produce 1 [6] true, exGaps),
   (.token Device.PID_SETUP 0 0, exGaps), (.data PID_DATA0 [0x02, 1, 0, 0, 0x81, 0, 0, 0] true, exGaps),
   (.token PID_IN 0 0, exGaps), (.handshake PID_ACK, exGaps), (.token PID_IN 0 1, exGaps)]

example : ∀ x ∈ exHistory, EvOk x.1 := by decide
example : (C12.sliceRun {} exEc (Device.init, .sin {}) (exHistory.map (·.1))) =
    [{ resp := .hs PID_NAK }, { app := [2] }, { resp := .data PID_DATA0 [1, 2] }, {}, {}, {},
     { resp := .data PID_DATA0 [1, 2] }, {}, { resp := .data PID_DATA1 [] }, {},
     { app := [1] }, { resp := .data PID_DATA0 [3] }, {}, { app := [1] },
     {}, {}, {}, {}, { resp := .data PID_DATA0 [6] }] := by decide +kernel
/-- … and without the CLEAR_FEATURE transfer `[6]` goes out as DATA1 -/
example : ((C12.sliceRun {} exEc (Device.init, .sin {}) ((exHistory.take 14 ++ exHistory.drop 18).map (·.1))).map (·.resp)).getLast?
    = some (.data PID_DATA1 [6]) := by decide +kernel
example : cycWires {} exEc Device.init {} (init (cfgOf exEc)) exHistory =
    (C12.sliceRun {} exEc (Device.init, .sin {}) (exHistory.map (·.1))).map wiresOf := by decide +kernel
example : (cycWires {} exEc Device.init {} (init (cfgOf exEc)) exHistory).take 3 =
    [[.nak], [.acc, .acc], [.beat 1 true false false, .beat 2 false true false]] := by decide +kernel
example : (expandAll {} exEc Device.init {} exHistory).length = 107 := by decide +kernel

end LunaVerif.C12In
