import LunaVerif.Model.Phy.FsRx
/-!
# C25 receive chain, front end (synchronizers, line-state FSM, clock recovery, NRZI decoder) at nominal rate

Input: every line symbol held for exactly four `usb_io` cycles.  Once the first transition of a packet has
re-aligned `line_state_phase`, the front end is periodic with period 4: `G od c d` is its state in the cycle in
which `RxNRZIDecoder.o_valid` presents the bit of symbol `c` (`od` = that bit), when the symbol after `c` is `d`
(three samples of `d` are already in, the fourth is the next input).  `block` (a finite check over all
`od, c, d, e`) moves `G od c d` to `G _ d e` in four cycles; `front_blocks` is the induction over the symbol list.

The decoupling `run_split` says that the whole path is the back end fed with the front end's
(`o_valid`, `o_data`, `o_se0`) registers: there is no feedback.
-/
set_option linter.unusedSimpArgs false
namespace LunaVerif.FsRx
open LunaVerif.FsCodec

/-- what the back end sees of the front end in one cycle: `o_valid`, `o_data`, `o_se0` -/
abbrev Vdz := Bool × Bool × Bool

def Front.vdz (s : Front) : Vdz := (s.oValid, s.oData, s.oSe0)

/-- the line inputs of a symbol: J = D+ high, K = D- high -/
def symIn : Sym → In
  | .J => ⟨true, false⟩
  | .K => ⟨false, true⟩
  | .SE0 => ⟨false, false⟩

/-- nominal-rate sampling: four samples per bit time -/
def wave : List Sym → List In
  | [] => []
  | x :: w => symIn x :: symIn x :: symIn x :: symIn x :: wave w

def runF : Front → List In → Front
  | s, [] => s
  | s, i :: is => runF (s.next i.usbp i.usbn) is

/-- the (`o_valid`, `o_data`, `o_se0`) the back end sees in each cycle -/
def traceF : Front → List In → List Vdz
  | _, [] => []
  | s, i :: is => s.vdz :: traceF (s.next i.usbp i.usbn) is

def runB : Back → List Vdz → Back
  | s, [] => s
  | s, (v, d, z) :: xs => runB (s.next v d z) xs

def outsB : Back → List Vdz → List Out
  | _, [] => []
  | s, (v, d, z) :: xs => s.out v d z :: outsB (s.next v d z) xs

/-- the model, run over an input list -/
def run : St → List In → St × List Out
  | s, [] => (s, [])
  | s, i :: is => let r := run (step s i).1 is; (r.1, (step s i).2 :: r.2)

/-- **no feedback**: the receive path is the back end driven by the front end's output registers. -/
theorem run_split (ins : List In) : ∀ s : St,
    run s ins = (⟨runF s.f ins, runB s.b (traceF s.f ins)⟩, outsB s.b (traceF s.f ins)) := by
  induction ins with
  | nil => intro s; rfl
  | cons i is ih =>
    intro s
    simp only [run, step, ih, St.next, St.out, runF, traceF, runB, outsB, Front.vdz]

theorem runF_append (a b : List In) : ∀ s, runF s (a ++ b) = runF (runF s a) b := by
  induction a with
  | nil => intro s; rfl
  | cons i is ih => intro s; simp only [List.cons_append, runF, ih]

theorem traceF_append (a b : List In) : ∀ s, traceF s (a ++ b) = traceF s a ++ traceF (runF s a) b := by
  induction a with
  | nil => intro s; rfl
  | cons i is ih => intro s; simp only [List.cons_append, runF, traceF, ih]

theorem runB_append (a b : List Vdz) : ∀ s, runB s (a ++ b) = runB (runB s a) b := by
  induction a with
  | nil => intro s; rfl
  | cons x xs ih => intro s; obtain ⟨v, d, z⟩ := x; simp only [List.cons_append, runB, ih]

theorem outsB_append (a b : List Vdz) : ∀ s, outsB s (a ++ b) = outsB s a ++ outsB (runB s a) b := by
  induction a with
  | nil => intro s; rfl
  | cons x xs ih => intro s; obtain ⟨v, d, z⟩ := x; simp only [List.cons_append, runB, outsB, ih]

/-! ### the periodic regime -/

/-- `line_state_dk` for a symbol (the source's DK is D+ high, i.e. the full-speed J) -/
def dkOf : Sym → Bool | .J => true | _ => false
def djOf : Sym → Bool | .K => true | _ => false
def se0Of : Sym → Bool | .SE0 => true | _ => false
def lineOf : Sym → Line | .J => .dk | .K => .dj | .SE0 => .se0

/-- the bit the NRZI decoder produces for symbol `x` after symbol `p` -/
def bitOf (p x : Sym) : Bool := dkOf x == dkOf p

/-- The front end in the cycle that presents the bit `od` of symbol `c` on `o_valid`/`o_data`/`o_se0`, three samples
of the next symbol `d` being in. -/
def G (od : Bool) (c d : Sym) : Front :=
  { p0 := (symIn d).usbp, p1 := (symIn d).usbp, n0 := (symIn d).usbn, n1 := (symIn d).usbn,
    line := if d = c then lineOf c else .dt,
    lsSe0 := se0Of c, lsSe1 := false, lsDj := djOf c, lsDk := dkOf c,
    phase := 3, lsValid := false,
    lastData := dkOf c, oData := od, oSe0 := se0Of c, oValid := true }

/-- one bit time in the periodic regime: inputs = the last sample of `d` and three samples of `e` -/
theorem block : ∀ (od : Bool) (c d e : Sym),
    runF (G od c d) [symIn d, symIn e, symIn e, symIn e] = G (bitOf c d) d e ∧
    traceF (G od c d) [symIn d, symIn e, symIn e, symIn e] =
      [(true, od, se0Of c), (false, od, se0Of c), (false, od, se0Of c), (false, od, se0Of c)] := by
  intro od c d e
  cases od <;> cases c <;> cases d <;> cases e <;> decide

/-- the inputs from the last sample of `a` on: the symbols of `w` follow, then three more samples of J (idle) -/
def blocks : Sym → List Sym → List In
  | a, [] => [symIn a, symIn .J, symIn .J, symIn .J]
  | a, b :: w => symIn a :: symIn b :: symIn b :: symIn b :: blocks b w

theorem wave_cons_blocks (a : Sym) (w : List Sym) :
    wave (a :: w) ++ [symIn .J, symIn .J, symIn .J] = symIn a :: symIn a :: symIn a :: blocks a w := by
  induction w generalizing a with
  | nil => rfl
  | cons b w ih =>
    have := ih b
    simp only [wave, List.cons_append, blocks] at this ⊢
    rw [this]

/-- the (`o_data`, `o_se0`) bits of the symbols `w` after symbol `p` -/
def symBits : Sym → List Sym → List (Bool × Bool)
  | _, [] => []
  | p, x :: w => (bitOf p x, se0Of x) :: symBits x w

/-- a bit presented for one cycle and held for three more (what the back end sees per bit time) -/
def bitBlock (b : Bool × Bool) : List Vdz := [(true, b.1, b.2), (false, b.1, b.2), (false, b.1, b.2), (false, b.1, b.2)]

def bitBlocks : List (Bool × Bool) → List Vdz
  | [] => []
  | b :: bs => bitBlock b ++ bitBlocks bs

/-- last element of `d :: w` -/
def lastSym : Sym → List Sym → Sym
  | d, [] => d
  | _, e :: w => lastSym e w

/-- second to last element of `c :: d :: w` -/
def prevSym : Sym → Sym → List Sym → Sym
  | c, _, [] => c
  | _, d, e :: w => prevSym d e w

/-- **periodic regime**: from `G od c d`, over the rest `w` of the waveform (and three idle samples) the back end is
shown the bits of `c`, `d` and all of `w` but its last symbol, one per four cycles; the front end ends in `G` again. -/
theorem front_blocks (w : List Sym) : ∀ (od : Bool) (c d : Sym),
    runF (G od c d) (blocks d w) = G (bitOf (prevSym c d w) (lastSym d w)) (lastSym d w) .J ∧
    traceF (G od c d) (blocks d w) = bitBlocks ((od, se0Of c) :: (symBits c (d :: w)).dropLast) := by
  induction w with
  | nil =>
    intro od c d
    have := block od c d .J
    simp only [blocks, lastSym, prevSym, symBits, List.dropLast, bitBlocks, bitBlock, List.append_nil]
    exact this
  | cons e w ih =>
    intro od c d
    obtain ⟨b1, b2⟩ := block od c d e
    obtain ⟨i1, i2⟩ := ih (bitOf c d) d e
    have happ : blocks d (e :: w) = [symIn d, symIn e, symIn e, symIn e] ++ blocks e w := rfl
    rw [happ, runF_append, traceF_append, b1, b2, i1, i2]
    refine ⟨rfl, ?_⟩
    cases w <;> simp [symBits, List.dropLast, bitBlocks, bitBlock]

end LunaVerif.FsRx
