import LunaVerif.Model.Usb3.SSStreamIn
/-!
# C46 — buffer abstraction: the bytes held by a ping-pong word buffer with a byte fill count
-/
namespace LunaVerif.SSStreamIn

/-- the four bytes of a stream word, little endian (byte lane 0 first) -/
def wordBytes (w : Nat) : List Nat := [w % 256, w / 256 % 256, w / 65536 % 256, w / 16777216 % 256]

/-- the first `n` byte lanes of a word -/
def bytesOf (n w : Nat) : List Nat := (wordBytes w).take n

def wordsBytes (ws : List Nat) : List Nat := ws.flatMap wordBytes

/-- the bytes held by a buffer: `fill / 4` full words and `fill % 4` lanes of the following word -/
def bufBytes (mem : List Nat) (fill : Nat) : List Nat :=
  wordsBytes (mem.take (fill / 4)) ++ bytesOf (fill % 4) (mem.getD (fill / 4) 0)

@[simp] theorem bytesOf_zero (w : Nat) : bytesOf 0 w = [] := rfl
theorem bytesOf_four (w : Nat) : bytesOf 4 w = wordBytes w := rfl

@[simp] theorem bufBytes_zero (mem : List Nat) : bufBytes mem 0 = [] := by
  simp [bufBytes, wordsBytes]

theorem wordsBytes_append (a b : List Nat) : wordsBytes (a ++ b) = wordsBytes a ++ wordsBytes b := by
  simp [wordsBytes]

theorem wordsBytes_take_succ (mem : List Nat) (p : Nat) (h : p < mem.length) :
    wordsBytes (mem.take (p + 1)) = wordsBytes (mem.take p) ++ wordBytes (mem.getD p 0) := by
  rw [List.take_add_one, wordsBytes_append]
  simp [wordsBytes, List.getD, h]

/-- one accepted stream word appends its valid lanes to the buffer's bytes -/
theorem bufBytes_write (mem : List Nat) (fill n d : Nat) (h4 : fill % 4 = 0) (hk : fill / 4 < mem.length)
    (hn : n ≤ 4) :
    bufBytes (mem.set (fill / 4) d) (fill + n) = bufBytes mem fill ++ bytesOf n d := by
  have hz : bufBytes mem fill = wordsBytes (mem.take (fill / 4)) := by simp [bufBytes, h4]
  rw [hz]
  by_cases h : n = 4
  · subst h
    have h1 : (fill + 4) / 4 = fill / 4 + 1 := by omega
    have h2 : (fill + 4) % 4 = 0 := by omega
    have hk' : fill / 4 < (mem.set (fill / 4) d).length := by simpa using hk
    simp only [bufBytes, h1, h2, bytesOf_zero, List.append_nil]
    rw [wordsBytes_take_succ _ _ hk', List.take_set_of_le (Nat.le_refl _)]
    simp [bytesOf_four, List.getD, hk]
  · have h1 : (fill + n) / 4 = fill / 4 := by omega
    have h2 : (fill + n) % 4 = n := by omega
    simp only [bufBytes, h1, h2]
    rw [List.take_set_of_le (Nat.le_refl _)]
    simp [List.getD, hk]

theorem validBytes_lastMask (fill : Nat) :
    validBytes (lastMask fill) = if fill % 4 = 0 then 4 else fill % 4 := by
  have : fill % 4 < 4 := Nat.mod_lt _ (by omega)
  unfold lastMask
  split <;> simp_all [validBytes] <;> omega

/-- the words of a packet as SEND_PACKET emits them (full words up to the last, the last one masked by
`read_fill_count[0:2]`) carry exactly the buffer's bytes -/
theorem emitted_eq_bufBytes (mem : List Nat) (fill : Nat) (h1 : 1 ≤ fill) (hl : fill ≤ 4 * mem.length) :
    wordsBytes (mem.take ((fill - 1) / 4)) ++
        bytesOf (validBytes (lastMask fill)) (mem.getD ((fill - 1) / 4) 0) = bufBytes mem fill := by
  rw [validBytes_lastMask]
  by_cases h : fill % 4 = 0
  · have e : fill / 4 = (fill - 1) / 4 + 1 := by omega
    have hlt : (fill - 1) / 4 < mem.length := by omega
    simp only [h, if_true, bufBytes, bytesOf_zero, List.append_nil, bytesOf_four]
    rw [e, wordsBytes_take_succ _ _ hlt]
  · have e : (fill - 1) / 4 = fill / 4 := by omega
    simp only [h, if_false, bufBytes, e]

theorem length_wordsBytes (ws : List Nat) : (wordsBytes ws).length = 4 * ws.length := by
  induction ws with
  | nil => rfl
  | cons w ws ih => simp [wordsBytes, wordBytes] at ih ⊢; omega

end LunaVerif.SSStreamIn
