import LunaVerif.Lemmas.C20DeviceDecInv
import LunaVerif.Lemmas.C20DeviceDecExamples
/-!
# C20 — `decHolds2`: non-vacuity and necessity of the speed hypothesis (kernel-evaluated)
-/
namespace LunaVerif.DevDec
open LunaVerif LunaVerif.DevCyc LunaVerif.DevCyc.Abs LunaVerif.C20Ctr LunaVerif.DevEp LunaVerif.CtrlCyc LunaVerif.DevCtl

/-- The hypotheses of `dec2_closed_tx_never_during_rx` hold along the control read of `C20DeviceDecExamples.lean` (SETUP
token, DATA0 GET_DESCRIPTOR(DEVICE, 18) with CRC16, IN token; the device answers ACK and the DATA1 packet there). -/
example : exD.hs = false ∧ decHolds2 exD exPar (init exD) ghostInit phs0 z0 = true ∧
    hostHolds exD.dc.ep.dev exPar DevCyc.init ghostInit (devIns exD.dc.ep (DevEp.init exD.dc.ep) (extsD exD z0)) = true := by
  decide +kernel

/-- `hs = false` is needed: a decoder configured for high speed ACKs in the cycle of `new_packet` (cycle 20), three cycles
before the receiver's `ready_for_response` (cycle 23), so `decHolds'` fails although `decHolds2` holds. -/
def exDhs : Config := ⟨DevCtl.exC, true⟩

example : decHolds2 exDhs exPar (init exDhs) ghostInit phs0 (z0.take 22) = true ∧
    decHolds' exDhs exPar (init exDhs) ghostInit phs0 (z0.take 22) = false ∧
    ((ysOf exDhs (init exDhs) (z0.take 22)).zip (List.range 22)).filterMap
      (fun ((_, d), n) => if d.sdAck then some n else none) = [20] := by decide +kernel

/-- A receive byte wider than 8 bits breaks `decHolds2` (the deserializer truncates, the receiver's pipeline does not). -/
example : decHolds2 exD exPar (init exD) ghostInit phs0 [(rxE ⟨true, true, 0x1c3⟩, 0)] = false := by decide +kernel

end LunaVerif.DevDec
