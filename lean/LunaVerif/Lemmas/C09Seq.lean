import LunaVerif.Lemmas.C09Block
/-!
Helper definitions and lemmas for C09 "return to idle between requests": when a response is over
within a window of cycles, what the abstract trace looks like one cycle later, and the generic
sequencing argument (a machine that answers every request from an idle state and is idle again when
the response is over answers every *sequence* of requests).
-/
namespace LunaVerif.Desc

/-- the response `r`, started `lat` cycles into the window `rs` of `tx.ready` values, is over by the
end of the window: the pulse has been given / every byte of the packet has been accepted. -/
def CompleteAt (lat : Nat) (r : Response) (rs : List Bool) : Prop :=
  lat < rs.length ∧ ∀ c, r = .data c → c.length ≤ (rs.drop lat).count true

/-- the same for a handler whose latency is only known to be at most `L`. -/
def Complete (L : Nat) (r : Response) (rs : List Bool) : Prop :=
  L < rs.length ∧ ∀ c, r = .data c → c.length ≤ (rs.drop L).count true

instance (L : Nat) (r : Response) (rs : List Bool) : Decidable (Complete L r rs) := by
  unfold Complete
  cases r with
  | data c =>
    exact decidable_of_iff (L < rs.length ∧ c.length ≤ (rs.drop L).count true)
      ⟨fun h => ⟨h.1, fun c' hc => by injection hc with hc; subst hc; exact h.2⟩, fun h => ⟨h.1, h.2 c rfl⟩⟩
  | zlp => exact decidable_of_iff (L < rs.length) ⟨fun h => ⟨h, fun _ hc => by cases hc⟩, fun h => h.1⟩
  | stall => exact decidable_of_iff (L < rs.length) ⟨fun h => ⟨h, fun _ hc => by cases hc⟩, fun h => h.1⟩
  | silent => exact decidable_of_iff (L < rs.length) ⟨fun h => ⟨h, fun _ hc => by cases hc⟩, fun h => h.1⟩

theorem count_drop_le (rs : List Bool) (a b : Nat) (h : a ≤ b) : (rs.drop b).count true ≤ (rs.drop a).count true := by
  obtain ⟨k, rfl⟩ : ∃ k, b = a + k := ⟨b - a, by omega⟩
  rw [← List.drop_drop]
  exact (List.drop_sublist k _).count_le true

theorem Complete.at (L lat : Nat) (r : Response) (rs : List Bool) (h : Complete L r rs) (hl : lat ≤ L) :
    CompleteAt lat r rs :=
  ⟨by have := h.1; omega, fun c hc => Nat.le_trans (h.2 c hc) (count_drop_le rs lat L hl)⟩

theorem idleTrace_snoc (rs : List Bool) (x : Bool) : idleTrace (rs ++ [x]) = idleTrace rs ++ [Beat.quiet] := by
  simp [idleTrace]

theorem sendTrace_snoc (c : List Nat) (x : Bool) (rs : List Bool) : ∀ k, c.length - k ≤ rs.count true →
    sendTrace c k (rs ++ [x]) = sendTrace c k rs ++ [Beat.quiet] := by
  induction rs with
  | nil =>
    intro k h
    have : ¬ k < c.length := by simp at h; omega
    simp [sendTrace, this]
  | cons r rs ih =>
    intro k h
    simp only [List.cons_append, sendTrace]
    split
    · rw [ih]
      · rfl
      · cases r <;> simp at h ⊢ <;> omega
    · rw [ih k (by omega)]
      rfl

/-- one cycle after a response is over the abstract trace is quiet. -/
theorem respTrace_snoc (r : Response) (x : Bool) : ∀ (lat : Nat) (rs : List Bool), CompleteAt lat r rs →
    respTrace lat r (rs ++ [x]) = respTrace lat r rs ++ [Beat.quiet] := by
  intro lat
  induction lat with
  | zero =>
    intro rs h
    unfold respTrace
    simp only [delayed]
    cases r with
    | data c => exact sendTrace_snoc c x rs 0 (by have := h.2 c rfl; simpa using this)
    | zlp =>
      cases rs with
      | nil => have := h.1; simp at this
      | cons r rs => simp only [List.cons_append, bodyTrace, pulseTrace, idleTrace_snoc]
    | stall =>
      cases rs with
      | nil => have := h.1; simp at this
      | cons r rs => simp only [List.cons_append, bodyTrace, pulseTrace, idleTrace_snoc]
    | silent => exact idleTrace_snoc rs x
  | succ n ih =>
    intro rs h
    cases rs with
    | nil => have := h.1; simp at this
    | cons r0 rs =>
      have h' : CompleteAt n r rs := ⟨by have := h.1; simp at this; omega, fun c hc => by simpa using h.2 c hc⟩
      have := ih rs h'
      unfold respTrace at this ⊢
      simp only [List.cons_append, delayed, this]

/-! ### sequences of requests -/

/-- one GET_DESCRIPTOR data-stage IN as the handler sees it: wValue = type/index, wLength,
start position, and the `tx.ready` pattern of the cycles until the next request. -/
structure Req where
  ty  : Nat
  idx : Nat
  l   : Nat
  p   : Nat
  rs  : List Bool

/-- the output trace answers the requests one after the other, each with the abstract transmitter's
trace of its specified response after a latency of at most `L` quiet cycles. -/
def AnswersAll (spec : Req → Response) (L : Nat) : List Req → List Beat → Prop
  | [], out => out = []
  | q :: qs, out => ∃ lat, lat ≤ L ∧ ∃ rest, out = respTrace lat (spec q) q.rs ++ rest ∧ AnswersAll spec L qs rest

/-- generic sequencing: answer every request from an idle state + idle again afterwards
⇒ answer every sequence of requests. -/
theorem answersAll_of {σ ι : Type} (run : σ → List ι → List Beat) (final : σ → List ι → σ)
    (hrun : ∀ s a b, run s (a ++ b) = run s a ++ run (final s a) b)
    (hfin : ∀ s a b, final s (a ++ b) = final (final s a) b)
    (hnil : ∀ s, run s [] = [] ∧ final s [] = s)
    (Idle : σ → Prop) (inp : Req → List ι) (spec : Req → Response) (L : Nat) (Ok : Req → Prop)
    (h1 : ∀ s q, Idle s → Ok q → ∃ lat, lat ≤ L ∧ run s (inp q) = respTrace lat (spec q) q.rs)
    (h2 : ∀ s q, Idle s → Ok q → Idle (final s (inp q))) :
    ∀ (qs : List Req) (s : σ), Idle s → (∀ q ∈ qs, Ok q) →
      AnswersAll spec L qs (run s (qs.flatMap inp)) ∧ Idle (final s (qs.flatMap inp)) := by
  intro qs
  induction qs with
  | nil => intro s hs _; simp [AnswersAll, (hnil s).1, (hnil s).2, hs]
  | cons q qs ih =>
    intro s hs hq
    have hq0 := hq q (List.mem_cons_self ..)
    obtain ⟨lat, hlat, hr⟩ := h1 s q hs hq0
    have hi := h2 s q hs hq0
    obtain ⟨ha, hf⟩ := ih (final s (inp q)) hi (fun q' hq' => hq q' (List.mem_cons_of_mem _ hq'))
    rw [List.flatMap_cons, hrun, hfin, hr]
    exact ⟨⟨lat, hlat, _, rfl, ha⟩, hf⟩

end LunaVerif.Desc
