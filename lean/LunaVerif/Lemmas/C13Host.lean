import LunaVerif.Model.Usb2.StreamOutEndpoint
/-!
# C13 — the host side: `LegalHost`, the host-visible specification, and the boundary detector's view

* `Phase` / `Phase.step` / `LegalHost`: a decidable acceptor for cycle-level input histories of the
  endpoint.  It follows one transaction after the other: a token strobe, then (for OUT) a data packet
  of the shape `USBDataPacketReceiver` produces (`valid` high, bytes on `next`, exactly one of
  `rx_complete` / `rx_invalid` in the cycle `valid` falls), then — for a CRC-valid packet — one
  `rx_ready_for_response` cycle at least one cycle later (any delay), while the token fields and the
  data PID stay stable.  A data packet is bounded by `max_packet_size` only in a transaction addressed to
  the endpoint (`lenOk`); a packet that follows any other token (another endpoint, SETUP, IN, PING) may
  have any length.  Everything else is free in every cycle: the consumer's `ready`, the
  tokenizer's `ready_for_response` (PING), traffic addressed to other endpoints, corrupted packets,
  repeated toggles, DATA2/MDATA PIDs, ClearFeature(HALT) outside the endpoint's own transactions.
  (`Phase.stepStrict` / `LegalHostStrict` in Props/C13Foreign.lean: the former acceptor, which bounded every
  bus packet by this endpoint's `max_packet_size`; it implies this one.)
* `expected`: what a host-side observer computes from the inputs and the ACK line alone: the payloads
  of the packets ACKed with the expected toggle, with the transfer marks.
* `DetRel`: the state of the boundary detector as a function of the phase (the cycle-level companion of
  C28's `detector_refines_transducer`, which speaks about whole event lists; the handshake logic needs the
  exact cycle).
-/
namespace LunaVerif.StreamOutEndpoint
open LunaVerif

/-! ## Transactions as the endpoint sees them -/

structure Tok where
  ep     : Nat
  isOut  : Bool
  isPing : Bool
deriving DecidableEq, Repr

def Tok.of (i : In) : Tok := ⟨i.tokEp, i.tokIsOut, i.tokIsPing⟩
/-- the tokenizer decodes one PID: OUT and PING are never flagged together -/
def Tok.wf (t : Tok) : Bool := !(t.isOut && t.isPing)
def Tok.targets (c : Config) (t : Tok) : Bool := t.ep == c.epNum && t.isOut

def isByte (i : In) : Bool := i.rx.valid && i.rx.next
def strobeAny (i : In) : Bool := i.rx.completeIn || i.rx.invalidIn
/-- exactly one of `rx_complete` / `rx_invalid` -/
def strobeOne (i : In) : Bool := i.rx.completeIn != i.rx.invalidIn

/-- Where the host stands at the beginning of a cycle.  `sent` = bytes of the running packet the
boundary detector has already passed on, `now` = the byte it presents in this cycle, `buf` = the byte it
holds back (it learns only one byte later whether a byte was the last one). -/
inductive Phase where
  | idle                                                                    -- no token yet / transaction over
  | tok (t : Tok)                                                           -- token seen, no data byte yet
  | rx (t : Tok) (pid : Nat) (sent : List Nat) (now : Option Nat) (buf : Nat)      -- packet running
  | finByte (t : Tok) (pid : Nat) (sent : List Nat) (now : Option Nat) (ok : Bool) -- `valid` fell in the previous cycle
  | finStrobe (t : Tok) (pid : Nat) (bytes : List Nat) (ok responded : Bool)       -- two cycles after `valid` fell
  | finWait (t : Tok) (pid : Nat) (bytes : List Nat)                        -- CRC-valid packet waiting for the response request
deriving DecidableEq, Repr

/-- token fields and data PID are stable, no new token, and no ClearFeature(HALT) for the endpoint in the
middle of its own transaction -/
def stable (c : Config) (t : Tok) (pid : Nat) (i : In) : Bool :=
  Tok.of i == t && i.pidToggle == pid && !i.tokNew && !(i.clearHalt && t.targets c)

/-- The length bound of a data packet: `n` bytes are acceptable in a transaction whose token is `t`.  Only the
packets of a transaction addressed to the endpoint (`t.targets c`: the token registers name the endpoint, OUT) are
bounded by its `max_packet_size` (USB 2.0 §5.8.3: the host never sends more to an endpoint than its descriptor
says); a packet of any other transaction on the bus — another endpoint, a SETUP / IN / PING transaction — may
have ANY length (an 8-byte SETUP packet next to a 4-byte OUT endpoint, a 512-byte packet for another endpoint). -/
def lenOk (c : Config) (t : Tok) (n : Nat) : Bool := !t.targets c || decide (n ≤ c.mps)

theorem lenOk_inv {c : Config} {t : Tok} {n : Nat} (h : lenOk c t n = true) : t.targets c = true → n ≤ c.mps := by
  simp only [lenOk] at h
  grind

/-- One cycle of the acceptor; `none` = the input is outside `LegalHost`. -/
def Phase.step (c : Config) : Phase → In → Option Phase
  | .idle, i =>
    if isByte i || i.rxReady then none
    else if i.tokNew then (if (Tok.of i).wf then some (.tok (Tok.of i)) else none)
    else some .idle
  | .tok t, i =>
    if i.rxReady then none
    else if i.tokNew then (if (Tok.of i).wf && !isByte i then some (.tok (Tok.of i)) else none)
    else if Tok.of i != t then none
    else if isByte i then
      (if !strobeAny i && lenOk c t 1 then some (.rx t i.pidToggle [] none i.rx.payload) else none)
    else if strobeAny i then
      (if strobeOne i then some (.finByte t i.pidToggle [] none i.rx.completeIn) else none)   -- zero-length packet
    else some (.tok t)
  | .rx t pid sent now buf, i =>
    if !stable c t pid i || i.rxReady then none
    else if isByte i then
      (if !strobeAny i && lenOk c t (sent.length + now.toList.length + 2)
        then some (.rx t pid (sent ++ now.toList) (some buf) i.rx.payload) else none)
    else if i.rx.valid then
      (if !strobeAny i then some (.rx t pid (sent ++ now.toList) none buf) else none)
    else (if strobeOne i then some (.finByte t pid (sent ++ now.toList) (some buf) i.rx.completeIn) else none)
  | .finByte t pid sent now ok, i =>
    if !stable c t pid i || isByte i || (i.rxReady && !ok) then none
    else some (.finStrobe t pid (sent ++ now.toList) ok i.rxReady)
  | .finStrobe t pid bytes ok responded, i =>
    if !stable c t pid i || isByte i || (i.rxReady && (!ok || responded)) then none
    else if responded || i.rxReady || !ok then some .idle else some (.finWait t pid bytes)
  | .finWait t pid bytes, i =>
    if !stable c t pid i || isByte i then none
    else if i.rxReady then some .idle else some (.finWait t pid bytes)

/-- the phase after a history (`none` when the history leaves `LegalHost`) -/
def Phase.run (c : Config) : Phase → List In → Option Phase
  | p, [] => some p
  | p, i :: is => match p.step c i with
    | some p' => Phase.run c p' is
    | none => none

/-- no transaction is in flight -/
def Phase.quiet : Phase → Bool
  | .idle => true
  | .tok _ => true
  | _ => false

/-- **LegalHost**: the history is accepted and consists of complete transactions. -/
def LegalHost (c : Config) (ins : List In) : Bool :=
  match Phase.run c .idle ins with
  | some p => p.quiet
  | none => false

/-! ## What the host-side observer expects on the consumer stream -/

/-- a consumer-side transfer: (payload, first, last) -/
abbrev Entry := Nat × Bool × Bool

/-- the bytes of one packet with their marks: `f` on the first byte, `short` on the final one -/
def marks (f short : Bool) : List Nat → List Entry
  | [] => []
  | [b] => [(b % 256, f, short)]
  | b :: b' :: bs => (b % 256, f, false) :: marks false short (b' :: bs)

/-- entries of an accepted packet: `first` on its first byte iff no transfer is open, `last` on its final
byte iff it is a short packet -/
def pktEntries (c : Config) (open_ : Bool) (bytes : List Nat) : List Entry :=
  marks (!open_) (decide (bytes.length < c.mps)) bytes

/-- the observer's bookkeeping: the data toggle it expects the endpoint to expect, and whether a transfer
is open (the last accepted packet was a max-size one) -/
structure Acct where
  toggle : Bool
  open_  : Bool
deriving DecidableEq, Repr

/-- the data packet (PID toggle bits, payload) answered in this cycle, if it is addressed to the endpoint -/
def Phase.answered (c : Config) : Phase → In → Option (Nat × List Nat)
  | .finByte t pid sent now _, i => if i.rxReady && t.targets c then some (pid, sent ++ now.toList) else none
  | .finStrobe t pid bytes _ _, i => if i.rxReady && t.targets c then some (pid, bytes) else none
  | .finWait t pid bytes, i => if i.rxReady && t.targets c then some (pid, bytes) else none
  | _, _ => none

def tn (b : Bool) : Nat := if b then 1 else 0

/-- One cycle of the observer: a packet is *newly accepted* iff it is ACKed and carries the expected
toggle; ClearFeature(HALT) resets the toggle. -/
def Acct.step (c : Config) (a : Acct) (p : Phase) (i : In) (ack : Bool) : Acct × List Entry :=
  let r : Acct × List Entry :=
    match p.answered c i with
    | some (pid, bytes) =>
      if ack && pid == tn a.toggle then (⟨!a.toggle, bytes.length == c.mps⟩, pktEntries c a.open_ bytes) else (a, [])
    | none => (a, [])
  (⟨if i.clearHalt then false else r.1.toggle, r.1.open_⟩, r.2)

/-- the payloads (with marks) of all newly accepted packets of a history, in order -/
def expected (c : Config) : Acct → Phase → List In → List Out → List Entry
  | a, p, i :: is, o :: os =>
    match p.step c i with
    | some p' => (a.step c p i o.ack).2 ++ expected c (a.step c p i o.ack).1 p' is os
    | none => []
  | _, _, _, _ => []

/-! ## The boundary detector, cycle by cycle -/

/-- what the endpoint's glue logic can see of the detector's outputs in a cycle that starts in phase `p`
(`payload`/`first`/`last` matter only under `next ∧ valid`) -/
def View (p : Phase) (o : BoundaryDetector.Out) : Prop :=
  match p with
  | .idle | .tok _ | .finWait .. => o.next = false ∧ o.completeOut = false ∧ o.invalidOut = false
  | .rx _ _ sent now _ =>
    o.completeOut = false ∧ o.invalidOut = false ∧
    (match now with
     | none => o.next = false
     | some x => o.next = true ∧ o.valid = true ∧ o.payload = x ∧ o.first = sent.isEmpty ∧ o.last = false)
  | .finByte _ _ sent now _ =>
    o.completeOut = false ∧ o.invalidOut = false ∧
    (match now with
     | none => o.next = false
     | some x => o.next = true ∧ o.valid = true ∧ o.payload = x ∧ o.first = sent.isEmpty ∧ o.last = true)
  | .finStrobe _ _ bytes ok _ =>
    o.next = false ∧ o.completeOut = (ok && !bytes.isEmpty) ∧ o.invalidOut = (!ok && !bytes.isEmpty)

/-- the detector's state as a function of the phase -/
def DetRel (p : Phase) (d : BoundaryDetector.State) : Prop :=
  View p d.out ∧
  (match p with
   | .idle | .tok _ | .finWait .. | .finStrobe .. => d.fsm = .waitFirst
   | .rx _ _ sent now buf =>
     d.fsm = .receive ∧ d.bufferedByte = buf ∧ d.isFirstByte = (sent.isEmpty && now.isNone) ∧
     d.bufferedComplete = false ∧ d.bufferedInvalid = false ∧ d.out.last = false
   | .finByte _ _ sent now ok =>
     match now with
     | none => d.fsm = .waitFirst ∧ sent = []
     | some _ => d.fsm = .strobes ∧ d.bufferedComplete = ok ∧ d.bufferedInvalid = !ok)

theorem detRel_init : DetRel .idle BoundaryDetector.init := by
  simp [DetRel, View, BoundaryDetector.init]

/-! ### Inversion of the acceptor (one lemma per phase) -/

theorem stable_inv {c : Config} {t : Tok} {pid : Nat} {i : In} (h : stable c t pid i = true) :
    Tok.of i = t ∧ i.pidToggle = pid ∧ i.tokNew = false ∧ (i.clearHalt && t.targets c) = false := by
  simp only [stable] at h
  grind

theorem step_idle_inv {c : Config} {i : In} {p' : Phase} (h : Phase.step c .idle i = some p') :
    isByte i = false ∧ i.rxReady = false ∧
    ((i.tokNew = true ∧ (Tok.of i).wf = true ∧ p' = .tok (Tok.of i)) ∨ (i.tokNew = false ∧ p' = .idle)) := by
  simp only [Phase.step] at h
  repeat' split at h
  all_goals simp_all

theorem step_tok_inv {c : Config} {t : Tok} {i : In} {p' : Phase} (h : Phase.step c (.tok t) i = some p') :
    i.rxReady = false ∧
    ((i.tokNew = true ∧ (Tok.of i).wf = true ∧ isByte i = false ∧ p' = .tok (Tok.of i))
     ∨ (i.tokNew = false ∧ Tok.of i = t ∧ isByte i = true ∧ strobeAny i = false ∧ lenOk c t 1 = true ∧
          p' = .rx t i.pidToggle [] none i.rx.payload)
     ∨ (i.tokNew = false ∧ Tok.of i = t ∧ isByte i = false ∧ strobeOne i = true ∧
          p' = .finByte t i.pidToggle [] none i.rx.completeIn)
     ∨ (i.tokNew = false ∧ Tok.of i = t ∧ isByte i = false ∧ strobeAny i = false ∧ p' = .tok t)) := by
  simp only [Phase.step] at h
  repeat' split at h
  all_goals simp_all

theorem step_rx_inv {c : Config} {t : Tok} {pid : Nat} {sent : List Nat} {now : Option Nat} {buf : Nat} {i : In}
    {p' : Phase} (h : Phase.step c (.rx t pid sent now buf) i = some p') :
    stable c t pid i = true ∧ i.rxReady = false ∧
    ((isByte i = true ∧ strobeAny i = false ∧ lenOk c t (sent.length + now.toList.length + 2) = true ∧
        p' = .rx t pid (sent ++ now.toList) (some buf) i.rx.payload)
     ∨ (isByte i = false ∧ i.rx.valid = true ∧ strobeAny i = false ∧ p' = .rx t pid (sent ++ now.toList) none buf)
     ∨ (isByte i = false ∧ i.rx.valid = false ∧ strobeOne i = true ∧
        p' = .finByte t pid (sent ++ now.toList) (some buf) i.rx.completeIn)) := by
  simp only [Phase.step] at h
  repeat' split at h
  all_goals simp_all

theorem step_finByte_inv {c : Config} {t : Tok} {pid : Nat} {sent : List Nat} {now : Option Nat} {ok : Bool} {i : In}
    {p' : Phase} (h : Phase.step c (.finByte t pid sent now ok) i = some p') :
    stable c t pid i = true ∧ isByte i = false ∧ (i.rxReady = true → ok = true) ∧
    p' = .finStrobe t pid (sent ++ now.toList) ok i.rxReady := by
  simp only [Phase.step] at h
  repeat' split at h
  all_goals simp_all

theorem step_finStrobe_inv {c : Config} {t : Tok} {pid : Nat} {bytes : List Nat} {ok responded : Bool} {i : In}
    {p' : Phase} (h : Phase.step c (.finStrobe t pid bytes ok responded) i = some p') :
    stable c t pid i = true ∧ isByte i = false ∧ (i.rxReady = true → ok = true ∧ responded = false) ∧
    (((responded || i.rxReady || !ok) = true ∧ p' = .idle)
     ∨ (responded = false ∧ i.rxReady = false ∧ ok = true ∧ p' = .finWait t pid bytes)) := by
  simp only [Phase.step] at h
  repeat' split at h
  all_goals simp_all

theorem step_finWait_inv {c : Config} {t : Tok} {pid : Nat} {bytes : List Nat} {i : In}
    {p' : Phase} (h : Phase.step c (.finWait t pid bytes) i = some p') :
    stable c t pid i = true ∧ isByte i = false ∧
    ((i.rxReady = true ∧ p' = .idle) ∨ (i.rxReady = false ∧ p' = .finWait t pid bytes)) := by
  simp only [Phase.step] at h
  repeat' split at h
  all_goals simp_all

/-! ### The detector follows the phase -/

theorem DetRel.view {p : Phase} {d : BoundaryDetector.State} (h : DetRel p d) : View p d.out := h.1

/-- **Detector layer**: along every accepted history the detector's registers are the function `DetRel` of
the host's phase. -/
theorem detRel_step {c : Config} {p p' : Phase} {d : BoundaryDetector.State} {i : In}
    (h : DetRel p d) (hs : p.step c i = some p') : DetRel p' (BoundaryDetector.step d i.rx) := by
  obtain ⟨fsm, out, bb, fb, bc, bi⟩ := d
  cases p with
  | idle =>
    obtain ⟨_, hf⟩ := h
    simp only at hf; subst hf
    obtain ⟨hb, _, h3⟩ := step_idle_inv hs
    simp only [isByte] at hb
    rcases h3 with ⟨_, _, rfl⟩ | ⟨_, rfl⟩ <;> simp [DetRel, View, BoundaryDetector.step, hb]
  | tok t =>
    obtain ⟨_, hf⟩ := h
    simp only at hf; subst hf
    obtain ⟨_, h3⟩ := step_tok_inv hs
    simp only [isByte] at h3
    rcases h3 with ⟨_, _, hb, rfl⟩ | ⟨_, _, hb, _, _, rfl⟩ | ⟨_, _, hb, _, rfl⟩ | ⟨_, _, hb, _, rfl⟩ <;>
      simp [DetRel, View, BoundaryDetector.step, hb]
  | rx t pid sent now buf =>
    obtain ⟨hv, hf, hbb, hfb, hbc, hbi, hl⟩ := h
    simp only at hf hbb hfb hbc hbi hl; subst hf hbb hfb hbc hbi
    obtain ⟨_, _, h3⟩ := step_rx_inv hs
    simp only [isByte, strobeAny, strobeOne] at h3
    simp only [View] at hv
    rcases h3 with ⟨hb, hst, _, rfl⟩ | ⟨hb, hvl, hst, rfl⟩ | ⟨hb, hvl, hst, rfl⟩
    · have : i.rx.valid = true := by simp_all
      cases now <;> simp_all [DetRel, View, BoundaryDetector.step]
    · cases now <;> simp_all [DetRel, View, BoundaryDetector.step]
    · cases now <;> simp_all [DetRel, View, BoundaryDetector.step] <;> grind
  | finByte t pid sent now ok =>
    obtain ⟨_, _, _, rfl⟩ := step_finByte_inv hs
    obtain ⟨hv, hm⟩ := h
    simp only [View] at hv
    cases now with
    | none =>
      obtain ⟨hf, rfl⟩ := hm
      simp only at hf; subst hf
      have hb : isByte i = false := (step_finByte_inv hs).2.1
      simp only [isByte] at hb
      simp [DetRel, View, BoundaryDetector.step, hb]
    | some x =>
      obtain ⟨hf, hbc, hbi⟩ := hm
      simp only at hf hbc hbi; subst hf hbc hbi
      simp_all [DetRel, View, BoundaryDetector.step]
  | finStrobe t pid bytes ok responded =>
    obtain ⟨_, hf⟩ := h
    simp only at hf; subst hf
    obtain ⟨_, hb, _, h3⟩ := step_finStrobe_inv hs
    simp only [isByte] at hb
    rcases h3 with ⟨_, rfl⟩ | ⟨_, _, _, rfl⟩ <;> simp [DetRel, View, BoundaryDetector.step, hb]
  | finWait t pid bytes =>
    obtain ⟨_, hf⟩ := h
    simp only at hf; subst hf
    obtain ⟨_, hb, h3⟩ := step_finWait_inv hs
    simp only [isByte] at hb
    rcases h3 with ⟨_, rfl⟩ | ⟨_, rfl⟩ <;> simp [DetRel, View, BoundaryDetector.step, hb]

end LunaVerif.StreamOutEndpoint
