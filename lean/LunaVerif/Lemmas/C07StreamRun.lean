import LunaVerif.Lemmas.C07StreamMain
/-!
# `cycle_refines_event` for EVERY handler state and EVERY event — part 5: bus reset, histories
(see Lemmas/C07Stream.lean for the set-up).

The bus reset does not reach the control endpoint: `USBDevice` clears its `address` / `configuration` registers
while `reset_sequencer.bus_reset` is high (device.py; that assignment comes last, so it wins over the
`address_changed` / `config_changed` strobes of the same cycle).  Cycles are therefore annotated with the value of
`bus_reset` (`Bool × CycIn`) and device.py's two registers follow `regsStepR`.
-/
namespace LunaVerif.CtrlCyc
open LunaVerif.Device

/-- device.py: `If(address_changed): address.eq(new_address)`, `If(config_changed): configuration.eq(new_config)`,
then `If(bus_reset): address.eq(0), configuration.eq(0)`. -/
def regsStepR (ac : Nat × Nat) (rst : Bool) (o : CycOut) : Nat × Nat :=
  if rst then (0, 0)
  else (if o.addressChanged then o.newAddress else ac.1, if o.configChanged then o.newConfig else ac.2)

def regsAfterR : Nat × Nat → List (Bool × CycOut) → Nat × Nat
  | ac, [] => ac
  | ac, (rst, o) :: os => regsAfterR (regsStepR ac rst o) os

/-- The outputs of the cycles, with the `bus_reset` value of the cycle. -/
def outsR (cyc : Cfg) : CycState → List (Bool × CycIn) → List (Bool × CycOut)
  | _, [] => []
  | cs, (r, i) :: is => (r, (step cyc cs i).2) :: outsR cyc (step cyc cs i).1 is

/-- Cycles without bus reset. -/
def noRst (is : List CycIn) : List (Bool × CycIn) := is.map (fun i => (false, i))

theorem noRst_snd (is : List CycIn) : (noRst is).map (·.2) = is := by
  simp [noRst, Function.comp_def]

theorem regsAfterR_append (ac : Nat × Nat) (x y : List (Bool × CycOut)) :
    regsAfterR ac (x ++ y) = regsAfterR (regsAfterR ac x) y := by
  induction x generalizing ac with
  | nil => rfl
  | cons o os ih => obtain ⟨r, o⟩ := o; exact ih _

theorem outsR_append (cyc : Cfg) (cs : CycState) (a b : List (Bool × CycIn)) :
    outsR cyc cs (a ++ b) = outsR cyc cs a ++ outsR cyc (final cyc cs (a.map (·.2))) b := by
  induction a generalizing cs with
  | nil => rfl
  | cons i is ih =>
    obtain ⟨r, i⟩ := i
    simp only [List.cons_append, outsR, List.map_cons, final, ih]

theorem regsAfterR_noRst (cyc : Cfg) (cs : CycState) (ac : Nat × Nat) (is : List CycIn) :
    regsAfterR ac (outsR cyc cs (noRst is)) = regsAfter ac (outs cyc cs is) := by
  induction is generalizing cs ac with
  | nil => rfl
  | cons i is ih =>
    simp only [noRst, List.map_cons, outsR, regsAfterR, regsStepR, Bool.false_eq_true, if_false, outs, run, regsAfter]
    exact ih _ _

/-- `SimO` over cycles annotated with `bus_reset`. -/
def SimRO (cyc : Cfg) (d d' : DevState) (ris : List (Bool × CycIn)) (ob ob' : Obs) : Prop :=
  ∀ cs, Rel d cs →
    Rel d' (final cyc cs (ris.map (·.2))) ∧ obsRun cyc ob cs (ris.map (·.2)) = ob' ∧
    regsAfterR (d.address, d.config) (outsR cyc cs ris) = (d'.address, d'.config)

theorem SimO.simRO {cyc : Cfg} {d d' : DevState} {is : List CycIn} {ob ob' : Obs} (h : SimO cyc d d' is ob ob') :
    SimRO cyc d d' (noRst is) ob ob' := by
  intro cs hr
  obtain ⟨a1, a2, a3⟩ := h cs hr
  rw [noRst_snd, regsAfterR_noRst]
  exact ⟨a1, a2, a3⟩

theorem SimRO.append {cyc : Cfg} {d d1 d2 : DevState} {a b : List (Bool × CycIn)} {o0 o1 o2 : Obs}
    (h1 : SimRO cyc d d1 a o0 o1) (h2 : SimRO cyc d1 d2 b o1 o2) : SimRO cyc d d2 (a ++ b) o0 o2 := by
  intro cs hr
  obtain ⟨a1, a2, a3⟩ := h1 cs hr
  obtain ⟨b1, b2, b3⟩ := h2 _ a1
  rw [List.map_append]
  refine ⟨by rw [final_append]; exact b1, ?_, ?_⟩
  · rw [obsRun_append, a2, b2]
  · rw [outsR_append, regsAfterR_append, a3, b3]

/-- A cycle with `bus_reset` high: invisible to the control endpoint, clears device.py's registers. -/
theorem sim_reset_cycle (c : DevConfig) (d : DevState) (n : CycIn) :
    SimRO (cfgOf c) d { d with address := 0, config := 0 } [(true, envIn d (calm d n))] .idle .idle := by
  intro cs hr
  obtain ⟨a, b, nf, _, _⟩ := sim_quiet_s c d (calm d n) (calmH_calm d n) cs hr
  refine ⟨⟨a.stage, a.h.congr rfl rfl rfl rfl⟩, ?_, rfl⟩
  simp only [List.map_cons, List.map_nil, obsRun, obsStep, seen, b, nf]
  simp [Resp.isNone]

/-- The cycles of an event, annotated with `bus_reset`: a bus reset is idle cycles for the control endpoint, with
`bus_reset` high in at least one of them (`g.n1`, then the cycles `g.mid`); every other event is `expandS`. -/
def expandR (c : DevConfig) (d : DevState) (e : HostEvent) (g : GapsS) : List (Bool × CycIn) :=
  match e with
  | .busReset =>
      noRst (idleS d g.pre) ++ ((true, envIn d (calm d g.n1)) ::
        ((idleS { d with address := 0, config := 0 } g.mid).map (fun i => (true, i)) ++
          noRst (idleS { d with address := 0, config := 0 } g.post)))
  | _ => noRst (expandS c d e g)

theorem sim_reset_cycles (c : DevConfig) (d : DevState) (h0 : d.address = 0) (h1 : d.config = 0) (ns : List CycIn) :
    SimRO (cfgOf c) d d ((idleS d ns).map (fun i => (true, i))) .idle .idle := by
  induction ns with
  | nil => intro cs hr; exact ⟨hr, rfl, rfl⟩
  | cons n ns ih =>
    have h := sim_reset_cycle c d n
    have hd : ({ d with address := 0, config := 0 } : DevState) = d := by
      cases d; simp_all
    rw [hd] at h
    exact h.append ih

/-- **`cycle_refines_event`, every handler state, every event** (bus reset included): running the cycle-level
composition over the expansion of `e` from ANY cycle-level state related to `d` ends related to the event-level
successor, the bus carries exactly the event-level response, and device.py's address / configuration registers
(strobes and bus reset) take the event-level values. -/
theorem cycle_refines_event_all (c : DevConfig) (hx : c.extra = []) (hmp : c.maxPacket = 64) (d : DevState)
    (e : HostEvent) (g : GapsS) (hinv : Inv d) (hcfg : d.config < 256) (hfit : StreamFits c d e g = true) :
    SimRO (cfgOf c) d (core c d e).1 (expandR c d e g) .idle (obsOf (core c d e).2) := by
  by_cases hrst : e = .busReset
  · subst hrst
    have hcore : core c d .busReset = ({ d with address := 0, config := 0 }, .none) := rfl
    rw [hcore]
    simp only [expandR]
    have h1 := (sim_idleS c d g.pre).simRO
    have h2 := sim_reset_cycle c d g.n1
    have h3 := sim_reset_cycles c { d with address := 0, config := 0 } rfl rfl g.mid
    have h4 := (sim_idleS c { d with address := 0, config := 0 } g.post).simRO
    exact h1.append (SimRO.append (a := [_]) h2 (h3.append h4))
  · have h := (cycle_refines_event_streams c hx hmp d e g hinv hcfg hfit hrst).simRO
    cases e <;> first | exact absurd rfl hrst | exact h

/-! ### Histories -/

theorem config_lt_core (c : DevConfig) (d : DevState) (e : HostEvent) (h : d.config < 256) :
    (core c d e).1.config < 256 := by
  cases e with
  | token pid addr ep =>
    simp only [core]
    split
    · rw [(onToken_regs c d pid ep).2]; exact h
    · exact h
  | data dp p ok => simp only [core]; rw [(onData_regs c d p ok).2]; exact h
  | handshake pid =>
    simp only [core]
    by_cases hc : (onHandshake d pid).config = d.config
    · rw [hc]; exact h
    · rw [(onHandshake_config d pid hc).2.2]; exact Nat.mod_lt _ (by decide)
  | busReset => simp [core]
  | sof f => exact h
  | malformed b => exact h
  | quiet => exact h
  | produce e' b l => exact h
  | consume e' k => exact h
  | setSignal e' v => exact h

theorem config_lt_step (c : DevConfig) (d : DevState) (x : Stim) (h : d.config < 256) :
    (Device.step c d x).1.config < 256 := by
  rw [Device.step_config]; exact config_lt_core c d x.ev h

/-- The cycles of a whole history (every event with its own idle-cycle counts, free inputs, stream window). -/
def expandAllR (c : DevConfig) : DevState → List (Stim × GapsS) → List (Bool × CycIn)
  | _, [] => []
  | d, (x, g) :: rest => expandR c d x.ev g ++ expandAllR c (Device.step c d x).1 rest

/-- The cycle-level bus responses, event by event. -/
def busResps (c : DevConfig) : DevState → CycState → List (Stim × GapsS) → List Resp
  | _, _, [] => []
  | d, cs, (x, g) :: rest =>
      busResp (cfgOf c) cs ((expandR c d x.ev g).map (·.2)) ::
        busResps c (Device.step c d x).1 (final (cfgOf c) cs ((expandR c d x.ev g).map (·.2))) rest

/-- Every stream window of the history is long enough (`StreamFits`, event by event). -/
def FitsFrom (c : DevConfig) : DevState → List (Stim × GapsS) → Bool
  | _, [] => true
  | d, (x, g) :: rest => StreamFits c d x.ev g && FitsFrom c (Device.step c d x).1 rest

/-- One event of a history: `cycle_refines_event_all` with the ghost bookkeeping of `Device.step` on top. -/
theorem cycle_refines_step_all (c : DevConfig) (hx : c.extra = []) (hmp : c.maxPacket = 64) (d : DevState)
    (x : Stim) (g : GapsS) (hinv : Inv d) (hcfg : d.config < 256) (hfit : StreamFits c d x.ev g = true) :
    SimRO (cfgOf c) d (Device.step c d x).1 (expandR c d x.ev g) .idle (obsOf (core c d x.ev).2) := by
  have h1 := cycle_refines_event_all c hx hmp d x.ev g hinv hcfg hfit
  have h2 : SimRO (cfgOf c) (core c d x.ev).1 (Device.step c d x).1 [] (obsOf (core c d x.ev).2)
      (obsOf (core c d x.ev).2) := by
    intro cs hr
    exact ⟨⟨hr.stage, hr.h.congr rfl rfl rfl rfl⟩, rfl, rfl⟩
  simpa using h1.append h2

/-- **`cycle_refines_event`, histories, no exclusions on the handler state or the event kind.**  Along EVERY event
history (standard requests of all kinds incl. GET_STATUS / GET_CONFIGURATION / GET_DESCRIPTOR data stages of any
number of packets, bus resets, arbitrary foreign traffic), with arbitrary idle-cycle counts, free inputs, streamer
latencies and `tx.ready` patterns per event such that every started streamer finishes within its event's window:
the cycle-level composition, run over the concatenated expansions from any state related to the event-level start
state, ends related to the event-level final state, the bus carries for every event exactly the event-level
response (payload bytes, data PID, handshake), and device.py's address / configuration registers end with the
event-level values. -/
theorem cycle_refines_event_streams_run (c : DevConfig) (hx : c.extra = []) (hmp : c.maxPacket = 64)
    (h : List (Stim × GapsS)) (d : DevState) (hinv : Inv d) (hcfg : d.config < 256) (hfit : FitsFrom c d h = true)
    (cs : CycState) (hr : Rel d cs) :
    Rel (Device.final c d (h.map (·.1))) (final (cfgOf c) cs ((expandAllR c d h).map (·.2))) ∧
    busResps c d cs h = coreResps c d (h.map (·.1)) ∧
    regsAfterR (d.address, d.config) (outsR (cfgOf c) cs (expandAllR c d h)) =
      ((Device.final c d (h.map (·.1))).address, (Device.final c d (h.map (·.1))).config) := by
  induction h generalizing d cs with
  | nil => exact ⟨hr, rfl, rfl⟩
  | cons xg rest ih =>
    obtain ⟨x, g⟩ := xg
    simp only [FitsFrom, Bool.and_eq_true] at hfit
    obtain ⟨a1, a2, a3⟩ := cycle_refines_step_all c hx hmp d x g hinv hcfg hfit.1 cs hr
    obtain ⟨b1, b2, b3⟩ := ih (Device.step c d x).1 (inv_step c d x hinv) (config_lt_step c d x hcfg) hfit.2 _ a1
    refine ⟨?_, ?_, ?_⟩
    · simp only [List.map_cons, Device.final, expandAllR, List.map_append]
      rw [final_append]; exact b1
    · simp only [List.map_cons, busResps, coreResps, b2]
      congr 1
      unfold busResp
      rw [a2, obsOf_resp]
    · simp only [List.map_cons, Device.final, expandAllR]
      rw [outsR_append, regsAfterR_append, a3, b3]

theorem cycle_refines_event_streams_from_reset (c : DevConfig) (hx : c.extra = []) (hmp : c.maxPacket = 64)
    (h : List (Stim × GapsS)) (hfit : FitsFrom c Device.init h = true) :
    Rel (Device.final c Device.init (h.map (·.1)))
      (final (cfgOf c) CtrlCyc.init ((expandAllR c Device.init h).map (·.2))) ∧
    busResps c Device.init CtrlCyc.init h = coreResps c Device.init (h.map (·.1)) ∧
    regsAfterR (0, 0) (outsR (cfgOf c) CtrlCyc.init (expandAllR c Device.init h)) =
      ((Device.final c Device.init (h.map (·.1))).address, (Device.final c Device.init (h.map (·.1))).config) :=
  cycle_refines_event_streams_run c hx hmp h Device.init inv_init (by decide) hfit CtrlCyc.init rel_init

end LunaVerif.CtrlCyc
